package main

import (
	"fmt"
	"reflect"
	"strings"
	"time"

	"github.com/unravelin/null"
)

// TypePrinter turns reflect.Types into the model's [ty] terms plus the struct
// environment ([env]) they refer to.
type TypePrinter struct {
	ids    map[reflect.Type]int
	defs   []string // printed sdefs, by id
	named  map[reflect.Type]int
	nnamed int
}

func newTypePrinter() *TypePrinter {
	return &TypePrinter{ids: map[reflect.Type]int{}, named: map[reflect.Type]int{}}
}

var (
	tTime       = reflect.TypeOf(time.Time{})
	tNullInt    = reflect.TypeOf(null.Int{})
	tNullBool   = reflect.TypeOf(null.Bool{})
	tNullFloat  = reflect.TypeOf(null.Float{})
	tNullString = reflect.TypeOf(null.String{})
	tNullTime   = reflect.TypeOf(null.Time{})
	tBytes      = reflect.TypeOf([]byte(nil))
	tAny        = reflect.TypeOf((*any)(nil)).Elem()
	tJSONMap    = reflect.TypeOf(map[string]any(nil))
	tJSONArr    = reflect.TypeOf([]any(nil))
)

func extKind(t reflect.Type) int {
	switch t {
	case tTime:
		return 0
	case tNullInt:
		return 1
	case tNullBool:
		return 2
	case tNullFloat:
		return 3
	case tNullString:
		return 4
	case tNullTime:
		return 5
	}
	return -1
}

func isPredeclared(t reflect.Type) bool { return t.PkgPath() == "" }

func (p *TypePrinter) Ty(t reflect.Type) string {
	if k := extKind(t); k >= 0 {
		return fmt.Sprintf("(TExt %d)", k)
	}
	if t.Kind() != reflect.Struct && t.Name() != "" && !isPredeclared(t) {
		id, ok := p.named[t]
		if !ok {
			id = p.nnamed
			p.nnamed++
			p.named[t] = id
		}
		return fmt.Sprintf("(TNamed %d %s)", id, p.underlying(t))
	}
	return p.underlying(t)
}

func bitsOf(t reflect.Type) int {
	switch t.Kind() {
	case reflect.Int, reflect.Uint:
		return 0
	}
	return t.Bits()
}

func (p *TypePrinter) underlying(t reflect.Type) string {
	switch t.Kind() {
	case reflect.Bool:
		return "TBool"
	case reflect.Int, reflect.Int8, reflect.Int16, reflect.Int32, reflect.Int64:
		return fmt.Sprintf("(TInt %d)", bitsOf(t))
	case reflect.Uint, reflect.Uint8, reflect.Uint16, reflect.Uint32, reflect.Uint64:
		return fmt.Sprintf("(TUint %d)", bitsOf(t))
	case reflect.Float32:
		return "TF32"
	case reflect.Float64:
		return "TF64"
	case reflect.String:
		return "TString"
	case reflect.Ptr:
		return fmt.Sprintf("(TPtr %s)", p.Ty(t.Elem()))
	case reflect.Slice:
		return fmt.Sprintf("(TSlice %s)", p.Ty(t.Elem()))
	case reflect.Map:
		return fmt.Sprintf("(TMap %s %s)", p.Ty(t.Key()), p.Ty(t.Elem()))
	case reflect.Interface:
		return "TIface"
	case reflect.Struct:
		id, ok := p.ids[t]
		if !ok {
			id = len(p.defs)
			p.ids[t] = id
			p.defs = append(p.defs, "")
			var fs []string
			for i := 0; i < t.NumField(); i++ {
				sf := t.Field(i)
				fs = append(fs, fmt.Sprintf("mkfdef %v %s %s %s %s", sf.IsExported(), coqBytes([]byte(sf.Name)),
					coqBytes([]byte(sf.Tag.Get("plenc"))), coqBytes([]byte(sf.Tag.Get("json"))), p.Ty(sf.Type)))
			}
			p.defs[id] = fmt.Sprintf("mksdef %s [%s]", coqBytes([]byte(t.Name())), strings.Join(fs, "; "))
		}
		return fmt.Sprintf("(TStruct %d)", id)
	case reflect.Complex64:
		return "(TBad 0)"
	case reflect.Complex128:
		return "(TBad 1)"
	case reflect.Array:
		return "(TBad 2)"
	case reflect.Chan:
		return "(TBad 3)"
	case reflect.Func:
		return "(TBad 4)"
	case reflect.Uintptr:
		return "(TBad 5)"
	case reflect.UnsafePointer:
		return "(TBad 6)"
	}
	return "(TBad 9)"
}

func (p *TypePrinter) Env() string {
	return "[" + strings.Join(p.defs, "; ") + "]"
}

// typeDepth: nesting depth of a (possibly recursive) type; recursive
// occurrences count as 1.
func typeDepth(t reflect.Type, seen map[reflect.Type]bool) int {
	if extKind(t) >= 0 {
		return 1
	}
	switch t.Kind() {
	case reflect.Ptr, reflect.Slice:
		return 1 + typeDepth(t.Elem(), seen)
	case reflect.Map:
		a, b := typeDepth(t.Key(), seen), typeDepth(t.Elem(), seen)
		if a < b {
			a = b
		}
		return 1 + a
	case reflect.Struct:
		if seen[t] {
			return 1
		}
		seen[t] = true
		d := 0
		for i := 0; i < t.NumField(); i++ {
			if x := typeDepth(t.Field(i).Type, seen); x > d {
				d = x
			}
		}
		delete(seen, t)
		return 1 + d
	}
	return 1
}

func isRecursive(t reflect.Type, seen map[reflect.Type]bool) bool {
	if extKind(t) >= 0 {
		return false
	}
	switch t.Kind() {
	case reflect.Ptr, reflect.Slice:
		return isRecursive(t.Elem(), seen)
	case reflect.Map:
		return isRecursive(t.Key(), seen) || isRecursive(t.Elem(), seen)
	case reflect.Struct:
		if seen[t] {
			return true
		}
		seen[t] = true
		defer delete(seen, t)
		for i := 0; i < t.NumField(); i++ {
			if isRecursive(t.Field(i).Type, seen) {
				return true
			}
		}
	}
	return false
}

// ---------- random type generation (run-time built types) ----------

type TypeGen struct {
	r        *RNG
	withNull bool
	proto    bool // ProtoCompatibleArrays is set: avoid the nestings it cannot delimit
	noMaps   bool
}

// isProtoSlice: a slice that is written in the protobuf repeated-field form
// (one tagged element after the other) when ProtoCompatibleArrays is set.
func isProtoSlice(t reflect.Type) bool {
	for t.Kind() == reflect.Ptr {
		t = t.Elem()
	}
	return t.Kind() == reflect.Slice && t != tBytes && t.Elem().Kind() != reflect.Uint8 && wireClass(t.Elem(), true) == 2
}

var scalarTypes = []reflect.Type{
	reflect.TypeOf(false), reflect.TypeOf(int(0)), reflect.TypeOf(int8(0)), reflect.TypeOf(int16(0)),
	reflect.TypeOf(int32(0)), reflect.TypeOf(int64(0)), reflect.TypeOf(uint(0)), reflect.TypeOf(uint8(0)),
	reflect.TypeOf(uint16(0)), reflect.TypeOf(uint32(0)), reflect.TypeOf(uint64(0)),
	reflect.TypeOf(float32(0)), reflect.TypeOf(float64(0)), reflect.TypeOf(""), tBytes, tTime,
}

var namedScalarTypes = []reflect.Type{
	reflect.TypeOf(MyInt(0)), reflect.TypeOf(MyInt8(0)), reflect.TypeOf(MyUint16(0)), reflect.TypeOf(MyString("")),
	reflect.TypeOf(MyBool(false)), reflect.TypeOf(MyFloat(0)), reflect.TypeOf(MyBytes(nil)), reflect.TypeOf(MyF32(0)),
}

var nullTypes = []reflect.Type{tNullInt, tNullBool, tNullFloat, tNullString, tNullTime}

type (
	MyInt    int
	MyInt8   int8
	MyUint16 uint16
	MyString string
	MyBool   bool
	MyFloat  float64
	MyF32    float32
	MyBytes  []byte
)

func (g *TypeGen) scalar() reflect.Type {
	switch {
	case g.r.Chance(12):
		return namedScalarTypes[g.r.Intn(len(namedScalarTypes))]
	case g.withNull && g.r.Chance(10):
		return nullTypes[g.r.Intn(len(nullTypes))]
	}
	return scalarTypes[g.r.Intn(len(scalarTypes))]
}

// wireClass: 0 varint, 1 fixed, 2 length-delimited, 3 counted/map (wire type 3)
func wireClass(t reflect.Type, proto bool) int {
	switch t {
	case tTime, tNullString, tNullTime, tBytes:
		return 2
	case tNullInt, tNullBool:
		return 0
	case tNullFloat:
		return 1
	}
	switch t.Kind() {
	case reflect.Bool, reflect.Int, reflect.Int8, reflect.Int16, reflect.Int32, reflect.Int64,
		reflect.Uint, reflect.Uint8, reflect.Uint16, reflect.Uint32, reflect.Uint64:
		return 0
	case reflect.Float32, reflect.Float64:
		return 1
	case reflect.String, reflect.Struct:
		return 2
	case reflect.Ptr:
		return wireClass(t.Elem(), proto)
	case reflect.Slice:
		if wireClass(t.Elem(), proto) == 2 && !proto {
			return 3
		}
		return 2
	case reflect.Map:
		return 3
	}
	return 9
}

// Type generates a type plenc accepts. depth bounds nesting.
func (g *TypeGen) Type(depth int) reflect.Type {
	if depth <= 0 || g.r.Chance(35) {
		return g.scalar()
	}
	switch g.r.Intn(10) {
	case 0, 1:
		e := g.Type(depth - 1)
		if e.Kind() == reflect.Map {
			return e
		}
		return reflect.PointerTo(e)
	case 2, 3, 4:
		return g.Slice(depth)
	case 5, 6:
		if g.noMaps {
			return g.Struct(depth)
		}
		return g.Map(depth)
	default:
		return g.Struct(depth)
	}
}

func (g *TypeGen) Slice(depth int) reflect.Type {
	for {
		e := g.Type(depth - 1)
		wc := wireClass(e, g.proto)
		if wc == 3 || wc == 9 {
			continue // slices of counted slices / maps are rejected
		}
		if g.proto && isProtoSlice(e) {
			continue // repeated fields of repeated fields cannot be delimited (known finding)
		}
		if wc == 1 && e.Kind() == reflect.Ptr {
			continue // slices of pointers to floats are rejected
		}
		return reflect.SliceOf(e)
	}
}

func (g *TypeGen) keyType(depth int) reflect.Type {
	for {
		var k reflect.Type
		switch g.r.Intn(8) {
		case 0:
			k = g.Struct(1) // struct of scalars
		default:
			k = g.scalar()
		}
		if !k.Comparable() || k == tBytes || k == tTime || extKind(k) > 0 {
			continue
		}
		if k.Kind() == reflect.Struct {
			ok := true
			for i := 0; i < k.NumField(); i++ {
				ft := k.Field(i).Type
				if !ft.Comparable() || ft == tTime || ft.Kind() == reflect.Ptr || ft.Kind() == reflect.Float32 || ft.Kind() == reflect.Float64 || extKind(ft) >= 0 {
					ok = false
				}
				if skipped(k.Field(i)) {
					ok = false // keys that differ only in an unencoded field collapse after decoding
				}
			}
			if !ok {
				continue
			}
		}
		return k
	}
}

func (g *TypeGen) Map(depth int) reflect.Type {
	k := g.keyType(depth)
	for {
		v := g.Type(depth - 1)
		if v.Kind() == reflect.Map {
			continue
		}
		if v.Kind() == reflect.Ptr && v.Elem().Kind() == reflect.Map {
			continue
		}
		if g.proto && isProtoSlice(v) {
			continue
		}
		return reflect.MapOf(k, v)
	}
}

var tagOptions = []string{"", "", "", "", "flat", "intern", "proto"}

func (g *TypeGen) Struct(depth int) reflect.Type {
	n := g.r.Intn(5)
	if depth > 1 {
		n = 1 + g.r.Intn(5)
	}
	var fields []reflect.StructField
	used := map[int]bool{}
	for i := 0; i < n; i++ {
		ft := g.Type(depth - 1)
		idx := g.index(used)
		tag := fmt.Sprintf("%d", idx)
		switch {
		case g.r.Chance(8):
			tag = "-"
		default:
			// an option that has a codec for this type
			switch {
			case isSignedInt(ft) && g.r.Chance(30):
				tag += ",flat"
			case (ft.Kind() == reflect.String || ft == tNullString) && g.r.Chance(30):
				tag += ",intern"
			case ft.Kind() == reflect.Ptr && isSignedInt(ft.Elem()) && g.r.Chance(30):
				tag += ",flat"
			case ft.Kind() == reflect.Slice && wireClass(ft.Elem(), false) == 2 && ft != tBytes && g.r.Chance(15):
				tag += ",proto"
			}
		}
		st := `plenc:"` + tag + `"`
		if g.r.Chance(25) {
			// every shape of json tag: a name, a name with options, no name, and "-" in its three spellings
			st += []string{
				fmt.Sprintf(` json:"j%d,omitempty"`, i), fmt.Sprintf(` json:"j%d"`, i), fmt.Sprintf(` json:"n%d,string"`, i),
				` json:",omitempty"`, ` json:"-"`, ` json:"-,"`, ` json:"-,omitempty"`, ` json:""`,
			}[g.r.Intn(8)]
		}
		fields = append(fields, reflect.StructField{Name: fmt.Sprintf("F%d", i), Type: ft, Tag: reflect.StructTag(st)})
	}
	return reflect.StructOf(fields)
}

func isSignedInt(t reflect.Type) bool {
	switch t.Kind() {
	case reflect.Int, reflect.Int8, reflect.Int16, reflect.Int32, reflect.Int64:
		return true
	}
	return false
}

func (g *TypeGen) index(used map[int]bool) int {
	for {
		var idx int
		switch g.r.Intn(10) {
		case 0:
			idx = 0
		case 1:
			idx = 15 + g.r.Intn(3) // one/two byte tag boundary
		case 2:
			idx = 2047 + g.r.Intn(3)
		case 3:
			idx = 1000 + g.r.Intn(60000)
		default:
			idx = 1 + g.r.Intn(12)
		}
		if !used[idx] {
			used[idx] = true
			return idx
		}
	}
}
