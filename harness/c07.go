package main

import (
	"fmt"
	"reflect"
	"strings"
	"sync"
	"time"

	"github.com/philpearl/plenc"
	"github.com/philpearl/plenc/plenccodec"
)

// C07: concurrent first use. Codec construction takes its registry as an
// interface argument (CodecForTypeRegistry), so the harness passes an
// instrumented registry whose every Load / StoreOrSwap is a scheduling point of
// a deterministic cooperative scheduler. No hook in /repo is needed.

type regKey struct {
	t   reflect.Type
	tag string
}

type sharedReg struct {
	mu sync.Mutex
	m  map[regKey]plenccodec.Codec
}

type event struct {
	gid    int
	op     string // load / publish
	key    string
	hit    bool
	usable bool
}

type scheduler struct {
	schedule []int
	pos      int
	resume   []chan struct{}
	evt      chan [2]int // (gid, 0 parked | 1 done)
	trace    []event
	steps    int
}

func (s *scheduler) park(gid int) {
	s.evt <- [2]int{gid, 0}
	<-s.resume[gid]
}

type schedReg struct {
	base *sharedReg
	gid  int
	s    *scheduler
	p    *plenc.Plenc
}

func (r *schedReg) Load(typ reflect.Type, tag string) plenccodec.Codec {
	r.s.park(r.gid)
	r.base.mu.Lock()
	c := r.base.m[regKey{typ, tag}]
	r.base.mu.Unlock()
	r.s.trace = append(r.s.trace, event{gid: r.gid, op: "load", key: typ.String() + "/" + tag, hit: c != nil})
	return c
}

func (r *schedReg) StoreOrSwap(typ reflect.Type, tag string, c plenccodec.Codec) plenccodec.Codec {
	r.s.park(r.gid)
	// the discipline of the model's Publish step: what is published must be
	// completely built, i.e. usable right now by anyone
	usable := codecUsable(c, typ)
	r.base.mu.Lock()
	k := regKey{typ, tag}
	if old, ok := r.base.m[k]; ok {
		c = old
	} else {
		r.base.m[k] = c
	}
	r.base.mu.Unlock()
	r.s.trace = append(r.s.trace, event{gid: r.gid, op: "publish", key: typ.String() + "/" + tag, usable: usable})
	return c
}

// fullValue builds a value with every pointer, slice and map populated down to
// the given depth, and no zero scalars: every part of a codec is exercised and
// every field must come back.
func fullValue(t reflect.Type, depth int) reflect.Value {
	v := reflect.New(t).Elem()
	fillFull(v, depth)
	return v
}

func fillFull(v reflect.Value, depth int) {
	t := v.Type()
	if t == tTime {
		v.Set(reflect.ValueOf(time.Unix(1700000000, 5000).UTC()))
		return
	}
	switch t.Kind() {
	case reflect.Bool:
		v.SetBool(true)
	case reflect.Int, reflect.Int8, reflect.Int16, reflect.Int32, reflect.Int64:
		v.SetInt(-3)
	case reflect.Uint, reflect.Uint8, reflect.Uint16, reflect.Uint32, reflect.Uint64:
		v.SetUint(5)
	case reflect.Float32, reflect.Float64:
		v.SetFloat(1.5)
	case reflect.String:
		v.SetString("s")
	case reflect.Ptr:
		if depth > 0 {
			p := reflect.New(t.Elem())
			fillFull(p.Elem(), depth-1)
			v.Set(p)
		}
	case reflect.Slice:
		if t == tBytes {
			v.SetBytes([]byte{1, 2})
		} else if depth > 0 {
			s := reflect.MakeSlice(t, 1, 1)
			fillFull(s.Index(0), depth-1)
			v.Set(s)
		}
	case reflect.Map:
		if depth > 0 {
			m := reflect.MakeMap(t)
			k := reflect.New(t.Key()).Elem()
			fillFull(k, depth-1)
			e := reflect.New(t.Elem()).Elem()
			fillFull(e, depth-1)
			m.SetMapIndex(k, e)
			v.Set(m)
		}
	case reflect.Struct:
		for i := 0; i < t.NumField(); i++ {
			if !skipped(t.Field(i)) {
				fillFull(v.Field(i), depth)
			}
		}
	}
}

// codecUsable exercises a codec on a fully populated value of its type: the
// sizes must agree and every field must come back.
func codecUsable(c plenccodec.Codec, typ reflect.Type) (ok bool) {
	defer func() {
		if recover() != nil {
			ok = false
		}
	}()
	for _, depth := range []int{4, 1} {
		v := fullValue(typ, depth)
		ptr := v.Addr().UnsafePointer()
		if typ.Kind() == reflect.Map {
			ptr = v.UnsafePointer()
			if ptr == nil {
				continue
			}
		}
		sz := c.Size(ptr, nil)
		b := c.Append(nil, ptr, nil)
		if sz != len(b) {
			return false
		}
		out := reflect.New(typ)
		if _, err := c.Read(b, out.UnsafePointer(), c.WireType()); err != nil {
			return false
		}
		if coqVal(out.Elem()) != coqVal(v) {
			return false
		}
	}
	return true
}

func newSharedReg() *sharedReg {
	r := &sharedReg{m: map[regKey]plenccodec.Codec{}}
	var p plenc.Plenc
	p.RegisterDefaultCodecs()
	for _, t := range scalarTypes {
		if c, err := p.CodecForType(t); err == nil {
			r.m[regKey{t, ""}] = c
		}
		if c, err := p.CodecForTypeWithTag(t, "flat"); err == nil && isSignedInt(t) {
			r.m[regKey{t, "flat"}] = c
		}
	}
	if c, err := p.CodecForTypeWithTag(reflect.TypeOf(""), "intern"); err == nil {
		r.m[regKey{reflect.TypeOf(""), "intern"}] = c
	}
	return r
}

type Shared struct {
	A Inner  `plenc:"1"`
	B *Inner `plenc:"2"`
}
type UsesShared1 struct {
	S Shared   `plenc:"1"`
	L []Shared `plenc:"2"`
	R *Rec     `plenc:"3"`
}
type UsesShared2 struct {
	M map[string]Shared `plenc:"1"`
	S *Shared           `plenc:"2"`
	R []Rec             `plenc:"3"`
}

// a self loop inside a mutually recursive pair, in both declaration orders, and a three-cycle
type LoopL struct {
	Head *LoopN `plenc:"1"`
	X    int    `plenc:"2"`
}
type LoopN struct {
	Next  *LoopN `plenc:"1"`
	Owner *LoopL `plenc:"2"`
	Y     string `plenc:"3"`
}
type LoopL2 struct {
	Head *LoopN2 `plenc:"1"`
	X    int     `plenc:"2"`
}
type LoopN2 struct {
	Owner *LoopL2  `plenc:"1"`
	Next  []LoopN2 `plenc:"2"`
	Y     string   `plenc:"3"`
}
type CycA struct {
	B *CycB `plenc:"1"`
	N int   `plenc:"2"`
}
type CycB struct {
	Self map[string]CycB `plenc:"1"`
	C    []CycC          `plenc:"2"`
}
type CycC struct {
	A *CycA  `plenc:"1"`
	S string `plenc:"2"`
}

var concurFamilies = [][]reflect.Type{
	{reflect.TypeOf(LoopL{}), reflect.TypeOf(LoopN{})},
	{reflect.TypeOf(LoopL2{}), reflect.TypeOf(LoopN2{})},
	{reflect.TypeOf(CycA{}), reflect.TypeOf(CycC{})},
	{reflect.TypeOf(CycA{}), reflect.TypeOf(CycB{}), reflect.TypeOf(CycC{})},
	{reflect.TypeOf(Rec{}), reflect.TypeOf(Rec{})},
	{reflect.TypeOf(MutA{}), reflect.TypeOf(MutB{})},
	{reflect.TypeOf(UsesShared1{}), reflect.TypeOf(UsesShared2{})},
	{reflect.TypeOf(RecMap{}), reflect.TypeOf([]Rec{})},
	{reflect.TypeOf(Rec{}), reflect.TypeOf(map[string]MutA{}), reflect.TypeOf(MutB{})},
}

// runSchedule builds codecs for types[i] on goroutine i under the schedule.
func runSchedule(types []reflect.Type, schedule []int) (trace []event, codecs []plenccodec.Codec, errs []error, panics []string, stuck bool) {
	n := len(types)
	s := &scheduler{schedule: schedule, resume: make([]chan struct{}, n), evt: make(chan [2]int, n)}
	base := newSharedReg()
	var p plenc.Plenc
	p.RegisterDefaultCodecs()
	codecs = make([]plenccodec.Codec, n)
	errs = make([]error, n)
	panics = make([]string, n)
	for i := range s.resume {
		s.resume[i] = make(chan struct{})
	}
	for g := 0; g < n; g++ {
		go func(g int) {
			defer func() {
				if r := recover(); r != nil {
					panics[g] = fmt.Sprint(r)
				}
				s.evt <- [2]int{g, 1}
			}()
			s.park(g)
			codecs[g], errs[g] = p.CodecForTypeRegistry(&schedReg{base: base, gid: g, s: s, p: &p}, types[g], "")
		}(g)
	}
	live := map[int]bool{}
	parked := 0
	for g := 0; g < n; g++ {
		live[g] = true
	}
	// wait for everyone to park at the start
	for parked < n {
		<-s.evt
		parked++
	}
	for len(live) > 0 {
		g := -1
		for s.pos < len(s.schedule) && g < 0 {
			if live[s.schedule[s.pos]] {
				g = s.schedule[s.pos]
			}
			s.pos++
		}
		if g < 0 {
			for k := 0; k < n; k++ {
				if live[k] {
					g = k
					break
				}
			}
		}
		s.resume[g] <- struct{}{}
		select {
		case ev := <-s.evt:
			if ev[1] == 1 {
				delete(live, ev[0])
			}
		case <-time.After(30 * time.Second):
			return s.trace, codecs, errs, panics, true
		}
		s.steps++
	}
	return s.trace, codecs, errs, panics, false
}

func coqTrace(tr []event) string {
	var parts []string
	for _, e := range tr {
		if e.op == "load" {
			parts = append(parts, fmt.Sprintf("TLoad %d %v", e.gid, e.hit))
		} else {
			parts = append(parts, fmt.Sprintf("TPublish %d %v", e.gid, e.usable))
		}
	}
	return "[" + strings.Join(parts, "; ") + "]"
}

func runC07(c *Ctx) {
	c.header = "From Plenc Require Import Base Concur Corr07.\n"
	c.mismatch = "mismatches_C07"
	c.casetype = "c07case"
	vg := &ValGen{r: c.rng}
	check := func(types []reflect.Type, schedule []int, label string) {
		trace, codecs, errs, panics, stuck := runSchedule(types, schedule)
		desc := fmt.Sprintf("%s types=%v schedule=%v", label, types, trunc(fmt.Sprint(schedule), 120))
		ok := !stuck
		if stuck {
			c.native = append(c.native, NativeViolation{Case: desc, What: "codec construction did not finish under this schedule", Class: "construction-stuck"})
		}
		for g := range types {
			if panics[g] != "" || errs[g] != nil {
				ok = false
				c.native = append(c.native, NativeViolation{Case: desc, What: fmt.Sprintf("goroutine %d: panic=%q err=%v", g, panics[g], errs[g]), Class: "construction-fails"})
				continue
			}
			if stuck {
				continue
			}
			// the codec returned must behave exactly like the sequentially built one
			var ref plenc.Plenc
			ref.RegisterDefaultCodecs()
			rc, err := ref.CodecForType(types[g])
			if err != nil {
				continue
			}
			for k := 0; k < 3; k++ {
				v := vg.Value(types[g], 2)
				same := func() (same bool) {
					defer func() {
						if r := recover(); r != nil {
							same = false
						}
					}()
					ptr := v.Addr().UnsafePointer()
					if types[g].Kind() == reflect.Map {
						ptr = v.UnsafePointer()
					}
					a := codecs[g].Append(nil, ptr, nil)
					out1 := reflect.New(types[g])
					_, e1 := codecs[g].Read(a, out1.UnsafePointer(), codecs[g].WireType())
					out2 := reflect.New(types[g])
					_, e2 := rc.Read(a, out2.UnsafePointer(), rc.WireType())
					return e1 == nil && e2 == nil && len(a) == rc.Size(ptr, nil) && coqVal(out1.Elem()) == coqVal(out2.Elem())
				}()
				if !same {
					ok = false
					c.native = append(c.native, NativeViolation{Case: desc, What: fmt.Sprintf("goroutine %d got a codec that does not behave like the sequentially built one", g), Class: "concurrent-result-differs"})
					break
				}
			}
		}
		for _, e := range trace {
			if e.op == "publish" && !e.usable {
				c.native = append(c.native, NativeViolation{Case: desc, What: "a codec was published to the shared registry before it was completely built: " + e.key, Class: "published-incomplete"})
			}
		}
		c.add(fmt.Sprintf("K07 %s %v", coqTrace(trace), ok), desc, fmt.Sprintf("%s/%d/%d", label, len(types), min(len(trace)/4, 12)), len(trace) > 2)
		c.count(fmt.Sprintf("trace_len_%s", lenBucket(len(trace))))
	}
	// systematic: two goroutines, every schedule with at most two context switches
	maxA := scale(c, 14, 30)
	for fi, fam := range concurFamilies {
		if len(fam) != 2 {
			continue
		}
		for first := 0; first < 2; first++ {
			for a := 0; a <= maxA; a++ {
				for b := 0; b <= maxA; b += 1 + a%2 {
					var sched []int
					for i := 0; i < a; i++ {
						sched = append(sched, first)
					}
					for i := 0; i < b; i++ {
						sched = append(sched, 1-first)
					}
					for i := 0; i < 64; i++ {
						sched = append(sched, first)
					}
					check(fam, sched, fmt.Sprintf("systematic-f%d", fi))
				}
			}
		}
	}
	// random schedules, 2-4 goroutines
	nr := scale(c, 200, 6000)
	for i := 0; i < nr; i++ {
		fam := concurFamilies[c.rng.Intn(len(concurFamilies))]
		types := append([]reflect.Type{}, fam...)
		for len(types) < 2+c.rng.Intn(3) {
			types = append(types, fam[c.rng.Intn(len(fam))])
		}
		var sched []int
		for k := 0; k < 80; k++ {
			sched = append(sched, c.rng.Intn(len(types)))
		}
		check(types, sched, "random")
	}
	// free-running on the real registry: fresh instance, concurrent first use
	trials := scale(c, 300, 6000)
	fails := 0
	for trial := 0; trial < trials && fails < 3; trial++ {
		var p plenc.Plenc
		p.RegisterDefaultCodecs()
		var wg sync.WaitGroup
		var mu sync.Mutex
		for g := 0; g < 8; g++ {
			wg.Add(1)
			go func(g int) {
				defer wg.Done()
				defer func() {
					if r := recover(); r != nil {
						mu.Lock()
						fails++
						c.native = append(c.native, NativeViolation{Case: "free-running concurrent first use", What: fmt.Sprint("panic: ", r), Class: "concurrent-first-use-panic"})
						mu.Unlock()
					}
				}()
				v := Rec{A: []Rec{{B: 1}, {B: 2, S: "x"}}, B: 3, P: &Rec{B: 4}}
				m := MutA{B: &MutB{A: []MutA{{X: 1}}, Y: "y"}, X: 2}
				d1, e1 := p.Marshal(nil, &v)
				d2, e2 := p.Marshal(nil, &m)
				var o1 Rec
				var o2 MutA
				e3 := p.Unmarshal(d1, &o1)
				e4 := p.Unmarshal(d2, &o2)
				if e1 != nil || e2 != nil || e3 != nil || e4 != nil || !reflect.DeepEqual(v, o1) || !reflect.DeepEqual(m, o2) {
					mu.Lock()
					fails++
					c.native = append(c.native, NativeViolation{Case: "free-running concurrent first use", What: fmt.Sprintf("wrong result: %v %v %v %v", e1, e2, e3, e4), Class: "concurrent-first-use-wrong"})
					mu.Unlock()
				}
			}(g)
		}
		wg.Wait()
		c.count("free_running_trials")
	}
	runC07Steady(c)
}

// ConcShared: everything that decoding shares between goroutines once the codecs are
// long built: the map key/value scratch pools (both map forms), interning tables,
// repeated-form slices, null codecs.
type ConcShared struct {
	M  map[string]int    `plenc:"1,proto"`
	N  map[int]string    `plenc:"2,proto"`
	S  string            `plenc:"3,intern"`
	L  []string          `plenc:"4,proto"`
	Q  map[string]string `plenc:"5"`
	K  map[KeyS]Inner    `plenc:"6"`
	KP map[KeyS]*Inner   `plenc:"7,proto"`
	R  []ConcShared      `plenc:"8"`
}

func concValue(g, round int) ConcShared {
	tag := fmt.Sprintf("g%d-", g)
	v := ConcShared{M: map[string]int{}, N: map[int]string{}, Q: map[string]string{}, K: map[KeyS]Inner{}, KP: map[KeyS]*Inner{}, S: tag + "interned"}
	for i := 0; i < 6; i++ {
		k := fmt.Sprintf("%s%d-%d", tag, i, round%3)
		v.M[k] = g*1000 + i
		v.N[g*1000+i] = k
		v.Q[k] = k + "v"
		v.K[KeyS{X: g, Y: i, Z: k}] = Inner{A: g, B: k}
		v.KP[KeyS{X: g, Y: i, Z: k}] = &Inner{A: i, B: tag}
		v.L = append(v.L, k)
	}
	return v
}

// runC07Steady: free-running steady-state use. Every goroutine decodes and encodes its
// own values on one shared instance and must get exactly what a goroutine running
// alone gets (computed beforehand on an instance nobody else uses).
func runC07Steady(c *Ctx) {
	const G = 8
	trials := scale(c, 6, 60)
	rounds := scale(c, 400, 2000)
	fails := 0
	for trial := 0; trial < trials && fails < 3; trial++ {
		var ref, p plenc.Plenc
		ref.RegisterDefaultCodecs()
		p.RegisterDefaultCodecs()
		if trial%2 == 1 {
			p.ProtoCompatibleArrays = true
			ref.ProtoCompatibleArrays = true
		}
		type job struct {
			data []byte
			want ConcShared
		}
		jobs := make([][]job, G)
		for g := 0; g < G; g++ {
			for r := 0; r < 24; r++ {
				v := concValue(g, r)
				// the interned field sees a new string in (almost) every job: the table grows while
				// the other goroutines read it
				v.S = fmt.Sprintf("g%d-interned-%d", g, r/2)
				if r%3 == 2 {
					v.R = []ConcShared{concValue(g, 0), concValue(g, 1)}
				}
				data, err := ref.Marshal(nil, &v)
				if err != nil {
					c.native = append(c.native, NativeViolation{Case: "steady-state concurrent use", What: "Marshal failed: " + err.Error(), Class: "concurrent-use-wrong"})
					return
				}
				var want ConcShared
				if err := ref.Unmarshal(data, &want); err != nil {
					c.native = append(c.native, NativeViolation{Case: "steady-state concurrent use", What: "Unmarshal failed: " + err.Error(), Class: "concurrent-use-wrong"})
					return
				}
				jobs[g] = append(jobs[g], job{data, want})
			}
		}
		c.crumb(fmt.Sprintf("steady-state concurrent use: %d goroutines, each decoding / encoding its own ConcShared values (maps in both forms, struct keys, an interned field meeting new strings, repeated slices) on one instance, trial %d", G, trial))
		// the codecs are built before the goroutines start: this phase is about use, not first use
		var warm ConcShared
		p.Unmarshal(jobs[0][0].data, &warm)
		var wg sync.WaitGroup
		var mu sync.Mutex
		for g := 0; g < G; g++ {
			wg.Add(1)
			go func(g int) {
				defer wg.Done()
				defer func() {
					if r := recover(); r != nil {
						mu.Lock()
						fails++
						c.native = append(c.native, NativeViolation{Case: "steady-state concurrent use", What: fmt.Sprint("panic: ", r), Class: "concurrent-use-panic"})
						mu.Unlock()
					}
				}()
				for r := 0; r < rounds; r++ {
					j := jobs[g][r%len(jobs[g])]
					var got ConcShared
					err := p.Unmarshal(j.data, &got)
					var back []byte
					var err2 error
					if err == nil && r%8 == 0 {
						back, err2 = p.Marshal(nil, &got)
						if err2 == nil {
							var again ConcShared
							if e := p.Unmarshal(back, &again); e != nil || !reflect.DeepEqual(again, j.want) {
								err2 = fmt.Errorf("re-encoded value decodes differently (%v)", e)
							}
						}
					}
					if err != nil || err2 != nil || !reflect.DeepEqual(got, j.want) {
						mu.Lock()
						if fails < 3 {
							c.native = append(c.native, NativeViolation{Case: fmt.Sprintf("steady-state concurrent use: goroutine %d of %d round %d data=%x", g, G, r, j.data), Class: "concurrent-use-wrong",
								What: trunc(fmt.Sprintf("result differs from the same call run alone: err=%v %v got=%+v want=%+v", err, err2, got, j.want), 900)})
						}
						fails++
						mu.Unlock()
						return
					}
				}
			}(g)
		}
		wg.Wait()
		c.count("steady_state_trials")
	}
}
