package main

import (
	"bytes"
	"encoding/json"
	"fmt"
	"os"
	"os/exec"
	"reflect"
	"runtime"
	"strings"
	"time"

	"github.com/philpearl/plenc"
	"github.com/philpearl/plenc/plenccodec"
	"github.com/unravelin/null"
)

// Witnesses of the known findings (/verif/known_findings.json). Each is
// replayed against the implementation on every run of a check it belongs to:
// "fails" = the recorded defect is still there, "passes" = it is gone.

type witness struct {
	props []string
	run   func() string
}

func verdict(stillFails bool) string {
	if stillFails {
		return "fails"
	}
	return "passes"
}

type wRecSlice []wRecSlice

var witnesses = map[string]witness{
	"D12": {[]string{"C12", "C01"}, func() string {
		p := newInstance(Cfg{ProtoArrays: true})
		type T struct {
			A [][]string `plenc:"1"`
		}
		in := T{A: [][]string{{"a", "b"}, {"c"}}}
		data, err := p.Marshal(nil, &in)
		var out T
		if err == nil {
			err = p.Unmarshal(data, &out)
		}
		return verdict(err != nil || !reflect.DeepEqual(in, out))
	}},
	"D13": {[]string{"C06"}, func() string {
		type OnlyPtr struct {
			P *int `plenc:"1"`
		}
		x := 5
		failed := false
		func() {
			defer func() {
				if recover() != nil {
					failed = true
				}
			}()
			byPtr, _ := plenc.Marshal(nil, &OnlyPtr{&x})
			byVal, err := plenc.Marshal(nil, OnlyPtr{&x})
			failed = err != nil || !bytes.Equal(byPtr, byVal)
		}()
		return verdict(failed)
	}},
	"D17d": {[]string{"C13"}, func() string {
		type T struct {
			A int32 `plenc:"1,flat"`
		}
		in := T{A: -5}
		data, _ := plenc.Marshal(nil, &in)
		cd, _ := plenc.CodecForType(reflect.TypeOf(in))
		d := cd.Descriptor()
		var o plenccodec.JSONOutput
		if err := d.Read(&o, data); err != nil {
			return "fails"
		}
		return verdict(!strings.Contains(string(o.Done()), "-5"))
	}},
	"D21": {[]string{"C14", "C13"}, func() string {
		// fatal stack overflow: must run in a child process
		return verdict(childCrashes("descriptor-recursive"))
	}},
	"D24": {[]string{"C09", "C01"}, func() string {
		p := newInstance(Cfg{WithNull: true})
		in := []null.Int{{}, null.IntFrom(3)}
		data, err := p.Marshal(nil, &in)
		var out []null.Int
		if err == nil {
			err = p.Unmarshal(data, &out)
		}
		return verdict(err != nil || len(out) != 2 || out[0].Valid)
	}},
	"D27": {[]string{"C09", "C01"}, func() string {
		var in *int
		data, err := plenc.Marshal(nil, &in)
		out := new(*int)
		if err == nil {
			err = plenc.Unmarshal(data, out)
		}
		return verdict(err != nil || *out != nil)
	}},
	"D29": {[]string{"C13"}, func() string {
		p := newInstance(Cfg{ProtoTime: true})
		type T struct {
			A time.Time `plenc:"1"`
		}
		in := T{A: time.Unix(1700000001, 0).UTC()}
		data, _ := p.Marshal(nil, &in)
		cd, _ := p.CodecForType(reflect.TypeOf(in))
		d := cd.Descriptor()
		var o plenccodec.JSONOutput
		if err := d.Read(&o, data); err != nil {
			return "fails"
		}
		return verdict(!strings.Contains(string(o.Done()), in.A.Format(time.RFC3339Nano)))
	}},
	"D31": {[]string{"C13"}, func() string {
		p := newInstance(Cfg{ProtoArrays: true})
		type T struct {
			A []string `plenc:"1"`
		}
		in := T{A: []string{"a", "b"}}
		data, _ := p.Marshal(nil, &in)
		cd, _ := p.CodecForType(reflect.TypeOf(in))
		d := cd.Descriptor()
		var o plenccodec.JSONOutput
		if err := d.Read(&o, data); err != nil {
			return "fails"
		}
		var parsed map[string][]string
		err := json.Unmarshal(o.Done(), &parsed)
		return verdict(err != nil || !reflect.DeepEqual(parsed["A"], in.A))
	}},
	"D22": {[]string{"C08"}, func() string {
		t := reflect.StructOf([]reflect.StructField{{Name: "A", Type: reflect.TypeOf(0), Tag: `plenc:"200000000"`}})
		var ms0, ms1 runtime.MemStats
		runtime.ReadMemStats(&ms0)
		var p plenc.Plenc
		p.RegisterDefaultCodecs()
		_, err := p.CodecForType(t)
		runtime.ReadMemStats(&ms1)
		return verdict(err == nil && ms1.TotalAlloc-ms0.TotalAlloc > 1<<30)
	}},
	"D26": {[]string{"C08"}, func() string {
		return verdict(childCrashes("recursive-named-slice"))
	}},
	"D32": {[]string{"C04"}, func() string {
		type E struct {
			S string `plenc:"1,intern"`
		}
		n := 3000
		in := make([]E, n)
		for i := range in {
			in[i].S = fmt.Sprintf("s%05d", i)
		}
		var p plenc.Plenc
		p.RegisterDefaultCodecs()
		data, _ := p.Marshal(nil, &in)
		var out []E
		var ms0, ms1 runtime.MemStats
		runtime.ReadMemStats(&ms0)
		p.Unmarshal(data, &out)
		runtime.ReadMemStats(&ms1)
		// linear would be well under 100 bytes per input byte
		return verdict(ms1.TotalAlloc-ms0.TotalAlloc > 1000*uint64(len(data)))
	}},
}

// childCrashes runs a crashing witness in a child process.
func childCrashes(name string) bool {
	cmd := exec.Command(os.Args[0], "-witness", name)
	done := make(chan error, 1)
	go func() { done <- cmd.Run() }()
	select {
	case err := <-done:
		return err != nil
	case <-time.After(20 * time.Second):
		cmd.Process.Kill()
		return true
	}
}

func runWitnessChild(name string) {
	limitMemory()
	switch name {
	case "descriptor-recursive":
		cd, err := plenc.CodecForType(reflect.TypeOf(Rec{}))
		if err != nil {
			os.Exit(0)
		}
		d := cd.Descriptor()
		_ = d
	case "recursive-named-slice":
		var p plenc.Plenc
		p.RegisterDefaultCodecs()
		_, err := p.CodecForType(reflect.TypeOf(wRecSlice{}))
		_ = err
	}
	os.Exit(0)
}

func (c *Ctx) runWitnesses() {
	if childStart >= 0 {
		return
	}
	c.witness = map[string]string{}
	for id, w := range witnesses {
		for _, p := range w.props {
			if p == c.Prop {
				func() {
					defer func() {
						if r := recover(); r != nil {
							c.witness[id] = "fails"
						}
					}()
					c.witness[id] = w.run()
				}()
			}
		}
	}
}
