package main

import (
	"time"
	"fmt"
	"reflect"
)

func coreHeader(c *Ctx, mode int) {
	c.header = "From Plenc Require Import Base Varint Wire JsonAny Codec Registry CorrCore.\nOpen Scope N_scope.\n"
	c.mismatch = "mismatches_core " + string(rune('0'+mode))
	c.casetype = "corecase"
}

var protoCfgs = []Cfg{{}, {ProtoTime: true}, {ProtoArrays: true}, {ProtoTime: true, ProtoArrays: true}}

// pickType returns a type case: a catalogue type or a run-time built one.
func pickType(c *Ctx, cfg Cfg, depth int) *TypeCase {
	r := c.rng
	if r.Chance(25) {
		pool := catalogue
		if cfg.WithNull && r.Chance(50) {
			pool = catalogueNull
		}
		if cfg.WithJSON && r.Chance(50) {
			pool = catalogueJSON
		}
		if cfg.WithBQ && r.Chance(50) {
			pool = catalogueBQ
		}
		if cfg.WithCustom && r.Chance(60) {
			pool = catalogueCustom
		}
		t := pool[r.Intn(len(pool))]
		if cfg.ProtoArrays && protoUnsafe(t) {
			t = reflect.TypeOf(Inner{})
		}
		return newTypeCase(t, cfg)
	}
	g := &TypeGen{r: r, withNull: cfg.WithNull, proto: cfg.ProtoArrays}
	t := g.Type(depth)
	if cfg.ProtoArrays && isProtoSlice(t) {
		t = reflect.StructOf([]reflect.StructField{{Name: "F0", Type: t, Tag: `plenc:"1"`}})
	}
	return newTypeCase(t, cfg)
}

// protoUnsafe: the type nests a repeated-field slice where it cannot be delimited
// when ProtoCompatibleArrays is set (known finding D12); kept out of the main stream.
func protoUnsafe(t reflect.Type) bool {
	return protoUnsafeRec(t, true, map[reflect.Type]bool{})
}

func protoUnsafeRec(t reflect.Type, top bool, seen map[reflect.Type]bool) bool {
	if extKind(t) >= 0 || t == tBytes {
		return false
	}
	switch t.Kind() {
	case reflect.Ptr:
		return protoUnsafeRec(t.Elem(), top, seen)
	case reflect.Slice:
		if isProtoSlice(t) && top {
			return true
		}
		if isProtoSlice(t.Elem()) {
			return true
		}
		return protoUnsafeRec(t.Elem(), true, seen)
	case reflect.Map:
		if isProtoSlice(t.Elem()) {
			return true
		}
		return protoUnsafeRec(t.Key(), true, seen) || protoUnsafeRec(t.Elem(), true, seen)
	case reflect.Struct:
		if seen[t] {
			return false
		}
		seen[t] = true
		defer delete(seen, t)
		for i := 0; i < t.NumField(); i++ {
			if skipped(t.Field(i)) {
				continue
			}
			if protoUnsafeRec(t.Field(i).Type, false, seen) {
				return true
			}
		}
	}
	return false
}

func randCfg(c *Ctx) Cfg {
	cfg := protoCfgs[c.rng.Intn(4)]
	if c.rng.Chance(30) {
		cfg = Cfg{}
	}
	cfg.WithNull = c.rng.Chance(30)
	cfg.WithCustom = c.rng.Chance(15)
	return cfg
}

func scale(c *Ctx, quick, thorough int) int {
	if c.Tier == "thorough" {
		return thorough
	}
	return quick
}

// C01 / C02: round trip and bytes
func runRoundTrip(c *Ctx, mode int) {
	coreHeader(c, mode)
	vg := &ValGen{r: c.rng}
	n := scale(c, 500, 12000)
	for i := 0; i < n; i++ {
		cfg := randCfg(c)
		tc := pickType(c, cfg, 1+c.rng.Intn(3))
		for j := 0; j < 3; j++ {
			d := 3
			if tc.Rec {
				d = 2
			}
			v := vg.Value(tc.T, d)
			c.addRT(tc, v, "roundtrip")
			if mode == 2 && tc.T.Kind() == reflect.Struct && extKind(tc.T) < 0 {
				c.addShuffled(tc, v)
			}
		}
	}
	// every framed body on both sides of the 127|128 length-prefix boundary, bare and nested
	// (struct in struct in slice / map): bytes and round trip
	boundarySweep(c, true, c.addRT)
}

// splitFields cuts a message into its top-level fields with an independent
// reader (wire types 0,1,2,5 and plenc's 3 = count + length-prefixed items).
func splitFields(data []byte) (chunks [][]byte, tags []uint64, ok bool) {
	for len(data) > 0 {
		tag, n := pbVarint(data)
		if n <= 0 {
			return nil, nil, false
		}
		p := n
		switch tag & 7 {
		case 0:
			_, k := pbVarint(data[p:])
			if k <= 0 {
				return nil, nil, false
			}
			p += k
		case 1:
			p += 8
		case 5:
			p += 4
		case 2:
			l, k := pbVarint(data[p:])
			if k <= 0 {
				return nil, nil, false
			}
			p += k + int(l)
		case 3:
			cnt, k := pbVarint(data[p:])
			if k <= 0 {
				return nil, nil, false
			}
			p += k
			for i := uint64(0); i < cnt; i++ {
				if p > len(data) {
					return nil, nil, false
				}
				l, k := pbVarint(data[p:])
				if k <= 0 {
					return nil, nil, false
				}
				p += k + int(l)
			}
		default:
			return nil, nil, false
		}
		if p > len(data) {
			return nil, nil, false
		}
		chunks = append(chunks, data[:p])
		tags = append(tags, tag)
		data = data[p:]
	}
	return chunks, tags, true
}

// addShuffled: the same fields in another order must decode to the same value
// (repeated fields keep their relative order).
func (c *Ctx) addShuffled(tc *TypeCase, v reflect.Value) {
	data, err := tc.P.Marshal(nil, v.Addr().Interface())
	if err != nil {
		return
	}
	chunks, tags, ok := splitFields(data)
	if !ok || len(chunks) < 2 {
		return
	}
	// group chunks by tag (a repeated field is one group), then permute the groups
	var order []uint64
	groups := map[uint64][][]byte{}
	for i, t := range tags {
		if _, seen := groups[t]; !seen {
			order = append(order, t)
		}
		groups[t] = append(groups[t], chunks[i])
	}
	for i := len(order) - 1; i > 0; i-- {
		j := c.rng.Intn(i + 1)
		order[i], order[j] = order[j], order[i]
	}
	var shuffled []byte
	for _, t := range order {
		for _, ch := range groups[t] {
			shuffled = append(shuffled, ch...)
		}
	}
	want := reflect.New(tc.T)
	got := reflect.New(tc.T)
	e1 := tc.P.Unmarshal(data, want.Interface())
	e2 := tc.P.Unmarshal(shuffled, got.Interface())
	if e1 != nil || e2 != nil || coqVal(want.Elem()) != coqVal(got.Elem()) {
		c.native = append(c.native, NativeViolation{Case: fmt.Sprintf("shuffled fields type=%s data=%x shuffled=%x", tc.T, data, shuffled),
			What: fmt.Sprintf("decoding the fields in another order gives a different result (%v %v)", e1, e2), Class: "field-order"})
	}
	c.addDec(tc, shuffled, reflect.Zero(tc.T), "shuffled-fields", "shuffled/"+shapeClass(tc.T, 2), true)
}

// C05: codec laws
func runLaws(c *Ctx) {
	coreHeader(c, 0)
	vg := &ValGen{r: c.rng}
	n := scale(c, 500, 12000)
	for i := 0; i < n; i++ {
		cfg := randCfg(c)
		cfg.WithBQ = c.rng.Chance(15)
		cfg.WithJSON = c.rng.Chance(15)
		tc := pickType(c, cfg, 1+c.rng.Intn(3))
		for j := 0; j < 3; j++ {
			d := 3
			if tc.Rec {
				d = 2
			}
			c.addLaws(tc, vg.Value(tc.T, d), "laws")
		}
	}
	boundaryLaws(c)
}

// boundaryLaws: bodies whose length sits on each side of the one/two/three-byte
// boundaries of the length prefix (127|128, 16383|16384), for every codec that
// frames its body, bare and wrapped (struct field, nested struct, map value,
// slice element), with one- and two-byte tags (addLaws picks the tag index).
type lawBox struct {
	A []int   `plenc:"1"`
	B []bool  `plenc:"2"`
	C []uint8 `plenc:"3"`
	D string  `plenc:"4"`
	E []byte  `plenc:"5"`
	F MyBytes `plenc:"6"`
	G []MyInt `plenc:"40"`
	H []int8  `plenc:"17"`
}
type lawOuter struct {
	In lawBox            `plenc:"1"`
	P  *lawBox           `plenc:"2"`
	L  []lawBox          `plenc:"3"`
	M  map[string]lawBox `plenc:"33"`
	MS map[string][]int  `plenc:"5"`
	LL [][]int           `plenc:"6"`
	LS []string          `plenc:"7"`
	MM map[string]string `plenc:"8"`
}

func boundaryLaws(c *Ctx) { boundarySweep(c, false, c.addLaws) }

// boundarySweep feeds the boundary values to emit (the codec laws, or a Marshal/Unmarshal round trip)
func boundarySweep(c *Ctx, small bool, emit func(*TypeCase, reflect.Value, string)) {
	lens := []int{0, 1, 119, 120, 121, 122, 123, 124, 125, 126, 127, 128, 129, 130, 131}
	big := []int{16376, 16378, 16379, 16380, 16381, 16382, 16383, 16384, 16385, 16386}
	if small {
		big = nil // round trips of 16 KB values through the model are not worth their time
	}
	if c.Tier == "thorough" {
		for n := 100; n < 140; n++ {
			lens = append(lens, n)
		}
		for n := 16360; n < 16400 && !small; n++ {
			big = append(big, n)
		}
	}
	ints := func(n int) []int {
		l := make([]int, n)
		for i := range l {
			l[i] = c.rng.Intn(120) - 60 // one byte each
		}
		return l
	}
	str := func(n int) string {
		b := make([]byte, n)
		for i := range b {
			b[i] = byte('a' + c.rng.Intn(26))
		}
		return string(b)
	}
	box := func(which, n int) lawBox {
		var b lawBox
		switch which {
		case 0:
			b.A = ints(n)
		case 1:
			b.B = make([]bool, n)
			for i := range b.B {
				b.B[i] = c.rng.Bool()
			}
		case 2:
			b.C = []uint8(str(n))
		case 3:
			b.D = str(n)
		case 4:
			b.E = []byte(str(n))
		case 5:
			b.F = MyBytes(str(n))
		case 6:
			for _, x := range ints(n) {
				b.G = append(b.G, MyInt(x))
			}
		case 7:
			for _, x := range ints(n) {
				b.H = append(b.H, int8(x))
			}
		}
		return b
	}
	for _, cfg := range []Cfg{{}, {ProtoArrays: true}} {
		tcBox := newTypeCase(reflect.TypeOf(lawBox{}), cfg)
		tcOut := newTypeCase(reflect.TypeOf(lawOuter{}), cfg)
		tcInts := newTypeCase(reflect.TypeOf([]int{}), cfg)
		tcStr := newTypeCase(reflect.TypeOf(""), cfg)
		for _, n := range append(append([]int{}, lens...), big...) {
			if n > 1000 && cfg.ProtoArrays {
				continue
			}
			which := c.rng.Intn(8)
			if n <= 1000 {
				iv := reflect.New(tcInts.T).Elem()
				iv.Set(reflect.ValueOf(ints(n)))
				emit(tcInts, iv, "boundary")
				sv := reflect.New(tcStr.T).Elem()
				sv.SetString(str(n))
				emit(tcStr, sv, "boundary")
			}
			for w := 0; w < 8; w++ {
				if n > 1000 && w != which {
					continue
				}
				// the framed body itself on the boundary, then the enclosing bodies: a few
				// bytes of headers are added at each level, so slide the length down
				for _, slack := range []int{0, 2, 3, 4, 5, 6} {
					if n < slack || (slack > 0 && c.rng.Chance(70)) {
						continue
					}
					b := box(w, n-slack)
					bv := reflect.New(tcBox.T).Elem()
					bv.Set(reflect.ValueOf(b))
					emit(tcBox, bv, "boundary")
					var o lawOuter
					switch c.rng.Intn(6) {
					case 0:
						o.In = b
					case 1:
						o.P = &b
					case 2:
						o.L = []lawBox{{}, b}
					case 3:
						o.M = map[string]lawBox{"k": b}
					case 4:
						o.MS = map[string][]int{"": ints(n - slack), "k": ints(n - slack)}
						o.LL = [][]int{ints(n - slack), nil, ints(n - slack)}
					default:
						o.LS = []string{str(n - slack), "", str(n - slack)}
						o.MM = map[string]string{"k": str(n - slack), str(n - slack): "v"}
					}
					ov := reflect.New(tcOut.T).Elem()
					ov.Set(reflect.ValueOf(o))
					emit(tcOut, ov, "boundary")
				}
			}
		}
	}
	// counts on the boundary (elements of a counted slice, entries of a map)
	for _, n := range []int{126, 127, 128, 129} {
		tc := newTypeCase(reflect.TypeOf(lawOuter{}), Cfg{})
		var o lawOuter
		o.MM = map[string]string{}
		for i := 0; i < n; i++ {
			o.LS = append(o.LS, str(c.rng.Intn(2)))
			o.MM[fmt.Sprintf("%d", i)] = ""
		}
		ov := reflect.New(tc.T).Elem()
		ov.Set(reflect.ValueOf(o))
		emit(tc, ov, "boundary-count")
	}
	// instants that are special to the time codecs, at every position a time can sit, in both time
	// formats: the zero time, the Unix epoch (all fields zero on the wire) and its neighbours, the
	// limits of 32-bit seconds, of RFC 3339 years and of UnixNano, every nanosecond byte-length boundary
	secs := []int64{-62135596800, -62135596799, -1, 0, 1, -2147483648, 2147483647, 2147483648, 4294967296, -9223372037, 9223372036, 253402300799, 253402300800, 1 << 40}
	nss := []int64{0, 1, 127, 128, 16383, 16384, 999999999}
	k := 0
	for _, cfg := range []Cfg{{}, {ProtoTime: true}} {
		tc := newTypeCase(reflect.TypeOf(Times{}), cfg)
		for _, sec := range secs {
			for _, ns := range nss {
				if sec != 0 && sec != -62135596800 && ns != 0 && (k+int(ns))%3 != 0 {
					k++
					continue // the nanosecond sweep in full only at the two instants whose seconds field is special
				}
				k++
				t := time.Unix(sec, ns).UTC()
				if sec == -62135596800 && ns == 0 {
					t = time.Time{}
				}
				v := reflect.New(tc.T).Elem()
				fillTimes(v, t)
				emit(tc, v, "special-times")
			}
		}
	}
}

// fillTimes puts t wherever a time.Time sits in v (fields, pointers, slice elements, map values)
func fillTimes(v reflect.Value, t time.Time) {
	switch {
	case v.Type() == tTime:
		v.Set(reflect.ValueOf(t))
	case v.Kind() == reflect.Struct:
		for i := 0; i < v.NumField(); i++ {
			if v.Type().Field(i).IsExported() {
				fillTimes(v.Field(i), t)
			}
		}
	case v.Kind() == reflect.Ptr:
		p := reflect.New(v.Type().Elem())
		fillTimes(p.Elem(), t)
		v.Set(p)
	case v.Kind() == reflect.Slice && v.Type() != tBytes:
		s := reflect.MakeSlice(v.Type(), 2, 2)
		fillTimes(s.Index(0), t)
		fillTimes(s.Index(1), t)
		v.Set(s)
	case v.Kind() == reflect.Map:
		m := reflect.MakeMap(v.Type())
		e := reflect.New(v.Type().Elem()).Elem()
		fillTimes(e, t)
		k := reflect.New(v.Type().Key()).Elem()
		if k.Kind() == reflect.String {
			k.SetString("k")
		}
		m.SetMapIndex(k, e)
		v.Set(m)
	}
}

// C06: Marshal appends
func runMarshal(c *Ctx) {
	coreHeader(c, 2)
	vg := &ValGen{r: c.rng}
	n := scale(c, 350, 8000)
	for i := 0; i < n; i++ {
		cfg := randCfg(c)
		tc := pickType(c, cfg, 1+c.rng.Intn(3))
		d := 3
		if tc.Rec {
			d = 2
		}
		v := vg.Value(tc.T, d)
		// the length of the encoding, to put the end of the buffer's capacity at, just before and
		// just after the end of the output (and of its last few bytes): code that grows the buffer
		// while holding on to a view of the old one shows only when the growth happens mid-value
		encLen := 0
		if d0, err := tc.P.Marshal(nil, v.Addr().Interface()); err == nil {
			encLen = len(d0)
		}
		for j := 0; j < 6; j++ {
			prefix := randBytes(c.rng, []int{0, 0, 1, 3, 17}[c.rng.Intn(5)])
			spare := []int{0, 0, 1, 2, 3, 5, 7, 13, 21, 64, 4096}[c.rng.Intn(11)]
			if j >= 3 && encLen > 0 {
				spare = encLen + []int{-1, 0, 1, -2, -3, -5, 2}[c.rng.Intn(7)]
				if spare < 0 {
					spare = 0
				}
			}
			byValue := c.rng.Chance(40) && tc.T.Kind() != reflect.Ptr // a pointer passed "by value" is the by-pointer convention for its target
			c.addMarshal(tc, v, prefix, spare, byValue, "marshal")
		}
	}
	// pointer-shaped values (held in the interface data word itself) at every wrapping
	// depth, by value and by pointer
	for i := 0; i < scale(c, 60, 1200); i++ {
		t := catalogueWrap[i%len(catalogueWrap)]
		tc := newTypeCase(t, randCfg(c))
		v := vg.Value(t, 3)
		prefix := randBytes(c.rng, []int{0, 1, 3}[c.rng.Intn(3)])
		spare := []int{0, 1, 7, 64}[c.rng.Intn(4)]
		c.addMarshal(tc, v, prefix, spare, true, "marshal-wrapped")
		c.addMarshal(tc, v, prefix, spare, false, "marshal-wrapped")
	}
	// the JSON-any codecs append through helpers of their own: nested containers,
	// with every small spare capacity so that the buffer is reallocated mid-entry
	jtypes := []reflect.Type{tJSONMap, tJSONArr, reflect.TypeOf(JSONHolder{}), reflect.TypeOf(JSONNested{})}
	for i := 0; i < scale(c, 40, 1500); i++ {
		t := jtypes[c.rng.Intn(len(jtypes))]
		tc := newTypeCase(t, Cfg{WithJSON: true})
		v := vg.Value(t, 2+c.rng.Intn(2))
		for _, spare := range []int{0, 1, 2, 3, 5, 8, 13, 21, 34, 64} {
			prefix := randBytes(c.rng, []int{0, 1, 3, 17}[c.rng.Intn(4)])
			c.addMarshal(tc, v, prefix, spare, false, "marshal-json")
		}
	}
}

// ptrShapedByValue: a value whose interface data word is the value itself
// (pointer-shaped): single-pointer-field structs etc. Passing those by value
// is a known finding (D13).
func ptrShapedByValue(t reflect.Type) bool {
	switch t.Kind() {
	case reflect.Ptr, reflect.Chan, reflect.Func, reflect.UnsafePointer:
		return true
	case reflect.Map:
		return false // by-value maps are the documented convention
	case reflect.Struct:
		return t.NumField() == 1 && (ptrShapedByValue(t.Field(0).Type) || t.Field(0).Type.Kind() == reflect.Map)
	case reflect.Array:
		return t.Len() == 1 && ptrShapedByValue(t.Elem())
	}
	return false
}
