package main

import (
	"fmt"
	"reflect"
	"strings"
	"unsafe"

	"github.com/philpearl/plenc"
	"github.com/philpearl/plenc/plenccodec"
	"github.com/philpearl/plenc/plenccore"
)

// C17, positions: a codec registered for a type must be the one in use at EVERY position the
// type occupies - value, struct field, pointer target, slice element, map key, map value - on
// both the writing and the reading side. The registered codecs here TRANSFORM what they carry
// (an involution on the bytes of a string, negation of an integer), so a position that goes
// round the registration (a fast path keyed on the kind, a cached default) shows in the data:
//
//	R = instance with the transforming codecs registered, U = the same options without them
//	U.Unmarshal(R.Marshal(v))  must equal  U.Unmarshal(U.Marshal(flip v))            (writing side)
//	R.Unmarshal(either encoding)  must equal  flip (U.Unmarshal(U.Marshal(flip v)))  (reading side)
//
// where flip applies the transformation at every occurrence of the registered types. Comparing
// decoded values with decoded values keeps nil/empty and omission conventions out of it.

type Flip string
type Neg int64

type FlipInner struct {
	V Flip         `plenc:"1"`
	K map[Flip]Neg `plenc:"2"`
	S []Neg        `plenc:"3"`
}

type FlipPos struct {
	V  Flip           `plenc:"1"`
	P  *Flip          `plenc:"2"`
	S  []Flip         `plenc:"3"`
	K  map[Flip]int   `plenc:"4"`
	M  map[int]Flip   `plenc:"5"`
	KM map[Flip]Flip  `plenc:"6,proto"`
	PS *[]Flip        `plenc:"7"`
	T  Flip           `plenc:"9,x"`
	PT *Flip          `plenc:"10,x"`
	N  Neg            `plenc:"11"`
	PN *Neg           `plenc:"12"`
	SN []Neg          `plenc:"13"`
	KN map[Neg]Flip   `plenc:"14"`
	MN map[string]Neg `plenc:"15"`
	I  FlipInner      `plenc:"17"`
	SI []FlipInner    `plenc:"18"`
	PI *FlipInner     `plenc:"19"`
	PK map[Neg]Neg    `plenc:"20,proto"`
}

var (
	tFlip = reflect.TypeOf(Flip(""))
	tNeg  = reflect.TypeOf(Neg(0))
)

func flipBytes(s string, mask byte) string {
	b := []byte(s)
	for i := range b {
		b[i] ^= mask
	}
	return string(b)
}

// xformCodec wraps the instance's own codec for the underlying kind
type xformCodec struct {
	plenccodec.Codec
	enc func(ptr unsafe.Pointer) unsafe.Pointer // a transformed copy
	dec func(ptr unsafe.Pointer)                // transform in place
}

func (x xformCodec) Omit(ptr unsafe.Pointer) bool { return x.Codec.Omit(ptr) }
func (x xformCodec) Size(ptr unsafe.Pointer, tag []byte) int {
	return x.Codec.Size(x.enc(ptr), tag)
}
func (x xformCodec) Append(data []byte, ptr unsafe.Pointer, tag []byte) []byte {
	return x.Codec.Append(data, x.enc(ptr), tag)
}
func (x xformCodec) Read(data []byte, ptr unsafe.Pointer, wt plenccore.WireType) (int, error) {
	n, err := x.Codec.Read(data, ptr, wt)
	if err == nil {
		x.dec(ptr)
	}
	return n, err
}

func stringXform(inner plenccodec.Codec, mask byte) plenccodec.Codec {
	return xformCodec{Codec: inner,
		enc: func(ptr unsafe.Pointer) unsafe.Pointer {
			s := flipBytes(*(*string)(ptr), mask)
			return unsafe.Pointer(&s)
		},
		dec: func(ptr unsafe.Pointer) { *(*string)(ptr) = flipBytes(*(*string)(ptr), mask) },
	}
}

func negXform(inner plenccodec.Codec) plenccodec.Codec {
	return xformCodec{Codec: inner,
		enc: func(ptr unsafe.Pointer) unsafe.Pointer {
			v := -*(*int64)(ptr)
			return unsafe.Pointer(&v)
		},
		dec: func(ptr unsafe.Pointer) { *(*int64)(ptr) = -*(*int64)(ptr) },
	}
}

// flipValue applies the transformations wherever the registered codecs apply: mask 1 for Flip,
// mask 2 for Flip under the tag "x" (a struct field or its pointer target), negation for Neg.
func flipValue(v reflect.Value, tagged bool) reflect.Value {
	t := v.Type()
	out := reflect.New(t).Elem()
	switch {
	case t == tFlip:
		mask := byte(1)
		if tagged {
			mask = 2
		}
		out.SetString(flipBytes(v.String(), mask))
		return out
	case t == tNeg:
		out.SetInt(-v.Int())
		return out
	}
	switch t.Kind() {
	case reflect.Ptr:
		if !v.IsNil() {
			p := reflect.New(t.Elem())
			p.Elem().Set(flipValue(v.Elem(), tagged))
			out.Set(p)
		}
	case reflect.Slice:
		if !v.IsNil() {
			s := reflect.MakeSlice(t, v.Len(), v.Len())
			for i := 0; i < v.Len(); i++ {
				s.Index(i).Set(flipValue(v.Index(i), false))
			}
			out.Set(s)
		}
	case reflect.Map:
		if !v.IsNil() {
			m := reflect.MakeMapWithSize(t, v.Len())
			it := v.MapRange()
			for it.Next() {
				m.SetMapIndex(flipValue(it.Key(), false), flipValue(it.Value(), false))
			}
			out.Set(m)
		}
	case reflect.Struct:
		for i := 0; i < t.NumField(); i++ {
			tg := strings.HasSuffix(t.Field(i).Tag.Get("plenc"), ",x")
			out.Field(i).Set(flipValue(v.Field(i), tg))
		}
	default:
		out.Set(v)
	}
	return out
}

func flipInstances(cfg Cfg) (r, u *plenc.Plenc, err error) {
	r, u = newInstance(cfg), newInstance(cfg)
	str, err := r.CodecForType(reflect.TypeOf(""))
	if err != nil {
		return nil, nil, err
	}
	i64, err := r.CodecForType(reflect.TypeOf(int64(0)))
	if err != nil {
		return nil, nil, err
	}
	r.RegisterCodec(tFlip, stringXform(str, 1))
	r.RegisterCodecWithTag(tFlip, "x", stringXform(str, 2))
	r.RegisterCodec(tNeg, negXform(i64))
	// the other instance knows the tag only as an alias for the plain string codec
	ustr, err := u.CodecForType(reflect.TypeOf(""))
	if err != nil {
		return nil, nil, err
	}
	u.RegisterCodecWithTag(reflect.TypeOf(""), "x", ustr)
	return r, u, nil
}

// a codec registered after the instance has already looked the type up (a lookup, then the
// registration for exactly that key, then the next use) is the one in use from then on, as on an
// instance that registered first
func lateRegistrations(c *Ctx) {
	for _, cfg := range protoCfgs {
		for _, tag := range []string{"", "x"} {
			early, _, err := flipInstances(cfg)
			late := newInstance(cfg)
			if err != nil {
				return
			}
			v := Flip("late registration")
			// the lookups that come first on the late instance
			if tag == "" {
				late.CodecForType(tFlip)
				late.Marshal(nil, &v)
			} else {
				str, _ := late.CodecForType(reflect.TypeOf(""))
				late.RegisterCodecWithTag(tFlip, "x", str)
				late.CodecForTypeWithTag(tFlip, "x")
			}
			str, err := late.CodecForType(reflect.TypeOf(""))
			if err != nil {
				return
			}
			if tag == "" {
				late.CodecForType(tFlip) // the most recent lookup is exactly the key about to be registered
				late.RegisterCodec(tFlip, stringXform(str, 1))
			} else {
				late.CodecForTypeWithTag(tFlip, "x")
				late.RegisterCodecWithTag(tFlip, "x", stringXform(str, 2))
			}
			c1, e1 := early.CodecForTypeWithTag(tFlip, tag)
			c2, e2 := late.CodecForTypeWithTag(tFlip, tag)
			desc := fmt.Sprintf("late registration cfg=%s tag=%q", cfg, tag)
			if e1 != nil || e2 != nil {
				c.native = append(c.native, NativeViolation{Case: desc, What: fmt.Sprint(e1, e2), Class: "registered-codec-position"})
				continue
			}
			b1 := c1.Append(nil, unsafe.Pointer(&v), nil)
			b2 := c2.Append(nil, unsafe.Pointer(&v), nil)
			if string(b1) != string(b2) {
				c.native = append(c.native, NativeViolation{Case: desc, Class: "registered-codec-position",
					What: fmt.Sprintf("the codec registered after an earlier lookup of the same (type, tag) is not the one in use: it writes %x, an instance that registered first writes %x", b2, b1)})
			}
			if tag == "" {
				m1, _ := early.Marshal(nil, &v)
				m2, _ := late.Marshal(nil, &v)
				if string(m1) != string(m2) {
					c.native = append(c.native, NativeViolation{Case: desc, Class: "registered-codec-position",
						What: fmt.Sprintf("Marshal after a late registration gives %x, an instance that registered first gives %x", m2, m1)})
				}
			}
			c.count("late_registrations")
		}
	}
}

func runC17Positions(c *Ctx) {
	lateRegistrations(c)
	vg := &ValGen{r: c.rng}
	types := []reflect.Type{reflect.TypeOf(FlipPos{}), reflect.TypeOf(FlipInner{}), tFlip, tNeg,
		reflect.SliceOf(tFlip), reflect.MapOf(tFlip, tNeg), reflect.MapOf(tNeg, tFlip), reflect.PointerTo(tFlip),
		reflect.MapOf(tFlip, reflect.TypeOf(FlipInner{})), reflect.SliceOf(tNeg)}
	n := scale(c, 60, 1500)
	for i := 0; i < n; i++ {
		cfg := protoCfgs[c.rng.Intn(len(protoCfgs))]
		r, u, err := flipInstances(cfg)
		if err != nil {
			c.native = append(c.native, NativeViolation{Case: "positions: instances", What: err.Error(), Class: "registered-codec-not-used"})
			return
		}
		for j := 0; j < 6; j++ {
			t := types[c.rng.Intn(len(types))]
			if j == 0 {
				t = types[0]
			}
			if cfg.ProtoArrays && t.Kind() == reflect.Slice && t.Elem() == tFlip {
				continue // a bare repeated field has no framing (known finding D12)
			}
			v := vg.Value(t, 3)
			fv := flipValue(v, false)
			desc := fmt.Sprintf("positions cfg=%s type=%s value=%s", cfg, t, trunc(fmt.Sprintf("%+v", v.Interface()), 300))
			ptrTo := func(x reflect.Value) any {
				p := reflect.New(t)
				p.Elem().Set(x)
				return p.Interface()
			}
			var bR, bU []byte
			r1 := safely(func() (err error) { bR, err = r.Marshal(nil, ptrTo(v)); return err })
			r2 := safely(func() (err error) { bU, err = u.Marshal(nil, ptrTo(fv)); return err })
			if r1.panicked || r2.panicked || (r1.err == nil) != (r2.err == nil) {
				c.native = append(c.native, NativeViolation{Case: desc, What: fmt.Sprintf("Marshal outcomes differ: registered %v %v, plain %v %v", r1.msg, r1.err, r2.msg, r2.err), Class: "registered-codec-position"})
				continue
			}
			if r1.err != nil {
				continue
			}
			dec := func(p *plenc.Plenc, data []byte) (reflect.Value, callResult) {
				out := reflect.New(t)
				res := safely(func() error { return p.Unmarshal(data, out.Interface()) })
				return out.Elem(), res
			}
			// writing side: the plain instance reads both encodings alike
			uR, ra := dec(u, bR)
			uU, rb := dec(u, bU)
			bad := ""
			if ra.panicked || rb.panicked || ra.err != nil || rb.err != nil || !reflect.DeepEqual(uR.Interface(), uU.Interface()) {
				bad = fmt.Sprintf("writing side: bytes of the registered instance %x read by the plain instance give %+v, the plain encoding of the transformed value %x gives %+v (%v %v %v %v)",
					bR, uR.Interface(), bU, uU.Interface(), ra.msg, ra.err, rb.msg, rb.err)
			} else {
				// reading side: what the registered instance reads is the transformation of what the plain one reads
				want := flipValue(uU, false)
				for _, data := range [][]byte{bU, bR} {
					got, rr := dec(r, data)
					if rr.panicked || rr.err != nil || !reflect.DeepEqual(got.Interface(), want.Interface()) {
						bad = fmt.Sprintf("reading side: the registered instance reads %x as %+v, want %+v (%v %v)", data, got.Interface(), want.Interface(), rr.msg, rr.err)
						break
					}
				}
			}
			if bad != "" {
				c.native = append(c.native, NativeViolation{Case: desc, Class: "registered-codec-position",
					What: trunc("the registered codec is not the one in use at some position: "+bad, 900)})
			}
			c.count("registered_positions")
		}
	}
}
