package main

import (
	"reflect"
	"time"

	"github.com/unravelin/null"
)

// Declared types: things reflect cannot build at run time (recursive and
// mutually recursive types, unexported fields, named types, null.* fields).
// Their model descriptions are derived by reflection (types.go), not written
// by hand.

type Rec struct {
	A []Rec  `plenc:"1"`
	B int    `plenc:"2"`
	P *Rec   `plenc:"3"`
	S string `plenc:"4,intern"`
}

type RecMap struct {
	M map[string]RecMap `plenc:"1"`
	V int               `plenc:"2"`
}

type MutA struct {
	B *MutB `plenc:"1"`
	X int   `plenc:"2"`
}

type MutB struct {
	A []MutA `plenc:"1"`
	Y string `plenc:"2"`
}

type Unexp struct {
	A  int `plenc:"1"`
	b  int
	_x int    `plenc:"9"`
	C  string `plenc:"-"`
	D  string `plenc:"2"`
	e  []string
	F  *int `plenc:"-"`
}

type WithNull struct {
	I  null.Int            `plenc:"1"`
	B  null.Bool           `plenc:"2"`
	F  null.Float          `plenc:"3"`
	S  null.String         `plenc:"4"`
	T  null.Time           `plenc:"5"`
	SI null.String         `plenc:"6,intern"`
	M  map[string]null.Int `plenc:"7"`
	P  *null.String        `plenc:"8"`
}

// null.* values as slice elements (every element codec kind: varint, fixed, length-delimited)
type NullSlices struct {
	I  []null.Int              `plenc:"1"`
	B  []null.Bool             `plenc:"2"`
	F  []null.Float            `plenc:"3"`
	S  []null.String           `plenc:"4"`
	T  []null.Time             `plenc:"5"`
	FF [][]null.Float          `plenc:"6"`
	MF map[string][]null.Float `plenc:"7"`
}

// registrations made on one instance only (Cfg.WithCustom): overridden int64, the tag "zz"
type N64 int64
type NStr string
type NI32 int32
type Custom struct {
	A int64          `plenc:"1"`
	B N64            `plenc:"2"`
	C []N64          `plenc:"3"`
	D map[N64]*int64 `plenc:"4"`
	E string         `plenc:"5,zz"`
	F NStr           `plenc:"6,zz"`
	G int32          `plenc:"7,zz"`
	H *NI32          `plenc:"8,zz"`
	I MyInt          `plenc:"9"`
}
type CustomPlain struct {
	A int64   `plenc:"1"`
	B N64     `plenc:"2"`
	C *N64    `plenc:"3"`
	D []int64 `plenc:"4"`
}

type Named struct {
	A MyInt                `plenc:"1"`
	B MyString             `plenc:"2" json:"bee"`
	C MyBytes              `plenc:"3"`
	D MyInt8               `plenc:"4,flat"`
	E []MyInt              `plenc:"5"`
	F map[MyString]MyFloat `plenc:"6"`
	G MyBool               `plenc:"7"`
	H []MyF32              `plenc:"8"`
	I MyUint16             `plenc:"2047"`
}

type Times struct {
	T time.Time            `plenc:"1"`
	P *time.Time           `plenc:"2"`
	L []time.Time          `plenc:"3"`
	M map[string]time.Time `plenc:"4"`
	Q []*time.Time         `plenc:"5"`
}

type Ptrs struct {
	I  *int              `plenc:"1"`
	S  *string           `plenc:"2"`
	B  *[]byte           `plenc:"3"`
	F  *float64          `plenc:"4"`
	T  *Inner            `plenc:"5"`
	L  []*Inner          `plenc:"6"`
	LI []*int            `plenc:"7"`
	M  map[int]*string   `plenc:"8"`
	MS map[string]*Inner `plenc:"9"`
	PP **int             `plenc:"10"`
	PL *[]string         `plenc:"11"`
	FI *int32            `plenc:"12,flat"`
}

type Inner struct {
	A int    `plenc:"1"`
	B string `plenc:"2"`
}

type KeyS struct {
	X int    `plenc:"1"`
	Y int    `plenc:"2"`
	Z string `plenc:"3"`
}

type Maps struct {
	A map[KeyS]int       `plenc:"1"`
	B map[bool]string    `plenc:"2"`
	C map[int8][]int     `plenc:"3"`
	D map[string]Inner   `plenc:"4"`
	E map[uint32]float32 `plenc:"5"`
	P map[string]int     `plenc:"6,proto"`
	Q map[int][]string   `plenc:"7"`
}

type Slices struct {
	A []int       `plenc:"1"`
	B []uint8     `plenc:"2"`
	C []float64   `plenc:"3"`
	D []float32   `plenc:"4"`
	E []string    `plenc:"5"`
	F [][]byte    `plenc:"6"`
	G []Inner     `plenc:"7"`
	H [][]int     `plenc:"8"`
	I []bool      `plenc:"9"`
	J []int32     `plenc:"10"`
	K []string    `plenc:"11,proto"`
	L []Inner     `plenc:"12,proto"`
	M [][]float64 `plenc:"13"`
}

type JSONHolder struct {
	M map[string]any `plenc:"1"`
	A []any          `plenc:"2"`
	N int            `plenc:"3"`
}

type BQHolder struct {
	T time.Time  `plenc:"1,bq"`
	U time.Time  `plenc:"2"`
	P *time.Time `plenc:"3,bq"`
}

// a back-reference carrying a tag option for which no codec is registered
type RecTagged struct {
	V    int        `plenc:"1"`
	Next *RecTagged `plenc:"2,zzz"`
}
type RecTaggedSlice struct {
	V    int              `plenc:"1"`
	Kids []RecTaggedSlice `plenc:"2"`
	Up   *RecTaggedSlice  `plenc:"3,flat"`
}
type MutTagA struct {
	B *MutTagB `plenc:"1"`
}
type MutTagB struct {
	A *MutTagA `plenc:"1,intern"`
	X *MutTagA `plenc:"2,other"`
}

// values whose interface data word is the value itself (pointer-shaped structs, at
// every wrapping depth), next to pointer-sized values that are boxed
type Wrap1 struct {
	P *Inner `plenc:"1"`
}
type Wrap2 struct {
	W Wrap1 `plenc:"1"`
}
type Wrap3 struct {
	W Wrap2 `plenc:"3"`
}
type WrapRec struct {
	R WrapRec1 `plenc:"2"`
}
type WrapRec1 struct {
	N *Rec `plenc:"1"`
}
type WrapM struct {
	M map[string]int `plenc:"1"`
}
type WrapM2 struct {
	W WrapM `plenc:"2"`
}
type WrapI struct {
	A int `plenc:"1"`
}
type WrapI2 struct {
	W WrapI `plenc:"1"`
}
type WrapPP struct {
	P **int `plenc:"1"`
}

var catalogueWrap = []reflect.Type{
	reflect.TypeOf(Wrap1{}), reflect.TypeOf(Wrap2{}), reflect.TypeOf(Wrap3{}), reflect.TypeOf(WrapRec{}), reflect.TypeOf(WrapRec1{}),
	reflect.TypeOf(WrapM{}), reflect.TypeOf(WrapM2{}), reflect.TypeOf(WrapI{}), reflect.TypeOf(WrapI2{}), reflect.TypeOf(WrapPP{}),
}

// invalid definitions inside (mutual) recursion: whichever type of a family is asked
// for, in whatever order, on one instance, the answer is an error
type BadOutA struct {
	Items []BadInA `plenc:"1"`
	X     int      // exported, untagged, after the reference
}
type BadInA struct {
	Owner *BadOutA `plenc:"1"`
	V     int      `plenc:"2"`
}
type BadOutB struct {
	Items map[string]BadInB `plenc:"1"`
	A     int               `plenc:"2"`
	B     int               `plenc:"2"` // duplicate index
}
type BadInB struct {
	Owner *BadOutB `plenc:"1"`
	A     int      `plenc:"2"`
	B     int      `plenc:"3"`
}
type BadOutC struct {
	P *BadInC   `plenc:"1"`
	Z complex64 `plenc:"2"` // unsupported kind
}
type BadInC struct {
	Up []BadOutC `plenc:"1"`
	V  string    `plenc:"2"`
}
type BadOutD struct {
	Z chan int `plenc:"1"` // the bad field first
	P *BadInD  `plenc:"2"`
}
type BadInD struct {
	Up *BadOutD `plenc:"1"`
	W  []BadInD `plenc:"2"`
}
type BadSelf struct {
	Next *BadSelf  `plenc:"1"`
	Kids []BadSelf `plenc:"2"`
	X    int       `plenc:"x"` // unparsable index
}
type BadMidA struct {
	B *BadMidB `plenc:"1"`
}
type BadMidB struct {
	C []BadMidC `plenc:"1"`
	A *BadMidA  `plenc:"2"`
}
type BadMidC struct {
	A *BadMidA `plenc:"1"`
	Q int      `plenc:"-1"` // negative index
}

var badFamilies = [][]reflect.Type{
	{reflect.TypeOf(BadOutA{}), reflect.TypeOf(BadInA{})},
	{reflect.TypeOf(BadOutB{}), reflect.TypeOf(BadInB{})},
	{reflect.TypeOf(BadOutC{}), reflect.TypeOf(BadInC{})},
	{reflect.TypeOf(BadOutD{}), reflect.TypeOf(BadInD{})},
	{reflect.TypeOf(BadSelf{}), reflect.TypeOf([]BadSelf{}), reflect.TypeOf(&BadSelf{})},
	{reflect.TypeOf(BadMidA{}), reflect.TypeOf(BadMidB{}), reflect.TypeOf(BadMidC{})},
}

// maps keyed by pointers: every decoded key is a new pointer, so entries never merge
// (the key's pointee still has to come back, and the key's descriptor says "explicit presence")
type PtrKeys struct {
	A map[*KeyS]int      `plenc:"1"`
	B map[*int]string    `plenc:"2"`
	C map[*string]*Inner `plenc:"3"`
	P map[*KeyS]string   `plenc:"5,proto"`
	Q map[KeyS]int32     `plenc:"6,proto"`
}

var catalogue = []reflect.Type{
	reflect.TypeOf(Rec{}), reflect.TypeOf(RecMap{}), reflect.TypeOf(MutA{}), reflect.TypeOf(MutB{}),
	reflect.TypeOf(Unexp{}), reflect.TypeOf(Named{}), reflect.TypeOf(Times{}), reflect.TypeOf(Ptrs{}),
	reflect.TypeOf(Inner{}), reflect.TypeOf(Maps{}), reflect.TypeOf(Slices{}),
	reflect.TypeOf(map[KeyS]Inner{}), reflect.TypeOf([]Rec{}), reflect.TypeOf(map[string]MutA{}),
	reflect.TypeOf(PtrKeys{}), reflect.TypeOf(map[*string]int{}),
}

var catalogueNull = []reflect.Type{reflect.TypeOf(WithNull{}), reflect.TypeOf(NullSlices{}), reflect.TypeOf([]null.Float{})}
var catalogueJSON = []reflect.Type{reflect.TypeOf(JSONHolder{}), tJSONMap, tJSONArr}
var catalogueBQ = []reflect.Type{reflect.TypeOf(BQHolder{})}
var catalogueCustom = []reflect.Type{reflect.TypeOf(Custom{}), reflect.TypeOf(CustomPlain{}), reflect.TypeOf(N64(0)), reflect.TypeOf([]N64{})}
