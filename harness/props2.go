package main

import (
	"encoding/binary"
	"fmt"
	"github.com/unravelin/null"
	"reflect"
	"runtime"
	"time"

	"github.com/philpearl/plenc/plenccodec"
)

// ---------------- C09: explicit presence ----------------

func runPresence(c *Ctx) {
	coreHeader(c, 1)
	vg := &ValGen{r: c.rng}
	tg := &TypeGen{r: c.rng, withNull: true}
	n := scale(c, 300, 8000)
	for i := 0; i < n; i++ {
		cfg := randCfg(c)
		cfg.WithNull = true
		tg.proto = cfg.ProtoArrays
		// a struct whose fields are pointer / null typed positions over a random pointee
		var pointee reflect.Type
		for {
			pointee = tg.Type(1 + c.rng.Intn(2))
			if pointee.Kind() != reflect.Map && !(pointee.Kind() == reflect.Ptr && pointee.Elem().Kind() == reflect.Map) && !(cfg.ProtoArrays && isProtoSlice(pointee)) {
				break
			}
		}
		fields := []reflect.StructField{
			{Name: "P", Type: reflect.PointerTo(pointee), Tag: `plenc:"1"`},
			{Name: "M", Type: reflect.MapOf(reflect.TypeOf(0), reflect.PointerTo(pointee)), Tag: `plenc:"2"`},
			{Name: "S", Type: reflect.MapOf(reflect.TypeOf(""), reflect.PointerTo(pointee)), Tag: `plenc:"3"`},
			{Name: "N", Type: nullTypes[c.rng.Intn(len(nullTypes))], Tag: `plenc:"4"`},
			{Name: "MN", Type: reflect.MapOf(reflect.TypeOf(int8(0)), nullTypes[c.rng.Intn(len(nullTypes))]), Tag: `plenc:"5"`},
			{Name: "Plain", Type: pointee, Tag: `plenc:"6"`},
			{Name: "PP", Type: reflect.PointerTo(reflect.PointerTo(pointee)), Tag: `plenc:"7"`},
			{Name: "NI", Type: tNullString, Tag: `plenc:"8,intern"`},
			{Name: "SI", Type: reflect.TypeOf(""), Tag: `plenc:"9,intern"`},
			{Name: "PI", Type: reflect.PointerTo(reflect.TypeOf("")), Tag: `plenc:"10,intern"`},
		}
		if cfg.ProtoArrays && isProtoSlice(pointee) {
			continue
		}
		tc := newTypeCase(reflect.StructOf(fields), cfg)
		for j := 0; j < 4; j++ {
			v := vg.Value(tc.T, 3)
			// emphasise zero and empty pointees
			if c.rng.Chance(60) {
				z := reflect.New(pointee)
				if pointee == tTime && c.rng.Bool() {
					z.Elem().Set(reflect.ValueOf(time.Unix(0, 0).UTC())) // the instant both time codecs could mistake for "nothing"
				}
				v.Field(0).Set(z)
				m := reflect.MakeMap(fields[1].Type)
				m.SetMapIndex(reflect.ValueOf(0), reflect.New(pointee))
				m.SetMapIndex(reflect.ValueOf(7), reflect.Zero(reflect.PointerTo(pointee)))
				m.SetMapIndex(reflect.ValueOf(-1), reflect.New(pointee))
				v.Field(1).Set(m)
				ms := reflect.MakeMap(fields[2].Type)
				ms.SetMapIndex(reflect.ValueOf(""), reflect.New(pointee))
				ms.SetMapIndex(reflect.ValueOf("k"), reflect.Zero(reflect.PointerTo(pointee)))
				v.Field(2).Set(ms)
				pp := reflect.New(reflect.PointerTo(pointee))
				if c.rng.Bool() {
					pp.Elem().Set(reflect.New(pointee))
				}
				v.Field(6).Set(pp)
				// present-but-empty in the interned positions
				v.Field(7).Set(reflect.ValueOf(null.StringFrom("")))
				v.Field(9).Set(reflect.ValueOf(new(string)))
			}
			c.addRT(tc, v, "presence")
		}
	}
}

// ---------------- C10: re-used targets and histories ----------------

func runMerge(c *Ctx) {
	coreHeader(c, 1)
	keyScratchHistories(c)
	longInternHistories(c)
	reusedElementSlices(c)
	vg := &ValGen{r: c.rng}
	n := scale(c, 200, 5000)
	for i := 0; i < n; i++ {
		cfg := randCfg(c)
		cfg.WithJSON = c.rng.Chance(15)
		tc := pickType(c, cfg, 1+c.rng.Intn(3))
		d := 3
		if tc.Rec {
			d = 2
		}
		// a history of operations on this one instance; every decode is
		// compared with the (stateless) model
		steps := 4 + c.rng.Intn(8)
		for j := 0; j < steps; j++ {
			v := vg.Value(tc.T, d)
			var data []byte
			r := safely(func() (err error) {
				data, err = tc.P.Marshal(nil, v.Addr().Interface())
				return err
			})
			if r.panicked || r.err != nil {
				c.native = append(c.native, NativeViolation{Case: fmt.Sprintf("merge type=%s", tc.T), What: fmt.Sprintf("Marshal failed %v %v", r.msg, r.err), Class: "marshal-fails"})
				continue
			}
			if tc.Rec && len(data) > 14 {
				continue
			}
			var prior reflect.Value
			switch c.rng.Intn(4) {
			case 0:
				prior = reflect.New(tc.T).Elem() // fresh: must be independent of history
			default:
				prior = vg.Value(tc.T, d)
			}
			// failed decodes are part of the history too: damaged copies of valid data, cut at
			// every kind of position, leave pooled scratch state and half-written targets behind
			if len(data) > 1 && c.rng.Chance(50) {
				for k := 0; k < 1+c.rng.Intn(3); k++ {
					bad := append([]byte{}, data...)
					switch c.rng.Intn(3) {
					case 0:
						bad = bad[:1+c.rng.Intn(len(bad)-1)]
					case 1:
						bad[c.rng.Intn(len(bad))] ^= byte(1 << uint(c.rng.Intn(8)))
					default:
						bad = append(bad[:len(bad)-1], 0xff, 0xff, 0x7f)
					}
					scratch := reflect.New(tc.T)
					if c.rng.Bool() {
						deepCopyInto(scratch.Elem(), vg.Value(tc.T, d))
					}
					c.crumb(fmt.Sprintf("merge-history damaged decode cfg=%s type=%s data=%x", tc.Cfg, tc.T, bad))
					safely(func() error { return tc.P.Unmarshal(bad, scratch.Interface()) })
					c.count("history_damaged_decodes")
				}
			}
			c.addDec(tc, data, prior, "merge", shapeClass(tc.T, 2)+"/"+fmt.Sprint(prior.IsZero()), !prior.IsZero() && len(data) > 0)
		}
	}
}

// keyScratchHistories: maps with struct keys decode the key into pooled scratch
// memory; a decode that fails after the key was read must not leave anything behind
// that a later decode can see. Every truncation of a valid message is tried.
func keyScratchHistories(c *Ctx) {
	type K2 struct {
		A int    `plenc:"1"`
		B string `plenc:"2"`
	}
	types := []reflect.Type{
		reflect.TypeOf(map[KeyS]Inner{}),
		reflect.TypeOf(map[K2]string{}),
		reflect.StructOf([]reflect.StructField{{Name: "M", Type: reflect.TypeOf(map[K2]int{}), Tag: `plenc:"1"`}}),
		reflect.StructOf([]reflect.StructField{{Name: "M", Type: reflect.TypeOf(map[K2]int{}), Tag: `plenc:"1,proto"`}}),
		reflect.TypeOf(map[*K2]int{}),
	}
	vg := &ValGen{r: c.rng}
	for _, t := range types {
		tc := newTypeCase(t, Cfg{})
		if _, err := tc.P.CodecForType(t); err != nil {
			continue
		}
		for round := 0; round < scale(c, 2, 10); round++ {
			full := fullValue(t, 3) // every key field set
			data, err := tc.P.Marshal(nil, full.Addr().Interface())
			if err != nil {
				continue
			}
			for cut := 1; cut < len(data); cut++ {
				scratch := reflect.New(t)
				c.crumb(fmt.Sprintf("key-scratch damaged decode type=%s data=%x", t, data[:cut]))
				safely(func() error { return tc.P.Unmarshal(data[:cut], scratch.Interface()) })
				// now valid data whose keys have zero fields, into a fresh variable: a random value, and
				// values built to have an all-zero key and keys with each single field left zero (whatever
				// a scratch key kept from the damaged decode shows in them)
				vals := []reflect.Value{vg.Value(t, 2)}
				vals = append(vals, zeroKeyValues(t)...)
				for _, v := range vals {
					d2, err := tc.P.Marshal(nil, v.Addr().Interface())
					if err != nil || len(d2) == 0 {
						continue
					}
					c.addDec(tc, d2, reflect.New(t).Elem(), "key-scratch", "key-scratch/"+shapeClass(t, 2), true)
					// (only the first valid decode after the damaged one meets the scratch it left behind)
					safely(func() error { return tc.P.Unmarshal(data[:cut], reflect.New(t).Interface()) })
				}
			}
		}
	}
}

// a decode into a fresh variable must not depend on how much the instance has decoded before:
// an interning table that has seen thousands of distinct values (any internal limit, resize or
// replacement) gives the same result as a new instance
type InternHist struct {
	ID int    `plenc:"1"`
	S  string `plenc:"2,intern"`
	T  string `plenc:"3"`
}

func longInternHistories(c *Ctx) {
	for _, n := range []int{300, 1100, scale(c, 2300, 9000)} {
		used := newInstance(Cfg{})
		for i := 0; i < n; i++ {
			v := InternHist{ID: i, S: fmt.Sprintf("seen-%06d", i), T: "t"}
			data, err := used.Marshal(nil, &v)
			if err != nil {
				c.native = append(c.native, NativeViolation{Case: "long intern history", What: err.Error(), Class: "marshal-fails"})
				return
			}
			var out InternHist
			if err := used.Unmarshal(data, &out); err != nil || out != v {
				c.native = append(c.native, NativeViolation{Case: fmt.Sprintf("long intern history: decode %d of %d distinct interned values on one instance, data=%x", i, n, data), Class: "history-dependent-decode",
					What: fmt.Sprintf("decoded %+v, want %+v (%v)", out, v, err)})
				return
			}
		}
		for k := 0; k < 5; k++ {
			v := InternHist{ID: -k, S: fmt.Sprintf("never seen before %d", k), T: "u"}
			data, _ := used.Marshal(nil, &v)
			var a, b InternHist
			e1 := used.Unmarshal(data, &a)
			e2 := newInstance(Cfg{}).Unmarshal(data, &b)
			if e1 != nil || e2 != nil || a != b || b != v {
				c.native = append(c.native, NativeViolation{Case: fmt.Sprintf("fresh decode after %d distinct interned values on the instance, data=%x", n, data), Class: "history-dependent-decode",
					What: fmt.Sprintf("the used instance decodes %+v, a new instance %+v (%v %v)", a, b, e1, e2)})
				return
			}
		}
		c.count("long_intern_histories")
	}
}


// slices decoded into targets whose backing array is re-used: every element kind whose codec
// MERGES into what it finds (pointers, structs, maps, nested slices) next to those that overwrite;
// the prior elements are fully populated, the new ones are zero or have a single field set, and
// the target is longer than, as long as, or (with spare capacity) shorter than the data
func reusedElementSlices(c *Ctx) {
	elems := []reflect.Type{
		reflect.TypeOf(&Inner{}), reflect.TypeOf(Inner{}), reflect.TypeOf((**Inner)(nil)), reflect.TypeOf(""), reflect.TypeOf((*string)(nil)),
		tBytes, tTime, reflect.TypeOf((*time.Time)(nil)), reflect.TypeOf(&KeyS{}), reflect.TypeOf(map[string]int{}), reflect.TypeOf((*int)(nil)),
		reflect.TypeOf(int64(0)), reflect.TypeOf(float64(0)),
	}
	for _, et := range elems {
		for _, wrapped := range []bool{false, true} {
			st := reflect.SliceOf(et)
			t := st
			if wrapped {
				t = reflect.StructOf([]reflect.StructField{{Name: "L", Type: st, Tag: `plenc:"1"`}, {Name: "N", Type: reflect.TypeOf(0), Tag: `plenc:"2"`}})
			}
			for _, cfg := range []Cfg{{}, {ProtoArrays: true}} {
				if cfg.ProtoArrays && (protoUnsafe(t) || !wrapped) {
					continue
				}
				tc := newTypeCase(t, cfg)
				if _, err := tc.P.CodecForType(t); err != nil {
					continue
				}
				mk := func(n int, full bool, spare int) reflect.Value {
					sl := reflect.MakeSlice(st, n, n+spare)
					for i := 0; i < n; i++ {
						e := sl.Index(i)
						if full {
							fillFull(e, 3)
							continue
						}
						// sparse: a present pointer / struct with at most one field set
						x := e
						for x.Kind() == reflect.Ptr {
							x.Set(reflect.New(x.Type().Elem()))
							x = x.Elem()
						}
						if x.Kind() == reflect.Struct && x.Type() != tTime && i%2 == 1 {
							fillFull(x.Field(0), 1)
						}
					}
					v := reflect.New(t).Elem()
					if wrapped {
						v.Field(0).Set(sl)
					} else {
						v.Set(sl)
					}
					return v
				}
				for _, nd := range []int{1, 2, 3} {
					d := mk(nd, false, 0)
					data, err := tc.P.Marshal(nil, d.Addr().Interface())
					if err != nil {
						continue
					}
					for _, np := range []int{0, 1, 3, 5} {
						for _, spare := range []int{0, 4} {
							prior := mk(np, true, spare)
							c.addDec(tc, data, prior, "reused-element-slice", fmt.Sprintf("reused-elems/%s/%v/%s", et, wrapped, cfg), true)
						}
					}
				}
			}
		}
	}
}

// zeroKeyValues: values of a map type (or a struct with one map field) with struct keys, whose keys
// have all fields zero, or exactly one field non-zero
func zeroKeyValues(t reflect.Type) []reflect.Value {
	mt := t
	wrap := func(m reflect.Value) reflect.Value { return m }
	if t.Kind() == reflect.Struct && t.NumField() == 1 && t.Field(0).Type.Kind() == reflect.Map {
		mt = t.Field(0).Type
		wrap = func(m reflect.Value) reflect.Value {
			v := reflect.New(t).Elem()
			v.Field(0).Set(m)
			return v
		}
	}
	if mt.Kind() != reflect.Map {
		return nil
	}
	kt := mt.Key()
	isPtr := kt.Kind() == reflect.Ptr
	if isPtr {
		kt = kt.Elem()
	}
	if kt.Kind() != reflect.Struct {
		return nil
	}
	mkKey := func(set int) reflect.Value {
		k := reflect.New(kt).Elem()
		if set >= 0 {
			fillFull(k.Field(set), 1)
		}
		if isPtr {
			p := reflect.New(kt)
			p.Elem().Set(k)
			return p
		}
		return k
	}
	var out []reflect.Value
	for set := -1; set < kt.NumField(); set++ {
		if set >= 0 && !kt.Field(set).IsExported() {
			continue
		}
		m := reflect.MakeMap(mt)
		val := reflect.New(mt.Elem()).Elem()
		fillFull(val, 2)
		m.SetMapIndex(mkKey(set), val)
		w := wrap(m)
		a := reflect.New(t).Elem()
		a.Set(w)
		out = append(out, a)
	}
	return out
}

// ---------------- C03: schema evolution ----------------

type evolver struct {
	r  *RNG
	tg *TypeGen
}

// evolve returns a type related to t by removing/adding/renaming/reordering
// struct fields at any depth.
func (e *evolver) evolve(t reflect.Type, depth int) reflect.Type {
	if extKind(t) >= 0 || t == tBytes {
		return t
	}
	switch t.Kind() {
	case reflect.Ptr:
		return reflect.PointerTo(e.evolve(t.Elem(), depth))
	case reflect.Slice:
		return reflect.SliceOf(e.evolve(t.Elem(), depth))
	case reflect.Map:
		return reflect.MapOf(t.Key(), e.evolve(t.Elem(), depth))
	case reflect.Struct:
		if t.Name() != "" {
			return t // declared types stay as they are
		}
		var fields []reflect.StructField
		used := map[string]bool{}
		maxIdx := 0
		for i := 0; i < t.NumField(); i++ {
			sf := t.Field(i)
			var idx int
			fmt.Sscanf(sf.Tag.Get("plenc"), "%d", &idx)
			if idx > maxIdx {
				maxIdx = idx
			}
			if e.r.Chance(25) {
				continue // removed
			}
			nf := reflect.StructField{Name: sf.Name, Type: e.evolve(sf.Type, depth-1), Tag: sf.Tag}
			if e.r.Chance(30) {
				nf.Name = "R" + sf.Name // renamed
			}
			used[nf.Name] = true
			fields = append(fields, nf)
		}
		nadd := e.r.Intn(3)
		for i := 0; i < nadd; i++ {
			maxIdx += 1 + e.r.Intn(3)
			name := fmt.Sprintf("N%d", maxIdx)
			fields = append(fields, reflect.StructField{Name: name, Type: e.tg.Type(1), Tag: reflect.StructTag(fmt.Sprintf(`plenc:"%d"`, maxIdx))})
		}
		// reorder
		for i := len(fields) - 1; i > 0; i-- {
			j := e.r.Intn(i + 1)
			fields[i], fields[j] = fields[j], fields[i]
		}
		return reflect.StructOf(fields)
	}
	return t
}

func runEvolution(c *Ctx) {
	coreHeader(c, 1)
	vg := &ValGen{r: c.rng}
	n := scale(c, 500, 10000)
	for i := 0; i < n; i++ {
		cfg := randCfg(c)
		cfg.WithNull = false
		tg := &TypeGen{r: c.rng, proto: cfg.ProtoArrays}
		s := tg.Struct(2 + c.rng.Intn(2))
		ev := &evolver{r: c.rng, tg: tg}
		s2 := ev.evolve(s, 3)
		tcS := newTypeCase(s, cfg)
		tcS2 := newTypeCase(s2, cfg)
		for j := 0; j < 2; j++ {
			v := vg.Value(s, 3)
			var data []byte
			r := safely(func() (err error) {
				data, err = tcS.P.Marshal(nil, v.Addr().Interface())
				return err
			})
			if r.panicked || r.err != nil {
				c.native = append(c.native, NativeViolation{Case: fmt.Sprintf("evolution type=%s", s), What: fmt.Sprintf("Marshal failed %v %v", r.msg, r.err), Class: "marshal-fails"})
				continue
			}
			prior := reflect.New(s2).Elem()
			if c.rng.Chance(50) {
				prior = vg.Value(s2, 2)
			}
			// the property on the implementation: no error
			target := reflect.New(s2)
			deepCopyInto(target.Elem(), prior)
			r = safely(func() error { return tcS2.P.Unmarshal(data, target.Interface()) })
			if r.panicked || r.err != nil {
				c.native = append(c.native, NativeViolation{Case: fmt.Sprintf("evolution from=%s to=%s data=%x", s, s2, data), What: fmt.Sprintf("decoding into the evolved type failed: %v %v", r.msg, r.err), Class: "evolution-decode-fails"})
			}
			c.addDec(tcS2, data, prior, fmt.Sprintf("evolution from=%s", s), shapeClass(s, 2)+"->"+shapeClass(s2, 2), len(data) > 0)
		}
	}
}

// ---------------- C08: type definitions ----------------

var badKindTypes = []reflect.Type{
	reflect.TypeOf(complex64(0)), reflect.TypeOf(complex128(0)), reflect.TypeOf([2]int{}), reflect.TypeOf(make(chan int)),
	reflect.TypeOf(func() {}), tAny, reflect.TypeOf(uintptr(0)),
	reflect.TypeOf([]*float64{}), reflect.TypeOf([]*float32{}), reflect.TypeOf([]**float64{}), reflect.TypeOf([]**float32{}),
	reflect.TypeOf([]*MyFloat{}), reflect.TypeOf([]***float64{}), reflect.TypeOf([][]string{}), reflect.TypeOf([][]Inner{}),
	reflect.TypeOf(map[string]map[string]int{}), reflect.TypeOf((*map[string]int)(nil)), reflect.TypeOf([]map[string]int{}),
	reflect.TypeOf([][][]int{}), reflect.TypeOf(map[string][][]string{}), reflect.TypeOf([]any{}), reflect.TypeOf(map[string]any{}),
}

var tagShapes = []string{"", "-", "1", "+1", "-1", "01", " 1", "1 ", "1,", "1,x", ",1", "x", "1.5", "0x1", "1_0", "--1",
	"99999999999999999999", "9223372036854775808", "-9223372036854775809", "1,intern", "1,flat", "1,proto", "1,bq", "1,intern,flat", "2", "0", "65535", "-", "-,x", "1,-"}

func runBuild(c *Ctx) {
	coreHeader(c, 0)
	vg := &ValGen{r: c.rng}
	n := scale(c, 1200, 30000)
	for i := 0; i < n; i++ {
		cfg := randCfg(c)
		tg := &TypeGen{r: c.rng, withNull: cfg.WithNull, proto: cfg.ProtoArrays}
		nf := 1 + c.rng.Intn(4)
		var fields []reflect.StructField
		class := ""
		for j := 0; j < nf; j++ {
			var ft reflect.Type
			switch c.rng.Intn(5) {
			case 0:
				ft = badKindTypes[c.rng.Intn(len(badKindTypes))]
				switch c.rng.Intn(4) { // every unsupported kind in every position
				case 0:
					ft = reflect.PointerTo(ft)
				case 1:
					ft = reflect.SliceOf(ft)
				case 2:
					ft = reflect.MapOf(reflect.TypeOf(""), ft)
				}
				class += "bad,"
			default:
				ft = tg.Type(c.rng.Intn(3))
				class += "ok,"
			}
			var tag string
			switch c.rng.Intn(3) {
			case 0:
				tag = tagShapes[c.rng.Intn(len(tagShapes))]
			case 1:
				tag = fmt.Sprintf("%d", 1+c.rng.Intn(3)) // duplicates likely
			default:
				tag = fmt.Sprintf("%d", j+1)
				if c.rng.Chance(30) {
					tag += "," + []string{"flat", "intern", "proto", "bq", "zzz"}[c.rng.Intn(5)]
				}
			}
			class += tagClass(tag) + ";"
			st := reflect.StructTag(`plenc:"` + tag + `"`)
			if tag == "" && c.rng.Bool() {
				st = ""
			}
			fields = append(fields, reflect.StructField{Name: fmt.Sprintf("F%d", j), Type: ft, Tag: st})
		}
		t := reflect.StructOf(fields)
		switch c.rng.Intn(6) {
		case 0:
			t = reflect.SliceOf(t)
		case 1:
			t = reflect.MapOf(reflect.TypeOf(0), t)
		case 2:
			t = reflect.PointerTo(t)
		}
		tc := newTypeCase(t, cfg)
		c.addBuild(tc, "", "build", class)
		// accepted: it must then behave (smoke battery)
		if _, err := tc.P.CodecForType(t); err == nil && !(cfg.ProtoArrays && protoUnsafe(t)) && !hugeIndex(t) {
			c.addRT(tc, vg.Value(t, 2), "build-smoke")
		}
	}
	// history: what one instance answers for a type must not depend on which related
	// types it was asked about before (each answer is compared with the model, which
	// is a function of the configuration and the type alone)
	for h := 0; h < scale(c, 60, 1500); h++ {
		cfg := randCfg(c)
		tg := &TypeGen{r: c.rng, withNull: cfg.WithNull, proto: cfg.ProtoArrays}
		shared := newInstance(cfg)
		var base reflect.Type
		switch c.rng.Intn(4) {
		case 0:
			base = reflect.MapOf([]reflect.Type{reflect.TypeOf(""), reflect.TypeOf(0)}[c.rng.Intn(2)], tg.Type(1))
		case 1:
			base = reflect.SliceOf(tg.Type(1))
		case 2:
			base = badKindTypes[c.rng.Intn(len(badKindTypes))]
		default:
			base = tg.Type(2)
		}
		wrap := func(t reflect.Type) reflect.Type {
			return reflect.StructOf([]reflect.StructField{{Name: "F", Type: t, Tag: `plenc:"1"`}})
		}
		related := []reflect.Type{base, reflect.PointerTo(base), reflect.SliceOf(base), reflect.MapOf(reflect.TypeOf(""), base),
			reflect.PointerTo(reflect.PointerTo(base)), reflect.SliceOf(reflect.PointerTo(base)),
			wrap(base), wrap(reflect.PointerTo(base)), wrap(reflect.SliceOf(base)), wrap(reflect.MapOf(reflect.TypeOf(0), base)),
			reflect.PointerTo(wrap(reflect.PointerTo(base)))}
		c.rng.Shuffle(len(related), func(i, j int) { related[i], related[j] = related[j], related[i] })
		for k, t := range related[:4+c.rng.Intn(len(related)-3)] {
			tc := newTypeCase(t, cfg)
			tc.P = shared
			c.addBuild(tc, "", fmt.Sprintf("build-history step %d base=%s", k, base), "history")
			if _, err := shared.CodecForType(t); err == nil && !(cfg.ProtoArrays && protoUnsafe(t)) && !hugeIndex(t) {
				c.addRT(tc, vg.Value(t, 2), "build-history-smoke")
			}
		}
	}
	// invalid definitions inside mutual recursion, asked for in every order on one instance
	for _, fam := range badFamilies {
		for rep := 0; rep < scale(c, 4, 12); rep++ {
			cfg := randCfg(c)
			shared := newInstance(cfg)
			order := append([]reflect.Type{}, fam...)
			for _, t := range fam {
				order = append(order, reflect.SliceOf(t), reflect.MapOf(reflect.TypeOf(""), t))
			}
			c.rng.Shuffle(len(order), func(i, j int) { order[i], order[j] = order[j], order[i] })
			if rep < len(fam) { // each member first, at least once
				for i, t := range order {
					if t == fam[rep] {
						order[0], order[i] = order[i], order[0]
					}
				}
			}
			for k, t := range order {
				tc := newTypeCase(t, cfg)
				tc.P = shared
				c.addBuild(tc, "", fmt.Sprintf("build-bad-family step %d", k), "bad-family")
				if _, err := shared.CodecForType(t); err == nil {
					c.addRT(tc, vg.Value(t, 3), "build-bad-family-smoke")
				}
			}
		}
	}
	// bare kinds and the catalogue
	for _, t := range badKindTypes {
		c.addBuild(newTypeCase(t, Cfg{}), "", "build-bare", "bare-bad")
		c.addBuild(newTypeCase(t, Cfg{WithJSON: true}), "", "build-bare", "bare-bad-json")
	}
	for _, t := range append(append([]reflect.Type{}, catalogue...), scalarTypes...) {
		for _, tag := range []string{"", "flat", "intern", "proto", "zzz"} {
			c.addBuild(newTypeCase(t, Cfg{}), tag, "build-tagged", "tagged-"+tag)
		}
	}
	for _, t := range []reflect.Type{reflect.TypeOf(RecTagged{}), reflect.TypeOf(RecTaggedSlice{}), reflect.TypeOf(MutTagA{})} {
		c.addBuild(newTypeCase(t, Cfg{}), "", "build-recursive-tagged", "recursive-tagged")
		c.addBuild(newTypeCase(t, Cfg{ProtoArrays: true, WithNull: true}), "", "build-recursive-tagged", "recursive-tagged")
	}
	for _, t := range catalogueNull {
		c.addBuild(newTypeCase(t, Cfg{}), "", "build-null-unregistered", "null-unregistered")
		tc := newTypeCase(t, Cfg{WithNull: true})
		c.addBuild(tc, "", "build-null", "null")
		// accepted: it must then behave
		if _, err := tc.P.CodecForType(t); err == nil {
			for k := 0; k < 3; k++ {
				c.addRT(tc, vg.Value(t, 3), "build-smoke-null")
			}
		}
	}
}

func tagClass(tag string) string {
	switch {
	case tag == "":
		return "empty"
	case tag == "-":
		return "dash"
	}
	for _, ch := range tag {
		if ch < '0' || ch > '9' {
			return "odd"
		}
	}
	return "num"
}

func hugeIndex(t reflect.Type) bool {
	switch t.Kind() {
	case reflect.Ptr, reflect.Slice:
		return hugeIndex(t.Elem())
	case reflect.Map:
		return hugeIndex(t.Elem()) || hugeIndex(t.Key())
	case reflect.Struct:
		if extKind(t) >= 0 {
			return false
		}
		for i := 0; i < t.NumField(); i++ {
			var idx int64
			fmt.Sscanf(t.Field(i).Tag.Get("plenc"), "%d", &idx)
			if idx > 100000 || hugeIndex(t.Field(i).Type) {
				return true
			}
		}
	}
	return false
}

// ---------------- C04: arbitrary bytes ----------------

func runArbitrary(c *Ctx) {
	if childStart < 0 {
		c.runSandboxed(10 * time.Second)
		return
	}
	coreHeader(c, 1)
	vg := &ValGen{r: c.rng}
	base := []byte{0x00, 0x01, 0x02, 0x7f, 0x80, 0xff}
	ntypes := scale(c, 40, 300)
	exhaustLen := scale(c, 2, 3)
	for i := 0; i < ntypes; i++ {
		cfg := randCfg(c)
		cfg.WithJSON = c.rng.Chance(20)
		cfg.WithBQ = c.rng.Chance(10)
		tc := pickType(c, cfg, 1+c.rng.Intn(2))
		// the JSON-any decoders read a format of their own: a share of the targets is theirs
		jsonish := false
		if i%8 == 5 {
			cfg.WithJSON = true
			tc = newTypeCase(catalogueJSON[(i/8)%len(catalogueJSON)], cfg)
			jsonish = true
		}
		// ... and a share belongs to the types with interned strings (tables keyed by the payload)
		if i%8 == 6 {
			if (i/8)%2 == 0 {
				tc = newTypeCase(reflect.TypeOf(Rec{}), cfg)
			} else {
				cfg.WithNull = true
				tc = newTypeCase(reflect.TypeOf(WithNull{}), cfg)
			}
		}
		d := 2
		if jsonish {
			d = 1
		}
		// valid encodings of this type
		var valid [][]byte
		for j := 0; j < 4; j++ {
			v := vg.Value(tc.T, d)
			if data, err := tc.P.Marshal(nil, v.Addr().Interface()); err == nil {
				valid = append(valid, data)
			}
		}
		// alphabet: boundary bytes plus the bytes that start fields of this type
		alpha := append([]byte{}, base...)
		seen := map[byte]bool{}
		for _, b := range alpha {
			seen[b] = true
		}
		for _, data := range valid {
			for k := 0; k < len(data) && len(alpha) < 12; k++ {
				if !seen[data[k]] {
					seen[data[k]] = true
					alpha = append(alpha, data[k])
				}
				if k > 3 {
					break
				}
			}
		}
		run := func(data []byte, label string) {
			if tc.Rec && len(data) > 12 {
				return
			}
			c.guarded(fmt.Sprintf("%s type=%s cfg=%s data=%x", label, tc.T, tc.Cfg, data), func() {
				c.decodeBoth(tc, data, label)
			})
		}
		// exhaustive short strings
		L := exhaustLen
		if i%8 == 0 {
			L++
		}
		var rec func(prefix []byte, depth int)
		rec = func(prefix []byte, depth int) {
			run(prefix, "exhaustive")
			if depth == L {
				return
			}
			for _, a := range alpha {
				rec(append(append([]byte{}, prefix...), a), depth+1)
			}
		}
		rec(nil, 0)
		// truncations, mutations, inflations, splices of valid encodings
		for _, data := range valid {
			if len(data) == 0 {
				continue
			}
			step := 1 + len(data)/24
			for k := 0; k < len(data); k += step {
				run(data[:k], "truncated")
			}
			for k := 0; k < 10; k++ {
				m := append([]byte{}, data...)
				m[c.rng.Intn(len(m))] ^= byte(1 << uint(c.rng.Intn(8)))
				run(m, "bitflip")
			}
			for k := 0; k < 4; k++ {
				pos := c.rng.Intn(len(data))
				infl := [][]byte{{0xff, 0xff, 0xff, 0xff, 0x0f}, {0xff, 0xff, 0xff, 0xff, 0xff, 0xff, 0xff, 0xff, 0xff, 0x01}, {0x80, 0x80, 0x80, 0x80, 0x80, 0x80, 0x80, 0x80, 0x80, 0x80, 0x01}, {0xff, 0x7f}}[c.rng.Intn(4)]
				m := append(append(append([]byte{}, data[:pos]...), infl...), data[pos+1:]...)
				run(m, "inflated")
			}
			other := valid[c.rng.Intn(len(valid))]
			run(append(append([]byte{}, data...), other...), "spliced")
		}
		// lengths and counts near 2^63 and 2^64 (int conversion wraps), in known and unknown fields of every wire type
		huge := [][]byte{
			{0xff, 0xff, 0xff, 0xff, 0xff, 0xff, 0xff, 0xff, 0x7f},       // 2^63-1
			{0x80, 0x80, 0x80, 0x80, 0x80, 0x80, 0x80, 0x80, 0x80, 0x01}, // 2^63
			{0xff, 0xff, 0xff, 0xff, 0xff, 0xff, 0xff, 0xff, 0xff, 0x01}, // 2^64-1
			{0xf6, 0xff, 0xff, 0xff, 0xff, 0xff, 0xff, 0xff, 0xff, 0x01}, // 2^64-10
			{0xfe, 0xff, 0xff, 0xff, 0xff, 0xff, 0xff, 0xff, 0x7f},       // 2^63-2
		}
		var firstTags []byte
		for _, data := range valid {
			if len(data) > 0 {
				firstTags = append(firstTags, data[0])
			}
		}
		firstTags = append(firstTags, 0x7b, 0x7a, 0x0b, 0x0a) // unknown field 15 wt 3 / wt 2; field 1 wt 3 / wt 2
		for _, tg := range firstTags {
			for _, h := range huge {
				run(append([]byte{tg}, h...), "huge-length")
				run(append(append([]byte{tg, 0x01}, h...), 1, 2, 3), "huge-entry-length")
				run(append(append([]byte{tg}, h...), h...), "huge-count-and-length")
				run(append(append([]byte{tg, 0x02, 0x01, 0x05}, h...), 9), "huge-second-entry")
			}
		}
		// every field of a struct target present with the smallest payload of every wire type (an empty
		// string, a zero count, zero fixed-width values): the paths that special-case "nothing there"
		if tc.T.Kind() == reflect.Struct {
			for fi := 0; fi < tc.T.NumField(); fi++ {
				sf := tc.T.Field(fi)
				if skipped(sf) {
					continue
				}
				var idx int
				if _, err := fmt.Sscanf(sf.Tag.Get("plenc"), "%d", &idx); err != nil || idx < 0 || idx > 1<<20 {
					continue
				}
				for wt, payload := range map[int][]byte{0: {0}, 1: {0, 0, 0, 0, 0, 0, 0, 0}, 2: {0}, 3: {0}, 5: {0, 0, 0, 0}} {
					tagb := binary.AppendUvarint(nil, uint64(idx)<<3|uint64(wt))
					run(append(tagb, payload...), "minimal-field")
					run(append(append(append([]byte{}, tagb...), payload...), append(tagb, payload...)...), "minimal-field-twice")
				}
			}
		}
		// every single-byte varint of a short valid encoding replaced by values at the int/int64 conversion
		// boundaries (type codes, indexes, lengths, counts and scalar values alike)
		for _, data := range valid {
			if len(data) == 0 || len(data) > 48 {
				continue
			}
			npos := 6
			if jsonish {
				npos = len(data)
			}
			for k := 0; k < npos; k++ {
				pos := k
				if !jsonish {
					pos = c.rng.Intn(len(data))
				}
				if data[pos] >= 0x80 {
					continue
				}
				for _, h := range huge[1:3] {
					run(append(append(append([]byte{}, data[:pos]...), h...), data[pos+1:]...), "varint-substituted")
				}
			}
		}
		// the same fields arriving in both slice forms (counted and repeated), in either order,
		// also into targets whose slices are full (len == cap)
		flipped := tc.Cfg
		flipped.ProtoArrays = !flipped.ProtoArrays
		if !protoUnsafe(tc.T) {
			tcf := newTypeCase(tc.T, flipped)
			for j := 0; j < 3; j++ {
				v1, v2 := vg.Value(tc.T, d), vg.Value(tc.T, d)
				d1, e1 := tc.P.Marshal(nil, v1.Addr().Interface())
				d2, e2 := tcf.P.Marshal(nil, v2.Addr().Interface())
				if e1 != nil || e2 != nil {
					continue
				}
				run(append(append([]byte{}, d1...), d2...), "mixed-forms")
				run(append(append([]byte{}, d2...), d1...), "mixed-forms")
				if !(tc.Rec && len(d2) > 12) {
					prior := vg.Value(tc.T, d)
					c.guarded(fmt.Sprintf("full-prior type=%s data=%x", tc.T, d2), func() {
						c.addDec(tc, d2, prior, "full-prior", "full-prior/"+shapeClass(tc.T, 2), true)
					})
				}
			}
		}
	}
}

// decodeBoth decodes data presented twice - with cap == len, and with spare
// capacity holding junk - and records the first; the outcomes must not differ
// (decoding never reads outside the input). Also walks the data with the
// type's Descriptor.
func (c *Ctx) decodeBoth(tc *TypeCase, data []byte, label string) {
	exact := append(make([]byte, 0, len(data)), data...)
	roomy := make([]byte, len(data), len(data)+64)
	copy(roomy, data)
	junk := roomy[len(data):cap(roomy)]
	for i := range junk {
		junk[i] = byte(0xa5 ^ i)
	}
	prior := reflect.New(tc.T).Elem()
	ncases := len(c.cases)
	_ = ncases

	out2 := reflect.New(tc.T)
	r2 := safely(func() error { return tc.P.Unmarshal(roomy, out2.Interface()) })

	var ms0, ms1 runtime.MemStats
	runtime.ReadMemStats(&ms0)
	c.addDec(tc, exact, prior, label, fmt.Sprintf("%s/%s/len%d", label, shapeClass(tc.T, 2), min(len(data), 6)), len(data) > 0)
	runtime.ReadMemStats(&ms1)
	alloc := ms1.TotalAlloc - ms0.TotalAlloc

	desc := fmt.Sprintf("%s cfg=%s type=%s data=%x", label, tc.Cfg, tc.T, data)
	// same outcome with spare capacity?
	out1 := reflect.New(tc.T)
	r1 := safely(func() error { return tc.P.Unmarshal(exact, out1.Interface()) })
	if outcomeOf(r1) != outcomeOf(r2) || (outcomeOf(r1) == "OOk" && coqVal(out1.Elem()) != coqVal(out2.Elem())) {
		c.native = append(c.native, NativeViolation{Case: desc, Class: "reads-beyond-input",
			What: fmt.Sprintf("result depends on bytes beyond len(data): cap==len gives %s, spare capacity gives %s", outcomeOf(r1), outcomeOf(r2))})
	}
	// allocation proportional to the input (generous constant; the model carries the per-site bound)
	if bound := uint64(1<<16) + 4096*uint64(len(data))*uint64(1+tc.T.Size()/64); alloc > bound {
		c.native = append(c.native, NativeViolation{Case: desc, Class: "allocation-blowup",
			What: fmt.Sprintf("Unmarshal of %d bytes allocated %d bytes (bound %d)", len(data), alloc, bound)})
	}
	// slices must stay within their capacity (memory safety of the unsafe append paths)
	if outcomeOf(r1) == "OOk" {
		if msg := checkSliceCaps(out1.Elem(), 0); msg != "" {
			c.native = append(c.native, NativeViolation{Case: desc, Class: "slice-len-exceeds-cap", What: msg})
		}
	}
	// the Descriptor route
	if !tc.Rec {
		var cd plenccodec.Codec
		if r := safely(func() (err error) { cd, err = tc.P.CodecForType(tc.T); return err }); !r.panicked && r.err == nil {
			r := safely(func() error {
				d := cd.Descriptor()
				var out plenccodec.JSONOutput
				return d.Read(&out, exact)
			})
			if r.panicked {
				c.native = append(c.native, NativeViolation{Case: desc, Class: "descriptor-decode-panic", What: "Descriptor.Read panicked: " + r.msg})
			}
			c.count("descriptor_" + outcomeOf(r))
		}
	}
}

func checkSliceCaps(v reflect.Value, depth int) string {
	if depth > 6 {
		return ""
	}
	switch v.Kind() {
	case reflect.Slice:
		if v.Len() > v.Cap() {
			return fmt.Sprintf("decoded slice of type %s has len %d > cap %d", v.Type(), v.Len(), v.Cap())
		}
		if v.Type().Elem().Kind() == reflect.Uint8 {
			return ""
		}
		for i := 0; i < v.Len() && i < 64; i++ {
			if m := checkSliceCaps(v.Index(i), depth+1); m != "" {
				return m
			}
		}
	case reflect.Ptr:
		if !v.IsNil() {
			return checkSliceCaps(v.Elem(), depth+1)
		}
	case reflect.Struct:
		if extKind(v.Type()) >= 0 {
			return ""
		}
		for i := 0; i < v.NumField(); i++ {
			if m := checkSliceCaps(v.Field(i), depth+1); m != "" {
				return m
			}
		}
	case reflect.Map:
		it := v.MapRange()
		for it.Next() {
			if m := checkSliceCaps(it.Value(), depth+1); m != "" {
				return m
			}
		}
	}
	return ""
}
