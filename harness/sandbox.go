package main

import (
	"bufio"
	"fmt"
	"os"
	"os/exec"
	"strconv"
	"strings"
	"syscall"
	"time"
)

// Sandboxed generation: the property's generator runs in a child process that
// streams every case to the parent. When the implementation crashes the
// process (fatal error, out of memory) or hangs on a case, the parent records
// that outcome for the case and restarts the child after it. The generator is
// deterministic in the seed, so the child regenerates the same case sequence
// and only executes the cases from the restart point on.

const caseSep = "\x1f"

// inChild: >= 0 when this process is a sandbox child: first case index to execute.
var childStart = -1
var childIndex = 0

// guarded runs f for the next case unless the case is before the restart
// point. It announces the case before executing it.
func (c *Ctx) guarded(desc string, f func()) {
	i := childIndex
	childIndex++
	if childStart < 0 {
		f()
		return
	}
	if i < childStart {
		return
	}
	fmt.Fprintf(c.childOut, "BEGIN%s%d%s%s\n", caseSep, i, caseSep, strings.ReplaceAll(desc, "\n", " "))
	c.childOut.Flush()
	f()
	fmt.Fprintf(c.childOut, "END%s%d\n", caseSep, i)
	c.childOut.Flush()
}

func (c *Ctx) childEmit(kind string, fields ...string) {
	for i := range fields {
		fields[i] = strings.ReplaceAll(strings.ReplaceAll(fields[i], "\n", " "), caseSep, " ")
	}
	fmt.Fprintf(c.childOut, "%s%s%s\n", kind, caseSep, strings.Join(fields, caseSep))
}

// runSandboxed re-executes this binary as a child for property prop and
// collects the streamed cases into c. onCrash builds the case term recorded
// for a case on which the child died or hung (outcome "DFatal"/"DHang").
func (c *Ctx) runSandboxed(perCaseTimeout time.Duration) {
	start := 0
	restarts := 0
	for {
		cmd := exec.Command(os.Args[0], "-prop", c.Prop, "-seed", strconv.FormatInt(c.Seed, 10), "-tier", c.Tier, "-out", c.Out, "-childstart", strconv.Itoa(start))
		cmd.Stderr = os.Stderr
		cmd.SysProcAttr = &syscall.SysProcAttr{Setpgid: true}
		stdout, err := cmd.StdoutPipe()
		must(err)
		must(cmd.Start())
		lines := make(chan string, 1024)
		go func() {
			sc := bufio.NewScanner(stdout)
			sc.Buffer(make([]byte, 1<<20), 1<<28)
			for sc.Scan() {
				lines <- sc.Text()
			}
			close(lines)
		}()
		current := -1
		currentDesc := ""
		done := false
		crashed := ""
	loop:
		for {
			select {
			case ln, ok := <-lines:
				if !ok {
					break loop
				}
				f := strings.Split(ln, caseSep)
				switch f[0] {
				case "BEGIN":
					current, _ = strconv.Atoi(f[1])
					currentDesc = f[2]
				case "END":
					current = -1
				case "CASE": // term, descr, class, nontrivial
					c.add(f[1], f[2], f[3], f[4] == "1")
				case "COUNT":
					c.count(f[1])
				case "NATIVE":
					c.native = append(c.native, NativeViolation{Case: f[1], What: f[2], Class: f[3]})
				case "HEADER":
					c.header, c.mismatch, c.casetype = strings.ReplaceAll(f[1], "\\n", "\n"), f[2], f[3]
				case "DONE":
					done = true
				}
			case <-time.After(perCaseTimeout):
				crashed = "hang"
				syscall.Kill(-cmd.Process.Pid, syscall.SIGKILL)
				break loop
			}
		}
		werr := cmd.Wait()
		if done {
			return
		}
		if crashed == "" {
			crashed = fmt.Sprintf("fatal (%v)", werr)
		}
		if current < 0 {
			// died between cases: cannot attribute; give up on the rest
			c.native = append(c.native, NativeViolation{Case: "harness child", What: "child process ended outside a case: " + crashed, Class: "harness-child"})
			return
		}
		c.native = append(c.native, NativeViolation{Case: currentDesc, What: "the implementation brought the process down or stopped responding: " + crashed, Class: "decode-" + strings.Fields(crashed)[0]})
		c.count("outcome_" + strings.Fields(crashed)[0])
		start = current + 1
		restarts++
		if restarts > 25 {
			c.native = append(c.native, NativeViolation{Case: "harness child", What: "more than 25 crashes/hangs; stopping", Class: "harness-child"})
			return
		}
	}
}

// limitMemory caps the child's address space so that a runaway allocation
// fails fast instead of exhausting the machine.
func limitMemory() {
	lim := syscall.Rlimit{Cur: 6 << 30, Max: 6 << 30}
	syscall.Setrlimit(syscall.RLIMIT_AS, &lim)
}
