package main

import (
	"strings"
	"bytes"
	"encoding/json"
	"fmt"
	"reflect"

	"github.com/philpearl/plenc/plenccodec"
)

type JSONSkipped struct {
	N int `plenc:"3"`
}

type JSONNested struct {
	H JSONHolder     `plenc:"1"`
	P *JSONHolder    `plenc:"2"`
	L []JSONHolder   `plenc:"3"`
	M map[string]any `plenc:"4"`
	Z int            `plenc:"5"`
}

// jsonImage: the JSON data-model image of a JSON-model value, with ints and
// json.Numbers as json.Number so that it can be compared with a UseNumber parse
func jsonImage(x any) any {
	switch x := x.(type) {
	case int:
		return json.Number(fmt.Sprint(x))
	case []any:
		a := make([]any, len(x))
		for i := range x {
			a[i] = jsonImage(x[i])
		}
		return a
	case map[string]any:
		m := make(map[string]any, len(x))
		for k, v := range x {
			m[jsonString(k)] = jsonImage(v)
		}
		return m
	case string:
		return jsonString(x)
	}
	return x
}

func validNumbers(x any) bool {
	switch x := x.(type) {
	case json.Number:
		var f any
		return json.Unmarshal([]byte(x), &f) == nil
	case []any:
		for _, e := range x {
			if !validNumbers(e) {
				return false
			}
		}
	case map[string]any:
		for _, e := range x {
			if !validNumbers(e) {
				return false
			}
		}
	}
	return true
}

func runC16(c *Ctx) {
	coreHeader(c, 0)
	vg := &ValGen{r: c.rng}
	cfg := Cfg{WithJSON: true}
	// entries whose encoded body is just below, at and above 128 bytes (the length prefix grows a byte):
	// in arrays, in maps under short and long keys, nested, as struct fields
	for n := 100; n <= 140; n++ {
		str := strings.Repeat("x", n)
		vals := []any{
			[]any{str}, map[string]any{"k": str}, map[string]any{str: true}, []any{[]any{str}, 1.5},
			map[string]any{"a": map[string]any{"b": str}}, []any{map[string]any{"key": str}, nil},
		}
		for _, x := range vals {
			var t reflect.Type
			if _, isArr := x.([]any); isArr {
				t = tJSONArr
			} else {
				t = tJSONMap
			}
			v := reflect.New(t).Elem()
			v.Set(reflect.ValueOf(x))
			c.addRT(newTypeCase(t, cfg), v, "json-entry-boundary")
			c.addLaws(newTypeCase(t, cfg), v, "json-entry-boundary-laws")
		}
	}
	types := []reflect.Type{tJSONMap, tJSONArr, reflect.TypeOf(JSONHolder{}), reflect.TypeOf(JSONNested{})}
	n := scale(c, 500, 12000)
	for i := 0; i < n; i++ {
		t := types[c.rng.Intn(len(types))]
		tc := newTypeCase(t, cfg)
		v := vg.Value(t, 1+c.rng.Intn(3))
		switch c.rng.Intn(3) {
		case 0:
			c.addRT(tc, v, "json-roundtrip")
		case 1:
			c.addLaws(tc, v, "json-laws")
		default:
			// as unknown fields being skipped
			if t.Kind() != reflect.Struct {
				c.addRT(tc, v, "json-roundtrip")
				break
			}
			data, err := tc.P.Marshal(nil, v.Addr().Interface())
			if err != nil {
				c.native = append(c.native, NativeViolation{Case: fmt.Sprint(v), What: err.Error(), Class: "marshal-fails"})
				break
			}
			if t == reflect.TypeOf(JSONHolder{}) {
				tcs := newTypeCase(reflect.TypeOf(JSONSkipped{}), cfg)
				c.addDec(tcs, data, reflect.Zero(tcs.T), "json-skipped", "json-skipped", len(data) > 0)
				var out JSONSkipped
				if err := tcs.P.Unmarshal(data, &out); err != nil || out.N != v.Interface().(JSONHolder).N {
					c.native = append(c.native, NativeViolation{Case: fmt.Sprintf("json-skipped data=%x", data), What: fmt.Sprintf("skipping JSON fields failed: %v N=%d", err, out.N), Class: "json-skip"})
				}
			} else {
				c.addRT(tc, v, "json-roundtrip")
			}
		}
		// the same bytes into a target that is shorter than the array but has the capacity for it,
		// its spare capacity holding old values (out = out[:k] after an earlier use): what is
		// decoded must not depend on them - nil entries in particular write nothing
		if t == tJSONArr || t == reflect.TypeOf(JSONHolder{}) {
			data, err := tc.P.Marshal(nil, v.Addr().Interface())
			if err == nil {
				fresh := reflect.New(t)
				arrLen := func(x reflect.Value) int {
					if t == tJSONArr {
						return x.Len()
					}
					return x.FieldByName("A").Len()
				}
				// (an empty array is not written at all: the target then keeps what it has)
				if tc.P.Unmarshal(data, fresh.Interface()) == nil && arrLen(fresh.Elem()) > 0 {
					stale := make([]any, 12)
					for k := range stale {
						stale[k] = fmt.Sprintf("old%d", k)
					}
					reused := reflect.New(t)
					k := c.rng.Intn(4)
					if t == tJSONArr {
						reused.Elem().Set(reflect.ValueOf(stale[:k]))
					} else {
						reused.Elem().FieldByName("A").Set(reflect.ValueOf(stale[:k]))
					}
					err2 := tc.P.Unmarshal(data, reused.Interface())
					want, got := coqVal(fresh.Elem()), coqVal(reused.Elem())
					if t != tJSONArr {
						// the other fields of the holder merge with the (zero) prior: compare the array only
						want, got = coqVal(fresh.Elem().FieldByName("A")), coqVal(reused.Elem().FieldByName("A"))
					}
					if err2 != nil || want != got {
						c.native = append(c.native, NativeViolation{Case: fmt.Sprintf("json array into a truncated target with spare capacity: data=%x kept=%d", data, k), Class: "json-reused-target",
							What: trunc(fmt.Sprintf("decoded %s where a fresh target gives %s (%v)", got, want, err2), 600)})
					}
					c.count("json_reused_targets")
				}
			}
		}
		// Descriptor walk of the same bytes renders JSON equal to the value
		if (t == tJSONMap || t == tJSONArr) && !v.IsZero() && validNumbers(v.Interface()) {
			data, err := tc.P.Marshal(nil, v.Addr().Interface())
			if err == nil {
				cd, _ := tc.P.CodecForType(t)
				d := cd.Descriptor()
				var out plenccodec.JSONOutput
				desc := fmt.Sprintf("json-descriptor value=%s data=%x", trunc(fmt.Sprintf("%#v", v.Interface()), 300), data)
				r := safely(func() error { return d.Read(&out, data) })
				if r.panicked || r.err != nil {
					c.native = append(c.native, NativeViolation{Case: desc, What: fmt.Sprintf("Descriptor.Read failed: %v %v", r.msg, r.err), Class: "json-descriptor-fails"})
				} else {
					text := out.Done()
					dec := json.NewDecoder(bytes.NewReader(text))
					dec.UseNumber()
					var parsed any
					if err := dec.Decode(&parsed); err != nil {
						c.native = append(c.native, NativeViolation{Case: desc, What: fmt.Sprintf("walk output is not valid JSON: %v: %q", err, trunc(string(text), 200)), Class: "json-descriptor-invalid"})
					} else if !sameJSON(jsonImage(v.Interface()), parsed) {
						c.native = append(c.native, NativeViolation{Case: desc, What: fmt.Sprintf("walk output differs from the value: %q", trunc(string(text), 300)), Class: "json-descriptor-differs"})
					}
				}
				c.count("descriptor_walks")
			}
		}
	}
}
