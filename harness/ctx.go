package main

import (
	"bufio"
	"encoding/json"
	"fmt"
	"os"
	"path/filepath"
	"sort"
	"strings"
)

// RNG is splitmix64: every random choice in the harness derives from one state.
type RNG struct{ s uint64 }

func newRNG(seed uint64) *RNG { return &RNG{s: seed*0x9E3779B97F4A7C15 + 0x1234567} }
func (r *RNG) U64() uint64 {
	r.s += 0x9E3779B97F4A7C15
	z := r.s
	z = (z ^ (z >> 30)) * 0xBF58476D1CE4E5B9
	z = (z ^ (z >> 27)) * 0x94D049BB133111EB
	return z ^ (z >> 31)
}
func (r *RNG) Intn(n int) int {
	if n <= 0 {
		return 0
	}
	return int(r.U64() % uint64(n))
}
func (r *RNG) Bool() bool { return r.U64()&1 == 1 }

// Shuffle: Fisher-Yates from the one PRNG state
func (r *RNG) Shuffle(n int, swap func(i, j int)) {
	for i := n - 1; i > 0; i-- {
		swap(i, r.Intn(i+1))
	}
}
func (r *RNG) Chance(p int) bool { return r.Intn(100) < p }

// Ctx collects cases and statistics for one harness run.
type Ctx struct {
	Prop, Tier, Out, Replay string
	Seed                    int64
	rng                     *RNG

	header    string   // Coq prelude for the cases files
	cases     []string // Coq terms, one per case
	descr     []string // human-readable description of each case (for replays)
	classes   map[string]int
	dist      map[string]int
	samples   []string
	native    []NativeViolation
	extra     map[string]any
	mismatch  string // name of the Coq mismatches function
	casetype  string
	caseClass []string
	witness   map[string]string
	childOut  *bufio.Writer
}

// NativeViolation is a property failure established by the harness itself on
// the implementation (e.g. a panic, a crash), independent of the model.
type NativeViolation struct {
	Case   string `json:"case"`
	What   string `json:"what"`
	Class  string `json:"class"`
	Replay string `json:"replay,omitempty"`
}

func (c *Ctx) add(term, descr, class string, nontrivial bool) {
	if childStart >= 0 {
		nt := "0"
		if nontrivial {
			nt = "1"
		}
		c.childEmit("CASE", term, descr, class, nt)
		return
	}
	c.cases = append(c.cases, term)
	c.caseClass = append(c.caseClass, class)
	c.descr = append(c.descr, descr)
	if c.classes == nil {
		c.classes = map[string]int{}
	}
	if nontrivial {
		c.classes[class]++
	}
	if len(c.samples) < 6 && (len(c.cases)%97 == 1 || len(c.samples) < 2) {
		c.samples = append(c.samples, descr)
	}
}

func (c *Ctx) count(key string) {
	if childStart >= 0 {
		c.childEmit("COUNT", key)
		return
	}
	if c.dist == nil {
		c.dist = map[string]int{}
	}
	c.dist[key]++
}

func (c *Ctx) finish() {
	if childStart >= 0 {
		for _, nv := range c.native {
			c.childEmit("NATIVE", nv.Case, nv.What, nv.Class)
		}
		c.childEmit("HEADER", strings.ReplaceAll(c.header, "\n", "\\n"), c.mismatch, c.casetype)
		c.childEmit("DONE")
		c.childOut.Flush()
		return
	}
	shardSize := 400
	// shards of at most shardSize cases and about 8 MB of source (Coq's parser overflows its stack on very large files)
	var bounds [][2]int
	for lo := 0; lo < len(c.cases); {
		hi, bytes := lo, 0
		for hi < len(c.cases) && hi-lo < shardSize && (hi == lo || bytes+len(c.cases[hi]) <= 8<<20) {
			bytes += len(c.cases[hi])
			hi++
		}
		bounds = append(bounds, [2]int{lo, hi})
		lo = hi
	}
	nshards := len(bounds)
	for s := 0; s < nshards; s++ {
		lo, hi := bounds[s][0], bounds[s][1]
		var b strings.Builder
		b.WriteString(c.header)
		fmt.Fprintf(&b, "Definition cases : list %s := [\n", c.casetype)
		for i := lo; i < hi; i++ {
			b.WriteString("  ")
			b.WriteString(c.cases[i])
			if i+1 < hi {
				b.WriteString(";")
			}
			b.WriteString("\n")
		}
		b.WriteString("].\n")
		fmt.Fprintf(&b, "Definition M := Eval vm_compute in firstn 10 (%s %d cases).\nPrint M.\n", c.mismatch, lo)
		must(os.WriteFile(filepath.Join(c.Out, fmt.Sprintf("cases_%03d.v", s)), []byte(b.String()), 0o644))
	}
	keys := make([]string, 0, len(c.classes))
	for k := range c.classes {
		keys = append(keys, k)
	}
	sort.Strings(keys)
	stats := map[string]any{
		"evaluations":         len(c.cases),
		"distinct_nontrivial": len(c.classes),
		"distribution":        c.dist,
		"samples":             c.samples,
		"shards":              nshards,
		"shard_size":          shardSize,
		"native_violations":   c.native,
		"descr":               c.descr,
		"case_class":          c.caseClass,
		"witness_status":      c.witness,
		"extra":               c.extra,
	}
	js, err := json.MarshalIndent(stats, "", " ")
	must(err)
	must(os.WriteFile(filepath.Join(c.Out, "stats.json"), js, 0o644))
}

func must(err error) {
	if err != nil {
		panic(err)
	}
}

// ---- Coq term printing helpers ----

func coqBytes(b []byte) string {
	if len(b) == 0 {
		return "[]"
	}
	var sb strings.Builder
	sb.WriteString("[")
	for i, x := range b {
		if i > 0 {
			sb.WriteString(";")
		}
		fmt.Fprintf(&sb, "%d", x)
	}
	sb.WriteString("]")
	return sb.String()
}

func coqZ(v int64) string {
	if v < 0 {
		return fmt.Sprintf("(%d)%%Z", v)
	}
	return fmt.Sprintf("%d%%Z", v)
}

func coqN(v uint64) string { return fmt.Sprintf("%d", v) }

// crumb records the case about to be run in-process. A fatal fault of the
// implementation (which no recover can catch) kills the harness; the
// orchestrator then reports the recorded case as the failing input.
func (c *Ctx) crumb(desc string) {
	if c.Out == "" {
		return
	}
	os.WriteFile(filepath.Join(c.Out, "current_case.txt"), []byte(desc), 0o644)
}
