package main

import (
	"encoding/json"
	"fmt"
	"hash/fnv"
	"math"
	"reflect"
	"sort"
	"strings"
	"time"
	"unsafe"

	"github.com/unravelin/null"
)

// ---------- value generation ----------

type ValGen struct {
	r *RNG
}

var boundaryInts = func() []int64 {
	var out []int64
	for _, b := range []uint{0, 6, 7, 13, 14, 20, 21, 27, 28, 31, 32, 34, 35, 41, 42, 48, 49, 55, 56, 62, 63} {
		p := int64(1) << b
		out = append(out, p, p-1, p+1, -p, -p-1, -p+1)
	}
	out = append(out, math.MaxInt64, math.MinInt64, 0, 0, 0, 1, -1, 63, 64, -64, -65)
	return out
}()

func (g *ValGen) i64() int64 {
	switch g.r.Intn(4) {
	case 0:
		return boundaryInts[g.r.Intn(len(boundaryInts))]
	case 1:
		return int64(g.r.Intn(300)) - 100
	case 2:
		return 0
	}
	return int64(g.r.U64()) >> uint(g.r.Intn(64))
}

func (g *ValGen) u64() uint64 {
	switch g.r.Intn(4) {
	case 0:
		return uint64(boundaryInts[g.r.Intn(len(boundaryInts))])
	case 1:
		return uint64(g.r.Intn(300))
	case 2:
		return 0
	}
	return g.r.U64() >> uint(g.r.Intn(64))
}

var specialF64 = []uint64{0, 1 << 63, 0x3ff0000000000000, 0xbff0000000000000, 0x7ff0000000000000, 0xfff0000000000000,
	0x7ff8000000000001, 0xfff8000000000000, 1, 0x000fffffffffffff, 0x0010000000000000, 0x7fefffffffffffff, 0x400921fb54442d18,
	// whole numbers where an integer conversion or a formatter changes its mind: 2^63, -2^63, 2^64, 2^53, 2^31, 1e6, 1e21, 1e15
	0x43e0000000000000, 0xc3e0000000000000, 0x43f0000000000000, 0x4340000000000000, 0x41e0000000000000, 0x412e848000000000, 0x444b1ae4d6e2ef50, 0x430c6bf526340000}
var specialF32 = []uint32{0, 1 << 31, 0x3f800000, 0xbf800000, 0x7f800000, 0xff800000, 0x7fc00001, 1, 0x007fffff, 0x00800000, 0x7f7fffff, 0x40490fdb,
	0x5f000000, 0xdf000000, 0x5f800000, 0x4f000000, 0x49742400} // 2^63, -2^63, 2^64, 2^31, 1e6

func (g *ValGen) f64bits() uint64 {
	if g.r.Chance(50) {
		return specialF64[g.r.Intn(len(specialF64))]
	}
	return g.r.U64()
}

func (g *ValGen) str() string {
	switch g.r.Intn(6) {
	case 0:
		return ""
	case 1:
		return string(randBytes(g.r, g.r.Intn(6)))
	case 2:
		// around the 1/2 byte length-prefix boundary
		return strings.Repeat("x", 126+g.r.Intn(4))
	}
	words := []string{"a", "hello", "héllo", "key", "value", "\x00", "\"q\"", "日本", "line\nbreak"}
	return words[g.r.Intn(len(words))]
}

func (g *ValGen) timeVal() time.Time {
	var sec int64
	switch g.r.Intn(8) {
	case 0:
		return time.Time{}
	case 1:
		sec = -int64(g.r.Intn(100000000)) // before 1970
	case 2:
		sec = int64(g.r.Intn(1 << 40))
	case 3:
		sec = boundaryInts[g.r.Intn(len(boundaryInts))] % (1 << 38)
	case 4:
		sec = -62135596800 + int64(g.r.Intn(3)) // around the zero time
	default:
		sec = 1600000000 + int64(g.r.Intn(200000000))
	}
	var ns int64
	switch g.r.Intn(4) {
	case 0:
		ns = 0
	case 1:
		ns = 999999999
	case 2:
		ns = int64([]int{1, 63, 64, 127, 128, 8191, 8192, 16383, 16384, 1 << 20, 1<<27 - 1, 1 << 27, 500000000}[g.r.Intn(13)])
	default:
		ns = int64(g.r.Intn(1000000000))
	}
	t := time.Unix(sec, ns)
	switch g.r.Intn(3) {
	case 0:
		return t.UTC()
	case 1:
		return t.In(time.FixedZone("X", 3600*(g.r.Intn(24)-12)))
	}
	return t
}

// Value builds a random value of type t. depth bounds recursion through
// pointers, slices and maps (recursive types bottom out in nil / empty).
func (g *ValGen) Value(t reflect.Type, depth int) reflect.Value {
	v := reflect.New(t).Elem()
	g.fill(v, depth)
	return v
}

func (g *ValGen) fill(v reflect.Value, depth int) {
	t := v.Type()
	if !v.CanSet() {
		// unexported field: write through unsafe
		v = reflect.NewAt(t, unsafe.Pointer(v.UnsafeAddr())).Elem()
	}
	switch t {
	case tTime:
		v.Set(reflect.ValueOf(g.timeVal()))
		return
	case tNullInt:
		if g.r.Chance(40) {
			v.Set(reflect.ValueOf(null.Int{}))
		} else {
			v.Set(reflect.ValueOf(null.IntFrom(g.i64())))
		}
		return
	case tNullBool:
		if g.r.Chance(40) {
			v.Set(reflect.ValueOf(null.Bool{}))
		} else {
			v.Set(reflect.ValueOf(null.BoolFrom(g.r.Bool())))
		}
		return
	case tNullFloat:
		if g.r.Chance(40) {
			v.Set(reflect.ValueOf(null.Float{}))
		} else {
			v.Set(reflect.ValueOf(null.FloatFrom(math.Float64frombits(g.f64bits()))))
		}
		return
	case tNullString:
		if g.r.Chance(40) {
			v.Set(reflect.ValueOf(null.String{}))
		} else {
			v.Set(reflect.ValueOf(null.StringFrom(g.str())))
		}
		return
	case tNullTime:
		if g.r.Chance(40) {
			v.Set(reflect.ValueOf(null.Time{}))
		} else {
			v.Set(reflect.ValueOf(null.TimeFrom(g.timeVal())))
		}
		return
	case tJSONMap:
		if g.r.Chance(25) {
			return
		}
		v.Set(reflect.ValueOf(g.jsonMap(depth)))
		return
	case tJSONArr:
		if g.r.Chance(25) {
			return
		}
		v.Set(reflect.ValueOf(g.jsonArr(depth)))
		return
	}
	switch t.Kind() {
	case reflect.Bool:
		v.SetBool(g.r.Bool())
	case reflect.Int, reflect.Int8, reflect.Int16, reflect.Int32, reflect.Int64:
		x := g.i64()
		if g.r.Chance(25) {
			// boundaries of this width
			b := uint(t.Bits())
			x = []int64{-1 << (b - 1), 1<<(b-1) - 1, -1, 0}[g.r.Intn(4)]
		}
		v.SetInt(x) // truncates to the width
		if v.OverflowInt(x) {
			v.SetInt(x >> (64 - uint(t.Bits())))
		}
	case reflect.Uint, reflect.Uint8, reflect.Uint16, reflect.Uint32, reflect.Uint64:
		x := g.u64()
		if g.r.Chance(25) {
			x = []uint64{^uint64(0), 1 << (uint(t.Bits()) - 1), 0}[g.r.Intn(3)]
		}
		if v.OverflowUint(x) {
			x >>= 64 - uint(t.Bits())
		}
		v.SetUint(x)
	case reflect.Float32:
		if g.r.Chance(50) {
			v.SetFloat(float64(math.Float32frombits(specialF32[g.r.Intn(len(specialF32))])))
		} else {
			v.SetFloat(float64(math.Float32frombits(uint32(g.r.U64()))))
		}
	case reflect.Float64:
		v.SetFloat(math.Float64frombits(g.f64bits()))
	case reflect.String:
		v.SetString(g.str())
	case reflect.Ptr:
		if depth <= 0 || g.r.Chance(30) {
			return
		}
		p := reflect.New(t.Elem())
		g.fill(p.Elem(), depth-1)
		v.Set(p)
	case reflect.Slice:
		if t.Elem().Kind() == reflect.Uint8 {
			if g.r.Chance(25) {
				return
			}
			v.SetBytes([]byte(g.str()))
			if v.Len() == 0 && g.r.Bool() {
				v.Set(reflect.MakeSlice(t, 0, 3))
			}
			return
		}
		if depth <= 0 || g.r.Chance(20) {
			if g.r.Bool() {
				v.Set(reflect.MakeSlice(t, 0, 2)) // empty, non-nil
			}
			return
		}
		n := 1 + g.r.Intn(4)
		spare := g.r.Intn(3)
		s := reflect.MakeSlice(t, n+spare, n+spare)
		for i := 0; i < n+spare; i++ {
			g.fill(s.Index(i), depth-1) // the spare capacity holds stale elements
			if i < n && extKind(t.Elem()) > 0 {
				// null.* elements of a slice lose their invalid state (finding D24, witnessed
				// separately): generated slices hold valid elements only
				s.Index(i).Field(0).Field(1).SetBool(true)
			}
		}
		v.Set(s.Slice(0, n))
	case reflect.Map:
		if g.r.Chance(20) {
			return // nil map
		}
		m := reflect.MakeMap(t)
		if depth > 0 && !g.r.Chance(15) {
			n := 1 + g.r.Intn(3)
			var seenKeys map[string]bool
			for i := 0; i < n; i++ {
				k := reflect.New(t.Key()).Elem()
				if i > 0 || !g.r.Chance(30) { // a zero key fairly often
					g.fill(k, depth-1)
				}
				if hasNaN(k) {
					continue
				}
				if t.Key().Kind() == reflect.Ptr {
					// pointer keys are distinct by address; keep their pointees distinct too, so that
					// entries can be told apart when results are compared
					repr := coqVal(k)
					if seenKeys == nil {
						seenKeys = map[string]bool{}
					}
					if seenKeys[repr] {
						continue
					}
					seenKeys[repr] = true
				}
				e := reflect.New(t.Elem()).Elem()
				if !g.r.Chance(20) { // a zero value fairly often
					g.fill(e, depth-1)
				}
				m.SetMapIndex(k, e)
			}
		}
		v.Set(m)
	case reflect.Struct:
		for i := 0; i < t.NumField(); i++ {
			if g.r.Chance(20) {
				continue // leave zero
			}
			g.fill(v.Field(i), depth)
		}
	}
}

func hasNaN(v reflect.Value) bool {
	switch v.Kind() {
	case reflect.Float32, reflect.Float64:
		f := v.Float()
		return f != f || (f == 0 && math.Signbit(f))
	case reflect.Struct:
		for i := 0; i < v.NumField(); i++ {
			if hasNaN(v.Field(i)) {
				return true
			}
		}
	}
	return false
}

func (g *ValGen) jsonVal(depth int) any {
	n := 8
	if depth <= 0 {
		n = 6
	}
	switch g.r.Intn(n) {
	case 0:
		return nil
	case 1:
		return g.str()
	case 2:
		return int(g.i64())
	case 3:
		for {
			f := math.Float64frombits(g.f64bits())
			if !math.IsNaN(f) && !math.IsInf(f, 0) {
				return f
			}
		}
	case 4:
		return g.r.Bool()
	case 5:
		return json.Number([]string{"0", "1.5", "-3e10", "12345678901234567890", ""}[g.r.Intn(5)])
	case 6:
		return g.jsonArr(depth - 1)
	}
	return g.jsonMap(depth - 1)
}

func (g *ValGen) jsonArr(depth int) []any {
	n := g.r.Intn(4)
	a := make([]any, n)
	for i := range a {
		a[i] = g.jsonVal(depth)
	}
	return a
}

func (g *ValGen) jsonMap(depth int) map[string]any {
	n := g.r.Intn(4)
	m := make(map[string]any, n)
	for i := 0; i < n; i++ {
		k := []string{"", "a", "b", "key", "k\"q", "日本"}[g.r.Intn(6)]
		m[k] = g.jsonVal(depth)
	}
	return m
}

// ---------- printing values as model terms ----------

func skipped(sf reflect.StructField) bool {
	return !sf.IsExported() || sf.Tag.Get("plenc") == "-"
}

func fingerprint(v reflect.Value) uint64 {
	if v.IsZero() {
		return 0
	}
	h := fnv.New64a()
	fmt.Fprintf(h, "%#v", v)
	return 1 + (h.Sum64() & 0x3fffffff)
}

func getTime(v reflect.Value) time.Time {
	if v.CanInterface() {
		return v.Interface().(time.Time)
	}
	if v.CanAddr() {
		return *(*time.Time)(unsafe.Pointer(v.UnsafeAddr()))
	}
	c := reflect.New(v.Type()).Elem()
	return c.Interface().(time.Time)
}

func coqTime(t time.Time) string {
	return fmt.Sprintf("(VTime %s %s)", coqZ(t.Unix()), coqZ(int64(t.Nanosecond())))
}

func coqJSON(x any) string {
	switch x := x.(type) {
	case nil:
		return "JNil"
	case string:
		return fmt.Sprintf("(JStr %s)", coqBytes([]byte(x)))
	case int:
		return fmt.Sprintf("(JInt %s)", coqZ(int64(x)))
	case float64:
		return fmt.Sprintf("(JFloat %d)", math.Float64bits(x))
	case bool:
		return fmt.Sprintf("(JBool %v)", x)
	case json.Number:
		return fmt.Sprintf("(JNum %s)", coqBytes([]byte(x)))
	case []any:
		var parts []string
		for _, e := range x {
			parts = append(parts, coqJSON(e))
		}
		return fmt.Sprintf("(JArr [%s])", strings.Join(parts, "; "))
	case map[string]any:
		keys := make([]string, 0, len(x))
		for k := range x {
			keys = append(keys, k)
		}
		sort.Strings(keys)
		var parts []string
		for _, k := range keys {
			parts = append(parts, fmt.Sprintf("(%s, %s)", coqBytes([]byte(k)), coqJSON(x[k])))
		}
		return fmt.Sprintf("(JObj [%s])", strings.Join(parts, "; "))
	}
	return fmt.Sprintf("(JUnknown %T)", x)
}

// coqVal prints v as a [val] term. Maps are printed sorted by their key term.
func coqVal(v reflect.Value) string {
	t := v.Type()
	switch t {
	case tTime:
		return coqTime(getTime(v))
	case tNullInt:
		return fmt.Sprintf("(VNull %v (VInt %s))", v.Field(0).Field(1).Bool(), coqZ(v.Field(0).Field(0).Int()))
	case tNullBool:
		return fmt.Sprintf("(VNull %v (VBool %v))", v.Field(0).Field(1).Bool(), v.Field(0).Field(0).Bool())
	case tNullFloat:
		return fmt.Sprintf("(VNull %v (VF64 %d))", v.Field(0).Field(1).Bool(), math.Float64bits(v.Field(0).Field(0).Float()))
	case tNullString:
		return fmt.Sprintf("(VNull %v (VStr %s))", v.Field(0).Field(1).Bool(), coqBytes([]byte(v.Field(0).Field(0).String())))
	case tNullTime:
		return fmt.Sprintf("(VNull %v %s)", v.Field(0).Field(1).Bool(), coqTime(getTime(v.Field(0).Field(0))))
	case tJSONMap:
		if v.IsNil() {
			return "(VJson true (JObj []))"
		}
		return fmt.Sprintf("(VJson false %s)", coqJSON(v.Interface()))
	case tJSONArr:
		if v.IsNil() {
			return "(VJson false (JArr []))"
		}
		return fmt.Sprintf("(VJson false %s)", coqJSON(v.Interface()))
	}
	switch t.Kind() {
	case reflect.Bool:
		return fmt.Sprintf("(VBool %v)", v.Bool())
	case reflect.Int, reflect.Int8, reflect.Int16, reflect.Int32, reflect.Int64:
		return fmt.Sprintf("(VInt %s)", coqZ(v.Int()))
	case reflect.Uint, reflect.Uint8, reflect.Uint16, reflect.Uint32, reflect.Uint64:
		return fmt.Sprintf("(VInt %d%%Z)", v.Uint())
	case reflect.Float32:
		return fmt.Sprintf("(VF32 %d)", f32bits(v))
	case reflect.Float64:
		return fmt.Sprintf("(VF64 %d)", math.Float64bits(v.Float()))
	case reflect.String:
		return fmt.Sprintf("(VStr %s)", coqBytes([]byte(v.String())))
	case reflect.Ptr:
		if v.IsNil() {
			return "(VPtr None)"
		}
		return fmt.Sprintf("(VPtr (Some %s))", coqVal(v.Elem()))
	case reflect.Slice:
		if t.Elem().Kind() == reflect.Uint8 && t == tBytes {
			return fmt.Sprintf("(VStr %s)", coqBytes(v.Bytes()))
		}
		var parts []string
		for i := 0; i < v.Len(); i++ {
			parts = append(parts, coqVal(v.Index(i)))
		}
		return fmt.Sprintf("(VSlice [%s])", strings.Join(parts, "; "))
	case reflect.Map:
		if v.IsNil() {
			return "(VMap None)"
		}
		var parts []string
		it := v.MapRange()
		for it.Next() {
			parts = append(parts, fmt.Sprintf("(%s, %s)", coqVal(it.Key()), coqVal(it.Value())))
		}
		sort.Strings(parts)
		return fmt.Sprintf("(VMap (Some [%s]))", strings.Join(parts, "; "))
	case reflect.Struct:
		var parts []string
		for i := 0; i < t.NumField(); i++ {
			if skipped(t.Field(i)) {
				parts = append(parts, fmt.Sprintf("(VSkip %d)", fingerprint(v.Field(i))))
			} else if protoBytes(t.Field(i)) {
				parts = append(parts, coqValVarintBytes(v.Field(i)))
			} else {
				parts = append(parts, coqVal(v.Field(i)))
			}
		}
		return fmt.Sprintf("(VStruct [%s])", strings.Join(parts, "; "))
	}
	return "(VSkip 0)"
}

// valueDepth: nesting depth of a value (for the model's unfolding fuel)
func valueDepth(v reflect.Value) int {
	switch v.Kind() {
	case reflect.Ptr:
		if v.IsNil() {
			return 1
		}
		return 1 + valueDepth(v.Elem())
	case reflect.Slice:
		d := 0
		for i := 0; i < v.Len(); i++ {
			if x := valueDepth(v.Index(i)); x > d {
				d = x
			}
		}
		return 1 + d
	case reflect.Map:
		d := 0
		it := v.MapRange()
		for it.Next() {
			if x := valueDepth(it.Key()); x > d {
				d = x
			}
			if x := valueDepth(it.Value()); x > d {
				d = x
			}
		}
		return 1 + d
	case reflect.Struct:
		d := 0
		for i := 0; i < v.NumField(); i++ {
			if x := valueDepth(v.Field(i)); x > d {
				d = x
			}
		}
		return 1 + d
	}
	return 1
}

// shapeClass: a coarse class of (type shape, value shape) for the evidence's
// distinct_nontrivial count.
func shapeClass(t reflect.Type, depth int) string {
	if extKind(t) >= 0 {
		return fmt.Sprintf("x%d", extKind(t))
	}
	if depth <= 0 {
		return "_"
	}
	switch t.Kind() {
	case reflect.Ptr:
		return "*" + shapeClass(t.Elem(), depth-1)
	case reflect.Slice:
		return "[]" + shapeClass(t.Elem(), depth-1)
	case reflect.Map:
		return "m[" + shapeClass(t.Key(), depth-1) + "]" + shapeClass(t.Elem(), depth-1)
	case reflect.Struct:
		var parts []string
		for i := 0; i < t.NumField() && i < 4; i++ {
			parts = append(parts, shapeClass(t.Field(i).Type, depth-1))
		}
		return "{" + strings.Join(parts, ",") + "}"
	}
	return t.Kind().String()
}

func hasContainerAndNonZero(v reflect.Value) bool {
	switch v.Kind() {
	case reflect.Ptr, reflect.Slice, reflect.Map, reflect.Struct:
		return !v.IsZero()
	}
	return false
}

// f32bits reads the raw bits of a float32: going through float64 (reflect's
// Float()) would quieten signalling NaNs.
func f32bits(v reflect.Value) uint32 {
	if v.CanAddr() {
		return *(*uint32)(unsafe.Pointer(v.UnsafeAddr()))
	}
	if v.CanInterface() {
		c := reflect.New(v.Type()).Elem()
		c.Set(v)
		return *(*uint32)(unsafe.Pointer(c.UnsafeAddr()))
	}
	return math.Float32bits(float32(v.Float()))
}

// protoBytes: a []byte field (possibly behind pointers) tagged `proto` has no
// registered codec under that tag and is built like any other slice: packed
// varints, one per byte.
func protoBytes(sf reflect.StructField) bool {
	t := sf.Type
	for t.Kind() == reflect.Ptr {
		t = t.Elem()
	}
	return t == tBytes && strings.HasSuffix(sf.Tag.Get("plenc"), ",proto")
}

func coqValVarintBytes(v reflect.Value) string {
	if v.Kind() == reflect.Ptr {
		if v.IsNil() {
			return "(VPtr None)"
		}
		return fmt.Sprintf("(VPtr (Some %s))", coqValVarintBytes(v.Elem()))
	}
	var parts []string
	for _, b := range v.Bytes() {
		parts = append(parts, fmt.Sprintf("VInt %d%%Z", b))
	}
	return fmt.Sprintf("(VSlice [%s])", strings.Join(parts, "; "))
}
