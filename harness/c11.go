package main

import (
	"fmt"
	"reflect"
	"unsafe"
)

// C11: inputs are never modified and outputs never share memory with them.

func rangeOf(b []byte) (lo, hi uintptr) {
	if cap(b) == 0 {
		return 0, 0
	}
	lo = uintptr(unsafe.Pointer(unsafe.SliceData(b)))
	return lo, lo + uintptr(cap(b))
}

// findAlias walks a value and reports the first string / byte slice whose
// memory lies inside [lo,hi).
func findAlias(v reflect.Value, lo, hi uintptr, depth int) string {
	if depth > 8 || lo == hi {
		return ""
	}
	in := func(p uintptr, n int) bool { return n > 0 && p < hi && lo < p+uintptr(n) }
	switch v.Kind() {
	case reflect.String:
		s := v.String()
		if in(uintptr(unsafe.Pointer(unsafe.StringData(s))), len(s)) {
			return fmt.Sprintf("string %q", trunc(s, 40))
		}
	case reflect.Slice:
		if v.Type().Elem().Kind() == reflect.Uint8 {
			// capacity counts: an empty slice whose spare capacity lies in the buffer
			// lets the next append or decode write into it
			if v.Cap() > 0 && in(v.Pointer(), v.Cap()) {
				return fmt.Sprintf("byte slice %x (len %d cap %d)", v.Bytes(), v.Len(), v.Cap())
			}
			return ""
		}
		// the backing array of any slice (a decoder may point a []float64 / []int32 ... straight at the input)
		if sz := int(v.Type().Elem().Size()); v.Cap() > 0 && sz > 0 && in(v.Pointer(), v.Cap()*sz) {
			return fmt.Sprintf("backing array of a %s (len %d cap %d)", v.Type(), v.Len(), v.Cap())
		}
		for i := 0; i < v.Len(); i++ {
			if m := findAlias(v.Index(i), lo, hi, depth+1); m != "" {
				return m
			}
		}
	case reflect.Ptr:
		if !v.IsNil() {
			return findAlias(v.Elem(), lo, hi, depth+1)
		}
	case reflect.Interface:
		if !v.IsNil() {
			return findAlias(v.Elem(), lo, hi, depth+1)
		}
	case reflect.Map:
		it := v.MapRange()
		for it.Next() {
			if m := findAlias(it.Key(), lo, hi, depth+1); m != "" {
				return "map key " + m
			}
			if m := findAlias(it.Value(), lo, hi, depth+1); m != "" {
				return m
			}
		}
	case reflect.Struct:
		for i := 0; i < v.NumField(); i++ {
			if m := findAlias(v.Field(i), lo, hi, depth+1); m != "" {
				return m
			}
		}
	}
	return ""
}

func runC11(c *Ctx) {
	coreHeader(c, 0)
	vg := &ValGen{r: c.rng}
	n := scale(c, 400, 10000)
	for i := 0; i < n; i++ {
		cfg := randCfg(c)
		cfg.WithJSON = c.rng.Chance(20)
		tc := pickType(c, cfg, 1+c.rng.Intn(3))
		d := 3
		if tc.Rec {
			d = 2
		}
		v := vg.Value(tc.T, d)
		desc := fmt.Sprintf("alias cfg=%s type=%s value=%s", tc.Cfg, tc.T, trunc(fmt.Sprintf("%+v", v.Interface()), 200))

		// ---- Marshal: value and buffer prefix unchanged, output does not share memory with the value
		before := coqVal(v)
		prefix := randBytes(c.rng, c.rng.Intn(9))
		buf := make([]byte, len(prefix), len(prefix)+c.rng.Intn(3)*64)
		copy(buf, prefix)
		out, err := tc.P.Marshal(buf, v.Addr().Interface())
		if err != nil {
			continue
		}
		if coqVal(v) != before {
			c.native = append(c.native, NativeViolation{Case: desc, What: "Marshal modified the value it was given", Class: "marshal-modifies-value"})
		}
		if string(buf[:len(prefix)]) != string(prefix) || string(out[:len(prefix)]) != string(prefix) {
			c.native = append(c.native, NativeViolation{Case: desc, What: "Marshal modified bytes of the destination below its length", Class: "marshal-modifies-prefix"})
		}
		lo, hi := rangeOf(out)
		if m := findAlias(v, lo, hi, 0); m != "" {
			c.native = append(c.native, NativeViolation{Case: desc, What: "the bytes Marshal returned share memory with the value: " + m, Class: "marshal-output-aliases-value"})
		}
		// scribbling over the output must not change the value
		saved := append([]byte{}, out...)
		for j := range out {
			out[j] ^= 0xff
		}
		if coqVal(v) != before {
			c.native = append(c.native, NativeViolation{Case: desc, What: "overwriting Marshal's output changed the value", Class: "marshal-output-aliases-value"})
		}
		data := saved[len(prefix):]

		// ---- Unmarshal: input unchanged, decoded value shares nothing with it
		in := make([]byte, len(data), len(data)+16)
		copy(in, data)
		target := reflect.New(tc.T)
		if err := tc.P.Unmarshal(in, target.Interface()); err != nil {
			continue
		}
		if string(in) != string(data) {
			c.native = append(c.native, NativeViolation{Case: desc, What: "Unmarshal modified the input bytes", Class: "unmarshal-modifies-input"})
		}
		lo, hi = rangeOf(in)
		if m := findAlias(target.Elem(), lo, hi, 0); m != "" {
			c.native = append(c.native, NativeViolation{Case: desc + fmt.Sprintf(" data=%x", data), What: "decoded value points into the input buffer: " + m, Class: "decoded-aliases-input"})
		}
		snapshot := coqVal(target.Elem())
		for j := range in[:cap(in)] {
			in[:cap(in)][j] = 0xEE
		}
		// re-use the buffer for another decode as well
		other := vg.Value(tc.T, d)
		if d2, err := tc.P.Marshal(in[:0], other.Addr().Interface()); err == nil {
			t2 := reflect.New(tc.T)
			tc.P.Unmarshal(d2, t2.Interface())
		}
		if coqVal(target.Elem()) != snapshot {
			c.native = append(c.native, NativeViolation{Case: desc + fmt.Sprintf(" data=%x", data), What: "overwriting / re-using the input buffer changed the decoded value", Class: "decoded-aliases-input"})
		}
		// ---- data written in the OTHER slice form (repeated fields read by a default-mode instance and
		// the other way round): the compatibility paths must copy too
		{
			ocfg := tc.Cfg
			ocfg.ProtoArrays = !ocfg.ProtoArrays
			other := newTypeCase(tc.T, ocfg)
			if d3, err := other.P.Marshal(nil, v.Addr().Interface()); err == nil && len(d3) > 0 {
				in3 := make([]byte, len(d3), len(d3)+16)
				copy(in3, d3)
				t3 := reflect.New(tc.T)
				if r := safely(func() error { return tc.P.Unmarshal(in3, t3.Interface()) }); !r.panicked && r.err == nil {
					if string(in3) != string(d3) {
						c.native = append(c.native, NativeViolation{Case: desc, What: "Unmarshal of the other slice form modified the input bytes", Class: "unmarshal-modifies-input"})
					}
					lo3, hi3 := rangeOf(in3)
					if m := findAlias(t3.Elem(), lo3, hi3, 0); m != "" {
						c.native = append(c.native, NativeViolation{Case: desc + fmt.Sprintf(" data=%x (written with cfg=%s)", d3, ocfg), What: "value decoded from the other slice form points into the input buffer: " + m, Class: "decoded-aliases-input"})
					}
					snap3 := coqVal(t3.Elem())
					for j := range in3[:cap(in3)] {
						in3[:cap(in3)][j] = 0x42
					}
					if coqVal(t3.Elem()) != snap3 {
						c.native = append(c.native, NativeViolation{Case: desc + fmt.Sprintf(" data=%x (written with cfg=%s)", d3, ocfg), What: "overwriting the input buffer changed the value decoded from the other slice form", Class: "decoded-aliases-input"})
					}
					c.count("cross_form_decodes")
				}
			}
		}
		// ---- the same through a target that already holds data (same keys, same shapes):
		// whatever is overwritten or merged must still be a private copy
		in2 := make([]byte, len(data), len(data)+16)
		copy(in2, data)
		reused := reflect.New(tc.T)
		deepCopyInto(reused.Elem(), v)
		if c.rng.Bool() {
			// ... or holds the result of an earlier decode of the same bytes
			tc.P.Unmarshal(append([]byte{}, data...), reused.Interface())
		}
		if err := tc.P.Unmarshal(in2, reused.Interface()); err == nil {
			if string(in2) != string(data) {
				c.native = append(c.native, NativeViolation{Case: desc, What: "Unmarshal into a re-used target modified the input bytes", Class: "unmarshal-modifies-input"})
			}
			lo, hi = rangeOf(in2)
			if m := findAlias(reused.Elem(), lo, hi, 0); m != "" {
				c.native = append(c.native, NativeViolation{Case: desc + fmt.Sprintf(" data=%x", data), What: "value decoded into a re-used target points into the input buffer: " + m, Class: "decoded-aliases-input"})
			}
			snap2 := coqVal(reused.Elem())
			for j := range in2[:cap(in2)] {
				in2[:cap(in2)][j] = 0x23
			}
			if coqVal(reused.Elem()) != snap2 {
				c.native = append(c.native, NativeViolation{Case: desc + fmt.Sprintf(" data=%x", data), What: "overwriting the input buffer changed the value decoded into a re-used target", Class: "decoded-aliases-input"})
			}
			c.count("reused_target_decodes")
		}
		fuel := tc.fuel(valueDepth(v))
		c.add(fmt.Sprintf("KMarshal %s %s %s false %s", tc.head(fuel), coqVal(v), coqBytes(prefix), coqBytes(saved)), desc, shapeClass(tc.T, 3)+"/"+tc.Cfg.String(), hasContainerAndNonZero(v))
		c.count("kind_" + tc.T.Kind().String())
	}
	runC11Vectors(c)
	runC11History(c)
}

// long scalar vectors behind paddings of every length: a decoder that avoids copying packed
// elements when the payload is big enough and suitably aligned shares memory with the input
type Vectors struct {
	Pad string    `plenc:"1"`
	F   []float64 `plenc:"2"`
	G   []float32 `plenc:"3"`
	I   []int64   `plenc:"4"`
	U   []uint32  `plenc:"5"`
	B   []bool    `plenc:"6"`
}

func runC11Vectors(c *Ctx) {
	n := scale(c, 40, 600)
	for i := 0; i < n; i++ {
		cfg := protoCfgs[c.rng.Intn(len(protoCfgs))]
		p := newInstance(cfg)
		var v Vectors
		v.Pad = string(randBytes(c.rng, i%17))
		ln := []int{16, 17, 31, 32, 33, 64, 100, 200}[c.rng.Intn(8)]
		for k := 0; k < ln; k++ {
			v.F = append(v.F, float64(k)+0.5)
			v.G = append(v.G, float32(k)+0.25)
			v.I = append(v.I, int64(k)<<40)
			v.U = append(v.U, uint32(k)*1000003)
			v.B = append(v.B, k%3 == 0)
		}
		switch c.rng.Intn(4) { // one vector alone, so that it starts right after the padding
		case 0:
			v.G, v.I, v.U, v.B = nil, nil, nil, nil
		case 1:
			v.F, v.I, v.U, v.B = nil, nil, nil, nil
		case 2:
			v.F, v.G = nil, nil
		}
		data, err := p.Marshal(nil, &v)
		if err != nil {
			c.native = append(c.native, NativeViolation{Case: "vectors", What: err.Error(), Class: "marshal-fails"})
			continue
		}
		for _, top := range []bool{false, true} {
			var in []byte
			var target reflect.Value
			desc := fmt.Sprintf("vectors cfg=%s pad=%d len=%d top=%v", cfg, len(v.Pad), ln, top)
			if top {
				// a top-level vector: the payload starts at the first byte of the input
				if len(v.F) == 0 {
					continue
				}
				d, err := p.Marshal(nil, &v.F)
				if err != nil {
					continue
				}
				in = append(make([]byte, 0, len(d)+8), d...)
				target = reflect.New(reflect.TypeOf(v.F))
			} else {
				in = append(make([]byte, 0, len(data)+8), data...)
				target = reflect.New(reflect.TypeOf(v))
			}
			orig := string(in)
			if r := safely(func() error { return p.Unmarshal(in, target.Interface()) }); r.panicked || r.err != nil {
				c.native = append(c.native, NativeViolation{Case: desc, What: fmt.Sprintf("Unmarshal failed: %v %v", r.msg, r.err), Class: "unmarshal-of-marshal-fails"})
				continue
			}
			if string(in) != orig {
				c.native = append(c.native, NativeViolation{Case: desc, What: "Unmarshal modified the input bytes", Class: "unmarshal-modifies-input"})
			}
			lo, hi := rangeOf(in)
			if m := findAlias(target.Elem(), lo, hi, 0); m != "" {
				c.native = append(c.native, NativeViolation{Case: desc + fmt.Sprintf(" data=%x", trunc(orig, 60)), What: "decoded value points into the input buffer: " + m, Class: "decoded-aliases-input"})
			}
			snap := fmt.Sprintf("%v", target.Elem().Interface())
			for j := range in[:cap(in)] {
				in[:cap(in)][j] = 0xEE
			}
			if fmt.Sprintf("%v", target.Elem().Interface()) != snap {
				c.native = append(c.native, NativeViolation{Case: desc, What: "overwriting the input buffer changed the decoded vectors", Class: "decoded-aliases-input"})
			}
			c.count("vector_decodes")
		}
	}
}

// present-but-empty byte slices and strings (only written behind a pointer, as a
// slice element or at top level) next to non-empty ones
type EmptyBytes struct {
	B  *[]byte            `plenc:"1"`
	L  [][]byte           `plenc:"2"`
	S  *string            `plenc:"3"`
	LS []string           `plenc:"4"`
	M  map[string]*[]byte `plenc:"5"`
	P  []byte             `plenc:"6"`
}

func (g *ValGen) emptyBytesVal(r *RNG) EmptyBytes {
	bs := func() []byte {
		if r.Chance(50) {
			return []byte{}
		}
		return randBytes(r, 1+r.Intn(40))
	}
	var e EmptyBytes
	if r.Chance(85) {
		b := bs()
		e.B = &b
	}
	for i := r.Intn(4); i > 0; i-- {
		e.L = append(e.L, bs())
	}
	if r.Chance(70) {
		x := string(bs())
		e.S = &x
	}
	for i := r.Intn(3); i > 0; i-- {
		e.LS = append(e.LS, string(bs()))
	}
	if r.Chance(50) {
		e.M = map[string]*[]byte{}
		for i := r.Intn(3); i > 0; i-- {
			b := bs()
			e.M[string(randBytes(r, r.Intn(3)))] = &b
		}
	}
	if r.Chance(50) {
		e.P = bs()
	}
	return e
}

// runC11History: several decodes into ONE target, every input kept; after each step
// no earlier input has changed and the target shares memory (capacity included) with
// none of them; at the end every input is overwritten and the target must not move.
func runC11History(c *Ctx) {
	vg := &ValGen{r: c.rng}
	tEmpty := reflect.TypeOf(EmptyBytes{})
	for h := 0; h < scale(c, 150, 4000); h++ {
		cfg := randCfg(c)
		var tc *TypeCase
		special := h%2 == 0
		if special {
			switch c.rng.Intn(4) {
			case 0:
				tc = newTypeCase(reflect.TypeOf([]byte{}), cfg)
			case 1:
				tc = newTypeCase(reflect.TypeOf([][]byte{}), cfg)
			default:
				tc = newTypeCase(tEmpty, cfg)
			}
		} else {
			tc = pickType(c, cfg, 1+c.rng.Intn(2))
		}
		target := reflect.New(tc.T)
		var inputs, copies [][]byte
		desc := fmt.Sprintf("alias-history cfg=%s type=%s", tc.Cfg, tc.T)
		steps := 2 + c.rng.Intn(3)
		for k := 0; k < steps; k++ {
			var v reflect.Value
			switch {
			case tc.T == tEmpty:
				v = reflect.New(tEmpty).Elem()
				v.Set(reflect.ValueOf(vg.emptyBytesVal(c.rng)))
			case tc.T.Kind() == reflect.Slice && tc.T.Elem().Kind() == reflect.Uint8:
				v = reflect.New(tc.T).Elem()
				if c.rng.Bool() {
					v.SetBytes(randBytes(c.rng, 1+c.rng.Intn(30)))
				}
			default:
				v = vg.Value(tc.T, 2)
			}
			data, err := tc.P.Marshal(nil, v.Addr().Interface())
			if err != nil {
				break
			}
			in := make([]byte, len(data), len(data)+8+c.rng.Intn(24))
			copy(in, data)
			c.crumb(fmt.Sprintf("%s step %d data=%x", desc, k, data))
			if err := tc.P.Unmarshal(in, target.Interface()); err != nil {
				break
			}
			inputs = append(inputs, in)
			copies = append(copies, append([]byte{}, data...))
			for j := range inputs {
				if string(inputs[j]) != string(copies[j]) {
					c.native = append(c.native, NativeViolation{Case: fmt.Sprintf("%s step %d data=%x", desc, k, data), Class: "unmarshal-modifies-input",
						What: fmt.Sprintf("decode number %d into the same target changed the input of decode number %d: %x -> %x", k, j, copies[j], inputs[j])})
					copy(inputs[j], copies[j])
				}
				lo, hi := rangeOf(inputs[j])
				if m := findAlias(target.Elem(), lo, hi, 0); m != "" {
					c.native = append(c.native, NativeViolation{Case: fmt.Sprintf("%s step %d data=%x", desc, k, data), Class: "decoded-aliases-input",
						What: fmt.Sprintf("after decode number %d the target shares memory with the input of decode number %d: %s", k, j, m)})
				}
			}
			c.count("history_decodes")
		}
		snap := coqVal(target.Elem())
		for _, in := range inputs {
			full := in[:cap(in)]
			for j := range full {
				full[j] = 0x5a
			}
		}
		if coqVal(target.Elem()) != snap {
			c.native = append(c.native, NativeViolation{Case: desc, Class: "decoded-aliases-input", What: "overwriting the input buffers of earlier decodes changed the target"})
		}
	}
}
