package main

import (
	"fmt"
	"reflect"
	"time"

	"github.com/philpearl/plenc"
	"github.com/philpearl/plenc/plenccodec"
)

// C17: registrations and options are scoped to their instance and (type, tag) key.
// Histories over several instances with different options and registrations,
// interleaved with the package-level functions (a default-configured instance).

type RegHolder struct {
	T  time.Time            `plenc:"1,bq"`
	P  *time.Time           `plenc:"2,bq"`
	U  time.Time            `plenc:"3"`
	L  []time.Time          `plenc:"4"`
	M  map[string]time.Time `plenc:"5"`
	J  map[string]any       `plenc:"6"`
	PJ *[]any               `plenc:"7"`
	N  Named                `plenc:"8"`
}

type pkgLevel struct{}

// one-word structs passed BY VALUE go through a path of their own in Marshal: the instance's
// registrations and options must apply there too
type WrapPT struct {
	T *time.Time `plenc:"1"`
}
type WrapMT struct {
	M map[string]time.Time `plenc:"1"`
}
type WrapN64 struct {
	N *N64 `plenc:"1"`
}
type WrapI64 struct {
	N *int64 `plenc:"1"`
}

var oneWord = []reflect.Type{reflect.TypeOf(WrapPT{}), reflect.TypeOf(WrapMT{}), reflect.TypeOf(WrapN64{}), reflect.TypeOf(WrapI64{})}

func runC17(c *Ctx) {
	coreHeader(c, 0)
	vg := &ValGen{r: c.rng}
	nh := scale(c, 60, 1500)
	for h := 0; h < nh; h++ {
		// 2-4 instances with differing configuration, plus the package level
		ninst := 2 + c.rng.Intn(3)
		type inst struct {
			cfg Cfg
			p   *plenc.Plenc
		}
		var insts []inst
		for i := 0; i < ninst; i++ {
			cfg := Cfg{ProtoTime: c.rng.Bool(), ProtoArrays: c.rng.Bool(), WithNull: c.rng.Bool(), WithJSON: c.rng.Bool(), WithBQ: c.rng.Bool(), WithCustom: c.rng.Bool()}
			insts = append(insts, inst{cfg, newInstance(cfg)})
		}
		steps := 6 + c.rng.Intn(10)
		for s := 0; s < steps; s++ {
			k := c.rng.Intn(ninst + 1)
			var cfg Cfg
			var p *plenc.Plenc
			usePkg := k == ninst
			if !usePkg {
				cfg, p = insts[k].cfg, insts[k].p
			}
			// a type that this configuration accepts
			var t reflect.Type
			switch {
			case !usePkg && cfg.WithBQ && cfg.WithJSON && c.rng.Chance(40):
				t = reflect.TypeOf(RegHolder{})
			case !usePkg && cfg.WithBQ && c.rng.Chance(40):
				t = reflect.TypeOf(BQHolder{})
			case !usePkg && cfg.WithJSON && c.rng.Chance(40):
				t = reflect.TypeOf(JSONHolder{})
			case !usePkg && cfg.WithNull && c.rng.Chance(40):
				t = reflect.TypeOf(WithNull{})
			case !usePkg && cfg.WithCustom && c.rng.Chance(50):
				t = reflect.TypeOf(Custom{})
			case c.rng.Chance(25):
				// encodes differently on an instance with the int64 override, identically elsewhere
				t = reflect.TypeOf(CustomPlain{})
			case c.rng.Chance(30):
				t = reflect.TypeOf(Named{})
			case c.rng.Chance(30):
				t = reflect.TypeOf(Times{})
			default:
				g := &TypeGen{r: c.rng, proto: cfg.ProtoArrays}
				t = g.Struct(2)
			}
			if cfg.ProtoArrays && protoUnsafe(t) {
				t = reflect.TypeOf(Inner{})
			}
			tc := newTypeCase(t, cfg)
			if usePkg {
				tc.P = nil
			} else {
				tc.P = p // the long-lived instance of this history
			}
			v := vg.Value(t, 2)
			c.addRTOn(tc, v, fmt.Sprintf("instances h%d step%d inst=%d/%d pkg=%v", h, s, k, ninst, usePkg), usePkg)
			// ... and a one-word struct by value on the same instance: the same bytes as by pointer
			if !usePkg && c.rng.Chance(50) {
				wt := oneWord[c.rng.Intn(len(oneWord))]
				wtc := newTypeCase(wt, cfg)
				wtc.P = p
				wv := vg.Value(wt, 2)
				c.addRT(wtc, wv, fmt.Sprintf("instances h%d step%d one-word by pointer", h, s))
				byPtr, e1 := p.Marshal(nil, wv.Addr().Interface())
				var byVal []byte
				r := safely(func() (err error) { byVal, err = p.Marshal(nil, wv.Interface()); return err })
				same := string(byVal) == string(byPtr)
				if !same && len(byVal) == len(byPtr) && wt == reflect.TypeOf(WrapMT{}) {
					// map entries come out in iteration order: compare what the bytes decode to
					a, b := reflect.New(wt), reflect.New(wt)
					if p.Unmarshal(byVal, a.Interface()) == nil && p.Unmarshal(byPtr, b.Interface()) == nil {
						same = coqVal(a.Elem()) == coqVal(b.Elem())
					}
				}
				if e1 == nil && (r.panicked || r.err != nil || !same) {
					c.native = append(c.native, NativeViolation{Case: fmt.Sprintf("instances h%d step%d cfg=%s type=%s value=%+v", h, s, cfg, wt, wv.Interface()), Class: "by-value-differs-on-instance",
						What: fmt.Sprintf("Marshal by value gives %x, by pointer %x on the same instance (%v %v)", byVal, byPtr, r.msg, r.err)})
				}
				c.count("one_word_by_value")
			}
		}
		// an unregistered type on an instance without the registration must be rejected there
		for i, in := range insts {
			if !in.cfg.WithBQ {
				tc := newTypeCase(reflect.TypeOf(BQHolder{}), in.cfg)
				tc.P = in.p
				c.addBuild(tc, "", fmt.Sprintf("instances h%d inst=%d unregistered-bq", h, i), "unregistered-bq")
			}
			if !in.cfg.WithNull {
				tc := newTypeCase(reflect.TypeOf(WithNull{}), in.cfg)
				tc.P = in.p
				c.addBuild(tc, "", fmt.Sprintf("instances h%d inst=%d unregistered-null", h, i), "unregistered-null")
			}
			// the tag "zz" exists only where it was registered - also for named types of that kind
			for _, t := range []reflect.Type{reflect.TypeOf(Custom{}), reflect.TypeOf(NStr(""))} {
				tc := newTypeCase(t, in.cfg)
				tc.P = in.p
				tag := ""
				if t.Kind() == reflect.String {
					tag = "zz"
				}
				c.addBuild(tc, tag, fmt.Sprintf("instances h%d inst=%d custom-tag", h, i), fmt.Sprintf("custom-tag-%v", in.cfg.WithCustom))
			}
		}
	}
	// a tag option on a recursive back-reference is looked up under its (type, tag) key like any other
	for _, t := range []reflect.Type{reflect.TypeOf(RecTagged{}), reflect.TypeOf(RecTaggedSlice{}), reflect.TypeOf(MutTagA{})} {
		for _, cfg := range []Cfg{{}, {WithBQ: true, WithJSON: true}, {ProtoArrays: true}} {
			c.addBuild(newTypeCase(t, cfg), "", "instances recursive-tagged", "recursive-tagged")
		}
	}
	runC17Positions(c)
	// which codec is in use at each position: by descriptor
	p := newInstance(Cfg{WithBQ: true, WithJSON: true})
	cd, err := p.CodecForType(reflect.TypeOf(RegHolder{}))
	if err == nil {
		d := cd.Descriptor()
		want := map[string]plenccodec.FieldType{"T": plenccodec.FieldTypeFlatInt, "P": plenccodec.FieldTypeFlatInt, "U": plenccodec.FieldTypeTime, "J": plenccodec.FieldTypeJSONObject, "PJ": plenccodec.FieldTypeJSONArray}
		for _, e := range d.Elements {
			if w, ok := want[e.Name]; ok && e.Type != w {
				c.native = append(c.native, NativeViolation{Case: "RegHolder." + e.Name, What: fmt.Sprintf("registered codec not used: descriptor type %v, want %v", e.Type, w), Class: "registered-codec-not-used"})
			}
		}
	} else {
		c.native = append(c.native, NativeViolation{Case: "RegHolder", What: err.Error(), Class: "registered-codec-not-used"})
	}
}

// addRTOn is addRT on a given long-lived instance or on the package-level functions.
func (c *Ctx) addRTOn(tc *TypeCase, v reflect.Value, label string, pkg bool) {
	if !pkg {
		c.addRT(tc, v, label)
		return
	}
	var data []byte
	r := safely(func() (err error) { data, err = plenc.Marshal(nil, v.Addr().Interface()); return err })
	desc := fmt.Sprintf("%s package-level type=%s value=%s", label, tc.T, trunc(fmt.Sprintf("%+v", v.Interface()), 300))
	if r.panicked || r.err != nil {
		c.native = append(c.native, NativeViolation{Case: desc, What: fmt.Sprintf("package-level Marshal failed: %v %v", r.msg, r.err), Class: "marshal-fails"})
		return
	}
	out := reflect.New(tc.T)
	r = safely(func() error { return plenc.Unmarshal(data, out.Interface()) })
	if r.panicked || r.err != nil {
		c.native = append(c.native, NativeViolation{Case: desc, What: fmt.Sprintf("package-level Unmarshal failed: %v %v", r.msg, r.err), Class: "unmarshal-of-marshal-fails"})
		return
	}
	fuel := tc.fuel(valueDepth(v))
	c.add(fmt.Sprintf("KRT %s %s %s %s", tc.head(fuel), coqVal(v), coqBytes(data), coqVal(out.Elem())), desc, "pkg/"+shapeClass(tc.T, 3), hasContainerAndNonZero(v))
	c.count("package_level")
}
