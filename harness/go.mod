module verifharness

go 1.21

require (
	github.com/philpearl/plenc v0.0.0
	github.com/unravelin/null v2.1.2+incompatible
)

replace github.com/philpearl/plenc => /repo

replace github.com/unravelin/null => github.com/unravelin/null/v4 v4.2.0
