module verifharness

go 1.21

require (
	github.com/philpearl/plenc v0.0.0
	github.com/unravelin/null v2.1.2+incompatible
)

require (
	github.com/josharian/intern v1.0.0 // indirect
	github.com/mailru/easyjson v0.7.7 // indirect
)

replace github.com/philpearl/plenc => /repo

replace github.com/unravelin/null => github.com/unravelin/null/v4 v4.2.0
