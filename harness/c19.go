package main

import (
	"fmt"
	"reflect"
	"strings"
	"sync"
	"unsafe"

	"github.com/unravelin/null"
)

type InternT struct {
	S string             `plenc:"1,intern"`
	N null.String        `plenc:"2,intern"`
	L []InternE          `plenc:"3"`
	M map[string]InternE `plenc:"4"`
}
type InternE struct {
	X string `plenc:"1,intern"`
}
type PlainT struct {
	S string            `plenc:"1"`
	N null.String       `plenc:"2"`
	L []PlainE          `plenc:"3"`
	M map[string]PlainE `plenc:"4"`
}
type PlainE struct {
	X string `plenc:"1"`
}

// sweepStrings: the systematic histories run before the random ones - every
// single byte value, and strings at every length boundary.
func sweepStrings(h int) []string {
	switch h {
	case 0, 1:
		out := make([]string, 0, 128)
		for b := h * 128; b < (h+1)*128; b++ {
			out = append(out, string([]byte{byte(b)}))
		}
		return out
	case 2:
		var out []string
		for _, n := range []int{0, 1, 2, 3, 7, 8, 9, 15, 16, 17, 31, 32, 33, 63, 64, 65, 127, 128, 129, 255, 256, 257, 1023, 1024, 1025} {
			out = append(out, strings.Repeat("\xc3", n), strings.Repeat("z", n))
		}
		return out
	}
	return nil
}

func internStrings(r *RNG, n int) []string {
	pool := []string{"", "a", "ab", "abc", "abcd", "\x00", "\x00\x01", "key", "value", strings.Repeat("x", 130), "héllo", "\xff\xfe"}
	out := make([]string, n)
	for i := range out {
		switch r.Intn(5) {
		case 4:
			b := make([]byte, []int{1, 1, 1, 2, 3, 8}[r.Intn(6)]) // binary, mostly very short
			for j := range b {
				b[j] = byte(r.Intn(256))
			}
			out[i] = string(b)
		case 0:
			out[i] = fmt.Sprintf("new-%d-%d", i, r.Intn(1000)) // new
		case 1:
			if i > 0 {
				out[i] = out[r.Intn(i)] // repeated
			}
		default:
			out[i] = pool[r.Intn(len(pool))]
		}
	}
	return out
}

func overlaps(s string, buf []byte) bool {
	if len(s) == 0 || len(buf) == 0 {
		return false
	}
	p := uintptr(unsafe.Pointer(unsafe.StringData(s)))
	b := uintptr(unsafe.Pointer(&buf[0]))
	return p < b+uintptr(cap(buf)) && b < p+uintptr(len(s))
}

func runC19(c *Ctx) {
	c.header = "From Plenc Require Import Base Intern Corr19.\nOpen Scope N_scope.\n"
	c.mismatch = "mismatches_C19"
	c.casetype = "c19case"
	nh := scale(c, 150, 3000)
	cfg := Cfg{WithNull: true}
	for h := 0; h < nh; h++ {
		pi := newInstance(cfg) // interned type and its twin on one instance
		steps := 5 + c.rng.Intn(25)
		inputs := sweepStrings(h)
		if inputs == nil {
			inputs = internStrings(c.rng, steps)
		}
		steps = len(inputs)
		var results []string
		type kept struct {
			got  InternT
			want PlainT
		}
		var all []kept
		var reusedI InternT // destinations re-used across the whole history
		var reusedP PlainT
		buf := make([]byte, 0, 512)
		desc := fmt.Sprintf("history of %d interned reads: %q", steps, trunc(fmt.Sprint(inputs), 300))
		for i, s := range inputs {
			in := PlainT{S: s, N: null.StringFrom(s), L: []PlainE{{X: s}, {X: inputs[c.rng.Intn(i+1)]}}, M: map[string]PlainE{s: {X: s}}}
			ini := InternT{S: s, N: null.StringFrom(s), L: []InternE{{X: s}, {X: in.L[1].X}}, M: map[string]InternE{s: {X: s}}}
			d1, err1 := pi.Marshal(nil, &in)
			d2, err2 := pi.Marshal(nil, &ini)
			if err1 != nil || err2 != nil || string(d1) != string(d2) {
				c.native = append(c.native, NativeViolation{Case: desc, What: fmt.Sprintf("the intern option changes the encoding: %x vs %x (%v %v)", d1, d2, err1, err2), Class: "intern-encoding"})
				continue
			}
			// decode from a re-used buffer which is overwritten afterwards
			buf = append(buf[:0], d1...)
			var k kept
			if err := pi.Unmarshal(buf, &k.got); err != nil {
				c.native = append(c.native, NativeViolation{Case: desc, What: "Unmarshal failed: " + err.Error(), Class: "intern-decode"})
				continue
			}
			if err := pi.Unmarshal(buf, &k.want); err != nil {
				continue
			}
			for _, str := range []string{k.got.S, k.got.N.String, k.got.L[0].X, k.got.L[1].X} {
				if overlaps(str, buf) {
					c.native = append(c.native, NativeViolation{Case: desc, What: "an interned string points into the caller's buffer", Class: "intern-aliases-input"})
				}
			}
			// the same data into re-used destinations: interned and plain must keep agreeing
			pi.Unmarshal(buf, &reusedI)
			pi.Unmarshal(buf, &reusedP)
			if reusedI.S != reusedP.S || reusedI.N != reusedP.N {
				c.native = append(c.native, NativeViolation{Case: desc, What: fmt.Sprintf("re-used destination: interned field holds %q / %+v, plain field %q / %+v", reusedI.S, reusedI.N, reusedP.S, reusedP.N), Class: "intern-differs-reused"})
			}
			for j := range buf {
				buf[j] = 0xEE // scribble
			}
			all = append(all, k)
			results = append(results, k.got.S)
		}
		// everything decoded earlier is still what the non-interned twin read
		for _, k := range all {
			w := k.want
			g := k.got
			ok := g.S == w.S && g.N == w.N && len(g.L) == len(w.L) && len(g.M) == len(w.M)
			for i := range g.L {
				ok = ok && i < len(w.L) && g.L[i].X == w.L[i].X
			}
			for key, e := range g.M {
				ok = ok && w.M[key].X == e.X
			}
			if !ok {
				c.native = append(c.native, NativeViolation{Case: desc, What: fmt.Sprintf("interned decode differs from the plain twin: %+v vs %+v", g, w), Class: "intern-differs"})
			}
		}
		var ins, res []string
		for i := range results {
			ins = append(ins, coqBytes([]byte(inputs[i])))
			res = append(res, coqBytes([]byte(results[i])))
		}
		if len(results) == len(inputs) {
			c.add(fmt.Sprintf("K19 [%s] [%s]", strings.Join(ins, "; "), strings.Join(res, "; ")), desc, fmt.Sprintf("hist/%d/%d", steps/5, distinct(inputs)), distinct(inputs) > 1)
		}
		c.count(fmt.Sprintf("distinct_strings_%d", min(distinct(inputs), 12)))
	}
	// long histories: thousands of distinct values through one interned field while the
	// caller keeps everything it was given; whatever the table does when it grows,
	// fills up or starts afresh, strings handed out earlier never change
	for _, total := range []int{300, 1100, scale(c, 2300, 9000)} {
		pi := newInstance(cfg)
		type held struct{ s, n, l, want string }
		var kept []held
		buf := make([]byte, 0, 8192)
		desc := fmt.Sprintf("long history: %d distinct interned values, all results retained", total)
		c.crumb(desc)
		for i := 0; i < total; i++ {
			var s string
			switch {
			case i%97 == 96:
				s = fmt.Sprintf("big-%06d-", i) + strings.Repeat("y", 3000+c.rng.Intn(3000)) // crosses any small arena
			case i%5 == 4 && i > 10:
				s = kept[c.rng.Intn(len(kept))].want // a repeat
			default:
				s = fmt.Sprintf("value-%06d-%s", i, strings.Repeat("p", c.rng.Intn(24)))
			}
			in := PlainT{S: s, N: null.StringFrom(s), L: []PlainE{{X: s}}}
			d, err := pi.Marshal(nil, &in)
			if err != nil {
				break
			}
			buf = append(buf[:0], d...)
			var got InternT
			if err := pi.Unmarshal(buf, &got); err != nil || len(got.L) != 1 {
				c.native = append(c.native, NativeViolation{Case: desc, What: fmt.Sprintf("Unmarshal failed at value %d: %v", i, err), Class: "intern-decode"})
				break
			}
			for j := range buf {
				buf[j] = 0xEE
			}
			if got.S != s || got.N.String != s || got.L[0].X != s {
				c.native = append(c.native, NativeViolation{Case: desc, What: fmt.Sprintf("value %d read back as %q / %q / %q, want %q", i, trunc(got.S, 60), trunc(got.N.String, 60), trunc(got.L[0].X, 60), trunc(s, 60)), Class: "intern-differs"})
				break
			}
			kept = append(kept, held{got.S, got.N.String, got.L[0].X, s})
		}
		changed := 0
		first := ""
		for i, k := range kept {
			if k.s != k.want || k.n != k.want || k.l != k.want {
				if changed == 0 {
					first = fmt.Sprintf("the string returned by decode number %d was %q and has become %q", i, trunc(k.want, 60), trunc(k.s+"|"+k.n+"|"+k.l, 200))
				}
				changed++
			}
		}
		if changed > 0 {
			c.native = append(c.native, NativeViolation{Case: desc, What: fmt.Sprintf("%d previously returned interned strings changed: %s", changed, first), Class: "intern-retained-changed"})
		}
		c.count("long_histories")
	}
	// concurrent readers on one instance (free-running; under the race detector in the thorough tier)
	ng := scale(c, 40, 400)
	for trial := 0; trial < ng; trial++ {
		pi := newInstance(cfg)
		inputs := internStrings(c.rng, 20)
		var datas [][]byte
		for _, s := range inputs {
			d, _ := pi.Marshal(nil, &PlainT{S: s, N: null.StringFrom(s), L: []PlainE{{X: s}}})
			datas = append(datas, d)
		}
		var wg sync.WaitGroup
		var mu sync.Mutex
		bad := ""
		for g := 0; g < 8; g++ {
			wg.Add(1)
			go func(g int) {
				defer wg.Done()
				for i := range datas {
					k := (i + g*3) % len(datas)
					var out InternT
					buf := append([]byte{}, datas[k]...)
					err := pi.Unmarshal(buf, &out)
					for j := range buf {
						buf[j] = 0
					}
					if err != nil || out.S != inputs[k] || out.N.String != inputs[k] || len(out.L) != 1 || out.L[0].X != inputs[k] {
						mu.Lock()
						bad = fmt.Sprintf("goroutine %d read %q for %q (%v)", g, out.S, inputs[k], err)
						mu.Unlock()
					}
				}
			}(g)
		}
		wg.Wait()
		if bad != "" {
			c.native = append(c.native, NativeViolation{Case: fmt.Sprintf("8 concurrent readers over %q", inputs), What: bad, Class: "intern-concurrent"})
		}
		c.count("concurrent_trials")
	}
	_ = reflect.TypeOf
}

func distinct(ss []string) int {
	m := map[string]bool{}
	for _, s := range ss {
		m[s] = true
	}
	return len(m)
}
