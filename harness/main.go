// Command harness runs philpearl/plenc (built from /repo's working tree) on
// generated cases and writes the observations as Coq terms, one cases_*.v
// file per shard, plus a stats JSON file. The Coq model evaluates the same
// cases with vm_compute and reports mismatches.
package main

import (
	"bufio"
	"flag"
	"fmt"
	"os"
)

func main() {
	prop := flag.String("prop", "", "property id (C01..C20)")
	seed := flag.Int64("seed", 1, "PRNG seed")
	tier := flag.String("tier", "quick", "quick|thorough")
	out := flag.String("out", "", "output directory")
	replay := flag.String("replay", "", "replay file")
	cs := flag.Int("childstart", -1, "internal: sandbox child, first case index to execute")
	wit := flag.String("witness", "", "internal: run one crashing witness in this process")
	flag.Parse()
	if *wit != "" {
		runWitnessChild(*wit)
		return
	}
	childStart = *cs
	if *out == "" {
		fmt.Fprintln(os.Stderr, "need -out")
		os.Exit(2)
	}
	if err := os.MkdirAll(*out, 0o755); err != nil {
		panic(err)
	}
	ctx := &Ctx{Prop: *prop, Seed: *seed, Tier: *tier, Out: *out, Replay: *replay}
	ctx.rng = newRNG(uint64(*seed))
	if childStart >= 0 {
		ctx.childOut = bufio.NewWriterSize(os.Stdout, 1<<16)
		limitMemory()
	}
	runProp(ctx)
	// the thorough tier repeats the generated part under further seeds derived from the
	// first (different run-time types, values and histories); C04 is one long round
	if ctx.Tier == "thorough" && childStart < 0 && ctx.Replay == "" && ctx.Prop != "C04" {
		for round := 1; round < 3; round++ {
			ctx.rng = newRNG(uint64(*seed) + 7919*uint64(round))
			ctx.count(fmt.Sprintf("thorough_round_%d", round))
			runProp(ctx)
		}
	}
	ctx.runWitnesses()
	ctx.finish()
}

func runProp(ctx *Ctx) {
	switch ctx.Prop {
	case "C18":
		runC18(ctx)
	case "C01":
		runRoundTrip(ctx, 1)
	case "C02":
		runRoundTrip(ctx, 2)
	case "C05":
		runLaws(ctx)
	case "C06":
		runMarshal(ctx)
	case "C09":
		runPresence(ctx)
	case "C10":
		runMerge(ctx)
	case "C03":
		runEvolution(ctx)
	case "C08":
		runBuild(ctx)
	case "C04":
		runArbitrary(ctx)
	case "C15":
		runC15(ctx)
	case "C16":
		runC16(ctx)
	case "C19":
		runC19(ctx)
	case "C17":
		runC17(ctx)
	case "C12":
		runC12(ctx)
	case "C11":
		runC11(ctx)
	case "C07":
		runC07(ctx)
	case "C20":
		runC20(ctx)
	case "C13":
		runC13(ctx)
	case "C14":
		runC14(ctx)
	default:
		fmt.Fprintln(os.Stderr, "unknown property", ctx.Prop)
		os.Exit(2)
	}
}
