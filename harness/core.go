package main

import (
	"fmt"
	"reflect"
	"strings"
	"time"

	"github.com/philpearl/plenc"
	pnull "github.com/philpearl/plenc/null"
	"github.com/philpearl/plenc/plenccodec"
	"github.com/philpearl/plenc/plenccore"
)

// Cfg mirrors the model's [cfg].
type Cfg struct {
	ProtoTime, ProtoArrays, WithNull, WithJSON, WithBQ, WithCustom bool
}

func (c Cfg) Coq() string {
	return fmt.Sprintf("(mkcfg %v %v %v %v %v %v)", c.ProtoTime, c.ProtoArrays, c.WithNull, c.WithJSON, c.WithBQ, c.WithCustom)
}

func (c Cfg) String() string {
	var s []string
	if c.ProtoTime {
		s = append(s, "protoTime")
	}
	if c.ProtoArrays {
		s = append(s, "protoArrays")
	}
	if c.WithNull {
		s = append(s, "null")
	}
	if c.WithJSON {
		s = append(s, "json")
	}
	if c.WithBQ {
		s = append(s, "bq")
	}
	if c.WithCustom {
		s = append(s, "custom")
	}
	if len(s) == 0 {
		return "default"
	}
	return strings.Join(s, "+")
}

// newInstance builds a fresh Plenc for a configuration. Instances are NOT
// cached across cases unless the caller does so: a fresh instance per type
// keeps one case's codec construction from influencing another's.
func newInstance(c Cfg) *plenc.Plenc {
	p := &plenc.Plenc{ProtoCompatibleTime: c.ProtoTime, ProtoCompatibleArrays: c.ProtoArrays}
	p.RegisterDefaultCodecs()
	if c.WithNull {
		pnull.AddCodecs(p)
	}
	if c.WithJSON {
		p.RegisterCodec(tJSONMap, plenccodec.JSONMapCodec{})
		p.RegisterCodec(tJSONArr, plenccodec.JSONArrayCodec{})
	}
	if c.WithCustom {
		// the model's custom_regs: int64 flat (overriding the default), tag "zz" for string and int32
		// (the codecs are taken from the instance's own defaults rather than named, so that a change
		// to the exported codec types shows as a behavioural difference, not as a harness that does
		// not compile)
		flat64, e1 := p.CodecForTypeWithTag(reflect.TypeOf(int64(0)), "flat")
		str, e2 := p.CodecForType(reflect.TypeOf(""))
		i32, e3 := p.CodecForType(reflect.TypeOf(int32(0)))
		if e1 != nil || e2 != nil || e3 != nil {
			panic(fmt.Sprint("default codecs missing: ", e1, e2, e3))
		}
		p.RegisterCodec(reflect.TypeOf(int64(0)), flat64)
		p.RegisterCodecWithTag(reflect.TypeOf(""), "zz", str)
		p.RegisterCodecWithTag(reflect.TypeOf(int32(0)), "zz", i32)
	}
	if c.WithBQ {
		p.RegisterCodecWithTag(tTime, "bq", plenccodec.BQTimestampCodec{})
	}
	return p
}

// TypeCase bundles a Go type with its model description.
type TypeCase struct {
	T     reflect.Type
	Cfg   Cfg
	P     *plenc.Plenc
	Ty    string // model ty term
	Env   string // model env term
	Depth int
	Rec   bool
}

func newTypeCase(t reflect.Type, c Cfg) *TypeCase {
	tp := newTypePrinter()
	ty := tp.Ty(t)
	return &TypeCase{T: t, Cfg: c, P: newInstance(c), Ty: ty, Env: tp.Env(),
		Depth: typeDepth(t, map[reflect.Type]bool{}), Rec: isRecursive(t, map[reflect.Type]bool{})}
}

// fuel for the model's unfolding of the codec graph
func (tc *TypeCase) fuel(valueDepth int) int {
	if tc.Rec {
		f := tc.Depth + valueDepth + 2
		if f > 16 {
			f = 16
		}
		return f
	}
	return tc.Depth + 3
}

func (tc *TypeCase) head(fuel int) string {
	return fmt.Sprintf("%s %s %s %d", tc.Cfg.Coq(), tc.Env, tc.Ty, fuel)
}

type callResult struct {
	panicked bool
	msg      string
	err      error
}

func safely(f func() error) (r callResult) {
	defer func() {
		if x := recover(); x != nil {
			r.panicked = true
			r.msg = fmt.Sprint(x)
		}
	}()
	r.err = f()
	return
}

func outcomeOf(r callResult) string {
	switch {
	case r.panicked:
		return "OPanic"
	case r.err != nil:
		return "OErr"
	}
	return "OOk"
}

// ---- round trip (C01, C02, C09, C12) ----

// addRT runs Marshal(nil,&v) and Unmarshal into a fresh variable and records the observation.
func (c *Ctx) addRT(tc *TypeCase, v reflect.Value, label string) {
	c.crumb(fmt.Sprintf("%s cfg=%s type=%s value=%s", label, tc.Cfg, tc.T, trunc(fmt.Sprintf("%+v", v.Interface()), 400)))
	var data []byte
	r := safely(func() (err error) {
		data, err = tc.P.Marshal(nil, v.Addr().Interface())
		return err
	})
	desc := fmt.Sprintf("%s cfg=%s type=%s value=%s", label, tc.Cfg, tc.T, trunc(fmt.Sprintf("%+v", v.Interface()), 300))
	if r.panicked || r.err != nil {
		c.native = append(c.native, NativeViolation{Case: desc, What: fmt.Sprintf("Marshal of an accepted value failed: panic=%v %s %v", r.panicked, r.msg, r.err), Class: "marshal-fails"})
		return
	}
	out := reflect.New(tc.T)
	r = safely(func() error { return tc.P.Unmarshal(data, out.Interface()) })
	if r.panicked || r.err != nil {
		c.native = append(c.native, NativeViolation{Case: desc + fmt.Sprintf(" data=%x", data), What: fmt.Sprintf("Unmarshal of Marshal output failed: panic=%v %s %v", r.panicked, r.msg, r.err), Class: "unmarshal-of-marshal-fails"})
		return
	}
	fuel := tc.fuel(valueDepth(v))
	term := fmt.Sprintf("KRT %s %s %s %s", tc.head(fuel), coqVal(v), coqBytes(data), coqVal(out.Elem()))
	c.add(term, desc+fmt.Sprintf(" data=%x", data), shapeClass(tc.T, 3)+"/"+tc.Cfg.String(), hasContainerAndNonZero(v))
	c.count("kind_" + tc.T.Kind().String())
	c.count(fmt.Sprintf("bytes_len_%s", lenBucket(len(data))))
}

func lenBucket(n int) string {
	switch {
	case n == 0:
		return "0"
	case n < 8:
		return "1-7"
	case n < 64:
		return "8-63"
	case n < 128:
		return "64-127"
	case n < 1024:
		return "128-1023"
	}
	return "1024+"
}

func trunc(s string, n int) string {
	if len(s) > n {
		return s[:n] + "..."
	}
	return s
}

// ---- codec laws (C05) ----

func (c *Ctx) addLaws(tc *TypeCase, v reflect.Value, label string) {
	c.crumb(fmt.Sprintf("%s cfg=%s type=%s value=%s", label, tc.Cfg, tc.T, trunc(fmt.Sprintf("%+v", v.Interface()), 400)))
	var cd plenccodec.Codec
	r := safely(func() (err error) {
		cd, err = tc.P.CodecForType(tc.T)
		return err
	})
	desc := fmt.Sprintf("%s cfg=%s type=%s value=%s", label, tc.Cfg, tc.T, trunc(fmt.Sprintf("%+v", v.Interface()), 300))
	if r.panicked || r.err != nil {
		c.native = append(c.native, NativeViolation{Case: desc, What: fmt.Sprintf("CodecForType failed: %v %s %v", r.panicked, r.msg, r.err), Class: "codec-for-type-fails"})
		return
	}
	ptr := v.Addr().UnsafePointer()
	if tc.T.Kind() == reflect.Map {
		ptr = v.UnsafePointer() // map codecs take the map itself when writing
	}
	ftag := plenccore.AppendTag(nil, cd.WireType(), 5+c.rng.Intn(3)*1000)
	var sn, st int
	var an, at []byte
	var rn int
	r = safely(func() error {
		sn = cd.Size(ptr, nil)
		st = cd.Size(ptr, ftag)
		an = cd.Append(nil, ptr, nil)
		at = cd.Append(nil, ptr, ftag)
		out := reflect.New(tc.T)
		var err error
		rn, err = cd.Read(an, out.UnsafePointer(), cd.WireType())
		return err
	})
	if r.panicked || r.err != nil {
		c.native = append(c.native, NativeViolation{Case: desc, What: fmt.Sprintf("Size/Append/Read failed: panic=%v %s %v", r.panicked, r.msg, r.err), Class: "codec-call-fails"})
		return
	}
	// the property itself, on the implementation
	if sn != len(an) || st != len(at) || rn != len(an) {
		c.native = append(c.native, NativeViolation{Case: desc, Class: "size-law",
			What: fmt.Sprintf("Size(nil)=%d len(Append(nil))=%d Size(tag)=%d len(Append(tag))=%d Read consumed %d of %d", sn, len(an), st, len(at), rn, len(an))})
	}
	if len(at) > 6000 {
		// the law itself was checked on the implementation just above; a term of this
		// size is not worth evaluating in the model as well
		c.count("laws_checked_natively_only_large")
		return
	}
	fuel := tc.fuel(valueDepth(v))
	term := fmt.Sprintf("KLaws %s %s %s %d %d %s %s %d", tc.head(fuel), coqVal(v), coqBytes(ftag), sn, st, coqBytes(an), coqBytes(at), rn)
	c.add(term, desc, shapeClass(tc.T, 3)+"/"+tc.Cfg.String(), hasContainerAndNonZero(v))
	c.count("kind_" + tc.T.Kind().String())
	c.count(fmt.Sprintf("wiretype_%d", cd.WireType()))
}

// ---- Marshal appends (C06) ----

func (c *Ctx) addMarshal(tc *TypeCase, v reflect.Value, prefix []byte, spare int, byValue bool, label string) {
	c.crumb(fmt.Sprintf("%s cfg=%s type=%s value=%s prefix=%x spare=%d byValue=%v", label, tc.Cfg, tc.T, trunc(fmt.Sprintf("%+v", v.Interface()), 400), prefix, spare, byValue))
	buf := make([]byte, len(prefix), len(prefix)+spare)
	copy(buf, prefix)
	var arg any
	if byValue {
		arg = v.Interface()
	} else {
		arg = v.Addr().Interface()
	}
	var out []byte
	r := safely(func() (err error) {
		out, err = tc.P.Marshal(buf, arg)
		return err
	})
	desc := fmt.Sprintf("%s cfg=%s type=%s value=%s prefix=%x spare=%d byValue=%v", label, tc.Cfg, tc.T, trunc(fmt.Sprintf("%+v", v.Interface()), 300), prefix, spare, byValue)
	if r.panicked || r.err != nil {
		c.native = append(c.native, NativeViolation{Case: desc, What: fmt.Sprintf("Marshal failed: panic=%v %s %v", r.panicked, r.msg, r.err), Class: "marshal-fails"})
		return
	}
	fuel := tc.fuel(valueDepth(v))
	term := fmt.Sprintf("KMarshal %s %s %s %v %s", tc.head(fuel), coqVal(v), coqBytes(prefix), byValue, coqBytes(out))
	c.add(term, desc, fmt.Sprintf("%s/p%d/s%d/v%v", shapeClass(tc.T, 2), min(len(prefix), 3), min(spare, 2), byValue), len(out) > len(prefix))
	c.count(fmt.Sprintf("byvalue_%v", byValue))
	c.count(fmt.Sprintf("spare_%s", lenBucket(spare)))
}

// ---- decode into a prior target (C10, C03) / arbitrary bytes (C04) ----

// decodeInProcess runs Unmarshal(data, &target) with target pre-set to prior.
func (c *Ctx) addDec(tc *TypeCase, data []byte, prior reflect.Value, label string, class string, nontrivial bool) {
	c.crumb(fmt.Sprintf("%s cfg=%s type=%s data=%x", label, tc.Cfg, tc.T, data))
	target := reflect.New(tc.T)
	deepCopyInto(target.Elem(), prior)
	priorTerm := coqVal(target.Elem())
	r := safely(func() error { return tc.P.Unmarshal(data, target.Interface()) })
	var out string
	switch {
	case r.panicked:
		out = "DPanic"
	case r.err != nil:
		out = "DErr"
	default:
		out = fmt.Sprintf("(DOk %s)", coqVal(target.Elem()))
	}
	desc := fmt.Sprintf("%s cfg=%s type=%s data=%x prior=%s", label, tc.Cfg, tc.T, data, trunc(fmt.Sprintf("%+v", prior.Interface()), 200))
	if r.panicked {
		c.native = append(c.native, NativeViolation{Case: desc, What: "Unmarshal panicked: " + r.msg, Class: "decode-panic"})
	}
	if !r.panicked && r.err == nil {
		// memory safety of the unsafe append paths: a slice never exceeds its capacity
		if msg := checkSliceCaps(target.Elem(), 0); msg != "" {
			c.native = append(c.native, NativeViolation{Case: desc, Class: "slice-len-exceeds-cap", What: msg})
		}
	}
	fuel := tc.Depth + 3
	if tc.Rec {
		// every nesting level consumes at least one byte, and a level of the recursion takes two steps
		// of the model's unfolding (pointer / slice, then struct): short inputs get what they can need
		fuel = tc.Depth + len(data) + 2
		if len(data) <= 8 {
			fuel = tc.Depth + 2*len(data) + 2
		}
		if fuel > 20 {
			fuel = 20
		}
	}
	term := fmt.Sprintf("KDec %s %s %s %s", tc.head(fuel), coqBytes(data), priorTerm, out)
	c.add(term, desc, class, nontrivial)
	c.count("outcome_" + strings.SplitN(strings.Trim(out, "("), " ", 2)[0])
}

// deepCopyInto copies src into dst (same type) without sharing memory.
func deepCopyInto(dst, src reflect.Value) {
	if !src.IsValid() {
		return
	}
	switch src.Kind() {
	case reflect.Ptr:
		if src.IsNil() {
			return
		}
		p := reflect.New(src.Type().Elem())
		deepCopyInto(p.Elem(), src.Elem())
		setAny(dst, p)
	case reflect.Slice:
		if src.IsNil() {
			return
		}
		// copy the elements beyond len as well: stale data in the spare capacity
		// is part of what a re-used target looks like
		full := src
		if src.CanInterface() || src.CanAddr() {
			full = src.Slice3(0, src.Cap(), src.Cap())
		}
		s := reflect.MakeSlice(src.Type(), full.Len(), full.Len())
		for i := 0; i < full.Len(); i++ {
			deepCopyInto(s.Index(i), full.Index(i))
		}
		setAny(dst, s.Slice3(0, src.Len(), full.Len()))
	case reflect.Map:
		if src.IsNil() {
			return
		}
		m := reflect.MakeMap(src.Type())
		it := src.MapRange()
		for it.Next() {
			k := reflect.New(src.Type().Key()).Elem()
			deepCopyInto(k, it.Key())
			e := reflect.New(src.Type().Elem()).Elem()
			deepCopyInto(e, it.Value())
			m.SetMapIndex(k, e)
		}
		setAny(dst, m)
	case reflect.Struct:
		if src.Type() == tTime {
			setAny(dst, reflect.ValueOf(getTime(src)))
			return
		}
		for i := 0; i < src.NumField(); i++ {
			deepCopyInto(dst.Field(i), src.Field(i))
		}
	case reflect.Interface:
		if src.IsNil() {
			return
		}
		if src.CanInterface() {
			setAny(dst, reflect.ValueOf(copyJSON(src.Interface())))
		}
	default:
		setAny(dst, src)
	}
}

func copyJSON(x any) any {
	switch x := x.(type) {
	case []any:
		a := make([]any, len(x))
		for i := range x {
			a[i] = copyJSON(x[i])
		}
		return a
	case map[string]any:
		m := make(map[string]any, len(x))
		for k, v := range x {
			m[k] = copyJSON(v)
		}
		return m
	}
	return x
}

func setAny(dst, v reflect.Value) {
	if !dst.CanSet() {
		dst = reflect.NewAt(dst.Type(), dst.Addr().UnsafePointer()).Elem()
	}
	if !v.CanInterface() {
		// read-only source (unexported field): copy through memory for plain kinds
		switch v.Kind() {
		case reflect.Bool:
			dst.SetBool(v.Bool())
		case reflect.Int, reflect.Int8, reflect.Int16, reflect.Int32, reflect.Int64:
			dst.SetInt(v.Int())
		case reflect.Uint, reflect.Uint8, reflect.Uint16, reflect.Uint32, reflect.Uint64:
			dst.SetUint(v.Uint())
		case reflect.Float32, reflect.Float64:
			dst.SetFloat(v.Float())
		case reflect.String:
			dst.SetString(v.String())
		}
		return
	}
	dst.Set(v)
}

// ---- codec construction (C08) ----

func (c *Ctx) addBuild(tc *TypeCase, tag string, label string, class string) {
	c.crumb(fmt.Sprintf("%s cfg=%s type=%s tag=%q", label, tc.Cfg, tc.T, tag))
	r := safely(func() error {
		_, err := tc.P.CodecForTypeWithTag(tc.T, tag)
		return err
	})
	term := fmt.Sprintf("KBuild %s %s %s %s %d %s", tc.Cfg.Coq(), tc.Env, tc.Ty, coqBytes([]byte(tag)), tc.Depth+3, outcomeOf(r))
	desc := fmt.Sprintf("%s cfg=%s type=%s tag=%q -> %s %s %v", label, tc.Cfg, tc.T, tag, outcomeOf(r), r.msg, r.err)
	if r.panicked {
		c.native = append(c.native, NativeViolation{Case: desc, What: "CodecForType panicked: " + r.msg, Class: "build-panic"})
	}
	c.add(term, desc, class+"/"+outcomeOf(r), true)
	c.count("build_" + outcomeOf(r))
}

var _ = time.Now
