package main

import (
	"bytes"
	"encoding/json"
	"fmt"
	"math"
	"reflect"
	"sort"
	"strings"
	"time"

	"github.com/philpearl/plenc"
	"github.com/philpearl/plenc/plenccodec"
)

func coqDesc(d *plenccodec.Descriptor) string {
	var es []string
	for i := range d.Elements {
		es = append(es, coqDesc(&d.Elements[i]))
	}
	return fmt.Sprintf("(Desc %s %s %d %s [%s] %v %d)", coqZ(int64(d.Index)), coqBytes([]byte(d.Name)), int(d.Type),
		coqBytes([]byte(d.TypeName)), strings.Join(es, "; "), d.ExplicitPresence, int(d.LogicalType))
}

// recorder implements plenccodec.Outputter and records the calls
type recorder struct{ evs []string }

func (r *recorder) StartObject()          { r.evs = append(r.evs, "EvStartObj") }
func (r *recorder) EndObject()            { r.evs = append(r.evs, "EvEndObj") }
func (r *recorder) StartArray()           { r.evs = append(r.evs, "EvStartArr") }
func (r *recorder) EndArray()             { r.evs = append(r.evs, "EvEndArr") }
func (r *recorder) NameField(name string) { r.evs = append(r.evs, "EvName "+coqBytes([]byte(name))) }
func (r *recorder) Int64(v int64)         { r.evs = append(r.evs, "EvInt "+coqZ(v)) }
func (r *recorder) Uint64(v uint64)       { r.evs = append(r.evs, fmt.Sprintf("EvUint %d", v)) }
func (r *recorder) Float64(v float64) {
	r.evs = append(r.evs, fmt.Sprintf("EvF64 %d", math.Float64bits(v)))
}
func (r *recorder) Float32(v float32) {
	r.evs = append(r.evs, fmt.Sprintf("EvF32 %d", math.Float32bits(v)))
}
func (r *recorder) String(v string) { r.evs = append(r.evs, "EvStr "+coqBytes([]byte(v))) }
func (r *recorder) Bool(v bool)     { r.evs = append(r.evs, fmt.Sprintf("EvBool %v", v)) }
func (r *recorder) Time(t time.Time) {
	r.evs = append(r.evs, fmt.Sprintf("EvTime %s %s", coqZ(t.Unix()), coqZ(int64(t.Nanosecond()))))
}
func (r *recorder) Raw(v string) { r.evs = append(r.evs, "EvRaw "+coqBytes([]byte(v))) }

func c13Header(c *Ctx) {
	c.header = "From Plenc Require Import Base Varint Wire JsonAny Codec Registry CorrCore Descriptor Corr13.\nOpen Scope N_scope.\n"
	c.mismatch = "mismatches_C13"
	c.casetype = "c13case"
}

// C14: the Descriptor mirrors the type
func runC14(c *Ctx) {
	c13Header(c)
	n := scale(c, 1500, 30000)
	for i := 0; i < n; i++ {
		cfg := randCfg(c)
		cfg.WithJSON = c.rng.Chance(15)
		cfg.WithBQ = c.rng.Chance(15)
		tc := pickType(c, cfg, 1+c.rng.Intn(3))
		if tc.Rec {
			continue // Descriptor() of a recursive type never returns (known finding D21)
		}
		c.addDescriptor(tc)
	}
	// fields of ONE type under different tag options inside one struct, in either order (a codec built
	// for a field must not be handed to the next field of the same type)
	for _, t := range sameTypeOptionStructs() {
		for _, cfg := range []Cfg{{}, {ProtoArrays: true}, {ProtoTime: true}} {
			c.addDescriptor(newTypeCase(t, cfg))
		}
	}
}

func sameTypeOptionStructs() []reflect.Type {
	elems := []reflect.Type{reflect.TypeOf((*int64)(nil)), reflect.TypeOf(MyInt(0)), reflect.TypeOf((*int32)(nil)), reflect.TypeOf(int16(0)),
		reflect.TypeOf((*string)(nil)), reflect.TypeOf(""), reflect.TypeOf((**int64)(nil))}
	var out []reflect.Type
	for _, et := range elems {
		base := et
		for base.Kind() == reflect.Ptr {
			base = base.Elem()
		}
		opt := "flat"
		if base.Kind() == reflect.String {
			opt = "intern"
		}
		for _, order := range [][]string{{opt, ""}, {"", opt}, {"", opt, ""}} {
			var fs []reflect.StructField
			for i, o := range order {
				tag := fmt.Sprintf(`plenc:"%d"`, i+1)
				if o != "" {
					tag = fmt.Sprintf(`plenc:"%d,%s"`, i+1, o)
				}
				fs = append(fs, reflect.StructField{Name: fmt.Sprintf("F%d", i), Type: et, Tag: reflect.StructTag(tag)})
			}
			out = append(out, reflect.StructOf(fs))
		}
	}
	return out
}

func (c *Ctx) addDescriptor(tc *TypeCase) {
	var cd plenccodec.Codec
	r := safely(func() (err error) { cd, err = tc.P.CodecForType(tc.T); return err })
	if r.panicked || r.err != nil {
		return
	}
	var d plenccodec.Descriptor
	r = safely(func() error { d = cd.Descriptor(); return nil })
	desc := fmt.Sprintf("descriptor cfg=%s type=%s", tc.Cfg, tc.T)
	if r.panicked {
		c.native = append(c.native, NativeViolation{Case: desc, What: "Descriptor() panicked: " + r.msg, Class: "descriptor-panic"})
		return
	}
	c.add(fmt.Sprintf("K14 %s %s", tc.head(tc.Depth+3), coqDesc(&d)), desc, shapeClass(tc.T, 3)+"/"+tc.Cfg.String(), tc.T.Kind() == reflect.Struct || tc.T.Kind() == reflect.Map || tc.T.Kind() == reflect.Slice)
	c.count("kind_" + tc.T.Kind().String())
}

// flatNarrowInType: a `flat` int narrower than 64 bits occurs (descriptor has no width: known finding D17d)
func hasFlatNarrow(t reflect.Type, seen map[reflect.Type]bool) bool {
	switch t.Kind() {
	case reflect.Ptr, reflect.Slice:
		return hasFlatNarrow(t.Elem(), seen)
	case reflect.Map:
		return hasFlatNarrow(t.Key(), seen) || hasFlatNarrow(t.Elem(), seen)
	case reflect.Struct:
		if seen[t] || extKind(t) >= 0 {
			return false
		}
		seen[t] = true
		defer delete(seen, t)
		for i := 0; i < t.NumField(); i++ {
			sf := t.Field(i)
			if strings.HasSuffix(sf.Tag.Get("plenc"), ",flat") {
				ft := sf.Type
				for ft.Kind() == reflect.Ptr {
					ft = ft.Elem()
				}
				if isSignedInt(ft) && ft.Bits() < 64 {
					return true
				}
			}
			if hasFlatNarrow(sf.Type, seen) {
				return true
			}
		}
	}
	return false
}

func hasTime(t reflect.Type, seen map[reflect.Type]bool) bool {
	if t == tTime || t == tNullTime {
		return true
	}
	switch t.Kind() {
	case reflect.Ptr, reflect.Slice:
		return hasTime(t.Elem(), seen)
	case reflect.Map:
		return hasTime(t.Key(), seen) || hasTime(t.Elem(), seen)
	case reflect.Struct:
		if seen[t] || extKind(t) >= 0 {
			return false
		}
		seen[t] = true
		defer delete(seen, t)
		for i := 0; i < t.NumField(); i++ {
			if !skipped(t.Field(i)) && hasTime(t.Field(i).Type, seen) {
				return true
			}
		}
	}
	return false
}

// valueImage: the JSON data-model image of a (decoded) value as the property
// describes it. ok=false when the value has no faithful JSON image to compare
// (non-finite floats, duplicate JSON member names, ...).
func valueImage(v reflect.Value, fieldName func(reflect.StructField) string) (img any, ok bool) {
	t := v.Type()
	switch t {
	case tTime:
		tt := getTime(v)
		if tt.Year() < 0 || tt.Year() > 9999 {
			return nil, false
		}
		return tt.UTC().Format(time.RFC3339Nano), true
	case tBytes:
		return jsonString(string(v.Bytes())), true
	}
	if k := extKind(t); k > 0 {
		valid := v.Field(0).Field(1).Bool()
		if !valid {
			return nil, true
		}
		return valueImage(v.Field(0).Field(0), fieldName)
	}
	switch t.Kind() {
	case reflect.Bool:
		return v.Bool(), true
	case reflect.Int, reflect.Int8, reflect.Int16, reflect.Int32, reflect.Int64:
		return json.Number(fmt.Sprint(v.Int())), true
	case reflect.Uint, reflect.Uint8, reflect.Uint16, reflect.Uint32, reflect.Uint64:
		return json.Number(fmt.Sprint(v.Uint())), true
	case reflect.Float32, reflect.Float64:
		f := v.Float()
		if math.IsNaN(f) || math.IsInf(f, 0) {
			return nil, false
		}
		return f, true
	case reflect.String:
		return jsonString(v.String()), true
	case reflect.Ptr:
		if v.IsNil() {
			return nil, true
		}
		return valueImage(v.Elem(), fieldName)
	case reflect.Slice:
		a := make([]any, v.Len())
		if t.Elem().Kind() == reflect.Uint8 && t != tBytes {
			// named byte slices are packed varints: an array of numbers
		}
		for i := range a {
			x, ok := valueImage(v.Index(i), fieldName)
			if !ok {
				return nil, false
			}
			a[i] = x
		}
		return a, true
	case reflect.Map:
		if t.Key().Kind() == reflect.String {
			m := map[string]any{}
			it := v.MapRange()
			for it.Next() {
				x, ok := valueImage(it.Value(), fieldName)
				if !ok {
					return nil, false
				}
				k := jsonString(it.Key().String())
				if _, dup := m[k]; dup {
					return nil, false
				}
				m[k] = x
			}
			return m, true
		}
		if kt := t.Key(); kt.Kind() == reflect.Ptr {
			// pointer keys: whether a *string key makes the map "string-keyed" is not something
			// the property settles; no image to compare with
			return nil, false
		}
		var a []any
		it := v.MapRange()
		for it.Next() {
			e := map[string]any{}
			kx, ok1 := valueImage(it.Key(), fieldName)
			vx, ok2 := valueImage(it.Value(), fieldName)
			if !ok1 || !ok2 {
				return nil, false
			}
			if !isOmitted(it.Key()) {
				e["key"] = kx
			}
			if !isOmitted(it.Value()) {
				e["value"] = vx
			}
			a = append(a, e)
		}
		if a == nil {
			a = []any{}
		}
		return unordered(a), true
	case reflect.Struct:
		m := map[string]any{}
		for i := 0; i < t.NumField(); i++ {
			sf := t.Field(i)
			if skipped(sf) {
				continue
			}
			if isOmitted(v.Field(i)) {
				continue
			}
			x, ok := valueImage(v.Field(i), fieldName)
			if !ok {
				return nil, false
			}
			name := jsonString(fieldName(sf))
			if _, dup := m[name]; dup {
				return nil, false
			}
			m[name] = x
		}
		return m, true
	}
	return nil, false
}

type unordered []any

// isOmitted: the value is not written by the struct / map-entry encoder
func isOmitted(v reflect.Value) bool {
	t := v.Type()
	if t == tTime {
		return getTime(v).IsZero()
	}
	if extKind(t) > 0 {
		return !v.Field(0).Field(1).Bool()
	}
	switch t.Kind() {
	case reflect.Ptr, reflect.Map:
		return v.IsNil()
	case reflect.Slice:
		return v.Len() == 0
	case reflect.Struct:
		return false
	}
	return v.IsZero()
}

func descName(sf reflect.StructField) string {
	if j, _, _ := strings.Cut(sf.Tag.Get("json"), ","); j != "" {
		return j
	}
	return sf.Name
}

func sameImage(want, got any) bool {
	switch w := want.(type) {
	case unordered:
		g, ok := got.([]any)
		if !ok || len(g) != len(w) {
			return false
		}
		used := make([]bool, len(g))
	outer:
		for _, x := range w {
			for j, y := range g {
				if !used[j] && sameImage(x, y) {
					used[j] = true
					continue outer
				}
			}
			return false
		}
		return true
	case []any:
		g, ok := got.([]any)
		if !ok || len(g) != len(w) {
			return false
		}
		for i := range w {
			if !sameImage(w[i], g[i]) {
				return false
			}
		}
		return true
	case map[string]any:
		g, ok := got.(map[string]any)
		if !ok {
			return false
		}
		for k, x := range w {
			y, ok := g[k]
			if !ok || !sameImage(x, y) {
				return false
			}
		}
		// a member present in the data with no elements (e.g. a pointer slice
		// whose entries were all nil) equals the empty slice the typed decode gives
		for k, y := range g {
			if _, ok := w[k]; ok {
				continue
			}
			if a, isArr := y.([]any); !isArr || len(a) != 0 {
				return false
			}
		}
		return true
	}
	return sameJSON(want, got)
}

// C13: descriptor-driven decoding
func runC13(c *Ctx) {
	hangs := 0
	c13Header(c)
	vg := &ValGen{r: c.rng}
	n := scale(c, 400, 10000)
	var dp plenc.Plenc
	dp.RegisterDefaultCodecs()
	walkType := func(tc *TypeCase, fixed []reflect.Value) {
		if tc.Rec {
			return
		}
		cd, err := tc.P.CodecForType(tc.T)
		if err != nil {
			return
		}
		d := cd.Descriptor()
		// the two restored descriptors
		var dPlenc, dJSON plenccodec.Descriptor
		if b, err := dp.Marshal(nil, &d); err == nil {
			if err := dp.Unmarshal(b, &dPlenc); err != nil {
				c.native = append(c.native, NativeViolation{Case: fmt.Sprint(tc.T), What: "descriptor does not round-trip through plenc: " + err.Error(), Class: "descriptor-restore"})
			}
		}
		if b, err := json.Marshal(&d); err == nil {
			if err := json.Unmarshal(b, &dJSON); err != nil {
				c.native = append(c.native, NativeViolation{Case: fmt.Sprint(tc.T), What: "descriptor does not round-trip through encoding/json: " + err.Error(), Class: "descriptor-restore"})
			}
		}
		nv := 3
		if fixed != nil {
			nv = len(fixed)
		}
		for j := 0; j < nv; j++ {
			var v reflect.Value
			if fixed != nil {
				v = fixed[j]
			} else {
				v = vg.Value(tc.T, 3)
			}
			data, err := tc.P.Marshal(nil, v.Addr().Interface())
			if err != nil {
				continue
			}
			var rec recorder
			r := safely(func() error { return d.Read(&rec, data) })
			desc := fmt.Sprintf("walk cfg=%s type=%s value=%s data=%x", tc.Cfg, tc.T, trunc(fmt.Sprintf("%+v", v.Interface()), 200), data)
			if r.panicked {
				c.native = append(c.native, NativeViolation{Case: desc, What: "Descriptor.Read panicked: " + r.msg, Class: "walk-panic"})
				continue
			}
			c.add(fmt.Sprintf("K13 %s %s [%s] %v", tc.head(tc.Depth+3), coqBytes(data), strings.Join(rec.evs, "; "), r.err == nil),
				desc, shapeClass(tc.T, 3)+"/"+tc.Cfg.String(), hasContainerAndNonZero(v))
			c.count(fmt.Sprintf("walk_ok_%v", r.err == nil))
			// the walker on damaged input: same calls so far and same verdict as the model,
			// and it returns (the walk totality theorem is about the model)
			for k := 0; k < 2 && len(data) > 1; k++ {
				bad := append([]byte{}, data...)
				switch c.rng.Intn(5) {
				case 4:
					// the leading count / length replaced by a huge one, the rest cut short
					bad = append([]byte{0xff, 0xff, 0xff, 0xff, 0xff, 0xff, 0xff, 0xff, 0x3f}, bad[1:1+c.rng.Intn(len(bad)-1)]...)
				case 0:
					bad = bad[:1+c.rng.Intn(len(bad)-1)]
				case 1:
					bad[c.rng.Intn(len(bad))] ^= byte(1 << uint(c.rng.Intn(8)))
				case 2:
					// a huge count / length spliced in at a random position
					at := c.rng.Intn(len(bad))
					huge := [][]byte{{0xff, 0xff, 0xff, 0xff, 0x0f}, {0xff, 0xff, 0xff, 0xff, 0xff, 0xff, 0xff, 0xff, 0x3f}, {0x80, 0x80, 0x80, 0x80, 0x10}}[c.rng.Intn(3)]
					bad = append(append(append([]byte{}, bad[:at]...), huge...), bad[at:]...)
				default:
					bad = append(bad, bad[:1+c.rng.Intn(len(bad))]...)
				}
				var recb recorder
				done := make(chan callResult, 1)
				go func() { done <- safely(func() error { return d.Read(&recb, bad) }) }()
				descb := fmt.Sprintf("walk-damaged cfg=%s type=%s data=%x", tc.Cfg, tc.T, bad)
				select {
				case rb := <-done:
					if rb.panicked {
						c.native = append(c.native, NativeViolation{Case: descb, What: "Descriptor.Read panicked: " + rb.msg, Class: "walk-panic"})
						break
					}
					c.add(fmt.Sprintf("K13 %s %s [%s] %v", tc.head(tc.Depth+3), coqBytes(bad), strings.Join(recb.evs, "; "), rb.err == nil),
						descb, "damaged/"+shapeClass(tc.T, 2), true)
					c.count(fmt.Sprintf("walk_damaged_ok_%v", rb.err == nil))
				case <-time.After(10 * time.Second):
					c.native = append(c.native, NativeViolation{Case: descb, What: "Descriptor.Read did not return within 10 s", Class: "walk-hang"})
					hangs++
				}
				if hangs >= 2 {
					break
				}
			}
			// restored descriptors give the same calls
			for name, dd := range map[string]*plenccodec.Descriptor{"plenc": &dPlenc, "json": &dJSON} {
				var rec2 recorder
				r2 := safely(func() error { return dd.Read(&rec2, data) })
				if r2.panicked || (r2.err == nil) != (r.err == nil) || strings.Join(rec2.evs, ";") != strings.Join(rec.evs, ";") {
					c.native = append(c.native, NativeViolation{Case: desc, What: "descriptor restored through " + name + " walks differently", Class: "descriptor-restore-walk"})
				}
			}
			// the property on the implementation: valid JSON equal to the typed decode
			known := ""
			switch {
			case tc.Cfg.ProtoTime && hasTime(tc.T, map[reflect.Type]bool{}):
				known = "D29-proto-time-descriptor"
			case hasFlatNarrow(tc.T, map[reflect.Type]bool{}):
				known = "D17d-flat-narrow-negative"
			case usesProtoForm(tc.T, tc.Cfg.ProtoArrays, map[reflect.Type]bool{}):
				known = "D31-descriptor-proto-form"
			}
			typed := reflect.New(tc.T)
			if err := tc.P.Unmarshal(data, typed.Interface()); err != nil {
				continue
			}
			if tc.T.Kind() == reflect.Ptr && v.IsNil() {
				// a nil pointer passed as the whole value writes nothing at all: there is no
				// content to compare (Unmarshal of no bytes allocates a zero target instead)
				c.count("top_level_nil_pointer")
				continue
			}
			want, ok := valueImage(typed.Elem(), descName)
			if !ok {
				// no image to compare with (JSON-any content, ...): the text must still be valid JSON
				c.count("image_not_comparable")
				var jo plenccodec.JSONOutput
				if r.err == nil && known == "" && !hasNonFinite(typed.Elem(), 0) && d.Read(&jo, data) == nil {
					text := jo.Done()
					if !json.Valid(text) {
						c.native = append(c.native, NativeViolation{Case: desc, What: fmt.Sprintf("walk output is not valid JSON: %q", trunc(string(text), 200)), Class: "walk-invalid-json"})
					}
					c.count("validity_checked_only")
				}
				continue
			}
			if r.err != nil {
				c.native = append(c.native, NativeViolation{Case: desc, What: "Descriptor.Read failed on Marshal output: " + r.err.Error(), Class: orDefault(known, "walk-fails")})
				continue
			}
			var jo plenccodec.JSONOutput
			if err := d.Read(&jo, data); err != nil {
				continue
			}
			text := jo.Done()
			dec := json.NewDecoder(bytes.NewReader(text))
			dec.UseNumber()
			var parsed any
			if err := dec.Decode(&parsed); err != nil {
				c.native = append(c.native, NativeViolation{Case: desc, What: fmt.Sprintf("walk output is not valid JSON (%v): %q", err, trunc(string(text), 200)), Class: orDefault(known, "walk-invalid-json")})
				continue
			}
			if !sameImage(want, parsed) {
				c.native = append(c.native, NativeViolation{Case: desc, What: fmt.Sprintf("walk output differs from the typed decode: %q vs %v", trunc(string(text), 300), want), Class: orDefault(known, "walk-differs")})
			}
			c.count("image_compared")
		}
	}
	for i := 0; i < n; i++ {
		cfg := randCfg(c)
		cfg.WithJSON = c.rng.Chance(10)
		walkType(pickType(c, cfg, 1+c.rng.Intn(3)), nil)
	}
	// every byte value inside strings, byte slices, map keys and JSON-any content
	var fixed []reflect.Value
	for b := 0; b < 256; b++ {
		if c.Tier != "thorough" && b >= 0x20 && b != 0x22 && b != 0x5c && b != 0x7f && b < 0xc0 && c.rng.Chance(85) {
			continue
		}
		ch := string([]byte{byte(b)})
		v := reflect.New(reflect.TypeOf(C13Strings{})).Elem()
		v.Set(reflect.ValueOf(C13Strings{S: "a" + ch + "z", B: []byte("b" + ch), M: map[string]string{ch: "v" + ch}, L: []string{ch, "", ch + ch},
			K: map[string]int{"k" + ch: b}, P: &ch, J: map[string]any{"j" + ch: ch, "arr": []any{ch, nil, float64(b)}}}))
		fixed = append(fixed, v)
	}
	walkType(newTypeCase(reflect.TypeOf(C13Strings{}), Cfg{WithJSON: true}), fixed)
}

// hasNonFinite: NaN, an infinity or a json.Number that is no number literal anywhere in the value
// (the property is about the JSON data model: finite floats, valid numbers)
func hasNonFinite(v reflect.Value, depth int) bool {
	if depth > 12 {
		return false
	}
	switch v.Kind() {
	case reflect.String:
		// a json.Number that is not a number literal is outside the JSON data model too
		if v.Type() == reflect.TypeOf(json.Number("")) {
			return !json.Valid([]byte(v.String()))
		}
	case reflect.Float32, reflect.Float64:
		f := v.Float()
		return f != f || f > 1.7976931348623157e308 || f < -1.7976931348623157e308
	case reflect.Ptr, reflect.Interface:
		return !v.IsNil() && hasNonFinite(v.Elem(), depth+1)
	case reflect.Slice, reflect.Array:
		for i := 0; i < v.Len(); i++ {
			if hasNonFinite(v.Index(i), depth+1) {
				return true
			}
		}
	case reflect.Map:
		it := v.MapRange()
		for it.Next() {
			if hasNonFinite(it.Key(), depth+1) || hasNonFinite(it.Value(), depth+1) {
				return true
			}
		}
	case reflect.Struct:
		for i := 0; i < v.NumField(); i++ {
			if hasNonFinite(v.Field(i), depth+1) {
				return true
			}
		}
	}
	return false
}

// C13Strings: every place a string reaches the JSON outputter from
type C13Strings struct {
	S string            `plenc:"1"`
	B []byte            `plenc:"2"`
	M map[string]string `plenc:"3"`
	L []string          `plenc:"4"`
	K map[string]int    `plenc:"5"`
	P *string           `plenc:"6"`
	J map[string]any    `plenc:"7"`
}

func orDefault(a, b string) string {
	if a != "" {
		return a
	}
	return b
}

var _ = sort.Strings

// usesProtoForm: some slice or map in the type is written in the protobuf
// repeated-field form, which Descriptor.Read does not understand (known finding D31)
func usesProtoForm(t reflect.Type, protoArrays bool, seen map[reflect.Type]bool) bool {
	if extKind(t) >= 0 || t == tBytes {
		return false
	}
	switch t.Kind() {
	case reflect.Ptr:
		return usesProtoForm(t.Elem(), protoArrays, seen)
	case reflect.Slice:
		if protoArrays && isProtoSlice(t) {
			return true
		}
		return usesProtoForm(t.Elem(), protoArrays, seen)
	case reflect.Map:
		return usesProtoForm(t.Key(), protoArrays, seen) || usesProtoForm(t.Elem(), protoArrays, seen)
	case reflect.Struct:
		if seen[t] {
			return false
		}
		seen[t] = true
		defer delete(seen, t)
		for i := 0; i < t.NumField(); i++ {
			sf := t.Field(i)
			if skipped(sf) {
				continue
			}
			if strings.HasSuffix(sf.Tag.Get("plenc"), ",proto") {
				ft := sf.Type
				for ft.Kind() == reflect.Ptr {
					ft = ft.Elem()
				}
				if ft.Kind() == reflect.Map || isProtoSlice(ft) {
					return true
				}
			}
			if usesProtoForm(sf.Type, protoArrays, seen) {
				return true
			}
		}
	}
	return false
}
