package main

import (
	"bytes"
	"fmt"
	"go/ast"
	"go/format"
	"go/importer"
	"go/parser"
	"go/token"
	"go/types"
	"os"
	"os/exec"
	"path/filepath"
	"reflect"
	"strconv"
	"strings"
	"time"

	"github.com/philpearl/plenc"
)

// C20: the real plenctag binary (built from /repo/cmd/plenctag on every run)
// is run on generated Go files.

type ptField struct {
	names  []string // empty: embedded
	embed  string   // embedded type expression
	typ    string
	rtyp   reflect.Type
	tags   []ptTag // existing tags, in order
	rawTag string  // when set: a tag literal that does not parse
	hasLit bool
	nested *ptStruct // the field's type holds this anonymous struct
	wrap   string    // "", "[]", "*", "map[string]": what stands in front of the nested struct
}
type ptTag struct{ key, name, opts string }

type ptStruct struct {
	name   string
	fields []ptField
	local  bool // declared inside a function
	anon   bool // anonymous struct in a var declaration
	inner  bool // lives inside a field type of the struct before it (not a declaration of its own)
}

func (s *ptStruct) body(indent string) string {
	var fb strings.Builder
	fb.WriteString("struct {\n")
	for _, f := range s.fields {
		fb.WriteString(indent + "\t" + f.render() + "\n")
	}
	fb.WriteString(indent + "}")
	return fb.String()
}

func (f *ptField) firstName() string {
	if len(f.names) > 0 {
		return f.names[0]
	}
	e := strings.TrimPrefix(f.embed, "*")
	if i := strings.LastIndex(e, "."); i >= 0 {
		e = e[i+1:]
	}
	return e
}

func (f *ptField) render() string {
	var b strings.Builder
	if f.nested != nil {
		b.WriteString(strings.Join(f.names, ", ") + " " + f.wrap + f.nested.body("\t"))
	} else if len(f.names) > 0 {
		b.WriteString(strings.Join(f.names, ", ") + " " + f.typ)
	} else {
		b.WriteString(f.embed)
	}
	if f.hasLit {
		if f.rawTag != "" {
			b.WriteString(" `" + f.rawTag + "`")
		} else {
			var parts []string
			for _, t := range f.tags {
				v := t.name
				if t.opts != "" {
					v += "," + t.opts
				}
				parts = append(parts, fmt.Sprintf("%s:%s", t.key, strconv.Quote(v)))
			}
			b.WriteString(" `" + strings.Join(parts, " ") + "`")
		}
	}
	return b.String()
}

func coqTags(ts []ptTag) string {
	var parts []string
	for _, t := range ts {
		parts = append(parts, fmt.Sprintf("mkstag %s %s %s", coqBytes([]byte(t.key)), coqBytes([]byte(t.name)), coqBytes([]byte(t.opts))))
	}
	return "[" + strings.Join(parts, "; ") + "]"
}

func (f *ptField) coq() string {
	r, _ := firstRune(f.firstName())
	tags := "None"
	if f.rawTag == "" {
		tags = "(Some " + coqTags(f.tags) + ")"
	}
	return fmt.Sprintf("mkpf %v %s %v", isLowerRune(r), tags, f.hasLit)
}

func firstRune(s string) (rune, int) {
	for _, r := range s {
		return r, 1
	}
	return 0, 0
}
func isLowerRune(r rune) bool {
	return r >= 'a' && r <= 'z' || (r > 127 && strings.ToLower(string(r)) == string(r) && strings.ToUpper(string(r)) != string(r))
}

var ptTypes = []struct {
	src string
	rt  reflect.Type
}{
	{"int", reflect.TypeOf(0)}, {"string", reflect.TypeOf("")}, {"float64", reflect.TypeOf(0.0)}, {"[]byte", tBytes},
	{"bool", reflect.TypeOf(false)}, {"[]string", reflect.TypeOf([]string{})}, {"map[string]int", reflect.TypeOf(map[string]int{})},
	{"time.Time", tTime}, {"*int64", reflect.TypeOf((*int64)(nil))},
}

func genPtStruct(r *RNG, name string) ptStruct {
	s := ptStruct{name: name}
	n := 1 + r.Intn(6)
	usedIdx := map[int]bool{}
	for i := 0; i < n; i++ {
		ty := ptTypes[r.Intn(len(ptTypes))]
		f := ptField{typ: ty.src, rtyp: ty.rt}
		switch r.Intn(12) {
		case 0:
			f.names = []string{fmt.Sprintf("priv%d", i)}
		case 1:
			f.names = []string{fmt.Sprintf("A%d", i), fmt.Sprintf("B%d", i)} // multi-name
		case 2:
			f.embed = []string{"Embedded", "*Embedded", "time.Duration", "lowerEmbedded"}[r.Intn(4)]
		default:
			f.names = []string{fmt.Sprintf("F%d", i)}
		}
		// existing tags
		switch r.Intn(10) {
		case 0, 1, 2:
			// no tag literal
		case 3:
			f.hasLit = true
			f.rawTag = []string{`json:"a" plenc`, `json:a`, `plenc:"1" plenc`, `x`}[r.Intn(4)] // does not parse
		default:
			f.hasLit = true
			if r.Chance(50) {
				f.tags = append(f.tags, ptTag{"json", []string{"name", "-", "", "n2"}[r.Intn(4)], []string{"", "omitempty", "string"}[r.Intn(3)]})
			}
			if r.Chance(30) {
				f.tags = append(f.tags, ptTag{"sql", []string{"col", "-"}[r.Intn(2)], ""})
			}
			if r.Chance(45) {
				var name string
				switch r.Intn(8) {
				case 0:
					name = "-"
				case 1:
					name = []string{"abc", "1x", "", "-5", "99999999999999999999"}[r.Intn(5)] // not an index
				default:
					idx := 1 + r.Intn(40)
					for usedIdx[idx] {
						idx++
					}
					usedIdx[idx] = true
					name = strconv.Itoa(idx)
				}
				f.tags = append(f.tags, ptTag{"plenc", name, []string{"", "", "flat", "intern"}[r.Intn(4)]})
			}
			if r.Chance(20) {
				f.tags = append(f.tags, ptTag{"yaml", "y", ""})
			}
			if len(f.tags) == 0 {
				f.tags = append(f.tags, ptTag{"json", "j", ""})
			}
		}
		s.fields = append(s.fields, f)
	}
	return s
}

func renderFile(structs []ptStruct) string {
	var b strings.Builder
	b.WriteString("package sample\n\nimport \"time\"\n\nvar _ time.Time\n\ntype Embedded struct {\n\tE int `plenc:\"1\"`\n}\ntype lowerEmbedded struct{}\n\n")
	for _, s := range structs {
		if s.inner {
			continue
		}
		body := func() string {
			var fb strings.Builder
			fb.WriteString("struct {\n")
			for _, f := range s.fields {
				fb.WriteString("\t" + f.render() + "\n")
			}
			fb.WriteString("}")
			return fb.String()
		}()
		switch {
		case s.local:
			fmt.Fprintf(&b, "func fn%s() {\n\ttype %s %s\n\tvar _ %s\n}\n\n", s.name, s.name, strings.ReplaceAll(body, "\n", "\n\t"), s.name)
		case s.anon:
			fmt.Fprintf(&b, "var v%s %s\n\n", s.name, body)
		default:
			fmt.Fprintf(&b, "type %s %s\n\n", s.name, body)
		}
	}
	return b.String()
}

// parseTags: the tags of every struct in src, by struct order then field order
func parseStructTags(src []byte) (out [][]*string, err error) {
	fset := token.NewFileSet()
	f, err := parser.ParseFile(fset, "x.go", src, parser.ParseComments)
	if err != nil {
		return nil, err
	}
	ast.Inspect(f, func(n ast.Node) bool {
		st, ok := n.(*ast.StructType)
		if !ok {
			return true
		}
		var tags []*string
		for _, fld := range st.Fields.List {
			if fld.Tag == nil {
				tags = append(tags, nil)
				continue
			}
			v := fld.Tag.Value
			tags = append(tags, &v)
		}
		out = append(out, tags)
		return true
	})
	return out, nil
}

// splitTag parses a tag literal into (key, name, opts) triples the way reflect.StructTag does.
func splitTag(lit string) ([]ptTag, bool) {
	s, err := strconv.Unquote(lit)
	if err != nil {
		return nil, false
	}
	var out []ptTag
	for s != "" {
		i := 0
		for i < len(s) && s[i] == ' ' {
			i++
		}
		s = s[i:]
		if s == "" {
			break
		}
		i = 0
		for i < len(s) && s[i] > ' ' && s[i] != ':' && s[i] != '"' && s[i] != 0x7f {
			i++
		}
		if i == 0 || i+1 >= len(s) || s[i] != ':' || s[i+1] != '"' {
			return nil, false
		}
		key := s[:i]
		s = s[i+1:]
		i = 1
		for i < len(s) && s[i] != '"' {
			if s[i] == '\\' {
				i++
			}
			i++
		}
		if i >= len(s) {
			return nil, false
		}
		val, err := strconv.Unquote(s[:i+1])
		if err != nil {
			return nil, false
		}
		s = s[i+1:]
		name, opts, _ := strings.Cut(val, ",")
		out = append(out, ptTag{key, name, opts})
	}
	return out, true
}

func runC20(c *Ctx) {
	c.header = "From Plenc Require Import Base Registry Plenctag Corr20.\nOpen Scope N_scope.\n"
	c.mismatch = "mismatches_C20"
	c.casetype = "c20case"
	repo := os.Getenv("VERIF_REPO")
	if repo == "" {
		repo = "/repo"
	}
	bin := filepath.Join(c.Out, "plenctag.bin")
	build := exec.Command("go", "build", "-o", bin, "./cmd/plenctag")
	build.Dir = repo
	if out, err := build.CombinedOutput(); err != nil {
		c.native = append(c.native, NativeViolation{Case: "build", What: "cmd/plenctag does not build: " + string(out), Class: "plenctag-build"})
		return
	}
	dir := filepath.Join(c.Out, "src")
	os.MkdirAll(dir, 0o755)
	nfiles := scale(c, 120, 2500)
	for fi := 0; fi < nfiles; fi++ {
		cfgJSON, cfgSQL, cfgPriv := c.rng.Chance(40), !c.rng.Chance(25), !c.rng.Chance(25)
		var structs []ptStruct
		if fi < 8 {
			// every combination of json / sql tags (absent, a name, "-") on fields without a plenc tag,
			// under every combination of the -json and -sql flags: which key excludes a field
			cfgJSON, cfgSQL, cfgPriv = fi&1 != 0, fi&2 != 0, fi&4 == 0
			var sys ptStruct
			sys.name = "Combos"
			n := 0
			for _, j := range []string{"", "jn", "-"} {
				for _, q := range []string{"", "col", "-"} {
					f := ptField{names: []string{fmt.Sprintf("C%d", n)}, typ: "int", rtyp: reflect.TypeOf(0)}
					if j != "" {
						f.tags = append(f.tags, ptTag{"json", j, ""})
					}
					if q != "" {
						f.tags = append(f.tags, ptTag{"sql", q, ""})
					}
					if n%2 == 1 && len(f.tags) == 2 {
						f.tags[0], f.tags[1] = f.tags[1], f.tags[0] // either order of the keys
					}
					f.hasLit = len(f.tags) > 0
					sys.fields = append(sys.fields, f)
					n++
				}
			}
			structs = append(structs, sys)
		}
		for k := 0; k < 1+c.rng.Intn(4); k++ {
			s := genPtStruct(c.rng, fmt.Sprintf("S%d", k))
			switch c.rng.Intn(8) {
			case 0:
				s.local = true
			case 1:
				s.anon = true
			}
			structs = append(structs, s)
			// an anonymous struct inside a field type: a struct of its own for the tool (the walk
			// must reach it whatever the state of the enclosing struct's tags)
			if c.rng.Chance(25) {
				in := genPtStruct(c.rng, fmt.Sprintf("S%dIn", k))
				for i := range in.fields {
					if len(in.fields[i].names) == 0 { // no embedding inside the nested struct
						in.fields[i].names = []string{fmt.Sprintf("E%d", i)}
						in.fields[i].embed = ""
					}
				}
				in.inner = true
				outer := &structs[len(structs)-1]
				fullyTagged := c.rng.Chance(50)
				if fullyTagged {
					// every field of the enclosing struct already carries a plenc tag
					for i := range outer.fields {
						f := &outer.fields[i]
						has := false
						for _, t := range f.tags {
							if t.key == "plenc" {
								has = true
							}
						}
						if !has || f.rawTag != "" {
							f.rawTag = ""
							f.hasLit = true
							f.tags = []ptTag{{"plenc", strconv.Itoa(50 + i), ""}}
						}
					}
				}
				hold := ptField{names: []string{"Nest"}, nested: &in, wrap: []string{"", "[]", "*", "map[string]"}[c.rng.Intn(4)], typ: "struct{}", rtyp: nil}
				if fullyTagged {
					hold.hasLit = true
					hold.tags = []ptTag{{"plenc", "49", ""}}
				}
				outer.fields = append(outer.fields, hold)
				outer.local = outer.local || false
				structs = append(structs, in)
			}
		}
		if fi < 8 {
			structs = structs[:1] // the systematic struct alone: an unparseable tag elsewhere in the file stops the tool
		}
		src := renderFile(structs)
		if _, err := format.Source([]byte(src)); err != nil {
			continue // the generator produced something unparseable: not a case
		}
		if err := typeCheck([]byte(src)); err != nil {
			continue // e.g. the same type embedded twice: not a valid input
		}
		path := filepath.Join(dir, fmt.Sprintf("f%d.go", fi))
		os.WriteFile(path, []byte(src), 0o644)
		args := []string{fmt.Sprintf("-json=%v", cfgJSON), fmt.Sprintf("-sql=%v", cfgSQL), fmt.Sprintf("-private=%v", cfgPriv), path}
		cmd := exec.Command(bin, args...)
		var stderr bytes.Buffer
		cmd.Stderr = &stderr
		done := make(chan error, 1)
		go func() { done <- cmd.Run() }()
		var runErr error
		select {
		case runErr = <-done:
		case <-time.After(20 * time.Second):
			cmd.Process.Kill()
			c.native = append(c.native, NativeViolation{Case: src, What: "plenctag did not terminate", Class: "plenctag-hang"})
			continue
		}
		desc := fmt.Sprintf("plenctag %v on:\n%s", args[:3], trunc(src, 1500))
		crashed := strings.Contains(stderr.String(), "panic:") || strings.Contains(stderr.String(), "goroutine ")
		if crashed {
			c.native = append(c.native, NativeViolation{Case: desc, What: "plenctag crashed: " + trunc(stderr.String(), 300), Class: "plenctag-crash"})
			continue
		}
		reported := runErr != nil
		outSrc, _ := os.ReadFile(path)
		// nothing but struct tags changes; the result is gofmt-formatted and parses
		outTags, err := parseStructTags(outSrc)
		if err != nil {
			c.native = append(c.native, NativeViolation{Case: desc, What: "output does not parse: " + err.Error(), Class: "plenctag-output-invalid"})
			continue
		}
		if !reported {
			if fm, err := format.Source(outSrc); err != nil || !bytes.Equal(fm, outSrc) {
				c.native = append(c.native, NativeViolation{Case: desc, What: "output is not gofmt-formatted", Class: "plenctag-not-gofmt"})
			}
			if err := typeCheck(outSrc); err != nil {
				c.native = append(c.native, NativeViolation{Case: desc, What: "output does not type-check: " + err.Error(), Class: "plenctag-not-compiling"})
			}
			// a second run changes nothing
			cmd2 := exec.Command(bin, args...)
			cmd2.Run()
			again, _ := os.ReadFile(path)
			if !bytes.Equal(again, outSrc) {
				c.native = append(c.native, NativeViolation{Case: desc, What: "a second run changed the file", Class: "plenctag-not-idempotent"})
			}
		} else if !bytes.Equal(outSrc, []byte(src)) {
			c.native = append(c.native, NativeViolation{Case: desc, What: "errors were reported but the file was modified", Class: "plenctag-partial-write"})
		}
		// per struct: compare with the model, and let plenc build a codec
		// structs appear in source order after the two helper structs
		if len(outTags) != len(structs)+2 {
			c.native = append(c.native, NativeViolation{Case: desc, What: "the number of structs changed", Class: "plenctag-structure"})
			continue
		}
		var allIns, allOuts []string
		structureOK := true
		for si, s := range structs {
			tags := outTags[si+2]
			if len(tags) != len(s.fields) {
				c.native = append(c.native, NativeViolation{Case: desc, What: "the number of fields changed", Class: "plenctag-structure"})
				structureOK = false
				continue
			}
			var ins, outs []string
			multi := false
			for fi2, f := range s.fields {
				ins = append(ins, f.coq())
				if len(f.names) > 1 {
					multi = true
				}
				if tags[fi2] == nil {
					outs = append(outs, "None")
					continue
				}
				ts, ok := splitTag(*tags[fi2])
				if !ok {
					outs = append(outs, "None") // unparsable literal: compared as such
					if s.fields[fi2].rawTag == "" {
						c.native = append(c.native, NativeViolation{Case: desc, What: "a tag that parsed before does not parse after: " + *tags[fi2], Class: "plenctag-tag-broken"})
					}
					continue
				}
				outs = append(outs, "(Some "+coqTags(ts)+")")
			}
			allIns = append(allIns, "["+strings.Join(ins, "; ")+"]")
			allOuts = append(allOuts, "["+strings.Join(outs, "; ")+"]")
			// plenc must accept the tagged struct (when nothing was in error and every field is taggable)
			hasNested := s.inner
			for _, f := range s.fields {
				if f.nested != nil {
					hasNested = true
				}
			}
			if !reported && !s.local && !hasNested {
				if err := plencAccepts(s, tags, cfgPriv); err != nil {
					class := "plenctag-result-rejected"
					if multi {
						class = "D19-multi-name-field"
					}
					c.native = append(c.native, NativeViolation{Case: desc, What: "plenc rejects the rewritten struct " + s.name + ": " + err.Error(), Class: class})
				}
			}
		}
		if structureOK {
			nf, nl := 0, 0
			for _, s := range structs {
				nf += len(s.fields)
				nl += countLit(s)
			}
			term := fmt.Sprintf("K20 (mkpcfg %v %v %v) [%s] [%s] %v", cfgJSON, cfgSQL, cfgPriv, strings.Join(allIns, "; "), strings.Join(allOuts, "; "), reported)
			c.add(term, trunc(desc, 1800), fmt.Sprintf("s%d/n%d/lit%d/err%v/j%vs%vp%v", len(structs), nf/3, nl/3, reported, cfgJSON, cfgSQL, cfgPriv), nf > 2)
			c.count(fmt.Sprintf("reported_error_%v", reported))
		}
	}
}

func countLit(s ptStruct) int {
	n := 0
	for _, f := range s.fields {
		if f.hasLit {
			n++
		}
	}
	return n
}

var tcFset = token.NewFileSet()
var tcImporter = importer.ForCompiler(tcFset, "source", nil)

func typeCheck(src []byte) error {
	fset := tcFset
	f, err := parser.ParseFile(fset, "x.go", src, 0)
	if err != nil {
		return err
	}
	conf := types.Config{Importer: tcImporter}
	_, err = conf.Check("sample", fset, []*ast.File{f}, nil)
	return err
}

// plencAccepts builds the struct with reflect from the rewritten tags and asks plenc for a codec.
func plencAccepts(s ptStruct, tags []*string, excludePrivate bool) error {
	var fields []reflect.StructField
	for i, f := range s.fields {
		tag := ""
		if tags[i] != nil {
			if u, err := strconv.Unquote(*tags[i]); err == nil {
				tag = u
			}
		}
		names := f.names
		if len(names) == 0 {
			return nil // embedded fields cannot be rebuilt with reflect here
		}
		for _, n := range names {
			r, _ := firstRune(n)
			if isLowerRune(r) {
				return nil // reflect cannot build unexported fields
			}
			rt := f.rtyp
			if strings.Contains(tag, "flat") && rt.Kind() != reflect.Int {
				return nil // an option the generator attached to a type that has no such codec
			}
			if strings.Contains(tag, "intern") && rt.Kind() != reflect.String {
				return nil
			}
			fields = append(fields, reflect.StructField{Name: n, Type: rt, Tag: reflect.StructTag(tag)})
		}
	}
	for _, f := range s.fields {
		for _, t := range f.tags {
			if t.key == "plenc" && t.name != "-" {
				if n, err := strconv.Atoi(t.name); err != nil || n < 0 {
					return nil // an existing tag plenc itself rejects: not plenctag's doing
				}
			}
			if t.key == "plenc" && t.name == "-" && t.opts != "" {
				return nil // "-,opt" is not the exclusion marker: plenc rejects the existing tag
			}
		}
	}
	var p plenc.Plenc
	p.RegisterDefaultCodecs()
	_, err := p.CodecForType(reflect.StructOf(fields))
	return err
}
