package main

import (
	"encoding/binary"
	"fmt"
	"reflect"
	"strings"
)

// An independent reader of the standard protobuf wire format (wire types 0, 1,
// 2 and 5 only), used to check proto-compatible output. It knows nothing of
// plenc's code: it follows the Go type to know what each field must look like.

type pbErr struct{ msg string }

func (e *pbErr) Error() string { return e.msg }

func pbVarint(b []byte) (uint64, int) {
	v, n := binary.Uvarint(b)
	return v, n
}

func pbIndexes(t reflect.Type) map[int]reflect.StructField {
	m := map[int]reflect.StructField{}
	for i := 0; i < t.NumField(); i++ {
		sf := t.Field(i)
		if skipped(sf) {
			continue
		}
		var idx int
		fmt.Sscanf(sf.Tag.Get("plenc"), "%d", &idx)
		m[idx] = sf
	}
	return m
}

// pbMessage checks that data is a well-formed protobuf message for struct type t.
func pbMessage(t reflect.Type, data []byte, protoTime bool) error {
	fields := pbIndexes(t)
	for len(data) > 0 {
		tag, n := pbVarint(data)
		if n <= 0 {
			return &pbErr{"bad tag varint"}
		}
		data = data[n:]
		wt, idx := int(tag&7), int(tag>>3)
		var payload []byte
		switch wt {
		case 0:
			_, n := pbVarint(data)
			if n <= 0 {
				return &pbErr{"bad varint value"}
			}
			payload, data = data[:n], data[n:]
		case 1:
			if len(data) < 8 {
				return &pbErr{"short fixed64"}
			}
			payload, data = data[:8], data[8:]
		case 5:
			if len(data) < 4 {
				return &pbErr{"short fixed32"}
			}
			payload, data = data[:4], data[4:]
		case 2:
			l, n := pbVarint(data)
			if n <= 0 || l > uint64(len(data)-n) {
				return &pbErr{fmt.Sprintf("length %d of field %d exceeds the message", l, idx)}
			}
			payload, data = data[n:n+int(l)], data[n+int(l):]
		default:
			return &pbErr{fmt.Sprintf("wire type %d (field %d) is not protobuf", wt, idx)}
		}
		sf, ok := fields[idx]
		if !ok {
			return &pbErr{fmt.Sprintf("field %d is not in %s", idx, t)}
		}
		if err := pbField(sf.Type, wt, payload, protoTime, strings.HasSuffix(sf.Tag.Get("plenc"), ",flat")); err != nil {
			return &pbErr{fmt.Sprintf("field %d (%s): %v", idx, sf.Name, err)}
		}
	}
	return nil
}

func pbField(t reflect.Type, wt int, payload []byte, protoTime, flat bool) error {
	for t.Kind() == reflect.Ptr {
		t = t.Elem()
	}
	want := func(w int) error {
		if wt != w {
			return &pbErr{fmt.Sprintf("wire type %d, want %d for %s", wt, w, t)}
		}
		return nil
	}
	switch {
	case t == tTime:
		if err := want(2); err != nil {
			return err
		}
		// Timestamp{seconds = 1, nanos = 2}, plain varints
		for len(payload) > 0 {
			tag, n := pbVarint(payload)
			if n <= 0 || tag&7 != 0 || (tag>>3 != 1 && tag>>3 != 2) {
				return &pbErr{"timestamp field is not seconds=1/nanos=2 varint"}
			}
			payload = payload[n:]
			v, n := pbVarint(payload)
			if n <= 0 {
				return &pbErr{"bad timestamp varint"}
			}
			if tag>>3 == 2 && v >= 1000000000 && protoTime {
				return &pbErr{fmt.Sprintf("nanos %d out of range", v)}
			}
			payload = payload[n:]
		}
		return nil
	case t == tBytes || t.Kind() == reflect.String:
		return want(2)
	}
	switch t.Kind() {
	case reflect.Bool, reflect.Int, reflect.Int8, reflect.Int16, reflect.Int32, reflect.Int64,
		reflect.Uint, reflect.Uint8, reflect.Uint16, reflect.Uint32, reflect.Uint64:
		return want(0)
	case reflect.Float64:
		return want(1)
	case reflect.Float32:
		return want(5)
	case reflect.Struct:
		if err := want(2); err != nil {
			return err
		}
		return pbMessage(t, payload, protoTime)
	case reflect.Slice:
		e := t.Elem()
		switch wireClass(e, true) {
		case 0: // packed varints
			if err := want(2); err != nil {
				return err
			}
			for len(payload) > 0 {
				_, n := pbVarint(payload)
				if n <= 0 {
					return &pbErr{"bad packed varint"}
				}
				payload = payload[n:]
			}
			return nil
		case 1: // packed fixed
			if err := want(2); err != nil {
				return err
			}
			w := 8
			if e.Kind() == reflect.Float32 {
				w = 4
			}
			if len(payload)%w != 0 {
				return &pbErr{"packed fixed length not a multiple of the width"}
			}
			return nil
		default: // repeated length-delimited: this payload is ONE element
			return pbField(e, wt, payload, protoTime, false)
		}
	case reflect.Map:
		// repeated entry {key = 1, value = 2}
		if err := want(2); err != nil {
			return err
		}
		entry := reflect.StructOf([]reflect.StructField{
			{Name: "Key", Type: t.Key(), Tag: `plenc:"1"`},
			{Name: "Value", Type: t.Elem(), Tag: `plenc:"2"`},
		})
		return pbMessage(entry, payload, protoTime)
	}
	return &pbErr{"unsupported type " + t.String()}
}

// protoStruct generates a struct type that is entirely protobuf-expressible
// under ProtoCompatibleArrays+Time: maps are tagged proto, no nested repeated fields.
func (g *TypeGen) protoStruct(depth int) reflect.Type {
	n := 1 + g.r.Intn(5)
	var fields []reflect.StructField
	used := map[int]bool{}
	for i := 0; i < n; i++ {
		var ft reflect.Type
		opt := ""
		switch g.r.Intn(8) {
		case 0:
			if depth > 0 {
				ft = g.protoStruct(depth - 1)
			} else {
				ft = g.protoScalar()
			}
		case 1:
			ft = reflect.SliceOf(g.protoScalar())
			if ft.Elem() == tTime || wireClass(ft.Elem(), true) == 2 {
				// repeated length-delimited
			}
		case 2:
			if depth > 0 {
				ft = reflect.SliceOf(g.protoStruct(depth - 1))
			} else {
				ft = reflect.SliceOf(reflect.TypeOf(""))
			}
		case 3:
			k := []reflect.Type{reflect.TypeOf(""), reflect.TypeOf(0), reflect.TypeOf(int32(0)), reflect.TypeOf(uint64(0)), reflect.TypeOf(false)}[g.r.Intn(5)]
			if g.r.Chance(20) {
				// not protobuf's idea of a key, but plenc's proto map form takes message keys too:
				// key fields that are zero are omitted, so successive keys exercise the key scratch
				k = reflect.TypeOf(KeyS{})
				if g.r.Bool() {
					k = reflect.PointerTo(k)
				}
			}
			var v reflect.Type
			if depth > 0 && g.r.Bool() {
				v = g.protoStruct(depth - 1)
			} else {
				v = g.protoScalar()
			}
			ft = reflect.MapOf(k, v)
			opt = ",proto"
		case 4:
			ft = reflect.PointerTo(g.protoScalar())
			// a pointer in front of a repeated field or a message: the elements still accumulate in one slice
			switch g.r.Intn(4) {
			case 0:
				ft = reflect.PointerTo(reflect.SliceOf(g.protoScalar()))
			case 1:
				if depth > 0 {
					ft = reflect.PointerTo(reflect.SliceOf(g.protoStruct(depth - 1)))
				} else {
					ft = reflect.PointerTo(reflect.SliceOf(reflect.TypeOf("")))
				}
			}
		default:
			ft = g.protoScalar()
		}
		idx := g.index(used)
		tag := fmt.Sprintf(`plenc:"%d%s"`, idx, opt)
		if opt == "" && isSignedInt(ft) && g.r.Chance(30) {
			tag = fmt.Sprintf(`plenc:"%d,flat"`, idx)
		}
		fields = append(fields, reflect.StructField{Name: fmt.Sprintf("F%d", i), Type: ft, Tag: reflect.StructTag(tag)})
	}
	return reflect.StructOf(fields)
}

func (g *TypeGen) protoScalar() reflect.Type {
	for {
		t := scalarTypes[g.r.Intn(len(scalarTypes))]
		return t
	}
}

func runC12(c *Ctx) {
	coreHeader(c, 0)
	vg := &ValGen{r: c.rng}
	n := scale(c, 300, 8000)
	full := Cfg{ProtoTime: true, ProtoArrays: true}
	for i := 0; i < n; i++ {
		g := &TypeGen{r: c.rng, proto: true}
		t := g.protoStruct(2)
		// all four option combinations on the same type and values
		tcs := map[string]*TypeCase{}
		for _, cfg := range protoCfgs {
			tcs[cfg.String()] = newTypeCase(t, cfg)
		}
		for j := 0; j < 2; j++ {
			v := vg.Value(t, 3)
			for _, cfg := range protoCfgs {
				c.addRT(tcs[cfg.String()], v, "proto")
			}
			// well-formed standard protobuf, checked by the independent reader
			tc := tcs[full.String()]
			data, err := tc.P.Marshal(nil, v.Addr().Interface())
			desc := fmt.Sprintf("proto type=%s value=%s data=%x", t, trunc(fmt.Sprintf("%+v", v.Interface()), 200), data)
			if err != nil {
				continue
			}
			if err := pbMessage(t, data, true); err != nil {
				c.native = append(c.native, NativeViolation{Case: desc, What: "not well-formed protobuf: " + err.Error(), Class: "proto-malformed"})
			}
			c.count("pb_checked")
			// a default-mode instance reads the repeated-field form of slices to the same value
			// (time and proto-tagged maps are encoded alike in both when ProtoTime is the same)
			arr := tcs[Cfg{ProtoArrays: true}.String()]
			def := tcs[Cfg{}.String()]
			d2, err := arr.P.Marshal(nil, v.Addr().Interface())
			if err == nil {
				c.addDec(def, d2, reflect.Zero(t), "default-reads-repeated", "cross/"+shapeClass(t, 2), len(d2) > 0)
				want := reflect.New(t)
				got := reflect.New(t)
				e1 := arr.P.Unmarshal(d2, want.Interface())
				e2 := def.P.Unmarshal(d2, got.Interface())
				if e1 != nil || e2 != nil || coqVal(want.Elem()) != coqVal(got.Elem()) {
					c.native = append(c.native, NativeViolation{Case: desc, What: fmt.Sprintf("default mode reads the repeated-field form differently: %v %v", e1, e2), Class: "proto-cross-read"})
				}
			}
		}
	}
}
