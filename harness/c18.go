package main

import (
	"fmt"
	"time"

	"github.com/philpearl/plenc/plenccore"
)

// boundaryU64 returns every value around every varint byte-length boundary and
// every bit-length boundary.
func boundaryU64() []uint64 {
	var out []uint64
	seen := map[uint64]bool{}
	add := func(v uint64) {
		if !seen[v] {
			seen[v] = true
			out = append(out, v)
		}
	}
	add(0)
	for b := 0; b < 64; b++ {
		p := uint64(1) << uint(b)
		for d := -2; d <= 2; d++ {
			add(p + uint64(d))
		}
	}
	add(^uint64(0))
	add(^uint64(0) - 1)
	add(^uint64(0) >> 1)
	add((^uint64(0) >> 1) + 1)
	return out
}

// skipOutcome runs Skip under a watchdog: a call that does not return within
// ten seconds is recorded as a hang (its goroutine is abandoned).
func skipOutcome(data []byte, wt plenccore.WireType) string {
	done := make(chan string, 1)
	go func() {
		defer func() {
			if r := recover(); r != nil {
				done <- "SPanic"
			}
		}()
		n, err := plenccore.Skip(data, wt)
		switch {
		case err != nil:
			done <- "SErr"
		case n < 0:
			done <- fmt.Sprintf("(SNeg %s)", coqZ(int64(n)))
		default:
			done <- fmt.Sprintf("(SOk %d)", n)
		}
	}()
	select {
	case s := <-done:
		return s
	case <-time.After(10 * time.Second):
		return "SHang"
	}
}

func runC18(c *Ctx) {
	c.header = "From Plenc Require Import Base Varint Wire Corr18.\nOpen Scope N_scope.\n"
	c.mismatch = "mismatches_C18"
	c.casetype = "c18case"
	r := c.rng
	junk := []byte{0xff, 0x01, 0x80}

	// a primitive that panics is reported with its input rather than taking the harness down
	guard := func(desc string) func() {
		c.crumb(desc)
		return func() {
			if r := recover(); r != nil {
				c.native = append(c.native, NativeViolation{Case: desc, What: fmt.Sprint("panicked: ", r), Class: "primitive-panics"})
			}
		}
	}
	varuint := func(v uint64) {
		defer guard(fmt.Sprintf("varuint %d", v))()
		bs := plenccore.AppendVarUint(nil, v)
		sz := plenccore.SizeVarUint(v)
		rv, rn := plenccore.ReadVarUint(append(append([]byte{}, bs...), junk...))
		c.add(fmt.Sprintf("KVarUint %d %s %d %s %d %s", v, coqBytes(bs), sz, coqBytes(junk), rv, coqZ(int64(rn))),
			fmt.Sprintf("varuint %d", v), fmt.Sprintf("varuint/len%d", len(bs)), v >= 128)
		c.count(fmt.Sprintf("varuint_len_%d", len(bs)))
	}
	// Append into a buffer that already holds bytes, with every amount of spare capacity around the
	// longest encoding: the prefix is kept and the appended bytes are those of Append(nil, v)
	appendInto := func(v uint64) {
		want := plenccore.AppendVarUint(nil, v)
		for spare := 0; spare <= 12; spare++ {
			for _, pre := range []int{0, 1, 3} {
				desc := fmt.Sprintf("AppendVarUint into len=%d cap=%d value=%d", pre, pre+spare, v)
				func() {
					defer guard(desc)()
					buf := make([]byte, pre, pre+spare)
					for i := range buf {
						buf[i] = byte(0xA0 + i)
					}
					got := plenccore.AppendVarUint(buf, v)
					ok := len(got) == pre+len(want) && string(got[pre:]) == string(want)
					for i := 0; i < pre && ok; i++ {
						ok = got[i] == byte(0xA0+i)
					}
					if !ok {
						c.native = append(c.native, NativeViolation{Case: desc, What: fmt.Sprintf("gives %x, want the prefix followed by %x", got, want), Class: "append-into-buffer"})
					}
					iv := int64(v)
					gi := plenccore.AppendVarInt(buf[:pre], iv)
					if wi := plenccore.AppendVarInt(nil, iv); len(gi) != pre+len(wi) || string(gi[pre:]) != string(wi) {
						c.native = append(c.native, NativeViolation{Case: "AppendVarInt " + desc, What: fmt.Sprintf("gives %x, want the prefix followed by %x", gi, wi), Class: "append-into-buffer"})
					}
					gt := plenccore.AppendTag(buf[:pre], plenccore.WTLength, int(v>>4))
					if wtg := plenccore.AppendTag(nil, plenccore.WTLength, int(v>>4)); len(gt) != pre+len(wtg) || string(gt[pre:]) != string(wtg) {
						c.native = append(c.native, NativeViolation{Case: "AppendTag " + desc, What: fmt.Sprintf("gives %x, want the prefix followed by %x", gt, wtg), Class: "append-into-buffer"})
					}
				}()
				c.count("append_into_buffer")
			}
		}
	}
	for _, v := range []uint64{0, 1, 127, 128, 16383, 16384, 1<<35 - 1, 1 << 35, 1<<56 - 1, 1 << 56, 1<<63 - 1, 1 << 63, 1<<63 + 1, ^uint64(0)} {
		appendInto(v)
	}
	varint := func(v int64) {
		defer guard(fmt.Sprintf("varint %d", v))()
		u := plenccore.ZigZag(v)
		bs := plenccore.AppendVarInt(nil, v)
		sz := plenccore.SizeVarInt(v)
		rv, rn := plenccore.ReadVarInt(append(append([]byte{}, bs...), junk...))
		c.add(fmt.Sprintf("KVarInt %s %d %s %d %s %s %s", coqZ(v), u, coqBytes(bs), sz, coqBytes(junk), coqZ(rv), coqZ(int64(rn))),
			fmt.Sprintf("varint %d", v), fmt.Sprintf("varint/len%d/neg%v", len(bs), v < 0), v != 0)
		c.count(fmt.Sprintf("varint_len_%d", len(bs)))
	}
	zag := func(u uint64) {
		v := plenccore.ZagZig(u)
		c.add(fmt.Sprintf("KZag %d %s", u, coqZ(v)), fmt.Sprintf("zagzig %d", u), fmt.Sprintf("zag/odd%v", u&1 == 1), u > 1)
		c.count("zagzig")
	}
	tag := func(wt plenccore.WireType, idx int) {
		defer guard(fmt.Sprintf("tag wt=%d idx=%d", wt, idx))()
		bs := plenccore.AppendTag(nil, wt, idx)
		sz := plenccore.SizeTag(wt, idx)
		rwt, ridx, rn := plenccore.ReadTag(append(append([]byte{}, bs...), junk...))
		c.add(fmt.Sprintf("KTag %d %s %s %d %s %d %s %s", wt, coqZ(int64(idx)), coqBytes(bs), sz, coqBytes(junk), rwt, coqZ(int64(ridx)), coqZ(int64(rn))),
			fmt.Sprintf("tag wt=%d idx=%d", wt, idx), fmt.Sprintf("tag/wt%d/len%d", wt, len(bs)), idx > 0)
		c.count(fmt.Sprintf("tag_wt_%d", wt))
	}
	readraw := func(bs []byte) {
		defer guard(fmt.Sprintf("ReadVarUint %x", bs))()
		rv, rn := plenccore.ReadVarUint(bs)
		c.add(fmt.Sprintf("KReadRaw %s %d %s", coqBytes(bs), rv, coqZ(int64(rn))),
			fmt.Sprintf("readraw %x", bs), fmt.Sprintf("readraw/n%d", rn), len(bs) > 1)
		c.count(fmt.Sprintf("readraw_n_%d", rn))
	}
	hangs := 0
	skip := func(bs []byte, wt plenccore.WireType) {
		if hangs >= 3 {
			// each abandoned call keeps a core busy: three hangs are evidence enough
			return
		}
		o := skipOutcome(bs, wt)
		if o == "SHang" {
			hangs++
		}
		c.add(fmt.Sprintf("KSkip %s %d %s", coqBytes(bs), wt, o),
			fmt.Sprintf("skip wt=%d %x", wt, bs), fmt.Sprintf("skip/wt%d/%.4s/len%d", wt, o, min(len(bs), 12)), len(bs) > 0)
		c.count(fmt.Sprintf("skip_wt_%d_%.5s", wt, o))
	}

	// every boundary, exhaustively
	bnd := boundaryU64()
	for _, v := range bnd {
		varuint(v)
		varint(int64(v))
		varint(-int64(v))
		zag(v)
	}
	// tags: all six wire codes (incl. the deprecated 4 and 6,7), index boundaries
	for wt := 0; wt < 8; wt++ {
		for _, idx := range []int{0, 1, 2, 15, 16, 17, 2047, 2048, 1<<21 - 1, 1 << 21, 1<<28 - 1, 1 << 28, 1<<28 + 1, 1<<35 - 1, 1 << 35, 1<<60 - 1, 1 << 60, 1<<61 - 1} {
			tag(plenccore.WireType(wt), idx)
		}
	}
	nrand := 600
	if c.Tier == "thorough" {
		nrand = 20000
	}
	for i := 0; i < nrand; i++ {
		v := r.U64() >> uint(r.Intn(64))
		varuint(v)
		varint(int64(r.U64()) >> uint(r.Intn(64)))
		zag(r.U64() >> uint(r.Intn(64)))
		tag(plenccore.WireType(r.Intn(6)), r.Intn(1<<28))
	}

	// raw varint reads: all strings up to length 2 over a boundary alphabet,
	// 9/10/11-byte continuations, random
	alpha := []byte{0x00, 0x01, 0x02, 0x7f, 0x80, 0x81, 0xff}
	var rec func(prefix []byte, depth int)
	maxd := 3
	if c.Tier == "thorough" {
		maxd = 4
	}
	rec = func(prefix []byte, depth int) {
		readraw(prefix)
		for wt := 0; wt < 7; wt++ {
			skip(prefix, plenccore.WireType(wt))
		}
		if depth == maxd {
			return
		}
		for _, a := range alpha {
			rec(append(append([]byte{}, prefix...), a), depth+1)
		}
	}
	rec(nil, 0)
	for n := 8; n <= 12; n++ {
		for _, last := range []byte{0x00, 0x01, 0x02, 0x7f, 0x80} {
			b := make([]byte, n)
			for i := range b {
				b[i] = 0x80 | byte(r.Intn(128))
			}
			b[n-1] = last
			readraw(b)
			skip(b, plenccore.WTVarInt)
			skip(append(b, 1, 2, 3), plenccore.WTLength)
			skip(append(b, 1, 2, 3), plenccore.WTSlice)
		}
	}
	// lengths and counts around 2^63 / 2^64 (the conversion to int wraps)
	for _, hv := range []uint64{1<<63 - 2, 1<<63 - 1, 1 << 63, 1<<63 + 1, ^uint64(0) - 9, ^uint64(0) - 1, ^uint64(0), 1 << 62, 1<<32 - 1, 1 << 32} {
		h := plenccore.AppendVarUint(nil, hv)
		for _, tail := range [][]byte{nil, {1}, {1, 2, 3}, {0x80}, h} {
			skip(append(append([]byte{}, h...), tail...), plenccore.WTLength)
			skip(append(append([]byte{}, h...), tail...), plenccore.WTSlice)
			skip(append(append([]byte{0x01}, h...), tail...), plenccore.WTSlice)             // count 1, huge entry length
			skip(append(append([]byte{0x02, 0x01, 0x07}, h...), tail...), plenccore.WTSlice) // count 2, second entry huge
			skip(append(append(append([]byte{}, h...), h...), tail...), plenccore.WTSlice)   // huge count, huge entry length
		}
	}
	// structured skip inputs: well-formed fields of every wire type followed by junk, and truncations
	nskip := 300
	if c.Tier == "thorough" {
		nskip = 8000
	}
	for i := 0; i < nskip; i++ {
		var b []byte
		wt := plenccore.WireType([]int{0, 1, 2, 3, 5}[r.Intn(5)])
		switch wt {
		case plenccore.WTVarInt:
			b = plenccore.AppendVarUint(nil, r.U64()>>uint(r.Intn(64)))
		case plenccore.WT64:
			b = randBytes(r, 8)
		case plenccore.WT32:
			b = randBytes(r, 4)
		case plenccore.WTLength:
			body := randBytes(r, r.Intn(200))
			b = append(plenccore.AppendVarUint(nil, uint64(len(body))), body...)
		case plenccore.WTSlice:
			cnt := r.Intn(6)
			b = plenccore.AppendVarUint(nil, uint64(cnt))
			for j := 0; j < cnt; j++ {
				body := randBytes(r, r.Intn(140))
				b = append(plenccore.AppendVarUint(b, uint64(len(body))), body...)
			}
		}
		full := append(append([]byte{}, b...), randBytes(r, r.Intn(4))...)
		skip(full, wt)
		if len(b) > 0 {
			skip(b[:r.Intn(len(b))], wt) // truncated
			m := append([]byte{}, full...)
			m[r.Intn(len(m))] ^= byte(1 << uint(r.Intn(8))) // mutated
			skip(m, wt)
		}
		// inflated lengths/counts
		if wt == plenccore.WTLength || wt == plenccore.WTSlice {
			h := plenccore.AppendVarUint(nil, r.U64()>>uint(r.Intn(40)))
			skip(append(h, b...), wt)
		}
	}
}

func randBytes(r *RNG, n int) []byte {
	b := make([]byte, n)
	for i := range b {
		switch r.Intn(4) {
		case 0:
			b[i] = []byte{0, 1, 0x7f, 0x80, 0xff}[r.Intn(5)]
		default:
			b[i] = byte(r.U64())
		}
	}
	return b
}

func min(a, b int) int {
	if a < b {
		return a
	}
	return b
}
