package main

import (
	"bytes"
	"encoding/json"
	"fmt"
	"math"
	"strconv"
	"strings"
	"time"
	"unicode/utf8"

	"github.com/philpearl/plenc/plenccodec"
)

// call trees for the JSON outputter
type jnode struct {
	kind  string // int, uint, f64, f32, str, bool, time, raw, arr, obj
	i     int64
	u     uint64
	f     float64
	f32   float32
	s     string
	b     bool
	t     time.Time
	kids  []*jnode
	names []string
}

func (n *jnode) emit(o plenccodec.Outputter) {
	switch n.kind {
	case "int":
		o.Int64(n.i)
	case "uint":
		o.Uint64(n.u)
	case "f64":
		o.Float64(n.f)
	case "f32":
		o.Float32(n.f32)
	case "str":
		o.String(n.s)
	case "bool":
		o.Bool(n.b)
	case "time":
		o.Time(n.t)
	case "raw":
		o.Raw(n.s)
	case "arr":
		o.StartArray()
		for _, k := range n.kids {
			k.emit(o)
		}
		o.EndArray()
	case "obj":
		o.StartObject()
		for i, k := range n.kids {
			o.NameField(n.names[i])
			k.emit(o)
		}
		o.EndObject()
	}
}

// token: what the real outputter writes for a scalar on its own
func (n *jnode) token() []byte {
	var o plenccodec.JSONOutput
	n.emit(&o)
	d := o.Done()
	return append([]byte{}, d[:len(d)-1]...)
}

func (n *jnode) coqTree() string {
	switch n.kind {
	case "str":
		return fmt.Sprintf("(TScalar (SStr %s))", coqBytes([]byte(n.s)))
	case "arr":
		var parts []string
		for _, k := range n.kids {
			parts = append(parts, k.coqTree())
		}
		return fmt.Sprintf("(TArr [%s])", strings.Join(parts, "; "))
	case "obj":
		var parts []string
		for i, k := range n.kids {
			parts = append(parts, fmt.Sprintf("(%s, %s)", coqBytes([]byte(n.names[i])), k.coqTree()))
		}
		return fmt.Sprintf("(TObj [%s])", strings.Join(parts, "; "))
	}
	return fmt.Sprintf("(TScalar (STok %s))", coqBytes(n.token()))
}

func (n *jnode) coqOps(out *[]string) {
	switch n.kind {
	case "arr":
		*out = append(*out, "OStartArray")
		for _, k := range n.kids {
			k.coqOps(out)
		}
		*out = append(*out, "OEndArray")
	case "obj":
		*out = append(*out, "OStartObject")
		for i, k := range n.kids {
			*out = append(*out, fmt.Sprintf("ONameField %s", coqBytes([]byte(n.names[i]))))
			k.coqOps(out)
		}
		*out = append(*out, "OEndObject")
	case "str":
		*out = append(*out, fmt.Sprintf("OScalar (SStr %s)", coqBytes([]byte(n.s))))
	default:
		*out = append(*out, fmt.Sprintf("OScalar (STok %s)", coqBytes(n.token())))
	}
}

// expected JSON data-model image (strings after the decoder's replacement of invalid UTF-8)
func jsonString(s string) string {
	if utf8.ValidString(s) {
		return s
	}
	var b strings.Builder
	for _, r := range s { // invalid bytes come out as U+FFFD, one per byte
		b.WriteRune(r)
	}
	return b.String()
}

func (n *jnode) expect() any {
	switch n.kind {
	case "int":
		return json.Number(strconv.FormatInt(n.i, 10))
	case "uint":
		return json.Number(strconv.FormatUint(n.u, 10))
	case "f64":
		return n.f
	case "f32":
		return float64(n.f32)
	case "str":
		return jsonString(n.s)
	case "bool":
		return n.b
	case "time":
		return n.t.Format(time.RFC3339Nano)
	case "raw":
		var v any
		d := json.NewDecoder(strings.NewReader(n.s))
		d.UseNumber()
		d.Decode(&v)
		return v
	case "arr":
		a := make([]any, len(n.kids))
		for i, k := range n.kids {
			a[i] = k.expect()
		}
		return a
	}
	m := map[string]any{}
	for i, k := range n.kids {
		m[jsonString(n.names[i])] = k.expect() // later duplicates win, as in the decoder
	}
	return m
}

func sameJSON(a, b any) bool {
	switch x := a.(type) {
	case json.Number:
		switch y := b.(type) {
		case json.Number:
			return x == y
		case float64:
			f, err := x.Float64()
			return err == nil && f == y
		}
		return false
	case float64:
		if y, ok := b.(json.Number); ok {
			f, err := y.Float64()
			return err == nil && f == x
		}
		y, ok := b.(float64)
		return ok && x == y
	case []any:
		y, ok := b.([]any)
		if !ok || len(x) != len(y) {
			return false
		}
		for i := range x {
			if !sameJSON(x[i], y[i]) {
				return false
			}
		}
		return true
	case map[string]any:
		y, ok := b.(map[string]any)
		if !ok || len(x) != len(y) {
			return false
		}
		for k, v := range x {
			w, ok := y[k]
			if !ok || !sameJSON(v, w) {
				return false
			}
		}
		return true
	}
	return a == b
}

func genJNode(r *RNG, vg *ValGen, depth int) *jnode {
	n := 10
	if depth <= 0 {
		n = 8
	}
	switch r.Intn(n) {
	case 0:
		return &jnode{kind: "int", i: vg.i64()}
	case 1:
		return &jnode{kind: "uint", u: vg.u64()}
	case 2:
		for {
			f := math.Float64frombits(vg.f64bits())
			if !math.IsNaN(f) && !math.IsInf(f, 0) {
				return &jnode{kind: "f64", f: f}
			}
		}
	case 3:
		for {
			f := math.Float32frombits(specialF32[r.Intn(len(specialF32))] ^ uint32(r.Intn(2)*int(r.U64()&0xffff)))
			if f == f && !math.IsInf(float64(f), 0) {
				return &jnode{kind: "f32", f32: f}
			}
		}
	case 4:
		return &jnode{kind: "str", s: genJString(r, vg)}
	case 5:
		return &jnode{kind: "bool", b: r.Bool()}
	case 6:
		t := vg.timeVal().UTC()
		if r.Chance(10) {
			// years outside 0..9999 still print (time.AppendFormat has no range check)
			t = time.Date([]int{10000, 12345, -1, -9999, 99999}[r.Intn(5)], 3, 4, 5, 6, 7, 8, time.UTC)
		} else if t.Year() < 1 || t.Year() > 9999 {
			t = time.Unix(1600000000, 5).UTC()
		}
		return &jnode{kind: "time", t: t}
	case 7:
		return &jnode{kind: "raw", s: []string{"null", "1e5", "123456789012345678901234567890", "-0", "true"}[r.Intn(5)]}
	case 8:
		k := r.Intn(4)
		a := &jnode{kind: "arr"}
		for i := 0; i < k; i++ {
			a.kids = append(a.kids, genJNode(r, vg, depth-1))
		}
		return a
	}
	k := r.Intn(4)
	o := &jnode{kind: "obj"}
	for i := 0; i < k; i++ {
		o.kids = append(o.kids, genJNode(r, vg, depth-1))
		o.names = append(o.names, genJString(r, vg))
	}
	return o
}

func genJString(r *RNG, vg *ValGen) string {
	switch r.Intn(6) {
	case 0:
		// every byte value
		b := make([]byte, 1+r.Intn(5))
		for i := range b {
			b[i] = byte(r.U64())
		}
		return string(b)
	case 1:
		return []string{"\"", "\\", "\n", "\r", "\t", "\x00", "\x1f", " ", " ", "a\"b\\c", "\x7f", "/", "<>&"}[r.Intn(13)]
	case 2:
		return ""
	}
	return vg.str()
}

func runC15(c *Ctx) {
	c.header = "From Plenc Require Import Base Output Corr15.\nOpen Scope N_scope.\n"
	c.mismatch = "mismatches_C15"
	c.casetype = "c15case"
	vg := &ValGen{r: c.rng}
	n := scale(c, 1500, 40000)
	var reuse plenccodec.JSONOutput // one outputter re-used across cases through Reset
	for i := 0; i < n; i++ {
		t := genJNode(c.rng, vg, 1+c.rng.Intn(4))
		var out []byte
		useReset := c.rng.Chance(40)
		if useReset {
			reuse.Reset()
			t.emit(&reuse)
			out = append([]byte{}, reuse.Done()...)
		} else {
			var o plenccodec.JSONOutput
			t.emit(&o)
			out = o.Done()
		}
		desc := fmt.Sprintf("tree %s -> %q", trunc(t.coqTree(), 300), trunc(string(out), 200))
		// the property itself: valid JSON whose parse equals the call tree
		dec := json.NewDecoder(bytes.NewReader(out))
		dec.UseNumber()
		var parsed any
		if err := dec.Decode(&parsed); err != nil {
			c.native = append(c.native, NativeViolation{Case: desc, What: "output is not valid JSON: " + err.Error(), Class: "invalid-json"})
		} else if !sameJSON(t.expect(), parsed) {
			c.native = append(c.native, NativeViolation{Case: desc, What: fmt.Sprintf("parse differs from the call tree: %v vs %v", parsed, t.expect()), Class: "wrong-json"})
		}
		if c.rng.Chance(50) {
			c.add(fmt.Sprintf("K15Tree %s %s", t.coqTree(), coqBytes(out)), desc, fmt.Sprintf("tree/%s/d%d/reset%v", t.kind, jdepth(t), useReset), t.kind == "arr" || t.kind == "obj")
		} else {
			var ops []string
			t.coqOps(&ops)
			c.add(fmt.Sprintf("K15Ops [%s] %s", strings.Join(ops, "; "), coqBytes(out)), desc, fmt.Sprintf("ops/%s/d%d/reset%v", t.kind, jdepth(t), useReset), t.kind == "arr" || t.kind == "obj")
		}
		c.count("root_" + t.kind)
		c.count(fmt.Sprintf("reset_%v", useReset))
	}
	// deep nesting: chains of containers well beyond any fixed-size bookkeeping (bit sets, small
	// arrays), with a member / element AFTER the deep child at every level so that every enclosing
	// container's state is needed again on the way out
	for _, depth := range []int{9, 15, 16, 17, 31, 32, 33, 34, 63, 64, 65, 66, 100, 129, 200} {
		for variant := 0; variant < 3; variant++ {
			var t *jnode = &jnode{kind: "int", i: int64(depth)}
			for l := 0; l < depth; l++ {
				asObj := variant == 0 || (variant == 2 && l%2 == 0)
				if asObj {
					t = &jnode{kind: "obj", kids: []*jnode{{kind: "bool", b: true}, t, {kind: "str", s: "after"}}, names: []string{"b", "child", "z"}}
				} else {
					t = &jnode{kind: "arr", kids: []*jnode{t, {kind: "int", i: int64(l)}}}
				}
			}
			var o plenccodec.JSONOutput
			t.emit(&o)
			out := o.Done()
			desc := fmt.Sprintf("deep nesting depth=%d variant=%d -> %q", depth, variant, trunc(string(out), 80))
			dec := json.NewDecoder(bytes.NewReader(out))
			dec.UseNumber()
			var parsed any
			if err := dec.Decode(&parsed); err != nil {
				c.native = append(c.native, NativeViolation{Case: desc, What: "output is not valid JSON: " + err.Error(), Class: "invalid-json"})
			} else if !sameJSON(t.expect(), parsed) {
				c.native = append(c.native, NativeViolation{Case: desc, What: "parse differs from the call tree", Class: "wrong-json"})
			}
			if depth <= 9 {
				c.add(fmt.Sprintf("K15Tree %s %s", t.coqTree(), coqBytes(out)), desc, fmt.Sprintf("deep/%d/%d", depth, variant), true)
			}
			c.count("deep_nesting")
		}
	}
	// every byte value as a string and as a member name
	for b := 0; b < 256; b++ {
		ch := string([]byte{byte(b)})
		for _, t := range []*jnode{{kind: "str", s: ch}, {kind: "obj", kids: []*jnode{{kind: "str", s: "x" + ch + ch}}, names: []string{ch + "n"}}} {
			var o plenccodec.JSONOutput
			t.emit(&o)
			out := o.Done()
			desc := fmt.Sprintf("byte sweep 0x%02x -> %q", b, trunc(string(out), 120))
			dec := json.NewDecoder(bytes.NewReader(out))
			dec.UseNumber()
			var parsed any
			if err := dec.Decode(&parsed); err != nil {
				c.native = append(c.native, NativeViolation{Case: desc, What: "output is not valid JSON: " + err.Error(), Class: "invalid-json"})
			} else if !sameJSON(t.expect(), parsed) {
				c.native = append(c.native, NativeViolation{Case: desc, What: fmt.Sprintf("parse differs from the call tree: %v vs %v", parsed, t.expect()), Class: "wrong-json"})
			}
			c.add(fmt.Sprintf("K15Tree %s %s", t.coqTree(), coqBytes(out)), desc, "byte-sweep/"+t.kind, true)
			c.count("byte_sweep")
		}
	}
	// numbers at every place where a formatter could change its mind: powers of two
	// (the int64/uint64 limits among them) and their neighbours, powers of ten around
	// the exponent-notation thresholds, as float64 and - when exactly representable -
	// as float32; alone and inside containers
	for _, f := range floatSweep() {
		nodes := []*jnode{{kind: "f64", f: f}}
		if float64(float32(f)) == f {
			nodes = append(nodes, &jnode{kind: "f32", f32: float32(f)})
		}
		for _, leaf := range nodes {
			for _, t := range []*jnode{leaf, {kind: "arr", kids: []*jnode{leaf, leaf}}, {kind: "obj", kids: []*jnode{leaf}, names: []string{"x"}}} {
				if t != leaf && c.Tier != "thorough" && c.rng.Chance(70) {
					continue
				}
				var o plenccodec.JSONOutput
				t.emit(&o)
				out := o.Done()
				desc := fmt.Sprintf("number sweep %s %v -> %q", leaf.kind, f, trunc(string(out), 120))
				dec := json.NewDecoder(bytes.NewReader(out))
				dec.UseNumber()
				var parsed any
				if err := dec.Decode(&parsed); err != nil {
					c.native = append(c.native, NativeViolation{Case: desc, What: "output is not valid JSON: " + err.Error(), Class: "invalid-json"})
				} else if !sameJSON(t.expect(), parsed) {
					c.native = append(c.native, NativeViolation{Case: desc, What: fmt.Sprintf("parse differs from the call tree: %v vs %v", parsed, t.expect()), Class: "wrong-json"})
				}
				c.add(fmt.Sprintf("K15Tree %s %s", t.coqTree(), coqBytes(out)), desc, "number-sweep/"+leaf.kind+"/"+t.kind, true)
				c.count("number_sweep")
			}
		}
	}
	// Reset in the middle of an unfinished document
	for i := 0; i < scale(c, 100, 2000); i++ {
		var o plenccodec.JSONOutput
		var ops []string
		o.StartObject()
		ops = append(ops, "OStartObject")
		o.NameField("x")
		ops = append(ops, "ONameField [120]")
		o.StartArray()
		ops = append(ops, "OStartArray")
		o.Int64(1)
		ops = append(ops, "OScalar (STok [49])")
		o.Reset()
		ops = append(ops, "OReset")
		t := genJNode(c.rng, vg, 2)
		t.emit(&o)
		t.coqOps(&ops)
		out := o.Done()
		c.add(fmt.Sprintf("K15Ops [%s] %s", strings.Join(ops, "; "), coqBytes(out)), "reset mid-document then "+trunc(t.coqTree(), 200), "reset-mid/"+t.kind, true)
		c.count("reset_mid_document")
	}
	runC15Histories(c, vg)
}

// cutOut forwards the first `left` calls only: a document abandoned part-way
type cutOut struct {
	o    *plenccodec.JSONOutput
	left int
}

func (c *cutOut) ok() bool {
	if c.left <= 0 {
		return false
	}
	c.left--
	return true
}
func (c *cutOut) StartObject() {
	if c.ok() {
		c.o.StartObject()
	}
}
func (c *cutOut) EndObject() {
	if c.ok() {
		c.o.EndObject()
	}
}
func (c *cutOut) StartArray() {
	if c.ok() {
		c.o.StartArray()
	}
}
func (c *cutOut) EndArray() {
	if c.ok() {
		c.o.EndArray()
	}
}
func (c *cutOut) NameField(name string) {
	if c.ok() {
		c.o.NameField(name)
	}
}
func (c *cutOut) Int64(v int64) {
	if c.ok() {
		c.o.Int64(v)
	}
}
func (c *cutOut) Uint64(v uint64) {
	if c.ok() {
		c.o.Uint64(v)
	}
}
func (c *cutOut) Float64(v float64) {
	if c.ok() {
		c.o.Float64(v)
	}
}
func (c *cutOut) Float32(v float32) {
	if c.ok() {
		c.o.Float32(v)
	}
}
func (c *cutOut) String(v string) {
	if c.ok() {
		c.o.String(v)
	}
}
func (c *cutOut) Bool(v bool) {
	if c.ok() {
		c.o.Bool(v)
	}
}
func (c *cutOut) Time(t time.Time) {
	if c.ok() {
		c.o.Time(t)
	}
}
func (c *cutOut) Raw(v string) {
	if c.ok() {
		c.o.Raw(v)
	}
}

// runC15Histories: after Reset the outputter behaves like a new one, whatever it was
// in the middle of. Earlier documents (complete, or abandoned after any number of
// calls) are followed by Reset and a document that is checked on its own; the later
// documents put empty and non-empty containers at every small byte offset, so that
// any offset, depth, flag or stack entry remembered from before the Reset shows.
func runC15Histories(c *Ctx, vg *ValGen) {
	name := func(k int) string { return strings.Repeat("n", k) }
	leafs := []*jnode{{kind: "arr"}, {kind: "obj"}, {kind: "int", i: 7}, {kind: "arr", kids: []*jnode{{kind: "arr"}}}, {kind: "obj", kids: []*jnode{{kind: "obj"}}, names: []string{""}}}
	var seconds []*jnode
	for k := 0; k <= 14; k++ {
		for _, leaf := range leafs {
			seconds = append(seconds, &jnode{kind: "obj", kids: []*jnode{leaf}, names: []string{name(k)}})
			seconds = append(seconds, &jnode{kind: "arr", kids: []*jnode{{kind: "str", s: name(k)}, leaf}})
		}
	}
	seconds = append(seconds, leafs...)
	var firsts []*jnode
	for k := 0; k <= 6; k++ {
		firsts = append(firsts,
			&jnode{kind: "obj", kids: []*jnode{{kind: "int", i: 1}, {kind: "int", i: 2}}, names: []string{name(k), "b"}},
			&jnode{kind: "arr", kids: []*jnode{{kind: "str", s: name(k)}, {kind: "int", i: 2}, {kind: "arr"}}},
			&jnode{kind: "obj", kids: []*jnode{{kind: "arr", kids: []*jnode{{kind: "int", i: 1}, {kind: "int", i: 2}}}}, names: []string{name(k)}})
	}
	run := func(history []*jnode, cuts []int, last *jnode, class string) {
		var o plenccodec.JSONOutput
		var ops []string
		for i, d := range history {
			var dops []string
			d.coqOps(&dops)
			cut := cuts[i]
			if cut > len(dops) {
				cut = len(dops)
			}
			d.emit(&cutOut{o: &o, left: cut})
			ops = append(ops, dops[:cut]...)
			o.Reset()
			ops = append(ops, "OReset")
		}
		last.emit(&o)
		last.coqOps(&ops)
		out := append([]byte{}, o.Done()...)
		var fresh plenccodec.JSONOutput
		last.emit(&fresh)
		want := fresh.Done()
		desc := fmt.Sprintf("reset history %d earlier document(s) (cuts %v) then %s -> %q", len(history), cuts, trunc(last.coqTree(), 200), trunc(string(out), 200))
		if !bytes.Equal(out, want) {
			c.native = append(c.native, NativeViolation{Case: desc, Class: "reset-not-like-new",
				What: fmt.Sprintf("after Reset the outputter wrote %q where a new one writes %q", trunc(string(out), 300), trunc(string(want), 300))})
		}
		c.add(fmt.Sprintf("K15Ops [%s] %s", strings.Join(ops, "; "), coqBytes(out)), desc, class, true)
		c.count("reset_histories")
	}
	// every (earlier document, later document) pair of the systematic families
	for _, f := range firsts {
		for _, s := range seconds {
			if c.Tier != "thorough" && c.rng.Chance(60) {
				continue
			}
			run([]*jnode{f}, []int{1 << 20}, s, "reset-history/systematic")
		}
	}
	// random histories: one to three earlier documents, each complete or abandoned
	for i := 0; i < scale(c, 300, 6000); i++ {
		var hist []*jnode
		var cuts []int
		for k := 1 + c.rng.Intn(3); k > 0; k-- {
			hist = append(hist, genJNode(c.rng, vg, 1+c.rng.Intn(3)))
			if c.rng.Bool() {
				cuts = append(cuts, 1<<20)
			} else {
				cuts = append(cuts, c.rng.Intn(8))
			}
		}
		var last *jnode
		if c.rng.Bool() {
			last = seconds[c.rng.Intn(len(seconds))]
		} else {
			last = genJNode(c.rng, vg, 1+c.rng.Intn(3))
		}
		run(hist, cuts, last, "reset-history/random")
	}
}

func floatSweep() []float64 {
	var out []float64
	add := func(f float64) {
		if !math.IsNaN(f) && !math.IsInf(f, 0) {
			out = append(out, f, -f)
		}
	}
	for k := -1074; k <= 1023; k++ {
		if k > 70 && k < 1020 && k%64 != 0 || k < -30 && k > -1070 && k%64 != 0 {
			continue
		}
		p := math.Ldexp(1, k)
		add(p)
		add(math.Nextafter(p, math.Inf(1)))
		add(math.Nextafter(p, 0))
		if k >= 1 && k <= 64 {
			add(p - 1)
			add(p + 1)
		}
	}
	for e := -10; e <= 25; e++ {
		p := math.Pow(10, float64(e))
		add(p)
		add(math.Nextafter(p, math.Inf(1)))
		add(math.Nextafter(p, 0))
		add(p * 1.5)
		add(p * 9.999)
	}
	add(math.MaxFloat64)
	add(math.SmallestNonzeroFloat64)
	add(float64(math.MaxFloat32))
	add(float64(math.SmallestNonzeroFloat32))
	add(0.1)
	add(123456789.125)
	return out
}

func jdepth(n *jnode) int {
	d := 0
	for _, k := range n.kids {
		if x := jdepth(k); x > d {
			d = x
		}
	}
	return 1 + d
}
