(** Model of plenccore/wire.go. *)
From Plenc Require Import Base Varint.
Open Scope N_scope.

(** Wire types, as their numeric codes. *)
Definition WTVarInt : N := 0.
Definition WT64 : N := 1.
Definition WTLength : N := 2.
Definition WTSlice : N := 3.
Definition WT32 : N := 5.

(** tag := uint64(index<<3) | uint64(wt)   (index is an int; wt in 0..7) *)
Definition tag_value (wt : N) (index : Z) : N := u64 (index * 8) + wt.
Definition append_tag (wt : N) (index : Z) : bytes := append_varuint (tag_value wt index).
Definition size_tag (wt : N) (index : Z) : N := size_varuint (tag_value wt index).
(** ReadTag: wt = WireType(v & 7) ; index = int(v >> 3) ; n as ReadVarUint *)
Definition read_tag (buf : bytes) : N * Z * Z :=
  let '(v, n) := read_varuint buf in (v mod 8, Z.of_N (v / 8), n).

(** Skip, WTVarInt arm:
      for i, v := range data { if v&0x80 == 0 {return i+1}; if i > 9 {error} }; error *)
Fixpoint skip_varint (data : bytes) (i : nat) : res N :=
  match data with
  | [] => Err
  | v :: rest =>
    if v <? 128 then Ok (N.of_nat (S i))
    else if Nat.ltb 9 i then Err
    else skip_varint rest (S i)
  end.

(** Skip, WTSlice arm loop.  [rest] is data[offset:], [off] is offset.  The Go
    loop runs [count] times (a uint64); every iteration needs at least one
    byte, so fuel [length data + 1] is never exhausted (theorem skip_total). *)
Fixpoint skip_slice (fuel : nat) (count : N) (rest : bytes) (off : N) : res N :=
  if count =? 0 then Ok off else
  match fuel with
  | O => Hang "Skip.WTSlice"
  | S f =>
    match rest with
    | [] => Err                                  (* offset >= len(data) *)
    | _ =>
      let '(l, n) := read_varuint rest in
      if (n <=? 0)%Z then Err else
      do rest1 <- go_drop "Skip.WTSlice data[offset:]" (Z.to_N n) rest;
      if len rest1 <? l then Err else
      do rest2 <- go_drop "Skip.WTSlice data[offset:]" l rest1;
      skip_slice f (count - 1) rest2 (off + Z.to_N n + l)
    end
  end.

Definition skip (data : bytes) (wt : N) : res N :=
  if wt =? WTVarInt then skip_varint data 0
  else if wt =? WT64 then (if len data <? 8 then Err else Ok 8)
  else if wt =? WTLength then
    let '(l, n) := read_varuint data in
    if (n <=? 0)%Z then Err
    else if len data - Z.to_N n <? l then Err
    else Ok (l + Z.to_N n)
  else if wt =? WTSlice then
    let '(count, n) := read_varuint data in
    if (n <=? 0)%Z then Err
    else do rest <- go_drop "Skip.WTSlice data[n:]" (Z.to_N n) data;
         skip_slice (S (length data)) count rest (Z.to_N n)
  else if wt =? WT32 then (if len data <? 4 then Err else Ok 4)
  else Err.
