(** C01 / C09 / C10: decoding what was encoded.  [merge c prior v] is the value
    a target holding [prior] has after Unmarshal of the encoding of [v]: the
    merge rules of C10 written out on values.  The main theorem says the
    decoder, run on the encoder's bytes, computes exactly [merge].

    Fragment covered by the theorem ([rt_ok]): all scalar codecs, strings, byte
    slices, times (both forms), null types, pointers, structs nested to any
    depth, packed slices of scalars and counted slices of length-delimited
    elements.  Maps and the protobuf repeated forms are decided by the
    correspondence only (see DESIGN.md). *)
From Plenc Require Import Base Varint Wire VarintProofs WireProofs JsonAny Codec SizeProofs DecBase RoundTripBase JsonProofs JsonRoundTrip.
Open Scope N_scope.

(** ** the supported fragment *)

Definition plain_varint0 (c : codec) : Prop :=
  match c with CBool => True | CInt b | CUint b | CFlat b => bits_ok b | _ => False end.
(** elements of a packed varint slice: a scalar, or a pointer to one ([]*int:
    nil entries are not written at all) *)
Definition plain_varint (c : codec) : Prop :=
  match c with CPtr c0 => plain_varint0 c0 | _ => plain_varint0 c end.
Definition plain_fixed (c : codec) : Prop := match c with CF32 | CF64 => True | _ => False end.

(** the protobuf repeated forms only make sense as struct fields (elsewhere
    their elements cannot be delimited: finding D12) *)
Definition top_ok (c : codec) : Prop :=
  match c with CSliceProto _ | CMapProto _ _ => False | _ => True end.

Fixpoint rt_ok (c : codec) {struct c} : Prop :=
  match c with
  | CBool | CF32 | CF64 | CString | CBytes | CTime _ => True
  | CInt b | CUint b | CFlat b => bits_ok b
  | CNull c' | CPtr c' => rt_ok c' /\ top_ok c'
  | CStruct _ n fs =>
    (fix all (l : list (fld codec)) : Prop :=
       match l with
       | [] => True
       | f :: r => (rt_ok (f_codec f) /\ (0 <= f_index f < 2305843009213693952)%Z /\ (f_slot f < n)%nat) /\ all r
       end) fs
    /\ NoDup (map (fun f => f_index f) fs) /\ NoDup (map (fun f => f_slot f) fs)
  | CSliceVar c' => plain_varint c'
  | CSliceFix c' => plain_fixed c'
  | CSliceLen c' | CSliceProto c' => rt_ok c' /\ wire c' = WTLength /\ top_ok c'
  | CMap kc vc | CMapProto kc vc => rt_ok kc /\ rt_ok vc /\ top_ok kc /\ top_ok vc
  | CJMap | CJArr => True
  | CBottom => True   (* the unfolding limit of a recursive type: no value is ever written under it ([wfv]) *)
  | CBQ => False
  end.

(** ** well-typed values that are written (not omitted by pointer / null) *)
Fixpoint wfv (c : codec) (v : val) {struct c} : Prop :=
  match c, v with
  | CBool, VBool _ => True
  | CInt b, VInt z | CFlat b, VInt z => int_range b z
  | CUint b, VInt z => uint_range b z
  | CF32, VF32 x => x < 4294967296
  | CF64, VF64 x => x < two64
  | (CString | CBytes), VStr _ => True
  | CTime _, VTime s n => int64_ok s /\ (0 <= n < 1000000000)%Z
  | CNull c', VNull true p => wfv c' p
  | CPtr c', VPtr (Some p) => wfv c' p
  | CStruct _ n fs, VStruct vs =>
    length vs = n /\
    (fix all (l : list (fld codec)) : Prop :=
       match l with
       | [] => True
       | f :: r => (omit (f_codec f) (slot vs (f_slot f)) = true \/ wfv (f_codec f) (slot vs (f_slot f))) /\ all r
       end) fs
  | (CSliceVar c' | CSliceFix c' | CSliceLen c' | CSliceProto c'), VSlice l => Forall (wfv c') l
  | (CMap kc vc | CMapProto kc vc), VMap (Some es) =>
    Forall (fun e => (omit kc (fst e) = true \/ wfv kc (fst e)) /\ (omit vc (snd e) = true \/ wfv vc (snd e))) es
  | CJMap, VJson _ (JObj l) => wfj (JObj l)
  | CJArr, VJson _ (JArr l) => wfj (JArr l)
  | _, _ => False
  end.

(** ** the merge rules, on values *)
Fixpoint merge (c : codec) (prior v : val) {struct c} : val :=
  match c with
  | CNull c' => match v with VNull _ p => VNull true (merge c' (zero c') p) | _ => v end
  | CPtr c' =>
    match v with
    | VPtr (Some x) => VPtr (Some (merge c' (match prior with VPtr (Some p) => p | _ => zero c' end) x))
    | _ => v
    end
  | CStruct _ _ fs =>
    VStruct (fold_left (fun cur f =>
               let fv := slot (struct_fields v) (f_slot f) in
               if omit (f_codec f) fv then cur
               else set_nth (f_slot f) (merge (f_codec f) (slot cur (f_slot f)) fv) cur)
             fs (match prior with VStruct ps => ps | _ => struct_fields (zero c) end))
  | CSliceLen c' => VSlice (map (fun x => merge c' (zero c') x) (slice_elems v))
  | CMap kc vc =>
    (* entries are merged by key, in wire order: a key is decoded from zero, a
       value into the entry the map already holds under that key *)
    match v with
    | VMap (Some es) =>
      VMap (Some (fold_left (fun m e =>
        let k' := if omit kc (fst e) then zero kc else merge kc (zero kc) (fst e) in
        let x' := if omit vc (snd e) then zero vc
                  else merge vc (match map_lookup k' m with Some y => y | None => zero vc end) (snd e) in
        map_set k' x' m) es (match prior with VMap (Some m) => m | _ => [] end)))
    | _ => v
    end
  | CSliceProto c' =>
    (* the repeated form appends to what the target already holds *)
    match v with
    | VSlice l => VSlice (slice_elems prior ++ map (fun x => merge c' (zero c') x) l)
    | _ => v
    end
  | CMapProto kc vc =>
    (* entries merged by key as for CMap; no entry at all leaves the target alone *)
    match v with
    | VMap (Some (e0 :: es0)) =>
      VMap (Some (fold_left (fun m e =>
        let k' := if omit kc (fst e) then zero kc else merge kc (zero kc) (fst e) in
        let x' := if omit vc (snd e) then zero vc
                  else merge vc (match map_lookup k' m with Some y => y | None => zero vc end) (snd e) in
        map_set k' x' m) (e0 :: es0) (match prior with VMap (Some m) => m | _ => [] end)))
    | VMap (Some []) => prior
    | _ => v
    end
  | CJMap =>
    match v with
    | VJson _ (JObj l) =>
      VJson false (JObj (fold_left (fun m kx => assoc_set (fst kx) (snd kx) m) l
                           (match prior with VJson false (JObj p) => p | _ => [] end)))
    | _ => v
    end
  | CJArr => match v with VJson _ (JArr l) => VJson false (JArr l) | _ => v end
  | _ => v
  end.

Definition entry_merge (kc vc : codec) (m : list (val * val)) (e : val * val) : list (val * val) :=
  let k' := if omit kc (fst e) then zero kc else merge kc (zero kc) (fst e) in
  let x' := if omit vc (snd e) then zero vc
            else merge vc (match map_lookup k' m with Some y => y | None => zero vc end) (snd e) in
  map_set k' x' m.
Lemma merge_map kc vc prior es :
  merge (CMap kc vc) prior (VMap (Some es))
  = VMap (Some (fold_left (entry_merge kc vc) es (match prior with VMap (Some m) => m | _ => [] end))).
Proof. reflexivity. Qed.
Lemma merge_map_proto kc vc prior e es :
  merge (CMapProto kc vc) prior (VMap (Some (e :: es)))
  = VMap (Some (fold_left (entry_merge kc vc) (e :: es) (match prior with VMap (Some m) => m | _ => [] end))).
Proof. reflexivity. Qed.

(** ** fuel does not matter once it exceeds the data length *)
Lemma struct_loop_fuel tbl : forall f1 f2 rest consumed cur,
  (length rest < f1)%nat -> (length rest < f2)%nat ->
  struct_loop tbl f1 rest consumed cur = struct_loop tbl f2 rest consumed cur.
Proof.
  induction f1 as [|f1 IH]; intros f2 rest consumed cur H1 H2; [lia|].
  destruct f2 as [|f2]; [lia|].
  destruct rest as [|b0 rest0]; [reflexivity|].
  cbn [struct_loop]. remember (b0 :: rest0) as rest eqn:Er.
  destruct (read_tag rest) as [[wt index] n] eqn:Et.
  pose proof (read_tag_n _ _ _ _ Et) as Hn.
  destruct (n <=? 0)%Z eqn:Hn0; [reflexivity|]. apply Z.leb_gt in Hn0.
  destruct (go_drop_good "StructCodec.Read data[offset:]" (Z.to_N n) rest ltac:(llia)) as (rest1 & E1 & L1 & LL1).
  rewrite E1. cbn [bind].
  destruct (find_field tbl index) as [[sl decf]|].
  - pose proof (read_field_data_safe "StructCodec.Read data[offset:fl]" wt rest1) as Hfd.
    destruct (read_field_data "StructCodec.Read data[offset:fl]" wt rest1) as [[[fdata rest2] k]| | | |]; cbn [bind] in *; try reflexivity.
    destruct Hfd as (Hk & L2 & L3 & LL3 & LL2).
    destruct (decf fdata wt (slot cur sl)) as [[fv used]| | | |]; cbn [bind]; try reflexivity.
    unfold go_drop. destruct (used <=? len rest2) eqn:Eu; cbn [bind]; [|reflexivity].
    apply N.leb_le in Eu. apply IH; rewrite skipn_length; llia.
  - destruct (skip rest1 wt) as [k| | | |]; cbn [bind]; try reflexivity.
    unfold go_drop. destruct (k <=? len rest1) eqn:Eu; cbn [bind]; [|reflexivity].
    apply IH; rewrite skipn_length; llia.
Qed.

(** ** looking a field up by its index *)
Lemma find_field_tbl : forall fs f,
  In f fs -> NoDup (map (fun f => f_index f) fs) ->
  find_field (map (fun f => (f_index f, f_slot f, dec (f_codec f))) fs) (f_index f)
  = Some (f_slot f, dec (f_codec f)).
Proof.
  induction fs as [|g r IH]; intros f Hin Hnd; [destruct Hin|].
  unfold find_field. cbn [map find fst snd].
  destruct (f_index g =? f_index f)%Z eqn:E.
  - destruct Hin as [<-|Hin]; [reflexivity|].
    exfalso. apply Z.eqb_eq in E. inversion Hnd as [|? ? Hnot _]; subst. apply Hnot. rewrite E.
    apply in_map_iff. exists f. auto.
  - destruct Hin as [<-|Hin]; [rewrite Z.eqb_refl in E; discriminate|].
    inversion Hnd; subst. apply (IH f Hin). assumption.
Qed.

(** ** header of a field: tag, then the length prefix when length-delimited *)

Lemma wire_lt8 c : wire c < 8.
Proof. induction c; cbn [wire]; unfold WTVarInt, WT64, WT32, WTLength, WTSlice; try lia; auto. Qed.

(** [RTc c]: the decoder inverts the encoder for codec [c], in the form its
    wire type calls for: exactly on the body for length-delimited codecs,
    and on the body followed by anything for the self-delimiting ones. *)
Definition RTc (c : codec) : Prop :=
  forall v prior, wfv c v -> fits c v ->
  (wire c = WTLength -> dec c (enc c v []) (wire c) prior = Ok (merge c prior v, len (enc c v []))) /\
  (wire c <> WTLength -> forall rest, dec c (enc c v [] ++ rest) (wire c) prior = Ok (merge c prior v, len (enc c v []))).

(** the encoding of a tagged field, split into header and payload as the struct
    loop sees it *)
Lemma tagged_enc_shape : forall c, rt_ok c -> top_ok c -> forall v idx,
  wfv c v -> fits c v ->
  let tg := field_tag c idx in
  (wire c = WTLength -> enc c v tg = tg ++ append_varuint (len (enc c v [])) ++ enc c v [] /\ len (enc c v []) < two64) /\
  (wire c <> WTLength -> enc c v tg = tg ++ enc c v []).
Proof.
  induction c as [ |b|b|b| | | | |compat| |c IH|c IH|nm n fs IH|c IH|c IH|c IH|c IH|kc vc IHk IHv|kc vc IHk IHv| | | ]
    using codec_ind'; intros Hok Htop v idx Hw Hf tg; cbn [rt_ok] in Hok; cbn [top_ok] in Htop; try contradiction;
    try (split; intros Hwt; cbn [wire] in Hwt; unfold WTVarInt, WT64, WT32, WTLength, WTSlice in Hwt; try congruence; try lia; reflexivity).
  - (* CString *) split; intros Hwt; [|cbn [wire] in Hwt; congruence].
    cbn [enc frame_tag]. unfold tg, field_tag, append_tag.
    pose proof (append_varuint_length_bounds (tag_value (wire CString) idx)) as Hb.
    destruct (append_varuint (tag_value (wire CString) idx)) eqn:E; [rewrite len_nil in Hb; lia|].
    split; [reflexivity|]. cbn [fits] in Hf. destruct v; cbn [str_of] in *; try (unfold two64; cbn; lia). exact Hf.
  - (* CBytes *) split; intros Hwt; [|cbn [wire] in Hwt; congruence].
    cbn [enc frame_tag]. unfold tg, field_tag, append_tag.
    pose proof (append_varuint_length_bounds (tag_value (wire CBytes) idx)) as Hb.
    destruct (append_varuint (tag_value (wire CBytes) idx)) eqn:E; [rewrite len_nil in Hb; lia|].
    split; [reflexivity|]. cbn [fits] in Hf. destruct v; cbn [str_of] in *; try (unfold two64; cbn; lia). exact Hf.
  - (* CTime *) split; intros Hwt; [|cbn [wire] in Hwt; congruence].
    cbn [enc frame_tag]. unfold tg, field_tag, append_tag.
    pose proof (append_varuint_length_bounds (tag_value (wire (CTime compat)) idx)) as Hb.
    destruct (append_varuint (tag_value (wire (CTime compat)) idx)) eqn:E; [rewrite len_nil in Hb; lia|].
    split; [reflexivity|]. cbn [fits wfv] in *. destruct v; try contradiction.
    destruct (time_size_law compat sec nsec Hf) as [_ L]. exact L.
  - (* CNull *) cbn [wfv] in Hw. destruct v as [ | | | | | | |valid p| | | | |]; try contradiction. destruct valid; [|contradiction].
    cbn [fits] in Hf. destruct Hok as [Hok Ht]. specialize (IH Hok Ht p idx Hw Hf). cbn [enc wire]. unfold tg, field_tag in *. cbn [wire]. exact IH.
  - (* CPtr *) cbn [wfv] in Hw. destruct v as [ | | | | | |[p|]| | | | | |]; try contradiction.
    cbn [fits] in Hf. destruct Hok as [Hok Ht]. specialize (IH Hok Ht p idx Hw Hf). cbn [enc wire]. unfold tg, field_tag in *. cbn [wire]. exact IH.
  - (* CStruct *) split; intros Hwt; [|cbn [wire] in Hwt; congruence].
    cbn [enc frame_tag]. unfold tg, field_tag, append_tag.
    pose proof (append_varuint_length_bounds (tag_value (wire (CStruct nm n fs)) idx)) as Hb.
    destruct (append_varuint (tag_value (wire (CStruct nm n fs)) idx)) eqn:E; [rewrite len_nil in Hb; lia|].
    split; [reflexivity|]. destruct Hf as [_ Hl]. cbn [enc frame_tag] in Hl. exact Hl.
  - (* CSliceVar *) split; intros Hwt; [|cbn [wire] in Hwt; congruence].
    cbn [enc frame_tag]. unfold tg, field_tag, append_tag.
    pose proof (append_varuint_length_bounds (tag_value (wire (CSliceVar c)) idx)) as Hb.
    destruct (append_varuint (tag_value (wire (CSliceVar c)) idx)) eqn:E; [rewrite len_nil in Hb; lia|].
    split; [reflexivity|]. destruct Hf as [_ Hl]. cbn [enc frame_tag] in Hl. exact Hl.
  - (* CSliceFix *) split; intros Hwt; [|cbn [wire] in Hwt; congruence].
    cbn [enc frame_tag]. unfold tg, field_tag, append_tag.
    pose proof (append_varuint_length_bounds (tag_value (wire (CSliceFix c)) idx)) as Hb.
    destruct (append_varuint (tag_value (wire (CSliceFix c)) idx)) eqn:E; [rewrite len_nil in Hb; lia|].
    split; [reflexivity|]. destruct Hf as (_ & _ & Hl). cbn [enc frame_tag] in Hl. exact Hl.
Qed.

(** ** one field through the struct loop *)

Lemma go_take_app site (a b : bytes) : go_take site (len a) (a ++ b) = Ok a.
Proof.
  unfold go_take. rewrite len_app.
  replace (len a <=? len a + len b) with true by (symmetry; apply N.leb_le; lia).
  unfold len. rewrite Nat2N.id, firstn_app, Nat.sub_diag, firstn_all. cbn [firstn]. rewrite app_nil_r. reflexivity.
Qed.

Lemma read_tag_field c idx rest : (0 <= idx < 2305843009213693952)%Z ->
  read_tag (field_tag c idx ++ rest) = (wire c, idx, Z.of_N (len (field_tag c idx))).
Proof. intros Hi. unfold field_tag. apply read_append_tag; [apply wire_lt8|exact Hi]. Qed.

Lemma field_tag_nonempty c idx : 1 <= len (field_tag c idx).
Proof. unfold field_tag, append_tag. pose proof (append_varuint_length_bounds (tag_value (wire c) idx)). lia. Qed.

Lemma struct_loop_unfold tbl f rest consumed cur : rest <> [] ->
  struct_loop tbl (S f) rest consumed cur =
  (let '(wt, index, n) := read_tag rest in
   if (n <=? 0)%Z then Err else
   do rest1 <- go_drop "StructCodec.Read data[offset:]" (Z.to_N n) rest;
   let c1 := consumed + Z.to_N n in
   match find_field tbl index with
   | None =>
     do k <- skip rest1 wt;
     do rest2 <- go_drop "StructCodec.Read data[offset:]" k rest1;
     struct_loop tbl f rest2 (c1 + k) cur
   | Some (sl, decf) =>
     do (fdata, rest2, k) <- read_field_data "StructCodec.Read data[offset:fl]" wt rest1;
     do (fv, used) <- decf fdata wt (slot cur sl);
     do rest3 <- go_drop "StructCodec.Read data[offset:]" used rest2;
     struct_loop tbl f rest3 (c1 + k + used) (set_nth sl fv cur)
   end).
Proof. intros H. destruct rest; [congruence|reflexivity]. Qed.

(** ** set_nth facts *)
Lemma set_nth_twice : forall l i x y, set_nth i y (set_nth i x l) = set_nth i y l.
Proof. unfold set_nth. induction l as [|z r IH]; intros i x y; destruct i; cbn; try reflexivity. f_equal. apply IH. Qed.
Lemma nth_set_nth_hit : forall l i x d, (i < length l)%nat -> nth i (set_nth i x l) d = x.
Proof. unfold set_nth. induction l as [|y r IH]; intros i x d H; cbn in H; [lia|]. destruct i; cbn; [reflexivity|]. apply IH. lia. Qed.
Lemma set_nth_ext : forall l i x y, ((i < length l)%nat -> x = y) -> set_nth i x l = set_nth i y l.
Proof.
  unfold set_nth. induction l as [|z r IH]; intros i x y H; destruct i; cbn; try reflexivity.
  - f_equal. apply H. cbn. lia.
  - f_equal. apply IH. intros Hi. apply H. cbn. lia.
Qed.

Section FieldStep.
  Variable fs : list (fld codec).
  Let tbl := map (fun f => (f_index f, f_slot f, dec (f_codec f))) fs.
  Hypothesis Hnd : NoDup (map (fun f => f_index f) fs).

  Lemma field_step : forall f fv cur more consumed fuel,
    In f fs -> rt_ok (f_codec f) -> top_ok (f_codec f) -> (0 <= f_index f < 2305843009213693952)%Z ->
    RTc (f_codec f) -> wfv (f_codec f) fv -> fits (f_codec f) fv ->
    let e := enc (f_codec f) fv (field_tag (f_codec f) (f_index f)) in
    (length (e ++ more) < fuel)%nat ->
    struct_loop tbl fuel (e ++ more) consumed cur
    = struct_loop tbl fuel more (consumed + len e)
        (set_nth (f_slot f) (merge (f_codec f) (slot cur (f_slot f)) fv) cur).
  Proof.
    intros f fv cur more consumed fuel Hin Hok Htop Hidx Hrt Hw Hf e Hfuel.
    set (c := f_codec f) in *. set (tg := field_tag c (f_index f)) in *.
    destruct (tagged_enc_shape c Hok Htop fv (f_index f) Hw Hf) as [ShL ShS]. fold tg in ShL, ShS.
    destruct (Hrt fv (slot cur (f_slot f)) Hw Hf) as [RtL RtS].
    pose proof (field_tag_nonempty c (f_index f)) as Htg. fold tg in Htg.
    destruct fuel as [|fuel']; [lia|].
    assert (Hstep : forall payload, e = tg ++ payload ->
              struct_loop tbl (S fuel') (e ++ more) consumed cur =
              (do (fdata, rest2, k) <- read_field_data "StructCodec.Read data[offset:fl]" (wire c) (payload ++ more);
               do (fv', used) <- dec c fdata (wire c) (slot cur (f_slot f));
               do rest3 <- go_drop "StructCodec.Read data[offset:]" used rest2;
               struct_loop tbl fuel' rest3 (consumed + len tg + k + used) (set_nth (f_slot f) fv' cur))).
    { intros payload Ee. rewrite Ee, <- app_assoc.
      rewrite struct_loop_unfold.
      2:{ intros E0. apply (f_equal (@length N)) in E0. rewrite app_length in E0. unfold len in Htg. cbn [length] in E0. lia. }
      unfold tg at 1. rewrite read_tag_field by exact Hidx. fold tg. cbv beta iota.
      replace (Z.of_N (len tg) <=? 0)%Z with false by (symmetry; apply Z.leb_gt; lia).
      rewrite N2Z.id, go_drop_app. cbn [bind].
      unfold tbl. rewrite (find_field_tbl fs f Hin Hnd). fold c. reflexivity. }
    destruct (N.eq_dec (wire c) WTLength) as [Hwt|Hwt].
    - destruct (ShL Hwt) as [Ee Hlen]. rewrite (Hstep _ Ee).
      unfold read_field_data. rewrite Hwt. cbn [N.eqb WTLength Pos.eqb].
      rewrite <- app_assoc, read_append_varuint by exact Hlen.
      pose proof (append_varuint_length_bounds (len (enc c fv []))) as Hvb.
      replace (Z.of_N (len (append_varuint (len (enc c fv [])))) <=? 0)%Z with false by (symmetry; apply Z.leb_gt; lia).
      rewrite N2Z.id, go_drop_app. cbn [bind].
      rewrite len_app. replace (len (enc c fv []) + len more <? len (enc c fv [])) with false by (symmetry; apply N.ltb_ge; lia).
      rewrite go_take_app. cbn [bind].
      rewrite <- Hwt at 1. rewrite (RtL Hwt). cbn [bind].
      rewrite go_drop_app. cbn [bind].
      rewrite (struct_loop_fuel tbl fuel' (S fuel')).
      + f_equal. unfold e. rewrite Ee, !len_app. lia.
      + unfold e in Hfuel. rewrite Ee in Hfuel. rewrite !app_length in Hfuel. unfold len in *. lia.
      + unfold e in Hfuel. rewrite Ee in Hfuel. rewrite !app_length in Hfuel. lia.
    - pose proof (ShS Hwt) as Ee. rewrite (Hstep _ Ee).
      unfold read_field_data. replace (wire c =? WTLength) with false by (symmetry; apply N.eqb_neq; exact Hwt).
      cbn [bind]. rewrite (RtS Hwt more). cbn [bind].
      rewrite go_drop_app. cbn [bind].
      rewrite (struct_loop_fuel tbl fuel' (S fuel')).
      + f_equal. unfold e. rewrite Ee, !len_app. lia.
      + unfold e in Hfuel. rewrite Ee in Hfuel. rewrite !app_length in Hfuel. pose proof Htg. unfold len in *. lia.
      + unfold e in Hfuel. rewrite Ee in Hfuel. rewrite !app_length in Hfuel. lia.
  Qed.


  (** the protobuf repeated form: one tagged, length-prefixed frame per
      element, each appended to what the slot already holds *)
  Lemma field_step_proto_slice : forall f c' l cur more consumed fuel,
    In f fs -> f_codec f = CSliceProto c' -> rt_ok c' -> top_ok c' -> wire c' = WTLength -> RTc c' ->
    (0 <= f_index f < 2305843009213693952)%Z ->
    Forall (fun x => wfv c' x /\ fits c' x) l ->
    let e := flat_map (fun x => enc c' x (field_tag (CSliceProto c') (f_index f))) l in
    (length (e ++ more) < fuel)%nat ->
    struct_loop tbl fuel (e ++ more) consumed cur
    = struct_loop tbl fuel more (consumed + len e)
        (match l with
         | [] => cur
         | _ => set_nth (f_slot f) (VSlice (slice_elems (slot cur (f_slot f)) ++ map (merge c' (zero c')) l)) cur
         end).
  Proof.
    intros f c' l. revert f c'. induction l as [|x l IH]; intros f c' cur more consumed fuel Hin Hc Hok Htop Hwt Hrt Hidx Hall e Hfuel.
    - cbn [flat_map] in e. unfold e. cbn [app]. rewrite len_nil, N.add_0_r. reflexivity.
    - inversion Hall as [|? ? [Hw Hf] Hall']; subst x0 l0.
      set (tg := field_tag (CSliceProto c') (f_index f)) in *.
      assert (Etg : tg = field_tag c' (f_index f)) by (unfold tg, field_tag; cbn [wire]; rewrite Hwt; reflexivity).
      destruct (tagged_enc_shape c' Hok Htop x (f_index f) Hw Hf) as [ShL _]. rewrite <- Etg in ShL.
      destruct (ShL Hwt) as [Ee Hlen].
      destruct (Hrt x (zero c') Hw Hf) as [RtL _].
      pose proof (field_tag_nonempty (CSliceProto c') (f_index f)) as Htg. fold tg in Htg.
      destruct fuel as [|fuel']; [lia|].
      unfold e. cbn [flat_map]. rewrite Ee, <- !app_assoc.
      rewrite struct_loop_unfold.
      2:{ intros E0. apply (f_equal (@length N)) in E0. rewrite app_length in E0. unfold len in Htg. cbn [length] in E0. lia. }
      unfold tg at 1. rewrite read_tag_field by exact Hidx. fold tg. cbv beta iota.
      replace (Z.of_N (len tg) <=? 0)%Z with false by (symmetry; apply Z.leb_gt; lia).
      rewrite N2Z.id, go_drop_app. cbn [bind].
      unfold tbl. rewrite (find_field_tbl fs f Hin Hnd). rewrite Hc.
      unfold read_field_data. cbn [wire N.eqb WTLength Pos.eqb].
      rewrite read_append_varuint by exact Hlen.
      pose proof (append_varuint_length_bounds (len (enc c' x []))) as Hvb.
      replace (Z.of_N (len (append_varuint (len (enc c' x [])))) <=? 0)%Z with false by (symmetry; apply Z.leb_gt; lia).
      rewrite N2Z.id, go_drop_app. cbn [bind].
      rewrite len_app.
      replace (len (enc c' x []) + len (flat_map (fun x0 => enc c' x0 tg) l ++ more) <? len (enc c' x [])) with false
        by (symmetry; apply N.ltb_ge; lia).
      rewrite go_take_app. cbn [bind dec].
      rewrite <- Hwt at 1. rewrite (RtL Hwt). cbn [bind]. rewrite go_drop_app. cbn [bind].
      assert (Hfl : (length (flat_map (fun x0 => enc c' x0 tg) l ++ more) < fuel')%nat).
      { unfold e in Hfuel. cbn [flat_map] in Hfuel. rewrite Ee, <- !app_assoc in Hfuel. rewrite !app_length in Hfuel.
        rewrite app_length. unfold len in Htg. lia. }
      rewrite (struct_loop_fuel tbl fuel' (S fuel')) by (exact Hfl || lia).
      fold tbl.
      rewrite (IH f c' _ more _ (S fuel') Hin Hc Hok Htop Hwt Hrt Hidx Hall') by (fold tg; lia).
      fold tg. f_equal.
      + rewrite !len_app. lia.
      + destruct l as [|y l'].
        * cbn [map app]. reflexivity.
        * rewrite set_nth_twice. apply set_nth_ext. intros Hi.
          unfold slot. rewrite nth_set_nth_hit by exact Hi. cbn [slice_elems map]. rewrite <- app_assoc. reflexivity.
  Qed.

  (** ... and a default-mode slice codec ([CSliceLen]) reads the repeated
      form exactly as the proto-mode codec does (C12) *)
  Lemma field_step_default_reads_repeated : forall f c' l cur more consumed fuel,
    In f fs -> f_codec f = CSliceLen c' -> rt_ok c' -> top_ok c' -> wire c' = WTLength -> RTc c' ->
    (0 <= f_index f < 2305843009213693952)%Z ->
    Forall (fun x => wfv c' x /\ fits c' x) l ->
    let e := flat_map (fun x => enc c' x (field_tag (CSliceProto c') (f_index f))) l in
    (length (e ++ more) < fuel)%nat ->
    struct_loop tbl fuel (e ++ more) consumed cur
    = struct_loop tbl fuel more (consumed + len e)
        (match l with
         | [] => cur
         | _ => set_nth (f_slot f) (VSlice (slice_elems (slot cur (f_slot f)) ++ map (merge c' (zero c')) l)) cur
         end).
  Proof.
    intros f c' l. revert f c'. induction l as [|x l IH]; intros f c' cur more consumed fuel Hin Hc Hok Htop Hwt Hrt Hidx Hall e Hfuel.
    - cbn [flat_map] in e. unfold e. cbn [app]. rewrite len_nil, N.add_0_r. reflexivity.
    - inversion Hall as [|? ? [Hw Hf] Hall']; subst x0 l0.
      set (tg := field_tag (CSliceProto c') (f_index f)) in *.
      assert (Etg : tg = field_tag c' (f_index f)) by (unfold tg, field_tag; cbn [wire]; rewrite Hwt; reflexivity).
      destruct (tagged_enc_shape c' Hok Htop x (f_index f) Hw Hf) as [ShL _]. rewrite <- Etg in ShL.
      destruct (ShL Hwt) as [Ee Hlen].
      destruct (Hrt x (zero c') Hw Hf) as [RtL _].
      pose proof (field_tag_nonempty (CSliceProto c') (f_index f)) as Htg. fold tg in Htg.
      destruct fuel as [|fuel']; [lia|].
      unfold e. cbn [flat_map]. rewrite Ee, <- !app_assoc.
      rewrite struct_loop_unfold.
      2:{ intros E0. apply (f_equal (@length N)) in E0. rewrite app_length in E0. unfold len in Htg. cbn [length] in E0. lia. }
      unfold tg at 1. rewrite read_tag_field by exact Hidx. fold tg. cbv beta iota.
      replace (Z.of_N (len tg) <=? 0)%Z with false by (symmetry; apply Z.leb_gt; lia).
      rewrite N2Z.id, go_drop_app. cbn [bind].
      unfold tbl. rewrite (find_field_tbl fs f Hin Hnd). rewrite Hc.
      unfold read_field_data. cbn [wire N.eqb WTLength Pos.eqb].
      rewrite read_append_varuint by exact Hlen.
      pose proof (append_varuint_length_bounds (len (enc c' x []))) as Hvb.
      replace (Z.of_N (len (append_varuint (len (enc c' x [])))) <=? 0)%Z with false by (symmetry; apply Z.leb_gt; lia).
      rewrite N2Z.id, go_drop_app. cbn [bind].
      rewrite len_app.
      replace (len (enc c' x []) + len (flat_map (fun x0 => enc c' x0 tg) l ++ more) <? len (enc c' x [])) with false
        by (symmetry; apply N.ltb_ge; lia).
      rewrite go_take_app. cbn [bind dec]. change (WTLength =? WTLength) with true. cbv iota.
      rewrite <- Hwt at 1. rewrite (RtL Hwt). cbn [bind]. rewrite go_drop_app. cbn [bind].
      assert (Hfl : (length (flat_map (fun x0 => enc c' x0 tg) l ++ more) < fuel')%nat).
      { unfold e in Hfuel. cbn [flat_map] in Hfuel. rewrite Ee, <- !app_assoc in Hfuel. rewrite !app_length in Hfuel.
        rewrite app_length. unfold len in Htg. lia. }
      rewrite (struct_loop_fuel tbl fuel' (S fuel')) by (exact Hfl || lia).
      fold tbl.
      rewrite (IH f c' _ more _ (S fuel') Hin Hc Hok Htop Hwt Hrt Hidx Hall') by (fold tg; lia).
      fold tg. f_equal.
      + rewrite !len_app. lia.
      + destruct l as [|y l'].
        * cbn [map app]. reflexivity.
        * rewrite set_nth_twice. apply set_nth_ext. intros Hi.
          unfold slot. rewrite nth_set_nth_hit by exact Hi. cbn [slice_elems map]. rewrite <- app_assoc. reflexivity.
  Qed.
  Definition fenc (vs : list val) (f : fld codec) : bytes :=
    let fv := slot vs (f_slot f) in
    if omit (f_codec f) fv then [] else enc (f_codec f) fv (field_tag (f_codec f) (f_index f)).
  Definition fmerge (vs : list val) (cur : list val) (f : fld codec) : list val :=
    let fv := slot vs (f_slot f) in
    if omit (f_codec f) fv then cur
    else set_nth (f_slot f) (merge (f_codec f) (slot cur (f_slot f)) fv) cur.

End FieldStep.

(** ** times *)

Lemma time_loop_unfold compat f rest consumed sec nsec : rest <> [] ->
  time_loop compat (S f) rest consumed sec nsec =
  (let '(wt, index, n) := read_tag rest in
   if (n <=? 0)%Z then Err else
   do rest1 <- go_drop "TimeCodec.Read data[offset:]" (Z.to_N n) rest;
   let c1 := consumed + Z.to_N n in
   if ((index =? 1) || (index =? 2))%Z then
     let '(u, k) := read_varuint rest1 in
     if (k <? 0)%Z then Err else
     do rest2 <- go_drop "TimeCodec.Read data[offset:]" (Z.to_N k) rest1;
     if (index =? 1)%Z
     then time_loop compat f rest2 (c1 + Z.to_N k) (if compat then s64 u else zagzig u) nsec
     else time_loop compat f rest2 (c1 + Z.to_N k) sec (if compat then sbits 32 u else sbits 32 (u64 (zagzig u)))
   else
     do k <- skip rest1 wt;
     do rest2 <- go_drop "TimeCodec.Read data[offset:]" k rest1;
     time_loop compat f rest2 (c1 + k) sec nsec).
Proof. intros H. destruct rest; [congruence|reflexivity]. Qed.

Lemma time_field_step compat f (tagb : N) (idx : Z) u rest consumed sec nsec :
  (tagb = 8 /\ idx = 1%Z) \/ (tagb = 16 /\ idx = 2%Z) -> u < two64 ->
  time_loop compat (S f) ([tagb] ++ append_varuint u ++ rest) consumed sec nsec
  = if (idx =? 1)%Z
    then time_loop compat f rest (consumed + 1 + len (append_varuint u)) (if compat then s64 u else zagzig u) nsec
    else time_loop compat f rest (consumed + 1 + len (append_varuint u)) sec (if compat then sbits 32 u else sbits 32 (u64 (zagzig u))).
Proof.
  intros Ht Hu. rewrite time_loop_unfold by discriminate.
  assert (Etag : read_tag ([tagb] ++ append_varuint u ++ rest) = (0, idx, 1%Z)).
  { destruct Ht as [[-> ->]|[-> ->]]; reflexivity. }
  rewrite Etag. cbv beta iota. cbn [Z.leb Z.compare Z.to_N].
  change (Pos.to_nat 1) with 1%nat.
  rewrite (go_drop_app "TimeCodec.Read data[offset:]" [tagb]). cbn [bind].
  replace ((idx =? 1) || (idx =? 2))%Z with true by (destruct Ht as [[_ ->]|[_ ->]]; reflexivity).
  rewrite read_append_varuint by exact Hu.
  pose proof (append_varuint_length_bounds u).
  replace (Z.of_N (len (append_varuint u)) <? 0)%Z with false by (symmetry; apply Z.ltb_ge; lia).
  rewrite N2Z.id, go_drop_app. cbn [bind]. reflexivity.
Qed.

Lemma time_roundtrip compat s n prior : int64_ok s -> (0 <= n < 1000000000)%Z ->
  dec (CTime compat) (time_body compat s n) WTLength prior = Ok (VTime s n, len (time_body compat s n)).
Proof.
  intros Hs Hn. cbn [dec].
  assert (Hne : exists b r, time_body compat s n = b :: r) by (unfold time_body; destruct compat; eexists; eexists; reflexivity).
  destruct Hne as (b0 & r0 & Eb). rewrite Eb. rewrite <- Eb.
  set (u1 := if compat then u64 s else zigzag s).
  set (u2 := if compat then ubits 32 n else zigzag n).
  assert (Hn64 : int64_ok n) by (unfold int64_ok, two63Z; lia).
  assert (Hu1 : u1 < two64) by (unfold u1; destruct compat; [apply u64_lt|apply zigzag_range; exact Hs]).
  assert (Hu2 : u2 < two64) by (unfold u2; destruct compat; [apply ubits_lt; lia|apply zigzag_range; exact Hn64]).
  assert (Ebody : time_body compat s n = [8] ++ append_varuint u1 ++ [16] ++ append_varuint u2 ++ []).
  { unfold time_body, u1, u2, append_varint. destruct compat; rewrite ?app_nil_r; reflexivity. }
  rewrite Ebody.
  pose proof (append_varuint_length_bounds u1) as B1. pose proof (append_varuint_length_bounds u2) as B2.
  set (body := [8] ++ append_varuint u1 ++ [16] ++ append_varuint u2 ++ []).
  assert (Hlen : (3 <= length body)%nat).
  { unfold body. rewrite !app_length. cbn [length]. unfold len in *. lia. }
  destruct (length body) as [|[|[|k]]] eqn:El; try lia. unfold body.
  rewrite (time_field_step compat _ 8 1%Z u1) by (auto; left; auto). cbn [Z.eqb Pos.eqb].
  rewrite (time_field_step compat _ 16 2%Z u2) by (auto; right; auto). cbn [Z.eqb Pos.eqb].
  cbn [time_loop bind].
  assert (Es : (if compat then s64 u1 else zagzig u1) = s).
  { unfold u1. destruct compat; [apply s64_u64; exact Hs|apply zagzig_zigzag; exact Hs]. }
  assert (En : (if compat then sbits 32 u2 else sbits 32 (u64 (zagzig u2))) = n).
  { unfold u2. destruct compat; [apply sbits32_ubits; exact Hn|rewrite zagzig_zigzag by exact Hn64; apply sbits32_u64; exact Hn]. }
  rewrite Es, En, time_norm_id by assumption. f_equal. f_equal.
  rewrite !len_app, !len_cons, !len_nil. lia.
Qed.

(** ** packed slices of plain scalars *)

Definition pv_val0 (c : codec) (x : val) : N :=
  match c with
  | CBool => match x with VBool true => 1 | _ => 0 end
  | CInt _ => zigzag (match x with VInt z => z | _ => 0%Z end)
  | CUint _ => match x with VInt z => u64 z | _ => 0 end
  | CFlat b => match x with VInt z => ubits b z | _ => 0 end
  | _ => 0
  end.
Definition pv_val (c : codec) (x : val) : N :=
  match c with
  | CPtr c0 => match x with VPtr (Some y) => pv_val0 c0 y | _ => 0 end
  | _ => pv_val0 c x
  end.

(** case analysis on an element codec of a packed varint slice *)
Ltac pvcases c H :=
  destruct c as [ | ? | ? | ? | | | | | ? | | ? | c | ? ? ? | ? | ? | ? | ? | ? ? | ? ? | | | ];
  cbn [plain_varint plain_varint0] in H; try contradiction;
  try (destruct c; cbn [plain_varint0] in H; try contradiction).

Lemma plain_varint_enc c x : plain_varint c -> wfv c x -> enc c x [] = append_varuint (pv_val c x).
Proof.
  intros H Hw. pvcases c H; try reflexivity;
    cbn [wfv] in Hw; destruct x as [ | | | | | |[y|]| | | | | |]; try contradiction; reflexivity.
Qed.

Lemma pv_val0_lt c x : plain_varint0 c -> wfv c x -> pv_val0 c x < two64.
Proof.
  destruct c; cbn [plain_varint0 wfv pv_val0]; try contradiction; intros Hb Hw.
  - destruct x as [[|]| | | | | | | | | | | |]; unfold two64; lia.
  - destruct x; try contradiction. apply zigzag_range. eapply int_range_64; eauto.
  - destruct x; try contradiction. apply u64_lt.
  - destruct x; try contradiction. apply ubits_range. exact Hb.
Qed.
Lemma pv_val_lt c x : plain_varint c -> wfv c x -> pv_val c x < two64.
Proof.
  intros H Hw. destruct c; try (apply pv_val0_lt; assumption).
  cbn [plain_varint] in H. cbn [wfv] in Hw. destruct x as [ | | | | | |[y|]| | | | | |]; try contradiction.
  cbn [pv_val]. apply pv_val0_lt; assumption.
Qed.

Lemma count_varints_unfold f rest count : rest <> [] ->
  count_varints (S f) rest count =
  (let '(_, n) := read_varuint rest in
   if (n <=? 0)%Z then Err else
   do rest1 <- go_drop "WTVarIntSliceWrapper.Read data[offset:]" (Z.to_N n) rest;
   count_varints f rest1 (count + 1)).
Proof. intros H. destruct rest; [congruence|reflexivity]. Qed.

Lemma count_varints_list : forall (us : list N) fuel count,
  Forall (fun u => u < two64) us ->
  (length (flat_map append_varuint us) < fuel)%nat ->
  count_varints fuel (flat_map append_varuint us) count = Ok (count + N.of_nat (length us)).
Proof.
  induction us as [|u us IH]; intros fuel count Hall Hf.
  - destruct fuel; cbn; f_equal; lia.
  - inversion Hall as [|? ? Hu Hall']; subst.
    destruct fuel as [|f]; [lia|]. cbn [flat_map].
    pose proof (append_varuint_length_bounds u) as Hb.
    rewrite count_varints_unfold.
    2:{ intros E. apply (f_equal (@length N)) in E. rewrite app_length in E. unfold len in Hb. cbn [length] in E. lia. }
    rewrite read_append_varuint by exact Hu. cbv beta iota.
    replace (Z.of_N (len (append_varuint u)) <=? 0)%Z with false by (symmetry; apply Z.leb_gt; lia).
    rewrite N2Z.id, go_drop_app. cbn [bind].
    rewrite IH; [f_equal; cbn [length]; lia|exact Hall'|].
    cbn [flat_map] in Hf. rewrite app_length in Hf. unfold len in Hb. lia.
Qed.

(** reading [l] self-delimiting elements laid end to end *)
Lemma read_elems_list c wt z : RTc c -> wire c <> WTLength -> wt = wire c ->
  forall (l : list val) fuel rest consumed acc,
  Forall (fun x => wfv c x /\ fits c x) l ->
  (length l <= fuel)%nat ->
  read_elems (dec c) wt z fuel (N.of_nat (length l)) (flat_map (fun x => enc c x []) l ++ rest) consumed acc
  = Ok (rev acc ++ map (merge c z) l, consumed + len (flat_map (fun x => enc c x []) l)).
Proof.
  intros Hrt Hwt ->. induction l as [|x l IH]; intros fuel rest consumed acc Hall Hf.
  - destruct fuel; cbn [read_elems length N.of_nat N.eqb flat_map map]; rewrite len_nil, app_nil_r, N.add_0_r; reflexivity.
  - inversion Hall as [|? ? [Hw Hfi] Hall']; subst.
    destruct fuel as [|f]; [cbn in Hf; lia|].
    cbn [read_elems].
    replace (N.of_nat (length (x :: l)) =? 0) with false by (symmetry; apply N.eqb_neq; cbn [length]; lia).
    cbn [flat_map]. rewrite <- app_assoc.
    destruct (Hrt x z Hw Hfi) as [_ RtS]. rewrite (RtS Hwt). cbn [bind].
    rewrite go_drop_app. cbn [bind].
    replace (N.of_nat (length (x :: l)) - 1) with (N.of_nat (length l)) by (cbn [length]; lia).
    rewrite IH by (auto; cbn [length] in Hf; lia).
    cbn [rev map]. rewrite <- app_assoc. cbn [app]. f_equal. f_equal. rewrite len_app. lia.
Qed.

(** counted slices: each element in its own length frame *)
Lemma read_framed_list c z : RTc c -> wire c = WTLength ->
  forall (l : list val) fuel rest consumed acc,
  Forall (fun x => wfv c x /\ fits c x /\ len (enc c x []) < two64) l ->
  (length l <= fuel)%nat ->
  read_framed_elems (dec c) z fuel (N.of_nat (length l)) (flat_map (fun x => lenframe (enc c x [])) l ++ rest) consumed acc
  = Ok (rev acc ++ map (merge c z) l, consumed + len (flat_map (fun x => lenframe (enc c x [])) l)).
Proof.
  intros Hrt Hwt. induction l as [|x l IH]; intros fuel rest consumed acc Hall Hf.
  - destruct fuel; cbn [read_framed_elems length N.of_nat N.eqb flat_map map]; rewrite len_nil, app_nil_r, N.add_0_r; reflexivity.
  - inversion Hall as [|? ? (Hw & Hfi & Hl) Hall']; subst.
    destruct fuel as [|f]; [cbn in Hf; lia|].
    cbn [read_framed_elems].
    replace (N.of_nat (length (x :: l)) =? 0) with false by (symmetry; apply N.eqb_neq; cbn [length]; lia).
    cbn [flat_map]. change (lenframe (enc c x [])) with (append_varuint (len (enc c x [])) ++ enc c x []). rewrite <- !app_assoc.
    rewrite read_append_varuint by exact Hl. cbv beta iota.
    pose proof (append_varuint_length_bounds (len (enc c x []))) as Hb.
    replace (Z.of_N (len (append_varuint (len (enc c x [])))) <=? 0)%Z with false by (symmetry; apply Z.leb_gt; lia).
    rewrite N2Z.id. rewrite go_drop_app. cbn [bind].
    rewrite len_app.
    replace (len (enc c x []) + len (flat_map (fun x0 => lenframe (enc c x0 [])) l ++ rest) <? len (enc c x [])) with false
      by (symmetry; apply N.ltb_ge; lia).
    rewrite go_take_app. cbn [bind].
    destruct (Hrt x z Hw Hfi) as [RtL _]. rewrite <- Hwt at 1. rewrite (RtL Hwt). cbn [bind].
    rewrite go_drop_app. cbn [bind].
    replace (N.of_nat (length (x :: l)) - 1) with (N.of_nat (length l)) by (cbn [length]; lia).
    rewrite IH by (auto; cbn [length] in Hf; lia).
    cbn [rev map]. rewrite <- app_assoc. cbn [app]. f_equal. f_equal.
    rewrite !len_app. lia.
Qed.

(** ** map entries *)

(** one tagged field of an entry as readTagAndLength and the field's codec see it *)
Lemma entry_field : forall c idx v more prior site,
  rt_ok c -> top_ok c -> RTc c -> (0 <= idx < 2305843009213693952)%Z -> wfv c v -> fits c v ->
  let e := enc c v (field_tag c idx) in
  exists fdata after hdr used,
    read_tag_and_length (e ++ more) = Ok (wire c, idx, fdata, after, hdr) /\
    dec c fdata (wire c) prior = Ok (merge c prior v, used) /\
    go_drop site used after = Ok more /\ hdr + used = len e /\ e <> [].
Proof.
  intros c idx v more prior site Hok Htop Hrt Hidx Hw Hf e.
  set (tg := field_tag c idx) in *.
  destruct (tagged_enc_shape c Hok Htop v idx Hw Hf) as [ShL ShS]. fold tg in ShL, ShS.
  destruct (Hrt v prior Hw Hf) as [RtL RtS].
  pose proof (field_tag_nonempty c idx) as Htg. fold tg in Htg.
  assert (Hne : forall p, tg ++ p <> []).
  { intros p E0. apply (f_equal (@length N)) in E0. rewrite app_length in E0. unfold len in Htg. cbn [length] in E0. lia. }
  assert (Hhead : forall payload, read_tag_and_length (tg ++ payload) =
            (do (fdata, rest2, k) <- read_field_data "MapCodec.readTagAndLength data[offset:fieldEnd]" (wire c) payload;
             Ok (wire c, idx, fdata, rest2, len tg + k))).
  { intros payload. unfold read_tag_and_length. unfold tg at 1. rewrite read_tag_field by exact Hidx. fold tg. cbv beta iota.
    replace (Z.of_N (len tg) <=? 0)%Z with false by (symmetry; apply Z.leb_gt; lia).
    rewrite N2Z.id, go_drop_app. cbn [bind]. reflexivity. }
  destruct (N.eq_dec (wire c) WTLength) as [Hwt|Hwt].
  - destruct (ShL Hwt) as [Ee Hlen]. unfold e. rewrite Ee, <- !app_assoc, Hhead.
    unfold read_field_data. rewrite Hwt. cbn [N.eqb WTLength Pos.eqb].
    rewrite read_append_varuint by exact Hlen.
    pose proof (append_varuint_length_bounds (len (enc c v []))) as Hvb.
    replace (Z.of_N (len (append_varuint (len (enc c v [])))) <=? 0)%Z with false by (symmetry; apply Z.leb_gt; lia).
    rewrite N2Z.id, go_drop_app. cbn [bind].
    rewrite len_app. replace (len (enc c v []) + len more <? len (enc c v [])) with false by (symmetry; apply N.ltb_ge; lia).
    rewrite go_take_app. cbn [bind].
    eexists _, _, _, _. split; [reflexivity|]. split; [rewrite <- Hwt at 1; apply (RtL Hwt)|].
    split; [apply go_drop_app|]. split; [rewrite !len_app; lia|]. apply Hne.
  - pose proof (ShS Hwt) as Ee. unfold e. rewrite Ee, <- !app_assoc, Hhead.
    unfold read_field_data. replace (wire c =? WTLength) with false by (symmetry; apply N.eqb_neq; exact Hwt).
    cbn [bind].
    eexists _, _, _, _. split; [reflexivity|]. split; [apply (RtS Hwt more)|].
    split; [apply go_drop_app|]. split; [rewrite !len_app; lia|]. apply Hne.
Qed.

Lemma read_entry : forall kc vc e m,
  rt_ok kc -> top_ok kc -> RTc kc -> rt_ok vc -> top_ok vc -> RTc vc ->
  (omit kc (fst e) = true \/ wfv kc (fst e)) -> fits kc (fst e) ->
  (omit vc (snd e) = true \/ wfv vc (snd e)) -> fits vc (snd e) ->
  read_map_entry (dec kc) (dec vc) (zero kc) (zero vc) (entry_body kc vc e) m
  = Ok (entry_merge kc vc m e, len (entry_body kc vc e)).
Proof.
  intros kc vc [k x] m Hokk Htk Hrtk Hokv Htv Hrtv Hwk Hfk Hwv Hfv. cbn [fst snd] in *.
  unfold entry_body, entry_merge. cbn [fst snd].
  assert (H1 : (0 <= 1 < 2305843009213693952)%Z) by lia.
  assert (H2 : (0 <= 2 < 2305843009213693952)%Z) by lia.
  destruct (omit kc k) eqn:Eok; destruct (omit vc x) eqn:Eov; cbn [app].
  - (* nothing written *) reflexivity.
  - (* value only: the key is zero *)
    destruct Hwv as [Hwv|Hwv]; [congruence|].
    destruct (entry_field vc 2 x [] (match map_lookup (zero kc) m with Some y => y | None => zero vc end)
                "MapCodec.readMapEntry data[offset:]" Hokv Htv Hrtv H2 Hwv Hfv)
      as (fdata & after & hdr & used & Hh & Hd & Hg & Hl & Hne).
    rewrite app_nil_r in Hh.
    unfold read_map_entry. destruct (enc vc x (field_tag vc 2)) as [|b0 r0] eqn:Ee; [congruence|]. rewrite <- Ee in *.
    rewrite Hh. cbn [bind]. change (2 =? 1)%Z with false. cbv iota. rewrite Hd. cbn [bind]. rewrite Hl. reflexivity.
  - (* key only: the value is zero *)
    destruct Hwk as [Hwk|Hwk]; [congruence|].
    destruct (entry_field kc 1 k [] (zero kc) "MapCodec.readMapEntry data[offset:]" Hokk Htk Hrtk H1 Hwk Hfk)
      as (fdata & after & hdr & used & Hh & Hd & Hg & Hl & Hne).
    rewrite !app_nil_r in *.
    unfold read_map_entry. destruct (enc kc k (field_tag kc 1)) as [|b0 r0] eqn:Ee; [congruence|]. rewrite <- Ee in *.
    rewrite Hh. cbn [bind]. change (1 =? 1)%Z with true. cbv iota. rewrite Hd. cbn [bind]. rewrite Hg. cbn [bind].
    rewrite Hl. reflexivity.
  - (* both *)
    destruct Hwk as [Hwk|Hwk]; [congruence|]. destruct Hwv as [Hwv|Hwv]; [congruence|].
    set (ev := enc vc x (field_tag vc 2)).
    destruct (entry_field kc 1 k ev (zero kc) "MapCodec.readMapEntry data[offset:]" Hokk Htk Hrtk H1 Hwk Hfk)
      as (fdata & after & hdr & used & Hh & Hd & Hg & Hl & Hne).
    destruct (entry_field vc 2 x [] (match map_lookup (merge kc (zero kc) k) m with Some y => y | None => zero vc end)
                "MapCodec.readMapEntry data[offset:]" Hokv Htv Hrtv H2 Hwv Hfv)
      as (fdata2 & after2 & hdr2 & used2 & Hh2 & Hd2 & Hg2 & Hl2 & Hne2).
    fold ev in Hh2, Hl2, Hne2. rewrite app_nil_r in Hh2.
    unfold read_map_entry.
    destruct (enc kc k (field_tag kc 1) ++ ev) as [|b0 r0] eqn:Ee.
    { destruct (enc kc k (field_tag kc 1)); [congruence|discriminate Ee]. }
    rewrite <- Ee in *. rewrite Hh. cbn [bind]. change (1 =? 1)%Z with true. cbv iota. rewrite Hd. cbn [bind]. rewrite Hg. cbn [bind].
    destruct ev as [|c0 r1] eqn:Eev; [congruence|]. rewrite <- Eev in *.
    rewrite Hh2. cbn [bind]. rewrite Hd2. cbn [bind]. rewrite len_app. f_equal. f_equal. lia.
Qed.

(** the entry loop of MapCodec.Read *)
Lemma map_entries_list : forall kc vc,
  rt_ok kc -> top_ok kc -> RTc kc -> rt_ok vc -> top_ok vc -> RTc vc ->
  forall (es : list (val * val)) fuel rest consumed m,
  Forall (fun e => (omit kc (fst e) = true \/ wfv kc (fst e)) /\ fits kc (fst e) /\
                   (omit vc (snd e) = true \/ wfv vc (snd e)) /\ fits vc (snd e) /\
                   len (entry_body kc vc e) < two64) es ->
  (length es <= fuel)%nat ->
  map_entries (dec kc) (dec vc) (zero kc) (zero vc) fuel (N.of_nat (length es))
    (flat_map (fun e => lenframe (entry_body kc vc e)) es ++ rest) consumed m
  = Ok (fold_left (entry_merge kc vc) es m, consumed + len (flat_map (fun e => lenframe (entry_body kc vc e)) es)).
Proof.
  intros kc vc Hokk Htk Hrtk Hokv Htv Hrtv. induction es as [|e es IH]; intros fuel rest consumed m Hall Hf.
  - destruct fuel; cbn [map_entries length N.of_nat N.eqb flat_map fold_left]; rewrite len_nil, N.add_0_r; reflexivity.
  - inversion Hall as [|? ? (Hwk & Hfk & Hwv & Hfv & Hl) Hall']; subst.
    destruct fuel as [|f]; [cbn in Hf; lia|].
    cbn [map_entries].
    replace (N.of_nat (length (e :: es)) =? 0) with false by (symmetry; apply N.eqb_neq; cbn [length]; lia).
    cbn [flat_map]. change (lenframe (entry_body kc vc e)) with (append_varuint (len (entry_body kc vc e)) ++ entry_body kc vc e).
    rewrite <- !app_assoc. rewrite read_append_varuint by exact Hl. cbv beta iota.
    pose proof (append_varuint_length_bounds (len (entry_body kc vc e))) as Hb.
    replace (Z.of_N (len (append_varuint (len (entry_body kc vc e)))) <=? 0)%Z with false by (symmetry; apply Z.leb_gt; lia).
    rewrite N2Z.id, go_drop_app. cbn [bind].
    rewrite len_app.
    replace (len (entry_body kc vc e) + len (flat_map (fun e0 => lenframe (entry_body kc vc e0)) es ++ rest) <? len (entry_body kc vc e))
      with false by (symmetry; apply N.ltb_ge; lia).
    rewrite go_take_app. cbn [bind].
    rewrite read_entry by assumption. cbn [bind]. rewrite go_drop_app. cbn [bind].
    replace (N.of_nat (length (e :: es)) - 1) with (N.of_nat (length es)) by (cbn [length]; lia).
    rewrite IH by (auto; cbn [length] in Hf; lia).
    cbn [fold_left]. f_equal. f_equal. rewrite !len_app. lia.
Qed.

(** ** a field in the struct loop, for every kind of field codec *)
Definition stbl (fs : list (fld codec)) := map (fun f => (f_index f, f_slot f, dec (f_codec f))) fs.
Definition entries_of (v : val) : list (val * val) := match v with VMap (Some m) => m | _ => [] end.

Lemma set_nth_self : forall l i d, set_nth i (nth i l d) l = l.
Proof. unfold set_nth. induction l as [|z r IH]; intros i d; destruct i; cbn; try reflexivity. f_equal. apply IH. Qed.

Section FieldStepMap.
  Variable fs : list (fld codec).
  Hypothesis Hnd : NoDup (map (fun f => f_index f) fs).

  Lemma field_step_proto_map : forall kc vc (es : list (val * val)) f cur more consumed fuel,
    In f fs -> f_codec f = CMapProto kc vc ->
    rt_ok kc -> top_ok kc -> RTc kc -> rt_ok vc -> top_ok vc -> RTc vc ->
    (0 <= f_index f < 2305843009213693952)%Z ->
    Forall (fun e => (omit kc (fst e) = true \/ wfv kc (fst e)) /\ fits kc (fst e) /\
                     (omit vc (snd e) = true \/ wfv vc (snd e)) /\ fits vc (snd e) /\
                     len (entry_body kc vc e) < two64) es ->
    let tg := field_tag (CMapProto kc vc) (f_index f) in
    let e := flat_map (fun en => tg ++ lenframe (entry_body kc vc en)) es in
    (length (e ++ more) < fuel)%nat ->
    struct_loop (stbl fs) fuel (e ++ more) consumed cur
    = struct_loop (stbl fs) fuel more (consumed + len e)
        (match es with
         | [] => cur
         | _ => set_nth (f_slot f) (VMap (Some (fold_left (entry_merge kc vc) es (entries_of (slot cur (f_slot f)))))) cur
         end).
  Proof.
    intros kc vc es. induction es as [|en es IH]; intros f cur more consumed fuel Hin Hc Hokk Htk Hrtk Hokv Htv Hrtv Hidx Hall tg e Hfuel.
    - unfold e. cbn [flat_map app]. rewrite len_nil, N.add_0_r. reflexivity.
    - inversion Hall as [|? ? (Hwk & Hfk & Hwv & Hfv & Hl) Hall']; subst.
      pose proof (field_tag_nonempty (CMapProto kc vc) (f_index f)) as Htg. fold tg in Htg.
      destruct fuel as [|fuel']; [lia|].
      unfold e. cbn [flat_map]. change (lenframe (entry_body kc vc en)) with (append_varuint (len (entry_body kc vc en)) ++ entry_body kc vc en).
      rewrite <- !app_assoc.
      rewrite struct_loop_unfold.
      2:{ intros E0. apply (f_equal (@length N)) in E0. rewrite app_length in E0. unfold len in Htg. cbn [length] in E0. lia. }
      unfold tg at 1. rewrite read_tag_field by exact Hidx. fold tg. cbv beta iota.
      replace (Z.of_N (len tg) <=? 0)%Z with false by (symmetry; apply Z.leb_gt; lia).
      rewrite N2Z.id, go_drop_app. cbn [bind].
      unfold stbl. rewrite (find_field_tbl fs f Hin Hnd). rewrite Hc.
      unfold read_field_data. cbn [wire N.eqb WTLength Pos.eqb].
      rewrite read_append_varuint by exact Hl.
      pose proof (append_varuint_length_bounds (len (entry_body kc vc en))) as Hvb.
      replace (Z.of_N (len (append_varuint (len (entry_body kc vc en)))) <=? 0)%Z with false by (symmetry; apply Z.leb_gt; lia).
      rewrite N2Z.id, go_drop_app. cbn [bind].
      rewrite len_app.
      replace (len (entry_body kc vc en) + len (flat_map (fun en0 => tg ++ lenframe (entry_body kc vc en0)) es ++ more) <? len (entry_body kc vc en))
        with false by (symmetry; apply N.ltb_ge; lia).
      rewrite go_take_app. cbn [bind dec].
      rewrite read_entry by assumption. cbn [bind]. rewrite go_drop_app. cbn [bind].
      assert (Hfl : (length (flat_map (fun en0 => tg ++ lenframe (entry_body kc vc en0)) es ++ more) < fuel')%nat).
      { unfold e in Hfuel. cbn [flat_map] in Hfuel. rewrite <- !app_assoc in Hfuel. rewrite !app_length in Hfuel.
        rewrite app_length. unfold len in Htg. lia. }
      rewrite (struct_loop_fuel _ fuel' (S fuel')) by (exact Hfl || lia).
      fold (stbl fs).
      rewrite (IH f _ more _ (S fuel') Hin Hc Hokk Htk Hrtk Hokv Htv Hrtv Hidx Hall') by (fold tg; lia).
      fold tg. f_equal.
      + unfold lenframe. rewrite !len_app. lia.
      + fold (entries_of (slot cur (f_slot f))).
        destruct es as [|en2 es'].
        * cbn [fold_left]. reflexivity.
        * rewrite set_nth_twice. apply set_nth_ext. intros Hi.
          unfold slot. rewrite nth_set_nth_hit by exact Hi. cbn [entries_of fold_left]. reflexivity.
  Qed.
End FieldStepMap.

(** [FRT c]: a written (not omitted) field of codec [c] goes through the struct
    loop of any struct having that field: the loop advances past its encoding
    and the field's slot receives the merge *)
Definition FRT (c : codec) : Prop :=
  forall fs f fv cur more consumed fuel,
    NoDup (map (fun f => f_index f) fs) -> In f fs -> f_codec f = c ->
    (0 <= f_index f < 2305843009213693952)%Z -> wfv c fv -> fits c fv -> omit c fv = false ->
    (length (enc c fv (field_tag c (f_index f)) ++ more) < fuel)%nat ->
    struct_loop (stbl fs) fuel (enc c fv (field_tag c (f_index f)) ++ more) consumed cur
    = struct_loop (stbl fs) fuel more (consumed + len (enc c fv (field_tag c (f_index f))))
        (set_nth (f_slot f) (merge c (slot cur (f_slot f)) fv) cur).

Lemma frt_of_rtc c : rt_ok c -> top_ok c -> RTc c -> FRT c.
Proof.
  intros Hok Htop Hrt fs f fv cur more consumed fuel Hnd Hin Hc Hidx Hw Hf _ Hfuel. subst c.
  apply (field_step fs Hnd f fv cur more consumed fuel Hin Hok Htop Hidx Hrt Hw Hf Hfuel).
Qed.

Lemma frt_proto_slice c' : rt_ok c' -> top_ok c' -> wire c' = WTLength -> RTc c' -> FRT (CSliceProto c').
Proof.
  intros Hok Htop Hwt Hrt fs f fv cur more consumed fuel Hnd Hin Hc Hidx Hw Hf Ho Hfuel.
  cbn [wfv] in Hw. destruct fv as [ | | | | | | | | |l| | |]; try contradiction.
  cbn [fits slice_elems] in Hf. cbn [omit] in Ho. cbn [enc slice_elems] in *.
  assert (Hall : Forall (fun x => wfv c' x /\ fits c' x) l).
  { rewrite Forall_forall in *. intros x Hx. split; [apply Hw|apply Hf]; exact Hx. }
  unfold stbl. rewrite (field_step_proto_slice fs Hnd f c' l cur more consumed fuel Hin Hc Hok Htop Hwt Hrt Hidx Hall Hfuel).
  destruct l as [|x l]; [discriminate Ho|]. reflexivity.
Qed.

Lemma frt_proto_map kc vc : rt_ok kc -> top_ok kc -> RTc kc -> rt_ok vc -> top_ok vc -> RTc vc -> FRT (CMapProto kc vc).
Proof.
  intros Hokk Htk Hrtk Hokv Htv Hrtv fs f fv cur more consumed fuel Hnd Hin Hc Hidx Hw Hf Ho Hfuel.
  cbn [wfv] in Hw. destruct fv as [ | | | | | | | | | |[es|]| |]; try contradiction.
  destruct Hf as [_ Hfe]. cbn [map_entries_of] in Hfe. cbn [enc] in *.
  change (flat_map (fun e : val * val => field_tag (CMapProto kc vc) (f_index f)
            ++ lenframe ((if omit kc (fst e) then [] else enc kc (fst e) (field_tag kc 1))
                         ++ (if omit vc (snd e) then [] else enc vc (snd e) (field_tag vc 2)))) es)
    with (flat_map (fun en => field_tag (CMapProto kc vc) (f_index f) ++ lenframe (entry_body kc vc en)) es) in *.
  assert (Hall : Forall (fun e => (omit kc (fst e) = true \/ wfv kc (fst e)) /\ fits kc (fst e) /\
                     (omit vc (snd e) = true \/ wfv vc (snd e)) /\ fits vc (snd e) /\
                     len (entry_body kc vc e) < two64) es).
  { rewrite Forall_forall in *. intros e He. destruct (Hw e He) as [A B]. destruct (Hfe e He) as (C & D & E). auto. }
  rewrite (field_step_proto_map fs Hnd kc vc es f cur more consumed fuel Hin Hc Hokk Htk Hrtk Hokv Htv Hrtv Hidx Hall Hfuel).
  destruct es as [|e0 es0].
  - cbn [merge]. unfold slot. rewrite set_nth_self. reflexivity.
  - rewrite merge_map_proto. reflexivity.
Qed.

(** ** all fields of a struct *)
Section FieldsLoop.
  Variable fs : list (fld codec).
  Hypothesis Hnd : NoDup (map (fun f => f_index f) fs).

  Lemma fields_loop : forall (l : list (fld codec)) vs cur more consumed fuel,
    incl l fs ->
    Forall (fun f => (0 <= f_index f < 2305843009213693952)%Z /\ FRT (f_codec f)) l ->
    Forall (fun f => (omit (f_codec f) (slot vs (f_slot f)) = true \/ wfv (f_codec f) (slot vs (f_slot f)))
                     /\ fits (f_codec f) (slot vs (f_slot f))) l ->
    (length (flat_map (fenc vs) l ++ more) < fuel)%nat ->
    struct_loop (stbl fs) fuel (flat_map (fenc vs) l ++ more) consumed cur
    = struct_loop (stbl fs) fuel more (consumed + len (flat_map (fenc vs) l)) (fold_left (fmerge vs) l cur).
  Proof.
    induction l as [|f r IH]; intros vs cur more consumed fuel Hincl Hc Hv Hfuel.
    - cbn [flat_map app fold_left]. rewrite len_nil, N.add_0_r. reflexivity.
    - inversion Hc as [|? ? (Hidx & Hfrt) Hc']; subst.
      inversion Hv as [|? ? (Hwo & Hfit) Hv']; subst.
      assert (Hin : In f fs) by (apply Hincl; left; reflexivity).
      assert (Hincl' : incl r fs) by (intros x Hx; apply Hincl; right; exact Hx).
      cbn [flat_map fold_left]. unfold fenc at 1 3, fmerge at 2. cbv zeta.
      destruct (omit (f_codec f) (slot vs (f_slot f))) eqn:Eo.
      + cbn [app]. apply IH; auto.
        cbn [flat_map] in Hfuel. unfold fenc at 1 in Hfuel. cbv zeta in Hfuel. rewrite Eo in Hfuel. exact Hfuel.
      + destruct Hwo as [Hwo|Hw]; [congruence|].
        rewrite <- app_assoc.
        rewrite (Hfrt fs f (slot vs (f_slot f)) cur (flat_map (fenc vs) r ++ more) consumed fuel Hnd Hin eq_refl Hidx Hw Hfit Eo).
        * rewrite IH; auto.
          -- rewrite len_app, N.add_assoc. reflexivity.
          -- cbn [flat_map] in Hfuel. unfold fenc at 1 in Hfuel. cbv zeta in Hfuel. rewrite Eo in Hfuel.
             rewrite <- app_assoc in Hfuel. rewrite app_length in Hfuel. lia.
        * cbn [flat_map] in Hfuel. unfold fenc at 1 in Hfuel. cbv zeta in Hfuel. rewrite Eo in Hfuel.
          rewrite <- app_assoc in Hfuel. exact Hfuel.
  Qed.
End FieldsLoop.

(** ** the round-trip theorem *)

Lemma rt_struct_fields nm n fs :
  rt_ok (CStruct nm n fs) ->
  Forall (fun f => rt_ok (f_codec f) /\ (0 <= f_index f < 2305843009213693952)%Z /\ (f_slot f < n)%nat) fs
  /\ NoDup (map (fun f => f_index f) fs) /\ NoDup (map (fun f => f_slot f) fs).
Proof.
  cbn [rt_ok]. intros (Hall & H1 & H2). split; [|auto]. clear H1 H2.
  induction fs as [|f r IH]; [constructor|]. constructor; [apply Hall|apply IH, Hall].
Qed.

Lemma wfv_struct_fields nm n fs vs :
  wfv (CStruct nm n fs) (VStruct vs) ->
  length vs = n /\ Forall (fun f => omit (f_codec f) (slot vs (f_slot f)) = true \/ wfv (f_codec f) (slot vs (f_slot f))) fs.
Proof.
  cbn [wfv]. intros [Hl Hall]. split; [exact Hl|].
  induction fs as [|f r IH]; [constructor|]. constructor; [apply Hall|apply IH, Hall].
Qed.

Lemma frames_len_ge {A} (h : A -> bytes) (l : list A) :
  N.of_nat (length l) <= len (flat_map (fun x => lenframe (h x)) l).
Proof.
  induction l as [|x l IH]; cbn [flat_map length]; [rewrite len_nil; lia|].
  unfold lenframe at 1. rewrite !len_app. pose proof (append_varuint_length_bounds (len (h x))). lia.
Qed.

(** both at once: [RTc] wherever the codec can stand on its own, and [FRT]
    for every codec as a struct field *)
Definition RTG (c : codec) : Prop := (top_ok c -> RTc c) /\ FRT c.

Lemma rtg_of_rtc c : rt_ok c -> top_ok c -> RTc c -> RTG c.
Proof. intros Hok Htop Hrt. split; [intros _; exact Hrt|apply frt_of_rtc; assumption]. Qed.

Theorem roundtrip_gen : forall c, rt_ok c -> RTG c.
Proof.
  induction c as [ |b|b|b| | | | |compat| |c IH|c IH|nm n fs IH|c IH|c IH|c IH|c IH|kc vc IHk IHv|kc vc IHk IHv| | | ]
    using codec_ind'; intros Hok; assert (Hok0 := Hok); cbn [rt_ok] in Hok; try contradiction;
    try (apply rtg_of_rtc; [exact Hok0|exact I|]; intros v prior Hw Hf;
         (split; intros Hwt; [try (cbn [wire] in Hwt; unfold WTVarInt, WT64, WT32, WTLength, WTSlice in Hwt; congruence)
                             |try (cbn [wire] in Hwt; unfold WTVarInt, WT64, WT32, WTLength, WTSlice in Hwt; congruence); intros rest])).
  - (* CBool *) cbn [wfv] in Hw. destruct v as [bb| | | | | | | | | | | |]; try contradiction.
    cbn [enc dec app merge]. rewrite read_scalar_append by (destruct bb; unfold two64; lia).
    f_equal. f_equal. destruct bb; reflexivity.
  - (* CInt *) cbn [wfv] in Hw. destruct v as [|z| | | | | | | | | | |]; try contradiction.
    cbn [enc dec app merge]. unfold append_varint.
    rewrite read_scalar_append by (apply zigzag_range; eapply int_range_64; eauto).
    rewrite store_int_roundtrip by assumption. reflexivity.
  - (* CUint *) cbn [wfv] in Hw. destruct v as [|z| | | | | | | | | | |]; try contradiction.
    cbn [enc dec app merge]. rewrite read_scalar_append by apply u64_lt.
    rewrite store_uint_roundtrip by assumption. reflexivity.
  - (* CFlat *) cbn [wfv] in Hw. destruct v as [|z| | | | | | | | | | |]; try contradiction.
    cbn [enc dec app merge]. rewrite read_scalar_append by (apply ubits_range; exact Hok).
    rewrite store_flat_roundtrip by assumption. reflexivity.
  - (* CF32 *) cbn [wfv] in Hw. destruct v as [| |x| | | | | | | | | |]; try contradiction.
    cbn [enc dec app merge wire]. rewrite len_app, len_le_bytes.
    replace (N.of_nat 4 + len rest <? 4) with false by (symmetry; apply N.ltb_ge; lia).
    rewrite le_value_le_bytes by (change (256 ^ N.of_nat 4) with 4294967296; exact Hw). reflexivity.
  - (* CF64 *) cbn [wfv] in Hw. destruct v as [| | |x| | | | | | | | |]; try contradiction.
    cbn [enc dec app merge wire]. rewrite len_app, len_le_bytes.
    replace (N.of_nat 8 + len rest <? 8) with false by (symmetry; apply N.ltb_ge; lia).
    rewrite le_value_le_bytes by (change (256 ^ N.of_nat 8) with two64; exact Hw). reflexivity.
  - (* CString *) cbn [wfv] in Hw. destruct v; try contradiction. reflexivity.
  - (* CBytes *) cbn [wfv] in Hw. destruct v; try contradiction. reflexivity.
  - (* CTime *) cbn [wfv] in Hw. destruct v; try contradiction. destruct Hw as [Hs Hn].
    cbn [enc frame_tag merge wire]. apply time_roundtrip; assumption.
  - (* CNull, length-delimited payload *)
    cbn [wfv] in Hw. destruct v as [ | | | | | | |valid p| | | | |]; try contradiction. destruct valid; [|contradiction].
    cbn [fits] in Hf. cbn [wire] in Hwt. destruct Hok as [Hok Ht]. destruct (proj1 (IH Hok) Ht p (zero c) Hw Hf) as [RL _].
    cbn [enc dec merge wire]. rewrite (RL Hwt). reflexivity.
  - cbn [wfv] in Hw. destruct v as [ | | | | | | |valid p| | | | |]; try contradiction. destruct valid; [|contradiction].
    cbn [fits] in Hf. cbn [wire] in Hwt. destruct Hok as [Hok Ht]. destruct (proj1 (IH Hok) Ht p (zero c) Hw Hf) as [_ RS].
    cbn [enc dec merge wire]. rewrite (RS Hwt rest). reflexivity.
  - (* CPtr *)
    cbn [wfv] in Hw. destruct v as [ | | | | | |[p|]| | | | | |]; try contradiction.
    cbn [fits] in Hf. cbn [wire] in Hwt.
    destruct Hok as [Hok Ht]. destruct (proj1 (IH Hok) Ht p (match prior with VPtr (Some q) => q | _ => zero c end) Hw Hf) as [RL _].
    cbn [enc dec merge wire]. rewrite (RL Hwt). reflexivity.
  - cbn [wfv] in Hw. destruct v as [ | | | | | |[p|]| | | | | |]; try contradiction.
    cbn [fits] in Hf. cbn [wire] in Hwt.
    destruct Hok as [Hok Ht]. destruct (proj1 (IH Hok) Ht p (match prior with VPtr (Some q) => q | _ => zero c end) Hw Hf) as [_ RS].
    cbn [enc dec merge wire]. rewrite (RS Hwt rest). reflexivity.
  - (* CStruct *)
    assert (Hok' : rt_ok (CStruct nm n fs)) by exact Hok.
    destruct (rt_struct_fields nm n fs Hok') as (Hfs & Hnd & Hns).
    destruct v as [ | | | | | | | |vs| | | |]; try (cbn [wfv] in Hw; contradiction).
    destruct (wfv_struct_fields nm n fs vs Hw) as [Hlen Hwfs].
    pose proof (fits_struct_fields nm n fs (VStruct vs) Hf) as Hfits. cbn [struct_fields] in Hfits.
    cbn [enc frame_tag dec wire merge struct_fields].
    set (cur := match prior with VStruct ps => ps | _ => struct_fields (zero (CStruct nm n fs)) end).
    change (flat_map (fun f : fld codec => if omit (f_codec f) (slot vs (f_slot f)) then []
              else enc (f_codec f) (slot vs (f_slot f)) (field_tag (f_codec f) (f_index f))) fs)
      with (flat_map (fenc vs) fs).
    set (body := flat_map (fenc vs) fs).
    pose proof (fields_loop fs Hnd fs vs cur [] 0 (S (length body)) (incl_refl fs)) as HL.
    rewrite !app_nil_r in HL. fold body in HL. unfold stbl in HL.
    rewrite HL.
    + cbn [struct_loop bind]. rewrite N.add_0_l. reflexivity.
    + rewrite Forall_forall in *. intros f Hin. destruct (Hfs f Hin) as (A & B & _). split; [exact B|]. apply (proj2 (IH f Hin A)).
    + rewrite Forall_forall in *. intros f Hin. split; [apply Hwfs; exact Hin|apply Hfits; exact Hin].
    + lia.
  - (* CSliceVar *)
    destruct v as [ | | | | | | | | |l| | |]; try (cbn [wfv] in Hw; contradiction).
    cbn [wfv] in Hw. destruct Hf as [Hfe Hlen].
    assert (Hokc : rt_ok c /\ top_ok c /\ wire c <> WTLength /\ wire c = WTVarInt).
    { clear -Hok. pvcases c Hok; cbn [rt_ok top_ok wire]; repeat split; auto; discriminate. }
    destruct Hokc as (Hokc & Htc & Hwc).
    assert (Hrt : RTc c) by (apply (proj1 (IH Hokc)); exact Htc).
    cbn [enc frame_tag dec merge wire slice_elems].
    assert (Eb : flat_map (fun x => enc c x []) l = flat_map append_varuint (map (pv_val c) l)).
    { clear -Hok Hw. induction l as [|x l IHl]; cbn [flat_map map]; [reflexivity|]. inversion Hw; subst.
      rewrite IHl, plain_varint_enc by assumption. reflexivity. }
    rewrite Eb at 1 2.
    rewrite count_varints_list.
    + cbn [bind]. rewrite map_length. unfold alloc_guard.
      assert (Hcnt : N.of_nat (length l) <= len (flat_map (fun x => enc c x []) l)).
      { clear -Hok Hw. induction l as [|x l IHl]; cbn [flat_map length]; [rewrite len_nil; lia|]. inversion Hw; subst.
        rewrite len_app, plain_varint_enc by assumption. pose proof (append_varuint_length_bounds (pv_val c x)).
        assert (N.of_nat (length l) <= len (flat_map (fun x0 => enc c x0 []) l)) by (apply IHl; assumption). lia. }
      replace (0 + N.of_nat (length l) <=? len (flat_map (fun x => enc c x []) l)) with true by (symmetry; apply N.leb_le; lia).
      cbn [bind]. rewrite N.add_0_l.
      pose proof (read_elems_list c WTVarInt (zero c) Hrt (proj1 Hwc) (eq_sym (proj2 Hwc)) l (S (length (flat_map (fun x => enc c x []) l))) [] 0 []) as HR.
      rewrite app_nil_r in HR. rewrite HR.
      * cbn [bind rev app]. f_equal. f_equal. f_equal.
        clear -Hok Hw. induction l as [|x l IHl]; cbn [map]; [reflexivity|]. inversion Hw as [|? ? Hwx Hwl]; subst. rewrite IHl by exact Hwl.
        f_equal. clear -Hok Hwx. pvcases c Hok; try reflexivity;
          cbn [wfv] in Hwx; destruct x as [ | | | | | |[y|]| | | | | |]; try contradiction; reflexivity.
      * rewrite Forall_forall in *. intros x Hx. split; [apply Hw; exact Hx|apply Hfe; exact Hx].
      * unfold len in Hcnt. lia.
    + rewrite Forall_forall in *. intros u Hu. apply in_map_iff in Hu. destruct Hu as (x & <- & Hx). apply pv_val_lt; auto.
    + lia.
  - (* CSliceFix *)
    destruct v as [ | | | | | | | | |l| | |]; try (cbn [wfv] in Hw; contradiction).
    cbn [wfv] in Hw. destruct Hf as (Hfix & Hfe & Hlen).
    assert (Hrt : RTc c) by (apply (proj1 (IH ltac:(destruct c; cbn [plain_fixed rt_ok] in *; auto; contradiction)));
                             destruct c; cbn [plain_fixed] in Hok; try contradiction; exact I).
    assert (Hwc : wire c <> WTLength) by (destruct c; cbn [plain_fixed] in Hok; try contradiction; discriminate).
    assert (Hw0 : fixed_width c <> 0) by (destruct c; cbn [plain_fixed] in Hok; try contradiction; discriminate).
    cbn [enc frame_tag dec merge wire slice_elems].
    replace (fixed_width c =? 0) with false by (symmetry; apply N.eqb_neq; exact Hw0).
    set (data := flat_map (fun x => enc c x []) l).
    assert (Hdl : len data = fixed_width c * N.of_nat (length l)) by (symmetry; apply fixed_flat; exact Hfix).
    replace (len data / fixed_width c) with (N.of_nat (length l))
      by (rewrite Hdl, N.mul_comm, N.div_mul by exact Hw0; reflexivity).
    unfold alloc_guard.
    replace (N.of_nat (length l) <=? len data) with true by (symmetry; apply N.leb_le; rewrite Hdl; nia).
    cbn [bind].
    pose proof (read_elems_list c (wire c) (zero c) Hrt Hwc eq_refl l (S (length data)) [] 0 []) as HR.
    rewrite app_nil_r in HR. fold data in HR. rewrite HR.
    + cbn [bind rev app]. rewrite N.add_0_l. f_equal. f_equal. f_equal.
      clear -Hok. induction l as [|x l IHl]; cbn [map]; [reflexivity|]. rewrite IHl. destruct c; cbn [plain_fixed] in Hok; try contradiction; reflexivity.
    + rewrite Forall_forall in *. intros x Hx. split; [apply Hw; exact Hx|apply Hfe; exact Hx].
    + assert (N.of_nat (length l) <= len data) by (rewrite Hdl; nia).
      unfold len in *. lia.
  - (* CSliceLen: counted, each element in its own length frame *)
    destruct v as [ | | | | | | | | |l| | |]; try (cbn [wfv] in Hw; contradiction).
    cbn [wfv] in Hw. destruct Hok as (Hokc & Hwc & Htc). destruct Hf as [Hcnt Hfe].
    cbn [enc app dec merge wire slice_elems]. cbn [N.eqb WTSlice WTLength Pos.eqb].
    rewrite <- app_assoc, read_append_varuint by exact Hcnt.
    pose proof (append_varuint_length_bounds (N.of_nat (length l))) as Hb.
    replace (Z.of_N (len (append_varuint (N.of_nat (length l)))) <? 0)%Z with false by (symmetry; apply Z.ltb_ge; lia).
    rewrite N2Z.id.
    pose proof (frames_len_ge (fun x => enc c x []) l) as Hge.
    rewrite !len_app.
    replace (len (append_varuint (N.of_nat (length l))) + (len (flat_map (fun x => lenframe (enc c x [])) l) + len rest)
             - len (append_varuint (N.of_nat (length l))) <? N.of_nat (length l)) with false by (symmetry; apply N.ltb_ge; lia).
    rewrite go_drop_app. cbn [bind]. unfold alloc_guard. rewrite len_app.
    replace (N.of_nat (length l) <=? len (flat_map (fun x => lenframe (enc c x [])) l) + len rest) with true by (symmetry; apply N.leb_le; lia).
    cbn [bind].
    rewrite (read_framed_list c (zero c) (proj1 (IH Hokc) Htc) Hwc l).
    + cbn [bind rev app]. reflexivity.
    + rewrite Forall_forall in *. intros x Hx. destruct (Hfe x Hx). repeat split; auto.
    + rewrite !app_length. pose proof Hge. unfold len in *. lia.
  - (* CSliceProto: only as a struct field *)
    destruct Hok as (Hokc & Hwc & Htc). split; [intros []|].
    apply frt_proto_slice; [exact Hokc|exact Htc|exact Hwc|apply (proj1 (IH Hokc) Htc)].
  - (* CMap: counted entries, each in its own length frame *)
    destruct v as [ | | | | | | | | | |[es|]| |]; try (cbn [wfv] in Hw; contradiction).
    cbn [wfv] in Hw. destruct Hok as (Hokk & Hokv & Htk & Htv). destruct Hf as [Hcnt Hfe]. cbn [map_entries_of] in Hcnt, Hfe.
    rewrite merge_map. cbn [enc app wire].
    change (flat_map (fun e : val * val => lenframe ((if omit kc (fst e) then [] else enc kc (fst e) (field_tag kc 1))
                                                     ++ (if omit vc (snd e) then [] else enc vc (snd e) (field_tag vc 2)))) es)
      with (flat_map (fun e => lenframe (entry_body kc vc e)) es).
    set (frames := flat_map (fun e => lenframe (entry_body kc vc e)) es).
    pose proof (append_varuint_length_bounds (N.of_nat (length es))) as Hb.
    cbn [dec].
    destruct ((append_varuint (N.of_nat (length es)) ++ frames) ++ rest) as [|b0 r0] eqn:Ed.
    { destruct (append_varuint (N.of_nat (length es))); [rewrite len_nil in Hb; lia|discriminate Ed]. }
    rewrite <- Ed. rewrite <- app_assoc, read_append_varuint by exact Hcnt.
    replace (Z.of_N (len (append_varuint (N.of_nat (length es)))) <=? 0)%Z with false by (symmetry; apply Z.leb_gt; lia).
    rewrite N2Z.id.
    assert (Hge : N.of_nat (length es) <= len frames) by (apply (frames_len_ge (fun e => entry_body kc vc e) es)).
    rewrite !len_app.
    replace (len (append_varuint (N.of_nat (length es))) + (len frames + len rest)
             - len (append_varuint (N.of_nat (length es))) <? N.of_nat (length es)) with false by (symmetry; apply N.ltb_ge; lia).
    rewrite go_drop_app. cbn [bind]. unfold alloc_guard. rewrite len_app.
    replace (N.of_nat (length es) <=? len frames + len rest) with true by (symmetry; apply N.leb_le; lia).
    cbn [bind]. unfold frames.
    rewrite (map_entries_list kc vc Hokk Htk (proj1 (IHk Hokk) Htk) Hokv Htv (proj1 (IHv Hokv) Htv) es).
    + cbn [bind]. reflexivity.
    + rewrite Forall_forall in *. intros e He. destruct (Hw e He) as [A B]. destruct (Hfe e He) as (C & D & E). auto.
    + fold frames. rewrite !app_length. unfold len in *. lia.
  - (* CMapProto: only as a struct field *)
    destruct Hok as (Hokk & Hokv & Htk & Htv). split; [intros []|].
    apply frt_proto_map; [exact Hokk|exact Htk|apply (proj1 (IHk Hokk) Htk)|exact Hokv|exact Htv|apply (proj1 (IHv Hokv) Htv)].
  - (* JSON object *)
    cbn [wfv] in Hw. destruct v as [| | | | | | | | | | |nm j|]; try contradiction. destruct j as [| | | | | |l|]; try contradiction.
    cbn [fits] in Hf. cbn [enc app dec merge wire].
    assert (E : read_varuint (jmap_body l ++ rest) = (N.of_nat (length l), Z.of_N (len (append_varuint (N.of_nat (length l)))))).
    { unfold jmap_body. rewrite <- app_assoc. apply read_append_varuint. apply Hf. }
    rewrite E. pose proof (append_varuint_length_bounds (N.of_nat (length l))) as Hb.
    replace (Z.of_N (len (append_varuint (N.of_nat (length l)))) =? 0)%Z with false by (symmetry; apply Z.eqb_neq; lia).
    destruct Hw as [_ Hwl]. rewrite (json_map_merge l rest _ Hf Hwl). cbn [bind].
    destruct prior as [| | | | | | | | | | |pn pj|]; try reflexivity. destruct pn; try reflexivity. destruct pj; reflexivity.
  - (* JSON array *)
    cbn [wfv] in Hw. destruct v as [| | | | | | | | | | |nm j|]; try contradiction. destruct j as [| | | | |l| |]; try contradiction.
    cbn [fits] in Hf. cbn [enc app dec merge wire].
    rewrite (json_array_roundtrip l rest Hf Hw). reflexivity.
  - (* the unfolding limit: nothing well-typed is written here *)
    cbn [wfv] in Hw. destruct v; contradiction.
Qed.

Theorem roundtrip : forall c, rt_ok c -> top_ok c -> RTc c.
Proof. intros c Hok Ht. apply (proj1 (roundtrip_gen c Hok) Ht). Qed.

(** ** corollaries at the Marshal / Unmarshal level *)

(** Unmarshal of Marshal output into a target holding [prior] *)
Theorem unmarshal_marshal : forall c v prior, rt_ok c -> top_ok c -> wfv c v -> fits c v -> omit c v = false ->
  dec c (if omit c v then [] else enc c v []) (wire c) prior = Ok (merge c prior v, len (enc c v [])).
Proof.
  intros c v prior Hok Ht Hw Hf Ho. rewrite Ho. destruct (roundtrip c Hok Ht v prior Hw Hf) as [RL RS].
  destruct (N.eq_dec (wire c) WTLength) as [E|E]; [apply RL; exact E|].
  specialize (RS E []). rewrite app_nil_r in RS. exact RS.
Qed.

(** a struct is never omitted: the full Marshal/Unmarshal statement *)
Corollary struct_unmarshal_marshal : forall nm n fs v prior,
  rt_ok (CStruct nm n fs) -> wfv (CStruct nm n fs) v -> fits (CStruct nm n fs) v ->
  dec (CStruct nm n fs) (enc (CStruct nm n fs) v []) WTLength prior
  = Ok (merge (CStruct nm n fs) prior v, len (enc (CStruct nm n fs) v [])).
Proof.
  intros nm n fs v prior Hok Hw Hf. apply (proj1 (roundtrip _ Hok I v prior Hw Hf)). reflexivity.
Qed.

(** reading a body back consumes exactly its length (C05) *)
Corollary consumed_exact : forall c v prior, rt_ok c -> top_ok c -> wfv c v -> fits c v -> wire c = WTLength ->
  exists r, dec c (enc c v []) (wire c) prior = Ok (r, len (enc c v [])).
Proof.
  intros c v prior Hok Ht Hw Hf E. eexists. apply (proj1 (roundtrip c Hok Ht v prior Hw Hf)). exact E.
Qed.
