(** C16: the JSON-any codecs - skipping and sizes. *)
From Plenc Require Import Base Varint Wire VarintProofs WireProofs JsonAny Codec SizeProofs.
Open Scope N_scope.

Lemma flat_map_frames {A} (h : A -> bytes) (l : list A) :
  flat_map (fun x => lenframe (h x)) l = concat (map frame (map h l)).
Proof.
  induction l as [|x l IH]; cbn [flat_map map concat]; [reflexivity|]. rewrite IH. reflexivity.
Qed.

(** C16: an unknown field holding a JSON object is skipped exactly *)
Theorem skip_json_map : forall l rest, jfits (JObj l) ->
  skip (jmap_body l ++ rest) WTSlice = Ok (len (jmap_body l)).
Proof.
  intros l rest [Hc Hall]. apply jobj_items in Hall. unfold jmap_body.
  rewrite flat_map_frames, <- app_assoc.
  replace (N.of_nat (length l)) with (N.of_nat (length (map (fun kx => jenc_kv (fst kx) (snd kx)) l)))
    by (rewrite map_length; reflexivity).
  rewrite skip_exact_slice.
  - rewrite len_app. reflexivity.
  - rewrite Forall_forall in *. intros b Hb. apply in_map_iff in Hb. destruct Hb as (kx & <- & Hin).
    apply (Hall kx Hin).
  - rewrite map_length. exact Hc.
Qed.

Theorem skip_json_arr : forall l rest, jfits (JArr l) ->
  skip (jarr_body l ++ rest) WTSlice = Ok (len (jarr_body l)).
Proof.
  intros l rest [Hc Hall]. apply jarr_items in Hall. unfold jarr_body.
  rewrite flat_map_frames, <- app_assoc.
  replace (N.of_nat (length l)) with (N.of_nat (length (map jenc_value l))) by (rewrite map_length; reflexivity).
  rewrite skip_exact_slice.
  - rewrite len_app. reflexivity.
  - rewrite Forall_forall in *. intros b Hb. apply in_map_iff in Hb. destruct Hb as (x & <- & Hin).
    apply (Hall x Hin).
  - rewrite map_length. exact Hc.
Qed.
