(** C04 for the JSON codecs: readJSONKV / JSONArrayCodec.Read /
    JSONMapCodec.Read are total, with the fuel the model gives them. *)
From Plenc Require Import Base Varint Wire VarintProofs WireProofs JsonAny Codec SizeProofs DecBase.
Open Scope N_scope.

Definition good3 {A B} (r : res (A * B * N)) (bound : N) : Prop :=
  match r with Ok (_, _, n) => n <= bound | Err => True | _ => False end.

Lemma read_chunk_safe site rest :
  match read_chunk site rest with
  | Ok (body, r1, k) => 0 < k /\ k <= len rest /\ len r1 = len rest - k /\ len body <= len r1
                        /\ (length body <= length r1)%nat /\ (length r1 < length rest)%nat
  | Err => True
  | _ => False
  end.
Proof.
  unfold read_chunk. destruct (read_varuint rest) as [l n] eqn:Ev.
  pose proof (read_varuint_n _ _ _ Ev) as Hn.
  destruct (n <=? 0)%Z eqn:Hn0; [exact I|]. apply Z.leb_gt in Hn0.
  destruct (go_drop_good site (Z.to_N n) rest ltac:(llia)) as (rest1 & E1 & L1 & LL1).
  rewrite E1. cbn [bind].
  destruct (len rest1 <? l) eqn:Hl; [exact I|]. apply N.ltb_ge in Hl.
  destruct (go_take_good site l rest1 Hl) as (body & E2 & L2 & LL2).
  rewrite E2. cbn [bind]. repeat split; llia.
Qed.

Lemma jelems_safe kv B :
  (forall body, (length body < B)%nat -> good3 (kv body) (len body)) ->
  forall k cnt rest consumed acc, (N.to_nat cnt <= k)%nat -> (length rest <= B)%nat ->
  match jelems kv k cnt rest consumed acc with
  | Ok (_, n) => n <= consumed + len rest
  | Err => True
  | _ => False
  end.
Proof.
  intros Hkv. induction k as [|k IH]; intros cnt rest consumed acc Hc Hb; cbn [jelems].
  - replace (cnt =? 0) with true by (symmetry; apply N.eqb_eq; lia). lia.
  - destruct (cnt =? 0) eqn:E0; [lia|]. apply N.eqb_neq in E0.
    pose proof (read_chunk_safe "JSONArrayCodec.Read entry" rest) as Hc1.
    destruct (read_chunk "JSONArrayCodec.Read entry" rest) as [[[body r1] kn]| | | |]; cbn [bind] in *; try contradiction; [|exact I].
    destruct Hc1 as (Hk0 & Hk & Lr1 & Lb & LLb & LLr).
    specialize (Hkv body ltac:(lia)).
    destruct (kv body) as [[[ky x] used]| | | |]; cbn [good3 bind] in *; try contradiction; [|exact I].
    destruct (go_drop_good "JSONArrayCodec.Read entry" used r1 ltac:(lia)) as (r2 & E2 & L2 & LL2).
    rewrite E2. cbn [bind].
    specialize (IH (cnt - 1) r2 (consumed + kn + used) (x :: acc) ltac:(lia) ltac:(lia)).
    destruct (jelems kv k (cnt - 1) r2 _ _) as [[l m]| | | |]; auto. lia.
Qed.

Lemma jentries_safe kv B :
  (forall body, (length body < B)%nat -> good3 (kv body) (len body)) ->
  forall k cnt rest consumed m, (N.to_nat cnt <= k)%nat -> (length rest <= B)%nat ->
  match jentries kv k cnt rest consumed m with
  | Ok (_, n) => n <= consumed + len rest
  | Err => True
  | _ => False
  end.
Proof.
  intros Hkv. induction k as [|k IH]; intros cnt rest consumed m Hc Hb; cbn [jentries].
  - replace (cnt =? 0) with true by (symmetry; apply N.eqb_eq; lia). lia.
  - destruct (cnt =? 0) eqn:E0; [lia|]. apply N.eqb_neq in E0.
    pose proof (read_chunk_safe "JSONMapCodec.Read entry" rest) as Hc1.
    destruct (read_chunk "JSONMapCodec.Read entry" rest) as [[[body r1] kn]| | | |]; cbn [bind] in *; try contradiction; [|exact I].
    destruct Hc1 as (Hk0 & Hk & Lr1 & Lb & LLb & LLr).
    specialize (Hkv body ltac:(lia)).
    destruct (kv body) as [[[ky x] used]| | | |]; cbn [good3 bind] in *; try contradiction; [|exact I].
    destruct (go_drop_good "JSONMapCodec.Read entry" used r1 ltac:(lia)) as (r2 & E2 & L2 & LL2).
    rewrite E2. cbn [bind].
    specialize (IH (cnt - 1) r2 (consumed + kn + used) (assoc_set ky x m) ltac:(lia) ltac:(lia)).
    destruct (jentries kv k (cnt - 1) r2 _ _) as [[l mm]| | | |]; auto. lia.
Qed.

(** the three readers, by induction on the shared fuel *)
Definition kv_ok (fuel : nat) : Prop :=
  forall haskey rest consumed key jt val, (2 * length rest < fuel)%nat ->
  match jread_kv fuel haskey rest consumed key jt val with
  | Ok (_, _, n) => n = consumed + len rest
  | Err => True
  | _ => False
  end.
Definition arr_ok (fuel : nat) : Prop :=
  forall data, (2 * length data + 1 < fuel)%nat -> good (jread_arr fuel data) (len data).
Definition map_ok (fuel : nat) : Prop :=
  forall data prior, (2 * length data + 1 < fuel)%nat -> good (jread_map fuel data prior) (len data).

Lemma json_readers_ok : forall fuel, kv_ok fuel /\ arr_ok fuel /\ map_ok fuel.
Proof.
  induction fuel as [|f [IHkv [IHarr IHmap]]].
  - split; [|split]; intros *; intros H; lia.
  - split; [|split].
    + (* readJSONKV *)
      intros haskey rest consumed key jt val Hf.
      destruct rest as [|b0 rest0]; [cbn [jread_kv]; rewrite len_nil; lia|].
      cbn [jread_kv]. remember (b0 :: rest0) as rest eqn:Er.
      destruct (read_tag rest) as [[wt index] n] eqn:Et.
      pose proof (read_tag_n _ _ _ _ Et) as Hn.
      destruct (n <=? 0)%Z eqn:Hn0; [exact I|]. apply Z.leb_gt in Hn0.
      destruct (go_drop_good "readJSONKV data[offset:]" (Z.to_N n) rest ltac:(llia)) as (rest1 & E1 & L1 & LL1).
      rewrite E1. cbn [bind].
      assert (Hr1 : (length rest1 < length rest)%nat) by llia.
      (* a continuation on a shorter remainder *)
      assert (Hcont : forall hk r2 c2 k2 j2 v2, (length r2 <= length rest1)%nat -> c2 + len r2 = consumed + len rest ->
                match jread_kv f hk r2 c2 k2 j2 v2 with
                | Ok (_, _, m) => m = consumed + len rest | Err => True | _ => False end).
      { intros hk r2 c2 k2 j2 v2 Hl Hc. specialize (IHkv hk r2 c2 k2 j2 v2 ltac:(lia)).
        destruct (jread_kv f hk r2 c2 k2 j2 v2) as [[[a b] m]| | | |]; auto. lia. }
      assert (Hchunk : forall (site : string) (k : bytes -> bytes * N * jv),
                match (do (body, r1, kk) <- read_chunk site rest1;
                       do r2 <- go_drop site (len body) r1;
                       let '(key', jt', val') := k body in
                       jread_kv f haskey r2 (consumed + Z.to_N n + kk + len body) key' jt' val') with
                | Ok (_, _, m) => m = consumed + len rest | Err => True | _ => False end).
      { intros site k. pose proof (read_chunk_safe site rest1) as Hc1.
        destruct (read_chunk site rest1) as [[[body r1] kk]| | | |]; cbn [bind] in *; try contradiction; [|exact I].
        destruct Hc1 as (Hk0 & Hk & Lr1 & Lb & LLb & LLr).
        destruct (go_drop_good site (len body) r1 Lb) as (r2 & E2 & L2 & LL2).
        rewrite E2. cbn [bind]. destruct (k body) as [[key' jt'] val'].
        apply Hcont; llia. }
      destruct (index =? 1)%Z.
      { apply (Hchunk "readJSONKV key"%string (fun body => (if haskey then body else key, jt, val))). }
      destruct (index =? 2)%Z.
      { destruct (read_varuint rest1) as [v k] eqn:Ev.
        pose proof (read_varuint_n _ _ _ Ev) as Hk.
        destruct (k <? 0)%Z eqn:Hk0; [exact I|]. apply Z.ltb_ge in Hk0.
        destruct (go_drop_good "readJSONKV type" (Z.to_N k) rest1 ltac:(llia)) as (r2 & E2 & L2 & LL2).
        rewrite E2. cbn [bind]. apply Hcont; llia. }
      destruct (index =? 3)%Z; [|apply Hcont; llia].
      destruct ((jt =? 1) || (jt =? 7)).
      { apply (Hchunk "readJSONKV string"%string (fun body => (key, jt, if jt =? 1 then JStr body else JNum body))). }
      destruct (jt =? 2).
      { unfold read_varint. destruct (read_varuint rest1) as [u k] eqn:Ev.
        pose proof (read_varuint_n _ _ _ Ev) as Hk.
        destruct (k <? 0)%Z eqn:Hk0; [exact I|]. apply Z.ltb_ge in Hk0.
        destruct (go_drop_good "readJSONKV int" (Z.to_N k) rest1 ltac:(llia)) as (r2 & E2 & L2 & LL2).
        rewrite E2. cbn [bind]. apply Hcont; llia. }
      destruct (jt =? 3).
      { destruct (len rest1 <? 8) eqn:E8.
        - destruct (len rest1 =? 0) eqn:E0; [|exact I]. apply N.eqb_eq in E0. apply Hcont; llia.
        - apply N.ltb_ge in E8.
          destruct (go_drop_good "readJSONKV float" 8 rest1 E8) as (r2 & E2 & L2 & LL2).
          rewrite E2. cbn [bind]. apply Hcont; llia. }
      destruct (jt =? 4).
      { destruct (read_varuint rest1) as [v k] eqn:Ev.
        pose proof (read_varuint_n _ _ _ Ev) as Hk.
        destruct (k <? 0)%Z eqn:Hk0; [exact I|]. apply Z.ltb_ge in Hk0.
        destruct (go_drop_good "readJSONKV bool" (Z.to_N k) rest1 ltac:(llia)) as (r2 & E2 & L2 & LL2).
        rewrite E2. cbn [bind]. apply Hcont; llia. }
      destruct (jt =? 5).
      { specialize (IHarr rest1 ltac:(lia)).
        destruct (jread_arr f rest1) as [[l k]| | | |]; cbn [good bind] in *; try contradiction; [|exact I].
        destruct (go_drop_good "readJSONKV array" k rest1 IHarr) as (r2 & E2 & L2 & LL2).
        rewrite E2. cbn [bind]. apply Hcont; llia. }
      destruct (jt =? 6); [|exact I].
      { specialize (IHmap rest1 [] ltac:(lia)).
        destruct (jread_map f rest1 []) as [[l k]| | | |]; cbn [good bind] in *; try contradiction; [|exact I].
        destruct (go_drop_good "readJSONKV object" k rest1 IHmap) as (r2 & E2 & L2 & LL2).
        rewrite E2. cbn [bind]. apply Hcont; llia. }
    + (* JSONArrayCodec.Read *)
      intros data Hf. cbn [jread_arr].
      destruct (read_varuint data) as [count n] eqn:Ev.
      pose proof (read_varuint_n _ _ _ Ev) as Hn.
      destruct (n <? 0)%Z eqn:Hn0; [exact I|]. apply Z.ltb_ge in Hn0.
      destruct (len data - Z.to_N n <? count) eqn:Hc; [exact I|]. apply N.ltb_ge in Hc.
      destruct (go_drop_good "JSONArrayCodec.Read data[offset:]" (Z.to_N n) data ltac:(llia)) as (rest & E1 & L1 & LL1).
      rewrite E1. cbn [bind].
      pose proof (jelems_safe (fun body => jread_kv f false body 0 [] 0 JNil) (length data)) as H.
      assert (Hkv : forall body, (length body < length data)%nat -> good3 (jread_kv f false body 0 [] 0 JNil) (len body)).
      { intros body Hb. specialize (IHkv false body 0 [] 0 JNil ltac:(lia)).
        destruct (jread_kv f false body 0 [] 0 JNil) as [[[a b] m]| | | |]; cbn [good3]; auto. lia. }
      specialize (H Hkv (S (length data)) count rest (Z.to_N n) [] ltac:(llia) ltac:(llia)).
      destruct (jelems _ (S (length data)) count rest (Z.to_N n) []) as [[l m]| | | |]; cbn [good]; auto. llia.
    + (* JSONMapCodec.Read *)
      intros data prior Hf. cbn [jread_map].
      destruct (read_varuint data) as [count n] eqn:Ev.
      pose proof (read_varuint_n _ _ _ Ev) as Hn.
      destruct (n =? 0)%Z eqn:Hn00; [cbn; lia|]. apply Z.eqb_neq in Hn00.
      destruct (n <? 0)%Z eqn:Hn0; [exact I|]. apply Z.ltb_ge in Hn0.
      destruct (len data - Z.to_N n <? count) eqn:Hc; [exact I|]. apply N.ltb_ge in Hc.
      destruct (go_drop_good "JSONMapCodec.Read data[offset:]" (Z.to_N n) data ltac:(llia)) as (rest & E1 & L1 & LL1).
      rewrite E1. cbn [bind].
      pose proof (jentries_safe (fun body => jread_kv f true body 0 [] 0 JNil) (length data)) as H.
      assert (Hkv : forall body, (length body < length data)%nat -> good3 (jread_kv f true body 0 [] 0 JNil) (len body)).
      { intros body Hb. specialize (IHkv true body 0 [] 0 JNil ltac:(lia)).
        destruct (jread_kv f true body 0 [] 0 JNil) as [[[a b] m]| | | |]; cbn [good3]; auto. lia. }
      specialize (H Hkv (S (length data)) count rest (Z.to_N n) prior ltac:(llia) ltac:(llia)).
      destruct (jentries _ (S (length data)) count rest (Z.to_N n) prior) as [[l m]| | | |]; cbn [good]; auto. llia.
Qed.

(** C04 for the JSON codecs *)
Theorem json_dec_total : forall data wt prior,
  good (dec CJMap data wt prior) (len data) /\ good (dec CJArr data wt prior) (len data).
Proof.
  intros data wt prior. destruct (json_readers_ok (jfuel data)) as (_ & Harr & Hmap). split; cbn [dec].
  - destruct (read_varuint data) as [c n]. destruct (n =? 0)%Z; [cbn; lia|].
    specialize (Hmap data (match match prior with VJson false (JObj l) => Some l | _ => None end with Some l => l | None => [] end) ltac:(unfold jfuel; lia)).
    destruct (jread_map (jfuel data) data _) as [[l used]| | | |]; cbn [bind good] in *; auto.
  - specialize (Harr data ltac:(unfold jfuel; lia)).
    destruct (jread_arr (jfuel data) data) as [[l used]| | | |]; cbn [bind good] in *; auto.
Qed.
