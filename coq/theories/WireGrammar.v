(** C02: Marshal's output is exactly the documented protobuf-like format.
    The format is given as a grammar ([wmsg]): a message is a sequence of
    fields; a field is the tag varint (index << 3 | wire type) followed by
      wire type 0: a varint;            wire type 1: 8 bytes;   wire type 5: 4 bytes;
      wire type 2: a varint length, then that many bytes;
      wire type 3: a varint count, then that many items, each a varint length
                   and that many bytes.
    [struct_format] says the encoding of any struct is such a message and
    lists its fields ([simgw]): which index, which wire type, which payload. *)
From Plenc Require Import Base Varint Wire VarintProofs WireProofs JsonAny Codec SizeProofs PbWf.
Open Scope N_scope.

Inductive wpayload :=
| WVarint (enc : bytes) | WFixed64 (b : bytes) | WFixed32 (b : bytes) | WBytes (b : bytes) | WItems (items : list bytes).
Inductive wfield := WF (idx : Z) (p : wpayload).

Inductive wmsg : bytes -> list wfield -> Prop :=
| w_nil : wmsg [] []
| w_varint : forall idx u more fs, idx_ok idx -> u < two64 -> wmsg more fs ->
    wmsg (append_tag WTVarInt idx ++ append_varuint u ++ more) (WF idx (WVarint (append_varuint u)) :: fs)
| w_fixed64 : forall idx b more fs, idx_ok idx -> len b = 8 -> wmsg more fs ->
    wmsg (append_tag WT64 idx ++ b ++ more) (WF idx (WFixed64 b) :: fs)
| w_fixed32 : forall idx b more fs, idx_ok idx -> len b = 4 -> wmsg more fs ->
    wmsg (append_tag WT32 idx ++ b ++ more) (WF idx (WFixed32 b) :: fs)
| w_bytes : forall idx body more fs, idx_ok idx -> len body < two64 -> wmsg more fs ->
    wmsg (append_tag WTLength idx ++ append_varuint (len body) ++ body ++ more) (WF idx (WBytes body) :: fs)
| w_items : forall idx items more fs, idx_ok idx -> N.of_nat (length items) < two64 ->
    Forall (fun b => len b < two64) items -> wmsg more fs ->
    wmsg (append_tag WTSlice idx ++ append_varuint (N.of_nat (length items)) ++ flat_map lenframe items ++ more)
         (WF idx (WItems items) :: fs).

Lemma wmsg_app : forall a fa, wmsg a fa -> forall b fb, wmsg b fb -> wmsg (a ++ b) (fa ++ fb).
Proof.
  induction 1; intros b0 fb Hb; cbn [app]; [exact Hb| | | | |]; rewrite <- !app_assoc; constructor; auto.
Qed.

Lemma wmsg_concat {A} (h : A -> bytes) (g : A -> list wfield) (l : list A) :
  Forall (fun x => wmsg (h x) (g x)) l -> wmsg (flat_map h l) (flat_map g l).
Proof. induction 1 as [|x l Hx Hl IH]; cbn [flat_map]; [constructor|]. apply wmsg_app; assumption. Qed.

(** codecs as CodecForType builds them (the repeated form only over
    length-delimited elements); everything except the unfolding limit *)
Fixpoint fmt_ok (c : codec) : bool :=
  match c with
  | CNull c' | CPtr c' | CSliceVar c' | CSliceFix c' | CSliceLen c' => fmt_ok c'
  | CStruct _ _ fs => forallb (fun f => fmt_ok (f_codec f)) fs
  | CSliceProto c' => fmt_ok c' && (wire c' =? WTLength)
  | CMap k v | CMapProto k v => fmt_ok k && fmt_ok v
  | CBottom => false
  | _ => true
  end.

(** the fields one struct field contributes *)
Fixpoint fimgw (c : codec) (v : val) (idx : Z) {struct c} : list wfield :=
  match c with
  | CBool | CInt _ | CUint _ | CFlat _ | CBQ => [WF idx (WVarint (enc c v []))]
  | CF64 => [WF idx (WFixed64 (enc c v []))]
  | CF32 => [WF idx (WFixed32 (enc c v []))]
  | CString | CBytes | CTime _ | CStruct _ _ _ | CSliceVar _ | CSliceFix _ => [WF idx (WBytes (enc c v []))]
  | CPtr c' => match v with VPtr (Some p) => fimgw c' p idx | _ => [] end
  | CNull c' => fimgw c' (match v with VNull _ p => p | _ => zero c' end) idx
  | CSliceLen c' => [WF idx (WItems (map (fun x => enc c' x []) (slice_elems v)))]
  | CSliceProto c' => flat_map (fun x => fimgw c' x idx) (slice_elems v)
  | CMap kc vc => [WF idx (WItems (map (entry_body kc vc) (map_entries_of v)))]
  | CMapProto kc vc => map (fun e => WF idx (WBytes (entry_body kc vc e))) (map_entries_of v)
  | CJMap => [WF idx (WItems (map (fun kx => jenc_kv (fst kx) (snd kx)) (match v with VJson _ (JObj l) => l | _ => [] end)))]
  | CJArr => [WF idx (WItems (map jenc_value (match v with VJson _ (JArr l) => l | _ => [] end)))]
  | CBottom => []
  end.

Lemma flat_lenframe_map {A} (h : A -> bytes) (l : list A) :
  flat_map (fun x => lenframe (h x)) l = flat_map lenframe (map h l).
Proof. induction l as [|x l IH]; cbn [flat_map map]; [reflexivity|]. rewrite IH. reflexivity. Qed.

Theorem field_format : forall c, fmt_ok c = true -> forall v idx, idx_ok idx -> fits c v ->
  wmsg (enc c v (field_tag c idx)) (fimgw c v idx).
Proof.
  induction c as [ |b|b|b| | | | |compat| |c IH|c IH|nm n fs IH|c IH|c IH|c IH|c IH|kc vc IHk IHv|kc vc IHk IHv| | | ]
    using codec_ind'; intros Hp v idx Hi Hf; cbn [fmt_ok] in Hp; try discriminate Hp;
    unfold field_tag; cbn [wire fimgw].
  - (* bool *) cbn [enc app]. rewrite <- (app_nil_r (append_varuint _)) at 1.
    apply w_varint; [exact Hi| |constructor]. destruct v as [[|]| | | | | | | | | | | |]; unfold two64; lia.
  - (* int *) cbn [enc app]. unfold append_varint. rewrite <- (app_nil_r (append_varuint _)) at 1.
    apply w_varint; [exact Hi| |constructor]. cbn [fits] in Hf.
    destruct v; try (apply zigzag_range; unfold int64_ok, two63Z; lia). apply zigzag_range. exact Hf.
  - (* uint *) cbn [enc app]. rewrite <- (app_nil_r (append_varuint _)) at 1.
    apply w_varint; [exact Hi| |constructor]. destruct v; try (unfold two64; lia). apply u64_lt.
  - (* flat *) cbn [enc app]. rewrite <- (app_nil_r (append_varuint _)) at 1.
    apply w_varint; [exact Hi| |constructor]. cbn [fits] in Hf. destruct v; try (unfold two64; lia). apply ubits_lt. exact Hf.
  - (* float32 *) cbn [enc app]. rewrite <- (app_nil_r (le_bytes 4 _)) at 1.
    apply w_fixed32; [exact Hi|apply len_le_bytes|constructor].
  - (* float64 *) cbn [enc app]. rewrite <- (app_nil_r (le_bytes 8 _)) at 1.
    apply w_fixed64; [exact Hi|apply len_le_bytes|constructor].
  - (* string *) rewrite frame_shape by (reflexivity || apply append_tag_ne).
    rewrite <- (app_nil_r (enc CString v [])) at 2. apply w_bytes; [exact Hi| |constructor]. cbn [enc frame_tag]. exact Hf.
  - (* bytes *) rewrite frame_shape by (reflexivity || apply append_tag_ne).
    rewrite <- (app_nil_r (enc CBytes v [])) at 2. apply w_bytes; [exact Hi| |constructor]. cbn [enc frame_tag]. exact Hf.
  - (* time *) rewrite frame_shape by (reflexivity || apply append_tag_ne).
    rewrite <- (app_nil_r (enc (CTime compat) v [])) at 2. apply w_bytes; [exact Hi| |constructor].
    cbn [enc frame_tag]. destruct v; apply time_body_len.
  - (* BQ *) cbn [enc app]. rewrite <- (app_nil_r (append_varuint _)) at 1.
    apply w_varint; [exact Hi| |constructor]. destruct v; try (unfold two64; lia). apply u64_lt.
  - (* null *) cbn [enc]. apply (IH Hp _ idx Hi). exact Hf.
  - (* pointer *) cbn [enc]. destruct v as [| | | | | |[p|]| | | | | |]; try constructor. apply (IH Hp p idx Hi). exact Hf.
  - (* struct *) rewrite frame_shape by (reflexivity || apply append_tag_ne).
    rewrite <- (app_nil_r (enc (CStruct nm n fs) v [])) at 2. apply w_bytes; [exact Hi| |constructor]. apply Hf.
  - (* packed varints *) rewrite frame_shape by (reflexivity || apply append_tag_ne).
    rewrite <- (app_nil_r (enc (CSliceVar c) v [])) at 2. apply w_bytes; [exact Hi| |constructor]. apply Hf.
  - (* packed fixed *) rewrite frame_shape by (reflexivity || apply append_tag_ne).
    rewrite <- (app_nil_r (enc (CSliceFix c) v [])) at 2. apply w_bytes; [exact Hi| |constructor]. apply Hf.
  - (* counted slice *) cbn [enc]. destruct Hf as [Hcnt Hfe].
    rewrite flat_lenframe_map. rewrite <- (app_nil_r (flat_map lenframe _)).
    replace (N.of_nat (length (slice_elems v))) with (N.of_nat (length (map (fun x => enc c x []) (slice_elems v))))
      by (rewrite map_length; reflexivity).
    apply w_items; [exact Hi|rewrite map_length; exact Hcnt| |constructor].
    rewrite Forall_forall in *. intros b Hb. apply in_map_iff in Hb. destruct Hb as (x & <- & Hx). apply (Hfe x Hx).
  - (* repeated field *) cbn [enc].
    apply (wmsg_concat (fun x => enc c x (append_tag WTLength idx)) (fun x => fimgw c x idx)).
    apply andb_true_iff in Hp. destruct Hp as [Hp Hw]. apply N.eqb_eq in Hw.
    cbn [fits] in Hf. rewrite Forall_forall in *. intros x Hx.
    specialize (IH Hp x idx Hi (Hf x Hx)). unfold field_tag in IH. rewrite Hw in IH. exact IH.
  - (* map *) cbn [enc]. destruct Hf as [Hcnt Hfe].
    replace (match v with VMap (Some es) => es | _ => [] end) with (map_entries_of v) by (destruct v as [| | | | | | | | | |[es|]| |]; reflexivity).
    change (flat_map (fun e : val * val => lenframe ((if omit kc (fst e) then [] else enc kc (fst e) (field_tag kc 1))
                                                     ++ (if omit vc (snd e) then [] else enc vc (snd e) (field_tag vc 2)))) (map_entries_of v))
      with (flat_map (fun e => lenframe (entry_body kc vc e)) (map_entries_of v)).
    rewrite flat_lenframe_map. rewrite <- (app_nil_r (flat_map lenframe _)).
    replace (N.of_nat (length (map_entries_of v))) with (N.of_nat (length (map (entry_body kc vc) (map_entries_of v))))
      by (rewrite map_length; reflexivity).
    apply w_items; [exact Hi|rewrite map_length; exact Hcnt| |constructor].
    rewrite Forall_forall in *. intros b Hb. apply in_map_iff in Hb. destruct Hb as (e & <- & He). apply (Hfe e He).
  - (* proto map *) cbn [enc]. destruct Hf as [_ Hf]. rewrite <- flat_map_single.
    replace (match v with VMap (Some es) => es | _ => [] end) with (map_entries_of v) by (destruct v as [| | | | | | | | | |[es|]| |]; reflexivity).
    apply (wmsg_concat (fun e => append_tag WTLength idx ++ lenframe (entry_body kc vc e))
                       (fun e => [WF idx (WBytes (entry_body kc vc e))])).
    rewrite Forall_forall in *. intros e He. destruct (Hf e He) as (_ & _ & Hl).
    unfold lenframe. rewrite <- (app_nil_r (entry_body kc vc e)) at 2.
    apply w_bytes; [exact Hi|exact Hl|constructor].
  - (* JSON object *) cbn [enc]. unfold jmap_body. cbn [fits] in Hf.
    set (l := match v with VJson _ (JObj l) => l | _ => [] end).
    assert (Hj : jfits (JObj l)) by (unfold l; destruct v as [| | | | | | | | | | |nm j|]; try (cbn; unfold two64; repeat split; lia); destruct j; try (cbn; unfold two64; repeat split; lia); exact Hf).
    destruct Hj as [Hcnt Hall]. apply jobj_items in Hall.
    rewrite flat_lenframe_map. rewrite <- (app_nil_r (flat_map lenframe _)).
    replace (N.of_nat (length l)) with (N.of_nat (length (map (fun kx : bytes * jv => jenc_kv (fst kx) (snd kx)) l)))
      by (rewrite map_length; reflexivity).
    apply w_items; [exact Hi|rewrite map_length; exact Hcnt| |constructor].
    rewrite Forall_forall in *. intros b Hb. apply in_map_iff in Hb. destruct Hb as (kx & <- & Hx). apply (Hall kx Hx).
  - (* JSON array *) cbn [enc]. unfold jarr_body. cbn [fits] in Hf.
    set (l := match v with VJson _ (JArr l) => l | _ => [] end).
    assert (Hj : jfits (JArr l)) by (unfold l; destruct v as [| | | | | | | | | | |nm j|]; try (cbn; unfold two64; repeat split; lia); destruct j; try (cbn; unfold two64; repeat split; lia); exact Hf).
    destruct Hj as [Hcnt Hall]. apply jarr_items in Hall.
    rewrite flat_lenframe_map. rewrite <- (app_nil_r (flat_map lenframe _)).
    replace (N.of_nat (length l)) with (N.of_nat (length (map jenc_value l))) by (rewrite map_length; reflexivity).
    apply w_items; [exact Hi|rewrite map_length; exact Hcnt| |constructor].
    rewrite Forall_forall in *. intros b Hb. apply in_map_iff in Hb. destruct Hb as (x & <- & Hx). apply (Hall x Hx).
Qed.

Definition simgw (fs : list (fld codec)) (vs : list val) : list wfield :=
  flat_map (fun f => if omit (f_codec f) (slot vs (f_slot f)) then []
                     else fimgw (f_codec f) (slot vs (f_slot f)) (f_index f)) fs.

(** C02: the encoding of any struct is a message of the documented format and
    consists of exactly these fields, in declaration order, omitted fields absent *)
Theorem struct_format : forall nm n fs v,
  fmt_ok (CStruct nm n fs) = true -> Forall (fun f => idx_ok (f_index f)) fs ->
  fits (CStruct nm n fs) v ->
  wmsg (enc (CStruct nm n fs) v []) (simgw fs (struct_fields v)).
Proof.
  intros nm n fs v Hp Hi Hf. cbn [enc frame_tag]. unfold simgw.
  apply (wmsg_concat
           (fun f => let fv := slot (struct_fields v) (f_slot f) in
                     if omit (f_codec f) fv then [] else enc (f_codec f) fv (field_tag (f_codec f) (f_index f)))
           (fun f => if omit (f_codec f) (slot (struct_fields v) (f_slot f)) then []
                     else fimgw (f_codec f) (slot (struct_fields v) (f_slot f)) (f_index f))).
  cbn [fmt_ok] in Hp. rewrite forallb_forall in Hp. apply fits_struct_fields in Hf.
  rewrite Forall_forall in *. intros f Hin. cbv zeta.
  destruct (omit (f_codec f) (slot (struct_fields v) (f_slot f))); [constructor|].
  apply field_format; [apply Hp; exact Hin|apply Hi; exact Hin|apply Hf; exact Hin].
Qed.
