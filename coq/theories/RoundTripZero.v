(** C01: decoding into a fresh (zero) target gives the value back.
    [canon c v]: [v] is its own normal form - every omitted plain field holds
    exactly the zero value (so no negative-zero floats), and the fields plenc
    does not encode are zero. *)
From Plenc Require Import Base Varint Wire VarintProofs WireProofs JsonAny Codec SizeProofs DecBase RoundTripBase JsonProofs JsonRoundTrip RoundTrip.
Open Scope N_scope.

(** map keys pairwise different (as Go's key equality sees them), each new key
    compared with the ones before it *)
Fixpoint keys_fresh (seen : list val) (es : list (val * val)) : Prop :=
  match es with
  | [] => True
  | e :: r => Forall (fun k => kcmp (fst e) k = false) seen /\ keys_fresh (seen ++ [fst e]) r
  end.

Fixpoint canon (c : codec) (v : val) {struct c} : Prop :=
  match c, v with
  | CNull c', VNull _ p => canon c' p
  | CPtr c', VPtr (Some p) => canon c' p
  | CStruct _ n fs, VStruct vs =>
    (fix all (l : list (fld codec)) : Prop :=
       match l with
       | [] => True
       | f :: r => ((omit (f_codec f) (slot vs (f_slot f)) = true -> slot vs (f_slot f) = zero (f_codec f))
                    /\ canon (f_codec f) (slot vs (f_slot f))) /\ all r
       end) fs
    /\ (forall i, (i < n)%nat -> ~ In i (map (fun f => f_slot f) fs) -> nth i vs (VSkip 0) = VSkip 0)
  | (CSliceLen c' | CSliceProto c'), VSlice l => Forall (canon c') l
  | CMapProto kc vc, VMap (Some []) => False     (* an empty map in the repeated form reads back as nil *)
  | (CMap kc vc | CMapProto kc vc), VMap (Some es) =>
    Forall (fun e => ((omit kc (fst e) = true -> fst e = zero kc) /\ canon kc (fst e))
                     /\ ((omit vc (snd e) = true -> snd e = zero vc) /\ canon vc (snd e))) es
    /\ keys_fresh [] es
  | (CJMap | CJArr), VJson p _ => p = false      (* nil and empty containers read back non-nil *)
  | _, _ => True
  end.

Lemma canon_struct_fields nm n fs vs : canon (CStruct nm n fs) (VStruct vs) ->
  Forall (fun f => (omit (f_codec f) (slot vs (f_slot f)) = true -> slot vs (f_slot f) = zero (f_codec f))
                   /\ canon (f_codec f) (slot vs (f_slot f))) fs.
Proof.
  cbn [canon]. intros [Hall _]. induction fs as [|f r IH]; [constructor|]. constructor; [apply Hall|apply IH, Hall].
Qed.

(** ** set_nth / slot facts *)
Lemma set_nth_length : forall l i x, length (set_nth i x l) = length l.
Proof. unfold set_nth. induction l as [|y r IH]; intros i x; destruct i; cbn; auto. Qed.
Lemma nth_set_nth_same : forall l i x d, (i < length l)%nat -> nth i (set_nth i x l) d = x.
Proof. unfold set_nth. induction l as [|y r IH]; intros i x d H; cbn in H; [lia|]. destruct i; cbn; [reflexivity|]. apply IH. lia. Qed.
Lemma nth_set_nth_other : forall l i j x d, i <> j -> nth j (set_nth i x l) d = nth j l d.
Proof.
  unfold set_nth. induction l as [|y r IH]; intros i j x d H; destruct i, j; cbn; try reflexivity; try congruence.
  apply IH. congruence.
Qed.

(** the zero struct: the zero of each field's codec at its slot, VSkip 0 elsewhere *)
Definition zset (f : fld codec) (acc : list val) : list val := set_nth (f_slot f) (zero (f_codec f)) acc.

Lemma zero_struct_fields nm n fs :
  struct_fields (zero (CStruct nm n fs)) = fold_right zset (repeat (VSkip 0) n) fs.
Proof. cbn [zero struct_fields]. induction fs as [|f r IH]; cbn [fold_right]; [reflexivity|]. rewrite IH. reflexivity. Qed.

Lemma zero_struct nm n fs : zero (CStruct nm n fs) = VStruct (fold_right zset (repeat (VSkip 0) n) fs).
Proof. pose proof (zero_struct_fields nm n fs) as H. cbn [zero struct_fields] in *. rewrite H. reflexivity. Qed.

Lemma fold_zset_length n fs : length (fold_right zset (repeat (VSkip 0) n) fs) = n.
Proof. induction fs as [|f r IH]; cbn [fold_right]; [apply repeat_length|]. unfold zset. rewrite set_nth_length. exact IH. Qed.

Lemma fold_zset_nth n : forall fs i,
  NoDup (map (fun f => f_slot f) fs) -> (i < n)%nat ->
  nth i (fold_right zset (repeat (VSkip 0) n) fs) (VSkip 0)
  = match find (fun f => Nat.eqb (f_slot f) i) fs with Some f => zero (f_codec f) | None => VSkip 0 end.
Proof.
  induction fs as [|f r IH]; intros i Hnd Hi; cbn [fold_right find map] in *.
  - apply nth_repeat.
  - inversion Hnd as [|? ? Hnot Hnd']; subst. unfold zset at 1.
    destruct (Nat.eqb (f_slot f) i) eqn:E.
    + apply Nat.eqb_eq in E. subst i. apply nth_set_nth_same. rewrite fold_zset_length. exact Hi.
    + apply Nat.eqb_neq in E. rewrite nth_set_nth_other by exact E. apply IH; assumption.
Qed.

(** folding the field merges over distinct slots touches each slot once *)
Lemma fold_fmerge_length vs : forall fs cur, length (fold_left (fmerge vs) fs cur) = length cur.
Proof.
  induction fs as [|f r IH]; intros cur; cbn [fold_left]; [reflexivity|]. rewrite IH. unfold fmerge.
  destruct (omit _ _); [reflexivity|apply set_nth_length].
Qed.

Lemma fold_fmerge_nth vs : forall fs cur i,
  NoDup (map (fun f => f_slot f) fs) -> (i < length cur)%nat ->
  nth i (fold_left (fmerge vs) fs cur) (VSkip 0)
  = match find (fun f => Nat.eqb (f_slot f) i) fs with
    | Some f => if omit (f_codec f) (slot vs (f_slot f)) then nth i cur (VSkip 0)
                else merge (f_codec f) (nth i cur (VSkip 0)) (slot vs (f_slot f))
    | None => nth i cur (VSkip 0)
    end.
Proof.
  induction fs as [|f r IH]; intros cur i Hnd Hi; cbn [fold_left find map] in *; [reflexivity|].
  inversion Hnd as [|? ? Hnot Hnd']; subst.
  assert (Hlen : length (fmerge vs cur f) = length cur) by (unfold fmerge; destruct (omit _ _); [reflexivity|apply set_nth_length]).
  rewrite IH by (auto; rewrite Hlen; exact Hi).
  destruct (Nat.eqb (f_slot f) i) eqn:E.
  - apply Nat.eqb_eq in E. subst i.
    (* no later field has this slot *)
    assert (Hnone : find (fun g => Nat.eqb (f_slot g) (f_slot f)) r = None).
    { destruct (find _ r) as [g|] eqn:Eg; [|reflexivity]. exfalso. apply find_some in Eg. destruct Eg as [Hin Heq].
      apply Nat.eqb_eq in Heq. apply Hnot. rewrite <- Heq. apply in_map_iff. exists g. auto. }
    rewrite Hnone. unfold fmerge, slot. destruct (omit _ _); [reflexivity|]. apply nth_set_nth_same. exact Hi.
  - apply Nat.eqb_neq in E.
    assert (Hsame : nth i (fmerge vs cur f) (VSkip 0) = nth i cur (VSkip 0)).
    { unfold fmerge. destruct (omit _ _); [reflexivity|]. apply nth_set_nth_other. exact E. }
    rewrite Hsame. reflexivity.
Qed.

(** ** maps: entries with fresh keys are appended *)
Lemma map_lookup_fresh k : forall m, Forall (fun kk => kcmp k kk = false) (map fst m) -> map_lookup k m = None.
Proof.
  induction m as [|[k' x'] m IH]; intros H; cbn [map_lookup]; [reflexivity|].
  cbn [map fst] in H. inversion H as [|? ? Hk Hr]; subst. rewrite Hk. apply IH. exact Hr.
Qed.
Lemma map_set_fresh k x : forall m, Forall (fun kk => kcmp k kk = false) (map fst m) -> map_set k x m = m ++ [(k, x)].
Proof.
  induction m as [|[k' x'] m IH]; intros H; cbn [map_set app]; [reflexivity|].
  cbn [map fst] in H. inversion H as [|? ? Hk Hr]; subst. rewrite Hk. f_equal. apply IH. exact Hr.
Qed.

Lemma fold_entries_fresh kc vc :
  (forall k, rt_ok kc -> wfv kc k -> canon kc k -> merge kc (zero kc) k = k) ->
  (forall x, rt_ok vc -> wfv vc x -> canon vc x -> merge vc (zero vc) x = x) ->
  rt_ok kc -> rt_ok vc ->
  forall es m,
  Forall (fun e => (omit kc (fst e) = true \/ wfv kc (fst e)) /\ (omit vc (snd e) = true \/ wfv vc (snd e))) es ->
  Forall (fun e => ((omit kc (fst e) = true -> fst e = zero kc) /\ canon kc (fst e))
                   /\ ((omit vc (snd e) = true -> snd e = zero vc) /\ canon vc (snd e))) es ->
  keys_fresh (map fst m) es ->
  fold_left (entry_merge kc vc) es m = m ++ es.
Proof.
  intros IHk IHv Hokk Hokv. induction es as [|[k x] es IH]; intros m Hw Hc Hfr; cbn [fold_left]; [rewrite app_nil_r; reflexivity|].
  inversion Hw as [|? ? [Hwk Hwv] Hw']; subst. inversion Hc as [|? ? [[Hzk Hck] [Hzv Hcv]] Hc']; subst.
  destruct Hfr as [Hnew Hfr]. cbn [fst snd] in *.
  assert (Ek : (if omit kc k then zero kc else merge kc (zero kc) k) = k).
  { destruct (omit kc k) eqn:Eo; [symmetry; apply Hzk; reflexivity|].
    destruct Hwk as [Hwk|Hwk]; [congruence|]. apply IHk; assumption. }
  assert (Em : entry_merge kc vc m (k, x) = m ++ [(k, x)]).
  { unfold entry_merge. cbn [fst snd]. rewrite Ek. rewrite (map_lookup_fresh k m Hnew).
    assert (Ex : (if omit vc x then zero vc else merge vc (zero vc) x) = x).
    { destruct (omit vc x) eqn:Eo; [symmetry; apply Hzv; reflexivity|].
      destruct Hwv as [Hwv|Hwv]; [congruence|]. apply IHv; assumption. }
    rewrite Ex. apply map_set_fresh. exact Hnew. }
  rewrite Em. rewrite IH; [rewrite <- app_assoc; reflexivity|assumption|assumption|].
  rewrite map_app. cbn [map fst]. exact Hfr.
Qed.

(** ** merging into the zero value gives the value back *)
Theorem merge_zero_id : forall c v, rt_ok c -> wfv c v -> canon c v -> merge c (zero c) v = v.
Proof.
  induction c as [ |b|b|b| | | | |compat| |c IH|c IH|nm n fs IH|c IH|c IH|c IH|c IH|kc vc IHk IHv|kc vc IHk IHv| | | ]
    using codec_ind'; intros v Hok Hw Hc; cbn [rt_ok] in Hok; try contradiction; try reflexivity.
  - (* CNull *) cbn [wfv] in Hw. destruct v as [ | | | | | | |valid p| | | | |]; try contradiction. destruct valid; [|contradiction].
    cbn [merge canon] in *. destruct Hok as [Hok _]. rewrite IH by assumption. reflexivity.
  - (* CPtr *) cbn [wfv] in Hw. destruct v as [ | | | | | |[p|]| | | | | |]; try contradiction.
    cbn [merge canon zero] in *. destruct Hok as [Hok _]. rewrite IH by assumption. reflexivity.
  - (* CStruct *)
    assert (Hok' : rt_ok (CStruct nm n fs)) by exact Hok.
    destruct (rt_struct_fields nm n fs Hok') as (Hfs & Hnd & Hns).
    destruct v as [ | | | | | | | |vs| | | |]; try (cbn [wfv] in Hw; contradiction).
    destruct (wfv_struct_fields nm n fs vs Hw) as [Hlen Hwfs].
    pose proof (canon_struct_fields nm n fs vs Hc) as Hcf.
    destruct Hc as [_ Hskip].
    cbn [merge struct_fields]. rewrite zero_struct. cbv iota.
    match goal with |- VStruct (fold_left ?F fs ?X) = _ => change F with (fmerge vs) end.
    f_equal.
    apply nth_ext with (d := VSkip 0) (d' := VSkip 0).
    + rewrite fold_fmerge_length, fold_zset_length. symmetry. exact Hlen.
    + intros i Hi. rewrite fold_fmerge_length, fold_zset_length in Hi.
      rewrite fold_fmerge_nth by (auto; rewrite fold_zset_length; exact Hi).
      rewrite fold_zset_nth by assumption.
      destruct (find (fun f => Nat.eqb (f_slot f) i) fs) as [f|] eqn:Ef.
      * apply find_some in Ef. destruct Ef as [Hin Heq]. apply Nat.eqb_eq in Heq. subst i.
        rewrite Forall_forall in *. destruct (Hcf f Hin) as [Hz Hcan].
        unfold slot in *. destruct (omit (f_codec f) (nth (f_slot f) vs (VSkip 0))) eqn:Eo.
        -- symmetry. apply Hz. reflexivity.
        -- destruct (Hwfs f Hin) as [Ho|Hwf]; [unfold slot in Ho; congruence|].
           destruct (Hfs f Hin) as (Hokf & _). apply (IH f Hin); assumption.
      * symmetry. apply Hskip; [exact Hi|].
        intros Hin. apply in_map_iff in Hin. destruct Hin as (g & Hg & Hing).
        assert (Hf := find_none _ _ Ef g Hing). cbn in Hf. rewrite Hg, Nat.eqb_refl in Hf. discriminate.
  - (* CSliceLen *)
    destruct v as [ | | | | | | | | |l| | |]; try (cbn [wfv] in Hw; contradiction).
    cbn [wfv canon merge slice_elems] in *. destruct Hok as [Hokc _]. f_equal.
    induction l as [|x l IHl]; cbn [map]; [reflexivity|].
    inversion Hw; inversion Hc; subst. rewrite IH, IHl by assumption. reflexivity.
  - (* CSliceProto *)
    destruct v as [ | | | | | | | | |l| | |]; try (cbn [wfv] in Hw; contradiction).
    cbn [wfv canon merge slice_elems zero app] in *. destruct Hok as [Hokc _]. f_equal.
    induction l as [|x l IHl]; cbn [map]; [reflexivity|].
    inversion Hw; inversion Hc; subst. rewrite IH, IHl by assumption. reflexivity.
  - (* CMap *)
    destruct v as [ | | | | | | | | | |[es|]| |]; try (cbn [wfv] in Hw; contradiction).
    cbn [wfv canon] in *. destruct Hok as (Hokk & Hokv & _). destruct Hc as [Hc Hfr].
    rewrite merge_map. cbn [zero].
    rewrite (fold_entries_fresh kc vc IHk IHv Hokk Hokv es []); [reflexivity|assumption|assumption|exact Hfr].
  - (* CMapProto *)
    destruct v as [ | | | | | | | | | |[[|e es]|]| |]; try (cbn [wfv] in Hw; contradiction); try (cbn [canon] in Hc; contradiction).
    cbn [wfv] in Hw. destruct Hok as (Hokk & Hokv & _).
    assert (Hc' : Forall (fun e0 => ((omit kc (fst e0) = true -> fst e0 = zero kc) /\ canon kc (fst e0))
                     /\ ((omit vc (snd e0) = true -> snd e0 = zero vc) /\ canon vc (snd e0))) (e :: es) /\ keys_fresh [] (e :: es)) by exact Hc.
    destruct Hc' as [Hc1 Hfr].
    rewrite merge_map_proto. cbn [zero].
    rewrite (fold_entries_fresh kc vc IHk IHv Hokk Hokv (e :: es) []); [reflexivity|assumption|assumption|exact Hfr].
  - (* JSON object *)
    cbn [wfv] in Hw. destruct v as [| | | | | | | | | | |nm j|]; try contradiction. destruct j as [| | | | | |l|]; try contradiction.
    cbn [canon] in Hc. subst nm. cbn [merge zero]. destruct Hw as [Hnd _].
    rewrite (fold_assoc_nodup l []) by exact Hnd. reflexivity.
  - (* JSON array *)
    cbn [wfv] in Hw. destruct v as [| | | | | | | | | | |nm j|]; try contradiction. destruct j as [| | | | |l| |]; try contradiction.
    cbn [canon] in Hc. subst nm. reflexivity.
Qed.

(** C01: Unmarshal(Marshal(v)) into a fresh variable yields v *)
Theorem roundtrip_fresh : forall c v, rt_ok c -> top_ok c -> wfv c v -> fits c v -> canon c v -> omit c v = false ->
  dec c (enc c v []) (wire c) (zero c) = Ok (v, len (enc c v [])).
Proof.
  intros c v Hok Ht Hw Hf Hc Ho. pose proof (unmarshal_marshal c v (zero c) Hok Ht Hw Hf Ho) as H.
  rewrite Ho in H. rewrite (merge_zero_id c v Hok Hw Hc) in H. exact H.
Qed.
