(** C07: every codec reachable from the shared registry is completely built,
    in every interleaving; objects are only written while private. *)
From Plenc Require Import Base Concur.

(** links point at existing objects; published ids exist *)
Definition WF (s : cstate) : Prop :=
  (forall b c, link (heap s) b c -> c < length (heap s)) /\
  (forall p, In p (published s) -> p < length (heap s)).

(** the invariant: whatever can be reached from a published object is complete *)
Definition Inv (s : cstate) : Prop :=
  forall p o, In p (published s) -> Reach (heap s) p o -> complete (heap s) o.

Lemma nth_set_same : forall l o x, o < length l -> nth_error (set_obj l o x) o = Some x.
Proof.
  induction l as [|y r IH]; intros o x H; cbn in H; [lia|]. destruct o; cbn; [reflexivity|]. apply IH. lia.
Qed.
Lemma nth_set_other : forall l o o' x, o <> o' -> nth_error (set_obj l o x) o' = nth_error l o'.
Proof.
  induction l as [|y r IH]; intros o o' x H; destruct o, o'; cbn; try reflexivity; try congruence.
  apply IH. congruence.
Qed.
Lemma set_obj_length : forall l o x, length (set_obj l o x) = length l.
Proof. induction l as [|y r IH]; intros o x; destruct o; cbn; auto. Qed.

Lemma reach_lt h a o : a < length h -> (forall b c, link h b c -> c < length h) -> Reach h a o -> o < length h.
Proof. intros Ha Hl H. induction H; eauto. Qed.

(** reachability from [p] is unaffected by changing an object that [p] cannot reach *)
Lemma reach_change : forall h h' p o,
  (forall b, b <> o -> nth_error h' b = nth_error h b) ->
  ~ Reach h p o ->
  forall x, Reach h' p x -> Reach h p x.
Proof.
  intros h h' p o Hsame Hno x H. induction H as [|b c Hb IH [y [Hy Hin]]]; [constructor|].
  destruct (Nat.eq_dec b o) as [->|Hne]; [contradiction|].
  econstructor; [exact IH|]. exists y. rewrite <- Hsame by exact Hne. auto.
Qed.

Lemma complete_mono_set h o x y :
  nth_error h o = Some x -> (ob_complete x = true -> ob_complete y = true) ->
  forall q, complete h q -> complete (set_obj h o y) q.
Proof.
  intros Hx Himp q [z [Hz Hc]]. destruct (Nat.eq_dec o q) as [->|Hne].
  - exists y. split.
    + apply nth_set_same. apply nth_error_Some. congruence.
    + apply Himp. congruence.
  - exists z. rewrite nth_set_other by exact Hne. auto.
Qed.

Lemma step_preserves : forall s st s', WF s -> Inv s -> step_ok s st s' -> WF s' /\ Inv s'.
Proof.
  intros s st s' [Wl Wp] HI Hst. unfold WF, Inv in *. destruct Hst as [t|t o o' x Hx Ho Hc Hlt|t o x Hx Ho Hc|t o Hlt Hg]; cbn [heap published] in *.
  - (* alloc *)
    assert (Hold : forall b c, link (heap s ++ [mkobj t false []]) b c -> link (heap s) b c).
    { intros b c [y [Hy Hin]]. destruct (Nat.lt_ge_cases b (length (heap s))) as [Hb|Hb].
      - rewrite nth_error_app1 in Hy by exact Hb. exists y. auto.
      - rewrite nth_error_app2 in Hy by exact Hb. destruct (b - length (heap s)) as [|k]; cbn in Hy.
        + inversion Hy; subst. cbn in Hin. contradiction.
        + destruct k; discriminate. }
    split.
    + split.
      * intros b c Hl. apply Hold in Hl. apply Wl in Hl. rewrite app_length. cbn. lia.
      * intros p Hp. apply Wp in Hp. rewrite app_length. cbn. lia.
    + intros p o Hp Hr.
      assert (Hr' : Reach (heap s) p o).
      { induction Hr as [|b c Hb IH Hl]; [constructor|]. econstructor; [exact IH|apply Hold; exact Hl]. }
      destruct (HI p o Hp Hr') as [z [Hz Hcz]]. exists z. split; [|exact Hcz].
      rewrite nth_error_app1; [exact Hz|]. apply nth_error_Some. congruence.
  - (* link: the object is incomplete, hence not reachable from anything published *)
    unfold obj in Hx.
    assert (Hunreach : forall p, In p (published s) -> ~ Reach (heap s) p o).
    { intros p Hp Hr. destruct (HI p o Hp Hr) as [z [Hz Hcz]]. congruence. }
    assert (Hsame : forall b, b <> o -> nth_error (set_obj (heap s) o (mkobj (ob_owner x) false (o' :: ob_links x))) b = nth_error (heap s) b).
    { intros b Hb. apply nth_set_other. congruence. }
    split.
    + split.
      * intros b c [y [Hy Hin]]. rewrite set_obj_length. destruct (Nat.eq_dec b o) as [->|Hne].
        -- rewrite nth_set_same in Hy by (apply nth_error_Some; congruence). inversion Hy; subst. cbn in Hin.
           destruct Hin as [<-|Hin]; [exact Hlt|]. apply (Wl o c). exists x. auto.
        -- rewrite Hsame in Hy by exact Hne. apply (Wl b c). exists y. auto.
      * intros p Hp. rewrite set_obj_length. apply Wp. exact Hp.
    + intros p q Hp Hr.
      apply (reach_change (heap s) _ p o Hsame (Hunreach p Hp)) in Hr.
      apply (complete_mono_set (heap s) o x _ Hx); [intros; congruence|]. apply (HI p q Hp Hr).
  - (* complete *)
    unfold obj in Hx.
    assert (Hunreach : forall p, In p (published s) -> ~ Reach (heap s) p o).
    { intros p Hp Hr. destruct (HI p o Hp Hr) as [z [Hz Hcz]]. congruence. }
    assert (Hsame : forall b, b <> o -> nth_error (set_obj (heap s) o (mkobj (ob_owner x) true (ob_links x))) b = nth_error (heap s) b).
    { intros b Hb. apply nth_set_other. congruence. }
    split.
    + split.
      * intros b c [y [Hy Hin]]. rewrite set_obj_length. destruct (Nat.eq_dec b o) as [->|Hne].
        -- rewrite nth_set_same in Hy by (apply nth_error_Some; congruence). inversion Hy; subst. cbn in Hin.
           apply (Wl o c). exists x. auto.
        -- rewrite Hsame in Hy by exact Hne. apply (Wl b c). exists y. auto.
      * intros p Hp. rewrite set_obj_length. apply Wp. exact Hp.
    + intros p q Hp Hr.
      apply (reach_change (heap s) _ p o Hsame (Hunreach p Hp)) in Hr.
      apply (complete_mono_set (heap s) o x _ Hx); [intros; reflexivity|]. apply (HI p q Hp Hr).
  - (* publish *)
    split.
    + split; [exact Wl|]. intros p [<-|Hp]; [exact Hlt|apply Wp; exact Hp].
    + intros p q [<-|Hp] Hr; [apply Hg; exact Hr|apply (HI p q Hp Hr)].
Qed.

Lemma init_ok : WF cinit /\ Inv cinit.
Proof.
  split; [split|].
  - intros b c [y [Hy _]]. destruct b; discriminate.
  - intros p [].
  - intros p o [].
Qed.

Lemma steps_preserve : forall s steps s', steps_ok s steps s' -> WF s -> Inv s -> WF s' /\ Inv s'.
Proof.
  intros s steps s' H. induction H as [s|s st s1 rest s2 Hst Hrest IH]; intros W I; [auto|].
  destruct (step_preserves s st s1 W I Hst). apply IH; assumption.
Qed.

(** C07: in every interleaving, every codec object that can be reached from
    the shared registry is completely built (so a goroutine that loads it can
    use it at once) *)
Theorem published_complete : forall steps s p o,
  steps_ok cinit steps s -> In p (published s) -> Reach (heap s) p o -> complete (heap s) o.
Proof.
  intros steps s p o H. destruct (steps_preserve _ _ _ H (proj1 init_ok) (proj2 init_ok)) as [_ I]. apply I.
Qed.

(** C07: a write (filling in a field, completing) only ever hits an object that
    no published object reaches: shared objects are never written again, and
    private objects are written by their owner alone *)
Theorem writes_are_private : forall steps s st s' p o,
  steps_ok cinit steps s -> step_ok s st s' ->
  (exists t o', st = CLink t o o') \/ (exists t, st = CComplete t o) ->
  In p (published s) -> ~ Reach (heap s) p o.
Proof.
  intros steps s st s' p o H Hst Hw Hp Hr.
  destruct (steps_preserve _ _ _ H (proj1 init_ok) (proj2 init_ok)) as [_ I].
  destruct (I p o Hp Hr) as [z [Hz Hc]].
  destruct Hw as [(t & o' & ->)|(t & ->)]; inversion Hst; subst; unfold obj in *; congruence.
Qed.

Theorem writer_is_owner : forall s st s' t o,
  step_ok s st s' ->
  (exists o', st = CLink t o o') \/ st = CComplete t o ->
  exists x, obj s o = Some x /\ ob_owner x = t /\ ob_complete x = false.
Proof.
  intros s st s' t o Hst [[o' ->]| ->]; inversion Hst; subst; eauto.
Qed.
