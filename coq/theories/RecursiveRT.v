(** Recursive types in the round-trip theorem.  The model unfolds a recursive
    type to a finite depth and puts [CBottom] at the limit; [rt_ok] admits
    [CBottom] because no well-typed value is ever written under it ([wfv
    CBottom v] is empty): a value of a recursive type is well-typed for an
    unfolding exactly when it ends (nil pointer, empty slice, nil map) before
    the limit.  This file shows that this is not vacuous: for the recursive
    type

      type Node struct { V int `plenc:"1"`; Next *Node `plenc:"2"`; Kids []Node `plenc:"3"` }

    EVERY finite value (any depth, any width) is well-typed and canonical for
    every unfolding at least as deep as the value, so that the round-trip
    theorem applies to it. *)
From Plenc Require Import Base Varint Wire JsonAny Codec SizeProofs Registry CorrCore RoundTripBase RoundTrip RoundTripZero Descriptor.
Open Scope N_scope.

Definition node_fields (inner : codec) : list (fld codec) :=
  [mkfld 0 1 (ascii "V") (CInt 64); mkfld 1 2 (ascii "Next") (CPtr inner); mkfld 2 3 (ascii "Kids") (CSliceLen inner)].

Fixpoint node_codec (k : nat) : codec :=
  CStruct (ascii "Node") 3 (node_fields (match k with O => CBottom | S k' => node_codec k' end)).

Inductive tree := T (v : Z) (next : option tree) (kids : list tree).

Fixpoint tree_val (t : tree) : val :=
  match t with
  | T v nx ks => VStruct [VInt v; VPtr (match nx with Some x => Some (tree_val x) | None => None end); VSlice (map tree_val ks)]
  end.

Fixpoint depth (t : tree) : nat :=
  match t with
  | T _ nx ks => S (Nat.max (match nx with Some x => depth x | None => O end)
                            (fold_right (fun x a => Nat.max (depth x) a) O ks))
  end.

Fixpoint tree_ok (t : tree) : Prop :=
  match t with
  | T v nx ks => int_range 64 v /\ (match nx with Some x => tree_ok x | None => True end)
                 /\ fold_right (fun x a => tree_ok x /\ a) True ks
  end.

Lemma depth_pos t : (1 <= depth t)%nat.
Proof. destruct t; cbn [depth]; lia. Qed.

Lemma kids_depth ks x n : In x ks -> (fold_right (fun x a => Nat.max (depth x) a) O ks <= n)%nat -> (depth x <= n)%nat.
Proof.
  induction ks as [|y r IH]; intros Hin Hle; [contradiction|]. cbn [fold_right] in Hle.
  destruct Hin as [<-|Hin]; [lia|apply IH; [exact Hin|lia]].
Qed.
Lemma kids_ok ks x : In x ks -> fold_right (fun x a => tree_ok x /\ a) True ks -> tree_ok x.
Proof.
  induction ks as [|y r IH]; intros Hin Hok; [contradiction|]. cbn [fold_right] in Hok.
  destruct Hin as [<-|Hin]; [apply Hok|apply IH; [exact Hin|apply Hok]].
Qed.

Lemma node_rt_ok : forall k, rt_ok (node_codec k).
Proof.
  assert (Hnd : forall inner, rt_ok inner -> wire inner = WTLength -> top_ok inner ->
                 rt_ok (CStruct (ascii "Node") 3 (node_fields inner))).
  { intros inner Hi Hw Ht. cbn [rt_ok node_fields f_codec f_index f_slot map]. unfold bits_ok.
    repeat match goal with
    | |- _ /\ _ => split
    | |- True => exact I
    | |- NoDup _ => repeat constructor; cbn; intuition (try discriminate; try lia)
    | |- (_ <= _ < _)%Z => lia
    | |- (_ < _)%nat => lia
    | |- _ \/ _ => auto
    end; try assumption; lia. }
  induction k as [|k IH]; cbn [node_codec]; apply Hnd; try exact I; try reflexivity.
  - exact IH.
  - destruct k; reflexivity.
  - destruct k; exact I.
Qed.

(** every finite value is well-typed for every unfolding at least as deep *)
Theorem tree_wfv : forall k t, (depth t <= S k)%nat -> tree_ok t -> wfv (node_codec k) (tree_val t).
Proof.
  induction k as [|k IH]; intros [v nx ks] Hd Hok; cbn [depth] in Hd; cbn [tree_ok] in Hok; destruct Hok as (Hv & Hnx & Hks);
    cbn [node_codec tree_val wfv node_fields f_codec f_slot slot nth length]; (split; [reflexivity|]).
  - (* depth one: no successor, no children *)
    destruct nx as [x|]; [pose proof (depth_pos x); lia|].
    destruct ks as [|y r]; [|cbn [fold_right] in Hd; pose proof (depth_pos y); lia].
    split; [right; exact Hv|]. split; [left; reflexivity|]. split; [left; reflexivity|exact I].
  - split; [right; exact Hv|]. split; [|split; [|exact I]].
    + destruct nx as [x|]; [right|left; reflexivity]. cbn [wfv]. apply IH; [lia|exact Hnx].
    + destruct ks as [|y r]; [left; reflexivity|right]. cbn [wfv]. apply Forall_forall. intros e He.
      apply in_map_iff in He. destruct He as (x & <- & Hin).
      apply IH; [|apply (kids_ok _ _ Hin Hks)]. apply (kids_depth _ _ (S k) Hin). lia.
Qed.

(** ... and canonical: what is omitted is exactly zero *)
Theorem tree_canon : forall k t, (depth t <= S k)%nat -> canon (node_codec k) (tree_val t).
Proof.
  assert (Hv0 : forall v, omit (CInt 64) (VInt v) = true -> VInt v = zero (CInt 64)).
  { intros v H. cbn [omit] in H. apply Z.eqb_eq in H. subst. reflexivity. }
  assert (Hslots : forall i vs, (i < 3)%nat -> ~ In i [0%nat; 1%nat; 2%nat] -> nth i vs (VSkip 0) = VSkip 0).
  { intros i vs Hi Hn. exfalso. apply Hn. cbn. lia. }
  induction k as [|k IH]; intros [v nx ks] Hd; cbn [depth] in Hd;
    cbn [node_codec tree_val canon node_fields f_codec f_slot slot nth map].
  - destruct nx as [x|]; [pose proof (depth_pos x); lia|].
    destruct ks as [|y r]; [|cbn [fold_right] in Hd; pose proof (depth_pos y); lia].
    cbn [map]. split; [|intros i Hi Hn; exfalso; apply Hn; cbn; lia].
    split; [split; [apply Hv0|exact I]|]. split; [split; [intros _; reflexivity|exact I]|].
    split; [split; [intros _; reflexivity|constructor]|exact I].
  - split; [|intros i Hi Hn; exfalso; apply Hn; cbn; lia].
    split; [split; [apply Hv0|exact I]|]. split; [|split; [|exact I]].
    + split.
      * destruct nx; cbn [omit]; [discriminate|reflexivity].
      * destruct nx as [x|]; [|exact I]. cbn [canon]. apply IH. lia.
    + split.
      * destruct ks; cbn [omit map]; [reflexivity|discriminate].
      * cbn [canon]. apply Forall_forall. intros e He. apply in_map_iff in He. destruct He as (x & <- & Hin).
        apply IH. apply (kids_depth _ _ (S k) Hin). lia.
Qed.

(** C01 for the recursive type: any finite tree, through any unfolding deep
    enough to hold it, comes back exactly *)
Theorem recursive_roundtrip : forall k t,
  (depth t <= S k)%nat -> tree_ok t -> fits (node_codec k) (tree_val t) ->
  unmarshal (node_codec k) (marshal (node_codec k) [] (tree_val t)) (zero (node_codec k)) = Ok (tree_val t).
Proof.
  intros k t Hd Hok Hf. unfold unmarshal, marshal.
  assert (E : omit (node_codec k) (tree_val t) = false) by (destruct k; reflexivity). rewrite E. cbn [app].
  assert (Ht : top_ok (node_codec k)) by (destruct k; exact I).
  pose proof (roundtrip_fresh (node_codec k) (tree_val t) (node_rt_ok k) Ht (tree_wfv k t Hd Hok) Hf (tree_canon k t Hd) E) as H.
  rewrite H. reflexivity.
Qed.

(** ** the model of CodecForType produces exactly these unfoldings *)
Definition node_env : env :=
  [mksdef (ascii "Node")
     [mkfdef true (ascii "V") (ascii "1") [] (TInt 0);
      mkfdef true (ascii "Next") (ascii "2") [] (TPtr (TStruct 0));
      mkfdef true (ascii "Kids") (ascii "3") [] (TSlice (TStruct 0))]].
Definition plain_cfg : cfg := mkcfg false false false false false false.

Lemma node_step : forall m c,
  codec_for plain_cfg node_env m (TStruct 0) [] = Ok c -> wire c = WTLength ->
  codec_for plain_cfg node_env (S (S m)) (TStruct 0) [] = Ok (CStruct (ascii "Node") 3 (node_fields c)).
Proof.
  intros m c H Hw. remember (S m) as m1 eqn:E1.
  cbn [codec_for]. cbv -[codec_for] in H |- *. subst m1.
  cbn [codec_for]. cbv -[codec_for wire] in H |- *. rewrite H. cbv -[wire].
  rewrite Hw. reflexivity.
Qed.

Lemma node_codec_for : forall k,
  codec_for plain_cfg node_env (2 * k + 2) (TStruct 0) [] = Ok (node_codec k).
Proof.
  induction k as [|k IH]; [vm_compute; reflexivity|].
  replace (2 * S k + 2)%nat with (S (S (2 * k + 2))) by lia.
  cbn [node_codec]. apply node_step; [exact IH|destruct k; reflexivity].
Qed.
