(** Correspondence definitions for C18: the case format the harness emits and
    the comparison against the model, evaluated with vm_compute. *)
From Plenc Require Import Base Varint Wire.
Open Scope N_scope.

Inductive skipout := SOk (n : N) | SNeg (z : Z) | SErr | SPanic | SHang.

Inductive c18case :=
| KVarUint (v : N) (bs : bytes) (size : N) (junk : bytes) (rv : N) (rn : Z)
| KVarInt (v : Z) (u : N) (bs : bytes) (size : N) (junk : bytes) (rv : Z) (rn : Z)
| KZag (u : N) (v : Z)
| KTag (wt : N) (idx : Z) (bs : bytes) (size : N) (junk : bytes) (rwt : N) (ridx : Z) (rn : Z)
| KReadRaw (bs : bytes) (rv : N) (rn : Z)
| KSkip (bs : bytes) (wt : N) (out : skipout).

Definition skipout_of (r : res N) : skipout :=
  match r with Ok n => SOk n | Err => SErr | Panic _ => SPanic | Hang _ => SHang | Blowup _ => SPanic end.

(** int(v>>3) of a uint64 *)
Definition model_case (c : c18case) : c18case :=
  match c with
  | KVarUint v _ _ junk _ _ =>
    let bs := append_varuint v in
    let '(rv, rn) := read_varuint (bs ++ junk) in
    KVarUint v bs (size_varuint v) junk rv rn
  | KVarInt v _ _ _ junk _ _ =>
    let bs := append_varint v in
    let '(rv, rn) := read_varint (bs ++ junk) in
    KVarInt v (zigzag v) bs (size_varint v) junk rv rn
  | KZag u _ => KZag u (zagzig u)
  | KTag wt idx _ _ junk _ _ _ =>
    let bs := append_tag wt idx in
    let '(rwt, ridx, rn) := read_tag (bs ++ junk) in
    KTag wt idx bs (size_tag wt idx) junk rwt (s64 (Z.to_N ridx)) rn
  | KReadRaw bs _ _ => let '(rv, rn) := read_varuint bs in KReadRaw bs rv rn
  | KSkip bs wt _ => KSkip bs wt (skipout_of (skip bs wt))
  end.

Definition list_eqb {A} (eqb : A -> A -> bool) := fix go (a b : list A) : bool :=
  match a, b with
  | [], [] => true
  | x :: a', y :: b' => eqb x y && go a' b'
  | _, _ => false
  end.
Definition bytes_eqb := list_eqb N.eqb.

Definition skipout_eqb (a b : skipout) : bool :=
  match a, b with
  | SOk n, SOk m => n =? m
  | SNeg x, SNeg y => (x =? y)%Z
  | SErr, SErr | SPanic, SPanic | SHang, SHang => true
  | _, _ => false
  end.

Definition case_eqb (a b : c18case) : bool :=
  match a, b with
  | KVarUint v bs sz j rv rn, KVarUint v' bs' sz' j' rv' rn' =>
    (v =? v') && bytes_eqb bs bs' && (sz =? sz') && bytes_eqb j j' && (rv =? rv') && (rn =? rn')%Z
  | KVarInt v u bs sz j rv rn, KVarInt v' u' bs' sz' j' rv' rn' =>
    (v =? v')%Z && (u =? u') && bytes_eqb bs bs' && (sz =? sz') && bytes_eqb j j' && (rv =? rv')%Z && (rn =? rn')%Z
  | KZag u v, KZag u' v' => (u =? u') && (v =? v')%Z
  | KTag wt i bs sz j rwt ri rn, KTag wt' i' bs' sz' j' rwt' ri' rn' =>
    (wt =? wt') && (i =? i')%Z && bytes_eqb bs bs' && (sz =? sz') && bytes_eqb j j'
    && (rwt =? rwt') && (ri =? ri')%Z && (rn =? rn')%Z
  | KReadRaw bs rv rn, KReadRaw bs' rv' rn' => bytes_eqb bs bs' && (rv =? rv') && (rn =? rn')%Z
  | KSkip bs wt o, KSkip bs' wt' o' => bytes_eqb bs bs' && (wt =? wt') && skipout_eqb o o'
  | _, _ => false
  end.

(** [mismatches_C18 base cases] : index (offset by [base]) and the model's
    expectation for every case where implementation and model differ. *)
Fixpoint mismatches_C18 (base : N) (cs : list c18case) : list (N * c18case) :=
  match cs with
  | [] => []
  | c :: rest =>
    let m := model_case c in
    if case_eqb c m then mismatches_C18 (base + 1) rest
    else (base, m) :: mismatches_C18 (base + 1) rest
  end.
