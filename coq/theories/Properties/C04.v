(** C04 - Decoding arbitrary bytes is total: value or error, never crash, hang
    or blow-up.  In the model every Go slice expression is a [go_drop]/[go_take]
    that yields [Panic] when out of bounds, every loop runs on fuel and yields
    [Hang] when it is exhausted, and every pre-allocation by a count read from
    the data passes through [alloc_guard], which yields [Blowup] unless the
    count is bounded by the bytes that remain.  The theorems say none of the
    three can happen, for every codec tree and every byte string.
    The same is proved for decoding through a Descriptor (C04_descriptor_walk).
    PARTIAL: wall-clock promptness and the real allocator are runtime facts
    (observed by the harness). *)
From Plenc Require Import Base Varint Wire JsonAny Codec Registry CorrCore DecBase JsonDecProofs DecProofs
  Descriptor WalkTotal.
Open Scope N_scope.

(** the tree [c] is good for inputs shorter than [d]: [okd d c] only restricts
    where the unfolding limit of a recursive type may sit (below [d] struct
    levels: every struct level consumes at least one byte) and asks fixed-width
    slices for a non-zero width.  Then Read returns a value or an error and
    consumes no more than it was given. *)
Theorem C04_total : forall c d, okd d c -> forall data wt prior,
  (length data < d)%nat -> good (dec c data wt prior) (len data).
Proof. intros c d H data wt prior Hd. exact (dec_total c d H data wt prior Hd). Qed.
Print Assumptions C04_total.

(** codec trees of non-recursive types (no unfolding limit): every input *)
Theorem C04_total_all_inputs : forall c data wt prior, nobottom c = true ->
  good (dec c data wt prior) (len data).
Proof. exact dec_total_nobottom. Qed.
Print Assumptions C04_total_all_inputs.

(** Unmarshal: success or error *)
Theorem C04_unmarshal : forall c data prior, nobottom c = true -> is_ok_or_err (unmarshal c data prior).
Proof.
  intros c data prior H. unfold unmarshal. pose proof (dec_total_nobottom c data (wire c) prior H) as G.
  destruct (dec c data (wire c) prior) as [[v n]| | | |]; cbn in *; auto.
Qed.
Print Assumptions C04_unmarshal.

(** the JSON-any codecs *)
Theorem C04_json : forall data wt prior,
  good (dec CJMap data wt prior) (len data) /\ good (dec CJArr data wt prior) (len data).
Proof. exact json_dec_total. Qed.
Print Assumptions C04_json.

(** decoding through a Descriptor: for every descriptor whose slice nodes carry
    their element descriptor ([dwf]; a slice node without one makes the Go code
    index an empty list), walking any byte string returns success or an error -
    never Panic / Hang - and never reports consuming more than it was given *)
Theorem C04_descriptor_walk : forall d, dwf d -> forall data, wgood (walk d data) (len data).
Proof. exact walk_total. Qed.
Print Assumptions C04_descriptor_walk.

(** ... in particular for the Descriptor of every codec plenc builds *)
Theorem C04_descriptor_walk_codec : forall c d data, descriptor_of c = Ok d -> wgood (walk d data) (len data).
Proof. exact walk_total_codec. Qed.
Print Assumptions C04_descriptor_walk_codec.

(** Skip (used for unknown fields) is total and bounded: see C18_skip_total /
    C18_skip_bounded. *)

(** non-vacuity: a codec with every kind of loop meets the hypothesis, and a
    hostile input gives an error in the model *)
Example C04_ex :
  let c := CStruct [] 3 [mkfld 0 1 [] (CSliceLen CString); mkfld 1 2 [] (CMap (CInt 64) (CPtr (CTime false)));
                         mkfld 2 3 [] (CSliceVar (CUint 8))] in
  nobottom c = true /\ unmarshal c [11; 255; 255; 255; 255; 15] (zero c) = Err /\ unmarshal c [26; 1; 128] (zero c) = Err
  /\ match descriptor_of c with Ok d => dwf d /\ w_out (walk d [11; 255; 255; 255; 255; 15]) = Err | _ => False end.
Proof. vm_compute. repeat split; try reflexivity; discriminate. Qed.
