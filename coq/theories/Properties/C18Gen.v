(** C18, tie by translation.  [PlencGen.GenCore] is generated from
    /repo/plenccore/*.go (varints.go, wire.go: every function of the package)
    by tools/gotrans on every run of this check - a syntax-directed translation
    into Gallina with Go's integer semantics made explicit (GoSem.v); loops run
    on explicit fuel, slicing is bounds-checked, errors are [Err].
    [PlencGen.CoreEquiv] (coq/theories/GenProofs/CoreEquiv.v, re-checked
    against the generated file on every run) proves, for ALL inputs, that each
    translated function computes what the hand-written model of Varint.v /
    Wire.v computes - the model every other theorem of this development is
    about - and carries C18's statements over to the code as translated.
    Statements only; not part of _CoqProject because it depends on the
    generated file.  Trusted here: gotrans (that it prints what the source
    says) and GoSem.v (that the operators mean what Go's do); binary.Uvarint and
    bits.Len64 are standard-library primitives (Varint.v transliterates the
    former). *)
From Plenc Require Import Base Varint Wire GoSem.
From PlencGen Require Import GenCore CoreEquiv.
Open Scope N_scope.

(** ** each translated function is the model's function *)
Theorem C18gen_ReadVarUint : forall data, ReadVarUint data = read_varuint data.
Proof. exact gen_ReadVarUint. Qed.
Print Assumptions C18gen_ReadVarUint.

Theorem C18gen_SizeVarUint : forall v, v < two64 -> SizeVarUint v = Z.of_N (size_varuint v).
Proof. exact gen_SizeVarUint. Qed.
Print Assumptions C18gen_SizeVarUint.

Theorem C18gen_AppendVarUint : forall v data fuel, v < two64 -> (10 <= fuel)%nat ->
  AppendVarUint fuel data v = Ok (data ++ append_varuint v).
Proof. exact gen_AppendVarUint64. Qed.
Print Assumptions C18gen_AppendVarUint.

Theorem C18gen_ZigZag : forall v, int64_ok v -> ZigZag v = zigzag v.
Proof. exact gen_ZigZag. Qed.
Print Assumptions C18gen_ZigZag.

Theorem C18gen_ZagZig : forall u, u < two64 -> ZagZig u = zagzig u.
Proof. exact gen_ZagZig. Qed.
Print Assumptions C18gen_ZagZig.

Theorem C18gen_ReadVarInt : forall data, bytes_ok data -> ReadVarInt data = read_varint data.
Proof. exact gen_ReadVarInt. Qed.
Print Assumptions C18gen_ReadVarInt.

Theorem C18gen_SizeVarInt : forall v, int64_ok v -> SizeVarInt v = Z.of_N (size_varint v).
Proof. exact gen_SizeVarInt. Qed.
Print Assumptions C18gen_SizeVarInt.

Theorem C18gen_AppendVarInt : forall v data fuel, int64_ok v -> (10 <= fuel)%nat ->
  AppendVarInt fuel data v = Ok (data ++ append_varint v).
Proof. exact gen_AppendVarInt. Qed.
Print Assumptions C18gen_AppendVarInt.

Theorem C18gen_wire_types :
  GenCore.WTVarInt = Z.of_N Wire.WTVarInt /\ GenCore.WT64 = Z.of_N Wire.WT64 /\ GenCore.WTLength = Z.of_N Wire.WTLength
  /\ GenCore.WTSlice = Z.of_N Wire.WTSlice /\ GenCore.WT32 = Z.of_N Wire.WT32.
Proof. exact gen_wire_types. Qed.
Print Assumptions C18gen_wire_types.

Theorem C18gen_ReadTag : forall data, bytes_ok data ->
  ReadTag data = (let '(wt, index, n) := read_tag data in (Z.of_N wt, index, n)).
Proof. exact gen_ReadTag. Qed.
Print Assumptions C18gen_ReadTag.

Theorem C18gen_SizeTag : forall wt index, (0 <= wt < 8)%Z -> (0 <= index < 2305843009213693952)%Z ->
  SizeTag wt index = Z.of_N (size_tag (Z.to_N wt) index).
Proof. exact gen_SizeTag. Qed.
Print Assumptions C18gen_SizeTag.

Theorem C18gen_AppendTag : forall wt index data fuel, (0 <= wt < 8)%Z -> (0 <= index < 2305843009213693952)%Z -> (10 <= fuel)%nat ->
  AppendTag fuel data wt index = Ok (data ++ append_tag (Z.to_N wt) index).
Proof. exact gen_AppendTag. Qed.
Print Assumptions C18gen_AppendTag.

(** Skip, every wire-type code, every input shorter than 2^62 bytes: Ok with the
    model's length, or an error exactly when the model errs - never a panic, never
    a hang ([lift] maps nothing else to [Err]: the model is total, WireProofs.skip_total) *)
Theorem C18gen_Skip : forall data wt, bytes_ok data -> (0 <= wt < 128)%Z ->
  (Z.of_nat (length data) < 4611686018427387904)%Z ->
  Skip (S (length data)) data wt = lift (skip data (Z.to_N wt)).
Proof. exact gen_Skip. Qed.
Print Assumptions C18gen_Skip.

(** ** C18 stated on the code as translated *)
Theorem C18code_varuint_roundtrip : forall v rest fuel, v < two64 -> (10 <= fuel)%nat ->
  exists b, AppendVarUint fuel [] v = Ok b /\
            ReadVarUint (b ++ rest) = (v, Z.of_nat (length b)) /\ SizeVarUint v = Z.of_nat (length b).
Proof. exact code_varuint_roundtrip. Qed.
Print Assumptions C18code_varuint_roundtrip.

Theorem C18code_varint_roundtrip : forall v rest fuel, int64_ok v -> (10 <= fuel)%nat ->
  exists b, AppendVarInt fuel [] v = Ok b /\
            ReadVarInt (b ++ rest) = (v, Z.of_nat (length b)) /\ SizeVarInt v = Z.of_nat (length b).
Proof. exact code_varint_roundtrip. Qed.
Print Assumptions C18code_varint_roundtrip.

Theorem C18code_zigzag_inverse : forall v, int64_ok v -> ZagZig (ZigZag v) = v.
Proof. exact code_zigzag_inverse. Qed.
Print Assumptions C18code_zigzag_inverse.

Theorem C18code_tag_roundtrip : forall wt index rest fuel, (0 <= wt < 8)%Z -> (0 <= index < 2305843009213693952)%Z -> (10 <= fuel)%nat ->
  exists b, AppendTag fuel [] wt index = Ok b /\
            ReadTag (b ++ rest) = (wt, index, Z.of_nat (length b)) /\ SizeTag wt index = Z.of_nat (length b).
Proof. exact code_tag_roundtrip. Qed.
Print Assumptions C18code_tag_roundtrip.

Theorem C18code_skip_exact_varint : forall v rest, v < two64 -> bytes_ok rest ->
  (Z.of_nat (length (append_varuint v ++ rest)) < 4611686018427387904)%Z ->
  Skip (S (length (append_varuint v ++ rest))) (append_varuint v ++ rest) 0 = Ok (Z.of_nat (length (append_varuint v))).
Proof. exact code_skip_exact_varint. Qed.
Print Assumptions C18code_skip_exact_varint.

Theorem C18code_skip_exact_length : forall body rest, bytes_ok body -> bytes_ok rest ->
  let data := append_varuint (len body) ++ body ++ rest in
  (Z.of_nat (length data) < 4611686018427387904)%Z ->
  Skip (S (length data)) data 2 = Ok (Z.of_nat (length (append_varuint (len body)) + length body)).
Proof. exact code_skip_exact_length. Qed.
Print Assumptions C18code_skip_exact_length.

Theorem C18code_skip_total : forall data wt, bytes_ok data -> (0 <= wt < 128)%Z ->
  (Z.of_nat (length data) < 4611686018427387904)%Z ->
  match Skip (S (length data)) data wt with
  | Ok n => (0 <= n <= Z.of_nat (length data))%Z
  | Err => True
  | _ => False
  end.
Proof. exact code_skip_total. Qed.
Print Assumptions C18code_skip_total.

(** non-vacuity: the translated functions run *)
Example C18gen_ex :
  AppendVarUint 10 [7] 300 = Ok [7; 172; 2] /\ ReadVarUint [172; 2; 9] = (300, 2%Z) /\ SizeVarUint 300 = 2%Z
  /\ ZigZag (-3) = 5 /\ ZagZig 5 = (-3)%Z
  /\ AppendTag 10 [] 2 5 = Ok [42] /\ ReadTag [42; 1] = (2%Z, 5%Z, 1%Z)
  /\ Skip 10 [2; 1; 65; 2; 66; 67; 99] 3 = Ok 6%Z /\ Skip 4 [200; 200; 200] 0 = Err.
Proof. vm_compute. repeat split; reflexivity. Qed.
