(** C15 - The JSON outputter turns any well-nested call sequence into matching,
    valid JSON.  Statements only; proofs are in OutputProofs.v. *)
From Plenc Require Import Base Output OutputProofs JsonGrammar.
Open Scope N_scope.

(** for every call tree (any depth and width, empty containers, every
    container/scalar adjacency) a new outputter produces exactly the structural
    reference rendering: separators, colons, indentation and the trailing-comma
    trim are right for all trees *)
Theorem C15_render : forall t,
  (do j <- o_run jout_init (ops_of t); o_done j) = Ok (render 0 false t ++ [10]).
Proof. exact output_render. Qed.
Print Assumptions C15_render.

(** ... and from any state of an enclosing document *)
Theorem C15_render_nested : forall t j,
  o_run j (ops_of t) = Ok (after j (render (o_depth j) (o_infield j) t)).
Proof. exact run_value. Qed.
Print Assumptions C15_render_nested.

(** every byte string, valid UTF-8 or not, is written as a string literal with
    no raw control byte or bare quote, and reads back to itself *)
Theorem C15_escape : forall s, Forall (fun c => c < 256) s ->
  drun DNormal (flat_map escape_byte s) = Some (DNormal, s).
Proof. exact escape_inverse. Qed.
Print Assumptions C15_escape.

(** after Reset the outputter behaves like a new one *)
Theorem C15_reset : forall ops1 ops2 j,
  (exists j1, o_run j ops1 = Ok j1) ->
  o_run j (ops1 ++ [OReset] ++ ops2) = o_run jout_init ops2.
Proof. exact output_reset. Qed.
Print Assumptions C15_reset.

(** validity and content: what a new outputter writes for a call tree is a
    document of the JSON grammar (values, arrays, objects, string literals,
    white space, separators - JsonGrammar.v) and the derivation yields the call
    tree back: names and strings through the string-literal automaton, containers
    element for element.  [valid_tok]: the number / boolean / time tokens that
    strconv and time print are JSON literals (their business, not the outputter's) *)
Theorem C15_output_is_json : forall (valid_tok : bytes -> Prop) t, toks_ok valid_tok t ->
  exists text, (do j <- o_run jout_init (ops_of t); o_done j) = Ok text /\ jdoc valid_tok text t.
Proof. exact output_is_json. Qed.
Print Assumptions C15_output_is_json.

(** ... at every nesting depth: the text of a subtree is a JSON value denoting it *)
Theorem C15_subtree_is_json : forall (valid_tok : bytes -> Prop) t d, toks_ok valid_tok t -> jvalue valid_tok (body d t) t.
Proof. exact body_is_json. Qed.
Print Assumptions C15_subtree_is_json.

Example C15_json_ex :
  let t := TObj [([97; 34], TArr [TScalar (STok [49]); TObj []; TArr []]); ([], TScalar (SStr [7; 255]))] in
  toks_ok (fun b => b = [49]) t.
Proof. cbv zeta. cbn [toks_ok fst snd]. repeat split; repeat constructor; lia. Qed.

(** non-vacuity *)
Example C15_ex :
  (do j <- o_run jout_init (ops_of (TObj [([97], TArr [TScalar (STok [49]); TObj []]); ([], TScalar (SStr [34; 10]))])); o_done j)
  = Ok [123;10; 32;32;34;97;34;58;32;91;10; 32;32;32;32;49;44;10; 32;32;32;32;123;10; 32;32;32;32;125;10; 32;32;93;44;10;
        32;32;34;34;58;32;34;92;34;92;110;34;10; 125;10].
Proof. vm_compute. reflexivity. Qed.
