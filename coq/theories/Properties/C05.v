(** C05 - Codec laws: reported size, appended bytes, framing and consumed
    length all agree.  Statements only; proofs are in SizeProofs.v. *)
From Plenc Require Import Base Varint Wire JsonAny Codec SizeProofs.
Open Scope N_scope.

(** the size a codec reports equals the number of bytes it appends, with and
    without a field tag - every codec tree (incl. the exported JSON, BigQuery
    timestamp and null codecs), every value; [fits] only asks that integers fit
    their Go type and that lengths written as varints are below 2^64 *)
Theorem C05_size : forall c v tag, fits c v -> size c v tag = len (enc c v tag).
Proof. exact size_law. Qed.
Print Assumptions C05_size.

(** a tagged length-delimited encoding is the tag, the varint length of the
    body, then the body the untagged form produces *)
Theorem C05_frame : forall c v tag, framed_codec c = true -> tag <> [] ->
  enc c v tag = tag ++ append_varuint (len (enc c v [])) ++ enc c v [].
Proof. exact frame_shape. Qed.
Print Assumptions C05_frame.

(** one such frame per element in the protobuf repeated-field form *)
Theorem C05_frame_proto : forall c v tag,
  enc (CSliceProto c) v tag = flat_map (fun x => enc c x tag) (slice_elems v).
Proof. exact proto_slice_shape. Qed.
Print Assumptions C05_frame_proto.

(** varint and fixed-width codecs: the tag is prepended to the untagged form *)
Theorem C05_frame_scalar : forall c v tag, scalar_codec c = true -> enc c v tag = tag ++ enc c v [].
Proof. exact scalar_shape. Qed.
Print Assumptions C05_frame_scalar.

(** JSON codecs *)
Theorem C05_size_json : forall j, jfits j -> jsize_value j = len (jenc_value j).
Proof. exact jsize_value_law. Qed.
Print Assumptions C05_size_json.

(** non-vacuity: a nested value with a map, a slice of structs and a time meets [fits] *)
Example C05_ex :
  let c := CStruct [] 3 [mkfld 0 1 [] (CSliceLen (CStruct [] 1 [mkfld 0 1 [] (CInt 64)]));
                         mkfld 1 2 [] (CMap CString (CTime false)); mkfld 2 300 [] (CPtr CF64)] in
  let v := VStruct [VSlice [VStruct [VInt (-5)]; VStruct [VInt 0]];
                    VMap (Some [(VStr [97], VTime 1600000000 5); (VStr [], VTime zero_sec 0)]);
                    VPtr (Some (VF64 0))] in
  fits c v /\ size c v [18] = len (enc c v [18]) /\ size c v [18] = 35.
Proof.
  cbv zeta. split; [|split; vm_compute; reflexivity].
  cbn [fits slice_elems map_entries_of struct_fields slot nth f_codec f_slot fst snd].
  repeat match goal with
  | |- _ /\ _ => split
  | |- Forall _ _ => constructor
  | |- True => exact I
  | |- _ = false -> _ => intros _
  | |- int64_ok _ => unfold int64_ok, two63Z, zero_sec; lia
  | |- (_ < _)%N => vm_compute; reflexivity
  | |- match _ with _ => _ end => cbn
  end.
Qed.
