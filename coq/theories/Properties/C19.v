(** C19 - Interning is transparent: same strings as without it, under any
    history and any interleaving of the atomic steps of Read. *)
From Plenc Require Import Base Intern InternProofs Codec Registry RegistryWf.
Open Scope N_scope.

(** for every set of threads, every input sequence and EVERY schedule: what a
    thread has been handed back so far is exactly its inputs so far *)
Theorem C19_transparent : forall inputs sched,
  Forall2 (fun ins t => t_results t ++ t_todo t = ins) inputs (i_threads (irun (iinit inputs) sched)).
Proof. exact intern_transparent. Qed.
Print Assumptions C19_transparent.

Theorem C19_finished : forall inputs sched i ins t,
  nth_error inputs i = Some ins -> nth_error (i_threads (irun (iinit inputs) sched)) i = Some t ->
  t_todo t = [] -> t_results t = ins.
Proof. exact intern_finished. Qed.
Print Assumptions C19_finished.

(** every table version ever published maps each key to a string with exactly
    that content; versions are never modified (a new version is a new value) *)
Theorem C19_tables : forall inputs sched, Forall table_ok (i_history (irun (iinit inputs) sched)).
Proof. exact intern_tables_ok. Qed.
Print Assumptions C19_tables.

(** the encoding of a field is unchanged by the option: a struct field tagged
    "N,intern" is built exactly like the same field tagged "N" - same index,
    name and codec (interning acts in Read only) - and the codec registered
    for (string, "intern") is the plain string codec *)
Theorem C19_encoding_unchanged : forall cf i fd num r, num <> [] -> ~ In 44 num -> num <> [45] ->
  build_fields cf i (with_plenc fd (num ++ 44 :: s_intern) :: r) = build_fields cf i (with_plenc fd num :: r).
Proof. exact intern_same_codec. Qed.
Print Assumptions C19_encoding_unchanged.
Theorem C19_string_registration : forall C, lookup (regs_of C) TString s_intern = lookup (regs_of C) TString [].
Proof. exact intern_string_registration. Qed.
Print Assumptions C19_string_registration.

Example C19_ex :
  let s := irun (iinit [[[97]; [98]; [97]]; [[97]; []]]) [0;1;0;1;0;1;0;1;1;0;0;1;1;0;0;0;0;1;1;1;0;0;0;0;0;0;0;0;0;0;0;1;1;1;1;1;1;1;1;1;1;1;1;1;1;1;1]%nat in
  map t_results (i_threads s) = [[[97]; [98]; [97]]; [[97]; []]] /\ i_lock s = None.
Proof. vm_compute. split; reflexivity. Qed.
