(** C13 - Descriptor-driven decoding yields JSON equal to the typed decode.
    The model (Descriptor.v) transcribes Descriptor.read and is compared with
    the implementation call for call (Outputter events).  Theorems proved so
    far cover the scalar leaves; the composite cases are decided by the
    correspondence and the native JSON comparison (see DESIGN.md, C13). *)
From Plenc Require Import Base Varint Wire JsonAny Codec Descriptor DescProofs.
Open Scope N_scope.

Theorem C13_walk_int_partial : forall b z d, descriptor_of (CInt b) = Ok d -> int64_ok z ->
  walk d (enc (CInt b) (VInt z) []) = wok [EvInt z] (len (append_varint z)).
Proof. exact walk_int. Qed.
Print Assumptions C13_walk_int_partial.

Theorem C13_walk_uint_partial : forall b u d, descriptor_of (CUint b) = Ok d -> u < two64 ->
  walk d (enc (CUint b) (VInt (Z.of_N u)) []) = wok [EvUint u] (len (append_varuint u)).
Proof. exact walk_uint. Qed.
Print Assumptions C13_walk_uint_partial.

Theorem C13_walk_string_partial : forall s d, descriptor_of CString = Ok d ->
  walk d (enc CString (VStr s) []) = wok [EvStr s] (len s).
Proof. exact walk_string. Qed.
Print Assumptions C13_walk_string_partial.

Theorem C13_walk_bool_partial : forall b d, descriptor_of CBool = Ok d ->
  walk d (enc CBool (VBool b) []) = wok [EvBool b] 1.
Proof. exact walk_bool. Qed.
Print Assumptions C13_walk_bool_partial.

(** non-vacuity and a composite example evaluated in the model *)
Example C13_ex :
  let c := CStruct [] 2 [mkfld 0 1 [65] (CInt 64); mkfld 1 2 [66] (CSliceLen CString)] in
  match descriptor_of c with
  | Ok d => w_ev (walk d (enc c (VStruct [VInt (-3); VSlice [VStr [104]; VStr []]]) []))
  | _ => []
  end
  = [EvStartObj; EvName [65]; EvInt (-3); EvName [66]; EvStartArr; EvStr [104]; EvStr []; EvEndArr; EvEndObj].
Proof. vm_compute. reflexivity. Qed.
