(** C13 - Descriptor-driven decoding yields JSON equal to the typed decode.
    The model (Descriptor.v) transcribes Descriptor.read and is compared with
    the implementation call for call (Outputter events).

    Proved here, for every codec tree of the fragment [walk_ok] - structs
    nested to any depth, pointers, null.* types, packed and counted slices,
    maps (string-keyed: an object; other keys: a list of key / value objects;
    omitted entry members supplied as the walker does), JSON-any objects and
    arrays (C16), and the scalar leaves
    bool / int / uint / 64-bit flat int / float32 / float64 / string / bytes /
    time - and every well-typed value: walking Marshal's output with the
    type's Descriptor consumes it exactly and emits precisely the Outputter calls
    of the value ([vev]); fed to a new JSON outputter these calls render the
    value's image in the JSON data model ([vtree]: structs as objects keyed by
    field name with omitted fields absent, slices as arrays element for element
    - empty elements included -, pointers as their target; this rendering
    theorem is for map-free types).  PARTIAL: narrow `flat` integers (finding D17d), the protobuf
    forms (findings D29 / D31) are decided by the correspondence and the native
    comparison only.  The variant "descriptor restored through plenc" is a
    theorem (C13_restored_through_plenc*: the Descriptor type is itself a
    recursive plenc struct; any descriptor of any depth and width round-trips
    through its codec and so drives the walker identically); the variant
    restored through encoding/json is observed natively.  How numbers, booleans and times are printed is
    strconv's / time's business ([tok]). *)
From Plenc Require Import Base Varint Wire JsonAny Codec SizeProofs RoundTripBase RoundTrip
  Descriptor DescProofs Output JsonWalk WalkProofs Registry CorrCore DescRT JsonGrammar WalkJson.
Open Scope N_scope.

(** the walk of a codec's own encoding, in the form its wire type calls for:
    exactly the body for length-delimited codecs, the body followed by anything
    for self-delimiting ones *)
Theorem C13_walk_partial : forall c, walk_ok c -> forall v d,
  descriptor_of c = Ok d -> wfv c v -> fits c v -> wkv c v ->
  (wire c = WTLength -> walk d (enc c v []) = wok (vev c v) (len (enc c v []))) /\
  (wire c <> WTLength -> forall more, walk d (enc c v [] ++ more) = wok (vev c v) (len (enc c v []))).
Proof. exact walk_enc. Qed.
Print Assumptions C13_walk_partial.

(** the emitted calls are those of the value's JSON-data-model image *)
Theorem C13_calls_are_image_partial : forall (tok : ev -> bytes) c, walk_ok c -> nomaps c = true -> forall v, wfv c v ->
  map (oop_of tok) (vev c v) = ops_of (vtree tok c v).
Proof. exact vev_ops. Qed.
Print Assumptions C13_calls_are_image_partial.

(** end to end for a struct type *)
Theorem C13_struct_renders_partial : forall (tok : ev -> bytes) nm n fs vs d,
  walk_ok (CStruct nm n fs) -> nomaps (CStruct nm n fs) = true -> descriptor_of (CStruct nm n fs) = Ok d ->
  wfv (CStruct nm n fs) (VStruct vs) -> fits (CStruct nm n fs) (VStruct vs) -> wkv (CStruct nm n fs) (VStruct vs) ->
  let data := enc (CStruct nm n fs) (VStruct vs) [] in
  let w := walk d data in
  w_out w = Ok (len data) /\
  (do j <- o_run jout_init (map (oop_of tok) (w_ev w)); o_done j)
  = Ok (render 0 false (vtree tok (CStruct nm n fs) (VStruct vs)) ++ [10]).
Proof. exact walk_renders_struct. Qed.
Print Assumptions C13_struct_renders_partial.

(** ... and that text is valid JSON whose content is the value's image: a
    document of the JSON grammar (JsonGrammar.v) whose derivation yields [vtree]
    (strings and names being byte strings, the tokens of strconv / time being
    JSON literals) *)
Theorem C13_walk_output_is_json_partial : forall (tok : ev -> bytes) (valid_tok : bytes -> Prop),
  (forall e, valid_tok (tok e)) -> forall nm n fs vs d,
  walk_ok (CStruct nm n fs) -> nomaps (CStruct nm n fs) = true -> descriptor_of (CStruct nm n fs) = Ok d ->
  wfv (CStruct nm n fs) (VStruct vs) -> fits (CStruct nm n fs) (VStruct vs) -> wkv (CStruct nm n fs) (VStruct vs) ->
  sok (CStruct nm n fs) (VStruct vs) ->
  let data := enc (CStruct nm n fs) (VStruct vs) [] in
  let w := walk d data in
  w_out w = Ok (len data) /\
  exists text, (do j <- o_run jout_init (map (oop_of tok) (w_ev w)); o_done j) = Ok text /\
               jdoc valid_tok text (vtree tok (CStruct nm n fs) (VStruct vs)).
Proof. exact walk_output_is_json. Qed.
Print Assumptions C13_walk_output_is_json_partial.

(** the root's field index, name and explicit-presence flag play no part in
    the walk (so a Descriptor embedded as a field or pointer target walks alike) *)
Theorem C13_root_attributes_ignored : forall i n d data,
  walk (with_field i n d) data = walk d data /\ walk (with_explicit d) data = walk d data.
Proof. intros. split; [apply walk_with_field|apply walk_with_explicit]. Qed.
Print Assumptions C13_root_attributes_ignored.

(** the Descriptor type's own codec: the model of CodecForType applied to the
    definition of `Descriptor` gives the unfoldings [desc_codec k] ... *)
Theorem C13_descriptor_codec : forall k,
  codec_for dplain_cfg desc_env (2 * k + 2) (TStruct 0) [] = Ok (desc_codec k).
Proof. exact desc_codec_for. Qed.
Print Assumptions C13_descriptor_codec.

(** ... any descriptor (depth <= the unfolding, numbers within Go's int)
    marshalled with it and unmarshalled into a fresh Descriptor is the same
    descriptor, and walks any data identically *)
Theorem C13_restored_through_plenc : forall k d,
  (ddepth d <= S k)%nat -> d_ok d -> fits (desc_codec k) (dval d) ->
  unmarshal (desc_codec k) (marshal (desc_codec k) [] (dval d)) (zero (desc_codec k)) = Ok (dval d).
Proof. exact descriptor_plenc_roundtrip. Qed.
Print Assumptions C13_restored_through_plenc.

Theorem C13_restored_through_plenc_walks_same : forall k d d' data,
  (ddepth d <= S k)%nat -> d_ok d -> fits (desc_codec k) (dval d) ->
  unmarshal (desc_codec k) (marshal (desc_codec k) [] (dval d)) (zero (desc_codec k)) = Ok (dval d') ->
  d' = d /\ walk d' data = walk d data.
Proof. exact restored_walks_same. Qed.
Print Assumptions C13_restored_through_plenc_walks_same.

(** non-vacuity: the descriptor of a struct with a map, a slice of structs and
    a pointer, restored through its own codec *)
Example C13_restored_ex :
  let inner := CStruct (ascii "In") 2 [mkfld 0 1 (ascii "a") (CInt 32); mkfld 1 2 (ascii "b") CString] in
  let c := CStruct (ascii "T") 3 [mkfld 0 1 (ascii "p") (CPtr inner); mkfld 1 7 (ascii "l") (CSliceLen inner);
                                   mkfld 2 3 (ascii "m") (CMap CString (CTime false))] in
  match descriptor_of c with
  | Ok d => (ddepth d <= S 4)%nat /\ d_ok d /\
            unmarshal (desc_codec 4) (marshal (desc_codec 4) [] (dval d)) (zero (desc_codec 4)) = Ok (dval d)
  | _ => False
  end.
Proof. cbv zeta. vm_compute. repeat split; try lia; try discriminate. Qed.

(** non-vacuity: a composite codec of the fragment with a value meeting every
    hypothesis, and its walk evaluated in the model *)
Example C13_ex :
  let c := CStruct [] 5 [mkfld 0 1 [65] (CInt 64); mkfld 1 2 [66] (CSliceLen CString);
                         mkfld 2 3 [67] (CPtr (CStruct [] 1 [mkfld 0 1 [68] CBool]));
                         mkfld 3 4 [69] (CMap CString (CPtr (CInt 64))); mkfld 4 5 [70] (CMap (CInt 64) CString)] in
  let v := VStruct [VInt (-3); VSlice [VStr [104]; VStr []]; VPtr (Some (VStruct [VBool true]));
                    VMap (Some [(VStr [], VPtr None); (VStr [107], VPtr (Some (VInt 0)))]);
                    VMap (Some [(VInt 0, VStr [120])])] in
  walk_ok c /\ wfv c v /\ wkv c v /\
  match descriptor_of c with
  | Ok d => w_ev (walk d (enc c v []))
  | _ => []
  end
  = [EvStartObj; EvName [65]; EvInt (-3); EvName [66]; EvStartArr; EvStr [104]; EvStr []; EvEndArr;
     EvName [67]; EvStartObj; EvName [68]; EvBool true; EvEndObj;
     EvName [69]; EvStartObj; EvStr []; EvRaw (ascii "null"); EvStr [107]; EvInt 0; EvEndObj;
     EvName [70]; EvStartArr; EvStartObj; EvName (ascii "value"); EvStr [120]; EvEndObj; EvEndArr; EvEndObj].
Proof.
  cbv zeta. split; [|split; [|split]].
  - cbn. unfold bits_ok. repeat split; try lia; auto 6; try (repeat constructor; cbn; intuition discriminate).
  - cbn. unfold int_range. cbn.
    repeat match goal with
    | |- _ /\ _ => split
    | |- Forall _ _ => constructor
    | |- True => exact I
    | |- _ = _ => reflexivity
    | |- (_ <= _ < _)%Z => lia
    | |- (_ <= _)%Z => lia
    | |- (_ < _)%Z => lia
    | |- false = true \/ _ => right
    | |- _ \/ _ => first [left; reflexivity | right; exact I | right; cbn; lia | left; exact I]
    end.
  - cbn. unfold two63.
    repeat match goal with
    | |- _ /\ _ => split
    | |- Forall _ _ => constructor
    | |- True => exact I
    | |- (_ < _)%N => lia
    | |- _ => cbn [fst snd]; exact I
    end.
  - vm_compute. reflexivity.
Qed.
