(** C08 - Type definitions are validated: a working codec or an error, never a
    panic.  "A codec that obeys the other properties": every codec tree that
    [codec_for] returns is structurally sound ([sane]: distinct, bounded,
    non-negative indexes; distinct slots inside the struct; the slice forms sit
    over elements of the wire type they need; fixed-width slices have a width)
    and therefore decodes arbitrary bytes totally (C04's theorem) and
    round-trips (C01's theorem, on the fragment that theorem covers).
    Known findings: a huge index makes construction allocate an unbounded
    lookup table (D22, the model's [Blowup]); a recursive named non-struct type
    overflows the stack (D26, outside the model's type language). *)
From Plenc Require Import Base Varint Wire JsonAny Codec DecBase DecProofs Registry RegistryProofs RoundTrip RegistryWf.
Open Scope N_scope.

(** asking for a codec never panics and always terminates: a codec, an error,
    or the unbounded-table outcome of D22 *)
Theorem C08_no_panic : forall C E fuel t tag, build_safe (codec_for C E fuel t tag).
Proof. exact codec_for_safe. Qed.
Print Assumptions C08_no_panic.

(** an exported field without a plenc tag, with an unparsable index or with a
    negative index: never a codec *)
Theorem C08_bad_field_rejected : forall C E f id sd,
  lookup (regs_of C) (TStruct id) [] = None ->
  nth_error E (N.to_nat id) = Some sd -> Exists bad_field (sd_fields sd) ->
  forall c, codec_for C E (S f) (TStruct id) [] <> Ok c.
Proof. exact bad_definition_rejected. Qed.
Print Assumptions C08_bad_field_rejected.

(** unsupported kinds (complex, array, chan, func, interface, uintptr, unsafe
    pointer) are errors wherever they are asked for *)
Theorem C08_unsupported_kinds : forall C E f t tag,
  lookup (regs_of C) t tag = None ->
  match strip t with TIface | TBad _ => True | _ => False end ->
  codec_for C E (S f) t tag = Err.
Proof. exact unsupported_kinds. Qed.
Print Assumptions C08_unsupported_kinds.

(** pointers to maps and maps of maps are errors *)
Theorem C08_map_nesting : forall C E f e k v tag,
  (lookup (regs_of C) (TPtr e) tag = None -> is_map_kind e = true -> codec_for C E (S f) (TPtr e) tag = Err) /\
  (lookup (regs_of C) (TMap k v) tag = None -> is_map_kind v = true -> codec_for C E (S f) (TMap k v) tag = Err).
Proof. exact map_nesting_rejected. Qed.
Print Assumptions C08_map_nesting.

(** an accepted struct has pairwise different, bounded indexes (two fields
    sharing an index are rejected) and one slot per Go field *)
Theorem C08_accepted_struct : forall C E f id sd nm n fs,
  lookup (regs_of C) (TStruct id) [] = None ->
  nth_error E (N.to_nat id) = Some sd ->
  codec_for C E (S f) (TStruct id) [] = Ok (CStruct nm n fs) ->
  NoDup (map (fun f => f_index f) fs) /\ Forall (fun f => (f_index f < max_sane_index)%Z) fs /\ n = length (sd_fields sd).
Proof. exact accepted_struct_indexes. Qed.
Print Assumptions C08_accepted_struct.

(** unexported fields and fields tagged "-" get no field entry: they are never
    encoded and never written (the decoder only writes the slots of entries) *)
Theorem C08_skipped_fields : forall cf fd r i,
  (fd_exported fd = false \/ fd_plenc fd = [45]) ->
  build_fields cf i (fd :: r) = build_fields cf (S i) r.
Proof.
  intros cf fd r i [H|H]; cbn [build_fields]; rewrite H; cbn [negb]; [reflexivity|].
  destruct (negb (fd_exported fd)); reflexivity.
Qed.
Print Assumptions C08_skipped_fields.

(** every accepted codec tree is structurally sound, whatever the type, the
    tag, the environment of struct definitions and the instance configuration *)
Theorem C08_accepted_sane : forall C E fuel t tag c, codec_for C E fuel t tag = Ok c -> sane c.
Proof. exact codec_for_sane. Qed.
Print Assumptions C08_accepted_sane.

(** ... so it never crashes or hangs on any input ([bottom_free]: no recursive
    type was cut off by the model's unfolding limit) *)
Theorem C08_accepted_total : forall C E fuel t tag c,
  codec_for C E fuel t tag = Ok c -> bottom_free c = true ->
  forall data wt prior, good (dec c data wt prior) (len data).
Proof. exact accepted_total. Qed.
Print Assumptions C08_accepted_total.

(** ... and it round-trips every value ([frag]: the codec constructors covered
    by C01's theorem - everything but the JSON / BQ codecs and scalar slices
    over pointer / null elements): on its own unless it is a repeated form
    ([topb]), and as a field of any struct always ([FRT]) *)
Theorem C08_accepted_roundtrips_partial : forall C E fuel t tag c,
  codec_for C E fuel t tag = Ok c -> frag c = true -> (topb c = true -> RTc c) /\ FRT c.
Proof. exact accepted_roundtrips. Qed.
Print Assumptions C08_accepted_roundtrips_partial.

Example C08_ex :
  let E := [mksdef [] [mkfdef true [65] [49] [] (TInt 0); mkfdef false [98] [] [] (TInt 0); mkfdef true [67] [45] [] (TBad 3);
                       mkfdef true [68] [50;44;102;108;97;116] [] (TInt 8)];
            mksdef [] [mkfdef true [65] [49] [] (TInt 0); mkfdef true [66] [48;49] [] TString];
            mksdef [] [mkfdef true [65] [45;49] [] (TInt 0)]] in
  codec_for (mkcfg false false false false false false) E 4 (TStruct 0) []
    = Ok (CStruct [] 4 [mkfld 0 1 [65] (CInt 64); mkfld 3 2 [68] (CFlat 8)]) /\
  codec_for (mkcfg false false false false false false) E 4 (TStruct 1) [] = Err /\
  codec_for (mkcfg false false false false false false) E 4 (TStruct 2) [] = Err.
Proof. vm_compute. repeat split; reflexivity. Qed.
