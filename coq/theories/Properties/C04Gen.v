(** C04, tie by translation for the struct codec: the Read loop of
    /repo/plenccodec/struct.go as translated on every run ([PlencGen.GenStruct],
    see Properties/C03Gen.v and GenProofs/StructEquiv.v) is total on arbitrary
    bytes: for every byte string, every decoder table of total field decoders
    and every fieldsByIndex that agrees with it, the translated loop returns a
    value having consumed exactly the input, or an error - no slice expression
    or index out of range, no call through a nil codec ([Panic]), no loop that
    outruns its fuel ([Hang]).  Statements only; outside _CoqProject because it
    depends on the generated files. *)
From Plenc Require Import Base Varint Wire GoSem JsonAny Codec SizeProofs DecBase DecProofs GoMem.
From PlencGen Require Import GenCore CoreEquiv GenStruct StructEquiv.
Open Scope N_scope.

Theorem C04code_struct_read_total : forall flds byidx tbl data cur wt,
  bytes_ok data -> (Z.of_nat (length data) < 4611686018427387904)%Z ->
  byidx_ok byidx tbl -> Forall (fun e => dsafe (length data) (snd e)) tbl ->
  match StructCodec_Read (S (length data)) (mkStructCodec tt flds byidx) data (VStruct cur) wt with
  | Ok (_, n) => n = Z.of_nat (length data)
  | Err => True
  | _ => False
  end.
Proof.
  intros flds byidx tbl data cur wt Hb Hlen Htbl Hsafe.
  rewrite (gen_StructCodec_Read flds byidx tbl data cur wt Hb Hlen Htbl Hsafe).
  pose proof (struct_loop_safe tbl (length data) Hsafe (S (length data)) data 0 cur ltac:(lia) ltac:(lia)) as H.
  destruct (struct_loop tbl (S (length data)) data 0 cur) as [[vs n]| | | |]; cbn [lift_struct]; try contradiction; [|exact I].
  subst n. unfold len. lia.
Qed.
Print Assumptions C04code_struct_read_total.

(** with the model's codecs in the fields: every struct type, every input *)
Theorem C04code_struct_read_total_model : forall nm n fs k data vs wt,
  bytes_ok data -> (Z.of_nat (length data) < 4611686018427387904)%Z ->
  Forall (fun f => (f_index f < Z.of_nat k)%Z) fs ->
  okd (S (length data)) (CStruct nm n fs) ->
  match StructCodec_Read (S (length data)) (gstruct fs k) data (VStruct vs) wt with
  | Ok (_, used) => used = Z.of_nat (length data)
  | Err => True
  | _ => False
  end.
Proof.
  intros nm n fs k data vs wt Hb Hlen Hk Hokd. unfold gstruct.
  apply (C04code_struct_read_total (map gdesc fs) (by_index fs k) (tbl_of fs)); auto.
  - apply by_index_ok. exact Hk.
  - unfold tbl_of. rewrite Forall_map. cbn [snd].
    pose proof (okd_struct_fields nm n fs (length data) Hokd) as Hf.
    rewrite Forall_forall in *. intros f Hin. apply dec_total. apply Hf. exact Hin.
Qed.
Print Assumptions C04code_struct_read_total_model.

(** non-vacuity: a truncated length-delimited field and a huge declared length are errors, not faults *)
Example C04code_ex :
  let fs := [mkfld 0 1 [] (CInt 64); mkfld 1 4 [] CString] in
  StructCodec_Read 4 (gstruct fs 8) [34; 5; 120] (VStruct [VInt 0; VStr []]) 2 = Err
  /\ StructCodec_Read 13 (gstruct fs 8) [34; 255; 255; 255; 255; 255; 255; 255; 255; 255; 1; 120] (VStruct [VInt 0; VStr []]) 2 = Err
  /\ StructCodec_Read 3 (gstruct fs 8) [8; 128] (VStruct [VInt 0; VStr []]) 2 = Err.
Proof. vm_compute. repeat split; reflexivity. Qed.
