(** C15, tie by translation.  [PlencGen.GenOutput] is generated from
    /repo/plenccodec/output.go by tools/gotrans on every run of this check: the
    JSONOutput record and every method that does not go through strconv / time
    (Reset, prefix, end, punctuate, StartObject, EndObject, StartArray, EndArray,
    NameField, String, Raw, Done, appendString), the pointer receiver threaded
    through as a record, `s := &j.stack[len-1]` as a place, slicing and indexing
    bounds-checked.  [PlencGen.OutputEquiv] (coq/theories/GenProofs/OutputEquiv.v,
    re-checked against the generated file) proves that the translated methods
    simulate the model's state machine (Output.v) step for step - for ALL states,
    names, strings and call sequences - so the model's theorems (C15_render,
    C15_output_is_json, C15_escape, C15_reset) hold of the code as translated.
    The numeric / bool / time methods are `prefix; append(strconv...); punctuate`
    - the shape of Raw with the token strconv prints; they are tied by the
    correspondence check.  Statements only; outside _CoqProject because it
    depends on the generated file. *)
From Plenc Require Import Base Varint GoSem Output OutputProofs.
From PlencGen Require Import GenOutput OutputEquiv.
Open Scope N_scope.

Theorem C15gen_appendString : forall v data fuel,
  (Z.of_nat (length v) < 4611686018427387904)%Z -> (length v < fuel)%nat ->
  JSONOutput_appendString fuel data v = Ok (data ++ append_string v).
Proof. exact gen_appendString. Qed.
Print Assumptions C15gen_appendString.

(** on the code as translated: any byte string (valid UTF-8 or not) is written as
    a quoted literal with no raw control byte and no bare quote, and the literal
    reads back to the string (the automaton [drun] accepts exactly JSON's escapes) *)
Theorem C15code_string_literal : forall v fuel, Forall (fun c => c < 256) v ->
  (Z.of_nat (length v) < 4611686018427387904)%Z -> (length v < fuel)%nat ->
  exists body, JSONOutput_appendString fuel [] v = Ok ([34] ++ body ++ [34]) /\ drun DNormal body = Some (DNormal, v).
Proof.
  intros v fuel Hb Hl Hf. exists (flat_map escape_byte v). split.
  - rewrite (gen_appendString v [] fuel Hl Hf). reflexivity.
  - apply escape_inverse. exact Hb.
Qed.
Print Assumptions C15code_string_literal.

(** the relation between the translated record and the model's state *)
Theorem C15gen_init : R gen_init jout_init.
Proof. exact R_init. Qed.
Print Assumptions C15gen_init.

(** every translated method simulates the model's step: from related states it
    ends in related states, and panics exactly when the model does (an End call
    without a matching Start) *)
Theorem C15gen_step : forall fuel g m op, R g m -> roomy m (op_extra op) -> (o_depth m < fuel)%nat -> (op_len op < fuel)%nat ->
  sim (gen_step fuel g op) (o_step m op).
Proof. exact gen_step_sim. Qed.
Print Assumptions C15gen_step.

(** ... and so do whole call sequences ([within]: the document stays below 2^62
    bytes and the nesting depth below the loop fuel) *)
Theorem C15gen_run : forall ops fuel g m, R g m -> within fuel m ops -> sim (gen_run fuel g ops) (o_run m ops).
Proof. exact gen_run_sim. Qed.
Print Assumptions C15gen_run.

Theorem C15gen_Done : forall g m fuel, R g m -> small m ->
  match o_done m with
  | Ok text => exists g', JSONOutput_Done fuel g = Ok (g', text)
  | Panic _ => exists s, JSONOutput_Done fuel g = Panic s
  | _ => False
  end.
Proof. exact gen_Done. Qed.
Print Assumptions C15gen_Done.

(** C15 on the code as translated: for every call tree, the translated methods
    called in the tree's order on a new outputter, then Done, return exactly the
    reference rendering of the tree (which C15_output_is_json shows to be a JSON
    document denoting the tree) *)
Theorem C15code_renders_tree : forall t fuel,
  within fuel jout_init (ops_of t) ->
  (forall m1, o_run jout_init (ops_of t) = Ok m1 -> small m1) ->
  exists g1 g2, gen_run fuel gen_init (ops_of t) = Ok g1 /\ JSONOutput_Done fuel g1 = Ok (g2, render 0 false t ++ [10]).
Proof. exact gen_renders_tree. Qed.
Print Assumptions C15code_renders_tree.

(** ... with nothing left to assume but the size of the document: the number of
    calls below the loop fuel, every name / string shorter than the fuel, and
    calls^2 plus the text well inside Go's int *)
Theorem C15code_renders_tree_bounded : forall t fuel,
  let ops := ops_of t in
  (length ops < fuel)%nat -> Forall (fun op => op_len op < fuel)%nat ops ->
  (Z.of_nat (length ops) * (2 * Z.of_nat (length ops) + 8) + Z.of_nat (ops_extra ops) + 17 < 4611686018427387904)%Z ->
  exists g1 g2, gen_run fuel gen_init ops = Ok g1 /\ JSONOutput_Done fuel g1 = Ok (g2, render 0 false t ++ [10]).
Proof. exact gen_renders_tree_bounded. Qed.
Print Assumptions C15code_renders_tree_bounded.

Example C15gen_run_ex :
  let ops := ops_of (TObj [([97], TArr [TScalar (STok [49]); TObj []]); ([], TScalar (SStr [34; 10]))]) in
  (do g <- gen_run 20 gen_init ops; do r <- JSONOutput_Done 20 g; Ok (snd r))
  = Ok [123;10; 32;32;34;97;34;58;32;91;10; 32;32;32;32;49;44;10; 32;32;32;32;123;10; 32;32;32;32;125;10; 32;32;93;44;10;
        32;32;34;34;58;32;34;92;34;92;110;34;10; 125;10].
Proof. vm_compute. reflexivity. Qed.

Example C15gen_ex : JSONOutput_appendString 9 [58] [97; 34; 10; 1; 255] = Ok [58; 34; 97; 92; 34; 92; 110; 92; 117; 48; 48; 48; 49; 255; 34].
Proof. vm_compute. reflexivity. Qed.
