(** C02, tie by translation for the writing side of structs and slices.
    [PlencGen.GenStruct] (struct.go: StructCodec.size / append / Size / Append)
    and [PlencGen.GenSlice] (wrapper.go: BaseSliceWrapper.Omit and size / append
    / Size / Append of WTVarIntSliceWrapper, WTFixedSliceWrapper,
    WTLengthSliceWrapper, ProtoSliceWrapper) are generated from the Go source by
    tools/gotrans on every run of this check, on top of the translated plenccore.
    [PlencGen.StructEquiv] and [PlencGen.SliceEquiv] (coq/theories/GenProofs,
    re-checked against the generated files) prove them equal to the model's
    [enc] / [size] / [omit]; the statements below spell the documented format
    out on the code as translated.  Statements only; outside _CoqProject because
    it depends on the generated files. *)
From Plenc Require Import Base Varint Wire VarintProofs GoSem JsonAny Codec SizeProofs GoMem.
From PlencGen Require Import GenCore CoreEquiv GenStruct StructEquiv GenSlice SliceEquiv.
Open Scope N_scope.

(** a struct: its fields in declaration order, each under its tag, omitted fields absent; length-prefixed under a tag *)
Theorem C02code_struct_fields_in_order : forall fs k vs data fuel,
  StructCodec_append fuel (gstruct fs k) data (VStruct vs)
  = Ok (data ++ flat_map (fun f => let fv := slot vs (f_slot f) in
                                   if omit (f_codec f) fv then [] else enc (f_codec f) fv (field_tag (f_codec f) (f_index f))) fs).
Proof. exact gen_StructCodec_append. Qed.
Print Assumptions C02code_struct_fields_in_order.

Theorem C02code_struct_Append : forall nm n fs k vs tag data fuel,
  fits (CStruct nm n fs) (VStruct vs) -> (len (enc (CStruct nm n fs) (VStruct vs) []) < 4611686018427387904) ->
  (10 <= fuel)%nat ->
  StructCodec_Append fuel (gstruct fs k) data (VStruct vs) tag = Ok (data ++ enc (CStruct nm n fs) (VStruct vs) tag).
Proof. exact gen_StructCodec_Append. Qed.
Print Assumptions C02code_struct_Append.

(** scalar slices are packed: the elements one after the other, length-prefixed under the tag *)
Theorem C02code_packed_slice : forall c l data tag fuel, (Z.of_nat (length l) < 4611686018427387904)%Z -> (length l < fuel)%nat -> (10 <= fuel)%nat ->
  Forall (fits c) l -> len (flat_map (fun x => enc c x []) l) < 4611686018427387904 -> tag <> [] ->
  WTVarIntSliceWrapper_Append fuel (vw c) data (hdr l) tag
  = Ok (data ++ tag ++ append_varuint (len (flat_map (fun x => enc c x []) l)) ++ flat_map (fun x => enc c x []) l).
Proof.
  intros c l data tag fuel Hl Hf Hf10 Hfits Hb Ht. rewrite gen_VarSlice_Append by assumption.
  cbn [enc slice_elems]. unfold frame_tag. destruct tag; [congruence|reflexivity].
Qed.
Print Assumptions C02code_packed_slice.

Theorem C02code_fixed_slice : forall c l data tag fuel, size c (VSkip 0) [] = fixed_width c -> is_fixed c = true ->
  (Z.of_nat (length l) < 4611686018427387904)%Z -> (length l < fuel)%nat -> (10 <= fuel)%nat ->
  (Z.of_N (fixed_width c) * Z.of_nat (length l) < 4611686018427387904)%Z ->
  WTFixedSliceWrapper_Append fuel (fw c) data (hdr l) tag = Ok (data ++ enc (CSliceFix c) (VSlice l) tag).
Proof. exact gen_FixSlice_Append. Qed.
Print Assumptions C02code_fixed_slice.

(** slices of length-delimited elements: wire type 3 = the count, then each element behind its own length *)
Theorem C02code_counted_slice : forall c l data tag fuel, (Z.of_nat (length l) < 4611686018427387904)%Z -> (length l < fuel)%nat -> (10 <= fuel)%nat ->
  Forall (fun x => fits c x /\ len (enc c x []) < two64) l ->
  WTLengthSliceWrapper_Append fuel (lw c) data (hdr l) tag
  = Ok (data ++ tag ++ append_varuint (N.of_nat (length l))
             ++ flat_map (fun x => append_varuint (len (enc c x [])) ++ enc c x []) l).
Proof. intros. rewrite gen_LenSlice_Append by assumption. reflexivity. Qed.
Print Assumptions C02code_counted_slice.

(** the protobuf repeated form: every element under the field's tag *)
Theorem C02code_repeated_slice : forall c l data tag fuel, (Z.of_nat (length l) < 4611686018427387904)%Z -> (length l < fuel)%nat ->
  ProtoSliceWrapper_Append fuel (prw c) data (hdr l) tag = Ok (data ++ flat_map (fun x => enc c x tag) l).
Proof. intros. rewrite gen_ProtoSlice_Append by assumption. reflexivity. Qed.
Print Assumptions C02code_repeated_slice.

(** an empty slice is omitted *)
Theorem C02code_empty_slice_omitted : forall l, BaseSliceWrapper_Omit (hdr l) = match l with [] => true | _ => false end.
Proof. exact gen_Slice_Omit. Qed.
Print Assumptions C02code_empty_slice_omitted.

(** sizes agree with the model's (which [size_law] proves equal to the length of the encoding) *)
Theorem C02code_slice_sizes : forall c l tag fuel, (Z.of_nat (length l) < 4611686018427387904)%Z -> (length l < fuel)%nat ->
  (Z.of_nat (length tag) < 4294967296)%Z ->
  ((Z.of_N (sum_map (fun x => size c x []) l) < 4611686018427387904)%Z ->
   WTVarIntSliceWrapper_Size fuel (vw c) (hdr l) tag = Ok (Z.of_N (size (CSliceVar c) (VSlice l) tag)))
  /\ (Forall (fun x => size c x [] < 4611686018427387904) l -> (Z.of_N (sum_map (esz c) l) < 4611686018427387000)%Z ->
      WTLengthSliceWrapper_Size fuel (lw c) (hdr l) tag = Ok (Z.of_N (size (CSliceLen c) (VSlice l) tag)))
  /\ ((Z.of_N (size (CSliceProto c) (VSlice l) tag) < 4611686018427387904)%Z ->
      ProtoSliceWrapper_Size fuel (prw c) (hdr l) tag = Ok (Z.of_N (size (CSliceProto c) (VSlice l) tag))).
Proof.
  intros c l tag fuel Hl Hf Ht. repeat split; intros.
  - apply gen_VarSlice_Size; assumption.
  - apply gen_LenSlice_Size; assumption.
  - apply gen_ProtoSlice_Size; assumption.
Qed.
Print Assumptions C02code_slice_sizes.

Example C02code_ex :
  WTVarIntSliceWrapper_Append 20 (vw (CInt 64)) [] (hdr [VInt 1; VInt (-1); VInt 300]) [10] = Ok [10; 4; 2; 1; 216; 4]
  /\ WTLengthSliceWrapper_Append 20 (lw CString) [] (hdr [VStr [97]; VStr []]) [11] = Ok [11; 2; 1; 97; 0]
  /\ ProtoSliceWrapper_Append 20 (prw CString) [] (hdr [VStr [97]; VStr []]) [10] = Ok [10; 1; 97; 10; 0].
Proof. vm_compute. repeat split; reflexivity. Qed.
