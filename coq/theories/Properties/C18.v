(** C18 - Varint, zig-zag, tag and skip primitives agree for all 64-bit values.
    This file contains only statements, each closed by [exact] of a lemma
    proved elsewhere, and the assumptions each depends on. *)
From Plenc Require Import Base Varint Wire VarintProofs WireProofs.
Open Scope N_scope.

(** reading what was appended returns the value and the appended length *)
Theorem C18_read_append_varuint : forall v rest, v < two64 ->
  read_varuint (append_varuint v ++ rest) = (v, Z.of_N (len (append_varuint v))).
Proof. exact read_append_varuint. Qed.
Print Assumptions C18_read_append_varuint.

(** the size function predicts that length *)
Theorem C18_size_append_varuint : forall v, v < two64 ->
  size_varuint v = len (append_varuint v).
Proof. exact size_append_varuint. Qed.
Print Assumptions C18_size_append_varuint.

(** ... and it is the standard protobuf varint (which is unique) *)
Theorem C18_append_varuint_canonical : forall v, v < two64 -> pb_varint v (append_varuint v).
Proof. exact append_varuint_canonical. Qed.
Print Assumptions C18_append_varuint_canonical.
Theorem C18_pb_varint_unique : forall v b1, pb_varint v b1 -> forall b2, pb_varint v b2 -> b1 = b2.
Proof. exact pb_varint_unique. Qed.
Print Assumptions C18_pb_varint_unique.

(** zig-zag is a bijection between int64 and uint64 *)
Theorem C18_zagzig_zigzag : forall v, int64_ok v -> zagzig (zigzag v) = v.
Proof. exact zagzig_zigzag. Qed.
Print Assumptions C18_zagzig_zigzag.
Theorem C18_zigzag_zagzig : forall u, u < two64 -> zigzag (zagzig u) = u.
Proof. exact zigzag_zagzig. Qed.
Print Assumptions C18_zigzag_zagzig.
Theorem C18_zigzag_range : forall v, int64_ok v -> zigzag v < two64.
Proof. exact zigzag_range. Qed.
Print Assumptions C18_zigzag_range.
Theorem C18_zagzig_range : forall u, u < two64 -> int64_ok (zagzig u).
Proof. exact zagzig_range. Qed.
Print Assumptions C18_zagzig_range.

(** magnitudes below 2^(7k-1) map to k-byte codes: the code is below 2^(7k),
    and values below 2^(7k) take at most k bytes *)
Theorem C18_zigzag_magnitude : forall v k, (1 <= k <= 9)%nat ->
  (- 2 ^ (7 * Z.of_nat k - 1) <= v < 2 ^ (7 * Z.of_nat k - 1))%Z ->
  zigzag v < 2 ^ (7 * N.of_nat k).
Proof. exact zigzag_magnitude. Qed.
Print Assumptions C18_zigzag_magnitude.
Theorem C18_length_class : forall v k, (k <= 9)%nat ->
  v < 2 ^ (7 * N.of_nat (S k)) -> (k = 0%nat \/ 2 ^ (7 * N.of_nat k) <= v) ->
  len (append_varuint v) = N.of_nat (S k).
Proof. exact append_varuint_length_k. Qed.
Print Assumptions C18_length_class.

(** tags round-trip for every wire type code and every index below 2^61 *)
Theorem C18_read_append_tag : forall wt index rest,
  wt < 8 -> (0 <= index < 2305843009213693952)%Z ->
  read_tag (append_tag wt index ++ rest) = (wt, index, Z.of_N (len (append_tag wt index))).
Proof. exact read_append_tag. Qed.
Print Assumptions C18_read_append_tag.
Theorem C18_size_append_tag : forall wt index,
  wt < 8 -> (0 <= index < 2305843009213693952)%Z ->
  size_tag wt index = len (append_tag wt index).
Proof. exact size_append_tag. Qed.
Print Assumptions C18_size_append_tag.

(** Skip over a well-formed field of any wire type returns exactly its length *)
Theorem C18_skip_exact_varint : forall v rest, v < two64 ->
  skip (append_varuint v ++ rest) WTVarInt = Ok (len (append_varuint v)).
Proof. exact skip_exact_varint. Qed.
Print Assumptions C18_skip_exact_varint.
Theorem C18_skip_exact_fixed64 : forall b rest, len b = 8 -> skip (b ++ rest) WT64 = Ok 8.
Proof. exact skip_exact_fixed64. Qed.
Print Assumptions C18_skip_exact_fixed64.
Theorem C18_skip_exact_fixed32 : forall b rest, len b = 4 -> skip (b ++ rest) WT32 = Ok 4.
Proof. exact skip_exact_fixed32. Qed.
Print Assumptions C18_skip_exact_fixed32.
Theorem C18_skip_exact_length : forall body rest, len body < two64 ->
  skip (append_varuint (len body) ++ body ++ rest) WTLength
  = Ok (len (append_varuint (len body)) + len body).
Proof. exact skip_exact_length. Qed.
Print Assumptions C18_skip_exact_length.
Theorem C18_skip_exact_slice : forall items rest,
  Forall (fun b => len b < two64) items -> N.of_nat (length items) < two64 ->
  skip (append_varuint (N.of_nat (length items)) ++ concat (map frame items) ++ rest) WTSlice
  = Ok (len (append_varuint (N.of_nat (length items))) + len (concat (map frame items))).
Proof. exact skip_exact_slice. Qed.
Print Assumptions C18_skip_exact_slice.

(** ... returning an error rather than panicking or over-running on any input *)
Theorem C18_skip_bounded : forall data wt n, skip data wt = Ok n -> n <= len data.
Proof. exact skip_bounded. Qed.
Print Assumptions C18_skip_bounded.
Theorem C18_skip_total : forall data wt, is_ok_or_err (skip data wt).
Proof. exact skip_total. Qed.
Print Assumptions C18_skip_total.

(** non-vacuity: the hypotheses are met by concrete non-trivial instances *)
Example C18_ex_varuint : read_varuint (append_varuint 300 ++ [7]) = (300, 2%Z) /\ 300 < two64.
Proof. split; [vm_compute; reflexivity|reflexivity]. Qed.
Example C18_ex_zigzag : int64_ok (-3)%Z /\ zigzag (-3)%Z = 5 /\ zagzig 5 = (-3)%Z.
Proof. repeat split; vm_compute; congruence. Qed.
Example C18_ex_skip_slice :
  skip (append_varuint 2 ++ concat (map frame [[1;2;3];[]]) ++ [9;9]) WTSlice = Ok 6.
Proof. vm_compute. reflexivity. Qed.
