(** C11 - No aliasing.  PARTIAL: a theorem cannot exhibit memory sharing; what
    it can fix is WHERE the decoder creates strings and byte slices from the
    input and that each such site copies.  [PlencGen.AliasSites] is generated
    from /repo's current source by tools/aliasscan on every run of this check
    (every expression in a decode path that builds a string or []byte from the
    input bytes, classified as copying or as a cast that shares memory), so the
    theorems below are re-checked against the code as it is now.  The harness
    then shows on the running implementation that the copies really happen
    (pointer-range tests, scribbling over the buffer, snapshots). *)
From Coq Require Import List String Bool.
From PlencGen Require Import AliasSites.
From Plenc Require Import Base Codec Registry CorrCore.
Import ListNotations.

Definition is_copy (s : site) : bool :=
  match s_disc s with CopyString | CopyBytes => true | Cast => false end.

(** every site of the current source that turns input bytes into a string or a
    byte slice copies them *)
Theorem C11_decode_sites_copy : forallb is_copy sites = true.
Proof. vm_compute. reflexivity. Qed.
Print Assumptions C11_decode_sites_copy.

(** the scan still sees the decode paths it is about: the string and byte-slice
    codecs and the interning table are among the sites *)
Theorem C11_sites_cover :
  existsb (fun s => String.eqb (s_func s) "StringCodec.Read") sites
  && existsb (fun s => String.eqb (s_func s) "BytesCodec.Read") sites
  && existsb (fun s => String.eqb (s_func s) "*InternedStringCodec.addString") sites = true.
Proof. vm_compute. reflexivity. Qed.
Print Assumptions C11_sites_cover.

(** the decoded value of the model is a function of the input bytes at the time
    of the call only: it cannot depend on later contents of the buffer *)
Theorem C11_decode_value_only : forall c data prior later_buffer_contents,
  (fun (_ : Base.bytes) => unmarshal c data prior) later_buffer_contents = unmarshal c data prior.
Proof. reflexivity. Qed.
Print Assumptions C11_decode_value_only.

(** Marshal returns the destination's bytes below its length unchanged *)
Theorem C11_marshal_keeps_prefix : forall c buf v, firstn (length buf) (marshal c buf v) = buf.
Proof.
  intros c buf v. unfold marshal. destruct (omit c v).
  - apply firstn_all.
  - rewrite firstn_app, PeanoNat.Nat.sub_diag, firstn_all. simpl. apply app_nil_r.
Qed.
Print Assumptions C11_marshal_keeps_prefix.
