(** C16 - JSON-any codecs.  For all JSON-model trees (any depth and width):
    the round trip through readJSONKV / JSONArrayCodec / JSONMapCodec, sizes,
    and skipping as an unknown field. *)
From Plenc Require Import Base Varint Wire JsonAny Codec SizeProofs JsonProofs JsonRoundTrip Descriptor Output JsonWalk RoundTrip.
Open Scope N_scope.

(** every JSON-model value - nil, bool, int, float64, string, json.Number,
    arrays and objects nested to any depth, empty keys / strings / containers
    anywhere - reads back as itself, consuming exactly its encoding, given
    enough fuel ([jfuel] of the data always is: C16_array_roundtrip below).
    [wfj]: float bit patterns are 64-bit and object keys distinct (a Go map);
    [jfits]: lengths below 2^64. *)
Theorem C16_value_roundtrip : forall j, jfits j -> wfj j -> forall fuel hk c key, (4 * jh j <= fuel)%nat ->
  jread_kv fuel hk (jenc_value j) c key 0 JNil = Ok (key, j, c + len (jenc_value j)).
Proof. exact json_value_roundtrip. Qed.
Print Assumptions C16_value_roundtrip.

(** JSONArrayCodec / JSONMapCodec on their own output, whatever follows it *)
Theorem C16_array_roundtrip : forall l more, jfits (JArr l) -> wfj (JArr l) ->
  jread_arr (jfuel (jarr_body l ++ more)) (jarr_body l ++ more) = Ok (l, len (jarr_body l)).
Proof. exact json_array_roundtrip. Qed.
Print Assumptions C16_array_roundtrip.
Theorem C16_map_roundtrip : forall l more, jfits (JObj l) -> wfj (JObj l) ->
  jread_map (jfuel (jmap_body l ++ more)) (jmap_body l ++ more) [] = Ok (l, len (jmap_body l)).
Proof. exact json_map_roundtrip. Qed.
Print Assumptions C16_map_roundtrip.

(** at top level and as a struct field (the codecs of the generic model): the
    decoded value is the encoded one; a nil container and an empty one are
    interchangeable (both decode to the non-nil form) *)
Theorem C16_codec_array : forall p l more wt prior, jfits (JArr l) -> wfj (JArr l) ->
  dec CJArr (enc CJArr (VJson p (JArr l)) [] ++ more) wt prior
  = Ok (VJson false (JArr l), len (enc CJArr (VJson p (JArr l)) [])).
Proof. exact dec_enc_jarr. Qed.
Print Assumptions C16_codec_array.
Theorem C16_codec_map : forall p l more wt pn, jfits (JObj l) -> wfj (JObj l) ->
  dec CJMap (enc CJMap (VJson p (JObj l)) [] ++ more) wt (VJson pn (JObj []))
  = Ok (VJson false (JObj l), len (enc CJMap (VJson p (JObj l)) [])).
Proof. exact dec_enc_jmap. Qed.
Print Assumptions C16_codec_map.

Theorem C16_size_value : forall j, jfits j -> jsize_value j = len (jenc_value j).
Proof. exact jsize_value_law. Qed.
Print Assumptions C16_size_value.
Theorem C16_size_map : forall l, jfits (JObj l) -> jmap_size l = len (jmap_body l).
Proof. exact jmap_size_law. Qed.
Print Assumptions C16_size_map.
Theorem C16_size_arr : forall l, jfits (JArr l) -> jarr_size l = len (jarr_body l).
Proof. exact jarr_size_law. Qed.
Print Assumptions C16_size_arr.

(** as an unknown field being skipped: exactly its encoded length *)
Theorem C16_skip_map : forall l rest, jfits (JObj l) ->
  skip (jmap_body l ++ rest) WTSlice = Ok (len (jmap_body l)).
Proof. exact skip_json_map. Qed.
Print Assumptions C16_skip_map.
Theorem C16_skip_arr : forall l rest, jfits (JArr l) ->
  skip (jarr_body l ++ rest) WTSlice = Ok (len (jarr_body l)).
Proof. exact skip_json_arr. Qed.
Print Assumptions C16_skip_arr.

(** as a struct field: the JSON codecs are part of the round-trip fragment of
    C01 ([rt_ok CJMap], [rt_ok CJArr]) - inside any struct, at any depth, the
    field goes through the decode loop and the slot receives the value (an
    object merged by key into what the target already holds) *)
Theorem C16_as_struct_field : FRT CJMap /\ FRT CJArr.
Proof. split; [apply (proj2 (roundtrip_gen CJMap I))|apply (proj2 (roundtrip_gen CJArr I))]. Qed.
Print Assumptions C16_as_struct_field.

(** walking the same bytes with the codec's Descriptor emits exactly the
    Outputter calls of the value ([jev]), consuming exactly the encoding;
    [jcount]: container lengths fit Go's int *)
Theorem C16_walk_array : forall d p l more, descriptor_of CJArr = Ok d ->
  jfits (JArr l) -> wfj (JArr l) -> jcount (JArr l) ->
  walk d (enc CJArr (VJson p (JArr l)) [] ++ more) = wok (jev (JArr l)) (len (enc CJArr (VJson p (JArr l)) [])).
Proof. exact walk_desc_jarr. Qed.
Print Assumptions C16_walk_array.
Theorem C16_walk_map : forall d p l more, descriptor_of CJMap = Ok d ->
  jfits (JObj l) -> wfj (JObj l) -> jcount (JObj l) ->
  walk d (enc CJMap (VJson p (JObj l)) [] ++ more) = wok (jev (JObj l)) (len (enc CJMap (VJson p (JObj l)) [])).
Proof. exact walk_desc_jmap. Qed.
Print Assumptions C16_walk_map.

(** ... and those calls, fed to a new JSON outputter, produce the reference
    rendering of the value's own call tree: the rendered JSON is a function of
    the value alone.  [tok] is the rendering of number / bool / raw tokens by
    strconv (outside the model; compared by the harness). *)
Theorem C16_walk_renders : forall (tok : ev -> bytes) d p l, descriptor_of CJMap = Ok d ->
  jfits (JObj l) -> wfj (JObj l) -> jcount (JObj l) ->
  let w := walk d (enc CJMap (VJson p (JObj l)) []) in
  w_out w = Ok (len (enc CJMap (VJson p (JObj l)) [])) /\
  (do j <- o_run jout_init (map (oop_of tok) (w_ev w)); o_done j) = Ok (render 0 false (jtree tok (JObj l)) ++ [10]).
Proof. exact json_walk_renders. Qed.
Print Assumptions C16_walk_renders.
Theorem C16_walk_renders_array : forall (tok : ev -> bytes) d p l, descriptor_of CJArr = Ok d ->
  jfits (JArr l) -> wfj (JArr l) -> jcount (JArr l) ->
  let w := walk d (enc CJArr (VJson p (JArr l)) []) in
  w_out w = Ok (len (enc CJArr (VJson p (JArr l)) [])) /\
  (do j <- o_run jout_init (map (oop_of tok) (w_ev w)); o_done j) = Ok (render 0 false (jtree tok (JArr l)) ++ [10]).
Proof. exact json_arr_walk_renders. Qed.
Print Assumptions C16_walk_renders_array.

Example C16_ex :
  let j := JObj [([107], JArr [JNil; JInt (-1); JStr []]); ([], JObj [])] in
  jfits j /\ wfj j /\ match j with JObj l => jread_map (jfuel (jmap_body l)) (jmap_body l) [] = Ok (l, len (jmap_body l)) | _ => False end.
Proof.
  cbv zeta. split; [|split].
  - cbn. unfold int64_ok, two63Z.
    repeat match goal with |- _ /\ _ => split | |- True => exact I | |- (_ < _)%N => vm_compute; reflexivity
                      | |- (_ <= _ < _)%Z => lia | |- (_ <= _)%Z => lia | |- (_ < _)%Z => lia end.
  - cbn. repeat constructor; cbn; intuition discriminate.
  - vm_compute. reflexivity.
Qed.
