(** C16 - JSON-any codecs. Sizes and skipping are proved for all JSON-model
    trees; the round trip is decided by the correspondence (and proved in
    JsonRoundtrip.v as it grows). *)
From Plenc Require Import Base Varint Wire JsonAny Codec SizeProofs JsonProofs.
Open Scope N_scope.

Theorem C16_size_value : forall j, jfits j -> jsize_value j = len (jenc_value j).
Proof. exact jsize_value_law. Qed.
Print Assumptions C16_size_value.
Theorem C16_size_map : forall l, jfits (JObj l) -> jmap_size l = len (jmap_body l).
Proof. exact jmap_size_law. Qed.
Print Assumptions C16_size_map.
Theorem C16_size_arr : forall l, jfits (JArr l) -> jarr_size l = len (jarr_body l).
Proof. exact jarr_size_law. Qed.
Print Assumptions C16_size_arr.

(** as an unknown field being skipped: exactly its encoded length *)
Theorem C16_skip_map : forall l rest, jfits (JObj l) ->
  skip (jmap_body l ++ rest) WTSlice = Ok (len (jmap_body l)).
Proof. exact skip_json_map. Qed.
Print Assumptions C16_skip_map.
Theorem C16_skip_arr : forall l rest, jfits (JArr l) ->
  skip (jarr_body l ++ rest) WTSlice = Ok (len (jarr_body l)).
Proof. exact skip_json_arr. Qed.
Print Assumptions C16_skip_arr.

Example C16_ex :
  let j := JObj [([107], JArr [JNil; JInt (-1); JStr []]); ([], JObj [])] in
  jfits j /\ match j with JObj l => jread_map (jfuel (jmap_body l)) (jmap_body l) [] = Ok (l, len (jmap_body l)) | _ => False end.
Proof.
  cbv zeta. split.
  - cbn. unfold int64_ok, two63Z.
    repeat match goal with |- _ /\ _ => split | |- True => exact I | |- (_ < _)%N => vm_compute; reflexivity
                      | |- (_ <= _ < _)%Z => lia | |- (_ <= _)%Z => lia | |- (_ < _)%Z => lia end.
  - vm_compute. reflexivity.
Qed.
