(** C03 - Schema evolution: removed, added, renamed and reordered fields decode
    safely.  The written type S has fields [fs], the reading type S' fields
    [fs'].  Fields are related through their plenc index only ([partner]):
    renaming and reordering change neither index nor codec, removed fields have
    no partner in S', added fields of S' have no partner in S.  A partner has the
    same codec - or reads, with the default counted-slice codec, a field that was
    written in the protobuf repeated form ([same_or_default_reads], C12).
    PARTIAL: proved for field codecs of the [rt_ok] fragment (every wire type
    occurs: varint, fixed 32/64, length-delimited incl. nested structs and
    packed slices, counted slices and maps, and the protobuf repeated forms,
    which are skipped / merged frame by frame); the JSON / BigQuery codecs and
    scalar slices over pointer / null elements by the correspondence. *)
From Plenc Require Import Base Varint Wire JsonAny Codec SizeProofs Registry CorrCore RoundTripBase RoundTrip Evolution EvolutionDeep.
Open Scope N_scope.

(** data written for S decodes without error into S'; every field whose index
    is shared receives exactly the value decoding into S would merge in, all
    other fields of the target keep their prior value; exactly the whole input
    is consumed *)
Theorem C03_evolution_partial : forall nm n fs nm' n' fs' vs prior,
  NoDup (map (fun f => f_index f) fs') ->
  Forall (fun f => rt_ok (f_codec f) /\ (0 <= f_index f < 2305843009213693952)%Z
                   /\ (forall g, partner fs' f = Some g -> same_or_default_reads (f_codec f) (f_codec g))) fs ->
  Forall (fun f => (omit (f_codec f) (slot vs (f_slot f)) = true \/ wfv (f_codec f) (slot vs (f_slot f)))
                   /\ fits (f_codec f) (slot vs (f_slot f))) fs ->
  dec (CStruct nm' n' fs') (enc (CStruct nm n fs) (VStruct vs) []) WTLength prior
  = Ok (VStruct (fold_left (evolve_step fs' vs) fs
                   (match prior with VStruct ps => ps | _ => struct_fields (zero (CStruct nm' n' fs')) end)),
        len (enc (CStruct nm n fs) (VStruct vs) [])).
Proof. exact evolution. Qed.
Print Assumptions C03_evolution_partial.

(** ... at any nesting depth.  [evo cw cr]: the reading codec [cr] is the
    writing codec [cw] with fields removed / added / renamed / reordered in any
    struct inside it - behind pointers, in counted or repeated-form slice
    elements, in map values (same key codec), recursively; everything else is
    unchanged.  [emerge cw cr prior v] is the merge written out for the pair:
    shared indexes receive the (recursively evolved) written value, everything
    else in the target keeps its prior value.  Decoding succeeds, consumes the
    whole input and yields exactly that. *)
Theorem C03_evolution_any_depth_partial : forall nm n fs nm' n' fs' v prior,
  rt_ok (CStruct nm n fs) -> evo (CStruct nm n fs) (CStruct nm' n' fs') ->
  wfv (CStruct nm n fs) v -> fits (CStruct nm n fs) v ->
  dec (CStruct nm' n' fs') (enc (CStruct nm n fs) v []) WTLength prior
  = Ok (emerge (CStruct nm n fs) (CStruct nm' n' fs') prior v, len (enc (CStruct nm n fs) v [])).
Proof. exact evolution_any_depth. Qed.
Print Assumptions C03_evolution_any_depth_partial.

(** the same for every codec of the fragment, also as a field of any reading struct *)
Theorem C03_evolution_deep_partial : forall cw cr, rt_ok cw -> evo cw cr ->
  (top_ok cw -> DecOn cw (dec cr) (emerge cw cr)) /\ EFT cw cr.
Proof. intros cw cr. apply evolution_deep. Qed.
Print Assumptions C03_evolution_deep_partial.

(** non-vacuity: fields removed, added and reordered two levels down *)
Example C03_deep_ex :
  let innerW := CStruct [] 3 [mkfld 0 1 [] (CInt 64); mkfld 1 2 [] CString; mkfld 2 3 [] CBool] in
  let innerR := CStruct [] 3 [mkfld 0 3 [] CBool; mkfld 1 9 [] CF64; mkfld 2 1 [] (CInt 64)] in
  let w := CStruct [] 2 [mkfld 0 1 [] (CSliceLen innerW); mkfld 1 2 [] (CMap CString (CPtr innerW))] in
  let r := CStruct [] 2 [mkfld 0 2 [] (CMap CString (CPtr innerR)); mkfld 1 1 [] (CSliceLen innerR)] in
  let v := VStruct [VSlice [VStruct [VInt 5; VStr [120]; VBool true]];
                    VMap (Some [(VStr [107], VPtr (Some (VStruct [VInt (-1); VStr []; VBool false])))])] in
  rt_ok w /\ evo w r /\
  unmarshal r (marshal w [] v) (zero r)
  = Ok (VStruct [VMap (Some [(VStr [107], VPtr (Some (VStruct [VBool false; VF64 0; VInt (-1)])))]);
                 VSlice [VStruct [VBool true; VF64 0; VInt 5]]]).
Proof.
  cbv zeta. split; [|split].
  - cbn [rt_ok f_codec f_index f_slot map]. unfold bits_ok.
    repeat match goal with
    | |- _ /\ _ => split
    | |- True => exact I
    | |- NoDup _ => repeat constructor; cbn; intuition (try discriminate; try lia)
    | |- (_ <= _ < _)%Z => lia
    | |- (_ <= _)%Z => lia
    | |- (_ < _)%Z => lia
    | |- (_ < _)%nat => lia
    | |- _ \/ _ => auto
    | |- wire _ = _ => reflexivity
    | |- top_ok _ => exact I
    end.
  - cbn. repeat split; auto; repeat constructor; cbn; intuition discriminate.
  - vm_compute. reflexivity.
Qed.

(** an unknown field of any wire type is skipped over exactly and leaves the
    target alone, never desynchronising what follows *)
Theorem C03_unknown_skipped_partial : forall fs' c idx fv cur more consumed fuel,
  rt_ok c -> (0 <= idx < 2305843009213693952)%Z -> wfv c fv -> fits c fv ->
  ~ In idx (map (fun f => f_index f) fs') ->
  (length (enc c fv (field_tag c idx) ++ more) < fuel)%nat ->
  struct_loop (map (fun f => (f_index f, f_slot f, dec (f_codec f))) fs') fuel (enc c fv (field_tag c idx) ++ more) consumed cur
  = struct_loop (map (fun f => (f_index f, f_slot f, dec (f_codec f))) fs') fuel more (consumed + len (enc c fv (field_tag c idx))) cur.
Proof. intros. apply unknown_field_step_gen; assumption. Qed.
Print Assumptions C03_unknown_skipped_partial.

(** Skip returns exactly the payload length of a tagged field *)
Theorem C03_skip_payload_partial : forall c, rt_ok c -> top_ok c -> forall v idx more, wfv c v -> fits c v ->
  exists payload, enc c v (field_tag c idx) = field_tag c idx ++ payload /\
                  skip (payload ++ more) (wire c) = Ok (len payload).
Proof. exact skip_payload. Qed.
Print Assumptions C03_skip_payload_partial.

Example C03_ex :
  let inner := CStruct [] 1 [mkfld 0 1 [] (CInt 64)] in
  let s := CStruct [] 4 [mkfld 0 1 [] (CInt 64); mkfld 1 2 [] (CSliceLen inner); mkfld 2 3 [] CF64; mkfld 3 4 [] CString] in
  let s' := CStruct [] 3 [mkfld 0 9 [] CString; mkfld 1 4 [] CString; mkfld 2 1 [] (CInt 64)] in
  unmarshal s' (marshal s [] (VStruct [VInt 5; VSlice [VStruct [VInt 1]; VStruct [VInt 0]]; VF64 7; VStr [120]]))
            (VStruct [VStr [107]; VStr [111]; VInt 3])
  = Ok (VStruct [VStr [107]; VStr [120]; VInt 5]).
Proof. vm_compute. reflexivity. Qed.
