(** C09, tie by translation for PointerWrapper.  [PlencGen.GenPtr] is generated
    from /repo/plenccodec/wrapper.go (PointerWrapper.Omit, Size, Append, Read)
    by tools/gotrans on every run of this check; the underlying codec is a value
    of the Codec interface (a method table), the pointer slot holds nil or the
    address of a value (GoMem.v).  [PlencGen.PtrEquiv]
    (coq/theories/GenProofs/PtrEquiv.v, re-checked against the generated file)
    proves the four methods equal to the model's [omit] / [size] / [enc] / [dec]
    for [CPtr c], for every underlying model codec c; the presence statements of
    C09 are restated here on the code as translated.  Statements only; outside
    _CoqProject because it depends on the generated files. *)
From Plenc Require Import Base Varint Wire GoSem JsonAny Codec SizeProofs GoMem.
From PlencGen Require Import GenCore GenPtr PtrEquiv.
Open Scope N_scope.

Theorem C09code_Ptr_Omit : forall c o, PointerWrapper_Omit (VPtr o) = omit (CPtr c) (VPtr o).
Proof. exact gen_Ptr_Omit. Qed.
Print Assumptions C09code_Ptr_Omit.
Theorem C09code_Ptr_Size : forall c o tag fuel,
  PointerWrapper_Size fuel (pw c) (VPtr o) tag = Ok (Z.of_N (size (CPtr c) (VPtr o) tag)).
Proof. exact gen_Ptr_Size. Qed.
Print Assumptions C09code_Ptr_Size.
Theorem C09code_Ptr_Append : forall c o data tag fuel,
  PointerWrapper_Append fuel (pw c) data (VPtr o) tag = Ok (data ++ enc (CPtr c) (VPtr o) tag).
Proof. exact gen_Ptr_Append. Qed.
Print Assumptions C09code_Ptr_Append.
Theorem C09code_Ptr_Read : forall c o data wt fuel,
  PointerWrapper_Read fuel (pw c) data (VPtr o) wt = lift_dec (dec (CPtr c) data (Z.to_N wt) (VPtr o)).
Proof. exact gen_Ptr_Read. Qed.
Print Assumptions C09code_Ptr_Read.

(** presence on the translated code: a pointer is omitted exactly when it is
    nil - whatever it points to, a zero value included *)
Theorem C09code_present_never_omitted : forall p, PointerWrapper_Omit (VPtr (Some p)) = false.
Proof. reflexivity. Qed.
Print Assumptions C09code_present_never_omitted.
Theorem C09code_absent_omitted : PointerWrapper_Omit (VPtr None) = true.
Proof. reflexivity. Qed.
Print Assumptions C09code_absent_omitted.

(** ... a present pointer is written as its target is - also when the target
    is zero and its own codec would omit it ... *)
Theorem C09code_present_written_as_target : forall c p data tag fuel,
  PointerWrapper_Append fuel (pw c) data (VPtr (Some p)) tag = Ok (data ++ enc c p tag).
Proof. intros. rewrite gen_Ptr_Append. reflexivity. Qed.
Print Assumptions C09code_present_written_as_target.

(** ... and whenever Read succeeds the slot is non-nil afterwards: it holds what
    the underlying codec decoded into the prior target, or into a new zero value
    when the slot was nil *)
Theorem C09code_read_makes_present : forall c o data wt fuel v n,
  PointerWrapper_Read fuel (pw c) data (VPtr o) wt = Ok (v, n) ->
  exists x, v = VPtr (Some x) /\
            dec c data (Z.to_N wt) (match o with Some p => p | None => zero c end) = Ok (x, Z.to_N n).
Proof.
  intros c o data wt fuel v n H. rewrite gen_Ptr_Read in H. cbn [dec] in H.
  replace (match VPtr o with VPtr (Some p) => p | _ => zero c end) with (match o with Some p => p | None => zero c end) in H by (destruct o; reflexivity).
  destruct (dec c data (Z.to_N wt) (match o with Some p => p | None => zero c end)) as [[x used]| | | |]; cbn [bind lift_dec] in H; try discriminate.
  inversion H; subst. exists x. split; [reflexivity|]. rewrite N2Z.id. reflexivity.
Qed.
Print Assumptions C09code_read_makes_present.

Example C09code_ex :
  PointerWrapper_Read 5 (pw (CInt 64)) [0] (VPtr None) 0 = Ok (VPtr (Some (VInt 0)), 1%Z)
  /\ PointerWrapper_Append 20 (pw (CInt 64)) [] (VPtr (Some (VInt 0))) [8] = Ok [8; 0]
  /\ PointerWrapper_Append 20 (pw (CInt 64)) [] (VPtr None) [8] = Ok [].
Proof. vm_compute. repeat split; reflexivity. Qed.
