(** C06 - Marshal appends: buffer prefix preserved, result depends only on the
    value.  The model's Marshal is marshal.go's: omit check, then Append with a
    nil tag onto the caller's buffer. *)
From Plenc Require Import Base Varint Wire JsonAny Codec Registry CorrCore.
Open Scope N_scope.

Lemma marshal_prefix : forall c buf v, marshal c buf v = buf ++ marshal c [] v.
Proof.
  intros c buf v. unfold marshal. destruct (omit c v); [rewrite app_nil_r|]; reflexivity.
Qed.

(** Marshal(buf, v) = buf ++ Marshal(nil, v), whatever buf holds *)
Theorem C06_prefix : forall c buf v, marshal c buf v = buf ++ marshal c [] v.
Proof. exact marshal_prefix. Qed.
Print Assumptions C06_prefix.

(** ... including when v encodes to nothing at all *)
Theorem C06_omitted : forall c buf v, omit c v = true -> marshal c buf v = buf.
Proof. intros c buf v H. unfold marshal. rewrite H. reflexivity. Qed.
Print Assumptions C06_omitted.

(** the bytes below len(buf) are returned unchanged *)
Theorem C06_prefix_kept : forall c buf v, firstn (length buf) (marshal c buf v) = buf.
Proof.
  intros c buf v. rewrite marshal_prefix, firstn_app, Nat.sub_diag, firstn_all. cbn [firstn]. apply app_nil_r.
Qed.
Print Assumptions C06_prefix_kept.

Example C06_ex : marshal (CInt 64) [1;2;3] (VInt 0) = [1;2;3] /\ marshal (CInt 64) [1;2;3] (VInt (-1)) = [1;2;3;1].
Proof. split; vm_compute; reflexivity. Qed.
