(** C09 - Explicit presence: nil/invalid stays absent, present zero values stay
    present.  PARTIAL as C01: the round-trip statements hold for the [rt_ok]
    fragment, which includes pointer- and null-valued map entries (C09_map_entry_presence).
    Known findings: presence is lost at the top level (D27) and for null types
    inside slices (D24). *)
From Plenc Require Import Base Varint Wire JsonAny Codec SizeProofs Registry CorrCore Descriptor DescProofs RoundTrip RoundTripZero.
Open Scope N_scope.

(** a present pointer / valid null value is never omitted - even when its
    target is the zero value or encodes to zero bytes - and an absent one always is *)
Theorem C09_presence_decides_omission : forall c x p,
  omit (CPtr c) (VPtr (Some x)) = false /\ omit (CPtr c) (VPtr None) = true /\
  omit (CNull c) (VNull true p) = false /\ omit (CNull c) (VNull false p) = true.
Proof. intros. repeat split; reflexivity. Qed.
Print Assumptions C09_presence_decides_omission.

(** present reads back present, with its value *)
Theorem C09_present_roundtrip_partial : forall c x, rt_ok c -> top_ok c -> wfv c x -> fits c x -> canon c x ->
  dec (CPtr c) (enc (CPtr c) (VPtr (Some x)) []) (wire c) (VPtr None) = Ok (VPtr (Some x), len (enc c x [])).
Proof.
  intros c x Hok Ht Hw Hf Hc.
  pose proof (unmarshal_marshal (CPtr c) (VPtr (Some x)) (VPtr None) (conj Hok Ht) I Hw Hf eq_refl) as H.
  cbn [omit wire merge enc] in H. rewrite (merge_zero_id c x Hok Hw Hc) in H. exact H.
Qed.
Print Assumptions C09_present_roundtrip_partial.

(** pointer-valued map entries: whatever the key, a nil value is written as an
    entry without a value field and the entry reads back with a nil value; a
    present value reads back present - also when it encodes to nothing
    ([entry_merge] is what decoding one entry does to the map, RoundTrip.v) *)
Theorem C09_map_entry_presence : forall kc c k x m,
  let k' := if omit kc k then zero kc else merge kc (zero kc) k in
  entry_merge kc (CPtr c) m (k, VPtr None) = map_set k' (VPtr None) m /\
  exists y, entry_merge kc (CPtr c) m (k, VPtr (Some x)) = map_set k' (VPtr (Some y)) m.
Proof. intros. unfold entry_merge. cbn [fst snd omit zero merge]. split; [reflexivity|eexists; reflexivity]. Qed.
Print Assumptions C09_map_entry_presence.

(** absent reads back absent: an omitted field leaves the (fresh, nil) slot alone *)
Theorem C09_absent_stays_absent : forall vs cur f,
  omit (f_codec f) (slot vs (f_slot f)) = true -> fmerge vs cur f = cur.
Proof. intros. unfold fmerge. cbv zeta. rewrite H. reflexivity. Qed.
Print Assumptions C09_absent_stays_absent.

(** plain scalar, string, slice and time fields have no presence: their zero
    value is omitted *)
Theorem C09_plain_zero_omitted : forall c,
  match c with
  | CBool | CInt _ | CUint _ | CFlat _ | CF32 | CF64 | CString | CBytes | CTime _
  | CSliceVar _ | CSliceFix _ | CSliceLen _ | CSliceProto _ => omit c (zero c) = true
  | _ => True
  end.
Proof. destruct c; try exact I; reflexivity. Qed.
Print Assumptions C09_plain_zero_omitted.

(** the Descriptor flags explicit presence for exactly the pointer / null codecs *)
Theorem C09_descriptor_flag : forall c d, descriptor_of c = Ok d ->
  (d_explicit d = true <-> (exists c', c = CPtr c') \/ (exists c', c = CNull c')).
Proof. exact explicit_presence_iff. Qed.
Print Assumptions C09_descriptor_flag.

Example C09_ex :
  let c := CStruct [] 3 [mkfld 0 1 [] (CPtr CString); mkfld 1 2 [] (CPtr (CInt 64)); mkfld 2 3 [] (CNull (CInt 64))] in
  unmarshal c (marshal c [] (VStruct [VPtr (Some (VStr [])); VPtr None; VNull true (VInt 0)])) (zero c)
  = Ok (VStruct [VPtr (Some (VStr [])); VPtr None; VNull true (VInt 0)]).
Proof. vm_compute. reflexivity. Qed.
