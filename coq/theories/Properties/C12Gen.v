(** C12, tie by translation for the time codecs.  [PlencGen.GenTime] is
    generated from /repo/plenccodec/time.go (ptime.Set / Standard; TimeCodec,
    TimeCompatCodec - the protobuf Timestamp form selected by
    ProtoCompatibleTime -, BQTimestampCodec: size, append, Size, Append, Read,
    Omit) by tools/gotrans on every run of this check, on top of the translated
    scalar codecs ([PlencGen.GenScalar]) and plenccore ([PlencGen.GenCore]).
    A time.Time travels as (Unix seconds, nanosecond); GoMem.v states what is
    trusted about package time.  [PlencGen.TimeEquiv]
    (coq/theories/GenProofs/TimeEquiv.v, re-checked against the generated files)
    proves that these functions compute the model's [dec] / [size] / [enc] /
    [omit] for CTime false, CTime true and CBQ.  Statements only; outside
    _CoqProject because it depends on the generated files. *)
From Plenc Require Import Base Varint Wire VarintProofs GoSem JsonAny Codec SizeProofs GoMem RoundTripBase RoundTrip.
From PlencGen Require Import GenCore CoreEquiv GenScalar ScalarEquiv GenTime TimeEquiv.
Open Scope N_scope.

(** TimeCompatCodec writes Timestamp{seconds = 1, nanos = 2} with plain varints, length-prefixed under a tag *)
Theorem C12code_timestamp_bytes : forall s n data fuel, int64_ok s -> (0 <= n < 1000000000)%Z -> (10 <= fuel)%nat ->
  TimeCompatCodec_Append fuel data (s, n) [] = Ok (data ++ [8] ++ append_varuint (u64 s) ++ [16] ++ append_varuint (Z.to_N n)).
Proof.
  intros s n data fuel Hs Hn Hf. rewrite gen_TimeCompat_Append by (auto; split; assumption).
  cbn [tval fst snd enc frame_tag]. unfold time_body.
  replace (ubits 32 n) with (Z.to_N n); [reflexivity|].
  unfold ubits. change (Z.of_N (2 ^ 32)) with 4294967296%Z. rewrite Z.mod_small by lia. reflexivity.
Qed.
Print Assumptions C12code_timestamp_bytes.

Theorem C12code_TimeCompat_Append : forall t data tag fuel, time_ok t -> (10 <= fuel)%nat ->
  TimeCompatCodec_Append fuel data t tag = Ok (data ++ enc (CTime true) (tval t) tag).
Proof. exact gen_TimeCompat_Append. Qed.
Print Assumptions C12code_TimeCompat_Append.
Theorem C12code_TimeCompat_Size : forall t tag fuel, time_ok t -> (Z.of_nat (length tag) < 4294967296)%Z ->
  TimeCompatCodec_Size fuel t tag = Ok (Z.of_N (size (CTime true) (tval t) tag)).
Proof. exact gen_TimeCompat_Size. Qed.
Print Assumptions C12code_TimeCompat_Size.
Theorem C12code_TimeCompat_Read : forall data prior wt, bytes_ok data -> (Z.of_nat (length data) < 4611686018427387904)%Z ->
  TimeCompatCodec_Read (S (length data)) data prior wt = lift_time (dec (CTime true) data (Z.to_N wt) (tval prior)).
Proof. exact gen_TimeCompat_Read. Qed.
Print Assumptions C12code_TimeCompat_Read.

(** ... and the default form (zig-zag varints) is what the option leaves alone *)
Theorem C12code_Time_Append : forall t data tag fuel, time_ok t -> (10 <= fuel)%nat ->
  TimeCodec_Append fuel data t tag = Ok (data ++ enc (CTime false) (tval t) tag).
Proof. exact gen_Time_Append. Qed.
Print Assumptions C12code_Time_Append.
Theorem C12code_Time_Size : forall t tag fuel, time_ok t -> (Z.of_nat (length tag) < 4294967296)%Z ->
  TimeCodec_Size fuel t tag = Ok (Z.of_N (size (CTime false) (tval t) tag)).
Proof. exact gen_Time_Size. Qed.
Print Assumptions C12code_Time_Size.
Theorem C12code_Time_Read : forall data prior wt, bytes_ok data -> (Z.of_nat (length data) < 4611686018427387904)%Z ->
  TimeCodec_Read (S (length data)) data prior wt = lift_time (dec (CTime false) data (Z.to_N wt) (tval prior)).
Proof. exact gen_Time_Read. Qed.
Print Assumptions C12code_Time_Read.
Theorem C12code_Time_Omit : forall t, TimeCodec_Omit t = omit (CTime false) (tval t) /\ BQTimestampCodec_Omit t = omit CBQ (tval t).
Proof. exact gen_Time_Omit. Qed.
Print Assumptions C12code_Time_Omit.

(** the BigQuery timestamp codec *)
Theorem C12code_BQ_Append : forall t data tag fuel, (10 <= fuel)%nat ->
  BQTimestampCodec_Append fuel data t tag = Ok (data ++ enc CBQ (tval t) tag).
Proof. exact gen_BQ_Append. Qed.
Print Assumptions C12code_BQ_Append.
Theorem C12code_BQ_Size : forall t tag, (Z.of_nat (length tag) < 4611686018427387904)%Z ->
  BQTimestampCodec_Size t tag = Z.of_N (size CBQ (tval t) tag).
Proof. exact gen_BQ_Size. Qed.
Print Assumptions C12code_BQ_Size.
Theorem C12code_BQ_Read : forall data prior wt fuel,
  BQTimestampCodec_Read fuel data prior wt = lift_time (dec CBQ data (Z.to_N wt) (tval prior)).
Proof. exact gen_BQ_Read. Qed.
Print Assumptions C12code_BQ_Read.

(** both forms round-trip on the code as translated: Read of what Append wrote is the time, whole body consumed *)
Lemma time_body_ok compat s n : int64_ok s -> (0 <= n < 1000000000)%Z -> bytes_ok (time_body compat s n) /\ len (time_body compat s n) <= 22.
Proof.
  intros Hs Hn. unfold time_body, append_varint.
  assert (Hn64 : int64_ok n) by (unfold int64_ok, two63Z; lia).
  assert (H8 : bytes_ok [8]) by (repeat constructor; unfold byte_ok; lia).
  assert (H16 : bytes_ok [16]) by (repeat constructor; unfold byte_ok; lia).
  assert (Hcat : forall a b : bytes, bytes_ok a -> bytes_ok b -> bytes_ok ([8] ++ a ++ [16] ++ b)).
  { intros a b Ha Hb. unfold bytes_ok in *. rewrite !Forall_app. repeat split; auto. }
  destruct compat; split.
  - apply Hcat; apply append_varuint_bytes_ok; [apply u64_lt|apply ubits_lt; lia].
  - rewrite !len_app. pose proof (append_varuint_length_bounds (u64 s)). pose proof (append_varuint_length_bounds (ubits 32 n)).
    change (len [8]) with 1 in *. change (len [16]) with 1 in *. lia.
  - apply Hcat; apply append_varuint_bytes_ok; apply zigzag_range; assumption.
  - rewrite !len_app. pose proof (append_varuint_length_bounds (zigzag s)). pose proof (append_varuint_length_bounds (zigzag n)).
    change (len [8]) with 1 in *. change (len [16]) with 1 in *. lia.
Qed.

Theorem C12code_TimeCompat_roundtrip : forall s n prior fuel, int64_ok s -> (0 <= n < 1000000000)%Z -> (10 <= fuel)%nat ->
  exists body, TimeCompatCodec_Append fuel [] (s, n) [] = Ok body /\
               TimeCompatCodec_Read (S (length body)) body prior 2 = Ok ((s, n), Z.of_nat (length body)).
Proof.
  intros s n prior fuel Hs Hn Hf. rewrite gen_TimeCompat_Append by (auto; split; assumption). eexists. split; [reflexivity|].
  cbn [app tval fst snd enc frame_tag]. destruct (time_body_ok true s n Hs Hn) as [Hb Hl].
  rewrite gen_TimeCompat_Read by (auto; unfold len in Hl; lia).
  change (Z.to_N 2) with Wire.WTLength. rewrite time_roundtrip by assumption. cbn [lift_time]. unfold len. rewrite nat_N_Z. reflexivity.
Qed.
Print Assumptions C12code_TimeCompat_roundtrip.

Theorem C12code_Time_roundtrip : forall s n prior fuel, int64_ok s -> (0 <= n < 1000000000)%Z -> (10 <= fuel)%nat ->
  exists body, TimeCodec_Append fuel [] (s, n) [] = Ok body /\
               TimeCodec_Read (S (length body)) body prior 2 = Ok ((s, n), Z.of_nat (length body)).
Proof.
  intros s n prior fuel Hs Hn Hf. rewrite gen_Time_Append by (auto; split; assumption). eexists. split; [reflexivity|].
  cbn [app tval fst snd enc frame_tag]. destruct (time_body_ok false s n Hs Hn) as [Hb Hl].
  rewrite gen_Time_Read by (auto; unfold len in Hl; lia).
  change (Z.to_N 2) with Wire.WTLength. rewrite time_roundtrip by assumption. cbn [lift_time]. unfold len. rewrite nat_N_Z. reflexivity.
Qed.
Print Assumptions C12code_Time_roundtrip.

(** Size = length of what Append writes, on the translated code *)
Theorem C12code_TimeCompat_size_law : forall t tag fuel, time_ok t -> (10 <= fuel)%nat -> (Z.of_nat (length tag) < 4294967296)%Z ->
  exists out, TimeCompatCodec_Append fuel [] t tag = Ok out /\ TimeCompatCodec_Size fuel t tag = Ok (Z.of_nat (length out)).
Proof. exact code_TimeCompat_size_law. Qed.
Print Assumptions C12code_TimeCompat_size_law.
Theorem C12code_Time_size_law : forall t tag fuel, time_ok t -> (10 <= fuel)%nat -> (Z.of_nat (length tag) < 4294967296)%Z ->
  exists out, TimeCodec_Append fuel [] t tag = Ok out /\ TimeCodec_Size fuel t tag = Ok (Z.of_nat (length out)).
Proof. exact code_Time_size_law. Qed.
Print Assumptions C12code_Time_size_law.

Example C12code_ex :
  TimeCompatCodec_Append 20 [] (-1, 500000000)%Z [] = Ok [8; 255; 255; 255; 255; 255; 255; 255; 255; 255; 1; 16; 128; 202; 181; 238; 1]
  /\ TimeCompatCodec_Read 18 [8; 255; 255; 255; 255; 255; 255; 255; 255; 255; 1; 16; 128; 202; 181; 238; 1] go_time_zero 2 = Ok ((-1, 500000000)%Z, 17%Z).
Proof. vm_compute. split; reflexivity. Qed.
