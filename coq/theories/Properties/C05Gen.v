(** C05, tie by translation for the varint scalar codecs.  [PlencGen.GenScalar]
    is generated from /repo/plenccodec/bool.go, int.go, float.go and string.go
    (BoolCodec, IntCodec[T], UintCodec[T] - also used as FlatIntCodec -,
    Float64Codec, Float32Codec (a float travels as its IEEE bit pattern),
    StringCodec, BytesCodec: size, append, Size, Append, Read, Omit) by tools/gotrans on every run of this check, on top of
    the translated plenccore ([PlencGen.GenCore]); the value behind each
    unsafe.Pointer travels as a parameter and what Read stores through it is
    handed back; the integer type parameter T becomes the width w.
    [PlencGen.ScalarEquiv] (coq/theories/GenProofs/ScalarEquiv.v, re-checked
    against the generated files) proves that these functions compute the
    model's [size] / [enc] / [dec] / [omit] for CBool, CInt w, CUint w, CFlat w -
    for every width and every value of that width - and states the codec laws on
    the code as translated.  Statements only; outside _CoqProject because it
    depends on the generated files. *)
From Plenc Require Import Base Varint Wire GoSem JsonAny Codec.
From PlencGen Require Import GenCore CoreEquiv GenScalar ScalarEquiv.
Open Scope N_scope.

Theorem C05gen_Bool_Append : forall b data tag fuel, (10 <= fuel)%nat ->
  BoolCodec_Append fuel data b tag = Ok (data ++ enc CBool (VBool b) tag).
Proof. exact gen_Bool_Append. Qed.
Print Assumptions C05gen_Bool_Append.
Theorem C05gen_Bool_Size : forall (b : bool) tag, (Z.of_nat (length tag) < 4611686018427387904)%Z ->
  BoolCodec_Size tt tag = Z.of_N (size CBool (VBool b) tag).
Proof. exact gen_Bool_Size. Qed.
Print Assumptions C05gen_Bool_Size.
Theorem C05gen_Bool_Omit : forall b, BoolCodec_Omit b = omit CBool (VBool b).
Proof. exact gen_Bool_Omit. Qed.
Print Assumptions C05gen_Bool_Omit.
Theorem C05gen_Bool_Read : forall data prior wt fuel,
  BoolCodec_Read fuel data prior wt =
  match dec CBool data (Z.to_N wt) (VBool prior) with Ok (VBool b, n) => Ok (b, Z.of_N n) | _ => Err end.
Proof. exact gen_Bool_Read. Qed.
Print Assumptions C05gen_Bool_Read.

Theorem C05gen_Int_Append : forall w z data tag fuel, wbits w -> in_int w z -> (10 <= fuel)%nat ->
  IntCodec_Append fuel w data z tag = Ok (data ++ enc (CInt w) (VInt z) tag).
Proof. exact gen_Int_Append. Qed.
Print Assumptions C05gen_Int_Append.
Theorem C05gen_Int_Size : forall w z tag, wbits w -> in_int w z -> (Z.of_nat (length tag) < 4611686018427387904)%Z ->
  IntCodec_Size w z tag = Z.of_N (size (CInt w) (VInt z) tag).
Proof. exact gen_Int_Size. Qed.
Print Assumptions C05gen_Int_Size.
Theorem C05gen_Int_Omit : forall w z, IntCodec_Omit w z = omit (CInt w) (VInt z).
Proof. exact gen_Int_Omit. Qed.
Print Assumptions C05gen_Int_Omit.
Theorem C05gen_Int_Read : forall w data prior wt fuel, wbits w -> bytes_ok data ->
  IntCodec_Read fuel w data prior wt =
  match dec (CInt w) data (Z.to_N wt) (VInt prior) with Ok (VInt z, n) => Ok (z, Z.of_N n) | _ => Err end.
Proof. exact gen_Int_Read. Qed.
Print Assumptions C05gen_Int_Read.

Theorem C05gen_Uint_Append : forall w u data tag fuel, wbits w -> in_uint w u -> (10 <= fuel)%nat ->
  UintCodec_Append fuel w data u tag = Ok (data ++ enc (CUint w) (VInt (Z.of_N u)) tag).
Proof. exact gen_Uint_Append. Qed.
Print Assumptions C05gen_Uint_Append.
Theorem C05gen_Uint_Size : forall w u tag, wbits w -> in_uint w u -> (Z.of_nat (length tag) < 4611686018427387904)%Z ->
  UintCodec_Size w u tag = Z.of_N (size (CUint w) (VInt (Z.of_N u)) tag).
Proof. exact gen_Uint_Size. Qed.
Print Assumptions C05gen_Uint_Size.
Theorem C05gen_Uint_Omit : forall w u, UintCodec_Omit w u = omit (CUint w) (VInt (Z.of_N u)).
Proof. exact gen_Uint_Omit. Qed.
Print Assumptions C05gen_Uint_Omit.
Theorem C05gen_Uint_Read : forall w data prior wt fuel, wbits w ->
  UintCodec_Read fuel w data prior wt =
  match dec (CUint w) data (Z.to_N wt) (VInt (Z.of_N prior)) with Ok (VInt z, n) => Ok (Z.to_N z, Z.of_N n) | _ => Err end.
Proof. exact gen_Uint_Read. Qed.
Print Assumptions C05gen_Uint_Read.

(** the `flat` option: the same unsigned code on a signed field's bit pattern is the model's CFlat *)
Theorem C05gen_Flat_Append : forall w z data tag fuel, wbits w -> in_int w z -> (10 <= fuel)%nat ->
  UintCodec_Append fuel w data (ubits w z) tag = Ok (data ++ enc (CFlat w) (VInt z) tag).
Proof. exact gen_Flat_Append. Qed.
Print Assumptions C05gen_Flat_Append.
Theorem C05gen_Flat_Read : forall w data prior wt fuel, wbits w ->
  match UintCodec_Read fuel w data prior wt, dec (CFlat w) data (Z.to_N wt) (VInt 0) with
  | Ok (u, n), Ok (VInt z, m) => z = sbits w u /\ n = Z.of_N m
  | Err, Err => True
  | _, _ => False
  end.
Proof. exact gen_Flat_Read. Qed.
Print Assumptions C05gen_Flat_Read.

(** strings and byte slices (string.go): a length prefix only under a tag *)
Theorem C05gen_String_Append : forall s data tag fuel, (10 <= fuel)%nat -> (Z.of_nat (length s) < 4611686018427387904)%Z ->
  StringCodec_Append fuel data s tag = Ok (data ++ enc CString (VStr s) tag)
  /\ BytesCodec_Append fuel data s tag = Ok (data ++ enc CBytes (VStr s) tag).
Proof. exact gen_String_Append. Qed.
Print Assumptions C05gen_String_Append.
Theorem C05gen_String_Size : forall s tag, (Z.of_nat (length s) + Z.of_nat (length tag) < 4611686018427387904)%Z ->
  StringCodec_Size s tag = Z.of_N (size CString (VStr s) tag) /\ BytesCodec_Size s tag = Z.of_N (size CBytes (VStr s) tag).
Proof. exact gen_String_Size. Qed.
Print Assumptions C05gen_String_Size.
Theorem C05gen_String_Omit : forall s, StringCodec_Omit s = omit CString (VStr s) /\ BytesCodec_Omit s = omit CBytes (VStr s).
Proof. exact gen_String_Omit. Qed.
Print Assumptions C05gen_String_Omit.
Theorem C05gen_String_Read : forall data prior wt fuel,
  StringCodec_Read fuel data prior wt = match dec CString data (Z.to_N wt) (VStr prior) with Ok (VStr s, n) => Ok (s, Z.of_N n) | _ => Err end
  /\ BytesCodec_Read fuel data prior wt = match dec CBytes data (Z.to_N wt) (VStr prior) with Ok (VStr s, n) => Ok (s, Z.of_N n) | _ => Err end.
Proof. exact gen_String_Read. Qed.
Print Assumptions C05gen_String_Read.
Theorem C05code_String_size_law : forall s tag fuel, (10 <= fuel)%nat -> (Z.of_nat (length s) + Z.of_nat (length tag) < 4611686018427387904)%Z ->
  exists b, StringCodec_Append fuel [] s tag = Ok b /\ StringCodec_Size s tag = Z.of_nat (length b).
Proof. exact code_String_size_law. Qed.
Print Assumptions C05code_String_size_law.

(** floats (float.go): the IEEE bit pattern, little-endian *)
Theorem C05gen_Float_Append : forall b data tag fuel,
  Float64Codec_Append fuel data b tag = Ok (data ++ enc CF64 (VF64 b) tag)
  /\ Float32Codec_Append fuel data b tag = Ok (data ++ enc CF32 (VF32 b) tag).
Proof. exact gen_Float_Append. Qed.
Print Assumptions C05gen_Float_Append.
Theorem C05gen_Float_Size : forall (b : N) tag, (Z.of_nat (length tag) < 4611686018427387904)%Z ->
  Float64Codec_Size tt tag = Z.of_N (size CF64 (VF64 b) tag) /\ Float32Codec_Size tt tag = Z.of_N (size CF32 (VF32 b) tag).
Proof. exact gen_Float_Size. Qed.
Print Assumptions C05gen_Float_Size.
Theorem C05gen_Float_Omit : forall b, Float64Codec_Omit b = omit CF64 (VF64 b) /\ Float32Codec_Omit b = omit CF32 (VF32 b).
Proof. exact gen_Float_Omit. Qed.
Print Assumptions C05gen_Float_Omit.
Theorem C05gen_Float_Read : forall data prior wt fuel,
  Float64Codec_Read fuel data prior wt = match dec CF64 data (Z.to_N wt) (VF64 prior) with Ok (VF64 b, n) => Ok (b, Z.of_N n) | _ => Err end
  /\ Float32Codec_Read fuel data prior wt = match dec CF32 data (Z.to_N wt) (VF32 prior) with Ok (VF32 b, n) => Ok (b, Z.of_N n) | _ => Err end.
Proof. exact gen_Float_Read. Qed.
Print Assumptions C05gen_Float_Read.

(** ** C05 on the code as translated: Size is the length of what Append writes, with any tag *)
Theorem C05code_Int_size_law : forall w z tag fuel, wbits w -> in_int w z -> (10 <= fuel)%nat ->
  (Z.of_nat (length tag) < 4611686018427387904)%Z ->
  exists b, IntCodec_Append fuel w [] z tag = Ok b /\ IntCodec_Size w z tag = Z.of_nat (length b).
Proof. exact code_Int_size_law. Qed.
Print Assumptions C05code_Int_size_law.
Theorem C05code_Uint_size_law : forall w u tag fuel, wbits w -> in_uint w u -> (10 <= fuel)%nat ->
  (Z.of_nat (length tag) < 4611686018427387904)%Z ->
  exists b, UintCodec_Append fuel w [] u tag = Ok b /\ UintCodec_Size w u tag = Z.of_nat (length b).
Proof. exact code_Uint_size_law. Qed.
Print Assumptions C05code_Uint_size_law.
Theorem C05code_Bool_size_law : forall b tag fuel, (10 <= fuel)%nat -> (Z.of_nat (length tag) < 4611686018427387904)%Z ->
  exists o, BoolCodec_Append fuel [] b tag = Ok o /\ BoolCodec_Size tt tag = Z.of_nat (length o).
Proof. exact code_Bool_size_law. Qed.
Print Assumptions C05code_Bool_size_law.

(** ... and Read consumes exactly what Append wrote and gives the value back, at every width *)
Theorem C05code_Int_roundtrip : forall w z rest fuel, wbits w -> in_int w z -> (10 <= fuel)%nat -> bytes_ok rest ->
  exists b, IntCodec_Append fuel w [] z [] = Ok b /\
            IntCodec_Read fuel w (b ++ rest) 0%Z 0%Z = Ok (z, Z.of_nat (length b)).
Proof. exact code_Int_roundtrip. Qed.
Print Assumptions C05code_Int_roundtrip.

Example C05gen_ex :
  IntCodec_Append 10 8 [] (-3) [8] = Ok [8; 5] /\ IntCodec_Size 8 (-3) [8] = 2%Z /\ IntCodec_Read 10 8 [5; 99] 0 0 = Ok ((-3)%Z, 1%Z)
  /\ UintCodec_Append 10 16 [7] 300 [] = Ok [7; 172; 2] /\ BoolCodec_Append 10 [] true [16] = Ok [16; 1] /\ BoolCodec_Omit false = true.
Proof. vm_compute. repeat split; reflexivity. Qed.
