(** C20 - plenctag only adds correct, unique, stable plenc tags and is
    idempotent.  PARTIAL: gofmt output and compilation of the rewritten file are
    runtime facts checked on the real binary by the harness. *)
From Plenc Require Import Base Registry Plenctag PlenctagProofs.
Open Scope Z_scope.

(** every field is either left exactly as it was or gains one plenc tag after
    its existing tags, which keep their order and content *)
Theorem C20_preserves : forall c fs mx, Forall2 field_step fs (fst (pass2 c mx fs)).
Proof. exact pass2_preserves. Qed.
Print Assumptions C20_preserves.

(** fields that already have a plenc tag, private fields (by default) and
    fields whose tag cannot be parsed are untouched *)
Theorem C20_untouched : forall c fs mx f f',
  In (f, f') (combine fs (fst (pass2 c mx fs))) ->
  (pc_private c && pf_private f = true) \/ pf_tags f = None \/ (exists ts t, pf_tags f = Some ts /\ get_tag k_plenc ts = Some t) ->
  f' = f.
Proof. exact pass2_untouched. Qed.
Print Assumptions C20_untouched.

(** new indexes are strictly greater than every index already present in the
    struct and pairwise different *)
Theorem C20_fresh : forall c fs f v k,
  In f fs -> pf_haslit f = true -> plenc_value f = Some v ->
  In k (new_indexes c (fst (pass1 fs)) fs) -> v < k.
Proof. exact rewrite_fresh. Qed.
Print Assumptions C20_fresh.
Theorem C20_distinct : forall c fs mx, NoDup (new_indexes c mx fs).
Proof. exact new_indexes_distinct. Qed.
Print Assumptions C20_distinct.

(** a second run changes nothing *)
Theorem C20_idempotent : forall c fs, fst (rewrite c (fst (rewrite c fs))) = fst (rewrite c fs).
Proof. exact rewrite_idempotent. Qed.
Print Assumptions C20_idempotent.

Example C20_ex :
  let fs := [mkpf false (Some [mkstag k_json [97]%N []]) true; mkpf false (Some [mkstag k_plenc [55]%N []]) true;
             mkpf true (Some []) false; mkpf false (Some [mkstag k_sql dash []]) true; mkpf false (Some []) false] in
  map pf_tags (fst (rewrite (mkpcfg false true true) fs))
  = [Some [mkstag k_json [97]%N []; mkstag k_plenc [56]%N []]; Some [mkstag k_plenc [55]%N []]; Some [];
     Some [mkstag k_sql dash []; mkstag k_plenc dash []]; Some [mkstag k_plenc [57]%N []]].
Proof. vm_compute. reflexivity. Qed.
