(** C10 - Re-used targets and instances never leak stale state.
    [merge c prior v] (RoundTrip.v) writes the merge rules out on values:
    scalars, strings, times and packed / counted slices are overwritten; a
    struct keeps the prior value of every field that is absent from the data
    and merges the present ones recursively; a non-nil pointer's target is
    merged into, a nil one gets a fresh zero target; counted slices decode every
    element into a zero element; map entries are merged by key in wire order (a
    key decodes from zero, a value into the entry already held under that key);
    the repeated-field forms append.  PARTIAL: proved for the [rt_ok] fragment;
    the independence from pools / intern tables is decided by the correspondence
    over operation histories (the model is stateless, so any history dependence
    of the implementation shows up as a mismatch). *)
From Plenc Require Import Base Varint Wire JsonAny Codec SizeProofs Registry CorrCore RoundTrip RoundTripZero.
Open Scope N_scope.

(** Unmarshal into a target holding [prior] computes exactly the merge rules *)
Theorem C10_merge_partial : forall c v prior, rt_ok c -> top_ok c -> wfv c v -> fits c v -> omit c v = false ->
  dec c (if omit c v then [] else enc c v []) (wire c) prior = Ok (merge c prior v, len (enc c v [])).
Proof. exact unmarshal_marshal. Qed.
Print Assumptions C10_merge_partial.

Theorem C10_struct_merge_partial : forall nm n fs v prior,
  rt_ok (CStruct nm n fs) -> wfv (CStruct nm n fs) v -> fits (CStruct nm n fs) v ->
  unmarshal (CStruct nm n fs) (marshal (CStruct nm n fs) [] v) prior = Ok (merge (CStruct nm n fs) prior v).
Proof.
  intros nm n fs v prior Hok Hw Hf. unfold unmarshal, marshal. cbn [omit app wire].
  rewrite (struct_unmarshal_marshal nm n fs v prior Hok Hw Hf). reflexivity.
Qed.
Print Assumptions C10_struct_merge_partial.

(** the rules, spelled out *)
Theorem C10_absent_field_keeps_prior : forall vs cur f,
  omit (f_codec f) (slot vs (f_slot f)) = true -> fmerge vs cur f = cur.
Proof. intros. unfold fmerge. cbv zeta. rewrite H. reflexivity. Qed.
Print Assumptions C10_absent_field_keeps_prior.

Theorem C10_pointer_merges_into_target : forall c p x,
  merge (CPtr c) (VPtr (Some p)) (VPtr (Some x)) = VPtr (Some (merge c p x)) /\
  merge (CPtr c) (VPtr None) (VPtr (Some x)) = VPtr (Some (merge c (zero c) x)).
Proof. intros. split; reflexivity. Qed.
Print Assumptions C10_pointer_merges_into_target.

Theorem C10_slice_elements_from_zero : forall c prior l,
  merge (CSliceLen c) prior (VSlice l) = VSlice (map (fun x => merge c (zero c) x) l).
Proof. reflexivity. Qed.
Print Assumptions C10_slice_elements_from_zero.

Theorem C10_map_entries_merged_by_key : forall kc vc prior es,
  merge (CMap kc vc) prior (VMap (Some es))
  = VMap (Some (fold_left (entry_merge kc vc) es (match prior with VMap (Some m) => m | _ => [] end))).
Proof. exact merge_map. Qed.
Print Assumptions C10_map_entries_merged_by_key.

Theorem C10_repeated_form_appends : forall c prior l,
  merge (CSliceProto c) prior (VSlice l) = VSlice (slice_elems prior ++ map (fun x => merge c (zero c) x) l).
Proof. reflexivity. Qed.
Print Assumptions C10_repeated_form_appends.

(** decoding into a fresh variable does not depend on anything else: it is the
    value itself (C01) *)
Theorem C10_fresh_partial : forall c v, rt_ok c -> wfv c v -> canon c v -> merge c (zero c) v = v.
Proof. exact merge_zero_id. Qed.
Print Assumptions C10_fresh_partial.

Example C10_ex :
  let c := CStruct [] 3 [mkfld 0 1 [] (CInt 64); mkfld 1 2 [] (CPtr (CStruct [] 2 [mkfld 0 1 [] CString; mkfld 1 2 [] (CInt 64)])); mkfld 2 3 [] (CSliceVar (CInt 64))] in
  let prior := VStruct [VInt 9; VPtr (Some (VStruct [VStr [111]; VInt 4])); VSlice [VInt 1; VInt 2; VInt 3]] in
  let v := VStruct [VInt 0; VPtr (Some (VStruct [VStr []; VInt 5])); VSlice [VInt 7]] in
  unmarshal c (marshal c [] v) prior = Ok (VStruct [VInt 9; VPtr (Some (VStruct [VStr [111]; VInt 5])); VSlice [VInt 7]]).
Proof. vm_compute. reflexivity. Qed.
