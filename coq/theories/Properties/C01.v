(** C01 - Round trip: Unmarshal(Marshal(v)) recovers v.
    PARTIAL: proved for the fragment [rt_ok] of codec trees - every scalar
    codec, strings, byte slices, times in both forms, null types, pointers,
    structs nested to any depth, packed slices of scalars and counted slices of
    length-delimited elements (incl. slices of structs, of strings, of packed
    slices).  Maps, the protobuf repeated-field forms, nil entries of pointer
    slices and the BigQuery/JSON codecs are decided by the correspondence
    (model = implementation on generated cases) and by the model's own
    evaluation; the documented normalisations show up as the [canon]
    hypothesis (an omitted plain field must hold exactly zero, unencoded fields
    read back zero).  Known findings: D12, D24, D27. *)
From Plenc Require Import Base Varint Wire JsonAny Codec SizeProofs Registry CorrCore RoundTripBase RoundTrip RoundTripZero.
Open Scope N_scope.

(** decoding the encoding of [v] into a fresh target yields [v] and consumes
    exactly the encoding *)
Theorem C01_roundtrip_partial : forall c v, rt_ok c -> wfv c v -> fits c v -> canon c v -> omit c v = false ->
  dec c (enc c v []) (wire c) (zero c) = Ok (v, len (enc c v [])).
Proof. exact roundtrip_fresh. Qed.
Print Assumptions C01_roundtrip_partial.

(** at the Marshal / Unmarshal level, for struct types (never omitted) *)
Theorem C01_struct_roundtrip_partial : forall nm n fs v,
  rt_ok (CStruct nm n fs) -> wfv (CStruct nm n fs) v -> fits (CStruct nm n fs) v -> canon (CStruct nm n fs) v ->
  unmarshal (CStruct nm n fs) (marshal (CStruct nm n fs) [] v) (zero (CStruct nm n fs)) = Ok v.
Proof.
  intros nm n fs v Hok Hw Hf Hc. unfold unmarshal, marshal. cbn [omit app].
  pose proof (roundtrip_fresh (CStruct nm n fs) v Hok Hw Hf Hc eq_refl) as H. cbn [wire] in *. rewrite H. reflexivity.
Qed.
Print Assumptions C01_struct_roundtrip_partial.

(** the decoder inverts the encoder for every codec of the fragment, also when
    the encoding is followed by other data (self-delimiting codecs) *)
Theorem C01_dec_enc_partial : forall c, rt_ok c -> RTc c.
Proof. exact roundtrip. Qed.
Print Assumptions C01_dec_enc_partial.

(** non-vacuity: a nested value with pointers, times, slices of structs *)
Example C01_ex :
  let inner := CStruct [] 2 [mkfld 0 1 [] (CInt 32); mkfld 1 2 [] CString] in
  let c := CStruct [] 5 [mkfld 0 1 [] (CPtr inner); mkfld 1 2 [] (CSliceLen inner); mkfld 2 15 [] (CTime true);
                         mkfld 3 16 [] (CSliceVar (CUint 8)); mkfld 4 2047 [] (CNull CF64)] in
  let v := VStruct [VPtr (Some (VStruct [VInt 0; VStr []])); VSlice [VStruct [VInt (-7); VStr [104;105]]; VStruct [VInt 0; VStr []]];
                    VTime (-5) 999999999; VSlice [VInt 255; VInt 0]; VNull true (VF64 0)] in
  rt_ok c /\ unmarshal c (marshal c [] v) (zero c) = Ok v.
Proof.
  cbv zeta. split.
  - cbn [rt_ok f_codec f_index f_slot plain_varint map]. unfold bits_ok.
    repeat match goal with
    | |- _ /\ _ => split
    | |- True => exact I
    | |- NoDup _ => repeat constructor; cbn; intuition (try discriminate; try lia)
    | |- (_ <= _ < _)%Z => lia
    | |- (_ < _)%nat => lia
    | |- _ \/ _ => auto
    | |- (_ <= _)%Z => lia
    | |- (_ < _)%Z => lia
    | |- wire _ = _ => reflexivity
    end.
  - vm_compute. reflexivity.
Qed.
