(** C01 - Round trip: Unmarshal(Marshal(v)) recovers v.
    Proved for the fragment [rt_ok] of codec trees - every scalar codec,
    strings, byte slices, times in both forms, null types, pointers, structs
    nested to any depth, packed slices of scalars, counted slices of
    length-delimited elements (incl. slices of structs, of strings, of packed
    slices), maps (entries merged by key, in wire order), the JSON-any codecs,
    and - as struct
    fields - the protobuf repeated-field form of slices and maps.  Recursive
    types are covered through their finite unfoldings: the fragment admits the
    unfolding limit [CBottom] (no well-typed value is written under it), the
    model of CodecForType yields exactly these unfoldings, and every finite
    value is well-typed for every unfolding deep enough to hold it
    (C01_recursive*, shown for a list/tree type of unbounded depth and width).
    Pointer slices and their documented normalisation: packed slices of
    pointers to integers are in the fragment, nil entries are dropped
    (C01_nil_entries_dropped); nil entries of slices of pointers to
    length-delimited elements read back as pointers to the zero value
    (C01_nil_entries_become_zero).  PARTIAL:
    outside the fragment are null.* / BQ elements of scalar slices
    (finding D24), the BigQuery codec and the
    repeated forms anywhere but directly in a struct field ([top_ok]: finding
    D12); those are decided by the correspondence.  The documented
    normalisations show up as the [canon] hypothesis (an omitted plain field
    holds exactly zero, unencoded fields read back zero, map keys are distinct,
    an empty map in the repeated form reads back nil).  Known findings: D12,
    D24, D27. *)
From Plenc Require Import Base Varint Wire JsonAny Codec SizeProofs Registry CorrCore RoundTripBase RoundTrip RoundTripZero RecursiveRT SliceNil.
Open Scope N_scope.

(** decoding the encoding of [v] into a fresh target yields [v] and consumes
    exactly the encoding *)
Theorem C01_roundtrip_partial : forall c v, rt_ok c -> top_ok c -> wfv c v -> fits c v -> canon c v -> omit c v = false ->
  dec c (enc c v []) (wire c) (zero c) = Ok (v, len (enc c v [])).
Proof. exact roundtrip_fresh. Qed.
Print Assumptions C01_roundtrip_partial.

(** at the Marshal / Unmarshal level, for struct types (never omitted) *)
Theorem C01_struct_roundtrip_partial : forall nm n fs v,
  rt_ok (CStruct nm n fs) -> wfv (CStruct nm n fs) v -> fits (CStruct nm n fs) v -> canon (CStruct nm n fs) v ->
  unmarshal (CStruct nm n fs) (marshal (CStruct nm n fs) [] v) (zero (CStruct nm n fs)) = Ok v.
Proof.
  intros nm n fs v Hok Hw Hf Hc. unfold unmarshal, marshal. cbn [omit app].
  pose proof (roundtrip_fresh (CStruct nm n fs) v Hok I Hw Hf Hc eq_refl) as H. cbn [wire] in *. rewrite H. reflexivity.
Qed.
Print Assumptions C01_struct_roundtrip_partial.

(** the decoder inverts the encoder for every codec of the fragment, also when
    the encoding is followed by other data (self-delimiting codecs) *)
Theorem C01_dec_enc_partial : forall c, rt_ok c -> top_ok c -> RTc c.
Proof. exact roundtrip. Qed.
Print Assumptions C01_dec_enc_partial.

(** ... and every codec of the fragment, the repeated forms included, goes
    through the decode loop of any struct that has it as a field: the loop
    advances past the field's encoding and the slot receives the merge *)
Theorem C01_field_roundtrip_partial : forall c, rt_ok c -> FRT c.
Proof. intros c H. apply (proj2 (roundtrip_gen c H)). Qed.
Print Assumptions C01_field_roundtrip_partial.

(** recursive types.  For
      type Node struct { V int `plenc:"1"`; Next *Node `plenc:"2"`; Kids []Node `plenc:"3"` }
    the model of CodecForType yields the unfolding [node_codec k] for every k ... *)
Theorem C01_recursive_codec : forall k,
  codec_for plain_cfg node_env (2 * k + 2) (TStruct 0) [] = Ok (node_codec k).
Proof. exact node_codec_for. Qed.
Print Assumptions C01_recursive_codec.

(** ... every finite value of the type (a tree of any depth and width, with
    int64 payloads) is well-typed and canonical for every unfolding at least as
    deep as the value ... *)
Theorem C01_recursive_values : forall k t, (depth t <= S k)%nat -> tree_ok t ->
  rt_ok (node_codec k) /\ wfv (node_codec k) (tree_val t) /\ canon (node_codec k) (tree_val t).
Proof. intros k t Hd Hok. split; [apply node_rt_ok|split; [apply tree_wfv; assumption|apply tree_canon; exact Hd]]. Qed.
Print Assumptions C01_recursive_values.

(** ... and so comes back exactly (the [fits] hypothesis only says that the
    encoding is shorter than 2^64 bytes) *)
Theorem C01_recursive_roundtrip : forall k t,
  (depth t <= S k)%nat -> tree_ok t -> fits (node_codec k) (tree_val t) ->
  unmarshal (node_codec k) (marshal (node_codec k) [] (tree_val t)) (zero (node_codec k)) = Ok (tree_val t).
Proof. exact recursive_roundtrip. Qed.
Print Assumptions C01_recursive_roundtrip.

Example C01_recursive_ex :
  let t := T 5 (Some (T (-1) None [T 0 None []; T 7 (Some (T 8 None [])) []])) [T 0 None []] in
  (depth t <= S 3)%nat /\ tree_ok t /\
  unmarshal (node_codec 3) (marshal (node_codec 3) [] (tree_val t)) (zero (node_codec 3)) = Ok (tree_val t).
Proof. cbv zeta. split; [cbn; lia|]. split; [cbn; unfold int_range; cbn; intuition lia|vm_compute; reflexivity]. Qed.

(** the documented normalisation of pointer slices.  Integers: nil entries are
    not written and the rest comes back in order ... *)
Theorem C01_nil_entries_dropped : forall c0 l prior,
  plain_varint0 c0 ->
  Forall (fun x => x = VPtr None \/ wfv (CPtr c0) x) l ->
  fits (CSliceVar (CPtr c0)) (VSlice (filter notnil l)) ->
  dec (CSliceVar (CPtr c0)) (enc (CSliceVar (CPtr c0)) (VSlice l) []) WTLength prior
  = Ok (VSlice (filter notnil l), len (enc (CSliceVar (CPtr c0)) (VSlice l) [])).
Proof. exact varint_ptr_slice_roundtrip. Qed.
Print Assumptions C01_nil_entries_dropped.

(** ... length-delimited elements: every entry keeps its position, a nil entry
    comes back as a pointer to what the element codec makes of no data (the
    zero value: see [nil_struct_entry_reads_zero]) *)
Theorem C01_nil_entries_become_zero : forall c0 z0 l prior rest,
  rt_ok c0 -> top_ok c0 -> wire c0 = WTLength ->
  dec c0 [] WTLength (zero c0) = Ok (z0, 0) ->
  Forall (fun x => x = VPtr None \/ (wfv (CPtr c0) x /\ fits (CPtr c0) x /\ len (enc (CPtr c0) x []) < two64)) l ->
  N.of_nat (length l) < two64 ->
  dec (CSliceLen (CPtr c0)) (enc (CSliceLen (CPtr c0)) (VSlice l) [] ++ rest) WTSlice prior
  = Ok (VSlice (map (denil c0 z0) l), len (enc (CSliceLen (CPtr c0)) (VSlice l) [])).
Proof. exact framed_ptr_slice_roundtrip. Qed.
Print Assumptions C01_nil_entries_become_zero.

(** non-vacuity: a nested value with pointers, times, slices of structs, a
    map, and a slice and a map in the protobuf repeated form *)
Example C01_ex :
  let inner := CStruct [] 2 [mkfld 0 1 [] (CInt 32); mkfld 1 2 [] CString] in
  let c := CStruct [] 8 [mkfld 0 1 [] (CPtr inner); mkfld 1 2 [] (CSliceLen inner); mkfld 2 15 [] (CTime true);
                         mkfld 3 16 [] (CSliceVar (CUint 8)); mkfld 4 2047 [] (CNull CF64);
                         mkfld 5 3 [] (CMap CString (CPtr inner)); mkfld 6 4 [] (CSliceProto inner);
                         mkfld 7 5 [] (CMapProto (CInt 64) CString)] in
  let v := VStruct [VPtr (Some (VStruct [VInt 0; VStr []])); VSlice [VStruct [VInt (-7); VStr [104;105]]; VStruct [VInt 0; VStr []]];
                    VTime (-5) 999999999; VSlice [VInt 255; VInt 0]; VNull true (VF64 0);
                    VMap (Some [(VStr [], VPtr None); (VStr [107], VPtr (Some (VStruct [VInt 1; VStr [118]])))]);
                    VSlice [VStruct [VInt 3; VStr []]; VStruct [VInt 0; VStr [120]]];
                    VMap (Some [(VInt 0, VStr []); (VInt (-1), VStr [121])])] in
  rt_ok c /\ unmarshal c (marshal c [] v) (zero c) = Ok v.
Proof.
  cbv zeta. split.
  - cbn [rt_ok f_codec f_index f_slot plain_varint plain_varint0 map]. unfold bits_ok.
    repeat match goal with
    | |- _ /\ _ => split
    | |- True => exact I
    | |- NoDup _ => repeat constructor; cbn; intuition (try discriminate; try lia)
    | |- (_ <= _ < _)%Z => lia
    | |- (_ < _)%nat => lia
    | |- _ \/ _ => auto
    | |- (_ <= _)%Z => lia
    | |- (_ < _)%Z => lia
    | |- wire _ = _ => reflexivity
    | |- top_ok _ => exact I
    end.
  - vm_compute. reflexivity.
Qed.
