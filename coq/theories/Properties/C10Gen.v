(** C10, tie by translation for the struct codec: the Read loop of
    /repo/plenccodec/struct.go as translated on every run ([PlencGen.GenStruct],
    see Properties/C03Gen.v and GenProofs/StructEquiv.v for how) decodes INTO the
    struct the pointer addresses - each field codec receives the prior value of
    its slot and the slot is overwritten with what it hands back, every other
    slot is left alone - and so computes the model's [merge].  Statements only;
    outside _CoqProject because it depends on the generated files. *)
From Plenc Require Import Base Varint Wire GoSem JsonAny Codec SizeProofs DecBase DecProofs GoMem Registry CorrCore RoundTripBase RoundTrip RoundTripZero.
From PlencGen Require Import GenCore CoreEquiv GenStruct StructEquiv.
Open Scope N_scope.

(** empty input: nothing is touched *)
Theorem C10code_empty_input_keeps_target : forall flds byidx ps wt,
  StructCodec_Read 1 (mkStructCodec tt flds byidx) [] (VStruct ps) wt = Ok (VStruct ps, 0%Z).
Proof. reflexivity. Qed.
Print Assumptions C10code_empty_input_keeps_target.

(** the translated loop is the model's decoder on any prior *)
Theorem C10code_read_is_model : forall nm n fs k data ps wt,
  bytes_ok data -> (Z.of_nat (length data) < 4611686018427387904)%Z ->
  Forall (fun f => (f_index f < Z.of_nat k)%Z) fs ->
  okd (S (length data)) (CStruct nm n fs) ->
  StructCodec_Read (S (length data)) (gstruct fs k) data (VStruct ps) wt
  = lift_dec (dec (CStruct nm n fs) data (Z.to_N wt) (VStruct ps)).
Proof. exact gen_StructCodec_Read_model. Qed.
Print Assumptions C10code_read_is_model.

(** decoding what Marshal wrote into a populated target merges: fields present
    in the data are merged field-wise into the target, absent ones keep the
    target's value *)
Theorem C10code_struct_merge_partial : forall nm n fs k vs ps,
  rt_ok (CStruct nm n fs) -> wfv (CStruct nm n fs) (VStruct vs) -> fits (CStruct nm n fs) (VStruct vs) ->
  let data := enc (CStruct nm n fs) (VStruct vs) [] in
  bytes_ok data -> (Z.of_nat (length data) < 4611686018427387904)%Z ->
  Forall (fun f => (f_index f < Z.of_nat k)%Z) fs -> nobottom (CStruct nm n fs) = true ->
  StructCodec_Read (S (length data)) (gstruct fs k) data (VStruct ps) 2
  = Ok (merge (CStruct nm n fs) (VStruct ps) (VStruct vs), Z.of_N (len data)).
Proof.
  intros nm n fs k vs ps Hok Hw Hf data Hb Hlen Hk Hnb.
  rewrite (gen_StructCodec_Read_model nm n fs k data ps) by (auto; apply nobottom_okd; exact Hnb).
  change (Z.to_N 2) with Wire.WTLength. unfold data.
  rewrite (struct_unmarshal_marshal nm n fs (VStruct vs) (VStruct ps) Hok Hw Hf). reflexivity.
Qed.
Print Assumptions C10code_struct_merge_partial.

Example C10code_ex :
  let fs := [mkfld 0 1 [] (CInt 64); mkfld 1 2 [] CString; mkfld 2 3 [] (CSliceVar (CInt 64))] in
  let data := [18; 1; 120] in
  StructCodec_Read (S (length data)) (gstruct fs 4) data (VStruct [VInt 9; VStr [111]; VSlice [VInt 1]]) 2
  = Ok (VStruct [VInt 9; VStr [120]; VSlice [VInt 1]], 3%Z).
Proof. vm_compute. reflexivity. Qed.
