(** C10, tie by translation for the struct codec: the Read loop of
    /repo/plenccodec/struct.go as translated on every run ([PlencGen.GenStruct],
    see Properties/C03Gen.v and GenProofs/StructEquiv.v for how) decodes INTO the
    struct the pointer addresses - each field codec receives the prior value of
    its slot and the slot is overwritten with what it hands back, every other
    slot is left alone - and so computes the model's [merge].  Statements only;
    outside _CoqProject because it depends on the generated files. *)
From Plenc Require Import Base Varint Wire GoSem JsonAny Codec SizeProofs DecBase DecProofs GoMem Registry CorrCore RoundTripBase RoundTrip RoundTripZero.
From PlencGen Require Import GenCore CoreEquiv GenStruct StructEquiv.
Open Scope N_scope.

(** empty input: nothing is touched *)
Theorem C10code_empty_input_keeps_target : forall flds byidx ps wt,
  StructCodec_Read 1 (mkStructCodec tt flds byidx) [] (VStruct ps) wt = Ok (VStruct ps, 0%Z).
Proof. reflexivity. Qed.
Print Assumptions C10code_empty_input_keeps_target.

(** the translated loop is the model's decoder on any prior *)
Theorem C10code_read_is_model : forall nm n fs k data ps wt,
  bytes_ok data -> (Z.of_nat (length data) < 4611686018427387904)%Z ->
  Forall (fun f => (f_index f < Z.of_nat k)%Z) fs ->
  okd (S (length data)) (CStruct nm n fs) ->
  StructCodec_Read (S (length data)) (gstruct fs k) data (VStruct ps) wt
  = lift_dec (dec (CStruct nm n fs) data (Z.to_N wt) (VStruct ps)).
Proof. exact gen_StructCodec_Read_model. Qed.
Print Assumptions C10code_read_is_model.

(** decoding what Marshal wrote into a populated target merges: fields present
    in the data are merged field-wise into the target, absent ones keep the
    target's value *)
Theorem C10code_struct_merge_partial : forall nm n fs k vs ps,
  rt_ok (CStruct nm n fs) -> wfv (CStruct nm n fs) (VStruct vs) -> fits (CStruct nm n fs) (VStruct vs) ->
  let data := enc (CStruct nm n fs) (VStruct vs) [] in
  bytes_ok data -> (Z.of_nat (length data) < 4611686018427387904)%Z ->
  Forall (fun f => (f_index f < Z.of_nat k)%Z) fs -> nobottom (CStruct nm n fs) = true ->
  StructCodec_Read (S (length data)) (gstruct fs k) data (VStruct ps) 2
  = Ok (merge (CStruct nm n fs) (VStruct ps) (VStruct vs), Z.of_N (len data)).
Proof.
  intros nm n fs k vs ps Hok Hw Hf data Hb Hlen Hk Hnb.
  rewrite (gen_StructCodec_Read_model nm n fs k data ps) by (auto; apply nobottom_okd; exact Hnb).
  change (Z.to_N 2) with Wire.WTLength. unfold data.
  rewrite (struct_unmarshal_marshal nm n fs (VStruct vs) (VStruct ps) Hok Hw Hf). reflexivity.
Qed.
Print Assumptions C10code_struct_merge_partial.

Example C10code_ex :
  let fs := [mkfld 0 1 [] (CInt 64); mkfld 1 2 [] CString; mkfld 2 3 [] (CSliceVar (CInt 64))] in
  let data := [18; 1; 120] in
  StructCodec_Read (S (length data)) (gstruct fs 4) data (VStruct [VInt 9; VStr [111]; VSlice [VInt 1]]) 2
  = Ok (VStruct [VInt 9; VStr [120]; VSlice [VInt 1]], 3%Z).
Proof. vm_compute. reflexivity. Qed.

(** ** slices of scalars are REPLACED, whatever the target's backing array held
    [PlencGen.GenSlice] (wrapper.go: WTVarIntSliceWrapper.Read,
    WTFixedSliceWrapper.Read, translated on every run) and
    [PlencGen.SliceEquiv]: the Read of a packed / fixed-width slice into ANY
    well-formed slice header - shorter or longer than the data, with stale
    elements below and beyond the new length, re-used or newly allocated - gives
    exactly the model's decode, which does not look at the target at all. *)
From PlencGen Require Import GenSlice SliceEquiv.

Theorem C10code_packed_slice_replaced : forall c data h wt,
  (Z.of_nat (length data) < 4611686018427387904)%Z ->
  (forall d w p q, dec c d w p = dec c d w q) -> dsafe (S (length data)) (dec c) -> hdr_ok h ->
  lift_hval (WTVarIntSliceWrapper_Read (S (length data)) (vw c) data h wt)
  = lift_dec (dec (CSliceVar c) data (Z.to_N wt) (hval h)).
Proof. exact gen_VarSlice_Read. Qed.
Print Assumptions C10code_packed_slice_replaced.

Theorem C10code_fixed_slice_replaced : forall c data h wt,
  (Z.of_nat (length data) < 4611686018427387904)%Z -> size c (VSkip 0) [] = fixed_width c -> fixed_width c <> 0 ->
  (forall d w p q, dec c d w p = dec c d w q) -> dsafe (S (length data)) (dec c) -> hdr_ok h ->
  lift_hval (WTFixedSliceWrapper_Read (S (length data)) (fw c) data h wt)
  = lift_dec (dec (CSliceFix c) data (Z.to_N wt) (hval h)).
Proof. exact gen_FixSlice_Read. Qed.
Print Assumptions C10code_fixed_slice_replaced.

(** ... in particular the result does not depend on the target: two targets, one result *)
Theorem C10code_packed_slice_target_irrelevant : forall c data h1 h2 wt,
  (Z.of_nat (length data) < 4611686018427387904)%Z ->
  (forall d w p q, dec c d w p = dec c d w q) -> dsafe (S (length data)) (dec c) -> hdr_ok h1 -> hdr_ok h2 ->
  lift_hval (WTVarIntSliceWrapper_Read (S (length data)) (vw c) data h1 wt)
  = lift_hval (WTVarIntSliceWrapper_Read (S (length data)) (vw c) data h2 wt).
Proof.
  intros c data h1 h2 wt Hlen Hins Hsafe H1 H2.
  rewrite !gen_VarSlice_Read by assumption. cbn [dec]. reflexivity.
Qed.
Print Assumptions C10code_packed_slice_target_irrelevant.

(** the scalar element codecs satisfy the hypothesis *)
Theorem C10code_scalars_overwrite : forall c, match c with CBool | CInt _ | CUint _ | CFlat _ | CF32 | CF64 | CBQ => True | _ => False end ->
  forall d w p q, dec c d w p = dec c d w q.
Proof. exact scalar_overwrites. Qed.
Print Assumptions C10code_scalars_overwrite.

Example C10code_slice_ex :
  lift_hval (WTVarIntSliceWrapper_Read 4 (vw (CInt 64)) [2; 1; 3] (mksliceHeader (VSlice [VInt 9; VInt 9; VInt 9; VInt 9]) 4 4) 2)
  = Ok (VSlice [VInt 1; VInt (-1); VInt (-2)], 3%Z).
Proof. vm_compute. reflexivity. Qed.

(** counted slices of length-delimited elements (structs, strings, pointers, ...): every element is
    decoded into a ZERO element - a new array, or the old one cleared first - whatever the target held *)
Theorem C10code_counted_slice_replaced : forall c data h wt,
  (Z.of_nat (length data) < 4611686018427387904)%Z -> dsafe (S (length data)) (dec c) -> hdr_wf h ->
  lift_hval (WTLengthSliceWrapper_Read (S (length data)) (lw c) data h wt)
  = lift_dec (dec (CSliceLen c) data (Z.to_N wt) (hval h)).
Proof. exact gen_LenSlice_Read. Qed.
Print Assumptions C10code_counted_slice_replaced.

(** the repeated (protobuf) form APPENDS one element, decoded into a zero element, growing the array when it is full *)
Theorem C10code_repeated_form_appends : forall c data h wt fuel, hdr_wf h ->
  lift_hval (ProtoSliceWrapper_Read fuel (prw c) data h wt) = lift_dec (dec (CSliceProto c) data (Z.to_N wt) (hval h)).
Proof. exact gen_ProtoSlice_Read. Qed.
Print Assumptions C10code_repeated_form_appends.

Theorem C10code_default_reads_repeated_form : forall c data h fuel, hdr_wf h ->
  lift_hval (WTLengthSliceWrapper_readAsWTLength fuel (lw c) data h) = lift_dec (dec (CSliceProto c) data Wire.WTLength (hval h)).
Proof. exact gen_LenSlice_readAsWTLength. Qed.
Print Assumptions C10code_default_reads_repeated_form.
