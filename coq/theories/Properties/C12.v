(** C12 - Proto-compatible mode emits standard protobuf and default mode can
    read it.  PARTIAL: the structural facts below are proved for all codec
    trees; that the whole output is accepted by a standard protobuf reader with
    exact lengths is decided on the implementation by an independent wire
    reader in the harness and will follow from the round-trip development. *)
From Plenc Require Import Base Varint Wire JsonAny Codec Registry CorrCore ProtoProofs.
Open Scope N_scope.

Theorem C12_wire_types : forall c, proto_codec c = true ->
  wire c = WTVarInt \/ wire c = WT64 \/ wire c = WTLength \/ wire c = WT32.
Proof. exact proto_wire_types. Qed.
Print Assumptions C12_wire_types.

Theorem C12_timestamp : forall s n,
  time_body true s n = append_tag WTVarInt 1 ++ append_varuint (u64 s) ++ append_tag WTVarInt 2 ++ append_varuint (ubits 32 n).
Proof. exact proto_timestamp. Qed.
Print Assumptions C12_timestamp.

Theorem C12_repeated : forall c v tag,
  enc (CSliceProto c) v tag = flat_map (fun x => enc c x tag) (slice_elems v).
Proof. exact proto_repeated. Qed.
Print Assumptions C12_repeated.

Theorem C12_map_entries : forall kc vc es tag,
  enc (CMapProto kc vc) (VMap (Some es)) tag
  = flat_map (fun e => tag ++ lenframe ((if omit kc (fst e) then [] else enc kc (fst e) (field_tag kc 1))
                                          ++ (if omit vc (snd e) then [] else enc vc (snd e) (field_tag vc 2)))) es.
Proof. exact proto_map_entries. Qed.
Print Assumptions C12_map_entries.

Theorem C12_default_reads_repeated : forall c data prior,
  dec (CSliceLen c) data WTLength prior = dec (CSliceProto c) data WTLength prior.
Proof. exact default_reads_repeated. Qed.
Print Assumptions C12_default_reads_repeated.

Theorem C12_switch_time_registration : forall pt,
  default_regs pt = firstn 21 (default_regs false) ++ [(TExt 0, [], CTime pt)].
Proof. exact switch_time_registration. Qed.
Print Assumptions C12_switch_time_registration.

(** the full round trip is false where a repeated field is nested inside
    another (known finding D12) *)
Theorem C12_nested_refuted :
  exists c v, proto_codec c = true /\
    unmarshal c (marshal c [] v) (zero c) <> Ok v /\
    unmarshal c (marshal c [] v) (zero c)
    = Ok (VStruct [VSlice [VSlice [VStr [97]]; VSlice [VStr [98]]; VSlice [VStr [99]]]]).
Proof. exact proto_nested_refuted. Qed.
Print Assumptions C12_nested_refuted.
