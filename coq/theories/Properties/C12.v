(** C12 - Proto-compatible mode emits standard protobuf and default mode can
    read it.  C12_wellformed / C12_standard_reader: the encoding of every
    proto-mode struct is a well-formed standard protobuf message (a grammar with
    wire types 0, 1, 2, 5 only and exact lengths) consisting of exactly the
    expected fields, and a reader for the standard format accepts it;
    C12_roundtrip_partial: such data round-trips in that mode (C01's theorem
    covers the repeated / map-entry forms as struct fields and the Timestamp
    form).  PARTIAL: repeated forms nested directly inside one another do not
    round-trip - C12_nested_refuted (finding D12); scalar slices over pointer /
    null elements and the JSON / BQ codecs by the correspondence. *)
From Plenc Require Import Base Varint Wire JsonAny Codec SizeProofs Registry CorrCore ProtoProofs PbWf RoundTrip RoundTripZero Evolution.
Open Scope N_scope.

Theorem C12_wire_types : forall c, proto_codec c = true ->
  wire c = WTVarInt \/ wire c = WT64 \/ wire c = WTLength \/ wire c = WT32.
Proof. exact proto_wire_types. Qed.
Print Assumptions C12_wire_types.

Theorem C12_timestamp : forall s n,
  time_body true s n = append_tag WTVarInt 1 ++ append_varuint (u64 s) ++ append_tag WTVarInt 2 ++ append_varuint (ubits 32 n).
Proof. exact proto_timestamp. Qed.
Print Assumptions C12_timestamp.

Theorem C12_repeated : forall c v tag,
  enc (CSliceProto c) v tag = flat_map (fun x => enc c x tag) (slice_elems v).
Proof. exact proto_repeated. Qed.
Print Assumptions C12_repeated.

Theorem C12_map_entries : forall kc vc es tag,
  enc (CMapProto kc vc) (VMap (Some es)) tag
  = flat_map (fun e => tag ++ lenframe ((if omit kc (fst e) then [] else enc kc (fst e) (field_tag kc 1))
                                          ++ (if omit vc (snd e) then [] else enc vc (snd e) (field_tag vc 2)))) es.
Proof. exact proto_map_entries. Qed.
Print Assumptions C12_map_entries.

Theorem C12_default_reads_repeated : forall c data prior,
  dec (CSliceLen c) data WTLength prior = dec (CSliceProto c) data WTLength prior.
Proof. exact default_reads_repeated. Qed.
Print Assumptions C12_default_reads_repeated.

Theorem C12_switch_time_registration : forall pt,
  default_regs pt = firstn 21 (default_regs false) ++ [(TExt 0, [], CTime pt)].
Proof. exact switch_time_registration. Qed.
Print Assumptions C12_switch_time_registration.

(** well-formed standard protobuf: the whole output of a proto-mode struct is a
    sequence of fields with wire types 0 / 1 / 2 / 5 and exact lengths - and it
    is exactly the fields [simg] lists: scalars as varints / fixed, strings,
    bytes, nested structs, Timestamp times and packed scalar slices as one
    length-delimited field, a repeated field as one frame per element, a map as
    one key=1/value=2 entry message per entry, omitted fields absent *)
Theorem C12_wellformed : forall nm n fs v,
  pb_ok (CStruct nm n fs) = true -> Forall (fun f => idx_ok (f_index f)) fs ->
  fits (CStruct nm n fs) v ->
  pb_msg (enc (CStruct nm n fs) v []) (simg fs (struct_fields v)).
Proof. exact struct_pb. Qed.
Print Assumptions C12_wellformed.

(** ... and a reader of the standard wire format (rejecting wire types 3, 4, 6,
    7 and any inexact length) accepts it and returns those fields *)
Theorem C12_standard_reader : forall data fs, pb_msg data fs ->
  forall fuel, (length data < fuel)%nat -> pb_parse fuel data = Some fs.
Proof. exact pb_parse_accepts. Qed.
Print Assumptions C12_standard_reader.

(** non-vacuity: a struct with a repeated field, a packed slice, a time and a
    map meets the hypotheses, and the reader returns its fields *)
Example C12_ex :
  let c := CStruct [] 4 [mkfld 0 1 [] (CSliceProto CString); mkfld 1 2 [] (CSliceVar (CInt 64));
                         mkfld 2 3 [] (CTime true); mkfld 3 4 [] (CMapProto CString (CUint 8))] in
  let v := VStruct [VSlice [VStr [97]; VStr []]; VSlice [VInt 1; VInt (-1)]; VTime 5 7;
                    VMap (Some [(VStr [107], VInt 3)])] in
  pb_ok c = true /\
  pb_parse 100 (enc c v []) =
    Some [PBF 1 2 [97]; PBF 1 2 []; PBF 2 2 [2; 1]; PBF 3 2 [8; 5; 16; 7]; PBF 4 2 [10; 1; 107; 16; 3]].
Proof. vm_compute. split; reflexivity. Qed.

(** data written in the proto-compatible mode round-trips in that mode: for
    every struct of C01's fragment (repeated fields, proto maps, Timestamp times
    included) decoding the encoding into a fresh value gives the value back *)
Theorem C12_roundtrip_partial : forall nm n fs v,
  rt_ok (CStruct nm n fs) -> wfv (CStruct nm n fs) v -> fits (CStruct nm n fs) v -> canon (CStruct nm n fs) v ->
  unmarshal (CStruct nm n fs) (marshal (CStruct nm n fs) [] v) (zero (CStruct nm n fs)) = Ok v.
Proof.
  intros nm n fs v Hok Hw Hf Hc. unfold unmarshal, marshal. cbn [omit app].
  pose proof (roundtrip_fresh (CStruct nm n fs) v Hok I Hw Hf Hc eq_refl) as H. cbn [wire] in *. rewrite H. reflexivity.
Qed.
Print Assumptions C12_roundtrip_partial.

(** a default-mode instance decodes data written in the repeated-field form to
    the same value: the reading struct may have the default counted-slice codec
    wherever the writing struct had the repeated form ([same_or_default_reads]);
    the result is exactly what the writing mode's own decoder merges in *)
Theorem C12_default_reads_proto_data : forall nm n fs nm' n' fs' vs prior,
  NoDup (map (fun f => f_index f) fs') ->
  Forall (fun f => rt_ok (f_codec f) /\ (0 <= f_index f < 2305843009213693952)%Z
                   /\ (forall g, partner fs' f = Some g -> same_or_default_reads (f_codec f) (f_codec g))) fs ->
  Forall (fun f => (omit (f_codec f) (slot vs (f_slot f)) = true \/ wfv (f_codec f) (slot vs (f_slot f)))
                   /\ fits (f_codec f) (slot vs (f_slot f))) fs ->
  dec (CStruct nm' n' fs') (enc (CStruct nm n fs) (VStruct vs) []) WTLength prior
  = Ok (VStruct (fold_left (evolve_step fs' vs) fs
                   (match prior with VStruct ps => ps | _ => struct_fields (zero (CStruct nm' n' fs')) end)),
        len (enc (CStruct nm n fs) (VStruct vs) [])).
Proof. exact evolution. Qed.
Print Assumptions C12_default_reads_proto_data.

(** the full round trip is false where a repeated field is nested inside
    another (known finding D12) *)
Theorem C12_nested_refuted :
  exists c v, proto_codec c = true /\
    unmarshal c (marshal c [] v) (zero c) <> Ok v /\
    unmarshal c (marshal c [] v) (zero c)
    = Ok (VStruct [VSlice [VSlice [VStr [97]]; VSlice [VStr [98]]; VSlice [VStr [99]]]]).
Proof. exact proto_nested_refuted. Qed.
Print Assumptions C12_nested_refuted.
