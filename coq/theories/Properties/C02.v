(** C02 - Wire format: output is exactly the documented protobuf-like encoding;
    Unmarshal accepts the fields in any order.
    The model's encoder is compared byte for byte with the implementation on
    every run (maps after putting entries in the wire order).  C02_format:
    the encoding of ANY struct (every codec constructor, both modes) is a
    message of the documented format, given as an explicit grammar ([wmsg]:
    tag varint = index << 3 | wire type; 0 varint, 1 eight bytes, 5 four bytes,
    2 length-prefixed bytes, 3 count then length-prefixed items), and consists of
    exactly the fields [simgw] lists, in declaration order, omitted fields
    absent.  The other theorems spell the layouts out per codec and prove the
    any-order decoding for the round-trip fragment. *)
From Coq Require Import Permutation.
From Plenc Require Import Base Varint Wire VarintProofs JsonAny Codec SizeProofs RoundTripBase RoundTrip FormatProofs PbWf WireGrammar.
Open Scope N_scope.

Theorem C02_tag : forall c idx, (0 <= idx < 2305843009213693952)%Z ->
  field_tag c idx = append_varuint (Z.to_N idx * 8 + wire c) /\ pb_varint (Z.to_N idx * 8 + wire c) (field_tag c idx).
Proof. exact format_tag. Qed.
Print Assumptions C02_tag.

Theorem C02_scalars : forall b z x s,
  enc (CInt b) (VInt z) [] = append_varuint (zigzag z) /\
  enc (CUint b) (VInt z) [] = append_varuint (u64 z) /\
  enc (CFlat b) (VInt z) [] = append_varuint (ubits b z) /\
  enc CBool (VBool true) [] = [1] /\ enc CBool (VBool false) [] = [0] /\
  enc CF32 (VF32 x) [] = le_bytes 4 x /\ enc CF64 (VF64 x) [] = le_bytes 8 x /\
  enc CString (VStr s) [] = s /\ enc CBytes (VStr s) [] = s.
Proof. exact format_scalars. Qed.
Print Assumptions C02_scalars.

Theorem C02_length_prefixed : forall c v tag, framed_codec c = true -> tag <> [] ->
  enc c v tag = tag ++ append_varuint (len (enc c v [])) ++ enc c v [].
Proof. exact format_length_prefixed. Qed.
Print Assumptions C02_length_prefixed.

Theorem C02_struct_declaration_order : forall nm n fs vs,
  enc (CStruct nm n fs) (VStruct vs) [] = flat_map (fenc vs) fs.
Proof. exact format_struct. Qed.
Print Assumptions C02_struct_declaration_order.

Theorem C02_omission : forall c,
  match c with
  | CBool | CInt _ | CUint _ | CFlat _ | CF32 | CF64 | CString | CBytes | CTime _ | CPtr _
  | CSliceVar _ | CSliceFix _ | CSliceLen _ | CSliceProto _ | CMap _ _ | CMapProto _ _ => omit c (zero c) = true
  | CStruct _ _ _ => forall v, omit c v = false
  | _ => True
  end.
Proof. exact format_omission. Qed.
Print Assumptions C02_omission.

Theorem C02_packed : forall c l,
  enc (CSliceVar c) (VSlice l) [] = flat_map (fun x => enc c x []) l /\
  enc (CSliceFix c) (VSlice l) [] = flat_map (fun x => enc c x []) l.
Proof. exact format_packed. Qed.
Print Assumptions C02_packed.

Theorem C02_counted : forall c l tag,
  wire (CSliceLen c) = WTSlice /\
  enc (CSliceLen c) (VSlice l) tag
  = tag ++ append_varuint (N.of_nat (length l)) ++ flat_map (fun x => append_varuint (len (enc c x [])) ++ enc c x []) l.
Proof. exact format_counted. Qed.
Print Assumptions C02_counted.

Theorem C02_map : forall kc vc es tag,
  wire (CMap kc vc) = WTSlice /\
  enc (CMap kc vc) (VMap (Some es)) tag
  = tag ++ append_varuint (N.of_nat (length es))
        ++ flat_map (fun e => lenframe ((if omit kc (fst e) then [] else enc kc (fst e) (field_tag kc 1))
                                        ++ (if omit vc (snd e) then [] else enc vc (snd e) (field_tag vc 2)))) es.
Proof. exact format_map. Qed.
Print Assumptions C02_map.

Theorem C02_time : forall s n,
  enc (CTime false) (VTime s n) [] = [8] ++ append_varuint (zigzag s) ++ [16] ++ append_varuint (zigzag n).
Proof. exact format_time. Qed.
Print Assumptions C02_time.

(** conversely, Unmarshal accepts the field encodings in any order *)
Theorem C02_decode_any_order_partial : forall nm n fs l vs prior,
  rt_ok (CStruct nm n fs) -> wfv (CStruct nm n fs) (VStruct vs) -> fits (CStruct nm n fs) (VStruct vs) ->
  Permutation l fs ->
  dec (CStruct nm n fs) (flat_map (fenc vs) l) WTLength prior
  = Ok (merge (CStruct nm n fs) prior (VStruct vs), len (flat_map (fenc vs) l)).
Proof. exact decode_any_order. Qed.
Print Assumptions C02_decode_any_order_partial.

(** the whole output, for every struct whose codecs are not cut off by the
    model's unfolding limit: a well-formed message of the documented format
    with exactly the expected fields *)
Theorem C02_format : forall nm n fs v,
  fmt_ok (CStruct nm n fs) = true -> Forall (fun f => idx_ok (f_index f)) fs ->
  fits (CStruct nm n fs) v ->
  wmsg (enc (CStruct nm n fs) v []) (simgw fs (struct_fields v)).
Proof. exact struct_format. Qed.
Print Assumptions C02_format.

(** ... each field of it *)
Theorem C02_field_format : forall c, fmt_ok c = true -> forall v idx, idx_ok idx -> fits c v ->
  wmsg (enc c v (field_tag c idx)) (fimgw c v idx).
Proof. exact field_format. Qed.
Print Assumptions C02_field_format.

(** the README's example struct: A int `1`, C float64 `2`, D string `3,intern` *)
Example C02_readme :
  enc (CStruct [] 4 [mkfld 0 1 [65] (CInt 64); mkfld 2 2 [67] CF64; mkfld 3 3 [68] CString])
      (VStruct [VInt (-2); VSkip 7; VF64 4607182418800017408; VStr [104; 105]]) []
  = [8; 3;  17; 0;0;0;0;0;0;240;63;  26; 2; 104; 105].
Proof. vm_compute. reflexivity. Qed.

(** non-vacuity of C02_format: a struct with every wire type *)
Example C02_format_ex :
  let c := CStruct [] 5 [mkfld 0 1 [] (CInt 64); mkfld 1 2 [] CF64; mkfld 2 3 [] CF32; mkfld 3 4 [] CString;
                         mkfld 4 5 [] (CMap CString (CSliceLen CString))] in
  fmt_ok c = true /\
  simgw (match c with CStruct _ _ fs => fs | _ => [] end)
        [VInt (-1); VF64 0; VF32 1; VStr [104]; VMap (Some [(VStr [107], VSlice [VStr []; VStr [120]])])]
  = [WF 1 (WVarint [1]); WF 3 (WFixed32 [1; 0; 0; 0]); WF 4 (WBytes [104]);
     WF 5 (WItems [[10; 1; 107; 19; 2; 0; 1; 120]])].
Proof. vm_compute. split; reflexivity. Qed.
