(** C07 - Safe for concurrent use, including concurrent first use of a type.
    PARTIAL: the theorems are about the abstract publication discipline of codec
    construction, for every interleaving of any number of threads; actual data
    races on Go memory and the internals of sync.Map / sync.Pool / sync.Mutex
    are outside the model and are observed by the harness (deterministic
    schedules through an instrumented registry, free-running stress, the race
    detector in the thorough tier). *)
From Plenc Require Import Base Concur ConcurProofs.

(** whatever can be reached from the shared registry is completely built *)
Theorem C07_published_complete : forall steps s p o,
  steps_ok cinit steps s -> In p (published s) -> Reach (heap s) p o -> complete (heap s) o.
Proof. exact published_complete. Qed.
Print Assumptions C07_published_complete.

(** writes only hit objects no published object reaches: a codec is never
    modified once another goroutine could have loaded it *)
Theorem C07_writes_private : forall steps s st s' p o,
  steps_ok cinit steps s -> step_ok s st s' ->
  (exists t o', st = CLink t o o') \/ (exists t, st = CComplete t o) ->
  In p (published s) -> ~ Reach (heap s) p o.
Proof. exact writes_are_private. Qed.
Print Assumptions C07_writes_private.

(** ... and only by the goroutine that allocated them, before completion *)
Theorem C07_writer_is_owner : forall s st s' t o,
  step_ok s st s' ->
  (exists o', st = CLink t o o') \/ st = CComplete t o ->
  exists x, obj s o = Some x /\ ob_owner x = t /\ ob_complete x = false.
Proof. exact writer_is_owner. Qed.
Print Assumptions C07_writer_is_owner.

(** non-vacuity: a recursive codec built privately and then published; the
    same run publishing before completion is refused by the discipline *)
Example C07_ex :
  let good := crun cinit [CAlloc 0; CAlloc 0; CLink 0 1 0; CComplete 0 1; CLink 0 0 1; CComplete 0 0; CPublish 0 0] in
  let bad := crun cinit [CAlloc 0; CAlloc 0; CLink 0 1 0; CComplete 0 1; CPublish 0 1; CLink 0 0 1; CComplete 0 0] in
  published good = [0] /\ published bad = [].
Proof. vm_compute. split; reflexivity. Qed.
