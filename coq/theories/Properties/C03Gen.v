(** C03, tie by translation for the struct codec.  [PlencGen.GenStruct] is
    generated from /repo/plenccodec/struct.go (StructCodec.size, append, Read,
    Size, Append, Omit) by tools/gotrans on every run of this check, on top of
    the translated plenccore ([PlencGen.GenCore]).  Field codecs are values of
    the Codec interface (method tables, [GoMem.gcodec]); the struct behind the
    unsafe.Pointer is a value of the model, [uintptr(ptr)+offset] selects one
    of its slots (GoMem.v states what is trusted there).
    [PlencGen.StructEquiv] (coq/theories/GenProofs/StructEquiv.v, re-checked
    against the generated files) proves that the translated Read loop - tag,
    lookup in fieldsByIndex, Skip of unknown indexes, length prefix and bounds
    check of length-delimited fields, dispatch to the field codec, advance - is
    the model's [struct_loop], for every decoder table and every fieldsByIndex
    that agrees with it; so what C03 proves about the model's loop holds of the
    loop in the source.  Statements only; outside _CoqProject because it
    depends on the generated files. *)
From Plenc Require Import Base Varint Wire GoSem JsonAny Codec SizeProofs DecBase DecProofs GoMem Registry CorrCore RoundTripBase RoundTrip Evolution EvolutionDeep.
From PlencGen Require Import GenCore CoreEquiv GenStruct StructEquiv.
Open Scope N_scope.

(** the Read loop of struct.go is the model's struct loop *)
Theorem C03code_read_is_struct_loop : forall flds byidx tbl data cur wt,
  bytes_ok data -> (Z.of_nat (length data) < 4611686018427387904)%Z ->
  byidx_ok byidx tbl -> Forall (fun e => dsafe (length data) (snd e)) tbl ->
  StructCodec_Read (S (length data)) (mkStructCodec tt flds byidx) data (VStruct cur) wt
  = lift_struct (struct_loop tbl (S (length data)) data 0 cur).
Proof. exact gen_StructCodec_Read. Qed.
Print Assumptions C03code_read_is_struct_loop.

(** ... and, with the model's codecs as field codecs, the model's [dec] for the struct *)
Theorem C03code_read_is_model : forall nm n fs k data vs wt,
  bytes_ok data -> (Z.of_nat (length data) < 4611686018427387904)%Z ->
  Forall (fun f => (f_index f < Z.of_nat k)%Z) fs ->
  okd (S (length data)) (CStruct nm n fs) ->
  StructCodec_Read (S (length data)) (gstruct fs k) data (VStruct vs) wt
  = lift_dec (dec (CStruct nm n fs) data (Z.to_N wt) (VStruct vs)).
Proof. exact gen_StructCodec_Read_model. Qed.
Print Assumptions C03code_read_is_model.

(** fieldsByIndex as BuildStructCodec fills it agrees with the decoder table *)
Theorem C03code_by_index : forall fs k, Forall (fun f => (f_index f < Z.of_nat k)%Z) fs -> byidx_ok (by_index fs k) (tbl_of fs).
Proof. exact by_index_ok. Qed.
Print Assumptions C03code_by_index.

(** C03 on the code as translated: data written for S, read by the translated
    loop of S' - shared indexes receive the written value, removed fields are
    skipped, added fields keep what the target held, the whole input is consumed *)
Theorem C03code_evolution_partial : forall nm n fs nm' n' fs' k vs ps,
  NoDup (map (fun f => f_index f) fs') ->
  Forall (fun f => rt_ok (f_codec f) /\ (0 <= f_index f < 2305843009213693952)%Z
                   /\ (forall g, partner fs' f = Some g -> same_or_default_reads (f_codec f) (f_codec g))) fs ->
  Forall (fun f => (omit (f_codec f) (slot vs (f_slot f)) = true \/ wfv (f_codec f) (slot vs (f_slot f)))
                   /\ fits (f_codec f) (slot vs (f_slot f))) fs ->
  let data := enc (CStruct nm n fs) (VStruct vs) [] in
  bytes_ok data -> (Z.of_nat (length data) < 4611686018427387904)%Z ->
  Forall (fun f => (f_index f < Z.of_nat k)%Z) fs' -> nobottom (CStruct nm' n' fs') = true ->
  StructCodec_Read (S (length data)) (gstruct fs' k) data (VStruct ps) 2
  = Ok (VStruct (fold_left (evolve_step fs' vs) fs ps), Z.of_N (len data)).
Proof.
  intros nm n fs nm' n' fs' k vs ps Hnd Hfs Hvs data Hb Hlen Hk Hnb.
  rewrite (gen_StructCodec_Read_model nm' n' fs' k data ps) by (auto; apply nobottom_okd; exact Hnb).
  change (Z.to_N 2) with Wire.WTLength. unfold data.
  rewrite (evolution nm n fs nm' n' fs' vs (VStruct ps) Hnd Hfs Hvs). reflexivity.
Qed.
Print Assumptions C03code_evolution_partial.

(** the writing side: Size and Append of struct.go are the model's [size] and [enc] *)
Theorem C03code_Size : forall nm n fs k vs tag fuel,
  (Z.of_N (sum_map (fsize vs) fs) < 4611686018427387904)%Z -> (Z.of_nat (length tag) < 4294967296)%Z ->
  StructCodec_Size fuel (gstruct fs k) (VStruct vs) tag = Ok (Z.of_N (size (CStruct nm n fs) (VStruct vs) tag)).
Proof. exact gen_StructCodec_Size. Qed.
Print Assumptions C03code_Size.

Theorem C03code_Append : forall nm n fs k vs tag data fuel,
  fits (CStruct nm n fs) (VStruct vs) -> (len (enc (CStruct nm n fs) (VStruct vs) []) < 4611686018427387904) ->
  (10 <= fuel)%nat ->
  StructCodec_Append fuel (gstruct fs k) data (VStruct vs) tag = Ok (data ++ enc (CStruct nm n fs) (VStruct vs) tag).
Proof. exact gen_StructCodec_Append. Qed.
Print Assumptions C03code_Append.

(** non-vacuity: the translated code run on a concrete struct (a removed field 2 in the data, field 4 and a nested struct present) *)
Example C03code_ex :
  let inner := CStruct [] 1 [mkfld 0 1 [] (CInt 64)] in
  let fs := [mkfld 0 1 [] (CInt 64); mkfld 1 4 [] CString; mkfld 2 7 [] inner] in
  let data := [8; 10; 18; 1; 120; 34; 1; 107; 58; 2; 8; 6] in
  StructCodec_Read (S (length data)) (gstruct fs 8) data (VStruct [VInt 0; VStr [111]; VStruct [VInt 0]]) 2
  = Ok (VStruct [VInt 5; VStr [107]; VStruct [VInt 3]], 12%Z).
Proof. vm_compute. reflexivity. Qed.
