(** C17 - Registrations and options are scoped to their Plenc instance and
    (type, tag) key. *)
From Plenc Require Import Base Varint Wire JsonAny Codec Registry RegistryProofs.
Open Scope N_scope.

(** a codec registered for exactly this (type, tag) is the one used, taking
    precedence over the kind-based defaults *)
Theorem C17_lookup_first : forall C E f t tag c,
  lookup (regs_of C) t tag = Some c -> codec_for C E (S f) t tag = Ok c.
Proof. exact lookup_first. Qed.
Print Assumptions C17_lookup_first.

(** ... wherever the type occurs: pointer targets are looked up with the
    field's option, slice elements and map keys/values with none *)
Theorem C17_position_pointer : forall C E f e tag,
  lookup (regs_of C) (TPtr e) tag = None -> is_map_kind e = false ->
  codec_for C E (S f) (TPtr e) tag = (do sub <- codec_for C E f e tag; Ok (CPtr sub)).
Proof. exact position_pointer. Qed.
Print Assumptions C17_position_pointer.
Theorem C17_position_slice : forall C E f e tag c,
  lookup (regs_of C) (TSlice e) tag = None -> codec_for C E (S f) (TSlice e) tag = Ok c ->
  exists sub, codec_for C E f e [] = Ok sub /\
    (c = CSliceVar sub \/ c = CSliceFix sub \/ c = CSliceLen sub \/ c = CSliceProto sub).
Proof. exact position_slice_elem. Qed.
Print Assumptions C17_position_slice.
Theorem C17_position_map : forall C E f k v tag c,
  lookup (regs_of C) (TMap k v) tag = None -> codec_for C E (S f) (TMap k v) tag = Ok c ->
  exists kc vc, codec_for C E f k [] = Ok kc /\ codec_for C E f v [] = Ok vc /\ (c = CMap kc vc \/ c = CMapProto kc vc).
Proof. exact position_map. Qed.
Print Assumptions C17_position_map.

(** named types without their own registration use the codec of their kind *)
Theorem C17_named_fallback_int : forall C E f id b tag,
  lookup (regs_of C) (TNamed id (TInt b)) tag = None ->
  codec_for C E (S f) (TNamed id (TInt b)) tag = basic C (TInt b) tag.
Proof. exact named_fallback_int. Qed.
Print Assumptions C17_named_fallback_int.
Theorem C17_named_fallback_string : forall C E f id tag,
  lookup (regs_of C) (TNamed id TString) tag = None ->
  codec_for C E (S f) (TNamed id TString) tag = basic C TString tag.
Proof. exact named_fallback_string. Qed.
Print Assumptions C17_named_fallback_string.

(** a registration made on one instance (here: int64 -> flat codec, and the tag
    "zz" for string): it takes precedence over the default for exactly that
    type on that instance, named types of that kind follow it there, and an
    instance without it keeps the default / rejects the tag *)
Theorem C17_instance_registration : forall pt pa wn wj wb E f id,
  let Cc := mkcfg pt pa wn wj wb true in
  let Cd := mkcfg pt pa wn wj wb false in
  codec_for Cc E (S f) (TInt 64) [] = Ok (CFlat 64) /\
  codec_for Cd E (S f) (TInt 64) [] = Ok (CInt 64) /\
  codec_for Cc E (S f) (TNamed id (TInt 64)) [] = Ok (CFlat 64) /\
  codec_for Cd E (S f) (TNamed id (TInt 64)) [] = Ok (CInt 64) /\
  codec_for Cc E (S f) TString s_zz = Ok CString /\
  codec_for Cd E (S f) TString s_zz = Err /\
  codec_for Cc E (S f) (TNamed id TString) s_zz = Ok CString /\
  codec_for Cd E (S f) (TNamed id TString) s_zz = Err.
Proof. intros pt pa wn wj wb E f id. destruct pt, wn, wj, wb; cbv zeta; repeat split; reflexivity. Qed.
Print Assumptions C17_instance_registration.

(** operations on other instances never change what an instance sees *)
Theorem C17_noninterference : forall ops s i,
  nth_error (fold_left iop_step ops s) i
  = nth_error (fold_left iop_step (filter (fun op => Nat.eqb (iop_inst op) i) ops) s) i.
Proof. exact instances_noninterference. Qed.
Print Assumptions C17_noninterference.

Example C17_ex :
  codec_for (mkcfg false false false false true false) [mksdef [] [mkfdef true [84] [49;44;98;113] [] (TExt 0); mkfdef true [85] [50] [] (TExt 0)]] 5 (TStruct 0) []
  = Ok (CStruct [] 2 [mkfld 0 1 [84] CBQ; mkfld 1 2 [85] (CTime false)]).
Proof. vm_compute. reflexivity. Qed.
