(** C14 - The Descriptor mirrors the type definition exactly. *)
From Plenc Require Import Base Varint Wire JsonAny Codec Registry Descriptor DescProofs RegistryWf.
Open Scope N_scope.

(** one element per encoded field, in declaration order, carrying the field's
    plenc index and name; the struct's type name; nothing else *)
Theorem C14_struct_fields : forall nm n fs d, descriptor_of (CStruct nm n fs) = Ok d ->
  d_type d = FTStruct /\ d_typename d = nm /\ d_explicit d = false /\
  map (fun e => (d_index e, d_name e)) (d_elems d) = map (fun f => (f_index f, f_name f)) fs /\
  Forall2 (fun f e => exists d0, descriptor_of (f_codec f) = Ok d0 /\ e = with_field (f_index f) (f_name f) d0) fs (d_elems d).
Proof. exact struct_descriptor_fields. Qed.
Print Assumptions C14_struct_fields.

(** from the Go type definition to the Descriptor: for every struct type plenc
    accepts, the Descriptor carries the struct's type name and, per encoded
    field in declaration order, the index of its plenc tag and its name - the
    json tag's name (up to the first comma) when there is one, otherwise the Go
    field name; unexported fields and fields tagged "-" do not appear
    ([field_specs] reads exactly that off the definition) *)
Theorem C14_mirrors_definition : forall C E f id sd c d,
  lookup (regs_of C) (TStruct id) [] = None ->
  nth_error E (N.to_nat id) = Some sd ->
  codec_for C E (S f) (TStruct id) [] = Ok c -> descriptor_of c = Ok d ->
  d_type d = FTStruct /\ d_typename d = sd_name sd /\
  map (fun e => (d_index e, d_name e)) (d_elems d) = field_specs (sd_fields sd).
Proof. exact struct_descriptor_mirrors_definition. Qed.
Print Assumptions C14_mirrors_definition.

(** the field type matches the wire encoding of the codec, incl. the
    map / timestamp logical types *)
Theorem C14_field_type : forall c d, descriptor_of c = Ok d ->
  match c with
  | CBool => d_type d = FTBool
  | CInt _ => d_type d = FTInt
  | CUint _ => d_type d = FTUint
  | CFlat _ | CBQ => d_type d = FTFlatInt
  | CF32 => d_type d = FTFloat32
  | CF64 => d_type d = FTFloat64
  | CString | CBytes => d_type d = FTString
  | CTime _ => d_type d = FTTime /\ d_logical d = LTTimestamp
  | CStruct _ _ _ => d_type d = FTStruct
  | CSliceVar _ | CSliceFix _ | CSliceLen _ | CSliceProto _ => d_type d = FTSlice /\ length (d_elems d) = 1%nat
  | CMap _ _ | CMapProto _ _ => d_type d = FTSlice /\ d_logical d = LTMap
  | CJMap => d_type d = FTJSONObject
  | CJArr => d_type d = FTJSONArray
  | _ => True
  end.
Proof. exact descriptor_type_of_codec. Qed.
Print Assumptions C14_field_type.

(** the explicit-presence flag is set for exactly the pointer and null codecs *)
Theorem C14_explicit_presence : forall c d, descriptor_of c = Ok d ->
  (d_explicit d = true <-> (exists c', c = CPtr c') \/ (exists c', c = CNull c')).
Proof. exact explicit_presence_iff. Qed.
Print Assumptions C14_explicit_presence.

(** the full statement "a Descriptor exists for every accepted type" is false of
    the code: for a recursive type the Go method never returns (stack
    overflow); known finding D21 *)
Theorem C14_recursive_refuted :
  exists c, (forall d, descriptor_of c <> Ok d) /\ descriptor_of c = Hang "StructCodec.Descriptor recursion".
Proof. exact recursive_descriptor_refuted. Qed.
Print Assumptions C14_recursive_refuted.

Example C14_ex :
  descriptor_of (CStruct [83] 2 [mkfld 0 1 [65] (CPtr (CInt 64)); mkfld 1 7 [98] (CMap CString (CTime false))])
  = Ok (Desc 0 [] FTStruct [83]
         [Desc 1 [65] FTInt [] [] true LTNone;
          Desc 7 [98] FTSlice [] [Desc 0 [] FTStruct (ascii "map_FieldTypeString_FieldTypeTime")
                                    [Desc 1 (ascii "key") FTString [] [] false LTNone;
                                     Desc 2 (ascii "value") FTTime [] [] false LTTimestamp] false LTMapEntry] false LTMap]
         false LTNone).
Proof. vm_compute. reflexivity. Qed.
