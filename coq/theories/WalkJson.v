(** C13, first clause end to end: walking Marshal's output with the type's
    Descriptor into a new JSON outputter yields a document of the JSON grammar
    (JsonGrammar.v) whose derivation is the value's image in the JSON data
    model ([vtree]) - provided the tokens strconv / time print are JSON
    literals ([valid_tok (tok e)]) and strings and names are byte strings. *)
From Plenc Require Import Base Varint Wire JsonAny Codec SizeProofs RoundTripBase RoundTrip
  Descriptor DescProofs Output OutputProofs JsonWalk WalkProofs JsonGrammar.
Open Scope N_scope.

Definition bytes_ok (s : bytes) : Prop := Forall (fun c => c < 256) s.

Fixpoint jok (j : jv) : Prop :=
  match j with
  | JStr s => bytes_ok s
  | JArr l => (fix all (l : list jv) : Prop := match l with [] => True | x :: r => jok x /\ all r end) l
  | JObj l => (fix all (l : list (bytes * jv)) : Prop :=
                 match l with [] => True | kx :: r => (bytes_ok (fst kx) /\ jok (snd kx)) /\ all r end) l
  | _ => True
  end.

(** every string of the value and every field name of the type is a byte string *)
Fixpoint sok (c : codec) (v : val) {struct c} : Prop :=
  match c, v with
  | (CString | CBytes), VStr s => bytes_ok s
  | CPtr c', VPtr (Some p) => sok c' p
  | CNull c', VNull true p => sok c' p
  | CStruct _ _ fs, VStruct vs =>
    (fix all (l : list (fld codec)) : Prop :=
       match l with
       | [] => True
       | f :: r => (bytes_ok (f_name f) /\ sok (f_codec f) (slot vs (f_slot f))) /\ all r
       end) fs
  | (CSliceVar c' | CSliceFix c' | CSliceLen c'), VSlice l => Forall (sok c') l
  | (CJMap | CJArr), VJson _ j => jok j
  | _, _ => True
  end.

Section WalkJson.
  Variable tok : ev -> bytes.
  Variable valid_tok : bytes -> Prop.
  Hypothesis Htok : forall e, valid_tok (tok e).

  Lemma toks_arr l : Forall (toks_ok valid_tok) l -> toks_ok valid_tok (TArr l).
  Proof. induction 1 as [|x r Hx Hr IH]; cbn [toks_ok]; [exact I|split; [exact Hx|exact IH]]. Qed.
  Lemma toks_obj l : Forall (fun kx => bytes_ok (fst kx) /\ toks_ok valid_tok (snd kx)) l -> toks_ok valid_tok (TObj l).
  Proof. induction 1 as [|x r Hx Hr IH]; cbn [toks_ok]; [exact I|split; [exact Hx|exact IH]]. Qed.

  Lemma jtree_toks : forall j, jok j -> toks_ok valid_tok (jtree tok j).
  Proof.
    induction j as [|s|z|b|b|l IH|l IH|s] using jv_ind'; intros Hj; cbn [jtree]; try (cbn [toks_ok]; apply Htok).
    - exact Hj.
    - apply toks_arr. cbn [jok] in Hj. induction IH as [|x r Hx Hr IHr]; cbn [map]; constructor.
      + apply Hx, Hj.
      + apply IHr, Hj.
    - apply toks_obj. cbn [jok] in Hj. induction IH as [|x r Hx Hr IHr]; cbn [map]; constructor.
      + cbn [fst snd]. split; [apply Hj|apply Hx, Hj].
      + apply IHr, Hj.
  Qed.

  Theorem vtree_toks : forall c, walk_ok c -> nomaps c = true -> forall v, wfv c v -> sok c v ->
    toks_ok valid_tok (vtree tok c v).
  Proof.
    induction c as [ |b|b|b| | | | |compat| |c IH|c IH|nm n fs IH|c IH|c IH|c IH|c IH|kc vc IHk IHv|kc vc IHk IHv| | | ]
      using codec_ind'; intros Hok Hnm v Hw Hs; cbn [walk_ok] in Hok; try contradiction; cbn [nomaps] in Hnm; try discriminate Hnm;
      cbn [wfv] in Hw.
    - destruct v; try contradiction; cbn [vtree toks_ok]; apply Htok.
    - destruct v; try contradiction; cbn [vtree toks_ok]; apply Htok.
    - destruct v; try contradiction; cbn [vtree toks_ok]; apply Htok.
    - destruct v; try contradiction; cbn [vtree toks_ok]; apply Htok.
    - destruct v; try contradiction; cbn [vtree toks_ok]; apply Htok.
    - destruct v; try contradiction; cbn [vtree toks_ok]; apply Htok.
    - destruct v; try contradiction. exact Hs.
    - destruct v; try contradiction. exact Hs.
    - destruct v; try contradiction; cbn [vtree toks_ok]; apply Htok.
    - destruct v as [| | | | | | |[|] p| | | | |]; try contradiction. cbn [vtree]. apply IH; assumption.
    - destruct v as [| | | | | |[p|]| | | | | |]; try contradiction. cbn [vtree]. apply IH; assumption.
    - destruct v as [| | | | | | | |vs| | | |]; try contradiction. destruct Hw as [_ Hw]. destruct Hok as [Hall _].
      cbn [vtree]. apply toks_obj. cbn [sok] in Hs.
      induction IH as [|f r Hf Hr IHr]; cbn [flat_map]; [constructor|].
      cbn [forallb] in Hnm. apply andb_true_iff in Hnm. destruct Hnm as [Hn1 Hn2].
      destruct Hall as [(A & _) Hall]. destruct Hw as [Hw1 Hw2]. destruct Hs as [[Hs0 Hs1] Hs2].
      destruct (omit (f_codec f) (slot vs (f_slot f))) eqn:E.
      + cbn [app]. apply IHr; assumption.
      + cbn [app]. constructor; [|apply IHr; assumption]. cbn [fst snd]. split; [exact Hs0|].
        apply Hf; auto. destruct Hw1 as [Ho|Hw1]; [congruence|exact Hw1].
    - destruct v as [| | | | | | | | |l| | |]; try contradiction. destruct Hok as [_ Hokc].
      cbn [vtree]. apply toks_arr. cbn [sok] in Hs. rewrite Forall_forall in *. intros t Ht.
      apply in_map_iff in Ht. destruct Ht as (x & <- & Hx). apply IH; auto.
    - destruct v as [| | | | | | | | |l| | |]; try contradiction.
      assert (Hokc : walk_ok c) by (destruct c; cbn [plain_fixed] in Hok; try contradiction; exact I).
      assert (Hnc : nomaps c = true) by (destruct c; cbn [plain_fixed] in Hok; try contradiction; reflexivity).
      cbn [vtree]. apply toks_arr. cbn [sok] in Hs. rewrite Forall_forall in *. intros t Ht.
      apply in_map_iff in Ht. destruct Ht as (x & <- & Hx). apply IH; auto.
    - destruct v as [| | | | | | | | |l| | |]; try contradiction. destruct Hok as [Hokc _].
      cbn [vtree]. apply toks_arr. cbn [sok] in Hs. rewrite Forall_forall in *. intros t Ht.
      apply in_map_iff in Ht. destruct Ht as (x & <- & Hx). apply IH; auto.
    - destruct v as [| | | | | | | | | | |nm j|]; try contradiction. destruct j; try contradiction.
      cbn [vtree]. apply jtree_toks. exact Hs.
    - destruct v as [| | | | | | | | | | |nm j|]; try contradiction. destruct j; try contradiction.
      cbn [vtree]. apply jtree_toks. exact Hs.
  Qed.

  (** Marshal's output of a struct value, walked with the type's Descriptor into a
      new JSON outputter: consumed exactly, and the text is a JSON document whose
      derivation is the value's image *)
  Theorem walk_output_is_json : forall nm n fs vs d,
    walk_ok (CStruct nm n fs) -> nomaps (CStruct nm n fs) = true -> descriptor_of (CStruct nm n fs) = Ok d ->
    wfv (CStruct nm n fs) (VStruct vs) -> fits (CStruct nm n fs) (VStruct vs) -> wkv (CStruct nm n fs) (VStruct vs) ->
    sok (CStruct nm n fs) (VStruct vs) ->
    let data := enc (CStruct nm n fs) (VStruct vs) [] in
    let w := walk d data in
    w_out w = Ok (len data) /\
    exists text, (do j <- o_run jout_init (map (oop_of tok) (w_ev w)); o_done j) = Ok text /\
                 jdoc valid_tok text (vtree tok (CStruct nm n fs) (VStruct vs)).
  Proof.
    intros nm n fs vs d Hok Hnm Hd Hw Hf Hk Hs data w.
    destruct (walk_renders_struct tok nm n fs vs d Hok Hnm Hd Hw Hf Hk) as [A B]. split; [exact A|].
    exists (render 0 false (vtree tok (CStruct nm n fs) (VStruct vs)) ++ [10]). split; [exact B|].
    pose proof (vtree_toks _ Hok Hnm _ Hw Hs) as Ht.
    exists [], (body 0 (vtree tok (CStruct nm n fs) (VStruct vs))), [10]. rewrite render_body. cbn [indent repeat concat app].
    repeat split; [constructor|apply body_is_json; exact Ht|apply ws_nl].
  Qed.
End WalkJson.
