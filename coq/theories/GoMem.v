(** Vocabulary for the part of plenccodec that works through the [Codec]
    interface and through raw struct memory, as tools/gotrans emits it
    (struct.go: StructCodec.size / append / Read / Size / Append).

    - A value of the interface type [Codec] is a method table ([gcodec]) or nil
      ([None]); calling a method of a nil interface panics ([go_itf]).
    - [unsafe.Pointer] to a value of the struct being encoded or decoded is that
      value ([gval] = the model's [val]).  [unsafe.Pointer(uintptr(p) + off)]
      names the sub-object at offset [off] of the struct at [p]
      ([go_field_get] / [go_field_set]); offsets are the model's slot numbers
      (BuildStructCodec, which computes the real byte offsets with reflect, is
      modelled, not translated).  A method that writes through a pointer
      argument hands the new pointee back with its results.
    - the extra load through fptr for map-typed fields (a dereference at type unsafe.Pointer,
      guarded by [deref]) is the identity: the model does not distinguish a map from
      the word that refers to it.
    Trusted: that this is what the interface dispatch and the pointer
    arithmetic of struct.go mean. *)
From Plenc Require Import Base Varint GoSem.
From Plenc Require Codec.
Open Scope N_scope.

Definition gval := Codec.val.

Record gcodec := mkgcodec {
  gc_Omit : gval -> bool;
  gc_Size : gval -> bytes -> Z;
  gc_Append : nat -> bytes -> gval -> bytes -> res bytes;
  gc_Read : nat -> bytes -> gval -> Z -> res (gval * Z);
  gc_WireType : Z;
  gc_New : gval }.

Definition go_itf {A} (site : string) (x : option A) : res A :=
  match x with Some a => Ok a | None => Panic site end.
Definition go_is_nil {A} (x : option A) : bool :=
  match x with None => true | Some _ => false end.

Definition go_field_get (v : gval) (off : N) : gval :=
  Codec.slot (Codec.struct_fields v) (N.to_nat off).
Definition go_field_set (v : gval) (off : N) (x : gval) : gval :=
  Codec.VStruct (Codec.set_nth (N.to_nat off) x (Codec.struct_fields v)).
Definition go_load_ptr (v : gval) : gval := v.

(** a pointer slot (the field of type *T that a PointerWrapper is handed the
    address of) holds nil or the address of a T: the pointer stored there is an
    [option] of the value it points to.  Storing a pointer overwrites the slot;
    a codec that is handed a loaded pointer works on the pointee (a nil pointer
    there is a [Panic], conservatively: Go would fault only at the first use). *)
Definition go_load_opt (v : gval) : option gval :=
  match v with Codec.VPtr o => o | _ => None end.
Definition go_store_opt (v : gval) (x : gval) : gval := Codec.VPtr (Some x).

(** the backing array of a slice is the [VSlice] of its elements;
    [uintptr(data) + uintptr(i)*EltSize] is the address of element i (an index
    outside the array is a fault here; Go would read or write foreign memory).
    [go_nilptr] is the nil pointer some Size calls pass to a codec that does not
    look at it (the width of a fixed-size element). *)
Definition go_elem (site : string) (data : gval) (i : Z) : res gval :=
  go_nth site (Codec.slice_elems data) i.
Definition go_set_elem (site : string) (data : gval) (i : Z) (x : gval) : res gval :=
  match go_set_nth site (Codec.slice_elems data) i x with
  | Ok l => Ok (Codec.VSlice l) | Err => Err | Panic s => Panic s | Hang s => Hang s | Blowup s => Blowup s
  end.
Definition go_nilptr : gval := Codec.VSkip 0.
(** reflect.typedslicecopy: the first n elements of src over those of dst (n = the smaller of the two lengths) *)
Definition go_copy_elems (dst src : gval) (n : Z) : gval :=
  Codec.VSlice (firstn (Z.to_nat n) (Codec.slice_elems src) ++ skipn (Z.to_nat n) (Codec.slice_elems dst)).
(** reflect.unsafe_NewArray(elemType, n): a new array of n zero elements (the
    element type travels as its zero value); a negative n panics *)
Definition go_new_array (zero : gval) (n : Z) : gval := Codec.VSlice (repeat zero (Z.to_nat n)).
(** a / b on int with a computed divisor: division by zero panics; Go truncates *)
Definition go_sdiv (site : string) (w : N) (a b : Z) : res Z :=
  if (b =? 0)%Z then Panic site else Ok (sdiv w a b).

(** x[a:b] : Go allows b up to cap(x); as for [go_slice_to] the model is
    stricter and panics unless 0 <= a <= b <= len(x) *)
Definition go_slice_both {A} (site : string) (l : list A) (a b : Z) : res (list A) :=
  if ((a <? 0) || (b <? a) || (go_len l <? b))%Z then Panic site
  else Ok (firstn (Z.to_nat (b - a)) (skipn (Z.to_nat a) l)).

(** ** package time
    A [time.Time] travels as (Unix seconds, nanosecond within the second); the
    location is always UTC (every time the codecs build is [.UTC()]), so [UTC]
    is the identity.  Trusted: that these say what the methods of package time
    return (the correspondence samples them: zero time, pre-1970, year > 9999,
    sub-microsecond values).
    - [time.Unix(sec, nsec)] normalises nsec into [0, 1e9) carrying into sec,
      int64 arithmetic wrapping;
    - [time.UnixMicro(usec)] is [Unix(usec/1e6, (usec%1e6)*1e3)]: Go truncates
      where Coq floors, the normalisation of [Unix] makes the results equal;
    - [t.UnixMicro()] is sec*1e6 + nsec/1e3 in int64 arithmetic;
    - the zero [time.Time] is January 1, year 1: Unix second -62135596800. *)
Definition gtime := (Z * Z)%type.
Definition go_time_zero : gtime := (Codec.zero_sec, 0%Z).
Definition go_time_Unix_ (t : gtime) : Z := fst t.
Definition go_time_Nanosecond_ (t : gtime) : Z := snd t.
Definition go_time_IsZero_ (t : gtime) : bool := ((fst t =? Codec.zero_sec) && (snd t =? 0))%Z.
Definition go_time_UnixMicro_ (t : gtime) : Z := s2s 64 (Codec.unix_micro (fst t) (snd t)).
Definition go_time_Unix (sec nsec : Z) : gtime :=
  (Codec.s64z (sec + nsec / 1000000000), (nsec mod 1000000000)%Z).
Definition go_time_UnixMicro (usec : Z) : gtime :=
  go_time_Unix (usec / 1000000) ((usec mod 1000000) * 1000).

(** a package-level variable initialised by a call: its value once the program runs *)
Definition go_init {A} (d : A) (r : res A) : A := match r with Ok a => a | _ => d end.

(** ** the method table of a model codec
    What the translated code is compared with: a field or element codec that
    IS the model's codec [c].  [lift_dec] carries the model's outcome over to
    the types the translated Read methods use. *)
Definition lift_dec (r : res (Codec.val * N)) : res (gval * Z) :=
  match r with
  | Ok (v, n) => Ok (v, Z.of_N n)
  | Err => Err | Panic s => Panic s | Hang s => Hang s | Blowup s => Blowup s
  end.

Definition gcodec_of (c : Codec.codec) : gcodec :=
  mkgcodec (Codec.omit c)
           (fun v tag => Z.of_N (Codec.size c v tag))
           (fun _ data v tag => Ok (data ++ Codec.enc c v tag))
           (fun _ data v wt => lift_dec (Codec.dec c data (Z.to_N wt) v))
           (Z.of_N (Codec.wire c))
           (Codec.zero c).
