(** C15: the JSONOutput state machine equals the structural reference printer
    on every well-nested call tree; escaping is invertible; Reset. *)
From Plenc Require Import Base Output.
Open Scope N_scope.

Section JtInd.
  Variable P : jt -> Prop.
  Hypothesis HS : forall s, P (TScalar s).
  Hypothesis HA : forall l, Forall P l -> P (TArr l).
  Hypothesis HO : forall l, Forall (fun kx => P (snd kx)) l -> P (TObj l).
  Fixpoint jt_ind' (t : jt) : P t :=
    match t with
    | TScalar s => HS s
    | TArr l => HA l ((fix go (l : list jt) : Forall P l :=
                         match l with [] => Forall_nil _ | x :: r => Forall_cons x (jt_ind' x) (go r) end) l)
    | TObj l => HO l ((fix go (l : list (bytes * jt)) : Forall (fun kx => P (snd kx)) l :=
                         match l with [] => Forall_nil _ | kx :: r => Forall_cons kx (jt_ind' (snd kx)) (go r) end) l)
    end.
End JtInd.

Lemma o_run_app : forall a b j, o_run j (a ++ b) = (do j1 <- o_run j a; o_run j1 b).
Proof.
  induction a as [|op a IH]; intros b j; cbn [app o_run bind]; [reflexivity|].
  destruct (o_step j op); cbn [bind]; auto.
Qed.

(** the state after a complete value has been emitted *)
Definition after (j : jout) (text : bytes) : jout :=
  o_punct (mkjout (o_data j ++ text) (o_depth j) false (o_stack j)).

Definition with_comma (x : bytes) : bytes := x ++ [44; 10].

Lemma trim_comma base : trim (base ++ [44; 10]) = base ++ [10].
Proof.
  unfold trim. rewrite rev_app_distr. cbn [rev app].
  change (10 :: rev base) with ([10] ++ rev base). rewrite <- (rev_involutive (base ++ [10])) at 1.
  rewrite rev_app_distr. reflexivity.
Qed.

Lemma trim_open base c : c <> 44 -> trim (base ++ [c; 10]) = base ++ [c; 10].
Proof.
  intros Hc. unfold trim. rewrite rev_app_distr. cbn [rev app].
  destruct (N.eq_dec c 44) as [E|E]; [contradiction|].
  destruct c as [|p]; [reflexivity|].
  repeat (destruct p as [p|p|]; try reflexivity). contradiction.
Qed.

Lemma join_spec : forall items, items <> [] ->
  exists pre, concat (map with_comma items) = pre ++ [44; 10] /\ join_items items = pre ++ [10].
Proof.
  induction items as [|x r IH]; intros Hne; [congruence|].
  destruct r as [|y r'].
  - exists x. cbn. rewrite app_nil_r. split; reflexivity.
  - destruct (IH ltac:(discriminate)) as (pre & E1 & E2).
    exists (x ++ [44; 10] ++ pre). split.
    + cbn [map concat]. cbn [map concat] in E1. rewrite E1. unfold with_comma. rewrite <- !app_assoc. reflexivity.
    + cbn [join_items]. cbn [join_items] in E2. rewrite E2. rewrite <- !app_assoc. reflexivity.
Qed.

(** end() after the children of a container *)
Lemma end_children base c items :
  c <> 44 ->
  (if Nat.ltb (length (base ++ [c; 10] ++ concat (map with_comma items))) 2
   then base ++ [c; 10] ++ concat (map with_comma items)
   else trim (base ++ [c; 10] ++ concat (map with_comma items)))
  = base ++ [c; 10] ++ join_items items.
Proof.
  intros Hc.
  replace (Nat.ltb (length (base ++ [c; 10] ++ concat (map with_comma items))) 2) with false.
  2:{ symmetry. apply Nat.ltb_ge. rewrite !app_length. cbn [length]. lia. }
  destruct items as [|x r].
  - cbn [map concat join_items]. rewrite !app_nil_r. apply trim_open. exact Hc.
  - destruct (join_spec (x :: r) ltac:(discriminate)) as (pre & E1 & E2).
    rewrite E1, E2. rewrite !app_assoc. rewrite trim_comma. reflexivity.
Qed.

Lemma punct_depth j : o_depth (o_punct j) = o_depth j.
Proof. unfold o_punct. destruct (o_stack j) as [|[| |] st]; reflexivity. Qed.
Lemma punct_infield j : o_infield (o_punct j) = o_infield j.
Proof. unfold o_punct. destruct (o_stack j) as [|[| |] st]; reflexivity. Qed.

(** running the children of an array *)
Lemma run_arr_children : forall l j,
  Forall (fun t => forall j, o_run j (ops_of t) = Ok (after j (render (o_depth j) (o_infield j) t))) l ->
  o_infield j = false ->
  o_run (mkjout (o_data j) (o_depth j) false (SValue :: o_stack j)) (flat_map ops_of l)
  = Ok (mkjout (o_data j ++ concat (map with_comma (map (render (o_depth j) false) l)))
               (o_depth j) false (SValue :: o_stack j)).
Proof.
  induction l as [|t l IH]; intros j Hall Hf.
  - cbn. rewrite app_nil_r. reflexivity.
  - inversion Hall as [|? ? Ht Hl]; subst.
    cbn [flat_map]. rewrite o_run_app, Ht. cbn [bind o_depth o_infield o_data o_stack after o_punct].
    specialize (IH (mkjout (o_data j ++ render (o_depth j) false t ++ [44; 10]) (o_depth j) false (o_stack j)) Hl eq_refl).
    cbn [o_data o_depth o_stack] in IH.
    rewrite <- app_assoc. rewrite IH. cbn [map concat]. unfold with_comma at 2.
    rewrite <- !app_assoc. reflexivity.
Qed.

Definition member_text (d : nat) (kx : bytes * jt) : bytes :=
  indent d ++ append_string (fst kx) ++ [58; 32] ++ render d true (snd kx).

Lemma run_obj_children : forall l j,
  Forall (fun kx => forall j, o_run j (ops_of (snd kx)) = Ok (after j (render (o_depth j) (o_infield j) (snd kx)))) l ->
  o_run (mkjout (o_data j) (o_depth j) false (SKey :: o_stack j))
        (flat_map (fun kx => ONameField (fst kx) :: ops_of (snd kx)) l)
  = Ok (mkjout (o_data j ++ concat (map with_comma (map (member_text (o_depth j)) l)))
               (o_depth j) false (SKey :: o_stack j)).
Proof.
  induction l as [|kx l IH]; intros j Hall.
  - cbn. rewrite app_nil_r. reflexivity.
  - inversion Hall as [|? ? Ht Hl]; subst.
    cbn [flat_map]. change (ONameField (fst kx) :: ops_of (snd kx)) with ([ONameField (fst kx)] ++ ops_of (snd kx)).
    rewrite <- app_assoc. cbn [app o_run o_step bind o_prefix o_infield o_data o_depth o_stack o_add o_punct].
    rewrite o_run_app, Ht. cbn [bind o_depth o_infield o_data o_stack after o_punct].
    specialize (IH (mkjout (((o_data j ++ indent (o_depth j)) ++ append_string (fst kx)) ++ [58; 32]
                             ++ render (o_depth j) true (snd kx) ++ [44; 10]) (o_depth j) false (o_stack j)) Hl).
    cbn [o_data o_depth o_stack] in IH.
    rewrite <- !app_assoc in *. rewrite IH. cbn [map concat]. unfold with_comma at 2, member_text at 2.
    rewrite <- !app_assoc. reflexivity.
Qed.

(** the state machine equals the reference printer on every call tree, from
    every state *)
Lemma run_value : forall t j,
  o_run j (ops_of t) = Ok (after j (render (o_depth j) (o_infield j) t)).
Proof.
  induction t as [s|l IH|l IH] using jt_ind'; intros j.
  - cbn [ops_of o_run o_step bind render]. unfold after, o_prefix, o_add.
    destruct (o_infield j); cbn [o_data o_depth o_infield o_stack]; rewrite <- ?app_assoc; reflexivity.
  - cbn [ops_of]. cbn [app o_run o_step bind].
    set (j0 := o_prefix j).
    assert (Hj0 : o_infield j0 = false /\ o_depth j0 = o_depth j /\ o_stack j0 = o_stack j
                  /\ o_data j0 = o_data j ++ (if o_infield j then [] else indent (o_depth j))).
    { unfold j0, o_prefix. destruct (o_infield j); cbn; rewrite ?app_nil_r; auto. }
    destruct Hj0 as (Hf & Hd & Hs & Hdata).
    rewrite o_run_app.
    pose proof (run_arr_children l (mkjout (o_data j0 ++ [91; 10]) (S (o_depth j0)) false (o_stack j0))) as Hc.
    specialize (Hc IH eq_refl).
    cbn [o_data o_depth o_stack o_infield o_add] in Hc |- *. rewrite Hf.
    rewrite Hc.
    cbn [bind o_run o_step o_end o_depth o_stack o_data o_infield].
    rewrite <- app_assoc.
    rewrite (end_children (o_data j0) 91) by lia.
    cbn [bind o_prefix o_infield o_data o_depth o_stack o_add].
    unfold after, o_add. cbn [render o_data o_depth o_stack o_infield]. rewrite Hdata, Hd, Hs. rewrite <- !app_assoc. reflexivity.
  - cbn [ops_of]. cbn [app o_run o_step bind].
    set (j0 := o_prefix j).
    assert (Hj0 : o_infield j0 = false /\ o_depth j0 = o_depth j /\ o_stack j0 = o_stack j
                  /\ o_data j0 = o_data j ++ (if o_infield j then [] else indent (o_depth j))).
    { unfold j0, o_prefix. destruct (o_infield j); cbn; rewrite ?app_nil_r; auto. }
    destruct Hj0 as (Hf & Hd & Hs & Hdata).
    rewrite o_run_app.
    pose proof (run_obj_children l (mkjout (o_data j0 ++ [123; 10]) (S (o_depth j0)) false (o_stack j0))) as Hc.
    specialize (Hc IH).
    cbn [o_data o_depth o_stack o_infield o_add] in Hc |- *. rewrite Hf.
    rewrite Hc.
    cbn [bind o_run o_step o_end o_depth o_stack o_data o_infield].
    rewrite <- app_assoc.
    rewrite (end_children (o_data j0) 123) by lia.
    cbn [bind o_prefix o_infield o_data o_depth o_stack o_add].
    unfold after, o_add. cbn [render o_data o_depth o_stack o_infield]. rewrite Hdata, Hd, Hs. rewrite <- !app_assoc.
    unfold member_text. reflexivity.
Qed.

(** C15: a new outputter fed any call tree and then Done() yields the
    reference rendering followed by a newline *)
Theorem output_render : forall t,
  (do j <- o_run jout_init (ops_of t); o_done j) = Ok (render 0 false t ++ [10]).
Proof.
  intros t. rewrite run_value. cbn. reflexivity.
Qed.

(** C15: after Reset the outputter behaves like a new one *)
Theorem output_reset : forall ops1 ops2 j,
  (exists j1, o_run j ops1 = Ok j1) ->
  o_run j (ops1 ++ [OReset] ++ ops2) = o_run jout_init ops2.
Proof.
  intros ops1 ops2 j [j1 H]. rewrite o_run_app, H. reflexivity.
Qed.

(** ** Escaping *)

(** A reader for the JSON string-literal body that appendString writes: a small
    state machine folded over the characters. *)
Inductive dstate := DNormal | DEsc | DU (k : nat) (acc : N).

Definition unhex (c : N) : option N :=
  if (48 <=? c) && (c <=? 57) then Some (c - 48)
  else if (97 <=? c) && (c <=? 102) then Some (c - 87)
  else None.

(** one character: new state and emitted bytes; None = not a valid literal *)
Definition dstep (st : dstate) (c : N) : option (dstate * bytes) :=
  match st with
  | DNormal =>
    if c =? 92 then Some (DEsc, [])
    else if (c <? 32) || (c =? 34) then None       (* raw control byte or unescaped quote *)
    else Some (DNormal, [c])
  | DEsc =>
    if (c =? 92) || (c =? 34) || (c =? 47) then Some (DNormal, [c])
    else if c =? 110 then Some (DNormal, [10])
    else if c =? 114 then Some (DNormal, [13])
    else if c =? 116 then Some (DNormal, [9])
    else if c =? 98 then Some (DNormal, [8])
    else if c =? 102 then Some (DNormal, [12])
    else if c =? 117 then Some (DU 4 0, [])
    else None
  | DU k acc =>
    match unhex c with
    | None => None
    | Some h =>
      match k with
      | 1%nat => if acc * 16 + h <? 256 then Some (DNormal, [acc * 16 + h]) else None
      | S k' => Some (DU k' (acc * 16 + h), [])
      | O => None
      end
    end
  end.

Fixpoint drun (st : dstate) (cs : bytes) : option (dstate * bytes) :=
  match cs with
  | [] => Some (st, [])
  | c :: r =>
    match dstep st c with
    | None => None
    | Some (st1, o1) =>
      match drun st1 r with
      | None => None
      | Some (st2, o2) => Some (st2, o1 ++ o2)
      end
    end
  end.

Lemma drun_app : forall a b st st1 o1 st2 o2,
  drun st a = Some (st1, o1) -> drun st1 b = Some (st2, o2) ->
  drun st (a ++ b) = Some (st2, o1 ++ o2).
Proof.
  induction a as [|c a IH]; intros b st st1 o1 st2 o2 Ha Hb; cbn [app drun] in *.
  - inversion Ha; subst. exact Hb.
  - destruct (dstep st c) as [[s1 e1]|]; [|discriminate].
    destruct (drun s1 a) as [[s2 e2]|] eqn:E; [|discriminate].
    inversion Ha; subst. rewrite (IH b s1 st1 e2 st2 o2 E Hb). rewrite app_assoc. reflexivity.
Qed.

(** finite sweep over the 256 byte values: the escape of a byte reads back as
    that byte and leaves the reader in its normal state *)
Definition escape_roundtrip (c : N) : bool :=
  match drun DNormal (escape_byte c) with
  | Some (DNormal, [x]) => x =? c
  | _ => false
  end.
Lemma escape_roundtrip_all : forallb escape_roundtrip (map N.of_nat (seq 0 256)) = true.
Proof. vm_compute. reflexivity. Qed.
Lemma escape_roundtrip_byte c : c < 256 -> drun DNormal (escape_byte c) = Some (DNormal, [c]).
Proof.
  intros Hc. pose proof escape_roundtrip_all as H. rewrite forallb_forall in H.
  assert (Hin : In c (map N.of_nat (seq 0 256))).
  { apply in_map_iff. exists (N.to_nat c). split; [lia|]. apply in_seq. lia. }
  specialize (H c Hin). unfold escape_roundtrip in H.
  destruct (drun DNormal (escape_byte c)) as [[[| |] [|x [|y l]]]|]; try discriminate.
  apply N.eqb_eq in H. subst. reflexivity.
Qed.

(** C15: every byte string (any bytes at all, valid UTF-8 or not) is written as
    a string literal without raw control bytes or bare quotes, which reads
    back to exactly the original bytes *)
Theorem escape_inverse : forall s, Forall (fun c => c < 256) s ->
  drun DNormal (flat_map escape_byte s) = Some (DNormal, s).
Proof.
  induction 1 as [|c s Hc Hs IH]; [reflexivity|].
  cbn [flat_map]. change (c :: s) with ([c] ++ s).
  eapply drun_app; [apply escape_roundtrip_byte; exact Hc|exact IH].
Qed.
