(** Model of InternedStringCodec (plenccodec/string.go): a copy-on-write table
    published through an atomic pointer, writers serialised by a mutex.
    Threads run Read(data) for each of their inputs; every atomic action is one
    step; a schedule is a list of thread ids. *)
From Plenc Require Import Base.
Open Scope N_scope.

Fixpoint beq (a b : bytes) : bool :=
  match a, b with [], [] => true | x :: a', y :: b' => (x =? y) && beq a' b' | _, _ => false end.

(** a table maps a key (the bytes looked up) to the content of the stored string *)
Definition tbl := list (bytes * bytes).
Fixpoint tlookup (k : bytes) (t : tbl) : option bytes :=
  match t with [] => None | (k', c) :: r => if beq k k' then Some c else tlookup k r end.

Inductive ipc :=
| PLoad            (* p := atomic.LoadPointer(&c.strings) *)
| PLookup          (* s, ok := m[string(data)] *)
| PLock            (* c.Lock() *)
| PLoad2           (* p := atomic.LoadPointer(&c.strings), under the lock *)
| PLookup2
| PInsert          (* copy the map, add string(data), atomic.StorePointer *)
| PUnlock
| PIdle.

Record ithread := mkith {
  t_pc : ipc;
  t_todo : list bytes;      (* inputs still to be read; the head is the current one *)
  t_snap : tbl;             (* the table version this thread loaded *)
  t_pending : option bytes; (* result found under the lock, returned after Unlock *)
  t_results : list bytes }. (* contents of the strings returned so far *)

Record istate := mkist {
  i_cur : tbl;              (* the published table *)
  i_lock : option nat;
  i_threads : list ithread;
  i_history : list tbl }.   (* every version ever published, newest first *)

Definition set_thread (i : nat) (t : ithread) (ts : list ithread) : list ithread :=
  (fix go (i : nat) (ts : list ithread) :=
     match ts, i with
     | [], _ => []
     | _ :: r, O => t :: r
     | x :: r, S i' => x :: go i' r
     end) i ts.

Definition finish (t : ithread) (c : bytes) : ithread :=
  mkith (match tl (t_todo t) with [] => PIdle | _ => PLoad end) (tl (t_todo t)) [] None (t_results t ++ [c]).

(** one atomic step of thread [i]; a blocked or idle thread does nothing *)
Definition istep (s : istate) (i : nat) : istate :=
  match nth_error (i_threads s) i with
  | None => s
  | Some t =>
    let upd t' := mkist (i_cur s) (i_lock s) (set_thread i t' (i_threads s)) (i_history s) in
    match t_todo t with
    | [] => s
    | data :: _ =>
      match t_pc t with
      | PIdle => s
      | PLoad => upd (mkith PLookup (t_todo t) (i_cur s) None (t_results t))
      | PLookup =>
        match tlookup data (t_snap t) with
        | Some c => upd (finish t c)
        | None => upd (mkith PLock (t_todo t) (t_snap t) None (t_results t))
        end
      | PLock =>
        match i_lock s with
        | None => mkist (i_cur s) (Some i) (set_thread i (mkith PLoad2 (t_todo t) (t_snap t) None (t_results t)) (i_threads s)) (i_history s)
        | Some _ => s
        end
      | PLoad2 => upd (mkith PLookup2 (t_todo t) (i_cur s) None (t_results t))
      | PLookup2 =>
        match tlookup data (t_snap t) with
        | Some c => upd (mkith PUnlock (t_todo t) (t_snap t) (Some c) (t_results t))
        | None => upd (mkith PInsert (t_todo t) (t_snap t) None (t_results t))
        end
      | PInsert =>
        (* m2 := copy of the loaded map plus s = string(data); StorePointer(m2) *)
        let m2 := t_snap t ++ [(data, data)] in
        mkist m2 (i_lock s) (set_thread i (mkith PUnlock (t_todo t) (t_snap t) (Some data) (t_results t)) (i_threads s))
              (m2 :: i_history s)
      | PUnlock =>
        match t_pending t with
        | Some c => mkist (i_cur s) None (set_thread i (finish t c) (i_threads s)) (i_history s)
        | None => s
        end
      end
    end
  end.

Definition irun (s : istate) (sched : list nat) : istate := fold_left istep sched s.

Definition new_thread (inputs : list bytes) : ithread :=
  mkith (match inputs with [] => PIdle | _ => PLoad end) inputs [] None [].
Definition iinit (inputs : list (list bytes)) : istate :=
  mkist [] None (map new_thread inputs) [[]].

(** sequential use: one thread run to completion *)
Fixpoint seq_sched (n : nat) : list nat := match n with O => [] | S k => 0%nat :: seq_sched k end.
Definition seq_results (inputs : list bytes) : list bytes :=
  match i_threads (irun (iinit [inputs]) (seq_sched (8 * length inputs))) with
  | t :: _ => t_results t
  | [] => []
  end.
