(** C12: in proto-compatible mode the encoding of any struct is well-formed
    standard protobuf wire format.  The format is given as a grammar
    ([pb_msg]): a message is a sequence of fields, each a tag varint
    (index << 3 | wire type) with wire type 0 (varint), 1 (8 bytes), 2 (varint
    length then that many bytes) or 5 (4 bytes) - nothing else.  The theorem
    also says *which* fields appear ([simg]). *)
From Plenc Require Import Base Varint Wire VarintProofs WireProofs JsonAny Codec SizeProofs Registry CorrCore ProtoProofs.
Open Scope N_scope.

(** one parsed field: index, wire type, payload bytes *)
Inductive pbf := PBF (idx : Z) (wt : N) (payload : bytes).

Definition idx_ok (idx : Z) : Prop := (0 <= idx < 2305843009213693952)%Z.

Inductive pb_msg : bytes -> list pbf -> Prop :=
| pbm_nil : pb_msg [] []
| pbm_varint : forall idx u more fs, idx_ok idx -> u < two64 -> pb_msg more fs ->
    pb_msg (append_tag WTVarInt idx ++ append_varuint u ++ more) (PBF idx WTVarInt (append_varuint u) :: fs)
| pbm_fixed64 : forall idx b more fs, idx_ok idx -> len b = 8 -> pb_msg more fs ->
    pb_msg (append_tag WT64 idx ++ b ++ more) (PBF idx WT64 b :: fs)
| pbm_length : forall idx body more fs, idx_ok idx -> len body < two64 -> pb_msg more fs ->
    pb_msg (append_tag WTLength idx ++ append_varuint (len body) ++ body ++ more) (PBF idx WTLength body :: fs)
| pbm_fixed32 : forall idx b more fs, idx_ok idx -> len b = 4 -> pb_msg more fs ->
    pb_msg (append_tag WT32 idx ++ b ++ more) (PBF idx WT32 b :: fs).

Lemma pb_msg_app : forall a fa, pb_msg a fa -> forall b fb, pb_msg b fb -> pb_msg (a ++ b) (fa ++ fb).
Proof.
  induction 1 as [|idx u more fs Hi Hu Hm IH|idx bb more fs Hi Hl Hm IH|idx body more fs Hi Hl Hm IH|idx bb more fs Hi Hl Hm IH];
    intros b fb Hb; cbn [app].
  - exact Hb.
  - rewrite <- !app_assoc. apply pbm_varint; auto.
  - rewrite <- !app_assoc. apply pbm_fixed64; auto.
  - rewrite <- !app_assoc. apply pbm_length; auto.
  - rewrite <- !app_assoc. apply pbm_fixed32; auto.
Qed.

Lemma pb_msg_concat {A} (h : A -> bytes) (g : A -> list pbf) (l : list A) :
  Forall (fun x => pb_msg (h x) (g x)) l -> pb_msg (flat_map h l) (flat_map g l).
Proof.
  induction 1 as [|x l Hx Hl IH]; cbn [flat_map]; [constructor|]. apply pb_msg_app; assumption.
Qed.

(** the fields one struct field contributes *)
Fixpoint fimg (c : codec) (v : val) (idx : Z) {struct c} : list pbf :=
  match c with
  | CPtr c' => match v with VPtr (Some p) => fimg c' p idx | _ => [] end
  | CNull c' => fimg c' (match v with VNull _ p => p | _ => zero c' end) idx
  | CSliceProto c' => flat_map (fun x => fimg c' x idx) (slice_elems v)
  | CMapProto kc vc => map (fun e => PBF idx WTLength (entry_body kc vc e)) (map_entries_of v)
  | _ => [PBF idx (wire c) (enc c v [])]
  end.

Lemma time_body_len compat s n : len (time_body compat s n) < two64.
Proof.
  unfold time_body. destruct compat; rewrite !len_app, !len_cons, !len_nil.
  - pose proof (append_varuint_length_bounds (u64 s)). pose proof (append_varuint_length_bounds (ubits 32 n)). unfold two64. lia.
  - unfold append_varint. pose proof (append_varuint_length_bounds (zigzag s)). pose proof (append_varuint_length_bounds (zigzag n)). unfold two64. lia.
Qed.

Lemma append_tag_ne wt idx : append_tag wt idx <> [].
Proof.
  unfold append_tag. pose proof (append_varuint_length_bounds (tag_value wt idx)) as H.
  destruct (append_varuint (tag_value wt idx)); [rewrite len_nil in H; lia|discriminate].
Qed.

(** proto-mode codecs as CodecForType builds them: the repeated form is only
    used for length-delimited elements *)
Fixpoint pb_ok (c : codec) : bool :=
  match c with
  | CBool | CInt _ | CUint _ | CFlat _ | CF32 | CF64 | CString | CBytes | CBQ => true
  | CTime compat => compat
  | CNull c' | CPtr c' => pb_ok c'
  | CStruct _ _ fs => forallb (fun f => pb_ok (f_codec f)) fs
  | CSliceVar c' | CSliceFix c' => pb_ok c'
  | CSliceProto c' => pb_ok c' && (wire c' =? WTLength)
  | CMapProto k v => pb_ok k && pb_ok v
  | CSliceLen _ | CMap _ _ | CJMap | CJArr | CBottom => false
  end.

Lemma flat_map_single {A B} (f : A -> B) (l : list A) : flat_map (fun x => [f x]) l = map f l.
Proof. induction l as [|x l IH]; cbn [flat_map map app]; [reflexivity|]. rewrite IH. reflexivity. Qed.

(** one tagged field is a well-formed run of protobuf fields *)
Theorem field_pb : forall c, pb_ok c = true -> forall v idx, idx_ok idx -> fits c v ->
  pb_msg (enc c v (field_tag c idx)) (fimg c v idx).
Proof.
  induction c as [ |b|b|b| | | | |compat| |c IH|c IH|nm n fs IH|c IH|c IH|c IH|c IH|kc vc IHk IHv|kc vc IHk IHv| | | ]
    using codec_ind'; intros Hp v idx Hi Hf; cbn [pb_ok] in Hp; try discriminate Hp;
    unfold field_tag; cbn [wire fimg].
  - (* bool *) cbn [enc app]. rewrite <- (app_nil_r (append_varuint _)) at 1.
    apply pbm_varint; [exact Hi| |constructor]. destruct v as [[|]| | | | | | | | | | | |]; unfold two64; lia.
  - (* int *) cbn [enc app]. unfold append_varint. rewrite <- (app_nil_r (append_varuint _)) at 1.
    apply pbm_varint; [exact Hi| |constructor]. cbn [fits] in Hf.
    destruct v; try (apply zigzag_range; unfold int64_ok, two63Z; lia). apply zigzag_range. exact Hf.
  - (* uint *) cbn [enc app]. rewrite <- (app_nil_r (append_varuint _)) at 1.
    apply pbm_varint; [exact Hi| |constructor]. destruct v; try (unfold two64; lia). apply u64_lt.
  - (* flat *) cbn [enc app]. rewrite <- (app_nil_r (append_varuint _)) at 1.
    apply pbm_varint; [exact Hi| |constructor]. cbn [fits] in Hf. destruct v; try (unfold two64; lia). apply ubits_lt. exact Hf.
  - (* float32 *) cbn [enc app]. rewrite <- (app_nil_r (le_bytes 4 _)) at 1.
    apply pbm_fixed32; [exact Hi|apply len_le_bytes|constructor].
  - (* float64 *) cbn [enc app]. rewrite <- (app_nil_r (le_bytes 8 _)) at 1.
    apply pbm_fixed64; [exact Hi|apply len_le_bytes|constructor].
  - (* string *) rewrite frame_shape by (reflexivity || apply append_tag_ne).
    rewrite <- (app_nil_r (enc CString v [])) at 2. apply pbm_length; [exact Hi| |constructor].
    cbn [enc frame_tag]. exact Hf.
  - (* bytes *) rewrite frame_shape by (reflexivity || apply append_tag_ne).
    rewrite <- (app_nil_r (enc CBytes v [])) at 2. apply pbm_length; [exact Hi| |constructor].
    cbn [enc frame_tag]. exact Hf.
  - (* time, Timestamp form *) rewrite frame_shape by (reflexivity || apply append_tag_ne).
    rewrite <- (app_nil_r (enc (CTime compat) v [])) at 2. apply pbm_length; [exact Hi| |constructor].
    cbn [enc frame_tag]. destruct v; apply time_body_len.
  - (* BQ timestamp *) cbn [enc app]. rewrite <- (app_nil_r (append_varuint _)) at 1.
    apply pbm_varint; [exact Hi| |constructor]. destruct v; try (unfold two64; lia). apply u64_lt.
  - (* null *) cbn [enc]. apply (IH Hp _ idx Hi). exact Hf.
  - (* pointer *) cbn [enc]. destruct v as [| | | | | |[p|]| | | | | |]; try constructor. apply (IH Hp p idx Hi). exact Hf.
  - (* struct *) rewrite frame_shape by (reflexivity || apply append_tag_ne).
    rewrite <- (app_nil_r (enc (CStruct nm n fs) v [])) at 2. apply pbm_length; [exact Hi| |constructor].
    apply Hf.
  - (* packed varints *) rewrite frame_shape by (reflexivity || apply append_tag_ne).
    rewrite <- (app_nil_r (enc (CSliceVar c) v [])) at 2. apply pbm_length; [exact Hi| |constructor].
    apply Hf.
  - (* packed fixed *) rewrite frame_shape by (reflexivity || apply append_tag_ne).
    rewrite <- (app_nil_r (enc (CSliceFix c) v [])) at 2. apply pbm_length; [exact Hi| |constructor].
    apply Hf.
  - (* repeated field: one frame per element *) cbn [enc].
    apply (pb_msg_concat (fun x => enc c x (append_tag WTLength idx)) (fun x => fimg c x idx)).
    apply andb_true_iff in Hp. destruct Hp as [Hp Hw]. apply N.eqb_eq in Hw.
    cbn [fits] in Hf. rewrite Forall_forall in *. intros x Hx.
    specialize (IH Hp x idx Hi (Hf x Hx)). unfold field_tag in IH. rewrite Hw in IH. exact IH.
  - (* map: one entry message per entry *) cbn [enc].
    destruct Hf as [_ Hf]. rewrite <- flat_map_single.
    replace (match v with VMap (Some es) => es | _ => [] end) with (map_entries_of v) by (destruct v as [| | | | | | | | | |[es|]| |]; reflexivity).
    apply (pb_msg_concat (fun e => append_tag WTLength idx ++ lenframe (entry_body kc vc e))
                         (fun e => [PBF idx WTLength (entry_body kc vc e)])).
    rewrite Forall_forall in *. intros e He. destruct (Hf e He) as (_ & _ & Hl).
    unfold lenframe. rewrite <- (app_nil_r (entry_body kc vc e)) at 2.
    apply pbm_length; [exact Hi|exact Hl|constructor].
Qed.

(** ** a whole struct *)
Definition simg (fs : list (fld codec)) (vs : list val) : list pbf :=
  flat_map (fun f => if omit (f_codec f) (slot vs (f_slot f)) then []
                     else fimg (f_codec f) (slot vs (f_slot f)) (f_index f)) fs.

(** C12: the encoding of any proto-mode struct is a well-formed protobuf
    message consisting of exactly the fields [simg] lists: wire types 0, 1, 2, 5
    only, every length exact, repeated fields one frame per element, map
    entries one message per entry, scalar slices packed *)
Theorem struct_pb : forall nm n fs v,
  pb_ok (CStruct nm n fs) = true -> Forall (fun f => idx_ok (f_index f)) fs ->
  fits (CStruct nm n fs) v ->
  pb_msg (enc (CStruct nm n fs) v []) (simg fs (struct_fields v)).
Proof.
  intros nm n fs v Hp Hi Hf. cbn [enc frame_tag]. unfold simg.
  apply (pb_msg_concat
           (fun f => let fv := slot (struct_fields v) (f_slot f) in
                     if omit (f_codec f) fv then [] else enc (f_codec f) fv (field_tag (f_codec f) (f_index f)))
           (fun f => if omit (f_codec f) (slot (struct_fields v) (f_slot f)) then []
                     else fimg (f_codec f) (slot (struct_fields v) (f_slot f)) (f_index f))).
  cbn [pb_ok] in Hp. rewrite forallb_forall in Hp. apply fits_struct_fields in Hf.
  rewrite Forall_forall in *. intros f Hin. cbv zeta.
  destruct (omit (f_codec f) (slot (struct_fields v) (f_slot f))); [constructor|].
  apply field_pb; [apply Hp; exact Hin|apply Hi; exact Hin|apply Hf; exact Hin].
Qed.

(** ** a reader for the standard wire format accepts what the grammar generates *)
Fixpoint pb_parse (fuel : nat) (data : bytes) : option (list pbf) :=
  match data with
  | [] => Some []
  | _ =>
    match fuel with
    | O => None
    | S f =>
      let '(wt, idx, n) := read_tag data in
      if (n <=? 0)%Z then None else
      let rest := skipn (Z.to_nat n) data in
      if wt =? WTVarInt then
        let '(_, k) := read_varuint rest in
        if (k <=? 0)%Z then None else
        option_map (cons (PBF idx WTVarInt (firstn (Z.to_nat k) rest))) (pb_parse f (skipn (Z.to_nat k) rest))
      else if wt =? WT64 then
        if len rest <? 8 then None else
        option_map (cons (PBF idx WT64 (firstn 8 rest))) (pb_parse f (skipn 8 rest))
      else if wt =? WT32 then
        if len rest <? 4 then None else
        option_map (cons (PBF idx WT32 (firstn 4 rest))) (pb_parse f (skipn 4 rest))
      else if wt =? WTLength then
        let '(l, k) := read_varuint rest in
        if (k <=? 0)%Z then None else
        let r2 := skipn (Z.to_nat k) rest in
        if len r2 <? l then None else
        option_map (cons (PBF idx WTLength (firstn (N.to_nat l) r2))) (pb_parse f (skipn (N.to_nat l) r2))
      else None   (* groups (3, 4) and the unassigned types: not standard *)
    end
  end.

Lemma skipn_len_app (a b : bytes) : skipn (N.to_nat (len a)) (a ++ b) = b.
Proof. unfold len. rewrite Nat2N.id, skipn_app, skipn_all, Nat.sub_diag. reflexivity. Qed.
Lemma firstn_len_app (a b : bytes) : firstn (N.to_nat (len a)) (a ++ b) = a.
Proof. unfold len. rewrite Nat2N.id, firstn_app, firstn_all, Nat.sub_diag. cbn [firstn]. apply app_nil_r. Qed.
Lemma skipn_Zlen_app (a b : bytes) : skipn (Z.to_nat (Z.of_N (len a))) (a ++ b) = b.
Proof. replace (Z.to_nat (Z.of_N (len a))) with (N.to_nat (len a)) by lia. apply skipn_len_app. Qed.
Lemma firstn_Zlen_app (a b : bytes) : firstn (Z.to_nat (Z.of_N (len a))) (a ++ b) = a.
Proof. replace (Z.to_nat (Z.of_N (len a))) with (N.to_nat (len a)) by lia. apply firstn_len_app. Qed.

Lemma wt_lt8 : WTVarInt < 8 /\ WT64 < 8 /\ WTLength < 8 /\ WT32 < 8.
Proof. unfold WTVarInt, WT64, WTLength, WT32. lia. Qed.

Theorem pb_parse_accepts : forall data fs, pb_msg data fs ->
  forall fuel, (length data < fuel)%nat -> pb_parse fuel data = Some fs.
Proof.
  induction 1 as [|idx u more fs Hi Hu Hm IH|idx bb more fs Hi Hl Hm IH|idx body more fs Hi Hl Hm IH|idx bb more fs Hi Hl Hm IH];
    intros fuel Hfuel.
  - destruct fuel; reflexivity.
  - destruct fuel as [|f]; [lia|].
    pose proof (append_tag_ne WTVarInt idx) as Hne.
    destruct (append_tag WTVarInt idx ++ append_varuint u ++ more) as [|b0 r0] eqn:E.
    { destruct (append_tag WTVarInt idx); [congruence|discriminate E]. }
    cbn [pb_parse]. rewrite <- E.
    rewrite read_append_tag by (try exact Hi; apply wt_lt8). cbv beta iota.
    pose proof (append_varuint_length_bounds (tag_value WTVarInt idx)) as Hb. fold (append_tag WTVarInt idx) in Hb.
    replace (Z.of_N (len (append_tag WTVarInt idx)) <=? 0)%Z with false by (symmetry; apply Z.leb_gt; lia).
    rewrite skipn_Zlen_app. cbn [N.eqb WTVarInt].
    rewrite read_append_varuint by exact Hu. cbv beta iota.
    pose proof (append_varuint_length_bounds u) as Hb2.
    replace (Z.of_N (len (append_varuint u)) <=? 0)%Z with false by (symmetry; apply Z.leb_gt; lia).
    rewrite skipn_Zlen_app, firstn_Zlen_app. rewrite IH; [reflexivity|].
    rewrite <- E in Hfuel. rewrite !app_length in Hfuel. unfold len in *. lia.
  - destruct fuel as [|f]; [lia|].
    pose proof (append_tag_ne WT64 idx) as Hne.
    destruct (append_tag WT64 idx ++ bb ++ more) as [|b0 r0] eqn:E.
    { destruct (append_tag WT64 idx); [congruence|discriminate E]. }
    cbn [pb_parse]. rewrite <- E.
    rewrite read_append_tag by (try exact Hi; apply wt_lt8). cbv beta iota.
    pose proof (append_varuint_length_bounds (tag_value WT64 idx)) as Hb. fold (append_tag WT64 idx) in Hb.
    replace (Z.of_N (len (append_tag WT64 idx)) <=? 0)%Z with false by (symmetry; apply Z.leb_gt; lia).
    rewrite skipn_Zlen_app. change (WT64 =? WTVarInt) with false. change (WT64 =? WT64) with true. cbv iota.
    rewrite len_app, Hl. replace (8 + len more <? 8) with false by (symmetry; apply N.ltb_ge; lia).
    replace 8%nat with (N.to_nat (len bb)) by (rewrite Hl; reflexivity).
    rewrite skipn_len_app, firstn_len_app. rewrite IH; [reflexivity|].
    rewrite <- E in Hfuel. rewrite !app_length in Hfuel. unfold len in *. lia.
  - destruct fuel as [|f]; [lia|].
    pose proof (append_tag_ne WTLength idx) as Hne.
    destruct (append_tag WTLength idx ++ append_varuint (len body) ++ body ++ more) as [|b0 r0] eqn:E.
    { destruct (append_tag WTLength idx); [congruence|discriminate E]. }
    cbn [pb_parse]. rewrite <- E.
    rewrite read_append_tag by (try exact Hi; apply wt_lt8). cbv beta iota.
    pose proof (append_varuint_length_bounds (tag_value WTLength idx)) as Hb. fold (append_tag WTLength idx) in Hb.
    replace (Z.of_N (len (append_tag WTLength idx)) <=? 0)%Z with false by (symmetry; apply Z.leb_gt; lia).
    rewrite skipn_Zlen_app. change (WTLength =? WTVarInt) with false. change (WTLength =? WT64) with false.
    change (WTLength =? WT32) with false. change (WTLength =? WTLength) with true. cbv iota.
    rewrite read_append_varuint by exact Hl. cbv beta iota.
    pose proof (append_varuint_length_bounds (len body)) as Hb2.
    replace (Z.of_N (len (append_varuint (len body))) <=? 0)%Z with false by (symmetry; apply Z.leb_gt; lia).
    rewrite skipn_Zlen_app. cbv zeta.
    rewrite len_app. replace (len body + len more <? len body) with false by (symmetry; apply N.ltb_ge; lia).
    rewrite skipn_len_app, firstn_len_app. rewrite IH; [reflexivity|].
    rewrite <- E in Hfuel. rewrite !app_length in Hfuel. unfold len in *. lia.
  - destruct fuel as [|f]; [lia|].
    pose proof (append_tag_ne WT32 idx) as Hne.
    destruct (append_tag WT32 idx ++ bb ++ more) as [|b0 r0] eqn:E.
    { destruct (append_tag WT32 idx); [congruence|discriminate E]. }
    cbn [pb_parse]. rewrite <- E.
    rewrite read_append_tag by (try exact Hi; apply wt_lt8). cbv beta iota.
    pose proof (append_varuint_length_bounds (tag_value WT32 idx)) as Hb. fold (append_tag WT32 idx) in Hb.
    replace (Z.of_N (len (append_tag WT32 idx)) <=? 0)%Z with false by (symmetry; apply Z.leb_gt; lia).
    rewrite skipn_Zlen_app. change (WT32 =? WTVarInt) with false. change (WT32 =? WT64) with false.
    change (WT32 =? WT32) with true. cbv iota.
    rewrite len_app, Hl. replace (4 + len more <? 4) with false by (symmetry; apply N.ltb_ge; lia).
    replace 4%nat with (N.to_nat (len bb)) by (rewrite Hl; reflexivity).
    rewrite skipn_len_app, firstn_len_app. rewrite IH; [reflexivity|].
    rewrite <- E in Hfuel. rewrite !app_length in Hfuel. unfold len in *. lia.
Qed.
