(** The codec tree and its four semantic functions (Omit, Size, Append, Read),
    mirroring plenccodec/{bool,int,float,string,time,struct,wrapper,map}.go and
    null/null.go.

    A Go codec for a recursive type is a cyclic graph; the model uses its finite
    unfolding ([CBottom] at the unfolding limit).  Any finite value, and any
    finite input, only explores a finite prefix of the graph, so an unfolding
    deeper than the value (or than the input length) behaves identically. *)
From Plenc Require Import Base Varint Wire JsonAny.
Open Scope N_scope.

(** ** Values *)

Inductive val :=
| VBool (b : bool)
| VInt (z : Z)                       (* every integer kind, as its mathematical value *)
| VF32 (bits : N) | VF64 (bits : N)  (* IEEE bit patterns *)
| VStr (s : bytes)                   (* string and []byte *)
| VTime (sec nsec : Z)               (* t.Unix(), t.Nanosecond() *)
| VPtr (o : option val)
| VNull (valid : bool) (v : val)     (* null.Int/Bool/Float/String/Time *)
| VStruct (fs : list val)            (* one entry per Go field, encoded or not *)
| VSlice (l : list val)              (* nil and empty are not distinguished *)
| VMap (o : option (list (val * val)))   (* None = nil map *)
| VJson (nilmap : bool) (j : jv)     (* map[string]any / []any under the JSON codecs *)
| VSkip (h : N).                     (* a field plenc does not encode: 0 if it is zero, else a fingerprint *)

(** ** Codec tree *)

Record fld (C : Type) := mkfld {
  f_slot : nat;          (* position among the Go struct's fields *)
  f_index : Z;           (* plenc index *)
  f_name : bytes;        (* descriptor name *)
  f_codec : C }.
Arguments mkfld {C}.
Arguments f_slot {C}. Arguments f_index {C}. Arguments f_name {C}. Arguments f_codec {C}.

Inductive codec :=
| CBool
| CInt (b : N)             (* IntCodec[intb], zig-zag *)
| CUint (b : N)            (* UintCodec[uintb] on an unsigned field *)
| CFlat (b : N)            (* FlatIntCodec[uintb] on a signed field *)
| CF32 | CF64
| CString | CBytes
| CTime (compat : bool)    (* TimeCodec / TimeCompatCodec *)
| CBQ                      (* BQTimestampCodec *)
| CNull (c : codec)        (* null.* codecs: omit when invalid, payload under c *)
| CPtr (c : codec)
| CStruct (name : bytes) (nslots : nat) (fs : list (fld codec))
| CSliceVar (c : codec) | CSliceFix (c : codec)
| CSliceLen (c : codec) | CSliceProto (c : codec)
| CMap (k v : codec) | CMapProto (k v : codec)
| CJMap | CJArr
| CBottom.

Definition zero_sec : Z := (-62135596800)%Z.

(** the wire type a codec reports *)
Fixpoint wire (c : codec) : N :=
  match c with
  | CBool | CInt _ | CUint _ | CFlat _ | CBQ => WTVarInt
  | CF64 => WT64
  | CF32 => WT32
  | CString | CBytes | CTime _ | CStruct _ _ _ => WTLength
  | CSliceVar _ | CSliceFix _ | CSliceProto _ | CMapProto _ _ => WTLength
  | CSliceLen _ | CMap _ _ | CJMap | CJArr => WTSlice
  | CNull c | CPtr c => wire c
  | CBottom => WTLength
  end.

(** the zero value a target starts from (what [New()] / a zeroed slot holds) *)
Fixpoint zero (c : codec) : val :=
  match c with
  | CBool => VBool false
  | CInt _ | CUint _ | CFlat _ => VInt 0
  | CF32 => VF32 0 | CF64 => VF64 0
  | CString | CBytes => VStr []
  | CTime _ | CBQ => VTime zero_sec 0
  | CNull c => VNull false (zero c)
  | CPtr _ => VPtr None
  | CStruct _ n fs =>
    VStruct (fold_right (fun f acc => (fix set (i : nat) (l : list val) : list val :=
                                         match l, i with
                                         | [], _ => []
                                         | _ :: r, O => zero (f_codec f) :: r
                                         | x :: r, S i' => x :: set i' r
                                         end) (f_slot f) acc)
                        (repeat (VSkip 0) n) fs)
  | CSliceVar _ | CSliceFix _ | CSliceLen _ | CSliceProto _ => VSlice []
  | CMap _ _ | CMapProto _ _ => VMap None
  | CJMap => VJson true (JObj [])
  | CJArr => VJson false (JArr [])
  | CBottom => VSkip 0
  end.

Definition set_nth (i : nat) (x : val) (l : list val) : list val :=
  (fix set (i : nat) (l : list val) : list val :=
     match l, i with
     | [], _ => []
     | _ :: r, O => x :: r
     | y :: r, S i' => y :: set i' r
     end) i l.

Definition slot (vs : list val) (i : nat) : val := nth i vs (VSkip 0).

Definition struct_fields (v : val) : list val := match v with VStruct vs => vs | _ => [] end.
Definition slice_elems (v : val) : list val := match v with VSlice l => l | _ => [] end.

(** float == 0 : +0 or -0 *)
Definition f32_is_zero (b : N) : bool := (b =? 0) || (b =? 2147483648).
Definition f64_is_zero (b : N) : bool := (b =? 0) || (b =? two63).

(** ** Omit *)
Definition omit (c : codec) (v : val) : bool :=
  match c, v with
  | CBool, VBool b => negb b
  | (CInt _ | CUint _ | CFlat _), VInt z => (z =? 0)%Z
  | CF32, VF32 b => f32_is_zero b
  | CF64, VF64 b => f64_is_zero b
  | (CString | CBytes), VStr s => match s with [] => true | _ => false end
  | (CTime _ | CBQ), VTime s n => (s =? zero_sec)%Z && (n =? 0)%Z
  | CNull _, VNull valid _ => negb valid
  | CPtr _, VPtr o => match o with None => true | Some _ => false end
  | CStruct _ _ _, _ => false
  | (CSliceVar _ | CSliceFix _ | CSliceLen _ | CSliceProto _), VSlice l => match l with [] => true | _ => false end
  | (CMap _ _ | CMapProto _ _), VMap o => match o with None => true | Some _ => false end
  | CJMap, VJson nilmap _ => nilmap
  | CJArr, VJson _ (JArr l) => match l with [] => true | _ => false end
  | _, _ => false
  end.

Definition frame_tag (tag body : bytes) : bytes :=
  match tag with [] => body | _ => tag ++ append_varuint (len body) ++ body end.

Definition unix_micro (sec nsec : Z) : Z := (sec * 1000000 + nsec / 1000)%Z.

Definition time_body (compat : bool) (sec nsec : Z) : bytes :=
  if compat then [8] ++ append_varuint (u64 sec) ++ [16] ++ append_varuint (ubits 32 nsec)
  else [8] ++ append_varint sec ++ [16] ++ append_varint nsec.

Definition field_tag (c : codec) (index : Z) : bytes := append_tag (wire c) index.

(** width of a fixed-width element: Underlying.Size(nil, nil) *)
Fixpoint fixed_width (c : codec) : N :=
  match c with CF64 => 8 | CF32 => 4 | CNull c | CPtr c => fixed_width c | _ => 0 end.

(** ** Append.  [tag = []] is Go's nil tag. *)
Fixpoint enc (c : codec) (v : val) (tag : bytes) {struct c} : bytes :=
  match c with
  | CBool => tag ++ append_varuint (match v with VBool true => 1 | _ => 0 end)
  | CInt _ => tag ++ append_varint (match v with VInt z => z | _ => 0%Z end)
  | CUint _ => tag ++ append_varuint (match v with VInt z => u64 z | _ => 0 end)
  | CFlat b => tag ++ append_varuint (match v with VInt z => ubits b z | _ => 0 end)
  | CF32 => tag ++ le_bytes 4 (match v with VF32 b => b | _ => 0 end)
  | CF64 => tag ++ le_bytes 8 (match v with VF64 b => b | _ => 0 end)
  | CString | CBytes => frame_tag tag (match v with VStr s => s | _ => [] end)
  | CTime compat => frame_tag tag (match v with VTime s n => time_body compat s n | _ => time_body compat zero_sec 0 end)
  | CBQ => tag ++ append_varuint (match v with VTime s n => u64 (unix_micro s n) | _ => 0 end)
  | CNull c' => enc c' (match v with VNull _ p => p | _ => zero c' end) tag
  | CPtr c' => match v with VPtr (Some p) => enc c' p tag | _ => [] end
  | CStruct _ _ fs =>
    frame_tag tag
      (flat_map (fun f =>
         let fv := slot (struct_fields v) (f_slot f) in
         if omit (f_codec f) fv then [] else enc (f_codec f) fv (field_tag (f_codec f) (f_index f))) fs)
  | CSliceVar c' | CSliceFix c' =>
    frame_tag tag (flat_map (fun x => enc c' x []) (slice_elems v))
  | CSliceLen c' =>
    tag ++ append_varuint (N.of_nat (length (slice_elems v)))
        ++ flat_map (fun x => lenframe (enc c' x [])) (slice_elems v)
  | CSliceProto c' => flat_map (fun x => enc c' x tag) (slice_elems v)
  | CMap kc vc =>
    let es := match v with VMap (Some es) => es | _ => [] end in
    tag ++ append_varuint (N.of_nat (length es))
        ++ flat_map (fun e =>
             lenframe ((if omit kc (fst e) then [] else enc kc (fst e) (field_tag kc 1))
                       ++ (if omit vc (snd e) then [] else enc vc (snd e) (field_tag vc 2)))) es
  | CMapProto kc vc =>
    let es := match v with VMap (Some es) => es | _ => [] end in
    flat_map (fun e =>
      tag ++ lenframe ((if omit kc (fst e) then [] else enc kc (fst e) (field_tag kc 1))
                       ++ (if omit vc (snd e) then [] else enc vc (snd e) (field_tag vc 2)))) es
  | CJMap => tag ++ jmap_body (match v with VJson _ (JObj l) => l | _ => [] end)
  | CJArr => tag ++ jarr_body (match v with VJson _ (JArr l) => l | _ => [] end)
  | CBottom => []
  end.

Definition sum_map {A} (f : A -> N) (l : list A) : N := fold_right (fun x acc => f x + acc) 0 l.

Definition frame_size (tag : bytes) (l : N) : N :=
  match tag with [] => l | _ => l + (len tag + size_varuint l) end.

Definition time_size (compat : bool) (sec nsec : Z) : N :=
  if compat then (size_varuint (u64 sec) + 1) + (size_varuint (ubits 32 nsec) + 1)
  else (size_varint sec + 1) + (size_varint nsec + 1).

(** ** Size, following the Go Size methods (not defined as the length of enc) *)
Fixpoint size (c : codec) (v : val) (tag : bytes) {struct c} : N :=
  match c with
  | CBool => 1 + len tag
  | CInt _ => size_varint (match v with VInt z => z | _ => 0%Z end) + len tag
  | CUint _ => size_varuint (match v with VInt z => u64 z | _ => 0 end) + len tag
  | CFlat b => size_varuint (match v with VInt z => ubits b z | _ => 0 end) + len tag
  | CF32 => 4 + len tag
  | CF64 => 8 + len tag
  | CString | CBytes => frame_size tag (len (match v with VStr s => s | _ => [] end))
  | CTime compat => frame_size tag (match v with VTime s n => time_size compat s n | _ => time_size compat zero_sec 0 end)
  | CBQ => size_varuint (match v with VTime s n => u64 (unix_micro s n) | _ => 0 end) + len tag
  | CNull c' => size c' (match v with VNull _ p => p | _ => zero c' end) tag
  | CPtr c' => match v with VPtr (Some p) => size c' p tag | _ => 0 end
  | CStruct _ _ fs =>
    frame_size tag
      (sum_map (fun f =>
         let fv := slot (struct_fields v) (f_slot f) in
         if omit (f_codec f) fv then 0 else size (f_codec f) fv (field_tag (f_codec f) (f_index f))) fs)
  | CSliceVar c' => frame_size tag (sum_map (fun x => size c' x []) (slice_elems v))
  | CSliceFix c' => frame_size tag (fixed_width c' * N.of_nat (length (slice_elems v)))
  | CSliceLen c' =>
    size_varuint (N.of_nat (length (slice_elems v)))
    + sum_map (fun x => let s := size c' x [] in s + size_varuint s) (slice_elems v) + len tag
  | CSliceProto c' => sum_map (fun x => size c' x tag) (slice_elems v)
  | CMap kc vc =>
    let es := match v with VMap (Some es) => es | _ => [] end in
    size_varuint (N.of_nat (length es))
    + sum_map (fun e =>
        let s := (if omit kc (fst e) then 0 else size kc (fst e) (field_tag kc 1))
               + (if omit vc (snd e) then 0 else size vc (snd e) (field_tag vc 2)) in
        size_varuint s + s) es
    + len tag
  | CMapProto kc vc =>
    let es := match v with VMap (Some es) => es | _ => [] end in
    sum_map (fun e =>
        let s := (if omit kc (fst e) then 0 else size kc (fst e) (field_tag kc 1))
               + (if omit vc (snd e) then 0 else size vc (snd e) (field_tag vc 2)) in
        len tag + size_varuint s + s) es
  | CJMap => jmap_size (match v with VJson _ (JObj l) => l | _ => [] end) + len tag
  | CJArr => jarr_size (match v with VJson _ (JArr l) => l | _ => [] end) + len tag
  | CBottom => 0
  end.

(** ** Read *)

Definition decoder := bytes -> N -> val -> res (val * N).

(** time.Unix(sec, nsec).UTC() as (Unix(), Nanosecond()); int64 arithmetic wraps *)
Definition s64z (z : Z) : Z := s64 (u64 z).
Definition time_norm (sec nsec : Z) : val :=
  VTime (s64z (sec + nsec / 1000000000)) (nsec mod 1000000000)%Z.

(** the value stored by the conversion T(i) for the integer codecs *)
Definition store_int (b : N) (i : Z) : Z := if b =? 64 then i else sbits b (u64 i).
Definition store_uint (b : N) (u : N) : Z := Z.of_N (u mod 2 ^ b).
Definition store_flat (b : N) (u : N) : Z := sbits b u.

Definition read_scalar_varuint (data : bytes) (k : N -> val) : res (val * N) :=
  let '(u, n) := read_varuint data in
  if (n <? 0)%Z then Err else Ok (k u, Z.to_N n).

(** TimeCodec.Read / TimeCompatCodec.Read loop *)
Fixpoint time_loop (compat : bool) (fuel : nat) (rest : bytes) (consumed : N) (sec nsec : Z) : res (Z * Z * N) :=
  match rest with
  | [] => Ok (sec, nsec, consumed)
  | _ =>
  match fuel with
  | O => Hang "TimeCodec.Read"
  | S f =>
    let '(wt, index, n) := read_tag rest in
    if (n <=? 0)%Z then Err else
    do rest1 <- go_drop "TimeCodec.Read data[offset:]" (Z.to_N n) rest;
    let c1 := consumed + Z.to_N n in
    if ((index =? 1) || (index =? 2))%Z then
      let '(u, k) := read_varuint rest1 in
      if (k <? 0)%Z then Err else
      do rest2 <- go_drop "TimeCodec.Read data[offset:]" (Z.to_N k) rest1;
      if (index =? 1)%Z
      then time_loop compat f rest2 (c1 + Z.to_N k) (if compat then s64 u else zagzig u) nsec
      else time_loop compat f rest2 (c1 + Z.to_N k) sec (if compat then sbits 32 u else sbits 32 (u64 (zagzig u)))
    else
      do k <- skip rest1 wt;
      do rest2 <- go_drop "TimeCodec.Read data[offset:]" k rest1;
      time_loop compat f rest2 (c1 + k) sec nsec
  end
  end.

(** after a tag: for a length-delimited field read the length and cut the field
    data out; otherwise the field data is everything that remains.
    Returns (field data, data after the length header, header length). *)
Definition read_field_data (site : string) (wt : N) (rest1 : bytes) : res (bytes * bytes * N) :=
  if wt =? WTLength then
    let '(l, k) := read_varuint rest1 in
    if (k <=? 0)%Z then Err else
    do rest2 <- go_drop site (Z.to_N k) rest1;
    if len rest2 <? l then Err else
    do fdata <- go_take site l rest2;
    Ok (fdata, rest2, Z.to_N k)
  else Ok (rest1, rest1, 0).

Definition find_field {D} (tbl : list (Z * nat * D)) (index : Z) : option (nat * D) :=
  match find (fun e => (fst (fst e) =? index)%Z) tbl with
  | Some e => Some (snd (fst e), snd e)
  | None => None
  end.

(** StructCodec.Read loop. [tbl] : (index, slot, field decoder). *)
Fixpoint struct_loop (tbl : list (Z * nat * decoder)) (fuel : nat) (rest : bytes) (consumed : N)
         (cur : list val) : res (list val * N) :=
  match rest with
  | [] => Ok (cur, consumed)
  | _ =>
  match fuel with
  | O => Hang "StructCodec.Read"
  | S f =>
    let '(wt, index, n) := read_tag rest in
    if (n <=? 0)%Z then Err else
    do rest1 <- go_drop "StructCodec.Read data[offset:]" (Z.to_N n) rest;
    let c1 := consumed + Z.to_N n in
    match find_field tbl index with
    | None =>
      do k <- skip rest1 wt;
      do rest2 <- go_drop "StructCodec.Read data[offset:]" k rest1;
      struct_loop tbl f rest2 (c1 + k) cur
    | Some (sl, decf) =>
      do (fdata, rest2, k) <- read_field_data "StructCodec.Read data[offset:fl]" wt rest1;
      do (fv, used) <- decf fdata wt (slot cur sl);
      do rest3 <- go_drop "StructCodec.Read data[offset:]" used rest2;
      struct_loop tbl f rest3 (c1 + k + used) (set_nth sl fv cur)
    end
  end
  end.

(** first pass of WTVarIntSliceWrapper.Read: count the varints *)
Fixpoint count_varints (fuel : nat) (rest : bytes) (count : N) : res N :=
  match rest with
  | [] => Ok count
  | _ =>
  match fuel with
  | O => Hang "WTVarIntSliceWrapper.Read"
  | S f =>
    let '(_, n) := read_varuint rest in
    if (n <=? 0)%Z then Err else
    do rest1 <- go_drop "WTVarIntSliceWrapper.Read data[offset:]" (Z.to_N n) rest;
    count_varints f rest1 (count + 1)
  end
  end.

(** [count] element reads, each on data[offset:] *)
Fixpoint read_elems (decf : decoder) (wt : N) (z : val) (fuel : nat) (count : N) (rest : bytes) (consumed : N)
         (acc : list val) : res (list val * N) :=
  if count =? 0 then Ok (rev acc, consumed) else
  match fuel with
  | O => Hang "slice element loop"
  | S f =>
    do (x, used) <- decf rest wt z;
    do rest1 <- go_drop "SliceWrapper.Read data[offset:]" used rest;
    read_elems decf wt z f (count - 1) rest1 (consumed + used) (x :: acc)
  end.

(** WTLengthSliceWrapper.Read entry loop: length prefix, then the element *)
Fixpoint read_framed_elems (decf : decoder) (z : val) (fuel : nat) (count : N) (rest : bytes) (consumed : N)
         (acc : list val) : res (list val * N) :=
  if count =? 0 then Ok (rev acc, consumed) else
  match fuel with
  | O => Hang "WTLengthSliceWrapper.Read"
  | S f =>
    let '(s, n) := read_varuint rest in
    if (n <=? 0)%Z then Err else
    do rest1 <- go_drop "WTLengthSliceWrapper.Read data[offset:]" (Z.to_N n) rest;
    if len rest1 <? s then Err else
    do edata <- go_take "WTLengthSliceWrapper.Read data[offset:offset+s]" s rest1;
    do (x, used) <- decf edata WTLength z;
    do rest2 <- go_drop "WTLengthSliceWrapper.Read data[offset:]" used rest1;
    read_framed_elems decf z f (count - 1) rest2 (consumed + Z.to_N n + used) (x :: acc)
  end.

(** an allocation of [count] elements is requested: it must be bounded by the
    bytes that remain *)
Definition alloc_guard (site : string) (count : N) (rest : bytes) : res unit :=
  if count <=? len rest then Ok tt else Blowup site.

(** structural equality of values (map keys) *)
Definition opt_eqb {A} (eqb : A -> A -> bool) (a b : option A) : bool :=
  match a, b with Some x, Some y => eqb x y | None, None => true | _, _ => false end.
Fixpoint jv_eqb (a b : jv) {struct a} : bool :=
  match a, b with
  | JNil, JNil => true
  | JStr s, JStr t | JNum s, JNum t =>
    (fix eqb (a b : bytes) := match a, b with [], [] => true | p :: a', q :: b' => (p =? q) && eqb a' b' | _, _ => false end) s t
  | JInt x, JInt y => (x =? y)%Z
  | JFloat x, JFloat y => x =? y
  | JBool x, JBool y => Bool.eqb x y
  | JArr l, JArr m =>
    (fix eqb (l m : list jv) := match l, m with [], [] => true | x :: l', y :: m' => jv_eqb x y && eqb l' m' | _, _ => false end) l m
  | JObj l, JObj m =>
    (fix eqb (l m : list (bytes * jv)) := match l, m with
       | [], [] => true
       | (k, x) :: l', (k', y) :: m' =>
         (fix beqb (a b : bytes) := match a, b with [], [] => true | p :: a', q :: b' => (p =? q) && beqb a' b' | _, _ => false end) k k'
         && jv_eqb x y && eqb l' m'
       | _, _ => false end) l m
  | _, _ => false
  end.
Fixpoint val_eqb (a b : val) {struct a} : bool :=
  match a, b with
  | VBool x, VBool y => Bool.eqb x y
  | VInt x, VInt y => (x =? y)%Z
  | VF32 x, VF32 y | VF64 x, VF64 y | VSkip x, VSkip y => x =? y
  | VStr s, VStr t =>
    (fix eqb (a b : bytes) := match a, b with [], [] => true | p :: a', q :: b' => (p =? q) && eqb a' b' | _, _ => false end) s t
  | VTime s n, VTime s' n' => ((s =? s') && (n =? n'))%Z
  | VPtr o, VPtr o' => match o, o' with Some x, Some y => val_eqb x y | None, None => true | _, _ => false end
  | VNull p x, VNull q y => Bool.eqb p q && val_eqb x y
  | VStruct l, VStruct m | VSlice l, VSlice m =>
    (fix eqb (l m : list val) := match l, m with [], [] => true | x :: l', y :: m' => val_eqb x y && eqb l' m' | _, _ => false end) l m
  | VMap o, VMap o' =>
    match o, o' with
    | Some l, Some m =>
      (fix eqb (l m : list (val * val)) := match l, m with
         | [], [] => true
         | (k, x) :: l', (k', y) :: m' => val_eqb k k' && val_eqb x y && eqb l' m'
         | _, _ => false end) l m
    | None, None => true
    | _, _ => false
    end
  | VJson p x, VJson q y => Bool.eqb p q && jv_eqb x y
  | _, _ => false
  end.

(** Go's == on map keys: structural, except that pointers are compared by
    address - a pointer the decoder has just allocated equals no other pointer
    (nil equals nil).  NaN keys are excluded by the well-formedness predicate. *)
Fixpoint kcmp (a b : val) {struct a} : bool :=
  match a, b with
  | VPtr (Some _), VPtr (Some _) => false
  | VStruct l, VStruct m =>
    (fix eqb (l m : list val) := match l, m with [], [] => true | x :: l', y :: m' => kcmp x y && eqb l' m' | _, _ => false end) l m
  | _, _ => val_eqb a b
  end.

(** runtime mapassign: find the slot of a key *)
Fixpoint map_lookup (k : val) (m : list (val * val)) : option val :=
  match m with
  | [] => None
  | (k', x) :: r => if kcmp k k' then Some x else map_lookup k r
  end.
Fixpoint map_set (k x : val) (m : list (val * val)) : list (val * val) :=
  match m with
  | [] => [(k, x)]
  | (k', y) :: r => if kcmp k k' then (k', x) :: r else (k', y) :: map_set k x r
  end.

(** MapCodec.readTagAndLength *)
Definition read_tag_and_length (rest : bytes) : res (N * Z * bytes * bytes * N) :=
  (* returns (wt, index, field data, data after the tag/length header, header length) *)
  let '(wt, index, n) := read_tag rest in
  if (n <=? 0)%Z then Err else
  do rest1 <- go_drop "MapCodec.readTagAndLength data[offset:]" (Z.to_N n) rest;
  do (fdata, rest2, k) <- read_field_data "MapCodec.readTagAndLength data[offset:fieldEnd]" wt rest1;
  Ok (wt, index, fdata, rest2, Z.to_N n + k).

(** MapCodec.readMapEntry: [data] is exactly the entry *)
Definition read_map_entry (kdec vdec : decoder) (kzero vzero : val) (data : bytes) (m : list (val * val))
  : res (list (val * val) * N) :=
  match data with
  | [] => Ok (map_set kzero vzero m, 0)
  | _ =>
    do (wt, index, fdata, after, hdr) <- read_tag_and_length data;
    if (index =? 1)%Z then
      do (kv, used) <- kdec fdata wt kzero;        (* the scratch key is cleared first *)
      do rest1 <- go_drop "MapCodec.readMapEntry data[offset:]" used after;
      let off1 := hdr + used in
      match rest1 with
      | [] => Ok (map_set kv vzero m, off1)            (* no value: the zero value *)
      | _ =>
        do (wt2, _, fdata2, after2, hdr2) <- read_tag_and_length rest1;
        let prior := match map_lookup kv m with Some x => x | None => vzero end in
        do (vv, used2) <- vdec fdata2 wt2 prior;
        Ok (map_set kv vv m, off1 + hdr2 + used2)
      end
    else
      (* the first field is not the key: it is the value, the key is zero *)
      let prior := match map_lookup kzero m with Some x => x | None => vzero end in
      do (vv, used) <- vdec fdata wt prior;
      Ok (map_set kzero vv m, hdr + used)
  end.

Fixpoint map_entries (kdec vdec : decoder) (kzero vzero : val) (fuel : nat) (count : N) (rest : bytes)
         (consumed : N) (m : list (val * val)) : res (list (val * val) * N) :=
  if count =? 0 then Ok (m, consumed) else
  match fuel with
  | O => Hang "MapCodec.Read"
  | S f =>
    let '(el, n) := read_varuint rest in
    if (n <=? 0)%Z then Err else
    do rest1 <- go_drop "MapCodec.Read data[offset:]" (Z.to_N n) rest;
    if len rest1 <? el then Err else
    do edata <- go_take "MapCodec.Read data[offset:offset+entryLength]" el rest1;
    do (m', used) <- read_map_entry kdec vdec kzero vzero edata m;
    do rest2 <- go_drop "MapCodec.Read data[offset:]" used rest1;
    map_entries kdec vdec kzero vzero f (count - 1) rest2 (consumed + Z.to_N n + used) m'
  end.

(** Read.  [prior] is the value the target holds before the call. *)
Fixpoint dec (c : codec) : decoder :=
  match c with
  | CBool => fun data wt prior => read_scalar_varuint data (fun u => VBool (negb (u =? 0)))
  | CInt b => fun data wt prior => read_scalar_varuint data (fun u => VInt (store_int b (zagzig u)))
  | CUint b => fun data wt prior => read_scalar_varuint data (fun u => VInt (store_uint b u))
  | CFlat b => fun data wt prior => read_scalar_varuint data (fun u => VInt (store_flat b u))
  | CF32 => fun data wt prior =>
    if len data <? 4 then (match data with [] => Ok (VF32 0, 0) | _ => Err end)
    else Ok (VF32 (le_value (firstn 4 data)), 4)
  | CF64 => fun data wt prior =>
    if len data <? 8 then (match data with [] => Ok (VF64 0, 0) | _ => Err end)
    else Ok (VF64 (le_value (firstn 8 data)), 8)
  | CString | CBytes => fun data wt prior => Ok (VStr data, len data)
  | CTime compat => fun data wt prior =>
    match data with
    | [] => Ok (VTime zero_sec 0, 0)
    | _ => do (s, ns, used) <- time_loop compat (S (length data)) data 0 0%Z 0%Z;
           Ok (time_norm s ns, used)
    end
  | CBQ => fun data wt prior =>
    read_scalar_varuint data (fun u =>
      let ts := s64 u in time_norm (ts / 1000000) ((ts mod 1000000) * 1000))
  | CNull c' => fun data wt prior =>
    do (v, used) <- dec c' data wt (zero c');
    Ok (VNull true v, used)
  | CPtr c' => fun data wt prior =>
    let p := match prior with VPtr (Some p) => p | _ => zero c' end in
    do (v, used) <- dec c' data wt p;
    Ok (VPtr (Some v), used)
  | CStruct _ n fs => fun data wt prior =>
    let cur := match prior with VStruct vs => vs | _ => struct_fields (zero c) end in
    do (vs, used) <- struct_loop (map (fun f => (f_index f, f_slot f, dec (f_codec f))) fs)
                                 (S (length data)) data 0 cur;
    Ok (VStruct vs, used)
  | CSliceVar c' => fun data wt prior =>
    do count <- count_varints (S (length data)) data 0;
    do _ <- alloc_guard "WTVarIntSliceWrapper.Read unsafe_NewArray" count data;
    do (l, used) <- read_elems (dec c') WTVarInt (zero c') (S (length data)) count data 0 [];
    Ok (VSlice l, used)
  | CSliceFix c' => fun data wt prior =>
    let w := fixed_width c' in
    if w =? 0 then Panic "WTFixedSliceWrapper.Read division by zero" else
    let count := len data / w in
    do _ <- alloc_guard "WTFixedSliceWrapper.Read unsafe_NewArray" count data;
    do (l, used) <- read_elems (dec c') (wire c') (zero c') (S (length data)) count data 0 [];
    Ok (VSlice l, used)
  | CSliceLen c' => fun data wt prior =>
    if wt =? WTLength then
      do (x, used) <- dec c' data WTLength (zero c');
      Ok (VSlice (slice_elems prior ++ [x]), used)
    else
      let '(count, n) := read_varuint data in
      if (n <? 0)%Z then Err else
      if len data - Z.to_N n <? count then Err else
      do rest <- go_drop "WTLengthSliceWrapper.Read data[offset:]" (Z.to_N n) data;
      do _ <- alloc_guard "WTLengthSliceWrapper.Read unsafe_NewArray" count rest;
      do (l, used) <- read_framed_elems (dec c') (zero c') (S (length data)) count rest (Z.to_N n) [];
      Ok (VSlice l, used)
  | CSliceProto c' => fun data wt prior =>
    do (x, used) <- dec c' data WTLength (zero c');
    Ok (VSlice (slice_elems prior ++ [x]), used)
  | CMap kc vc => fun data wt prior =>
    match data with
    | [] => Ok (prior, 0)
    | _ =>
      let '(count, n) := read_varuint data in
      if (n <=? 0)%Z then Err else
      if len data - Z.to_N n <? count then Err else
      do rest <- go_drop "MapCodec.Read data[offset:]" (Z.to_N n) data;
      do _ <- alloc_guard "MapCodec.Read MakeMapWithSize" count rest;
      let m := match prior with VMap (Some m) => m | _ => [] end in
      do (m', used) <- map_entries (dec kc) (dec vc) (zero kc) (zero vc) (S (length data)) count rest (Z.to_N n) m;
      Ok (VMap (Some m'), used)
    end
  | CMapProto kc vc => fun data wt prior =>
    let m := match prior with VMap (Some m) => m | _ => [] end in
    do (m', used) <- read_map_entry (dec kc) (dec vc) (zero kc) (zero vc) data m;
    Ok (VMap (Some m'), used)
  | CJMap => fun data wt prior =>
    let pm := match prior with VJson false (JObj l) => Some l | _ => None end in
    let '(_, n) := read_varuint data in
    if (n =? 0)%Z then Ok (prior, 0) else
    do (l, used) <- jread_map (jfuel data) data (match pm with Some l => l | None => [] end);
    Ok (VJson false (JObj l), used)
  | CJArr => fun data wt prior =>
    do (l, used) <- jread_arr (jfuel data) data;
    Ok (VJson false (JArr l), used)
  | CBottom => fun data wt prior => Hang "recursive type unfolded too shallowly"
  end.
