(** C03 at any nesting depth: data written for a type S decodes into any S'
    obtained from S by removing / adding / renaming / reordering fields at any
    level - inside nested structs, behind pointers, in slice elements and map
    values.  [evo cw cr] relates the codec that wrote ([cw]) to the codec that
    reads ([cr]); [emerge cw cr prior v] is the value the target then holds. *)
From Plenc Require Import Base Varint Wire VarintProofs WireProofs JsonAny Codec SizeProofs DecBase RoundTripBase
  JsonProofs JsonRoundTrip RoundTrip Evolution.
Open Scope N_scope.

(** a decoder [decf] run on the encodings of codec [cw] computes [res] *)
Definition DecOn (cw : codec) (decf : decoder) (res : val -> val -> val) : Prop :=
  forall v prior, wfv cw v -> fits cw v ->
  (wire cw = WTLength -> decf (enc cw v []) (wire cw) prior = Ok (res prior v, len (enc cw v []))) /\
  (wire cw <> WTLength -> forall rest, decf (enc cw v [] ++ rest) (wire cw) prior = Ok (res prior v, len (enc cw v []))).

Lemma rtc_decon c : RTc c -> DecOn c (dec c) (merge c).
Proof. intros H. exact H. Qed.

(** the struct loop over one field written with [cw], whatever decoder the
    reading table has under that index *)
Lemma gfield_step : forall (tbl : list (Z * nat * decoder)) cw idx sl decf res fv cur more consumed fuel,
  find_field tbl idx = Some (sl, decf) ->
  rt_ok cw -> top_ok cw -> (0 <= idx < 2305843009213693952)%Z ->
  DecOn cw decf res -> wfv cw fv -> fits cw fv ->
  let e := enc cw fv (field_tag cw idx) in
  (length (e ++ more) < fuel)%nat ->
  struct_loop tbl fuel (e ++ more) consumed cur
  = struct_loop tbl fuel more (consumed + len e) (set_nth sl (res (slot cur sl) fv) cur).
Proof.
  intros tbl c idx sl decf res fv cur more consumed fuel Hfind Hok Htop Hidx Hrt Hw Hf e Hfuel.
  set (tg := field_tag c idx) in *.
  destruct (tagged_enc_shape c Hok Htop fv idx Hw Hf) as [ShL ShS]. fold tg in ShL, ShS.
  destruct (Hrt fv (slot cur sl) Hw Hf) as [RtL RtS].
  pose proof (field_tag_nonempty c idx) as Htg. fold tg in Htg.
  destruct fuel as [|fuel']; [lia|].
  assert (Hstep : forall payload, e = tg ++ payload ->
            struct_loop tbl (S fuel') (e ++ more) consumed cur =
            (do (fdata, rest2, k) <- read_field_data "StructCodec.Read data[offset:fl]" (wire c) (payload ++ more);
             do (fv', used) <- decf fdata (wire c) (slot cur sl);
             do rest3 <- go_drop "StructCodec.Read data[offset:]" used rest2;
             struct_loop tbl fuel' rest3 (consumed + len tg + k + used) (set_nth sl fv' cur))).
  { intros payload Ee. rewrite Ee, <- app_assoc.
    rewrite struct_loop_unfold.
    2:{ intros E0. apply (f_equal (@length N)) in E0. rewrite app_length in E0. unfold len in Htg. cbn [length] in E0. lia. }
    unfold tg at 1. rewrite read_tag_field by exact Hidx. fold tg. cbv beta iota.
    replace (Z.of_N (len tg) <=? 0)%Z with false by (symmetry; apply Z.leb_gt; lia).
    rewrite N2Z.id, go_drop_app. cbn [bind].
    rewrite Hfind. reflexivity. }
  destruct (N.eq_dec (wire c) WTLength) as [Hwt|Hwt].
  - destruct (ShL Hwt) as [Ee Hlen]. rewrite (Hstep _ Ee).
    unfold read_field_data. rewrite Hwt. cbn [N.eqb WTLength Pos.eqb].
    rewrite <- app_assoc, read_append_varuint by exact Hlen.
    pose proof (append_varuint_length_bounds (len (enc c fv []))) as Hvb.
    replace (Z.of_N (len (append_varuint (len (enc c fv [])))) <=? 0)%Z with false by (symmetry; apply Z.leb_gt; lia).
    rewrite N2Z.id, go_drop_app. cbn [bind].
    rewrite len_app. replace (len (enc c fv []) + len more <? len (enc c fv [])) with false by (symmetry; apply N.ltb_ge; lia).
    rewrite go_take_app. cbn [bind].
    rewrite <- Hwt at 1. rewrite (RtL Hwt). cbn [bind].
    rewrite go_drop_app. cbn [bind].
    rewrite (struct_loop_fuel tbl fuel' (S fuel')).
    + f_equal. unfold e. rewrite Ee, !len_app. lia.
    + unfold e in Hfuel. rewrite Ee in Hfuel. rewrite !app_length in Hfuel. unfold len in *. lia.
    + unfold e in Hfuel. rewrite Ee in Hfuel. rewrite !app_length in Hfuel. lia.
  - pose proof (ShS Hwt) as Ee. rewrite (Hstep _ Ee).
    unfold read_field_data. replace (wire c =? WTLength) with false by (symmetry; apply N.eqb_neq; exact Hwt).
    cbn [bind]. rewrite (RtS Hwt more). cbn [bind].
    rewrite go_drop_app. cbn [bind].
    rewrite (struct_loop_fuel tbl fuel' (S fuel')).
    + f_equal. unfold e. rewrite Ee, !len_app. lia.
    + unfold e in Hfuel. rewrite Ee in Hfuel. rewrite !app_length in Hfuel. pose proof Htg. unfold len in *. lia.
    + unfold e in Hfuel. rewrite Ee in Hfuel. rewrite !app_length in Hfuel. lia.
Qed.

(** counted slices, elements written with [c] and read by [decf] *)
Lemma g_read_framed_list c decf res z : DecOn c decf res -> wire c = WTLength ->
  forall (l : list val) fuel rest consumed acc,
  Forall (fun x => wfv c x /\ fits c x /\ len (enc c x []) < two64) l ->
  (length l <= fuel)%nat ->
  read_framed_elems decf z fuel (N.of_nat (length l)) (flat_map (fun x => lenframe (enc c x [])) l ++ rest) consumed acc
  = Ok (rev acc ++ map (res z) l, consumed + len (flat_map (fun x => lenframe (enc c x [])) l)).
Proof.
  intros Hrt Hwt. induction l as [|x l IH]; intros fuel rest consumed acc Hall Hf.
  - destruct fuel; cbn [read_framed_elems length N.of_nat N.eqb flat_map map]; rewrite len_nil, app_nil_r, N.add_0_r; reflexivity.
  - inversion Hall as [|? ? (Hw & Hfi & Hl) Hall']; subst.
    destruct fuel as [|f]; [cbn in Hf; lia|].
    cbn [read_framed_elems].
    replace (N.of_nat (length (x :: l)) =? 0) with false by (symmetry; apply N.eqb_neq; cbn [length]; lia).
    cbn [flat_map]. change (lenframe (enc c x [])) with (append_varuint (len (enc c x [])) ++ enc c x []). rewrite <- !app_assoc.
    rewrite read_append_varuint by exact Hl. cbv beta iota.
    pose proof (append_varuint_length_bounds (len (enc c x []))) as Hb.
    replace (Z.of_N (len (append_varuint (len (enc c x [])))) <=? 0)%Z with false by (symmetry; apply Z.leb_gt; lia).
    rewrite N2Z.id. rewrite go_drop_app. cbn [bind].
    rewrite len_app.
    replace (len (enc c x []) + len (flat_map (fun x0 => lenframe (enc c x0 [])) l ++ rest) <? len (enc c x [])) with false
      by (symmetry; apply N.ltb_ge; lia).
    rewrite go_take_app. cbn [bind].
    destruct (Hrt x z Hw Hfi) as [RtL _]. rewrite <- Hwt at 1. rewrite (RtL Hwt). cbn [bind].
    rewrite go_drop_app. cbn [bind].
    replace (N.of_nat (length (x :: l)) - 1) with (N.of_nat (length l)) by (cbn [length]; lia).
    rewrite IH by (auto; cbn [length] in Hf; lia).
    cbn [rev map]. rewrite <- app_assoc. cbn [app]. f_equal. f_equal.
    rewrite !len_app. lia.
Qed.

(** one tagged field of a map entry *)
Lemma g_entry_field : forall c decf res idx v more prior site,
  rt_ok c -> top_ok c -> DecOn c decf res -> (0 <= idx < 2305843009213693952)%Z -> wfv c v -> fits c v ->
  let e := enc c v (field_tag c idx) in
  exists fdata after hdr used,
    read_tag_and_length (e ++ more) = Ok (wire c, idx, fdata, after, hdr) /\
    decf fdata (wire c) prior = Ok (res prior v, used) /\
    go_drop site used after = Ok more /\ hdr + used = len e /\ e <> [].
Proof.
  intros c decf res idx v more prior site Hok Htop Hrt Hidx Hw Hf e.
  set (tg := field_tag c idx) in *.
  destruct (tagged_enc_shape c Hok Htop v idx Hw Hf) as [ShL ShS]. fold tg in ShL, ShS.
  destruct (Hrt v prior Hw Hf) as [RtL RtS].
  pose proof (field_tag_nonempty c idx) as Htg. fold tg in Htg.
  assert (Hne : forall p, tg ++ p <> []).
  { intros p E0. apply (f_equal (@length N)) in E0. rewrite app_length in E0. unfold len in Htg. cbn [length] in E0. lia. }
  assert (Hhead : forall payload, read_tag_and_length (tg ++ payload) =
            (do (fdata, rest2, k) <- read_field_data "MapCodec.readTagAndLength data[offset:fieldEnd]" (wire c) payload;
             Ok (wire c, idx, fdata, rest2, len tg + k))).
  { intros payload. unfold read_tag_and_length. unfold tg at 1. rewrite read_tag_field by exact Hidx. fold tg. cbv beta iota.
    replace (Z.of_N (len tg) <=? 0)%Z with false by (symmetry; apply Z.leb_gt; lia).
    rewrite N2Z.id, go_drop_app. cbn [bind]. reflexivity. }
  destruct (N.eq_dec (wire c) WTLength) as [Hwt|Hwt].
  - destruct (ShL Hwt) as [Ee Hlen]. unfold e. rewrite Ee, <- !app_assoc, Hhead.
    unfold read_field_data. rewrite Hwt. cbn [N.eqb WTLength Pos.eqb].
    rewrite read_append_varuint by exact Hlen.
    pose proof (append_varuint_length_bounds (len (enc c v []))) as Hvb.
    replace (Z.of_N (len (append_varuint (len (enc c v [])))) <=? 0)%Z with false by (symmetry; apply Z.leb_gt; lia).
    rewrite N2Z.id, go_drop_app. cbn [bind].
    rewrite len_app. replace (len (enc c v []) + len more <? len (enc c v [])) with false by (symmetry; apply N.ltb_ge; lia).
    rewrite go_take_app. cbn [bind].
    eexists _, _, _, _. split; [reflexivity|]. split; [rewrite <- Hwt at 1; apply (RtL Hwt)|].
    split; [apply go_drop_app|]. split; [rewrite !len_app; lia|]. apply Hne.
  - pose proof (ShS Hwt) as Ee. unfold e. rewrite Ee, <- !app_assoc, Hhead.
    unfold read_field_data. replace (wire c =? WTLength) with false by (symmetry; apply N.eqb_neq; exact Hwt).
    cbn [bind].
    eexists _, _, _, _. split; [reflexivity|]. split; [apply (RtS Hwt more)|].
    split; [apply go_drop_app|]. split; [rewrite !len_app; lia|]. apply Hne.
Qed.

(** what decoding one entry does to the map built so far, the value read by a
    decoder that computes [vres] *)
Definition g_entry_merge (kc vc : codec) (vres : val -> val -> val) (vzero : val) (m : list (val * val)) (e : val * val) : list (val * val) :=
  let k' := if omit kc (fst e) then zero kc else merge kc (zero kc) (fst e) in
  let x' := if omit vc (snd e) then vzero
            else vres (match map_lookup k' m with Some y => y | None => vzero end) (snd e) in
  map_set k' x' m.

Lemma g_read_entry : forall kc vc vdecf vres vzero e m,
  rt_ok kc -> top_ok kc -> RTc kc -> rt_ok vc -> top_ok vc -> DecOn vc vdecf vres ->
  (omit kc (fst e) = true \/ wfv kc (fst e)) -> fits kc (fst e) ->
  (omit vc (snd e) = true \/ wfv vc (snd e)) -> fits vc (snd e) ->
  read_map_entry (dec kc) vdecf (zero kc) vzero (entry_body kc vc e) m
  = Ok (g_entry_merge kc vc vres vzero m e, len (entry_body kc vc e)).
Proof.
  intros kc vc vdecf vres vzero [k x] m Hokk Htk Hrtk Hokv Htv Hrtv Hwk Hfk Hwv Hfv. cbn [fst snd] in *.
  unfold entry_body, g_entry_merge. cbn [fst snd].
  assert (H1 : (0 <= 1 < 2305843009213693952)%Z) by lia.
  assert (H2 : (0 <= 2 < 2305843009213693952)%Z) by lia.
  destruct (omit kc k) eqn:Eok; destruct (omit vc x) eqn:Eov; cbn [app].
  - (* nothing written *) reflexivity.
  - (* value only: the key is zero *)
    destruct Hwv as [Hwv|Hwv]; [congruence|].
    destruct (g_entry_field vc vdecf vres 2 x [] (match map_lookup (zero kc) m with Some y => y | None => vzero end)
                "MapCodec.readMapEntry data[offset:]" Hokv Htv Hrtv H2 Hwv Hfv)
      as (fdata & after & hdr & used & Hh & Hd & Hg & Hl & Hne).
    rewrite app_nil_r in Hh.
    unfold read_map_entry. destruct (enc vc x (field_tag vc 2)) as [|b0 r0] eqn:Ee; [congruence|]. rewrite <- Ee in *.
    rewrite Hh. cbn [bind]. change (2 =? 1)%Z with false. cbv iota. rewrite Hd. cbn [bind]. rewrite Hl. reflexivity.
  - (* key only: the value is zero *)
    destruct Hwk as [Hwk|Hwk]; [congruence|].
    destruct (g_entry_field kc (dec kc) (merge kc) 1 k [] (zero kc) "MapCodec.readMapEntry data[offset:]" Hokk Htk Hrtk H1 Hwk Hfk)
      as (fdata & after & hdr & used & Hh & Hd & Hg & Hl & Hne).
    rewrite !app_nil_r in *.
    unfold read_map_entry. destruct (enc kc k (field_tag kc 1)) as [|b0 r0] eqn:Ee; [congruence|]. rewrite <- Ee in *.
    rewrite Hh. cbn [bind]. change (1 =? 1)%Z with true. cbv iota. rewrite Hd. cbn [bind]. rewrite Hg. cbn [bind].
    rewrite Hl. reflexivity.
  - (* both *)
    destruct Hwk as [Hwk|Hwk]; [congruence|]. destruct Hwv as [Hwv|Hwv]; [congruence|].
    set (ev := enc vc x (field_tag vc 2)).
    destruct (g_entry_field kc (dec kc) (merge kc) 1 k ev (zero kc) "MapCodec.readMapEntry data[offset:]" Hokk Htk Hrtk H1 Hwk Hfk)
      as (fdata & after & hdr & used & Hh & Hd & Hg & Hl & Hne).
    destruct (g_entry_field vc vdecf vres 2 x [] (match map_lookup (merge kc (zero kc) k) m with Some y => y | None => vzero end)
                "MapCodec.readMapEntry data[offset:]" Hokv Htv Hrtv H2 Hwv Hfv)
      as (fdata2 & after2 & hdr2 & used2 & Hh2 & Hd2 & Hg2 & Hl2 & Hne2).
    fold ev in Hh2, Hl2, Hne2. rewrite app_nil_r in Hh2.
    unfold read_map_entry.
    destruct (enc kc k (field_tag kc 1) ++ ev) as [|b0 r0] eqn:Ee.
    { destruct (enc kc k (field_tag kc 1)); [congruence|discriminate Ee]. }
    rewrite <- Ee in *. rewrite Hh. cbn [bind]. change (1 =? 1)%Z with true. cbv iota. rewrite Hd. cbn [bind]. rewrite Hg. cbn [bind].
    destruct ev as [|c0 r1] eqn:Eev; [congruence|]. rewrite <- Eev in *.
    rewrite Hh2. cbn [bind]. rewrite Hd2. cbn [bind]. rewrite len_app. f_equal. f_equal. lia.
Qed.

(** the entry loop *)
Lemma g_map_entries_list : forall kc vc vdecf vres vzero,
  rt_ok kc -> top_ok kc -> RTc kc -> rt_ok vc -> top_ok vc -> DecOn vc vdecf vres ->
  forall (es : list (val * val)) fuel rest consumed m,
  Forall (fun e => (omit kc (fst e) = true \/ wfv kc (fst e)) /\ fits kc (fst e) /\
                   (omit vc (snd e) = true \/ wfv vc (snd e)) /\ fits vc (snd e) /\
                   len (entry_body kc vc e) < two64) es ->
  (length es <= fuel)%nat ->
  map_entries (dec kc) vdecf (zero kc) vzero fuel (N.of_nat (length es))
    (flat_map (fun e => lenframe (entry_body kc vc e)) es ++ rest) consumed m
  = Ok (fold_left (g_entry_merge kc vc vres vzero) es m, consumed + len (flat_map (fun e => lenframe (entry_body kc vc e)) es)).
Proof.
  intros kc vc vdecf vres vzero Hokk Htk Hrtk Hokv Htv Hrtv. induction es as [|e es IH]; intros fuel rest consumed m Hall Hf.
  - destruct fuel; cbn [map_entries length N.of_nat N.eqb flat_map fold_left]; rewrite len_nil, N.add_0_r; reflexivity.
  - inversion Hall as [|? ? (Hwk & Hfk & Hwv & Hfv & Hl) Hall']; subst.
    destruct fuel as [|f]; [cbn in Hf; lia|].
    cbn [map_entries].
    replace (N.of_nat (length (e :: es)) =? 0) with false by (symmetry; apply N.eqb_neq; cbn [length]; lia).
    cbn [flat_map]. change (lenframe (entry_body kc vc e)) with (append_varuint (len (entry_body kc vc e)) ++ entry_body kc vc e).
    rewrite <- !app_assoc. rewrite read_append_varuint by exact Hl. cbv beta iota.
    pose proof (append_varuint_length_bounds (len (entry_body kc vc e))) as Hb.
    replace (Z.of_N (len (append_varuint (len (entry_body kc vc e)))) <=? 0)%Z with false by (symmetry; apply Z.leb_gt; lia).
    rewrite N2Z.id, go_drop_app. cbn [bind].
    rewrite len_app.
    replace (len (entry_body kc vc e) + len (flat_map (fun e0 => lenframe (entry_body kc vc e0)) es ++ rest) <? len (entry_body kc vc e))
      with false by (symmetry; apply N.ltb_ge; lia).
    rewrite go_take_app. cbn [bind].
    rewrite (g_read_entry kc vc vdecf vres vzero) by assumption. cbn [bind]. rewrite go_drop_app. cbn [bind].
    replace (N.of_nat (length (e :: es)) - 1) with (N.of_nat (length es)) by (cbn [length]; lia).
    rewrite IH by (auto; cbn [length] in Hf; lia).
    cbn [fold_left]. f_equal. f_equal. rewrite !len_app. lia.
Qed.

(** the repeated form, elements written with [c'] and read by [edecf] *)
Lemma g_field_step_proto_slice : forall (tbl : list (Z * nat * decoder)) idx sl decf edecf ezero c' eres l cur more consumed fuel,
  find_field tbl idx = Some (sl, decf) ->
  (forall data prior, decf data WTLength prior
                      = (do (x, used) <- edecf data WTLength ezero; Ok (VSlice (slice_elems prior ++ [x]), used))) ->
  rt_ok c' -> top_ok c' -> wire c' = WTLength -> DecOn c' edecf eres ->
  (0 <= idx < 2305843009213693952)%Z ->
  Forall (fun x => wfv c' x /\ fits c' x) l ->
  let e := flat_map (fun x => enc c' x (field_tag (CSliceProto c') idx)) l in
  (length (e ++ more) < fuel)%nat ->
  struct_loop tbl fuel (e ++ more) consumed cur
  = struct_loop tbl fuel more (consumed + len e)
      (match l with
       | [] => cur
       | _ => set_nth sl (VSlice (slice_elems (slot cur sl) ++ map (eres ezero) l)) cur
       end).
Proof.
  intros tbl idx sl decf edecf ezero c' eres l. induction l as [|x l IH]; intros cur more consumed fuel Hfind Hslice Hok Htop Hwt Hrt Hidx Hall e Hfuel.
  - cbn [flat_map] in e. unfold e. cbn [app]. rewrite len_nil, N.add_0_r. reflexivity.
  - inversion Hall as [|? ? [Hw Hf] Hall']; subst x0 l0.
    set (tg := field_tag (CSliceProto c') idx) in *.
    assert (Etg : tg = field_tag c' idx) by (unfold tg, field_tag; cbn [wire]; rewrite Hwt; reflexivity).
    destruct (tagged_enc_shape c' Hok Htop x idx Hw Hf) as [ShL _]. rewrite <- Etg in ShL.
    destruct (ShL Hwt) as [Ee Hlen].
    destruct (Hrt x ezero Hw Hf) as [RtL _].
    pose proof (field_tag_nonempty (CSliceProto c') idx) as Htg. fold tg in Htg.
    destruct fuel as [|fuel']; [lia|].
    unfold e. cbn [flat_map]. rewrite Ee, <- !app_assoc.
    rewrite struct_loop_unfold.
    2:{ intros E0. apply (f_equal (@length N)) in E0. rewrite app_length in E0. unfold len in Htg. cbn [length] in E0. lia. }
    unfold tg at 1. rewrite read_tag_field by exact Hidx. fold tg. cbv beta iota.
    replace (Z.of_N (len tg) <=? 0)%Z with false by (symmetry; apply Z.leb_gt; lia).
    rewrite N2Z.id, go_drop_app. cbn [bind].
    rewrite Hfind.
    unfold read_field_data. cbn [wire N.eqb WTLength Pos.eqb].
    rewrite read_append_varuint by exact Hlen.
    pose proof (append_varuint_length_bounds (len (enc c' x []))) as Hvb.
    replace (Z.of_N (len (append_varuint (len (enc c' x [])))) <=? 0)%Z with false by (symmetry; apply Z.leb_gt; lia).
    rewrite N2Z.id, go_drop_app. cbn [bind].
    rewrite len_app.
    replace (len (enc c' x []) + len (flat_map (fun x0 => enc c' x0 tg) l ++ more) <? len (enc c' x [])) with false
      by (symmetry; apply N.ltb_ge; lia).
    rewrite go_take_app. cbn [bind]. rewrite Hslice.
    rewrite <- Hwt at 1. rewrite (RtL Hwt). cbn [bind]. rewrite go_drop_app. cbn [bind].
    assert (Hfl : (length (flat_map (fun x0 => enc c' x0 tg) l ++ more) < fuel')%nat).
    { unfold e in Hfuel. cbn [flat_map] in Hfuel. rewrite Ee, <- !app_assoc in Hfuel. rewrite !app_length in Hfuel.
      rewrite app_length. unfold len in Htg. lia. }
    rewrite (struct_loop_fuel tbl fuel' (S fuel')) by (exact Hfl || lia).
    rewrite (IH _ more _ (S fuel') Hfind Hslice Hok Htop Hwt Hrt Hidx Hall') by (fold tg; lia).
    fold tg. f_equal.
    + rewrite !len_app. lia.
    + destruct l as [|y l'].
      * cbn [map app]. reflexivity.
      * rewrite set_nth_twice. apply set_nth_ext. intros Hi.
        unfold slot. rewrite nth_set_nth_hit by exact Hi. cbn [slice_elems map]. rewrite <- app_assoc. reflexivity.
Qed.

(** the repeated form of a map, values read by [vdecf] *)
Lemma g_field_step_proto_map : forall (tbl : list (Z * nat * decoder)) idx sl decf vdecf vres vzero kc vc (es : list (val * val)) cur more consumed fuel,
  find_field tbl idx = Some (sl, decf) ->
  (forall data prior, decf data WTLength prior
                      = (do (m', used) <- read_map_entry (dec kc) vdecf (zero kc) vzero data (entries_of prior);
                         Ok (VMap (Some m'), used))) ->
  rt_ok kc -> top_ok kc -> RTc kc -> rt_ok vc -> top_ok vc -> DecOn vc vdecf vres ->
  (0 <= idx < 2305843009213693952)%Z ->
  Forall (fun e => (omit kc (fst e) = true \/ wfv kc (fst e)) /\ fits kc (fst e) /\
                   (omit vc (snd e) = true \/ wfv vc (snd e)) /\ fits vc (snd e) /\
                   len (entry_body kc vc e) < two64) es ->
  let tg := field_tag (CMapProto kc vc) idx in
  let e := flat_map (fun en => tg ++ lenframe (entry_body kc vc en)) es in
  (length (e ++ more) < fuel)%nat ->
  struct_loop tbl fuel (e ++ more) consumed cur
  = struct_loop tbl fuel more (consumed + len e)
      (match es with
       | [] => cur
       | _ => set_nth sl (VMap (Some (fold_left (g_entry_merge kc vc vres vzero) es (entries_of (slot cur sl))))) cur
       end).
Proof.
  intros tbl idx sl decf vdecf vres vzero kc vc es. induction es as [|en es IH]; intros cur more consumed fuel Hfind Hmap Hokk Htk Hrtk Hokv Htv Hrtv Hidx Hall tg e Hfuel.
  - unfold e. cbn [flat_map app]. rewrite len_nil, N.add_0_r. reflexivity.
  - inversion Hall as [|? ? (Hwk & Hfk & Hwv & Hfv & Hl) Hall']; subst.
    pose proof (field_tag_nonempty (CMapProto kc vc) idx) as Htg. fold tg in Htg.
    destruct fuel as [|fuel']; [lia|].
    unfold e. cbn [flat_map]. change (lenframe (entry_body kc vc en)) with (append_varuint (len (entry_body kc vc en)) ++ entry_body kc vc en).
    rewrite <- !app_assoc.
    rewrite struct_loop_unfold.
    2:{ intros E0. apply (f_equal (@length N)) in E0. rewrite app_length in E0. unfold len in Htg. cbn [length] in E0. lia. }
    unfold tg at 1. rewrite read_tag_field by exact Hidx. fold tg. cbv beta iota.
    replace (Z.of_N (len tg) <=? 0)%Z with false by (symmetry; apply Z.leb_gt; lia).
    rewrite N2Z.id, go_drop_app. cbn [bind].
    rewrite Hfind.
    unfold read_field_data. cbn [wire N.eqb WTLength Pos.eqb].
    rewrite read_append_varuint by exact Hl.
    pose proof (append_varuint_length_bounds (len (entry_body kc vc en))) as Hvb.
    replace (Z.of_N (len (append_varuint (len (entry_body kc vc en)))) <=? 0)%Z with false by (symmetry; apply Z.leb_gt; lia).
    rewrite N2Z.id, go_drop_app. cbn [bind].
    rewrite len_app.
    replace (len (entry_body kc vc en) + len (flat_map (fun en0 => tg ++ lenframe (entry_body kc vc en0)) es ++ more) <? len (entry_body kc vc en))
      with false by (symmetry; apply N.ltb_ge; lia).
    rewrite go_take_app. cbn [bind]. rewrite Hmap.
    rewrite (g_read_entry kc vc vdecf vres vzero) by assumption. cbn [bind]. rewrite go_drop_app. cbn [bind].
    assert (Hfl : (length (flat_map (fun en0 => tg ++ lenframe (entry_body kc vc en0)) es ++ more) < fuel')%nat).
    { unfold e in Hfuel. cbn [flat_map] in Hfuel. rewrite <- !app_assoc in Hfuel. rewrite !app_length in Hfuel.
      rewrite app_length. unfold len in Htg. lia. }
    rewrite (struct_loop_fuel _ fuel' (S fuel')) by (exact Hfl || lia).
    rewrite (IH _ more _ (S fuel') Hfind Hmap Hokk Htk Hrtk Hokv Htv Hrtv Hidx Hall') by (fold tg; lia).
    fold tg. f_equal.
    + unfold lenframe. rewrite !len_app. lia.
    + fold (entries_of (slot cur sl)).
      destruct es as [|en2 es'].
      * cbn [fold_left]. reflexivity.
      * rewrite set_nth_twice. apply set_nth_ext. intros Hi.
        unfold slot. rewrite nth_set_nth_hit by exact Hi. cbn [entries_of fold_left]. reflexivity.
Qed.

(** ** the relation between the writing and the reading codec, and the result *)

Fixpoint evo (cw cr : codec) {struct cw} : Prop :=
  match cw, cr with
  | CStruct _ _ fs, CStruct _ _ fs' =>
    NoDup (map (fun f => f_index f) fs') /\
    (fix all (l : list (fld codec)) : Prop :=
       match l with
       | [] => True
       | f :: r => match partner fs' f with Some g => evo (f_codec f) (f_codec g) | None => True end /\ all r
       end) fs
  | CPtr a, CPtr b => evo a b
  | CSliceLen a, CSliceLen b => evo a b
  | CSliceProto a, CSliceProto b | CSliceProto a, CSliceLen b => evo a b
  | CMap kc vc, CMap kc' vc' | CMapProto kc vc, CMapProto kc' vc' => kc' = kc /\ evo vc vc'
  | _, _ => cr = cw
  end.

Definition e_entry (kc vc : codec) (vres : val -> val -> val) (vzero : val) := g_entry_merge kc vc vres vzero.

Fixpoint emerge (cw cr : codec) (prior v : val) {struct cw} : val :=
  match cw, cr with
  | CStruct _ _ fs, CStruct _ _ fs' =>
    VStruct (fold_left (fun cur f =>
               let fv := slot (struct_fields v) (f_slot f) in
               if omit (f_codec f) fv then cur else
               match partner fs' f with
               | Some g => set_nth (f_slot g) (emerge (f_codec f) (f_codec g) (slot cur (f_slot g)) fv) cur
               | None => cur
               end) fs (match prior with VStruct ps => ps | _ => struct_fields (zero cr) end))
  | CPtr a, CPtr b =>
    match v with
    | VPtr (Some x) => VPtr (Some (emerge a b (match prior with VPtr (Some p) => p | _ => zero b end) x))
    | _ => v
    end
  | CSliceLen a, CSliceLen b => VSlice (map (fun x => emerge a b (zero b) x) (slice_elems v))
  | CSliceProto a, CSliceProto b | CSliceProto a, CSliceLen b =>
    match v with
    | VSlice l => VSlice (slice_elems prior ++ map (fun x => emerge a b (zero b) x) l)
    | _ => v
    end
  | CMap kc vc, CMap _ vc' =>
    match v with
    | VMap (Some es) =>
      VMap (Some (fold_left (fun m e =>
        let k' := if omit kc (fst e) then zero kc else merge kc (zero kc) (fst e) in
        let x' := if omit vc (snd e) then zero vc'
                  else emerge vc vc' (match map_lookup k' m with Some y => y | None => zero vc' end) (snd e) in
        map_set k' x' m) es (entries_of prior)))
    | _ => v
    end
  | CMapProto kc vc, CMapProto _ vc' =>
    match v with
    | VMap (Some (e0 :: es0)) =>
      VMap (Some (fold_left (fun m e =>
        let k' := if omit kc (fst e) then zero kc else merge kc (zero kc) (fst e) in
        let x' := if omit vc (snd e) then zero vc'
                  else emerge vc vc' (match map_lookup k' m with Some y => y | None => zero vc' end) (snd e) in
        map_set k' x' m) (e0 :: es0) (entries_of prior)))
    | VMap (Some []) => prior
    | _ => v
    end
  | _, _ => merge cw prior v
  end.

Lemma emerge_map kc vc kc' vc' prior es :
  emerge (CMap kc vc) (CMap kc' vc') prior (VMap (Some es))
  = VMap (Some (fold_left (g_entry_merge kc vc (emerge vc vc') (zero vc')) es (entries_of prior))).
Proof. reflexivity. Qed.
Lemma emerge_map_proto kc vc kc' vc' prior e es :
  emerge (CMapProto kc vc) (CMapProto kc' vc') prior (VMap (Some (e :: es)))
  = VMap (Some (fold_left (g_entry_merge kc vc (emerge vc vc') (zero vc')) (e :: es) (entries_of prior))).
Proof. reflexivity. Qed.

(** the field-level statement with a reading struct whose field has codec [cr] *)
Definition EFT (cw cr : codec) : Prop :=
  forall fs' g fv cur more consumed fuel,
    NoDup (map (fun f => f_index f) fs') -> In g fs' -> f_codec g = cr ->
    (0 <= f_index g < 2305843009213693952)%Z -> wfv cw fv -> fits cw fv -> omit cw fv = false ->
    (length (enc cw fv (field_tag cw (f_index g)) ++ more) < fuel)%nat ->
    struct_loop (stbl fs') fuel (enc cw fv (field_tag cw (f_index g)) ++ more) consumed cur
    = struct_loop (stbl fs') fuel more (consumed + len (enc cw fv (field_tag cw (f_index g))))
        (set_nth (f_slot g) (emerge cw cr (slot cur (f_slot g)) fv) cur).

Definition EVG (cw : codec) : Prop :=
  forall cr, rt_ok cw -> evo cw cr -> (top_ok cw -> DecOn cw (dec cr) (emerge cw cr)) /\ EFT cw cr.

Lemma eft_of_decon cw cr : rt_ok cw -> top_ok cw -> DecOn cw (dec cr) (emerge cw cr) -> EFT cw cr.
Proof.
  intros Hok Htop Hd fs' g fv cur more consumed fuel Hnd Hin Hc Hidx Hw Hf _ Hfuel.
  apply (gfield_step (stbl fs') cw (f_index g) (f_slot g) (dec cr) (emerge cw cr)); auto.
  unfold stbl. rewrite (find_field_tbl fs' g Hin Hnd), Hc. reflexivity.
Qed.

(** the result for codecs that have no structure to evolve: the reading codec
    is the writing codec *)
Lemma evg_same cw : (forall prior v, emerge cw cw prior v = merge cw prior v) -> rt_ok cw ->
  (top_ok cw -> DecOn cw (dec cw) (emerge cw cw)) /\ EFT cw cw.
Proof.
  intros He Hok. destruct (roundtrip_gen cw Hok) as [A B]. split.
  - intros Ht v prior Hw Hf. destruct (A Ht v prior Hw Hf) as [L S0]. rewrite He. split; assumption.
  - intros fs' g fv cur more consumed fuel Hnd Hin Hc Hidx Hw Hf Ho Hfuel. rewrite He.
    apply (B fs' g fv cur more consumed fuel Hnd Hin Hc Hidx Hw Hf Ho Hfuel).
Qed.

(** ** the decode loop of the reading struct over the fields of the written one *)
Section DeepLoop.
  Variable fs' : list (fld codec).
  Hypothesis Hnd' : NoDup (map (fun f => f_index f) fs').

  Definition estep (vs : list val) (cur : list val) (f : fld codec) : list val :=
    let fv := slot vs (f_slot f) in
    if omit (f_codec f) fv then cur else
    match partner fs' f with
    | Some g => set_nth (f_slot g) (emerge (f_codec f) (f_codec g) (slot cur (f_slot g)) fv) cur
    | None => cur
    end.

  Lemma deep_loop : forall (l : list (fld codec)) vs cur more consumed fuel,
    Forall (fun f => rt_ok (f_codec f) /\ (0 <= f_index f < 2305843009213693952)%Z
                     /\ (forall g, partner fs' f = Some g -> EFT (f_codec f) (f_codec g))) l ->
    Forall (fun f => (omit (f_codec f) (slot vs (f_slot f)) = true \/ wfv (f_codec f) (slot vs (f_slot f)))
                     /\ fits (f_codec f) (slot vs (f_slot f))) l ->
    (length (flat_map (fenc vs) l ++ more) < fuel)%nat ->
    struct_loop (stbl fs') fuel (flat_map (fenc vs) l ++ more) consumed cur
    = struct_loop (stbl fs') fuel more (consumed + len (flat_map (fenc vs) l)) (fold_left (estep vs) l cur).
  Proof.
    induction l as [|f r IH]; intros vs cur more consumed fuel Hc Hv Hfuel.
    - cbn [flat_map app fold_left]. rewrite len_nil, N.add_0_r. reflexivity.
    - inversion Hc as [|? ? (Hok & Hidx & Heft) Hc']; subst.
      inversion Hv as [|? ? (Hwo & Hfit) Hv']; subst.
      cbn [flat_map fold_left]. unfold fenc at 1 3, estep at 2. cbv zeta.
      destruct (omit (f_codec f) (slot vs (f_slot f))) eqn:Eo.
      + cbn [app]. apply IH; auto.
        cbn [flat_map] in Hfuel. unfold fenc at 1 in Hfuel. cbv zeta in Hfuel. rewrite Eo in Hfuel. exact Hfuel.
      + destruct Hwo as [Hwo|Hw]; [congruence|].
        assert (Hfuel' : (length (enc (f_codec f) (slot vs (f_slot f)) (field_tag (f_codec f) (f_index f)) ++ flat_map (fenc vs) r ++ more) < fuel)%nat).
        { cbn [flat_map] in Hfuel. unfold fenc at 1 in Hfuel. cbv zeta in Hfuel. rewrite Eo in Hfuel. rewrite <- app_assoc in Hfuel. exact Hfuel. }
        rewrite <- app_assoc.
        destruct (partner fs' f) as [g|] eqn:Ep.
        * destruct (partner_spec fs' f g Ep) as [Hing Hig].
          pose proof (Heft g eq_refl fs' g (slot vs (f_slot f)) cur (flat_map (fenc vs) r ++ more) consumed fuel Hnd' Hing eq_refl) as FS.
          rewrite Hig in FS. rewrite FS; auto.
          rewrite IH; auto.
          -- rewrite len_app, N.add_assoc. reflexivity.
          -- rewrite app_length in Hfuel'. lia.
        * pose proof (unknown_field_step_gen fs' (f_codec f) (f_index f) (slot vs (f_slot f)) cur (flat_map (fenc vs) r ++ more) consumed fuel Hok Hidx Hw Hfit (partner_none fs' f Ep) Hfuel') as US.
          unfold stbl. rewrite US.
          fold (stbl fs'). rewrite IH; auto.
          -- rewrite len_app, N.add_assoc. reflexivity.
          -- rewrite app_length in Hfuel'. lia.
  Qed.
End DeepLoop.

Lemma evo_struct_fields nm n fs nm' n' fs' :
  evo (CStruct nm n fs) (CStruct nm' n' fs') ->
  NoDup (map (fun f => f_index f) fs') /\
  Forall (fun f => match partner fs' f with Some g => evo (f_codec f) (f_codec g) | None => True end) fs.
Proof.
  cbn [evo]. intros [Hnd Hall]. split; [exact Hnd|].
  induction fs as [|f r IH]; [constructor|]. constructor; [apply Hall|apply IH, Hall].
Qed.

Ltac leaf_case Hok Hev :=
  cbn [evo] in Hev; subst; apply evg_same; [intros; reflexivity|exact Hok].
Ltac other_head Hev := cbn [evo] in Hev; discriminate Hev.

(** ** C03 at any nesting depth *)
Theorem evolution_deep : forall cw, EVG cw.
Proof.
  induction cw as [ |b|b|b| | | | |compat| |c IH|c IH|nm n fs IH|c IH|c IH|c IH|c IH|kc vc IHk IHv|kc vc IHk IHv| | | ]
    using codec_ind'; intros cr Hok Hev.
  - leaf_case Hok Hev.
  - leaf_case Hok Hev.
  - leaf_case Hok Hev.
  - leaf_case Hok Hev.
  - leaf_case Hok Hev.
  - leaf_case Hok Hev.
  - leaf_case Hok Hev.
  - leaf_case Hok Hev.
  - leaf_case Hok Hev.
  - leaf_case Hok Hev.
  - (* null *) leaf_case Hok Hev.
  - (* pointer *)
    destruct cr as [ | | | | | | | | | | |b| | | | | | | | | | ]; try (other_head Hev).
    cbn [evo] in Hev. pose proof Hok as Hok0. cbn [rt_ok] in Hok. destruct Hok as [Hoka Hta].
    destruct (IH b Hoka Hev) as [A _]. specialize (A Hta).
    assert (D : DecOn (CPtr c) (dec (CPtr b)) (emerge (CPtr c) (CPtr b))).
    { intros v prior Hw Hf. cbn [wfv] in Hw. destruct v as [ | | | | | |[p|]| | | | | |]; try contradiction.
      cbn [fits] in Hf.
      destruct (A p (match prior with VPtr (Some q) => q | _ => zero b end) Hw Hf) as [RL RS].
      cbn [wire enc dec emerge]. split.
      - intros Hwt. rewrite (RL Hwt). reflexivity.
      - intros Hwt rest. rewrite (RS Hwt rest). reflexivity. }
    split; [intros _; exact D|apply eft_of_decon; [exact Hok0|exact I|exact D]].
  - (* struct *)
    destruct cr as [ | | | | | | | | | | | |nm' n' fs'| | | | | | | | | ]; try (other_head Hev).
    destruct (evo_struct_fields _ _ _ _ _ _ Hev) as [Hnd' Hpart].
    destruct (rt_struct_fields nm n fs Hok) as (Hfs & Hnd & Hns).
    assert (D : DecOn (CStruct nm n fs) (dec (CStruct nm' n' fs')) (emerge (CStruct nm n fs) (CStruct nm' n' fs'))).
    { intros v prior Hw Hf.
      split; [intros _|intros Hwt; exfalso; apply Hwt; reflexivity].
      destruct v as [ | | | | | | | |vs| | | |]; try (cbn [wfv] in Hw; contradiction).
      destruct (wfv_struct_fields nm n fs vs Hw) as [Hlen Hwfs].
      pose proof (fits_struct_fields nm n fs (VStruct vs) Hf) as Hfits. cbn [struct_fields] in Hfits.
      cbn [enc frame_tag dec wire emerge struct_fields].
      set (cur := match prior with VStruct ps => ps | _ => struct_fields (zero (CStruct nm' n' fs')) end).
      change (flat_map (fun f : fld codec => if omit (f_codec f) (slot vs (f_slot f)) then []
                else enc (f_codec f) (slot vs (f_slot f)) (field_tag (f_codec f) (f_index f))) fs)
        with (flat_map (fenc vs) fs).
      set (body := flat_map (fenc vs) fs).
      pose proof (deep_loop fs' Hnd' fs vs cur [] 0 (S (length body))) as HL.
      rewrite !app_nil_r in HL. fold body in HL. unfold stbl in HL.
      rewrite HL.
      - cbn [struct_loop bind]. rewrite N.add_0_l. reflexivity.
      - rewrite Forall_forall in *. intros f Hin. destruct (Hfs f Hin) as (A & B & _). split; [exact A|]. split; [exact B|].
        intros g Hg. specialize (Hpart f Hin). rewrite Hg in Hpart. apply (proj2 (IH f Hin (f_codec g) A Hpart)).
      - rewrite Forall_forall in *. intros f Hin. split; [apply Hwfs; exact Hin|apply Hfits; exact Hin].
      - lia. }
    split; [intros _; exact D|apply eft_of_decon; [exact Hok|exact I|exact D]].
  - (* packed varints *) leaf_case Hok Hev.
  - (* packed fixed *) leaf_case Hok Hev.
  - (* counted slice *)
    destruct cr as [ | | | | | | | | | | | | | | |b| | | | | | ]; try (other_head Hev).
    cbn [evo] in Hev. pose proof Hok as Hok0. cbn [rt_ok] in Hok. destruct Hok as (Hokc & Hwc & Htc).
    destruct (IH b Hokc Hev) as [A _]. specialize (A Htc).
    assert (D : DecOn (CSliceLen c) (dec (CSliceLen b)) (emerge (CSliceLen c) (CSliceLen b))).
    { intros v prior Hw Hf.
      split; [intros Hwt; cbn [wire] in Hwt; discriminate Hwt|intros _ rest].
      destruct v as [ | | | | | | | | |l| | |]; try (cbn [wfv] in Hw; contradiction).
      cbn [wfv] in Hw. destruct Hf as [Hcnt Hfe]. cbn [slice_elems] in Hcnt, Hfe.
      cbn [enc app dec emerge wire slice_elems]. cbn [N.eqb WTSlice WTLength Pos.eqb].
      rewrite <- app_assoc, read_append_varuint by exact Hcnt.
      pose proof (append_varuint_length_bounds (N.of_nat (length l))) as Hb.
      replace (Z.of_N (len (append_varuint (N.of_nat (length l)))) <? 0)%Z with false by (symmetry; apply Z.ltb_ge; lia).
      rewrite N2Z.id.
      pose proof (frames_len_ge (fun x => enc c x []) l) as Hge.
      rewrite !len_app.
      replace (len (append_varuint (N.of_nat (length l))) + (len (flat_map (fun x => lenframe (enc c x [])) l) + len rest)
               - len (append_varuint (N.of_nat (length l))) <? N.of_nat (length l)) with false by (symmetry; apply N.ltb_ge; lia).
      rewrite go_drop_app. cbn [bind]. unfold alloc_guard. rewrite len_app.
      replace (N.of_nat (length l) <=? len (flat_map (fun x => lenframe (enc c x [])) l) + len rest) with true by (symmetry; apply N.leb_le; lia).
      cbn [bind].
      rewrite (g_read_framed_list c (dec b) (emerge c b) (zero b) A Hwc l).
      - cbn [bind rev app]. reflexivity.
      - rewrite Forall_forall in *. intros x Hx. destruct (Hfe x Hx). repeat split; auto.
      - rewrite !app_length. pose proof Hge. unfold len in *. lia. }
    split; [intros _; exact D|apply eft_of_decon; [exact Hok0|exact I|exact D]].
  - (* the repeated form of a slice: as a field only, read by the repeated or the counted codec *)
    assert (Hgen : forall b (cr0 : codec), evo c b ->
              (forall data prior, dec cr0 data WTLength prior
                 = (do (x, used) <- dec b data WTLength (zero b); Ok (VSlice (slice_elems prior ++ [x]), used))) ->
              (forall prior l, emerge (CSliceProto c) cr0 prior (VSlice l) = VSlice (slice_elems prior ++ map (fun x => emerge c b (zero b) x) l)) ->
              EFT (CSliceProto c) cr0).
    { intros b cr0 Hevb Hslice Hem fs' g fv cur more consumed fuel Hnd' Hin Hc Hidx Hw Hf Ho Hfuel.
      cbn [rt_ok] in Hok. destruct Hok as (Hokc & Hwc & Htc).
      destruct (IH b Hokc Hevb) as [A _]. specialize (A Htc).
      cbn [wfv] in Hw. destruct fv as [ | | | | | | | | |l| | |]; try contradiction.
      cbn [fits slice_elems] in Hf. cbn [omit] in Ho. cbn [enc slice_elems] in *.
      assert (Hall : Forall (fun x => wfv c x /\ fits c x) l).
      { rewrite Forall_forall in *. intros x Hx. split; [apply Hw|apply Hf]; exact Hx. }
      rewrite (g_field_step_proto_slice (stbl fs') (f_index g) (f_slot g) (dec cr0) (dec b) (zero b) c (emerge c b) l cur more consumed fuel);
        auto.
      - destruct l as [|x l]; [discriminate Ho|]. rewrite Hem. reflexivity.
      - unfold stbl. rewrite (find_field_tbl fs' g Hin Hnd'), Hc. reflexivity. }
    destruct cr as [ | | | | | | | | | | | | | | |b|b| | | | | ]; try (other_head Hev); cbn [evo] in Hev.
    + split; [intros []|]. apply (Hgen b (CSliceLen b) Hev); [intros; reflexivity|intros; reflexivity].
    + split; [intros []|]. apply (Hgen b (CSliceProto b) Hev); [intros; reflexivity|intros; reflexivity].
  - (* map *)
    destruct cr as [ | | | | | | | | | | | | | | | | |kc' vc'| | | | ]; try (other_head Hev).
    cbn [evo] in Hev. destruct Hev as [-> Hevv]. pose proof Hok as Hok0. cbn [rt_ok] in Hok.
    destruct Hok as (Hokk & Hokv & Htk & Htv).
    destruct (IHv vc' Hokv Hevv) as [A _]. specialize (A Htv).
    assert (D : DecOn (CMap kc vc) (dec (CMap kc vc')) (emerge (CMap kc vc) (CMap kc vc'))).
    { intros v prior Hw Hf.
      split; [intros Hwt; cbn [wire] in Hwt; discriminate Hwt|intros _ rest].
      destruct v as [ | | | | | | | | | |[es|]| |]; try (cbn [wfv] in Hw; contradiction).
      cbn [wfv] in Hw. destruct Hf as [Hcnt Hfe]. cbn [map_entries_of] in Hcnt, Hfe.
      rewrite emerge_map. cbn [enc app wire].
      change (flat_map (fun e : val * val => lenframe ((if omit kc (fst e) then [] else enc kc (fst e) (field_tag kc 1))
                                                       ++ (if omit vc (snd e) then [] else enc vc (snd e) (field_tag vc 2)))) es)
        with (flat_map (fun e => lenframe (entry_body kc vc e)) es).
      set (frames := flat_map (fun e => lenframe (entry_body kc vc e)) es).
      pose proof (append_varuint_length_bounds (N.of_nat (length es))) as Hb.
      cbn [dec].
      destruct ((append_varuint (N.of_nat (length es)) ++ frames) ++ rest) as [|b0 r0] eqn:Ed.
      { destruct (append_varuint (N.of_nat (length es))); [rewrite len_nil in Hb; lia|discriminate Ed]. }
      rewrite <- Ed. rewrite <- app_assoc, read_append_varuint by exact Hcnt.
      replace (Z.of_N (len (append_varuint (N.of_nat (length es)))) <=? 0)%Z with false by (symmetry; apply Z.leb_gt; lia).
      rewrite N2Z.id.
      assert (Hge : N.of_nat (length es) <= len frames) by (apply (frames_len_ge (fun e => entry_body kc vc e) es)).
      rewrite !len_app.
      replace (len (append_varuint (N.of_nat (length es))) + (len frames + len rest)
               - len (append_varuint (N.of_nat (length es))) <? N.of_nat (length es)) with false by (symmetry; apply N.ltb_ge; lia).
      rewrite go_drop_app. cbn [bind]. unfold alloc_guard. rewrite len_app.
      replace (N.of_nat (length es) <=? len frames + len rest) with true by (symmetry; apply N.leb_le; lia).
      cbn [bind]. unfold frames.
      rewrite (g_map_entries_list kc vc (dec vc') (emerge vc vc') (zero vc') Hokk Htk (roundtrip kc Hokk Htk) Hokv Htv A es).
      - cbn [bind]. destruct prior as [| | | | | | | | | |[pm|]| |]; reflexivity.
      - rewrite Forall_forall in *. intros e He. destruct (Hw e He) as [X Y]. destruct (Hfe e He) as (C & D0 & E). auto.
      - fold frames. rewrite !app_length. unfold len in *. lia. }
    split; [intros _; exact D|apply eft_of_decon; [exact Hok0|exact I|exact D]].
  - (* the repeated form of a map *)
    destruct cr as [ | | | | | | | | | | | | | | | | | |kc' vc'| | | ]; try (other_head Hev).
    cbn [evo] in Hev. destruct Hev as [-> Hevv]. cbn [rt_ok] in Hok.
    destruct Hok as (Hokk & Hokv & Htk & Htv).
    destruct (IHv vc' Hokv Hevv) as [A _]. specialize (A Htv).
    split; [intros []|].
    intros fs' g fv cur more consumed fuel Hnd' Hin Hc Hidx Hw Hf Ho Hfuel.
    cbn [wfv] in Hw. destruct fv as [ | | | | | | | | | |[es|]| |]; try contradiction.
    destruct Hf as [_ Hfe]. cbn [map_entries_of] in Hfe. cbn [enc] in *.
    change (flat_map (fun e : val * val => field_tag (CMapProto kc vc) (f_index g)
              ++ lenframe ((if omit kc (fst e) then [] else enc kc (fst e) (field_tag kc 1))
                           ++ (if omit vc (snd e) then [] else enc vc (snd e) (field_tag vc 2)))) es)
      with (flat_map (fun en => field_tag (CMapProto kc vc) (f_index g) ++ lenframe (entry_body kc vc en)) es) in *.
    assert (Hall : Forall (fun e => (omit kc (fst e) = true \/ wfv kc (fst e)) /\ fits kc (fst e) /\
                       (omit vc (snd e) = true \/ wfv vc (snd e)) /\ fits vc (snd e) /\
                       len (entry_body kc vc e) < two64) es).
    { rewrite Forall_forall in *. intros e He. destruct (Hw e He) as [X Y]. destruct (Hfe e He) as (C & D0 & E). auto. }
    assert (Hfind : find_field (stbl fs') (f_index g) = Some (f_slot g, dec (CMapProto kc vc'))).
    { unfold stbl. rewrite (find_field_tbl fs' g Hin Hnd'), Hc. reflexivity. }
    assert (Hmap : forall data prior, dec (CMapProto kc vc') data WTLength prior
                     = (do (m', used) <- read_map_entry (dec kc) (dec vc') (zero kc) (zero vc') data (entries_of prior);
                        Ok (VMap (Some m'), used))).
    { intros data prior. cbn [dec]. destruct prior as [| | | | | | | | | |[pm|]| |]; reflexivity. }
    rewrite (g_field_step_proto_map (stbl fs') (f_index g) (f_slot g) (dec (CMapProto kc vc')) (dec vc') (emerge vc vc') (zero vc')
               kc vc es cur more consumed fuel Hfind Hmap Hokk Htk (roundtrip kc Hokk Htk) Hokv Htv A Hidx Hall Hfuel).
    destruct es as [|e0 es0].
    + cbn [emerge]. unfold slot. rewrite set_nth_self. reflexivity.
    + rewrite emerge_map_proto. reflexivity.
  - leaf_case Hok Hev.
  - leaf_case Hok Hev.
  - leaf_case Hok Hev.
Qed.

(** at the Unmarshal level, for struct types *)
Theorem evolution_any_depth : forall nm n fs nm' n' fs' v prior,
  rt_ok (CStruct nm n fs) -> evo (CStruct nm n fs) (CStruct nm' n' fs') ->
  wfv (CStruct nm n fs) v -> fits (CStruct nm n fs) v ->
  dec (CStruct nm' n' fs') (enc (CStruct nm n fs) v []) WTLength prior
  = Ok (emerge (CStruct nm n fs) (CStruct nm' n' fs') prior v, len (enc (CStruct nm n fs) v [])).
Proof.
  intros nm n fs nm' n' fs' v prior Hok Hev Hw Hf.
  destruct (evolution_deep (CStruct nm n fs) (CStruct nm' n' fs') Hok Hev) as [A _].
  apply (proj1 (A I v prior Hw Hf)). reflexivity.
Qed.
