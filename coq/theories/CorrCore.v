(** Correspondence definitions for the codec-tree properties (C01-C06, C08-C10,
    C12, C17): the case formats the harness emits and the comparison against
    the model, evaluated with vm_compute. *)
From Plenc Require Import Base Varint Wire JsonAny Codec Registry.
Open Scope N_scope.

(** marshal.go *)
Definition marshal (c : codec) (buf : bytes) (v : val) : bytes :=
  if omit c v then buf else buf ++ enc c v [].
Definition unmarshal (c : codec) (data : bytes) (prior : val) : res val :=
  do (v, _) <- dec c data (wire c) prior; Ok v.

(** ** Equivalence of values up to the order of map entries *)
Fixpoint jv_equivb (a b : jv) {struct a} : bool :=
  match a, b with
  | JArr l, JArr m =>
    (fix eqb (l m : list jv) := match l, m with [], [] => true | x :: l', y :: m' => jv_equivb x y && eqb l' m' | _, _ => false end) l m
  | JObj l, JObj m =>
    Nat.eqb (length l) (length m) &&
    (fix all (l : list (bytes * jv)) := match l with
       | [] => true
       | (k, x) :: l' =>
         existsb (fun ky => bytes_eqb k (fst ky) && jv_equivb x (snd ky)) m && all l'
       end) l
  | _, _ => jv_eqb a b
  end.
Fixpoint val_equivb (a b : val) {struct a} : bool :=
  match a, b with
  | VPtr (Some x), VPtr (Some y) => val_equivb x y
  | VNull p x, VNull q y => Bool.eqb p q && val_equivb x y
  | VStruct l, VStruct m | VSlice l, VSlice m =>
    (fix eqb (l m : list val) := match l, m with [], [] => true | x :: l', y :: m' => val_equivb x y && eqb l' m' | _, _ => false end) l m
  | VMap (Some l), VMap (Some m) =>
    Nat.eqb (length l) (length m) &&
    (fix all (l : list (val * val)) := match l with
       | [] => true
       | (k, x) :: l' => existsb (fun ky => val_equivb k (fst ky) && val_equivb x (snd ky)) m && all l'
       end) l
  | VJson p x, VJson q y => Bool.eqb p q && jv_equivb x y
  | _, _ => val_eqb a b
  end.

(** does the value contain a map with more than one entry? (then the bytes are
    only determined up to entry order) *)
Fixpoint jv_multi (a : jv) : bool :=
  match a with
  | JArr l => existsb jv_multi l
  | JObj l => Nat.ltb 1 (length l) || existsb (fun kx => jv_multi (snd kx)) l
  | _ => false
  end.
Fixpoint multi_map (a : val) : bool :=
  match a with
  | VPtr (Some x) | VNull _ x => multi_map x
  | VStruct l | VSlice l => existsb multi_map l
  | VMap (Some l) => Nat.ltb 1 (length l) || existsb (fun kx => multi_map (fst kx) || multi_map (snd kx)) l
  | VJson _ j => jv_multi j
  | _ => false
  end.

(** [reorder v w]: [v] with the entries of its maps put in the order in which
    the equal keys occur in [w] (the value decoded from the implementation's
    bytes, whose maps are in wire order).  Encoding the result must reproduce
    the implementation's bytes exactly. *)
(** keys are matched up to the contents of the fields plenc does not encode *)
Fixpoint erase_skips (a : val) : val :=
  match a with
  | VSkip _ => VSkip 0
  | VPtr (Some x) => VPtr (Some (erase_skips x))
  | VNull p x => VNull p (erase_skips x)
  | VStruct l => VStruct (map erase_skips l)
  | VSlice l => VSlice (map erase_skips l)
  | _ => a
  end.
Definition key_eqb (a b : val) : bool := val_eqb (erase_skips a) (erase_skips b).
Fixpoint key_lookup (k : val) (m : list (val * val)) : option val :=
  match m with [] => None | (k', y) :: r => if key_eqb k k' then Some y else key_lookup k r end.

Definition order_like {K V} (keq : K -> K -> bool) (m : list (K * V)) (l : list (K * V)) : list (K * V) :=
  flat_map (fun ky => match find (fun kx => keq (fst kx) (fst ky)) l with Some kx => [kx] | None => [] end) m
  ++ filter (fun kx => negb (existsb (fun ky => keq (fst kx) (fst ky)) m)) l.
Fixpoint jlookup (k : bytes) (m : list (bytes * jv)) : option jv :=
  match m with [] => None | (k', y) :: r => if bytes_eqb k k' then Some y else jlookup k r end.
Fixpoint jv_reorder (a b : jv) {struct a} : jv :=
  match a, b with
  | JArr l, JArr m =>
    JArr ((fix go (l : list jv) (m : list jv) : list jv :=
             match l, m with
             | x :: l', y :: m' => jv_reorder x y :: go l' m'
             | _, _ => l
             end) l m)
  | JObj l, JObj m =>
    JObj (order_like bytes_eqb m
      ((fix go (l : list (bytes * jv)) : list (bytes * jv) :=
          match l with
          | [] => []
          | (k, x) :: l' => (k, match jlookup k m with Some y => jv_reorder x y | None => x end) :: go l'
          end) l))
  | _, _ => a
  end.
Fixpoint reorder (a b : val) {struct a} : val :=
  match a, b with
  | VPtr (Some x), VPtr (Some y) => VPtr (Some (reorder x y))
  | VNull p x, VNull q y => VNull p (reorder x y)
  | VStruct l, VStruct m =>
    VStruct ((fix go (l : list val) (m : list val) : list val :=
                match l, m with
                | x :: l', y :: m' => reorder x y :: go l' m'
                | _, _ => l
                end) l m)
  | VSlice l, VSlice m =>
    VSlice ((fix go (l : list val) (m : list val) : list val :=
                match l, m with
                | x :: l', y :: m' => reorder x y :: go l' m'
                | _, _ => l
                end) l m)
  | VMap (Some l), VMap (Some m) =>
    VMap (Some (order_like key_eqb m
      ((fix go (l : list (val * val)) : list (val * val) :=
          match l with
          | [] => []
          | (k, x) :: l' => (k, match key_lookup k m with Some y => reorder x y | None => x end) :: go l'
          end) l)))
  | VJson p x, VJson q y => VJson p (jv_reorder x y)
  | _, _ => a
  end.

Inductive outcome := OOk | OErr | OPanic | OHang | OFatal.
Definition outcome_eqb (a b : outcome) : bool :=
  match a, b with OOk, OOk | OErr, OErr | OPanic, OPanic | OHang, OHang | OFatal, OFatal => true | _, _ => false end.
Definition outcome_of {A} (r : res A) : outcome :=
  match r with Ok _ => OOk | Err => OErr | Panic _ => OPanic | Hang _ => OHang | Blowup _ => OFatal end.

Inductive decout := DOk (v : val) | DErr | DPanic | DHang | DFatal.
Definition decout_of (r : res val) : decout :=
  match r with Ok v => DOk v | Err => DErr | Panic _ => DPanic | Hang _ => DHang | Blowup _ => DFatal end.
Definition decout_equivb (a b : decout) : bool :=
  match a, b with
  | DOk x, DOk y => val_equivb x y
  | DErr, DErr | DPanic, DPanic | DHang, DHang | DFatal, DFatal => true
  | _, _ => false
  end.

(** The harness emits one of these per case; every field after the inputs is an
    observation of the implementation. *)
Inductive corecase :=
(* CodecForType(t) with tag: ok / error / panic *)
| KBuild (c : cfg) (e : env) (t : ty) (tag : bytes) (fuel : nat) (out : outcome)
(* data = Marshal(nil, &v); Unmarshal(data, &fresh) = dec_obs *)
| KRT (c : cfg) (e : env) (t : ty) (fuel : nat) (v : val) (data : bytes) (dec_obs : val)
(* Codec.Size / Append with tag nil and [ftag], and Read of the nil-tag body *)
| KLaws (c : cfg) (e : env) (t : ty) (fuel : nat) (v : val) (ftag : bytes)
        (size_nil size_tag : N) (app_nil app_tag : bytes) (read_n : N)
(* out = Marshal(prefix, v), by value or by pointer *)
| KMarshal (c : cfg) (e : env) (t : ty) (fuel : nat) (v : val) (prefix : bytes) (byvalue : bool) (out : bytes)
(* Unmarshal(data, &target) where target held [prior] *)
| KDec (c : cfg) (e : env) (t : ty) (fuel : nat) (data : bytes) (prior : val) (out : decout).

(** what the model expects, in the same format (observations replaced) *)
Inductive expect :=
| EOutcome (o : outcome)
| EDec (d : decout)
| EBytes (b : bytes)
| ELaws (size_nil size_tag : N) (app_nil app_tag : bytes) (read_n : res N)
| ERT (model_bytes : bytes) (model_dec_of_model_bytes model_dec_of_impl_bytes : decout) (reenc : bytes)
| ENoCodec (o : outcome).

Definition build (c : cfg) (e : env) (fuel : nat) (t : ty) (tag : bytes) : res codec :=
  codec_for c e fuel t tag.

(** [check k] = None when implementation and model agree on case [k], else the
    model's expectation.  [mode] selects which observable is compared:
    0 all, 1 decoded values only (C01/C09/C10), 2 bytes only (C02/C06/C12). *)
Definition check (mode : N) (k : corecase) : option expect :=
  match k with
  | KBuild c e t tag fuel out =>
    let o := outcome_of (build c e fuel t tag) in
    if outcome_eqb o out then None else Some (EOutcome o)
  | KRT c e t fuel v data dec_obs =>
    match build c e fuel t [] with
    | Ok cd =>
      let mb := marshal cd [] v in
      let d1 := decout_of (unmarshal cd mb (zero cd)) in
      let d2 := decout_of (unmarshal cd data (zero cd)) in
      let re := match d2 with DOk x => marshal cd [] (reorder v x) | _ => [] end in
      let ok_vals := decout_equivb d1 (DOk dec_obs) && decout_equivb d2 (DOk dec_obs) in
      let ok_bytes := bytes_eqb re data && (len mb =? len data) && (multi_map v || bytes_eqb mb data) in
      if (if mode =? 1 then ok_vals else if mode =? 2 then ok_bytes else ok_vals && ok_bytes)
      then None else Some (ERT mb d1 d2 re)
    | r => Some (ENoCodec (outcome_of r))
    end
  | KLaws c e t fuel v ftag sn st an at_ rn =>
    match build c e fuel t [] with
    | Ok cd =>
      let msn := size cd v [] in
      let mst := size cd v ftag in
      let man := enc cd v [] in
      let mat := enc cd v ftag in
      let mrd := do (_, n) <- dec cd an (wire cd) (zero cd); Ok n in
      let v' := match dec cd an (wire cd) (zero cd) with Ok (x, _) => reorder v x | _ => v end in
      let bytes_ok := bytes_eqb (enc cd v' []) an && (multi_map v || (bytes_eqb man an && bytes_eqb mat at_)) in
      if (msn =? sn) && (mst =? st) && (len man =? len an) && (len mat =? len at_) && bytes_ok
         && (match mrd with Ok n => n =? rn | _ => false end)
      then None else Some (ELaws msn mst man mat mrd)
    | r => Some (ENoCodec (outcome_of r))
    end
  | KMarshal c e t fuel v prefix byvalue out =>
    match build c e fuel t [] with
    | Ok cd =>
      let mb := marshal cd prefix v in
      let v' := match unmarshal cd (skipn (length prefix) out) (zero cd) with Ok x => reorder v x | _ => v end in
      if (len mb =? len out) && bytes_eqb (marshal cd prefix v') out
      then None else Some (EBytes mb)
    | r => Some (ENoCodec (outcome_of r))
    end
  | KDec c e t fuel data prior out =>
    match build c e fuel t [] with
    | Ok cd =>
      let d := decout_of (unmarshal cd data prior) in
      if decout_equivb d out then None else Some (EDec d)
    | Err => (* no codec: Unmarshal returns that error *)
      match out with DErr => None | _ => Some (ENoCodec OErr) end
    | r => Some (ENoCodec (outcome_of r))
    end
  end.

Fixpoint mismatches_core (mode : N) (base : N) (cs : list corecase) : list (N * expect) :=
  match cs with
  | [] => []
  | k :: rest =>
    match check mode k with
    | None => mismatches_core mode (base + 1) rest
    | Some e => (base, e) :: mismatches_core mode (base + 1) rest
    end
  end.
