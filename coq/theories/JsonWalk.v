(** C16 / C13: walking the bytes of a JSON-model value with the JSON codecs'
    Descriptor emits exactly the Outputter events of that value. *)
From Plenc Require Import Base Varint Wire VarintProofs WireProofs JsonAny Codec SizeProofs JsonProofs JsonRoundTrip Descriptor.
Open Scope N_scope.

(** the Outputter calls that render a JSON-model value *)
Fixpoint jev (j : jv) : list ev :=
  match j with
  | JNil => [EvRaw (ascii "null")]
  | JStr s => [EvStr s]
  | JInt z => [EvInt z]
  | JFloat b => [EvF64 b]
  | JBool b => [EvBool b]
  | JArr l => [EvStartArr] ++ flat_map jev l ++ [EvEndArr]
  | JObj l => [EvStartObj] ++ flat_map (fun kx => EvName (fst kx) :: jev (snd kx)) l ++ [EvEndObj]
  | JNum s => [EvRaw s]
  end.

(** ** one step of readJSONObjectKV *)
Lemma wstep_type f t more c jt have acc : t < 128 ->
  walk_jkv (S f) (16 :: t :: more) c jt have acc = walk_jkv f more (c + 1 + 1) t have acc.
Proof.
  intros Ht. cbn [walk_jkv]. rewrite read_tag_16. cbv beta iota.
  change (1 <=? 0)%Z with false. cbv iota. change (Z.to_N 1) with 1. rewrite go_drop_1.
  change (2 =? 1)%Z with false. change (2 =? 2)%Z with true. cbv iota.
  rewrite (read_varuint_small t more Ht). cbv beta iota. change (1 <? 0)%Z with false. cbv iota.
  change (Z.to_N 1) with 1. rewrite go_drop_1. reflexivity.
Qed.

Lemma wstep_key f more c jt have acc k : len k < two64 ->
  walk_jkv (S f) (10 :: lenframe k ++ more) c jt have acc
  = walk_jkv f more (c + 1 + len (append_varuint (len k)) + len k) jt have (acc ++ [EvName k]).
Proof.
  intros Hk. cbn [walk_jkv]. rewrite read_tag_10. cbv beta iota.
  change (1 <=? 0)%Z with false. cbv iota. change (Z.to_N 1) with 1. rewrite go_drop_1.
  change (1 =? 1)%Z with true. cbv iota.
  rewrite read_chunk_frame by exact Hk. rewrite go_drop_app. reflexivity.
Qed.

Lemma wstep_str f more c jt have acc s : len s < two64 -> jt = 1 \/ jt = 7 ->
  walk_jkv (S f) (26 :: lenframe s ++ more) c jt have acc
  = walk_jkv f more (c + 1 + len (append_varuint (len s)) + len s) jt true
      (acc ++ [if jt =? 1 then EvStr s else EvRaw s]).
Proof.
  intros Hs Hjt. cbn [walk_jkv]. rewrite read_tag_26. cbv beta iota.
  change (1 <=? 0)%Z with false. cbv iota. change (Z.to_N 1) with 1. rewrite go_drop_1.
  change (3 =? 1)%Z with false. change (3 =? 2)%Z with false. change (3 =? 3)%Z with true. cbv iota.
  replace ((jt =? 1) || (jt =? 7)) with true by (destruct Hjt as [-> | ->]; reflexivity).
  rewrite read_chunk_frame by exact Hs. rewrite go_drop_app. reflexivity.
Qed.

Lemma wstep_int f more c have acc z : int64_ok z ->
  walk_jkv (S f) (24 :: append_varint z ++ more) c 2 have acc
  = walk_jkv f more (c + 1 + len (append_varint z)) 2 true (acc ++ [EvInt z]).
Proof.
  intros Hz. cbn [walk_jkv]. rewrite read_tag_24. cbv beta iota.
  change (1 <=? 0)%Z with false. cbv iota. change (Z.to_N 1) with 1. rewrite go_drop_1.
  change (3 =? 1)%Z with false. change (3 =? 2)%Z with false. change (3 =? 3)%Z with true. cbv iota.
  change ((2 =? 1) || (2 =? 7)) with false. change (2 =? 2) with true. cbv iota.
  rewrite read_append_varint by exact Hz. cbv beta iota.
  replace (Z.of_N (len (append_varint z)) <? 0)%Z with false by (symmetry; apply Z.ltb_ge; lia).
  rewrite N2Z.id, go_drop_app. reflexivity.
Qed.

Lemma wstep_bool f more c have acc (b : bool) :
  walk_jkv (S f) (24 :: (if b then 1 else 0) :: more) c 4 have acc
  = walk_jkv f more (c + 1 + 1) 4 true (acc ++ [EvBool b]).
Proof.
  cbn [walk_jkv]. rewrite read_tag_24. cbv beta iota.
  change (1 <=? 0)%Z with false. cbv iota. change (Z.to_N 1) with 1. rewrite go_drop_1.
  change (3 =? 1)%Z with false. change (3 =? 2)%Z with false. change (3 =? 3)%Z with true. cbv iota.
  change ((4 =? 1) || (4 =? 7)) with false. change (4 =? 2) with false. change (4 =? 3) with false.
  change (4 =? 4) with true. cbv iota.
  rewrite read_varuint_small by (destruct b; lia). cbv beta iota. change (1 <? 0)%Z with false. cbv iota.
  change (Z.to_N 1) with 1. rewrite go_drop_1. destruct b; reflexivity.
Qed.

Lemma wstep_float f more c have acc b : b < two64 ->
  walk_jkv (S f) (25 :: le_bytes 8 b ++ more) c 3 have acc
  = walk_jkv f more (c + 1 + 8) 3 true (acc ++ [EvF64 b]).
Proof.
  intros Hb. cbn [walk_jkv]. rewrite read_tag_25. cbv beta iota.
  change (1 <=? 0)%Z with false. cbv iota. change (Z.to_N 1) with 1. rewrite go_drop_1.
  change (3 =? 1)%Z with false. change (3 =? 2)%Z with false. change (3 =? 3)%Z with true. cbv iota.
  change ((3 =? 1) || (3 =? 7)) with false. change (3 =? 2) with false. change (3 =? 3) with true. cbv iota.
  rewrite len_app, len_le_bytes. change (N.of_nat 8) with 8.
  replace (8 + len more <? 8) with false by (symmetry; apply N.ltb_ge; lia).
  replace 8 with (len (le_bytes 8 b)) at 1 by apply len_le_bytes. rewrite go_drop_app.
  rewrite firstn_8_le, le_value_bytes by exact Hb. reflexivity.
Qed.

Lemma wstep_nested f more c have acc jt body evs : jt = 5 \/ jt = 6 ->
  walk_json f (jt =? 6) (body ++ more) = wok evs (len body) ->
  walk_jkv (S f) (27 :: body ++ more) c jt have acc
  = walk_jkv f more (c + 1 + len body) jt true (acc ++ evs).
Proof.
  intros Hjt Hw. cbn [walk_jkv]. rewrite read_tag_27. cbv beta iota.
  change (1 <=? 0)%Z with false. cbv iota. change (Z.to_N 1) with 1. rewrite go_drop_1.
  change (3 =? 1)%Z with false. change (3 =? 2)%Z with false. change (3 =? 3)%Z with true. cbv iota.
  replace ((jt =? 1) || (jt =? 7)) with false by (destruct Hjt as [-> | ->]; reflexivity).
  replace (jt =? 2) with false by (destruct Hjt as [-> | ->]; reflexivity).
  replace (jt =? 3) with false by (destruct Hjt as [-> | ->]; reflexivity).
  replace (jt =? 4) with false by (destruct Hjt as [-> | ->]; reflexivity).
  replace ((jt =? 5) || (jt =? 6)) with true by (destruct Hjt as [-> | ->]; reflexivity).
  cbv zeta. rewrite Hw. cbn [w_out w_ev wok]. rewrite (go_drop_app _ body more). reflexivity.
Qed.

Lemma walk_jkv_nil f c jt have acc :
  walk_jkv f [] c jt have acc = wok (acc ++ (if negb have && (jt =? 0) then [EvRaw (ascii "null")] else [])) c.
Proof. destruct f; reflexivity. Qed.

(** ** the entry loop *)
Lemma wentries_list {A} kv (h : A -> bytes) (evs : A -> list ev) : forall (l : list A) k more consumed acc,
  Forall (fun x => len (h x) < two64 /\ h x <> [] /\ kv (h x) = wok (evs x) (len (h x))) l ->
  (length l <= k)%nat ->
  wentries kv k (N.of_nat (length l)) (flat_map (fun x => lenframe (h x)) l ++ more) consumed acc
  = wok (acc ++ flat_map evs l) (consumed + len (flat_map (fun x => lenframe (h x)) l)).
Proof.
  induction l as [|x l IH]; intros k more consumed acc Hall Hk.
  - destruct k; cbn [wentries length N.of_nat N.eqb flat_map]; rewrite app_nil_r, len_nil, N.add_0_r; reflexivity.
  - pose proof (Forall_inv Hall) as (Hlx & Hne & Hkv). pose proof (Forall_inv_tail Hall) as Hall'.
    destruct k as [|k']; [cbn in Hk; lia|].
    cbn [wentries]. replace (N.of_nat (length (x :: l)) =? 0) with false by (symmetry; apply N.eqb_neq; cbn [length]; lia).
    cbn [flat_map]. change (lenframe (h x)) with (append_varuint (len (h x)) ++ h x).
    rewrite <- !app_assoc, read_append_varuint by exact Hlx.
    cbv beta iota.
    pose proof (append_varuint_length_bounds (len (h x))) as Hb.
    replace (Z.of_N (len (append_varuint (len (h x)))) <=? 0)%Z with false by (symmetry; apply Z.leb_gt; lia).
    rewrite N2Z.id, go_drop_app.
    replace (len (h x) =? 0) with false
      by (symmetry; apply N.eqb_neq; destruct (h x); [congruence|rewrite len_cons; lia]).
    rewrite len_app. replace (len (h x) + len (flat_map (fun x0 => lenframe (h x0)) l ++ more) <? len (h x)) with false
      by (symmetry; apply N.ltb_ge; lia).
    rewrite go_take_app'. cbv zeta. rewrite Hkv. cbn [w_out w_ev wok]. rewrite go_drop_app.
    replace (N.of_nat (length (x :: l)) - 1) with (N.of_nat (length l)) by (cbn [length]; lia).
    rewrite IH by (try exact Hall'; cbn [length] in Hk; lia).
    cbn [flat_map]. rewrite <- app_assoc. f_equal.
    rewrite !len_app. lia.
Qed.

Lemma walk_json_body {A} f isobj (h : A -> bytes) (evs : A -> list ev) (l : list A) more :
  N.of_nat (length l) < two63 ->
  Forall (fun x => len (h x) < two64 /\ h x <> [] /\ walk_jkv f (h x) 0 0 false [] = wok (evs x) (len (h x))) l ->
  let body := append_varuint (N.of_nat (length l)) ++ flat_map (fun x => lenframe (h x)) l in
  walk_json (S f) isobj (body ++ more)
  = wok ([if isobj then EvStartObj else EvStartArr] ++ flat_map evs l ++ [if isobj then EvEndObj else EvEndArr]) (len body).
Proof.
  intros Hc Hall body. cbn [walk_json]. unfold body. rewrite <- app_assoc.
  rewrite read_append_varuint by (unfold two63, two64 in *; lia). cbv beta iota.
  pose proof (append_varuint_length_bounds (N.of_nat (length l))) as Hb.
  replace (Z.of_N (len (append_varuint (N.of_nat (length l)))) <? 0)%Z with false by (symmetry; apply Z.ltb_ge; lia).
  rewrite N2Z.id, go_drop_app.
  replace (N.of_nat (length l) <? two63) with true by (symmetry; apply N.ltb_lt; exact Hc).
  cbv zeta. rewrite (wentries_list _ h evs).
  - cbn [w_ev w_out wok app]. rewrite len_app. reflexivity.
  - exact Hall.
  - pose proof (frames_length h l). rewrite !app_length. lia.
Qed.

(** container lengths fit Go's int (the walker's loop counter) *)
Fixpoint jcount (j : jv) : Prop :=
  match j with
  | JArr l => N.of_nat (length l) < two63 /\
              (fix all (l : list jv) : Prop := match l with [] => True | x :: r => jcount x /\ all r end) l
  | JObj l => N.of_nat (length l) < two63 /\
              (fix all (l : list (bytes * jv)) : Prop := match l with [] => True | kx :: r => jcount (snd kx) /\ all r end) l
  | _ => True
  end.
Lemma jcount_arr_items l :
  (fix all (l : list jv) : Prop := match l with [] => True | x :: r => jcount x /\ all r end) l -> Forall jcount l.
Proof. induction l as [|x r IH]; intros H; constructor; [apply H|apply IH, H]. Qed.
Lemma jcount_obj_items l :
  (fix all (l : list (bytes * jv)) : Prop := match l with [] => True | kx :: r => jcount (snd kx) /\ all r end) l ->
  Forall (fun kx => jcount (snd kx)) l.
Proof. induction l as [|x r IH]; intros H; constructor; [apply H|apply IH, H]. Qed.

Definition WJ (j : jv) : Prop :=
  jfits j -> wfj j -> jcount j -> forall fuel c acc, (4 * jh j <= fuel)%nat ->
  walk_jkv fuel (jenc_value j) c 0 false acc = wok (acc ++ jev j) (c + len (jenc_value j)).

Lemma jenc_value_nonempty j : jenc_value j <> [].
Proof. destruct j; cbn [jenc_value app]; discriminate. Qed.

Theorem json_value_walk : forall j, WJ j.
Proof.
  induction j as [|s|z|b|b|l IH|l IH|s] using jv_ind'; intros Hf Hw Hc fuel c acc Hfuel;
    cbn [jh] in Hfuel; cbn [jfits wfj jcount jev] in *.
  - destruct fuel as [|f1]; [lia|]. cbn [jenc_value app]. rewrite wstep_type by lia. rewrite walk_jkv_nil.
    cbn [negb andb N.eqb]. f_equal. rewrite !len_cons, len_nil. lia.
  - destruct fuel as [|[|f2]]; try lia. cbn [jenc_value app]. rewrite wstep_type by lia.
    change (26 :: append_varuint (len s) ++ s) with (26 :: lenframe s).
    rewrite <- (app_nil_r (lenframe s)), wstep_str by (try exact Hf; left; reflexivity).
    rewrite walk_jkv_nil. cbn [negb andb]. rewrite app_nil_r. change (1 =? 1) with true. cbv iota. f_equal.
    rewrite !len_cons, app_nil_r. unfold lenframe. rewrite len_app. lia.
  - destruct fuel as [|[|f2]]; try lia. cbn [jenc_value app]. rewrite wstep_type by lia.
    rewrite <- (app_nil_r (append_varint z)), wstep_int by exact Hf. rewrite walk_jkv_nil.
    cbn [negb andb]. rewrite app_nil_r. f_equal. rewrite !len_cons, app_nil_r. lia.
  - destruct fuel as [|[|f2]]; try lia. cbn [jenc_value app]. rewrite wstep_type by lia.
    rewrite <- (app_nil_r (le_bytes 8 b)), wstep_float by exact Hw. rewrite walk_jkv_nil.
    cbn [negb andb]. rewrite app_nil_r. f_equal. rewrite !len_cons, app_nil_r, len_le_bytes. lia.
  - destruct fuel as [|[|f2]]; try lia. cbn [jenc_value app]. rewrite wstep_type by lia.
    rewrite wstep_bool. rewrite walk_jkv_nil. cbn [negb andb]. rewrite app_nil_r. f_equal.
    rewrite !len_cons, len_nil. lia.
  - (* array *)
    destruct Hf as [Hcnt Hall]. apply jarr_items in Hall. apply wfj_arr_items in Hw.
    destruct Hc as [Hc63 Hc]. apply jcount_arr_items in Hc.
    destruct fuel as [|[|[|[|f4]]]]; try lia.
    match goal with |- walk_jkv _ ?e _ _ _ _ = wok _ (_ + len ?e') =>
      change e with (16 :: 5 :: 27 :: jarr_body l); change e' with (16 :: 5 :: 27 :: jarr_body l) end.
    rewrite wstep_type by lia.
    rewrite <- (app_nil_r (jarr_body l)) at 1.
    rewrite (wstep_nested (S (S f4)) [] (c + 1 + 1) false acc 5 (jarr_body l) ([EvStartArr] ++ flat_map jev l ++ [EvEndArr]));
      [|left; reflexivity|].
    + rewrite walk_jkv_nil. cbn [negb andb]. rewrite app_nil_r. f_equal. rewrite !len_cons. lia.
    + change (5 =? 6) with false. unfold jarr_body.
      rewrite (walk_json_body (S f4) false jenc_value jev l []); [reflexivity|exact Hc63|].
      rewrite Forall_forall in *. intros x Hx. destruct (Hall x Hx) as [Hjx Hlx].
      split; [exact Hlx|]. split; [apply jenc_value_nonempty|].
      rewrite (IH x Hx Hjx (Hw x Hx) (Hc x Hx)); [reflexivity|].
      pose proof (max_le_fold jh l x Hx). lia.
  - (* object *)
    destruct Hf as [Hcnt Hall]. apply jobj_items in Hall. destruct Hw as [Hnd Hw]. apply wfj_obj_items in Hw.
    destruct Hc as [Hc63 Hc]. apply jcount_obj_items in Hc.
    destruct fuel as [|[|[|[|f4]]]]; try lia.
    match goal with |- walk_jkv _ ?e _ _ _ _ = wok _ (_ + len ?e') =>
      change e with (16 :: 6 :: 27 :: jmap_body l); change e' with (16 :: 6 :: 27 :: jmap_body l) end.
    rewrite wstep_type by lia.
    rewrite <- (app_nil_r (jmap_body l)) at 1.
    rewrite (wstep_nested (S (S f4)) [] (c + 1 + 1) false acc 6 (jmap_body l)
               ([EvStartObj] ++ flat_map (fun kx => EvName (fst kx) :: jev (snd kx)) l ++ [EvEndObj]));
      [|right; reflexivity|].
    + rewrite walk_jkv_nil. cbn [negb andb]. rewrite app_nil_r. f_equal. rewrite !len_cons. lia.
    + change (6 =? 6) with true. unfold jmap_body.
      rewrite (walk_json_body (S f4) true (fun kx : bytes * jv => jenc_kv (fst kx) (snd kx))
                 (fun kx => EvName (fst kx) :: jev (snd kx)) l []); [reflexivity|exact Hc63|].
      rewrite Forall_forall in *. intros kx Hx. destruct (Hall kx Hx) as (Hjx & Hk & Hlx).
      split; [exact Hlx|]. split; [unfold jenc_kv; cbn [app]; discriminate|].
      unfold jenc_kv. cbn [app].
      replace (10 :: append_varuint (len (fst kx)) ++ fst kx ++ jenc_value (snd kx))
        with (10 :: lenframe (fst kx) ++ jenc_value (snd kx)) by (unfold lenframe; rewrite <- app_assoc; reflexivity).
      rewrite wstep_key by exact Hk.
      rewrite (IH kx Hx Hjx (Hw kx Hx) (Hc kx Hx)).
      * cbn [app]. f_equal. rewrite !len_cons, !len_app. unfold lenframe. rewrite len_app. lia.
      * pose proof (max_le_fold (fun kx : bytes * jv => jh (snd kx)) l kx Hx). cbv beta in *. lia.
  - destruct fuel as [|[|f2]]; try lia. cbn [jenc_value app]. rewrite wstep_type by lia.
    change (26 :: append_varuint (len s) ++ s) with (26 :: lenframe s).
    rewrite <- (app_nil_r (lenframe s)), wstep_str by (try exact Hf; right; reflexivity).
    rewrite walk_jkv_nil. cbn [negb andb]. rewrite app_nil_r. change (7 =? 1) with false. cbv iota. f_equal.
    rewrite !len_cons, app_nil_r. unfold lenframe. rewrite len_app. lia.
Qed.

(** the codecs' Descriptors (FieldTypeJSONArray / FieldTypeJSONObject) walked
    over the codecs' own output *)
Theorem json_array_walk : forall l more, jfits (JArr l) -> wfj (JArr l) -> jcount (JArr l) ->
  walk_json (jfuel (jarr_body l ++ more)) false (jarr_body l ++ more) = wok (jev (JArr l)) (len (jarr_body l)).
Proof.
  intros l more Hf Hw Hc. pose proof Hf as [Hcnt Hall]. apply jarr_items in Hall.
  cbn [wfj] in Hw. apply wfj_arr_items in Hw. destruct Hc as [Hc63 Hc]. apply jcount_arr_items in Hc.
  unfold jfuel. replace (2 * length (jarr_body l ++ more) + 2)%nat with (S (2 * length (jarr_body l ++ more) + 1)) by lia.
  unfold jarr_body. rewrite (walk_json_body _ false jenc_value jev l more); [reflexivity|exact Hc63|].
  rewrite Forall_forall in *. intros x Hx. destruct (Hall x Hx) as [Hjx Hlx].
  split; [exact Hlx|]. split; [apply jenc_value_nonempty|].
  rewrite (json_value_walk x Hjx (Hw x Hx) (Hc x Hx)); [reflexivity|].
  pose proof (jh_len x). pose proof (in_flat_len jenc_value l x Hx). rewrite !app_length. lia.
Qed.

Theorem json_map_walk : forall l more, jfits (JObj l) -> wfj (JObj l) -> jcount (JObj l) ->
  walk_json (jfuel (jmap_body l ++ more)) true (jmap_body l ++ more) = wok (jev (JObj l)) (len (jmap_body l)).
Proof.
  intros l more Hf Hw Hc. pose proof Hf as [Hcnt Hall]. apply jobj_items in Hall.
  destruct Hw as [Hnd Hw]. apply wfj_obj_items in Hw. destruct Hc as [Hc63 Hc]. apply jcount_obj_items in Hc.
  unfold jfuel. replace (2 * length (jmap_body l ++ more) + 2)%nat with (S (S (2 * length (jmap_body l ++ more)))) by lia.
  unfold jmap_body.
  rewrite (walk_json_body _ true (fun kx : bytes * jv => jenc_kv (fst kx) (snd kx))
             (fun kx => EvName (fst kx) :: jev (snd kx)) l more); [reflexivity|exact Hc63|].
  rewrite Forall_forall in *. intros kx Hx. destruct (Hall kx Hx) as (Hjx & Hk & Hlx).
  split; [exact Hlx|]. split; [unfold jenc_kv; cbn [app]; discriminate|].
  unfold jenc_kv. cbn [app].
  replace (10 :: append_varuint (len (fst kx)) ++ fst kx ++ jenc_value (snd kx))
    with (10 :: lenframe (fst kx) ++ jenc_value (snd kx)) by (unfold lenframe; rewrite <- app_assoc; reflexivity).
  rewrite wstep_key by exact Hk.
  rewrite (json_value_walk (snd kx) Hjx (Hw kx Hx) (Hc kx Hx)).
  - cbn [app]. f_equal. rewrite !len_cons, !len_app. unfold lenframe. rewrite len_app. lia.
  - pose proof (jh_len (snd kx)).
    pose proof (in_flat_len (fun kx : bytes * jv => jenc_kv (fst kx) (snd kx)) l kx Hx) as Hl. cbv beta in Hl.
    unfold jenc_kv in *. cbn [app] in *. rewrite !app_length in *. cbn [length] in *. rewrite !app_length in *. lia.
Qed.

(** ** through the Descriptor and the JSON outputter *)
Theorem walk_desc_jarr : forall d p l more, descriptor_of CJArr = Ok d ->
  jfits (JArr l) -> wfj (JArr l) -> jcount (JArr l) ->
  walk d (enc CJArr (VJson p (JArr l)) [] ++ more) = wok (jev (JArr l)) (len (enc CJArr (VJson p (JArr l)) [])).
Proof.
  intros d p l more Hd Hf Hw Hc. injection Hd as <-. cbn [enc app].
  change (walk (simple FTJSONArray LTNone) (jarr_body l ++ more))
    with (walk_json (jfuel (jarr_body l ++ more)) false (jarr_body l ++ more)).
  apply json_array_walk; assumption.
Qed.

Theorem walk_desc_jmap : forall d p l more, descriptor_of CJMap = Ok d ->
  jfits (JObj l) -> wfj (JObj l) -> jcount (JObj l) ->
  walk d (enc CJMap (VJson p (JObj l)) [] ++ more) = wok (jev (JObj l)) (len (enc CJMap (VJson p (JObj l)) [])).
Proof.
  intros d p l more Hd Hf Hw Hc. injection Hd as <-. cbn [enc app].
  change (walk (simple FTJSONObject LTNone) (jmap_body l ++ more))
    with (walk_json (jfuel (jmap_body l ++ more)) true (jmap_body l ++ more)).
  apply json_map_walk; assumption.
Qed.

From Plenc Require Import Output OutputProofs.

(** How the JSON outputter renders number, bool, time and raw tokens is
    strconv's / time's business: [tok] stands for it (it is supplied by the
    harness in the correspondence check). *)
Section Render.
  Variable tok : ev -> bytes.

  Definition oop_of (e : ev) : oop :=
    match e with
    | EvStartObj => OStartObject | EvEndObj => OEndObject
    | EvStartArr => OStartArray | EvEndArr => OEndArray
    | EvName s => ONameField s
    | EvStr s => OScalar (SStr s)
    | e => OScalar (STok (tok e))
    end.

  (** the call tree of a JSON-model value *)
  Fixpoint jtree (j : jv) : jt :=
    match j with
    | JNil => TScalar (STok (tok (EvRaw (ascii "null"))))
    | JStr s => TScalar (SStr s)
    | JInt z => TScalar (STok (tok (EvInt z)))
    | JFloat b => TScalar (STok (tok (EvF64 b)))
    | JBool b => TScalar (STok (tok (EvBool b)))
    | JArr l => TArr (map jtree l)
    | JObj l => TObj (map (fun kx => (fst kx, jtree (snd kx))) l)
    | JNum s => TScalar (STok (tok (EvRaw s)))
    end.

  Lemma jev_ops : forall j, map oop_of (jev j) = ops_of (jtree j).
  Proof.
    induction j as [|s|z|b|b|l IH|l IH|s] using jv_ind'; cbn [jev jtree ops_of map oop_of app]; try reflexivity.
    - rewrite map_app. cbn [map oop_of]. f_equal. f_equal.
      induction IH as [|x l Hx Hl IHl]; cbn [flat_map map]; [reflexivity|].
      rewrite map_app, Hx, IHl. reflexivity.
    - rewrite map_app. cbn [map oop_of]. f_equal. f_equal.
      induction IH as [|x l Hx Hl IHl]; cbn [flat_map map]; [reflexivity|].
      rewrite map_app. cbn [map oop_of fst snd]. rewrite Hx, IHl. reflexivity.
  Qed.

  (** C16 / C13: the bytes of a JSON-model value, walked with the codec's
      Descriptor into a new JSON outputter, give the reference rendering of the
      value's own call tree - a function of the value alone *)
  Theorem json_walk_renders : forall d p l, descriptor_of CJMap = Ok d ->
    jfits (JObj l) -> wfj (JObj l) -> jcount (JObj l) ->
    let w := walk d (enc CJMap (VJson p (JObj l)) []) in
    w_out w = Ok (len (enc CJMap (VJson p (JObj l)) [])) /\
    (do j <- o_run jout_init (map oop_of (w_ev w)); o_done j) = Ok (render 0 false (jtree (JObj l)) ++ [10]).
  Proof.
    intros d p l Hd Hf Hw Hc w. unfold w.
    pose proof (walk_desc_jmap d p l [] Hd Hf Hw Hc) as E. rewrite app_nil_r in E. rewrite E. cbn [w_out w_ev wok]. split; [reflexivity|].
    rewrite jev_ops. apply output_render.
  Qed.

  Theorem json_arr_walk_renders : forall d p l, descriptor_of CJArr = Ok d ->
    jfits (JArr l) -> wfj (JArr l) -> jcount (JArr l) ->
    let w := walk d (enc CJArr (VJson p (JArr l)) []) in
    w_out w = Ok (len (enc CJArr (VJson p (JArr l)) [])) /\
    (do j <- o_run jout_init (map oop_of (w_ev w)); o_done j) = Ok (render 0 false (jtree (JArr l)) ++ [10]).
  Proof.
    intros d p l Hd Hf Hw Hc w. unfold w.
    pose proof (walk_desc_jarr d p l [] Hd Hf Hw Hc) as E. rewrite app_nil_r in E. rewrite E. cbn [w_out w_ev wok]. split; [reflexivity|].
    rewrite jev_ops. apply output_render.
  Qed.
End Render.
