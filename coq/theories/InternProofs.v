(** C19: interning is transparent under every interleaving. *)
From Plenc Require Import Base Intern.
Open Scope N_scope.

Lemma beq_eq : forall a b, beq a b = true -> a = b.
Proof.
  induction a as [|x a IH]; destruct b as [|y b]; cbn; intros H; try discriminate; [reflexivity|].
  apply andb_true_iff in H. destruct H as [H1 H2]. apply N.eqb_eq in H1. subst. f_equal. apply IH. exact H2.
Qed.

(** every entry's content is its key *)
Definition table_ok (t : tbl) : Prop := Forall (fun kc => snd kc = fst kc) t.

Lemma tlookup_ok : forall t k c, table_ok t -> tlookup k t = Some c -> c = k.
Proof.
  induction t as [|[k' c'] t IH]; intros k c Hok H; cbn in H; [discriminate|].
  pose proof (Forall_inv Hok) as Hh. pose proof (Forall_inv_tail Hok) as Ht. cbn in Hh.
  destruct (beq k k') eqn:E.
  - apply beq_eq in E. inversion H. congruence.
  - apply IH; assumption.
Qed.

Lemma table_ok_snoc t d : table_ok t -> table_ok (t ++ [(d, d)]).
Proof. intros H. apply Forall_app. split; [exact H|]. constructor; [reflexivity|constructor]. Qed.

(** what is true of a thread at every moment *)
Definition thread_ok (ins : list bytes) (t : ithread) : Prop :=
  t_results t ++ t_todo t = ins /\ table_ok (t_snap t) /\
  (forall c, t_pending t = Some c -> exists r, t_todo t = c :: r).

Definition IInv (inputs : list (list bytes)) (s : istate) : Prop :=
  table_ok (i_cur s) /\ Forall table_ok (i_history s) /\ Forall2 thread_ok inputs (i_threads s).

Lemma Forall2_set {A} (P : A -> ithread -> Prop) : forall l ts i t t',
  Forall2 P l ts -> nth_error ts i = Some t ->
  (forall a, P a t -> P a t') ->
  Forall2 P l (set_thread i t' ts).
Proof.
  intros l ts i t t' H. revert i. induction H as [|a x l ts Hax Hl IH]; intros i Hn Himp.
  - destruct i; discriminate.
  - destruct i as [|i]; cbn in *.
    + inversion Hn; subst. constructor; [apply Himp; exact Hax|exact Hl].
    + constructor; [exact Hax|]. apply IH; assumption.
Qed.

Lemma finish_ok ins t d r :
  thread_ok ins t -> t_todo t = d :: r -> thread_ok ins (finish t d).
Proof.
  intros (Hr & Hs & Hp) Ht. unfold finish. rewrite Ht. cbn [tl]. repeat split; cbn.
  - rewrite <- Hr, Ht, <- app_assoc. reflexivity.
  - constructor.
  - intros c H. discriminate.
Qed.

Lemma istep_inv inputs s i : IInv inputs s -> IInv inputs (istep s i).
Proof.
  intros (Hcur & Hhist & Hth). unfold istep.
  destruct (nth_error (i_threads s) i) as [t|] eqn:Hn; [|repeat split; assumption].
  destruct (t_todo t) as [|data rest] eqn:Htodo; [repeat split; assumption|].
  destruct (t_pc t) eqn:Hpc.
  - (* PLoad *) repeat split; cbn; try assumption.
    eapply Forall2_set; eauto. intros ins (Hr & Hs & Hp). repeat split; cbn; try assumption.
    + rewrite Htodo in Hr. exact Hr.
    + intros c H. discriminate.
  - (* PLookup *)
    destruct (tlookup data (t_snap t)) as [c|] eqn:Hl.
    + repeat split; cbn; try assumption. eapply Forall2_set; eauto.
      intros ins Hok. destruct Hok as (Hr & Hs & Hp).
      assert (c = data) by (eapply tlookup_ok; eauto). subst c.
      apply finish_ok with (r := rest); [repeat split; assumption|exact Htodo].
    + repeat split; cbn; try assumption. eapply Forall2_set; eauto.
      intros ins (Hr & Hs & Hp). repeat split; cbn; try assumption.
      * rewrite Htodo in Hr. exact Hr.
      * intros c H. discriminate.
  - (* PLock *)
    destruct (i_lock s); [repeat split; assumption|].
    repeat split; cbn; try assumption. eapply Forall2_set; eauto.
    intros ins (Hr & Hs & Hp). repeat split; cbn; try assumption.
    + rewrite Htodo in Hr. exact Hr.
    + intros c H. discriminate.
  - (* PLoad2 *) repeat split; cbn; try assumption. eapply Forall2_set; eauto.
    intros ins (Hr & Hs & Hp). repeat split; cbn; try assumption.
    + rewrite Htodo in Hr. exact Hr.
    + intros c H. discriminate.
  - (* PLookup2 *)
    destruct (tlookup data (t_snap t)) as [c|] eqn:Hl.
    + repeat split; cbn; try assumption. eapply Forall2_set; eauto.
      intros ins (Hr & Hs & Hp).
      assert (c = data) by (eapply tlookup_ok; eauto). subst c.
      repeat split; cbn; try assumption.
      * rewrite Htodo in Hr. exact Hr.
      * intros c H. inversion H; subst. exists rest. reflexivity.
    + repeat split; cbn; try assumption. eapply Forall2_set; eauto.
      intros ins (Hr & Hs & Hp). repeat split; cbn; try assumption.
      * rewrite Htodo in Hr. exact Hr.
      * intros c H. discriminate.
  - (* PInsert *)
    assert (Hsnap : table_ok (t_snap t)).
    { clear -Hth Hn. revert i Hn. induction Hth as [|a x l ts Hax Hl IH]; intros i Hn; destruct i; try discriminate.
      - inversion Hn; subst. apply Hax.
      - eapply IH; eauto. }
    repeat split; cbn.
    + apply table_ok_snoc. exact Hsnap.
    + constructor; [apply table_ok_snoc; exact Hsnap|exact Hhist].
    + eapply Forall2_set; eauto. intros ins (Hr & Hs & Hp). repeat split; cbn; try assumption.
      * rewrite Htodo in Hr. exact Hr.
      * intros c H. inversion H; subst. exists rest. reflexivity.
  - (* PUnlock *)
    destruct (t_pending t) as [c|] eqn:Hp; [|repeat split; assumption].
    repeat split; cbn; try assumption. eapply Forall2_set; eauto.
    intros ins Hok. destruct Hok as (Hr & Hs & Hpp).
    destruct (Hpp c Hp) as [r Hr2]. rewrite Htodo in Hr2. inversion Hr2; subst.
    eapply finish_ok; [repeat split; assumption|eassumption].
  - (* PIdle *) repeat split; assumption.
Qed.

Lemma iinit_inv inputs : IInv inputs (iinit inputs).
Proof.
  unfold iinit, IInv. cbn. repeat split; [constructor|constructor; [constructor|constructor]|].
  induction inputs as [|ins l IH]; cbn; constructor; [|exact IH].
  unfold thread_ok, new_thread. cbn. repeat split; [constructor|intros c H; discriminate].
Qed.

Lemma irun_inv inputs : forall sched s, IInv inputs s -> IInv inputs (irun s sched).
Proof.
  induction sched as [|i sched IH]; intros s H; cbn; [exact H|]. apply IH. apply istep_inv. exact H.
Qed.

(** C19: under every schedule of every set of threads, the strings a thread
    has been handed back so far are exactly its inputs so far: interning never
    changes what Read returns *)
Theorem intern_transparent : forall inputs sched,
  Forall2 (fun ins t => t_results t ++ t_todo t = ins) inputs (i_threads (irun (iinit inputs) sched)).
Proof.
  intros inputs sched. destruct (irun_inv inputs sched _ (iinit_inv inputs)) as (_ & _ & H).
  induction H; constructor; auto. apply H.
Qed.

(** ... and every version of the table ever published maps each key to a
    string with that content (so later growth cannot change what a key yields) *)
Theorem intern_tables_ok : forall inputs sched,
  Forall table_ok (i_history (irun (iinit inputs) sched)).
Proof. intros. apply (irun_inv inputs sched _ (iinit_inv inputs)). Qed.

(** a finished thread returned all of its inputs, in order *)
Corollary intern_finished : forall inputs sched i ins t,
  nth_error inputs i = Some ins -> nth_error (i_threads (irun (iinit inputs) sched)) i = Some t ->
  t_todo t = [] -> t_results t = ins.
Proof.
  intros inputs sched i ins t Hi Ht Hd. pose proof (intern_transparent inputs sched) as H.
  remember (i_threads (irun (iinit inputs) sched)) as ths eqn:E. clear E.
  revert i Hi Ht. induction H as [|a x l ts Hax Hl IH]; intros i Hi Ht; destruct i; try discriminate.
  - cbn in Hi, Ht. injection Hi as ->. injection Ht as ->. rewrite Hd, app_nil_r in Hax. exact Hax.
  - eapply IH; eauto.
Qed.
