(** C17 / C08: facts about codec construction. *)
From Plenc Require Import Base Varint Wire JsonAny Codec Registry.
Open Scope N_scope.

(** C17: a codec registered for exactly this (type, tag) key is the one used,
    before any kind-based default *)
Theorem lookup_first : forall C E f t tag c,
  lookup (regs_of C) t tag = Some c -> codec_for C E (S f) t tag = Ok c.
Proof. intros C E f t tag c H. cbn [codec_for]. rewrite H. reflexivity. Qed.

(** C17: positions. A pointer hands its tag option to its target; slices and
    maps look their element / key / value types up with no option. *)
Theorem position_pointer : forall C E f e tag,
  lookup (regs_of C) (TPtr e) tag = None -> is_map_kind e = false ->
  codec_for C E (S f) (TPtr e) tag = (do sub <- codec_for C E f e tag; Ok (CPtr sub)).
Proof. intros C E f e tag H Hm. cbn [codec_for strip]. rewrite H, Hm. reflexivity. Qed.

Theorem position_slice_elem : forall C E f e tag c,
  lookup (regs_of C) (TSlice e) tag = None ->
  codec_for C E (S f) (TSlice e) tag = Ok c ->
  exists sub, codec_for C E f e [] = Ok sub /\
    (c = CSliceVar sub \/ c = CSliceFix sub \/ c = CSliceLen sub \/ c = CSliceProto sub).
Proof.
  intros C E f e tag c H Hc. cbn [codec_for strip] in Hc. rewrite H in Hc.
  destruct (negb (bytes_eqb tag [] || bytes_eqb tag s_proto)); [discriminate|].
  destruct (codec_for C E f e []) as [sub| | | |] eqn:Es; cbn [bind] in Hc; try discriminate.
  exists sub. split; [reflexivity|].
  destruct (wire sub =? WTVarInt); [inversion Hc; auto|].
  destruct ((wire sub =? WT64) || (wire sub =? WT32)).
  { destruct (is_ptr_kind e); [discriminate|inversion Hc; auto]. }
  destruct (wire sub =? WTLength); [|discriminate].
  destruct (proto_arrays C || bytes_eqb tag s_proto); inversion Hc; auto.
Qed.

Theorem position_map : forall C E f k v tag c,
  lookup (regs_of C) (TMap k v) tag = None ->
  codec_for C E (S f) (TMap k v) tag = Ok c ->
  exists kc vc, codec_for C E f k [] = Ok kc /\ codec_for C E f v [] = Ok vc /\
    (c = CMap kc vc \/ c = CMapProto kc vc).
Proof.
  intros C E f k v tag c H Hc. cbn [codec_for strip] in Hc. rewrite H in Hc.
  destruct (negb (bytes_eqb tag [] || bytes_eqb tag s_proto)); [discriminate|].
  destruct (is_map_kind v); [discriminate|].
  destruct (codec_for C E f k []) as [kc| | | |]; cbn [bind] in Hc; try discriminate.
  destruct (codec_for C E f v []) as [vc| | | |]; cbn [bind] in Hc; try discriminate.
  exists kc, vc. repeat split. destruct (bytes_eqb tag s_proto); inversion Hc; auto.
Qed.

(** C17: a named type without its own registration falls back to the codec
    registered for its underlying basic kind (with the same tag option) *)
Theorem named_fallback_int : forall C E f id b tag,
  lookup (regs_of C) (TNamed id (TInt b)) tag = None ->
  codec_for C E (S f) (TNamed id (TInt b)) tag = basic C (TInt b) tag.
Proof. intros C E f id b tag H. cbn [codec_for strip]. rewrite H. reflexivity. Qed.
Theorem named_fallback_string : forall C E f id tag,
  lookup (regs_of C) (TNamed id TString) tag = None ->
  codec_for C E (S f) (TNamed id TString) tag = basic C TString tag.
Proof. intros C E f id tag H. cbn [codec_for strip]. rewrite H. reflexivity. Qed.

(** C08: unsupported kinds are errors wherever they are asked for *)
Theorem unsupported_kinds : forall C E f t tag,
  lookup (regs_of C) t tag = None ->
  match strip t with TIface | TBad _ => True | _ => False end ->
  codec_for C E (S f) t tag = Err.
Proof.
  intros C E f t tag H Hk. cbn [codec_for]. rewrite H. destruct (strip t); try contradiction; reflexivity.
Qed.

(** C08: a pointer to a map and a map of maps are errors *)
Theorem map_nesting_rejected : forall C E f e k v tag,
  (lookup (regs_of C) (TPtr e) tag = None -> is_map_kind e = true -> codec_for C E (S f) (TPtr e) tag = Err) /\
  (lookup (regs_of C) (TMap k v) tag = None -> is_map_kind v = true -> codec_for C E (S f) (TMap k v) tag = Err).
Proof.
  intros. split; intros H Hm; cbn [codec_for strip]; rewrite H, Hm.
  - reflexivity.
  - destruct (negb (bytes_eqb tag [] || bytes_eqb tag s_proto)); reflexivity.
Qed.

(** ** Instances: each Plenc value owns its registry.  A history of operations
    over several instances; an operation only reads and writes the registry of
    the instance it names. *)
Inductive iop :=
| IRegister (inst : nat) (t : ty) (tag : bytes) (c : codec)
| IUse (inst : nat).     (* any Marshal/Unmarshal/CodecForType: reads that instance's registry *)

Definition iregs := list regs.   (* one registry per instance *)

Fixpoint upd_nth {A} (i : nat) (f : A -> A) (l : list A) : list A :=
  match l, i with
  | [], _ => []
  | x :: r, O => f x :: r
  | x :: r, S i' => x :: upd_nth i' f r
  end.

Definition iop_step (s : iregs) (op : iop) : iregs :=
  match op with
  | IRegister i t tag c => upd_nth i (fun r => (t, tag, c) :: r) s
  | IUse _ => s
  end.
Definition iop_inst (op : iop) : nat := match op with IRegister i _ _ _ | IUse i => i end.

Lemma upd_nth_other {A} : forall i j (f : A -> A) l, i <> j -> nth_error (upd_nth i f l) j = nth_error l j.
Proof.
  induction i as [|i IH]; intros j f l Hne; destruct l as [|x r]; destruct j as [|j]; cbn; try reflexivity; try congruence.
  apply IH. congruence.
Qed.

Lemma upd_nth_same {A} : forall i (f : A -> A) l, nth_error (upd_nth i f l) i = option_map f (nth_error l i).
Proof.
  induction i as [|i IH]; intros f l; destruct l as [|x r]; cbn; try reflexivity. apply IH.
Qed.

(** C17: the registry an instance sees after a history is the one it would
    have after only the operations that name it *)
Theorem instances_noninterference : forall ops s i,
  nth_error (fold_left iop_step ops s) i
  = nth_error (fold_left iop_step (filter (fun op => Nat.eqb (iop_inst op) i) ops) s) i.
Proof.
  induction ops as [|op ops IH]; intros s i; cbn [fold_left filter]; [reflexivity|].
  destruct (Nat.eqb (iop_inst op) i) eqn:E.
  - cbn [fold_left]. apply IH.
  - apply Nat.eqb_neq in E. rewrite IH.
    assert (H : forall ops' s1 s2, nth_error s1 i = nth_error s2 i ->
              Forall (fun o => iop_inst o = i) ops' ->
              nth_error (fold_left iop_step ops' s1) i = nth_error (fold_left iop_step ops' s2) i).
    { induction ops' as [|o ops' IH']; intros s1 s2 Hs Hall; cbn [fold_left]; [exact Hs|].
      inversion Hall as [|? ? Ho Hr]; subst. apply IH'; [|exact Hr].
      destruct o as [j t tag c|j]; cbn [iop_step iop_inst] in *; [|exact Hs].
      rewrite !upd_nth_same, Hs. reflexivity. }
    apply H.
    + destruct op as [j t tag c|j]; cbn [iop_step iop_inst] in *; [|reflexivity].
      apply upd_nth_other. exact E.
    + apply Forall_forall. intros o Ho. apply filter_In in Ho. destruct Ho as [_ Ho]. apply Nat.eqb_eq in Ho. exact Ho.
Qed.
