(** C17 / C08: facts about codec construction. *)
From Plenc Require Import Base Varint Wire JsonAny Codec Registry.
Open Scope N_scope.

(** C17: a codec registered for exactly this (type, tag) key is the one used,
    before any kind-based default *)
Theorem lookup_first : forall C E f t tag c,
  lookup (regs_of C) t tag = Some c -> codec_for C E (S f) t tag = Ok c.
Proof. intros C E f t tag c H. cbn [codec_for]. rewrite H. reflexivity. Qed.

(** C17: positions. A pointer hands its tag option to its target; slices and
    maps look their element / key / value types up with no option. *)
Theorem position_pointer : forall C E f e tag,
  lookup (regs_of C) (TPtr e) tag = None -> is_map_kind e = false ->
  codec_for C E (S f) (TPtr e) tag = (do sub <- codec_for C E f e tag; Ok (CPtr sub)).
Proof. intros C E f e tag H Hm. cbn [codec_for strip]. rewrite H, Hm. reflexivity. Qed.

Theorem position_slice_elem : forall C E f e tag c,
  lookup (regs_of C) (TSlice e) tag = None ->
  codec_for C E (S f) (TSlice e) tag = Ok c ->
  exists sub, codec_for C E f e [] = Ok sub /\
    (c = CSliceVar sub \/ c = CSliceFix sub \/ c = CSliceLen sub \/ c = CSliceProto sub).
Proof.
  intros C E f e tag c H Hc. cbn [codec_for strip] in Hc. rewrite H in Hc.
  destruct (negb (bytes_eqb tag [] || bytes_eqb tag s_proto)); [discriminate|].
  destruct (codec_for C E f e []) as [sub| | | |] eqn:Es; cbn [bind] in Hc; try discriminate.
  exists sub. split; [reflexivity|].
  destruct (wire sub =? WTVarInt); [inversion Hc; auto|].
  destruct ((wire sub =? WT64) || (wire sub =? WT32)).
  { destruct (is_ptr_kind e); [discriminate|inversion Hc; auto]. }
  destruct (wire sub =? WTLength); [|discriminate].
  destruct (proto_arrays C || bytes_eqb tag s_proto); inversion Hc; auto.
Qed.

Theorem position_map : forall C E f k v tag c,
  lookup (regs_of C) (TMap k v) tag = None ->
  codec_for C E (S f) (TMap k v) tag = Ok c ->
  exists kc vc, codec_for C E f k [] = Ok kc /\ codec_for C E f v [] = Ok vc /\
    (c = CMap kc vc \/ c = CMapProto kc vc).
Proof.
  intros C E f k v tag c H Hc. cbn [codec_for strip] in Hc. rewrite H in Hc.
  destruct (negb (bytes_eqb tag [] || bytes_eqb tag s_proto)); [discriminate|].
  destruct (is_map_kind v); [discriminate|].
  destruct (codec_for C E f k []) as [kc| | | |]; cbn [bind] in Hc; try discriminate.
  destruct (codec_for C E f v []) as [vc| | | |]; cbn [bind] in Hc; try discriminate.
  exists kc, vc. repeat split. destruct (bytes_eqb tag s_proto); inversion Hc; auto.
Qed.

(** C17: a named type without its own registration falls back to the codec
    registered for its underlying basic kind (with the same tag option) *)
Theorem named_fallback_int : forall C E f id b tag,
  lookup (regs_of C) (TNamed id (TInt b)) tag = None ->
  codec_for C E (S f) (TNamed id (TInt b)) tag = basic C (TInt b) tag.
Proof. intros C E f id b tag H. cbn [codec_for strip]. rewrite H. reflexivity. Qed.
Theorem named_fallback_string : forall C E f id tag,
  lookup (regs_of C) (TNamed id TString) tag = None ->
  codec_for C E (S f) (TNamed id TString) tag = basic C TString tag.
Proof. intros C E f id tag H. cbn [codec_for strip]. rewrite H. reflexivity. Qed.

(** C08: unsupported kinds are errors wherever they are asked for *)
Theorem unsupported_kinds : forall C E f t tag,
  lookup (regs_of C) t tag = None ->
  match strip t with TIface | TBad _ => True | _ => False end ->
  codec_for C E (S f) t tag = Err.
Proof.
  intros C E f t tag H Hk. cbn [codec_for]. rewrite H. destruct (strip t); try contradiction; reflexivity.
Qed.

(** C08: a pointer to a map and a map of maps are errors *)
Theorem map_nesting_rejected : forall C E f e k v tag,
  (lookup (regs_of C) (TPtr e) tag = None -> is_map_kind e = true -> codec_for C E (S f) (TPtr e) tag = Err) /\
  (lookup (regs_of C) (TMap k v) tag = None -> is_map_kind v = true -> codec_for C E (S f) (TMap k v) tag = Err).
Proof.
  intros. split; intros H Hm; cbn [codec_for strip]; rewrite H, Hm.
  - reflexivity.
  - destruct (negb (bytes_eqb tag [] || bytes_eqb tag s_proto)); reflexivity.
Qed.

(** ** Instances: each Plenc value owns its registry.  A history of operations
    over several instances; an operation only reads and writes the registry of
    the instance it names. *)
Inductive iop :=
| IRegister (inst : nat) (t : ty) (tag : bytes) (c : codec)
| IUse (inst : nat).     (* any Marshal/Unmarshal/CodecForType: reads that instance's registry *)

Definition iregs := list regs.   (* one registry per instance *)

Fixpoint upd_nth {A} (i : nat) (f : A -> A) (l : list A) : list A :=
  match l, i with
  | [], _ => []
  | x :: r, O => f x :: r
  | x :: r, S i' => x :: upd_nth i' f r
  end.

Definition iop_step (s : iregs) (op : iop) : iregs :=
  match op with
  | IRegister i t tag c => upd_nth i (fun r => (t, tag, c) :: r) s
  | IUse _ => s
  end.
Definition iop_inst (op : iop) : nat := match op with IRegister i _ _ _ | IUse i => i end.

Lemma upd_nth_other {A} : forall i j (f : A -> A) l, i <> j -> nth_error (upd_nth i f l) j = nth_error l j.
Proof.
  induction i as [|i IH]; intros j f l Hne; destruct l as [|x r]; destruct j as [|j]; cbn; try reflexivity; try congruence.
  apply IH. congruence.
Qed.

Lemma upd_nth_same {A} : forall i (f : A -> A) l, nth_error (upd_nth i f l) i = option_map f (nth_error l i).
Proof.
  induction i as [|i IH]; intros f l; destruct l as [|x r]; cbn; try reflexivity. apply IH.
Qed.

(** C17: the registry an instance sees after a history is the one it would
    have after only the operations that name it *)
Theorem instances_noninterference : forall ops s i,
  nth_error (fold_left iop_step ops s) i
  = nth_error (fold_left iop_step (filter (fun op => Nat.eqb (iop_inst op) i) ops) s) i.
Proof.
  induction ops as [|op ops IH]; intros s i; cbn [fold_left filter]; [reflexivity|].
  destruct (Nat.eqb (iop_inst op) i) eqn:E.
  - cbn [fold_left]. apply IH.
  - apply Nat.eqb_neq in E. rewrite IH.
    assert (H : forall ops' s1 s2, nth_error s1 i = nth_error s2 i ->
              Forall (fun o => iop_inst o = i) ops' ->
              nth_error (fold_left iop_step ops' s1) i = nth_error (fold_left iop_step ops' s2) i).
    { induction ops' as [|o ops' IH']; intros s1 s2 Hs Hall; cbn [fold_left]; [exact Hs|].
      inversion Hall as [|? ? Ho Hr]; subst. apply IH'; [|exact Hr].
      destruct o as [j t tag c|j]; cbn [iop_step iop_inst] in *; [|exact Hs].
      rewrite !upd_nth_same, Hs. reflexivity. }
    apply H.
    + destruct op as [j t tag c|j]; cbn [iop_step iop_inst] in *; [|reflexivity].
      apply upd_nth_other. exact E.
    + apply Forall_forall. intros o Ho. apply filter_In in Ho. destruct Ho as [_ Ho]. apply Nat.eqb_eq in Ho. exact Ho.
Qed.

(** ** C08: codec construction returns a codec or an error *)

(** never a crash or a non-terminating construction; the only other outcome is
    the unbounded lookup table of a huge index (known finding D22) *)
Definition build_safe {A} (r : res A) : Prop := match r with Panic _ | Hang _ => False | _ => True end.

Lemma build_fields_safe cf : (forall t tag, build_safe (cf t tag)) ->
  forall l i, build_safe (build_fields cf i l).
Proof.
  intros Hcf. induction l as [|fd r IH]; intros i; cbn [build_fields]; [exact I|].
  destruct (negb (fd_exported fd)); [apply IH|]. cbv zeta.
  destruct (bytes_eqb (fd_plenc fd) []); [exact I|].
  destruct (bytes_eqb (fd_plenc fd) [45]); [apply IH|].
  destruct (cut 44 (fd_plenc fd)) as [num post]. destruct (atoi num) as [index|]; [|exact I].
  destruct (index <? 0)%Z; [exact I|].
  match goal with |- build_safe (do fc <- cf ?a ?b; _) => specialize (Hcf a b); destruct (cf a b) end; cbn [bind build_safe] in *; auto.
  specialize (IH (S i)). destruct (build_fields cf (S i) r); cbn [bind build_safe] in *; auto.
Qed.

Theorem codec_for_safe : forall C E fuel t tag, build_safe (codec_for C E fuel t tag).
Proof.
  intros C E. induction fuel as [|f IH]; intros t tag; cbn [codec_for]; [exact I|].
  destruct (lookup (regs_of C) t tag); [exact I|].
  destruct (strip t); try exact I; unfold basic; try (destruct (lookup _ _ _); exact I).
  - (* pointer *) destruct (is_map_kind t0); [exact I|]. specialize (IH t0 tag).
    destruct (codec_for C E f t0 tag); cbn [bind build_safe] in *; auto.
  - (* slice *) destruct (negb _); [exact I|]. specialize (IH t0 []).
    destruct (codec_for C E f t0 []) as [sub| | | |]; cbn [bind build_safe] in *; auto.
    destruct (wire sub =? WTVarInt); [exact I|]. destruct ((wire sub =? WT64) || (wire sub =? WT32)); [destruct (is_ptr_kind t0); exact I|].
    destruct (wire sub =? WTLength); [destruct (proto_arrays C || bytes_eqb tag s_proto); exact I|exact I].
  - (* map *) destruct (negb _); [exact I|]. destruct (is_map_kind t0_2); [exact I|].
    pose proof (IH t0_1 []) as H1. destruct (codec_for C E f t0_1 []); cbn [bind build_safe] in *; auto.
    pose proof (IH t0_2 []) as H2. destruct (codec_for C E f t0_2 []); cbn [bind build_safe] in *; auto.
    destruct (bytes_eqb tag s_proto); exact I.
  - (* struct *) destruct tag; [|exact I]. destruct (nth_error E (N.to_nat id)) as [sd|]; [|exact I].
    pose proof (build_fields_safe (codec_for C E f) IH (sd_fields sd) 0) as Hb.
    destruct (build_fields (codec_for C E f) 0 (sd_fields sd)) as [fs| | | |]; cbn [bind build_safe] in *; auto.
    destruct (max_sane_index <=? _)%Z; [exact I|]. destruct (has_dup fs); exact I.
  - (* external struct types *) destruct tag; [|exact I]. destruct (k =? 0); exact I.
Qed.

(** the listed causes never yield a codec *)
Lemma bytes_eqb_eq : forall a b, bytes_eqb a b = true <-> a = b.
Proof.
  induction a as [|x a IH]; destruct b as [|y b]; cbn; split; intros H; try discriminate; try reflexivity.
  - apply andb_true_iff in H. destruct H as [H1 H2]. apply N.eqb_eq in H1. apply IH in H2. congruence.
  - inversion H; subst. rewrite N.eqb_refl. apply IH. reflexivity.
Qed.

Definition bad_field (fd : fdef) : Prop :=
  fd_exported fd = true /\
  (fd_plenc fd = [] \/
   (fd_plenc fd <> [45] /\
    (atoi (fst (cut 44 (fd_plenc fd))) = None \/ exists i, atoi (fst (cut 44 (fd_plenc fd))) = Some i /\ (i < 0)%Z))).

Lemma build_fields_bad cf : forall l i, Exists bad_field l -> forall fs, build_fields cf i l <> Ok fs.
Proof.
  induction l as [|fd r IH]; intros i Hex fs; [inversion Hex|]. cbn [build_fields]. cbv zeta.
  inversion Hex as [? ? Hb|? ? Hr]; subst.
  - destruct Hb as [Hexp Hb]. rewrite Hexp. cbn [negb].
    destruct Hb as [Hn|[Hd Hb]]; [rewrite Hn; cbn; discriminate|].
    destruct (bytes_eqb (fd_plenc fd) []); [discriminate|].
    destruct (bytes_eqb (fd_plenc fd) [45]) eqn:E45; [apply bytes_eqb_eq in E45; contradiction|].
    destruct (cut 44 (fd_plenc fd)) as [num post]. cbn [fst] in Hb.
    destruct Hb as [Hb|(idx & Hb & Hneg)]; rewrite Hb; [discriminate|].
    replace (idx <? 0)%Z with true by (symmetry; apply Z.ltb_lt; exact Hneg). discriminate.
  - destruct (negb (fd_exported fd)); [apply IH; exact Hr|].
    destruct (bytes_eqb (fd_plenc fd) []); [discriminate|].
    destruct (bytes_eqb (fd_plenc fd) [45]); [apply IH; exact Hr|].
    destruct (cut 44 (fd_plenc fd)) as [num post]. destruct (atoi num) as [index|]; [|discriminate].
    destruct (index <? 0)%Z; [discriminate|].
    match goal with |- (do fc <- cf ?a ?b; _) <> _ => destruct (cf a b) end; cbn [bind]; try discriminate.
    specialize (IH (S i) Hr). destruct (build_fields cf (S i) r) as [rest| | | |]; cbn [bind]; try discriminate.
    exfalso. apply (IH rest). reflexivity.
Qed.

(** C08: a struct with an exported field that has no plenc tag, an unparsable
    index or a negative index never gets a codec *)
Theorem bad_definition_rejected : forall C E f id sd,
  lookup (regs_of C) (TStruct id) [] = None ->
  nth_error E (N.to_nat id) = Some sd -> Exists bad_field (sd_fields sd) ->
  forall c, codec_for C E (S f) (TStruct id) [] <> Ok c.
Proof.
  intros C E f id sd Hl Hn Hbad c. cbn [codec_for strip]. rewrite Hl, Hn.
  pose proof (build_fields_bad (codec_for C E f) (sd_fields sd) 0 Hbad) as Hb.
  destruct (build_fields (codec_for C E f) 0 (sd_fields sd)) as [fs| | | |]; cbn [bind]; try discriminate.
  exfalso. apply (Hb fs). reflexivity.
Qed.

(** C08: two fields sharing an index never get a codec *)
Lemma has_dup_spec : forall fs, has_dup fs = false -> NoDup (map (fun f => f_index f) fs).
Proof.
  induction fs as [|f r IH]; intros H; cbn [has_dup map] in *; [constructor|].
  apply orb_false_iff in H. destruct H as [H1 H2]. constructor; [|apply IH; exact H2].
  intros Hin. apply in_map_iff in Hin. destruct Hin as (g & Hg & Hing).
  assert (existsb (fun f2 => (f_index f =? f_index f2)%Z) r = true).
  { apply existsb_exists. exists g. split; [exact Hing|]. apply Z.eqb_eq. congruence. }
  congruence.
Qed.

Theorem accepted_struct_indexes : forall C E f id sd nm n fs,
  lookup (regs_of C) (TStruct id) [] = None ->
  nth_error E (N.to_nat id) = Some sd ->
  codec_for C E (S f) (TStruct id) [] = Ok (CStruct nm n fs) ->
  NoDup (map (fun f => f_index f) fs) /\ Forall (fun f => (f_index f < max_sane_index)%Z) fs /\ n = length (sd_fields sd).
Proof.
  intros C E f id sd nm n fs Hl Hn H. cbn [codec_for strip] in H. rewrite Hl, Hn in H.
  destruct (build_fields (codec_for C E f) 0 (sd_fields sd)) as [fs0| | | |]; cbn [bind] in H; try discriminate.
  destruct (max_sane_index <=? _)%Z eqn:Em; [discriminate|].
  destruct (has_dup fs0) eqn:Ed; [discriminate|]. inversion H; subst.
  split; [apply has_dup_spec; exact Ed|]. split; [|reflexivity].
  apply Z.leb_gt in Em. clear -Em. induction fs as [|g r IH]; [constructor|].
  cbn [fold_right] in Em. constructor; [lia|]. apply IH. lia.
Qed.
