(** C07: abstract model of concurrent codec construction (codec.go registry,
    plenccodec/struct.go BuildStructCodec and its private overlay registry).

    Codec objects live in a heap.  A thread allocates struct codec objects,
    fills in their fields (links to other objects) and completes them; all of
    that is private to the thread.  Publishing puts an object in the shared
    registry, where every other thread can load and use it.  The discipline of
    the code (after the fix: nothing built during a struct build is published;
    the struct codec is published by its builder once BuildStructCodec has
    returned) is the guard of [Publish]: everything reachable from the object
    is complete.  The theorems hold for every interleaving of every number of
    threads. *)
From Plenc Require Import Base.

Record cobj := mkobj { ob_owner : nat; ob_complete : bool; ob_links : list nat }.

Record cstate := mkcs {
  heap : list cobj;            (* object id = position *)
  published : list nat }.      (* objects reachable by name from the shared registry *)

Inductive cstep :=
| CAlloc (t : nat)                         (* new incomplete object owned by t *)
| CLink (t : nat) (o o' : nat)             (* set a field of o to refer to o' *)
| CComplete (t : nat) (o : nat)
| CPublish (t : nat) (o : nat).

Definition obj (s : cstate) (o : nat) : option cobj := nth_error (heap s) o.

Fixpoint set_obj (l : list cobj) (o : nat) (x : cobj) : list cobj :=
  match l, o with
  | [], _ => []
  | _ :: r, O => x :: r
  | y :: r, S o' => y :: set_obj r o' x
  end.

(** objects reachable from [o] within [fuel] link steps *)
Fixpoint reach (h : list cobj) (fuel : nat) (o : nat) : list nat :=
  match fuel with
  | O => [o]
  | S f => o :: match nth_error h o with
                | Some x => flat_map (reach h f) (ob_links x)
                | None => []
                end
  end.

Definition complete_b (h : list cobj) (o : nat) : bool :=
  match nth_error h o with Some x => ob_complete x | None => false end.

(** everything reachable from o is complete (fuel = heap size bounds any simple path) *)
Definition closure_complete (h : list cobj) (o : nat) : bool :=
  forallb (complete_b h) (reach h (length h) o).

Definition in_published (s : cstate) (o : nat) : bool := existsb (Nat.eqb o) (published s).

(** reachable from some published object *)
Definition shared_reach (s : cstate) (o : nat) : bool :=
  existsb (fun p => existsb (Nat.eqb o) (reach (heap s) (length (heap s)) p)) (published s).

(** a step is enabled only when it respects the discipline; a disabled step
    leaves the state unchanged *)
Definition cstep_run (s : cstate) (st : cstep) : cstate :=
  match st with
  | CAlloc t => mkcs (heap s ++ [mkobj t false []]) (published s)
  | CLink t o o' =>
    match obj s o with
    | Some x =>
      (* only the owner writes, only before completion, only while unpublished *)
      if Nat.eqb (ob_owner x) t && negb (ob_complete x) && negb (shared_reach s o) && Nat.ltb o' (length (heap s))
      then mkcs (set_obj (heap s) o (mkobj (ob_owner x) false (o' :: ob_links x))) (published s)
      else s
    | None => s
    end
  | CComplete t o =>
    match obj s o with
    | Some x =>
      if Nat.eqb (ob_owner x) t && negb (shared_reach s o)
      then mkcs (set_obj (heap s) o (mkobj (ob_owner x) true (ob_links x))) (published s)
      else s
    | None => s
    end
  | CPublish t o =>
    if closure_complete (heap s) o then mkcs (heap s) (o :: published s) else s
  end.

Definition crun (s : cstate) (steps : list cstep) : cstate := fold_left cstep_run steps s.
Definition cinit : cstate := mkcs [] [].


(** ** Relational semantics: the steps the code can take.  [SLink] and
    [SComplete] are intrinsic to BuildStructCodec (a builder fills in the
    fields of the object it allocated, then is done with it); [SPublish]'s
    premise is the publication discipline. *)
Definition link (h : list cobj) (b c : nat) : Prop :=
  exists x, nth_error h b = Some x /\ In c (ob_links x).
Inductive Reach (h : list cobj) (a : nat) : nat -> Prop :=
| reach_refl : Reach h a a
| reach_step : forall b c, Reach h a b -> link h b c -> Reach h a c.
Definition complete (h : list cobj) (o : nat) : Prop :=
  exists x, nth_error h o = Some x /\ ob_complete x = true.

Inductive step_ok (s : cstate) : cstep -> cstate -> Prop :=
| SAlloc : forall t, step_ok s (CAlloc t) (mkcs (heap s ++ [mkobj t false []]) (published s))
| SLink : forall t o o' x,
    obj s o = Some x -> ob_owner x = t -> ob_complete x = false -> o' < length (heap s) ->
    step_ok s (CLink t o o') (mkcs (set_obj (heap s) o (mkobj (ob_owner x) false (o' :: ob_links x))) (published s))
| SComplete : forall t o x,
    obj s o = Some x -> ob_owner x = t -> ob_complete x = false ->
    step_ok s (CComplete t o) (mkcs (set_obj (heap s) o (mkobj (ob_owner x) true (ob_links x))) (published s))
| SPublish : forall t o,
    o < length (heap s) ->
    (forall o', Reach (heap s) o o' -> complete (heap s) o') ->
    step_ok s (CPublish t o) (mkcs (heap s) (o :: published s)).

Inductive steps_ok : cstate -> list cstep -> cstate -> Prop :=
| steps_nil : forall s, steps_ok s [] s
| steps_cons : forall s st s1 rest s2, step_ok s st s1 -> steps_ok s1 rest s2 -> steps_ok s (st :: rest) s2.
