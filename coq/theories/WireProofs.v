(** Proofs about tags and Skip. *)
From Plenc Require Import Base Varint Wire VarintProofs.
Open Scope N_scope.

(** ** Tags *)

Lemma tag_value_small wt index :
  wt < 8 -> (0 <= index < 2305843009213693952)%Z ->
  tag_value wt index = Z.to_N index * 8 + wt /\ tag_value wt index < two64.
Proof.
  intros Hwt Hi. unfold tag_value, u64, two64Z, two64.
  rewrite Z.mod_small by lia. split; lia.
Qed.

(** C18: tags round-trip for every wire-type code and every index below 2^61. *)
Theorem read_append_tag : forall wt index rest,
  wt < 8 -> (0 <= index < 2305843009213693952)%Z ->
  read_tag (append_tag wt index ++ rest) = (wt, index, Z.of_N (len (append_tag wt index))).
Proof.
  intros wt index rest Hwt Hi. unfold read_tag, append_tag.
  destruct (tag_value_small wt index Hwt Hi) as [E Hlt].
  rewrite read_append_varuint by exact Hlt. rewrite E.
  f_equal. f_equal.
  - rewrite N.add_comm, N.mod_add by lia. apply N.mod_small. exact Hwt.
  - rewrite N.div_add_l by lia. rewrite N.div_small by exact Hwt. lia.
Qed.

Theorem size_append_tag : forall wt index,
  wt < 8 -> (0 <= index < 2305843009213693952)%Z ->
  size_tag wt index = len (append_tag wt index).
Proof.
  intros wt index Hwt Hi. unfold size_tag, append_tag.
  apply size_append_varuint. apply (tag_value_small wt index Hwt Hi).
Qed.

(** ** Facts about ReadVarUint's returned length *)

Lemma uvarint_go_n : forall buf i x v n,
  uvarint_go buf i x = (v, n) ->
  (n <= Z.of_nat i + Z.of_nat (length buf))%Z /\ ((0 < n)%Z -> (Z.of_nat i < n)%Z).
Proof.
  induction buf as [|b rest IH]; intros i x v n H; cbn [uvarint_go] in H.
  - inversion H; subst. cbn. lia.
  - cbn [length]. destruct (Nat.eqb i 10).
    + inversion H; subst. lia.
    + destruct (b <? 128).
      * destruct (Nat.eqb i 9 && (1 <? b)); inversion H; subst; lia.
      * apply IH in H. lia.
Qed.

Lemma read_varuint_n : forall buf v n,
  read_varuint buf = (v, n) -> (n <= Z.of_N (len buf))%Z.
Proof.
  intros buf v n H. apply uvarint_go_n in H. unfold len. lia.
Qed.

(** ** Skip *)

Lemma skip_varint_pb : forall v bs, pb_varint v bs -> forall i rest,
  (i + length bs <= 10)%nat ->
  skip_varint (bs ++ rest) i = Ok (N.of_nat (i + length bs)).
Proof.
  induction 1 as [v Hv|v bs Hv H IH]; intros i rest Hi; cbn [app skip_varint length] in *.
  - replace (v <? 128) with true by (symmetry; apply N.ltb_lt; lia). f_equal. lia.
  - replace (v mod 128 + 128 <? 128) with false by (symmetry; apply N.ltb_ge; lia).
    assert (1 <= length bs)%nat by (inversion H; cbn; lia).
    replace (Nat.ltb 9 i) with false by (symmetry; apply Nat.ltb_ge; lia).
    rewrite IH by lia. f_equal. lia.
Qed.

(** C18 skip_exact, wire type 0: a varint field is skipped exactly. *)
Theorem skip_exact_varint : forall v rest, v < two64 ->
  skip (append_varuint v ++ rest) WTVarInt = Ok (len (append_varuint v)).
Proof.
  intros v rest Hv. unfold skip. cbn [WTVarInt N.eqb].
  rewrite (skip_varint_pb v) by
    (try (apply append_varuint_canonical; exact Hv);
     pose proof (append_varuint_length_bounds v); unfold len in *; lia).
  reflexivity.
Qed.

(** wire type 1 / 5: fixed width *)
Theorem skip_exact_fixed64 : forall b rest, len b = 8 -> skip (b ++ rest) WT64 = Ok 8.
Proof.
  intros b rest Hb. unfold skip. cbn [WT64 WTVarInt N.eqb Pos.eqb].
  rewrite len_app, Hb. replace (8 + len rest <? 8) with false by (symmetry; apply N.ltb_ge; lia).
  reflexivity.
Qed.
Theorem skip_exact_fixed32 : forall b rest, len b = 4 -> skip (b ++ rest) WT32 = Ok 4.
Proof.
  intros b rest Hb. unfold skip. cbn [WT32 WT64 WTLength WTSlice WTVarInt N.eqb Pos.eqb].
  rewrite len_app, Hb. replace (4 + len rest <? 4) with false by (symmetry; apply N.ltb_ge; lia).
  reflexivity.
Qed.

(** wire type 2: length prefix then body *)
Theorem skip_exact_length : forall body rest, len body < two64 ->
  skip (append_varuint (len body) ++ body ++ rest) WTLength
  = Ok (len (append_varuint (len body)) + len body).
Proof.
  intros body rest Hb. unfold skip. cbn [WTLength WT64 WTVarInt N.eqb Pos.eqb].
  rewrite read_append_varuint by exact Hb.
  pose proof (append_varuint_length_bounds (len body)) as Hl.
  replace (Z.of_N (len (append_varuint (len body))) <=? 0)%Z with false
    by (symmetry; apply Z.leb_gt; lia).
  rewrite !len_app, N2Z.id.
  replace (len (append_varuint (len body)) + (len body + len rest) - len (append_varuint (len body)) <? len body)
    with false by (symmetry; apply N.ltb_ge; lia).
  f_equal. lia.
Qed.

(** wire type 3: count, then [count] length-prefixed items *)
Definition frame (b : bytes) : bytes := append_varuint (len b) ++ b.

Lemma go_drop_app site (a b : bytes) : go_drop site (len a) (a ++ b) = Ok b.
Proof.
  unfold go_drop. rewrite len_app.
  replace (len a <=? len a + len b) with true by (symmetry; apply N.leb_le; lia).
  unfold len. rewrite Nat2N.id. rewrite skipn_app, skipn_all, Nat.sub_diag. reflexivity.
Qed.

Lemma skip_slice_step f count rest off :
  count <> 0 -> rest <> [] ->
  skip_slice (S f) count rest off =
  (let '(l, n) := read_varuint rest in
   if (n <=? 0)%Z then Err else
   do rest1 <- go_drop "Skip.WTSlice data[offset:]" (Z.to_N n) rest;
   if len rest1 <? l then Err else
   do rest2 <- go_drop "Skip.WTSlice data[offset:]" l rest1;
   skip_slice f (count - 1) rest2 (off + Z.to_N n + l)).
Proof.
  intros Hc Hr. cbn [skip_slice].
  replace (count =? 0) with false by (symmetry; apply N.eqb_neq; exact Hc).
  destruct rest; [congruence|reflexivity].
Qed.

Lemma skip_slice_items : forall items fuel rest off,
  Forall (fun b => len b < two64) items ->
  (length (concat (map frame items) ++ rest) < fuel)%nat ->
  skip_slice fuel (N.of_nat (length items)) (concat (map frame items) ++ rest) off
  = Ok (off + len (concat (map frame items))).
Proof.
  induction items as [|b items IH]; intros fuel rest off Hall Hfuel.
  - cbn [length N.of_nat map concat app]. destruct fuel; cbn [skip_slice N.eqb]; rewrite len_nil; f_equal; lia.
  - inversion Hall as [|? ? Hb Hall']; subst.
    destruct fuel as [|f]; [cbn in Hfuel; lia|].
    pose proof (append_varuint_length_bounds (len b)) as Hl.
    rewrite skip_slice_step.
    2:{ cbn [length]. lia. }
    2:{ cbn [map concat]. unfold frame at 1. intros E.
        apply (f_equal (@length N)) in E. rewrite !app_length in E. unfold len in *.
        cbn [length] in E. lia. }
    cbn [map concat]. change (frame b) with (append_varuint (len b) ++ b). rewrite <- !app_assoc.
    rewrite read_append_varuint by exact Hb. cbv beta iota.
    replace (Z.of_N (len (append_varuint (len b))) <=? 0)%Z with false
      by (symmetry; apply Z.leb_gt; lia).
    rewrite N2Z.id. rewrite go_drop_app. cbn [bind].
    rewrite len_app.
    replace (len b + len (concat (map frame items) ++ rest) <? len b) with false
      by (symmetry; apply N.ltb_ge; lia).
    rewrite go_drop_app. cbn [bind].
    replace (N.of_nat (length (b :: items)) - 1) with (N.of_nat (length items)) by (cbn [length]; lia).
    rewrite IH.
    + f_equal. rewrite !len_app. lia.
    + exact Hall'.
    + cbn [map concat] in Hfuel. unfold frame in Hfuel at 1.
      rewrite !app_length in Hfuel. rewrite app_length. unfold len in *. lia.
Qed.

Theorem skip_exact_slice : forall items rest,
  Forall (fun b => len b < two64) items ->
  N.of_nat (length items) < two64 ->
  skip (append_varuint (N.of_nat (length items)) ++ concat (map frame items) ++ rest) WTSlice
  = Ok (len (append_varuint (N.of_nat (length items))) + len (concat (map frame items))).
Proof.
  intros items rest Hall Hc. unfold skip.
  cbn [WTSlice WTLength WT64 WTVarInt N.eqb Pos.eqb].
  rewrite read_append_varuint by exact Hc.
  pose proof (append_varuint_length_bounds (N.of_nat (length items))) as Hl.
  replace (Z.of_N (len (append_varuint (N.of_nat (length items)))) <=? 0)%Z with false
    by (symmetry; apply Z.leb_gt; lia).
  rewrite N2Z.id, go_drop_app. cbn [bind].
  apply skip_slice_items; [exact Hall|].
  rewrite !app_length. unfold len in Hl. lia.
Qed.

(** ** Boundedness and totality of Skip on arbitrary bytes *)

Lemma skip_varint_bounded : forall data i n,
  skip_varint data i = Ok n -> N.of_nat i < n <= N.of_nat i + len data.
Proof.
  induction data as [|v rest IH]; intros i n H; cbn [skip_varint] in H; [discriminate|].
  rewrite len_cons. destruct (v <? 128).
  - inversion H; subst. lia.
  - destruct (Nat.ltb 9 i); [discriminate|]. apply IH in H. lia.
Qed.

Lemma skip_varint_total : forall data i, is_ok_or_err (skip_varint data i).
Proof.
  induction data as [|v rest IH]; intros i; cbn [skip_varint]; [exact I|].
  destruct (v <? 128); [exact I|]. destruct (Nat.ltb 9 i); [exact I|apply IH].
Qed.

Lemma go_drop_ok site n l : n <= len l ->
  go_drop site n l = Ok (skipn (N.to_nat n) l) /\ len (skipn (N.to_nat n) l) = len l - n.
Proof.
  intros H. unfold go_drop. replace (n <=? len l) with true by (symmetry; apply N.leb_le; lia).
  split; [reflexivity|]. unfold len in *. rewrite skipn_length. lia.
Qed.

Lemma skip_slice_spec : forall fuel count rest off,
  (length rest < fuel)%nat ->
  match skip_slice fuel count rest off with
  | Ok n => off <= n <= off + len rest
  | Err => True
  | _ => False
  end.
Proof.
  induction fuel as [|f IH]; intros count rest off Hf; [lia|].
  cbn [skip_slice]. destruct (count =? 0); [lia|].
  destruct rest as [|b rest']; [exact I|].
  set (r := b :: rest') in *.
  destruct (read_varuint r) as [l n] eqn:Er.
  pose proof (read_varuint_n r l n Er) as Hn.
  destruct (n <=? 0)%Z eqn:Hn0; [exact I|]. apply Z.leb_gt in Hn0.
  destruct (go_drop_ok "Skip.WTSlice data[offset:]" (Z.to_N n) r ltac:(lia)) as [E1 L1].
  rewrite E1. cbn [bind].
  destruct (len (skipn (N.to_nat (Z.to_N n)) r) <? l) eqn:Hl; [exact I|]. apply N.ltb_ge in Hl.
  destruct (go_drop_ok "Skip.WTSlice data[offset:]" l (skipn (N.to_nat (Z.to_N n)) r) Hl) as [E2 L2].
  rewrite E2. cbn [bind].
  set (r2 := skipn (N.to_nat l) (skipn (N.to_nat (Z.to_N n)) r)) in *.
  assert (Hlen : (length r2 < f)%nat).
  { unfold len in L1, L2. unfold len in Hn. lia. }
  specialize (IH (count - 1) r2 (off + Z.to_N n + l) Hlen).
  destruct (skip_slice f (count - 1) r2 (off + Z.to_N n + l)); auto.
  lia.
Qed.

(** C18: a length Skip returns never exceeds the data it was given. *)
Theorem skip_bounded : forall data wt n, skip data wt = Ok n -> n <= len data.
Proof.
  intros data wt n H. unfold skip in H.
  destruct (wt =? WTVarInt).
  { apply skip_varint_bounded in H. lia. }
  destruct (wt =? WT64).
  { destruct (len data <? 8) eqn:E; [discriminate|]. apply N.ltb_ge in E. inversion H; subst. lia. }
  destruct (wt =? WTLength).
  { destruct (read_varuint data) as [l k] eqn:Er.
    pose proof (read_varuint_n data l k Er).
    destruct (k <=? 0)%Z eqn:Hk; [discriminate|]. apply Z.leb_gt in Hk.
    destruct (len data - Z.to_N k <? l) eqn:E; [discriminate|]. apply N.ltb_ge in E.
    inversion H; subst. lia. }
  destruct (wt =? WTSlice).
  { destruct (read_varuint data) as [c k] eqn:Er.
    pose proof (read_varuint_n data c k Er).
    destruct (k <=? 0)%Z eqn:Hk; [discriminate|]. apply Z.leb_gt in Hk.
    destruct (go_drop_ok "Skip.WTSlice data[n:]" (Z.to_N k) data ltac:(lia)) as [E1 L1].
    rewrite E1 in H. cbn [bind] in H.
    pose proof (skip_slice_spec (S (length data)) c (skipn (N.to_nat (Z.to_N k)) data) (Z.to_N k)) as HS.
    rewrite H in HS. unfold len in *. rewrite skipn_length in *.
    specialize (HS ltac:(lia)). lia. }
  destruct (wt =? WT32).
  { destruct (len data <? 4) eqn:E; [discriminate|]. apply N.ltb_ge in E. inversion H; subst. lia. }
  discriminate.
Qed.

(** C18: Skip on arbitrary bytes returns a length or an error: it does not
    panic and its loops terminate within [length data + 1] iterations. *)
Theorem skip_total : forall data wt, is_ok_or_err (skip data wt).
Proof.
  intros data wt. unfold skip.
  destruct (wt =? WTVarInt); [apply skip_varint_total|].
  destruct (wt =? WT64); [destruct (len data <? 8); exact I|].
  destruct (wt =? WTLength).
  { destruct (read_varuint data) as [l k]. destruct (k <=? 0)%Z; [exact I|].
    destruct (len data - Z.to_N k <? l); exact I. }
  destruct (wt =? WTSlice).
  { destruct (read_varuint data) as [c k] eqn:Er.
    pose proof (read_varuint_n data c k Er).
    destruct (k <=? 0)%Z eqn:Hk; [exact I|]. apply Z.leb_gt in Hk.
    destruct (go_drop_ok "Skip.WTSlice data[n:]" (Z.to_N k) data ltac:(lia)) as [E1 L1].
    rewrite E1. cbn [bind].
    pose proof (skip_slice_spec (S (length data)) c (skipn (N.to_nat (Z.to_N k)) data) (Z.to_N k)) as HS.
    rewrite skipn_length in HS. specialize (HS ltac:(lia)).
    destruct (skip_slice _ _ _ _); cbn; auto; contradiction. }
  destruct (wt =? WT32); [destruct (len data <? 4); exact I|exact I].
Qed.
