(** Model of the Descriptor() methods and of plenccodec/descriptor.go
    (Descriptor.read and friends), producing Outputter events. *)
From Plenc Require Import Base Varint Wire JsonAny Codec.
Open Scope N_scope.

(** FieldType / LogicalType codes *)
Definition FTInt : N := 0.  Definition FTUint : N := 1.  Definition FTFloat32 : N := 2.
Definition FTFloat64 : N := 3.  Definition FTString : N := 4.  Definition FTSlice : N := 5.
Definition FTStruct : N := 6.  Definition FTBool : N := 7.  Definition FTTime : N := 8.
Definition FTJSONObject : N := 9.  Definition FTJSONArray : N := 10.  Definition FTFlatInt : N := 11.
Definition LTNone : N := 0.  Definition LTTimestamp : N := 1.  Definition LTMap : N := 4.  Definition LTMapEntry : N := 5.

Inductive desc :=
  Desc (index : Z) (name : bytes) (ftype : N) (typename : bytes) (elems : list desc) (explicit : bool) (logical : N).

Definition d_index (d : desc) := let 'Desc i _ _ _ _ _ _ := d in i.
Definition d_name (d : desc) := let 'Desc _ n _ _ _ _ _ := d in n.
Definition d_type (d : desc) := let 'Desc _ _ t _ _ _ _ := d in t.
Definition d_typename (d : desc) := let 'Desc _ _ _ tn _ _ _ := d in tn.
Definition d_elems (d : desc) := let 'Desc _ _ _ _ e _ _ := d in e.
Definition d_explicit (d : desc) := let 'Desc _ _ _ _ _ x _ := d in x.
Definition d_logical (d : desc) := let 'Desc _ _ _ _ _ _ l := d in l.

Definition simple (t l : N) : desc := Desc 0 [] t [] [] false l.
Definition with_field (i : Z) (n : bytes) (d : desc) : desc :=
  let 'Desc _ _ t tn e x l := d in Desc i n t tn e x l.
Definition with_explicit (d : desc) : desc :=
  let 'Desc i n t tn e _ l := d in Desc i n t tn e true l.

(** FieldType.String() (fieldtype_string.go) *)
Fixpoint ascii (s : string) : bytes :=
  match s with
  | EmptyString => []
  | String c r => N.of_nat (Ascii.nat_of_ascii c) :: ascii r
  end.
Definition ftype_name (t : N) : bytes :=
  if t =? 0 then ascii "FieldTypeInt" else if t =? 1 then ascii "FieldTypeUint"
  else if t =? 2 then ascii "FieldTypeFloat32" else if t =? 3 then ascii "FieldTypeFloat64"
  else if t =? 4 then ascii "FieldTypeString" else if t =? 5 then ascii "FieldTypeSlice"
  else if t =? 6 then ascii "FieldTypeStruct" else if t =? 7 then ascii "FieldTypeBool"
  (* the generated stringer table stops at FieldTypeTime: later constants print numerically *)
  else if t =? 8 then ascii "FieldTypeTime" else if t =? 9 then ascii "FieldType(9)"
  else if t =? 10 then ascii "FieldType(10)" else if t =? 11 then ascii "FieldType(11)"
  else [].

(** Codec.Descriptor().  A recursive type never finishes (the Go method
    recurses through the struct codec): [Hang] at the unfolding limit. *)
Fixpoint descriptor_of (c : codec) : res desc :=
  match c with
  | CBool => Ok (simple FTBool LTNone)
  | CInt _ => Ok (simple FTInt LTNone)
  | CUint _ => Ok (simple FTUint LTNone)
  | CFlat _ => Ok (simple FTFlatInt LTNone)
  | CF32 => Ok (simple FTFloat32 LTNone)
  | CF64 => Ok (simple FTFloat64 LTNone)
  | CString | CBytes => Ok (simple FTString LTNone)
  | CTime _ => Ok (simple FTTime LTTimestamp)
  | CBQ => Ok (simple FTFlatInt LTTimestamp)
  | CNull c' | CPtr c' => do d <- descriptor_of c'; Ok (with_explicit d)
  | CStruct nm _ fs =>
    do es <- (fix go (l : list (fld codec)) : res (list desc) :=
                match l with
                | [] => Ok []
                | f :: r => do d <- descriptor_of (f_codec f); do ds <- go r;
                            Ok (with_field (f_index f) (f_name f) d :: ds)
                end) fs;
    Ok (Desc 0 [] FTStruct nm es false LTNone)
  | CSliceVar c' | CSliceFix c' | CSliceLen c' | CSliceProto c' =>
    do d <- descriptor_of c'; Ok (Desc 0 [] FTSlice [] [d] false LTNone)
  | CMap kc vc | CMapProto kc vc =>
    do kd <- descriptor_of kc; do vd <- descriptor_of vc;
    let kn := match d_typename kd with [] => ftype_name (d_type kd) | n => n end in
    let vn := match d_typename vd with [] => ftype_name (d_type vd) | n => n end in
    Ok (Desc 0 [] FTSlice []
          [Desc 0 [] FTStruct (ascii "map_" ++ kn ++ [95] ++ vn)
                [with_field 1 (ascii "key") kd; with_field 2 (ascii "value") vd] false LTMapEntry]
          false LTMap)
  | CJMap => Ok (simple FTJSONObject LTNone)
  | CJArr => Ok (simple FTJSONArray LTNone)
  | CBottom => Hang "StructCodec.Descriptor recursion"
  end.

(** ** Outputter events *)
Inductive ev :=
| EvStartObj | EvEndObj | EvStartArr | EvEndArr
| EvName (s : bytes)
| EvInt (z : Z) | EvUint (n : N) | EvF32 (bits : N) | EvF64 (bits : N)
| EvStr (s : bytes) | EvBool (b : bool) | EvTime (sec nsec : Z) | EvRaw (s : bytes).

(** a walk returns the events emitted so far even when it fails (deferred
    EndObject/EndArray calls included) *)
Record wres := mkw { w_ev : list ev; w_out : res N }.
Definition wok (e : list ev) (n : N) : wres := mkw e (Ok n).
Definition werr (e : list ev) : wres := mkw e Err.
Definition wfail {A} (e : list ev) (r : res A) : wres :=
  mkw e (match r with Ok _ => Err | Err => Err | Panic s => Panic s | Hang s => Hang s | Blowup s => Blowup s end).

Definition is_json_map_entry (d : desc) : bool :=
  (d_type d =? FTStruct) && (d_logical d =? LTMapEntry) && Nat.eqb (length (d_elems d)) 2
  && match d_elems d with k :: _ => (d_type k =? FTString) && negb (d_explicit k) | _ => false end.
Definition is_json_map (d : desc) : bool :=
  (d_type d =? FTSlice) && (d_logical d =? LTMap) && Nat.eqb (length (d_elems d)) 1
  && match d_elems d with e :: _ => is_json_map_entry e | _ => false end.

Definition find_elem (es : list desc) (index : Z) : option desc :=
  find (fun e => (d_index e =? index)%Z) es.

(** scalar reads of Descriptor.read *)
Definition walk_scalar (d : desc) (data : bytes) : option wres :=
  let t := d_type d in
  let varue (kerr : ev) (k : N -> ev) :=
    let '(u, n) := read_varuint data in
    (* the Go code calls out.X(v) even when Read failed (v is then zero) *)
    if (n <? 0)%Z then mkw [kerr] Err else wok [k u] (Z.to_N n) in
  let varu (k : N -> ev) := varue (k 0) k in
  if t =? FTInt then Some (varu (fun u => EvInt (zagzig u)))
  else if t =? FTFlatInt then
    Some (if d_logical d =? LTTimestamp
          then varue (EvTime zero_sec 0) (fun u => match time_norm (s64 u / 1000000) ((s64 u mod 1000000) * 1000) with
                              | VTime s n => EvTime s n | _ => EvTime 0 0 end)
          else varu (fun u => EvInt (s64 u)))
  else if t =? FTUint then Some (varu EvUint)
  else if t =? FTBool then Some (varu (fun u => EvBool (negb (u =? 0))))
  else if t =? FTFloat32 then
    Some (if len data <? 4 then (match data with [] => wok [EvF32 0] 0 | _ => mkw [EvF32 0] Err end)
          else wok [EvF32 (le_value (firstn 4 data))] 4)
  else if t =? FTFloat64 then
    Some (if len data <? 8 then (match data with [] => wok [EvF64 0] 0 | _ => mkw [EvF64 0] Err end)
          else wok [EvF64 (le_value (firstn 8 data))] 8)
  else if t =? FTString then Some (wok [EvStr data] (len data))
  else if t =? FTTime then
    Some (match data with
          | [] => wok [EvTime zero_sec 0] 0
          | _ => match time_loop false (S (length data)) data 0 0%Z 0%Z with
                 | Ok (s, ns, used) => match time_norm s ns with VTime a b => wok [EvTime a b] used | _ => werr [] end
                 | r => wfail [EvTime zero_sec 0] r
                 end
          end)
  else None.

(** the entry loop of readAsJSON, parameterised by the walker of one entry body *)
Fixpoint wentries (kv : bytes -> wres) (k : nat) (cnt : N) (rest : bytes) (consumed : N) (acc : list ev) {struct k} : wres :=
  if cnt =? 0 then wok acc consumed else
  match k with
  | O => mkw acc (Hang "readAsJSON loop")
  | S k' =>
    let '(s, m) := read_varuint rest in
    if (m <=? 0)%Z then werr acc else
    match go_drop "readAsJSON" (Z.to_N m) rest with
    | Ok r1 =>
      if s =? 0 then wentries kv k' (cnt - 1) r1 (consumed + Z.to_N m) acc else
      if len r1 <? s then werr acc else
      match go_take "readAsJSON" s r1 with
      | Ok body =>
        let w := kv body in
        match w_out w with
        | Ok used =>
          match go_drop "readAsJSON" used r1 with
          | Ok r2 => wentries kv k' (cnt - 1) r2 (consumed + Z.to_N m + used) (acc ++ w_ev w)
          | r => wfail (acc ++ w_ev w) r
          end
        | r => mkw (acc ++ w_ev w) (match r with Ok _ => Err | x => x end)
        end
      | r => wfail acc r
      end
    | r => wfail acc r
    end
  end.

(** readJSONObjectKV / readAsJSON, on fuel *)
Fixpoint walk_jkv (fuel : nat) (rest : bytes) (consumed : N) (jt : N) (have : bool) (acc : list ev) {struct fuel} : wres :=
  match rest with
  | [] => wok (acc ++ (if negb have && (jt =? 0) then [EvRaw (ascii "null")] else [])) consumed
  | _ =>
  match fuel with
  | O => mkw acc (Hang "readJSONObjectKV")
  | S f =>
    let '(wt, index, n) := read_tag rest in
    if (n <=? 0)%Z then werr acc else
    match go_drop "readJSONObjectKV" (Z.to_N n) rest with
    | Ok rest1 =>
      let c1 := consumed + Z.to_N n in
      if (index =? 1)%Z then
        match read_chunk "readJSONObjectKV key" rest1 with
        | Ok (body, r1, k) =>
          match go_drop "readJSONObjectKV key" (len body) r1 with
          | Ok r2 => walk_jkv f r2 (c1 + k + len body) jt have (acc ++ [EvName body])
          | r => wfail acc r
          end
        | r => wfail acc r
        end
      else if (index =? 2)%Z then
        let '(v, k) := read_varuint rest1 in
        if (k <? 0)%Z then werr acc else
        match go_drop "readJSONObjectKV type" (Z.to_N k) rest1 with
        | Ok r2 => walk_jkv f r2 (c1 + Z.to_N k) v have acc
        | r => wfail acc r
        end
      else if (index =? 3)%Z then
        if (jt =? 1) || (jt =? 7) then
          match read_chunk "readJSONObjectKV string" rest1 with
          | Ok (body, r1, k) =>
            match go_drop "readJSONObjectKV string" (len body) r1 with
            | Ok r2 => walk_jkv f r2 (c1 + k + len body) jt true (acc ++ [if jt =? 1 then EvStr body else EvRaw body])
            | r => wfail acc r
            end
          | r => wfail acc r
          end
        else if jt =? 2 then
          let '(i, k) := read_varint rest1 in
          if (k <? 0)%Z then werr acc else
          match go_drop "readJSONObjectKV int" (Z.to_N k) rest1 with
          | Ok r2 => walk_jkv f r2 (c1 + Z.to_N k) jt true (acc ++ [EvInt i])
          | r => wfail acc r
          end
        else if jt =? 3 then
          if len rest1 <? 8 then
            (match rest1 with [] => walk_jkv f rest1 c1 jt true (acc ++ [EvF64 0]) | _ => werr acc end)
          else match go_drop "readJSONObjectKV float" 8 rest1 with
               | Ok r2 => walk_jkv f r2 (c1 + 8) jt true (acc ++ [EvF64 (le_value (firstn 8 rest1))])
               | r => wfail acc r
               end
        else if jt =? 4 then
          let '(v, k) := read_varuint rest1 in
          if (k <? 0)%Z then werr acc else
          match go_drop "readJSONObjectKV bool" (Z.to_N k) rest1 with
          | Ok r2 => walk_jkv f r2 (c1 + Z.to_N k) jt true (acc ++ [EvBool (negb (v =? 0))])
          | r => wfail acc r
          end
        else if (jt =? 5) || (jt =? 6) then
          let w := walk_json f (jt =? 6) rest1 in
          match w_out w with
          | Ok k =>
            match go_drop "readJSONObjectKV nested" k rest1 with
            | Ok r2 => walk_jkv f r2 (c1 + k) jt true (acc ++ w_ev w)
            | r => wfail (acc ++ w_ev w) r
            end
          | r => mkw (acc ++ w_ev w) (match r with Ok _ => Err | x => x end)
          end
        else werr acc
      else werr acc    (* unexpected json field index *)
    | r => wfail acc r
    end
  end
  end

(** Descriptor.read for FieldTypeJSONObject / FieldTypeJSONArray (Start/End included) *)
with walk_json (fuel : nat) (isobj : bool) (data : bytes) {struct fuel} : wres :=
  let open_ := if isobj then EvStartObj else EvStartArr in
  let close_ := if isobj then EvEndObj else EvEndArr in
  match fuel with
  | O => mkw [open_; close_] (Hang "readAsJSON")
  | S f =>
    let '(count, n) := read_varuint data in
    if (n <? 0)%Z then mkw [open_; close_] Err else
    match go_drop "readAsJSON" (Z.to_N n) data with
    | Ok rest =>
      (* for i := 0; i < int(count); i++ : a count above the int range runs no iteration *)
      let cnt := if count <? two63 then count else 0 in
      let w := wentries (fun body => walk_jkv f body 0 0 false []) (S (length data)) cnt rest (Z.to_N n) [] in
      mkw ([open_] ++ w_ev w ++ [close_]) (w_out w)
    | r => wfail [open_; close_] r
    end
  end.

(** readAsStruct / readAsMapEntry loop over the fields of [es].
    [mapentry]: emit no member names, and supply the missing key / value. *)
Section StructWalk.
  Variable walkd : desc -> bytes -> wres.

  Definition read_missing (d : desc) : wres :=
    if d_explicit d then wok [EvRaw (ascii "null")] 0 else walkd d [].

  Fixpoint walk_fields (es : list desc) (mapentry : bool) (fuel : nat) (rest : bytes) (consumed : N)
           (havek havev : bool) (acc : list ev) : wres :=
    match rest with
    | [] =>
      if mapentry then
        match es with
        | kd :: vd :: _ =>
          let w1 := if havek then wok [] 0 else read_missing kd in
          match w_out w1 with
          | Ok _ =>
            let w2 := if havev then wok [] 0 else read_missing vd in
            match w_out w2 with
            | Ok _ => wok (acc ++ w_ev w1 ++ w_ev w2) consumed
            | r => mkw (acc ++ w_ev w1 ++ w_ev w2) (match r with Ok _ => Err | x => x end)
            end
          | r => mkw (acc ++ w_ev w1) (match r with Ok _ => Err | x => x end)
          end
        | _ => wok acc consumed
        end
      else wok acc consumed
    | _ =>
    match fuel with
    | O => mkw acc (Hang "Descriptor.readAsStruct")
    | S f =>
      let '(wt, index, n) := read_tag rest in
      if (n <=? 0)%Z then werr acc else
      match go_drop "Descriptor.readAsStruct" (Z.to_N n) rest with
      | Ok rest1 =>
        let c1 := consumed + Z.to_N n in
        match find_elem es index with
        | None =>
          match skip rest1 wt with
          | Ok k => match go_drop "Descriptor.readAsStruct" k rest1 with
                    | Ok rest2 => walk_fields es mapentry f rest2 (c1 + k) havek havev acc
                    | r => wfail acc r
                    end
          | r => wfail acc r
          end
        | Some elt =>
          let iskey := match es with kd :: _ => (d_index kd =? index)%Z | _ => false end in
          let isval := negb iskey in
          let body (fdata after : bytes) (c2 : N) :=
            (* a value arriving without a key: the key was omitted because it is empty *)
            let wk := if mapentry && isval && negb havek
                      then match es with kd :: _ => read_missing kd | _ => wok [] 0 end else wok [] 0 in
            match w_out wk with
            | Ok _ =>
              let pre := acc ++ w_ev wk ++ (if mapentry then [] else [EvName (d_name elt)]) in
              let w := walkd elt fdata in
              match w_out w with
              | Ok used =>
                match go_drop "Descriptor.readAsStruct" used after with
                | Ok rest3 => walk_fields es mapentry f rest3 (c2 + used)
                                (havek || (mapentry && (iskey || isval))) (havev || (mapentry && isval)) (pre ++ w_ev w)
                | r => wfail (pre ++ w_ev w) r
                end
              | r => mkw (pre ++ w_ev w) (match r with Ok _ => Err | x => x end)
              end
            | r => mkw (acc ++ w_ev wk) (match r with Ok _ => Err | x => x end)
            end in
          if wt =? WTLength then
            let '(l, k) := read_varuint rest1 in
            if (k <=? 0)%Z then werr acc else
            match go_drop "Descriptor.readAsStruct" (Z.to_N k) rest1 with
            | Ok rest2 =>
              if len rest2 <? l then werr acc else
              match go_take "Descriptor.readAsStruct" l rest2 with
              | Ok fdata => body fdata rest2 (c1 + Z.to_N k)
              | r => wfail acc r
              end
            | r => wfail acc r
            end
          else body rest1 rest1 c1
        end
      | r => wfail acc r
      end
    end
    end.

  (** readAsSlice, scalar elements: elt.read until the data is used up *)
  Fixpoint walk_packed (elt : desc) (fuel : nat) (rest : bytes) (consumed : N) (acc : list ev) : wres :=
    match rest with
    | [] => wok acc consumed
    | _ =>
    match fuel with
    | O => mkw acc (Hang "Descriptor.readAsSlice")
    | S f =>
      let w := walkd elt rest in
      match w_out w with
      | Ok used =>
        if used =? 0 then werr (acc ++ w_ev w) else
        match go_drop "Descriptor.readAsSlice" used rest with
        | Ok r1 => walk_packed elt f r1 (consumed + used) (acc ++ w_ev w)
        | r => wfail (acc ++ w_ev w) r
        end
      | r => mkw (acc ++ w_ev w) (match r with Ok _ => Err | x => x end)
      end
    end
    end.

  (** readAsSlice, counted elements *)
  Fixpoint walk_counted (elt : desc) (fuel : nat) (cnt : N) (rest : bytes) (consumed : N) (acc : list ev) : wres :=
    if cnt =? 0 then wok acc consumed else
    match fuel with
    | O => mkw acc (Hang "Descriptor.readAsSlice")
    | S f =>
      match rest with
      | [] => werr acc
      | _ =>
        let '(s, m) := read_varuint rest in
        if (m <=? 0)%Z then werr acc else
        match go_drop "Descriptor.readAsSlice" (Z.to_N m) rest with
        | Ok r1 =>
          if len r1 <? s then werr acc else
          match go_take "Descriptor.readAsSlice" s r1 with
          | Ok body =>
            let w := walkd elt body in
            match w_out w with
            | Ok used =>
              match go_drop "Descriptor.readAsSlice" used r1 with
              | Ok r2 => walk_counted elt f (cnt - 1) r2 (consumed + Z.to_N m + used) (acc ++ w_ev w)
              | r => wfail (acc ++ w_ev w) r
              end
            | r => mkw (acc ++ w_ev w) (match r with Ok _ => Err | x => x end)
            end
          | r => wfail acc r
          end
        | r => wfail acc r
        end
      end
    end.
End StructWalk.

(** Descriptor.read *)
Fixpoint walk (d : desc) (data : bytes) {struct d} : wres :=
  match walk_scalar d data with
  | Some w => w
  | None =>
    let 'Desc _ _ t _ es _ lt := d in
    if t =? FTSlice then
      let isobj := is_json_map d in
      let open_ := if isobj then EvStartObj else EvStartArr in
      let close_ := if isobj then EvEndObj else EvEndArr in
      match es with
      | [] => mkw [open_; close_] (Panic "Descriptor.readAsSlice d.Elements[0]")
      | elt :: _ =>
        let et := d_type elt in
        let inner :=
          if (et =? FTFloat32) || (et =? FTFloat64) || (et =? FTInt) || (et =? FTUint) || (et =? FTFlatInt) || (et =? FTBool) then
            walk_packed (fun e b => match es with e0 :: _ => walk e0 b | [] => werr [] end) elt (S (length data)) data 0 []
          else if (et =? FTStruct) || (et =? FTSlice) || (et =? FTString) || (et =? FTTime) then
            let '(count, n) := read_varuint data in
            if (n <? 0)%Z then werr [] else
            match go_drop "Descriptor.readAsSlice" (Z.to_N n) data with
            | Ok rest =>
              let cnt := if count <? two63 then count else 0 in
              walk_counted (fun e b => match es with e0 :: _ => walk e0 b | [] => werr [] end) elt (S (length data)) cnt rest (Z.to_N n) []
            | r => wfail [] r
            end
          else werr [] in
        mkw ([open_] ++ w_ev inner ++ [close_]) (w_out inner)
      end
    else if t =? FTStruct then
      let sub := (fix subwalk (l : list desc) (e : desc) (b : bytes) : wres :=
                    match l with
                    | [] => werr []
                    | x :: r => if (d_index x =? d_index e)%Z then walk x b else subwalk r e b
                    end) es in
      if is_json_map_entry d then
        walk_fields sub es true (S (length data)) data 0 false false []
      else if (lt =? LTMapEntry) && match es with k :: _ :: [] => negb (d_type k =? FTString) | _ => false end then
        let w := walk_fields sub es false (S (length data)) data 0 false false [] in
        mkw ([EvStartObj] ++ w_ev w ++ [EvEndObj]) (w_out w)
      else
        let w := walk_fields sub es false (S (length data)) data 0 false false [] in
        mkw ([EvStartObj] ++ w_ev w ++ [EvEndObj]) (w_out w)
    else if t =? FTJSONObject then walk_json (jfuel data) true data
    else if t =? FTJSONArray then walk_json (jfuel data) false data
    else werr []
  end.
