(** C08: a codec that CodecForType hands out is structurally sound - and
    therefore obeys the decoding-totality and round-trip theorems. *)
From Plenc Require Import Base Varint Wire JsonAny Codec SizeProofs DecBase DecProofs Registry RegistryProofs
  RoundTripBase RoundTrip Descriptor DescProofs.
Open Scope N_scope.

(** structural soundness of a codec tree *)
Fixpoint sane (c : codec) {struct c} : Prop :=
  match c with
  | CInt b | CUint b | CFlat b => bits_ok b
  | CNull c' | CPtr c' => sane c'
  | CStruct _ n fs =>
    (fix all (l : list (fld codec)) : Prop :=
       match l with
       | [] => True
       | f :: r => (sane (f_codec f) /\ (0 <= f_index f < max_sane_index)%Z /\ (f_slot f < n)%nat) /\ all r
       end) fs
    /\ NoDup (map (fun f => f_index f) fs) /\ NoDup (map (fun f => f_slot f) fs)
  | CSliceVar c' => sane c' /\ wire c' = WTVarInt
  | CSliceFix c' => sane c' /\ (wire c' = WT64 \/ wire c' = WT32) /\ fixed_width c' <> 0
  | CSliceLen c' | CSliceProto c' => sane c' /\ wire c' = WTLength
  | CMap k v | CMapProto k v => sane k /\ sane v
  | _ => True
  end.

Lemma fixed_width_wire : forall c, wire c = WT64 \/ wire c = WT32 -> fixed_width c <> 0.
Proof.
  induction c; cbn [wire fixed_width]; unfold WTVarInt, WT64, WT32, WTLength, WTSlice;
    intros [H|H]; try discriminate H; try lia; auto.
Qed.

(** everything a Plenc instance registers is sound (and has no unfolding limit) *)
Lemma regs_sane : forall C t tag c, lookup (regs_of C) t tag = Some c -> sane c /\ nobottom c = true.
Proof.
  intros C t tag c H. unfold lookup in H.
  destruct (find _ (regs_of C)) as [e|] eqn:E; [|discriminate]. injection H as <-.
  apply find_some in E. destruct E as [Hin _].
  assert (Hall : Forall (fun e : ty * bytes * codec => sane (snd e) /\ nobottom (snd e) = true) (regs_of C)).
  { destruct C as [pt pa wn wj wb wc]. unfold regs_of, default_regs, null_regs, json_regs, bq_regs, custom_regs. cbn [proto_time with_null with_json with_bq with_custom].
    destruct pt, wn, wj, wb, wc; cbn [map app bitsof N.eqb];
      repeat (constructor; [cbn; unfold bits_ok; split; [auto 6|reflexivity]|]); constructor. }
  rewrite Forall_forall in Hall. apply (Hall e Hin).
Qed.

Lemma build_fields_sane cf : (forall t tag c, cf t tag = Ok c -> sane c) ->
  forall l i fs, build_fields cf i l = Ok fs ->
  Forall (fun f => sane (f_codec f) /\ (0 <= f_index f)%Z /\ (i <= f_slot f < i + length l)%nat) fs
  /\ NoDup (map (fun f => f_slot f) fs).
Proof.
  intros Hcf. induction l as [|fd r IH]; intros i fs H; cbn [build_fields] in H.
  - injection H as <-. split; constructor.
  - assert (Hskip : forall fs', build_fields cf (S i) r = Ok fs' ->
              Forall (fun f => sane (f_codec f) /\ (0 <= f_index f)%Z /\ (i <= f_slot f < i + length (fd :: r))%nat) fs'
              /\ NoDup (map (fun f => f_slot f) fs')).
    { intros fs' H'. destruct (IH (S i) fs' H') as [A B]. split; [|exact B].
      rewrite Forall_forall in *. intros f Hf. destruct (A f Hf) as (X & Y & Z). cbn [length]. repeat split; auto; lia. }
    destruct (negb (fd_exported fd)); [apply Hskip; exact H|].
    destruct (bytes_eqb (fd_plenc fd) []); [discriminate|].
    destruct (bytes_eqb (fd_plenc fd) [45]); [apply Hskip; exact H|].
    destruct (cut 44 (fd_plenc fd)) as [num post].
    destruct (atoi num) as [index|]; [|discriminate].
    destruct (index <? 0)%Z eqn:Ei; [discriminate|]. apply Z.ltb_ge in Ei.
    match type of H with (do fc <- ?X; _) = _ => destruct X as [fc| | | |] eqn:Efc end; cbn [bind] in H; try discriminate.
    destruct (build_fields cf (S i) r) as [rest| | | |] eqn:Er; cbn [bind] in H; try discriminate.
    injection H as <-. destruct (Hskip rest eq_refl) as [A B]. split.
    + constructor; [|exact A]. cbn [f_codec f_index f_slot length]. split; [eapply Hcf; exact Efc|]. split; [exact Ei|lia].
    + cbn [map f_slot]. constructor; [|exact B].
      destruct (IH (S i) rest Er) as [A' _]. intros Hin. apply in_map_iff in Hin. destruct Hin as (g & Hg & Hing).
      rewrite Forall_forall in A'. destruct (A' g Hing) as (_ & _ & Hs). lia.
Qed.

Theorem codec_for_sane : forall C E fuel t tag c, codec_for C E fuel t tag = Ok c -> sane c.
Proof.
  intros C E. induction fuel as [|f IH]; intros t tag c H; cbn [codec_for] in H.
  - injection H as <-. exact I.
  - destruct (lookup (regs_of C) t tag) as [c0|] eqn:El.
    { injection H as <-. apply (regs_sane C t tag c0 El). }
    assert (Hbasic : forall t0, basic C t0 tag = Ok c -> sane c).
    { intros t0 Hb. unfold basic in Hb. destruct (lookup (regs_of C) t0 tag) as [c1|] eqn:E1; [|discriminate].
      injection Hb as <-. apply (regs_sane C t0 tag c1 E1). }
    destruct (strip t) eqn:Et; try discriminate; try (apply (Hbasic _ H)).
    + (* pointer *) destruct (is_map_kind t0); [discriminate|].
      destruct (codec_for C E f t0 tag) as [sub| | | |] eqn:Es; cbn [bind] in H; try discriminate.
      injection H as <-. cbn [sane]. apply (IH _ _ _ Es).
    + (* slice *) destruct (negb (bytes_eqb tag [] || bytes_eqb tag s_proto)); [discriminate|].
      destruct (codec_for C E f t0 []) as [sub| | | |] eqn:Es; cbn [bind] in H; try discriminate.
      pose proof (IH _ _ _ Es) as Hsub.
      destruct (wire sub =? WTVarInt) eqn:E0.
      { injection H as <-. cbn [sane]. split; [exact Hsub|apply N.eqb_eq; exact E0]. }
      destruct ((wire sub =? WT64) || (wire sub =? WT32)) eqn:E1.
      { destruct (is_ptr_kind t0); [discriminate|]. injection H as <-. cbn [sane].
        assert (Hw : wire sub = WT64 \/ wire sub = WT32).
        { apply orb_true_iff in E1. destruct E1 as [E1|E1]; apply N.eqb_eq in E1; auto. }
        split; [exact Hsub|]. split; [exact Hw|apply fixed_width_wire; exact Hw]. }
      destruct (wire sub =? WTLength) eqn:E2; [|discriminate]. apply N.eqb_eq in E2.
      destruct (proto_arrays C || bytes_eqb tag s_proto); injection H as <-; cbn [sane]; auto.
    + (* map *) destruct (negb (bytes_eqb tag [] || bytes_eqb tag s_proto)); [discriminate|].
      destruct (is_map_kind t0_2); [discriminate|].
      destruct (codec_for C E f t0_1 []) as [kc| | | |] eqn:Ek; cbn [bind] in H; try discriminate.
      destruct (codec_for C E f t0_2 []) as [vc| | | |] eqn:Ev; cbn [bind] in H; try discriminate.
      destruct (bytes_eqb tag s_proto); injection H as <-; cbn [sane]; split; eauto.
    + (* struct *) destruct tag; [|discriminate].
      destruct (nth_error E (N.to_nat id)) as [sd|]; [|discriminate].
      destruct (build_fields (codec_for C E f) 0 (sd_fields sd)) as [fs| | | |] eqn:Eb; cbn [bind] in H; try discriminate.
      destruct (max_sane_index <=? _)%Z eqn:Em; [discriminate|]. apply Z.leb_gt in Em.
      destruct (has_dup fs) eqn:Ed; [discriminate|]. injection H as <-.
      destruct (build_fields_sane (codec_for C E f) (fun t0 tg c0 => IH t0 tg c0) _ _ _ Eb) as [A B].
      cbn [sane]. split; [|split; [apply has_dup_spec; exact Ed|exact B]].
      assert (Hmax : Forall (fun g => (f_index g < max_sane_index)%Z) fs).
      { clear -Em. induction fs as [|g r IHr]; [constructor|]. cbn [fold_right] in Em. constructor; [lia|]. apply IHr. lia. }
      clear -A Hmax. induction fs as [|g r IHr]; [exact I|].
      inversion A as [|? ? (X & Y & Z) A']; subst. inversion Hmax as [|? ? M Hmax']; subst.
      split; [split; [exact X|split; [lia|cbn in Z; lia]]|apply IHr; assumption].
    + (* time.Time built as a struct when unregistered *)
      destruct tag; [|discriminate]. destruct (k =? 0); [|discriminate]. injection H as <-.
      cbn [sane]. split; [exact I|split; constructor].
Qed.

(** the part of the codec universe covered by the round-trip theorem: all of it
    except the BigQuery codec, scalar slices over pointer / null / BQ elements
    (findings D24, nil elements) and the repeated forms outside struct fields (D12) *)
Definition topb (c : codec) : bool := match c with CSliceProto _ | CMapProto _ _ => false | _ => true end.
Fixpoint frag (c : codec) : bool :=
  match c with
  | CBool | CInt _ | CUint _ | CFlat _ | CF32 | CF64 | CString | CBytes | CTime _ => true
  | CNull c' | CPtr c' => frag c' && topb c'
  | CStruct _ _ fs => forallb (fun f => frag (f_codec f)) fs
  | CSliceVar c' => match c' with CBool | CInt _ | CUint _ | CFlat _ | CPtr (CBool | CInt _ | CUint _ | CFlat _) => true | _ => false end
  | CSliceFix c' => match c' with CF32 | CF64 => true | _ => false end
  | CSliceLen c' | CSliceProto c' => frag c' && topb c'
  | CMap k v | CMapProto k v => frag k && frag v && topb k && topb v
  | CJMap | CJArr => true
  | CBottom => true      (* the unfolding limit of a recursive type *)
  | CBQ => false
  end.

Lemma topb_top c : topb c = true -> top_ok c.
Proof. destruct c; cbn; intros H; try discriminate; exact I. Qed.

Theorem sane_frag_rt : forall c, sane c -> frag c = true -> rt_ok c.
Proof.
  induction c as [ |b|b|b| | | | |compat| |c IH|c IH|nm n fs IH|c IH|c IH|c IH|c IH|kc vc IHk IHv|kc vc IHk IHv| | | ]
    using codec_ind'; intros Hs Hf; cbn [sane frag rt_ok] in *; try discriminate; auto.
  - apply andb_true_iff in Hf. destruct Hf as [Hf Ht]. split; [apply IH; assumption|apply topb_top; exact Ht].
  - apply andb_true_iff in Hf. destruct Hf as [Hf Ht]. split; [apply IH; assumption|apply topb_top; exact Ht].
  - destruct Hs as (Hall & H1 & H2). split; [|split; assumption]. clear H1 H2.
    induction IH as [|f r Hf0 Hr IHr]; [exact I|].
    cbn [forallb] in Hf. apply andb_true_iff in Hf. destruct Hf as [Hf1 Hf2].
    destruct Hall as [(A & B & C) Hall]. split; [|apply IHr; assumption].
    split; [apply Hf0; assumption|]. split; [unfold max_sane_index in B; lia|exact C].
  - destruct Hs as [Hs Hw]. destruct c; try discriminate; cbn [plain_varint plain_varint0 sane] in *; auto.
    destruct c; try discriminate; cbn [plain_varint0 sane] in *; auto.
  - destruct c; try discriminate; exact I.
  - destruct Hs as [Hs Hw]. apply andb_true_iff in Hf. destruct Hf as [Hf Ht].
    split; [apply IH; assumption|]. split; [exact Hw|apply topb_top; exact Ht].
  - destruct Hs as [Hs Hw]. apply andb_true_iff in Hf. destruct Hf as [Hf Ht].
    split; [apply IH; assumption|]. split; [exact Hw|apply topb_top; exact Ht].
  - destruct Hs as [Hsk Hsv]. repeat (apply andb_true_iff in Hf; destruct Hf as [Hf ?]).
    repeat split; auto using topb_top.
  - destruct Hs as [Hsk Hsv]. repeat (apply andb_true_iff in Hf; destruct Hf as [Hf ?]).
    repeat split; auto using topb_top.
Qed.

(** C08: what CodecForType accepts obeys the other properties - the codec it
    returns round-trips (on the fragment covered by C01's theorem: on its own
    when it is not a repeated form, and as a struct field always) and decodes
    arbitrary bytes totally (when no recursive type was cut off by the model's
    unfolding limit) *)
Theorem accepted_roundtrips : forall C E fuel t tag c,
  codec_for C E fuel t tag = Ok c -> frag c = true -> (topb c = true -> RTc c) /\ FRT c.
Proof.
  intros C E fuel t tag c H Hf.
  destruct (roundtrip_gen c (sane_frag_rt c (codec_for_sane _ _ _ _ _ _ H) Hf)) as [A B].
  split; [intros Ht; apply A; apply topb_top; exact Ht|exact B].
Qed.

(** no recursive type was cut off by the model's unfolding limit *)
Fixpoint bottom_free (c : codec) : bool :=
  match c with
  | CBottom => false
  | CNull c' | CPtr c' | CSliceVar c' | CSliceFix c' | CSliceLen c' | CSliceProto c' => bottom_free c'
  | CMap k v | CMapProto k v => bottom_free k && bottom_free v
  | CStruct _ _ fs => forallb (fun f => bottom_free (f_codec f)) fs
  | _ => true
  end.

Lemma sane_nobottom : forall c, sane c -> bottom_free c = true -> nobottom c = true.
Proof.
  induction c as [ |b|b|b| | | | |compat| |c IH|c IH|nm n fs IH|c IH|c IH|c IH|c IH|kc vc IHk IHv|kc vc IHk IHv| | | ]
    using codec_ind'; intros Hs Hb; cbn [sane bottom_free nobottom] in *; try discriminate; auto.
  - destruct Hs as (Hall & _ & _).
    induction IH as [|f r Hf0 Hr IHr]; [reflexivity|].
    cbn [forallb] in *. apply andb_true_iff in Hb. destruct Hb as [Hb1 Hb2].
    destruct Hall as [(A & _) Hall]. apply andb_true_iff. split; [apply Hf0; assumption|apply IHr; assumption].
  - apply IH; [apply Hs|exact Hb].
  - destruct Hs as (Hs & _ & Hw). apply andb_true_iff. split; [|apply IH; assumption].
    apply negb_true_iff. apply N.eqb_neq. exact Hw.
  - apply IH; [apply Hs|exact Hb].
  - apply IH; [apply Hs|exact Hb].
  - apply andb_true_iff in Hb. destruct Hb. destruct Hs. apply andb_true_iff. split; auto.
  - apply andb_true_iff in Hb. destruct Hb. destruct Hs. apply andb_true_iff. split; auto.
Qed.

Theorem accepted_total : forall C E fuel t tag c,
  codec_for C E fuel t tag = Ok c -> bottom_free c = true ->
  forall data wt prior, good (dec c data wt prior) (len data).
Proof.
  intros C E fuel t tag c H Hb data wt prior. apply dec_total_nobottom.
  apply sane_nobottom; [eapply codec_for_sane; exact H|exact Hb].
Qed.

(** ** C19: the intern option does not change the codec tree *)
Lemma cut_no_sep : forall s, ~ In 44 s -> cut 44 s = (s, None).
Proof.
  induction s as [|c r IH]; intros H; cbn [cut]; [reflexivity|].
  destruct (c =? 44) eqn:E; [apply N.eqb_eq in E; exfalso; apply H; left; exact E|].
  rewrite IH by (intros Hi; apply H; right; exact Hi). reflexivity.
Qed.
Lemma cut_app_sep : forall s post, ~ In 44 s -> cut 44 (s ++ 44 :: post) = (s, Some post).
Proof.
  induction s as [|c r IH]; intros post H; cbn [cut app]; [reflexivity|].
  destruct (c =? 44) eqn:E; [apply N.eqb_eq in E; exfalso; apply H; left; exact E|].
  rewrite IH by (intros Hi; apply H; right; exact Hi). reflexivity.
Qed.

Definition with_plenc (fd : fdef) (tg : bytes) : fdef :=
  mkfdef (fd_exported fd) (fd_name fd) tg (fd_json fd) (fd_ty fd).

(** a field tagged "N,intern" is built exactly like the same field tagged "N":
    same index, same name, same codec - so what is appended and what Size
    reports are unchanged by the option (interning acts on decoding only) *)
Theorem intern_same_codec : forall cf i fd num r, num <> [] -> ~ In 44 num -> num <> [45] ->
  build_fields cf i (with_plenc fd (num ++ 44 :: s_intern) :: r) = build_fields cf i (with_plenc fd num :: r).
Proof.
  intros cf i fd num r Hne Hn Hd. cbn [build_fields with_plenc fd_exported fd_plenc fd_json fd_name fd_ty].
  destruct (negb (fd_exported fd)); [reflexivity|].
  assert (E1 : bytes_eqb (num ++ 44 :: s_intern) [] = false) by (destruct num; [congruence|reflexivity]).
  assert (E2 : bytes_eqb num [] = false) by (destruct num; [congruence|reflexivity]).
  assert (E3 : bytes_eqb (num ++ 44 :: s_intern) [45] = false).
  { destruct num as [|a [|b q]]; [congruence| |].
    - cbn. destruct (a =? 45); reflexivity.
    - cbn. destruct (a =? 45); reflexivity. }
  assert (E4 : bytes_eqb num [45] = false).
  { destruct (bytes_eqb num [45]) eqn:E; [|reflexivity]. apply bytes_eqb_eq in E. congruence. }
  rewrite E1, E2, E3, E4, (cut_app_sep num s_intern Hn), (cut_no_sep num Hn).
  change (bytes_eqb s_intern s_intern) with true. change (bytes_eqb [] s_intern) with false. reflexivity.
Qed.

(** and the codec registered for (string, "intern") is the string codec *)
Theorem intern_string_registration : forall C, lookup (regs_of C) TString s_intern = lookup (regs_of C) TString [].
Proof. intros [pt pa wn wj wb wc]. destruct wc; reflexivity. Qed.

(** ** C14: the Descriptor of a struct type mirrors its definition *)

(** what the definition says about each encoded field: index from the plenc
    tag, name from the json tag (up to the first comma) when it has one,
    otherwise the Go field name; unexported and "-" fields do not appear *)
Fixpoint field_specs (l : list fdef) : list (Z * bytes) :=
  match l with
  | [] => []
  | fd :: r =>
    if negb (fd_exported fd) then field_specs r
    else if bytes_eqb (fd_plenc fd) [45] then field_specs r
    else
      match atoi (fst (cut 44 (fd_plenc fd))) with
      | Some index =>
        (index, match fst (cut 44 (fd_json fd)) with [] => fd_name fd | j => j end) :: field_specs r
      | None => field_specs r
      end
  end.

Lemma build_fields_specs cf : forall l i fs, build_fields cf i l = Ok fs ->
  map (fun f => (f_index f, f_name f)) fs = field_specs l.
Proof.
  induction l as [|fd r IH]; intros i fs H; cbn [build_fields field_specs] in *.
  - injection H as <-. reflexivity.
  - destruct (negb (fd_exported fd)); [apply (IH _ _ H)|].
    destruct (bytes_eqb (fd_plenc fd) []); [discriminate|].
    destruct (bytes_eqb (fd_plenc fd) [45]); [apply (IH _ _ H)|].
    destruct (cut 44 (fd_plenc fd)) as [num post]. cbn [fst].
    destruct (atoi num) as [index|]; [|discriminate].
    destruct (index <? 0)%Z; [discriminate|].
    match type of H with (do fc <- ?X; _) = _ => destruct X as [fc| | | |] end; cbn [bind] in H; try discriminate.
    destruct (build_fields cf (S i) r) as [rest| | | |] eqn:Er; cbn [bind] in H; try discriminate.
    injection H as <-. cbn [map f_index f_name]. f_equal. apply (IH _ _ Er).
Qed.

Theorem struct_descriptor_mirrors_definition : forall C E f id sd c d,
  lookup (regs_of C) (TStruct id) [] = None ->
  nth_error E (N.to_nat id) = Some sd ->
  codec_for C E (S f) (TStruct id) [] = Ok c -> descriptor_of c = Ok d ->
  d_type d = FTStruct /\ d_typename d = sd_name sd /\
  map (fun e => (d_index e, d_name e)) (d_elems d) = field_specs (sd_fields sd).
Proof.
  intros C E f id sd c d Hl Hn H Hd. cbn [codec_for strip] in H. rewrite Hl, Hn in H.
  destruct (build_fields (codec_for C E f) 0 (sd_fields sd)) as [fs| | | |] eqn:Eb; cbn [bind] in H; try discriminate.
  destruct (max_sane_index <=? _)%Z; [discriminate|]. destruct (has_dup fs); [discriminate|]. injection H as <-.
  destruct (DescProofs.struct_descriptor_fields _ _ _ _ Hd) as (Ht & Htn & _ & Hm & _).
  split; [exact Ht|]. split; [exact Htn|]. rewrite Hm. apply (build_fields_specs _ _ _ _ Eb).
Qed.
