(** Value-level facts used by the round-trip proofs: what is stored by the
    integer conversions, little-endian fixed values, time normalisation. *)
From Plenc Require Import Base Varint Wire VarintProofs WireProofs JsonAny Codec SizeProofs DecBase.
Open Scope N_scope.

Ltac Zify.zify_post_hook ::= Z.div_mod_to_equations.

Definition bits_ok (b : N) : Prop := b = 8 \/ b = 16 \/ b = 32 \/ b = 64.
Definition int_range (b : N) (z : Z) : Prop := (- Z.of_N (2 ^ (b - 1)) <= z < Z.of_N (2 ^ (b - 1)))%Z.
Definition uint_range (b : N) (z : Z) : Prop := (0 <= z < Z.of_N (2 ^ b))%Z.

Lemma int_range_64 b z : bits_ok b -> int_range b z -> int64_ok z.
Proof.
  unfold int_range, int64_ok, two63Z. intros [->|[->|[->| ->]]] H; cbn in H; lia.
Qed.

Lemma sbits_small b z : b = 8 \/ b = 16 \/ b = 32 -> int_range b z -> sbits b (u64 z) = z.
Proof.
  unfold int_range, sbits, u64, two64Z. intros [->|[->| ->]] H.
  - change (2 ^ (8 - 1)) with 128 in *. change (2 ^ 8) with 256 in *.
    destruct (Z.to_N (z mod 18446744073709551616) mod 256 <? 128) eqn:E; [apply N.ltb_lt in E|apply N.ltb_ge in E]; lia.
  - change (2 ^ (16 - 1)) with 32768 in *. change (2 ^ 16) with 65536 in *.
    destruct (Z.to_N (z mod 18446744073709551616) mod 65536 <? 32768) eqn:E; [apply N.ltb_lt in E|apply N.ltb_ge in E]; lia.
  - change (2 ^ (32 - 1)) with 2147483648 in *. change (2 ^ 32) with 4294967296 in *.
    destruct (Z.to_N (z mod 18446744073709551616) mod 4294967296 <? 2147483648) eqn:E; [apply N.ltb_lt in E|apply N.ltb_ge in E]; lia.
Qed.

Lemma store_int_roundtrip b z : bits_ok b -> int_range b z -> store_int b (zagzig (zigzag z)) = z.
Proof.
  intros Hb Hr. rewrite zagzig_zigzag by (eapply int_range_64; eauto). unfold store_int.
  destruct Hb as [->|[->|[->| ->]]]; cbn [N.eqb Pos.eqb]; try reflexivity; apply sbits_small; auto.
Qed.

Lemma store_uint_roundtrip b z : bits_ok b -> uint_range b z -> store_uint b (u64 z) = z.
Proof.
  unfold store_uint, u64, uint_range, two64Z. intros [->|[->|[->| ->]]] H.
  - change (2 ^ 8) with 256 in *. lia.
  - change (2 ^ 16) with 65536 in *. lia.
  - change (2 ^ 32) with 4294967296 in *. lia.
  - change (2 ^ 64) with 18446744073709551616 in *. lia.
Qed.

Lemma store_flat_roundtrip b z : bits_ok b -> int_range b z -> store_flat b (ubits b z) = z.
Proof.
  unfold store_flat, sbits, ubits, int_range. intros [->|[->|[->| ->]]] H.
  - change (2 ^ (8 - 1)) with 128 in *. change (2 ^ 8) with 256 in *.
    destruct (Z.to_N (z mod Z.of_N 256) mod 256 <? 128) eqn:E; [apply N.ltb_lt in E|apply N.ltb_ge in E]; lia.
  - change (2 ^ (16 - 1)) with 32768 in *. change (2 ^ 16) with 65536 in *.
    destruct (Z.to_N (z mod Z.of_N 65536) mod 65536 <? 32768) eqn:E; [apply N.ltb_lt in E|apply N.ltb_ge in E]; lia.
  - change (2 ^ (32 - 1)) with 2147483648 in *. change (2 ^ 32) with 4294967296 in *.
    destruct (Z.to_N (z mod Z.of_N 4294967296) mod 4294967296 <? 2147483648) eqn:E; [apply N.ltb_lt in E|apply N.ltb_ge in E]; lia.
  - change (2 ^ (64 - 1)) with 9223372036854775808 in *. change (2 ^ 64) with 18446744073709551616 in *.
    destruct (Z.to_N (z mod Z.of_N 18446744073709551616) mod 18446744073709551616 <? 9223372036854775808) eqn:E; [apply N.ltb_lt in E|apply N.ltb_ge in E]; lia.
Qed.

Lemma ubits_range b z : bits_ok b -> ubits b z < two64.
Proof. intros Hb. apply ubits_lt. destruct Hb as [->|[->|[->| ->]]]; lia. Qed.

(** little-endian fixed-width values *)
Lemma le_value_le_bytes : forall n v rest, v < 256 ^ N.of_nat n -> le_value (firstn n (le_bytes n v ++ rest)) = v.
Proof.
  induction n as [|n IH]; intros v rest Hv.
  - cbn in *. lia.
  - cbn [le_bytes app firstn le_value].
    replace (N.of_nat (S n)) with (1 + N.of_nat n) in Hv by lia. rewrite N.pow_add_r in Hv. change (256 ^ 1) with 256 in Hv.
    change ((fix go (n0 : nat) (v0 : N) {struct n0} : bytes :=
               match n0 with O => [] | S n' => v0 mod 256 :: go n' (v0 / 256) end) n (v / 256)) with (le_bytes n (v / 256)).
    rewrite IH by (apply N.div_lt_upper_bound; lia).
    pose proof (N.div_mod v 256 ltac:(lia)). lia.
Qed.

(** time.Unix(sec, nsec) for an in-range pair is that pair *)
Lemma time_norm_id s n : int64_ok s -> (0 <= n < 1000000000)%Z -> time_norm s n = VTime s n.
Proof.
  intros Hs Hn. unfold time_norm. rewrite Z.div_small, Z.mod_small by lia. rewrite Z.add_0_r.
  unfold s64z, s64, u64, two64Z, two64, two63. unfold int64_ok, two63Z in Hs.
  f_equal.
  destruct (Z.to_N (s mod 18446744073709551616) mod 18446744073709551616 <? 9223372036854775808) eqn:E;
    [apply N.ltb_lt in E|apply N.ltb_ge in E]; lia.
Qed.

Lemma s64_u64 s : int64_ok s -> s64 (u64 s) = s.
Proof.
  intros Hs. unfold s64, u64, two64Z, two64, two63. unfold int64_ok, two63Z in Hs.
  destruct (Z.to_N (s mod 18446744073709551616) mod 18446744073709551616 <? 9223372036854775808) eqn:E;
    [apply N.ltb_lt in E|apply N.ltb_ge in E]; lia.
Qed.

Lemma sbits32_ubits n : (0 <= n < 1000000000)%Z -> sbits 32 (ubits 32 n) = n.
Proof.
  intros Hn. unfold sbits, ubits. change (2 ^ (32 - 1)) with 2147483648. change (2 ^ 32) with 4294967296.
  destruct (Z.to_N (n mod Z.of_N 4294967296) mod 4294967296 <? 2147483648) eqn:E; [apply N.ltb_lt in E|apply N.ltb_ge in E]; lia.
Qed.

Lemma sbits32_u64 n : (0 <= n < 1000000000)%Z -> sbits 32 (u64 n) = n.
Proof.
  intros Hn. unfold sbits, u64, two64Z. change (2 ^ (32 - 1)) with 2147483648. change (2 ^ 32) with 4294967296.
  destruct (Z.to_N (n mod 18446744073709551616) mod 4294967296 <? 2147483648) eqn:E; [apply N.ltb_lt in E|apply N.ltb_ge in E]; lia.
Qed.

(** reading a scalar varint that is followed by anything *)
Lemma read_scalar_append u k rest : u < two64 ->
  read_scalar_varuint (append_varuint u ++ rest) k = Ok (k u, len (append_varuint u)).
Proof.
  intros Hu. unfold read_scalar_varuint. rewrite read_append_varuint by exact Hu.
  pose proof (append_varuint_length_bounds u).
  replace (Z.of_N (len (append_varuint u)) <? 0)%Z with false by (symmetry; apply Z.ltb_ge; lia).
  rewrite N2Z.id. reflexivity.
Qed.
