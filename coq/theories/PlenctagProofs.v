(** C20: plenctag only adds tags, numbers freshly, is idempotent. *)
From Coq Require Import FinFun.
From Plenc Require Import Base Registry Plenctag.
Open Scope Z_scope.

Lemma bytes_eqb_refl : forall a, bytes_eqb a a = true.
Proof. induction a as [|x a IH]; cbn; [reflexivity|]. rewrite N.eqb_refl, IH. reflexivity. Qed.

Lemma find_app {A} (p : A -> bool) (a b : list A) :
  find p (a ++ b) = match find p a with Some x => Some x | None => find p b end.
Proof. induction a as [|x a IH]; cbn; [reflexivity|]. destruct (p x); [reflexivity|exact IH]. Qed.

Lemma get_tag_snoc_new ts t : get_tag k_plenc ts = None -> tg_key t = k_plenc -> get_tag k_plenc (ts ++ [t]) = Some t.
Proof.
  unfold get_tag. intros Hn Hk. rewrite find_app, Hn. cbn. rewrite Hk, bytes_eqb_refl. reflexivity.
Qed.

(** what the second pass may do to a field: nothing, or append one plenc tag
    after all the existing tags (which keep their order and content) *)
Definition field_step (f f' : pfield) : Prop :=
  f' = f \/
  exists ts t, pf_tags f = Some ts /\ get_tag k_plenc ts = None /\ tg_key t = k_plenc /\ tg_opts t = [] /\
               f' = mkpf (pf_private f) (Some (ts ++ [t])) true.

Theorem pass2_preserves : forall c fs mx, Forall2 field_step fs (fst (pass2 c mx fs)).
Proof.
  induction fs as [|f r IH]; intros mx; cbn [pass2]; [constructor|].
  destruct (pc_private c && pf_private f).
  { specialize (IH mx). destruct (pass2 c mx r). cbn. constructor; [left; reflexivity|exact IH]. }
  destruct (pf_tags f) as [ts|] eqn:Et.
  2:{ specialize (IH mx). destruct (pass2 c mx r). cbn. constructor; [left; reflexivity|exact IH]. }
  destruct (get_tag k_plenc ts) eqn:Eg.
  { specialize (IH mx). destruct (pass2 c mx r). cbn. constructor; [left; reflexivity|exact IH]. }
  destruct (is_excluded c ts).
  - specialize (IH mx). destruct (pass2 c mx r). cbn. constructor; [|exact IH].
    right. exists ts, (mkstag k_plenc dash []). auto 10.
  - specialize (IH (mx + 1)). destruct (pass2 c (mx + 1) r). cbn. constructor; [|exact IH].
    right. exists ts, (mkstag k_plenc (itoa (mx + 1)) []). auto 10.
Qed.

(** fields with a plenc tag, private fields (when excluded) and fields whose
    tag does not parse are left exactly as they were *)
Theorem pass2_untouched : forall c fs mx f f',
  In (f, f') (combine fs (fst (pass2 c mx fs))) ->
  (pc_private c && pf_private f = true) \/ pf_tags f = None \/ (exists ts t, pf_tags f = Some ts /\ get_tag k_plenc ts = Some t) ->
  f' = f.
Proof.
  induction fs as [|g r IH]; intros mx f f' Hin Hc; cbn [pass2] in Hin; [destruct Hin|].
  destruct (pc_private c && pf_private g) eqn:Ep.
  { destruct (pass2 c mx r) eqn:E. cbn in Hin. destruct Hin as [Hin|Hin]; [inversion Hin; reflexivity|].
    apply (IH mx); [rewrite E; exact Hin|exact Hc]. }
  destruct (pf_tags g) as [ts|] eqn:Et.
  2:{ destruct (pass2 c mx r) eqn:E. cbn in Hin. destruct Hin as [Hin|Hin]; [inversion Hin; reflexivity|].
      apply (IH mx); [rewrite E; exact Hin|exact Hc]. }
  destruct (get_tag k_plenc ts) eqn:Eg.
  { destruct (pass2 c mx r) eqn:E. cbn in Hin. destruct Hin as [Hin|Hin]; [inversion Hin; reflexivity|].
    apply (IH mx); [rewrite E; exact Hin|exact Hc]. }
  destruct (is_excluded c ts).
  - destruct (pass2 c mx r) eqn:E. cbn in Hin. destruct Hin as [Hin|Hin].
    + inversion Hin; subst. exfalso. destruct Hc as [Hc|[Hc|(ts' & t & H1 & H2)]]; try congruence.
    + apply (IH mx); [rewrite E; exact Hin|exact Hc].
  - destruct (pass2 c (mx + 1) r) eqn:E. cbn in Hin. destruct Hin as [Hin|Hin].
    + inversion Hin; subst. exfalso. destruct Hc as [Hc|[Hc|(ts' & t & H1 & H2)]]; try congruence.
    + apply (IH (mx + 1)); [rewrite E; exact Hin|exact Hc].
Qed.

(** the numbers handed out *)
Fixpoint new_indexes (c : pcfg) (mx : Z) (fs : list pfield) : list Z :=
  match fs with
  | [] => []
  | f :: r =>
    if pc_private c && pf_private f then new_indexes c mx r else
    match pf_tags f with
    | None => new_indexes c mx r
    | Some ts =>
      match get_tag k_plenc ts with
      | Some _ => new_indexes c mx r
      | None => if is_excluded c ts then new_indexes c mx r else (mx + 1) :: new_indexes c (mx + 1) r
      end
    end
  end.

(** they are mx+1, mx+2, ...: each strictly greater than everything before it *)
Theorem new_indexes_fresh : forall c fs mx,
  new_indexes c mx fs = map (fun i => mx + 1 + Z.of_nat i) (seq 0 (length (new_indexes c mx fs))).
Proof.
  induction fs as [|f r IH]; intros mx; cbn [new_indexes]; [reflexivity|].
  destruct (pc_private c && pf_private f); [apply IH|].
  destruct (pf_tags f) as [ts|]; [|apply IH].
  destruct (get_tag k_plenc ts); [apply IH|].
  destruct (is_excluded c ts); [apply IH|].
  cbn [length seq map]. f_equal; [lia|].
  rewrite (IH (mx + 1)) at 1. rewrite <- seq_shift, map_map. apply map_ext. intros i. lia.
Qed.

Corollary new_indexes_above : forall c fs mx k, In k (new_indexes c mx fs) -> mx < k.
Proof.
  intros c fs mx k H. rewrite new_indexes_fresh in H. apply in_map_iff in H. destruct H as (i & <- & _). lia.
Qed.

Corollary new_indexes_distinct : forall c fs mx, NoDup (new_indexes c mx fs).
Proof.
  intros c fs mx. rewrite new_indexes_fresh. apply Injective_map_NoDup; [|apply seq_NoDup].
  intros a b H. lia.
Qed.

(** the first pass returns at least every existing (parsable) index *)
Lemma pass1_ge : forall fs acc e f v,
  In f fs -> pf_haslit f = true -> plenc_value f = Some v ->
  v <= fst (fold_left (fun acc f =>
    let '(mx, err) := acc in
    if negb (pf_haslit f) then acc else
    match plenc_value f with
    | None => (mx, true)
    | Some v => (Z.max mx v, err)
    end) fs (acc, e)).
Proof.
  assert (Hmono : forall fs acc e, acc <= fst (fold_left (fun acc f =>
    let '(mx, err) := acc in
    if negb (pf_haslit f) then acc else
    match plenc_value f with
    | None => (mx, true)
    | Some v => (Z.max mx v, err)
    end) fs (acc, e))).
  { induction fs as [|g r IH]; intros acc e; cbn [fold_left fst]; [lia|].
    destruct (negb (pf_haslit g)); [apply IH|]. destruct (plenc_value g); [|apply IH].
    etransitivity; [|apply IH]. lia. }
  induction fs as [|g r IH]; intros acc e f v Hin Hl Hv; [destruct Hin|]. cbn [fold_left].
  destruct Hin as [<-|Hin].
  - rewrite Hl, Hv. cbn [negb]. etransitivity; [|apply Hmono]. lia.
  - destruct (negb (pf_haslit g)); [eapply IH; eauto|]. destruct (plenc_value g); eapply IH; eauto.
Qed.

Theorem rewrite_fresh : forall c fs f v k,
  In f fs -> pf_haslit f = true -> plenc_value f = Some v ->
  In k (new_indexes c (fst (pass1 fs)) fs) -> v < k.
Proof.
  intros c fs f v k Hin Hl Hv Hk. apply new_indexes_above in Hk.
  pose proof (pass1_ge fs 0 false f v Hin Hl Hv). unfold pass1 in *. lia.
Qed.

(** a second run changes nothing *)
Theorem pass2_idempotent : forall c fs mx mx',
  fst (pass2 c mx' (fst (pass2 c mx fs))) = fst (pass2 c mx fs).
Proof.
  induction fs as [|f r IH]; intros mx mx'; cbn [pass2]; [reflexivity|].
  destruct (pc_private c && pf_private f) eqn:Ep.
  { specialize (IH mx mx'). destruct (pass2 c mx r) as [r' e] eqn:E. cbn [fst] in *. cbn [pass2]. rewrite Ep.
    destruct (pass2 c mx' r'). cbn [fst] in *. rewrite IH. reflexivity. }
  destruct (pf_tags f) as [ts|] eqn:Et.
  2:{ specialize (IH mx mx'). destruct (pass2 c mx r) as [r' e] eqn:E. cbn [fst] in *. cbn [pass2]. rewrite Ep, Et.
      destruct (pass2 c mx' r'). cbn [fst] in *. rewrite IH. reflexivity. }
  destruct (get_tag k_plenc ts) eqn:Eg.
  { specialize (IH mx mx'). destruct (pass2 c mx r) as [r' e] eqn:E. cbn [fst] in *. cbn [pass2]. rewrite Ep, Et, Eg.
    destruct (pass2 c mx' r'). cbn [fst] in *. rewrite IH. reflexivity. }
  destruct (is_excluded c ts).
  - specialize (IH mx mx'). destruct (pass2 c mx r) as [r' e] eqn:E. cbn [fst] in *. cbn [pass2 pf_private pf_tags]. rewrite Ep.
    rewrite (get_tag_snoc_new ts (mkstag k_plenc dash []) Eg eq_refl).
    destruct (pass2 c mx' r'). cbn [fst] in *. rewrite IH. reflexivity.
  - specialize (IH (mx + 1) mx'). destruct (pass2 c (mx + 1) r) as [r' e] eqn:E. cbn [fst] in *. cbn [pass2 pf_private pf_tags]. rewrite Ep.
    rewrite (get_tag_snoc_new ts (mkstag k_plenc (itoa (mx + 1)) []) Eg eq_refl).
    destruct (pass2 c mx' r'). cbn [fst] in *. rewrite IH. reflexivity.
Qed.

Theorem rewrite_idempotent : forall c fs, fst (rewrite c (fst (rewrite c fs))) = fst (rewrite c fs).
Proof.
  intros c fs. unfold rewrite. destruct (pass1 fs) as [mx e1]. destruct (pass2 c mx fs) as [fs' e2] eqn:E.
  cbn [fst]. destruct (pass1 fs') as [mx' e1']. 
  pose proof (pass2_idempotent c fs mx mx') as H. rewrite E in H. cbn [fst] in H.
  destruct (pass2 c mx' fs'). cbn [fst] in *. exact H.
Qed.
