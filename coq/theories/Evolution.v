(** C03: unknown fields are skipped exactly; decoding data written for S into
    an evolved S' gives shared indexes their S-values and leaves the rest of the
    target alone. *)
From Plenc Require Import Base Varint Wire VarintProofs WireProofs JsonAny Codec SizeProofs DecBase RoundTripBase JsonProofs JsonRoundTrip RoundTrip.
Open Scope N_scope.

(** Skip over the payload of a tagged field of any codec of the fragment
    returns exactly the payload's length, whatever follows *)
Lemma flat_frames {A} (h : A -> bytes) (l : list A) :
  flat_map (fun x => lenframe (h x)) l = concat (map frame (map h l)).
Proof. induction l as [|x l IH]; cbn [flat_map map concat]; [reflexivity|]. rewrite IH. reflexivity. Qed.

Lemma skip_payload : forall c, rt_ok c -> top_ok c -> forall v idx more,
  wfv c v -> fits c v ->
  exists payload, enc c v (field_tag c idx) = field_tag c idx ++ payload /\
                  skip (payload ++ more) (wire c) = Ok (len payload).
Proof.
  intros c Hok Htop v idx more Hw Hf.
  destruct (tagged_enc_shape c Hok Htop v idx Hw Hf) as [ShL ShS].
  destruct (N.eq_dec (wire c) WTLength) as [E|E].
  - destruct (ShL E) as [Ee Hl]. eexists. split; [exact Ee|].
    rewrite E, <- app_assoc, skip_exact_length by exact Hl. rewrite len_app. reflexivity.
  - exists (enc c v []). split; [apply ShS; exact E|].
    (* self-delimiting codecs: varint, fixed, or counted slice *)
    clear ShL ShS. revert v Hw Hf E Htop. induction c as [ |b|b|b| | | | |compat| |c IH|c IH|nm n fs IH|c IH|c IH|c IH|c IH|kc vc IHk IHv|kc vc IHk IHv| | | ]
      using codec_ind'; intros v Hw Hf E Htop; cbn [rt_ok] in Hok; cbn [top_ok] in Htop; try contradiction;
      try (cbn [wire] in E; unfold WTLength in E; congruence).
    + cbn [enc app wire]. rewrite skip_exact_varint; [reflexivity|]. destruct v as [[|]| | | | | | | | | | | |]; unfold two64; lia.
    + cbn [wfv] in Hw. destruct v; try contradiction. cbn [enc app wire]. unfold append_varint.
      rewrite skip_exact_varint; [reflexivity|]. apply zigzag_range. eapply int_range_64; eauto.
    + cbn [enc app wire]. rewrite skip_exact_varint; [reflexivity|]. destruct v; try (unfold two64; lia). apply u64_lt.
    + cbn [enc app wire]. rewrite skip_exact_varint; [reflexivity|]. destruct v; try (unfold two64; lia). apply ubits_range. exact Hok.
    + cbn [enc app wire]. rewrite (skip_exact_fixed32 (le_bytes 4 _)); [rewrite len_le_bytes; reflexivity|apply len_le_bytes].
    + cbn [enc app wire]. rewrite (skip_exact_fixed64 (le_bytes 8 _)); [rewrite len_le_bytes; reflexivity|apply len_le_bytes].
    + (* CNull *) cbn [wfv] in Hw. destruct v as [ | | | | | | |valid p| | | | |]; try contradiction. destruct valid; [|contradiction].
      cbn [enc wire fits] in *. destruct Hok as [Hok Ht]. apply IH; assumption.
    + (* CPtr *) cbn [wfv] in Hw. destruct v as [ | | | | | |[p|]| | | | | |]; try contradiction.
      cbn [enc wire fits] in *. destruct Hok as [Hok Ht]. apply IH; assumption.
    + (* CSliceLen *)
      destruct v as [ | | | | | | | | |l| | |]; try (cbn [wfv] in Hw; contradiction).
      destruct Hf as [Hcnt Hfe]. cbn [enc app wire slice_elems].
      rewrite flat_frames, <- app_assoc.
      replace (N.of_nat (length l)) with (N.of_nat (length (map (fun x => enc c x []) l))) by (rewrite map_length; reflexivity).
      rewrite skip_exact_slice.
      * rewrite len_app. reflexivity.
      * rewrite Forall_forall in *. intros b Hb. apply in_map_iff in Hb. destruct Hb as (x & <- & Hx). apply (Hfe x Hx).
      * rewrite map_length. exact Hcnt.
    + (* CMap *)
      destruct v as [ | | | | | | | | | |[es|]| |]; try (cbn [wfv] in Hw; contradiction).
      destruct Hf as [Hcnt Hfe]. cbn [map_entries_of] in Hcnt, Hfe. cbn [enc app wire].
      change (flat_map (fun e : val * val => lenframe ((if omit kc (fst e) then [] else enc kc (fst e) (field_tag kc 1))
                                                       ++ (if omit vc (snd e) then [] else enc vc (snd e) (field_tag vc 2)))) es)
        with (flat_map (fun e => lenframe (entry_body kc vc e)) es).
      rewrite flat_frames, <- app_assoc.
      replace (N.of_nat (length es)) with (N.of_nat (length (map (fun e => entry_body kc vc e) es))) by (rewrite map_length; reflexivity).
      rewrite skip_exact_slice.
      * rewrite len_app. reflexivity.
      * rewrite Forall_forall in *. intros b Hb. apply in_map_iff in Hb. destruct Hb as (x & <- & Hx). apply (Hfe x Hx).
      * rewrite map_length. exact Hcnt.
    + (* JSON object *)
      cbn [wfv] in Hw. destruct v as [| | | | | | | | | | |nm j|]; try contradiction. destruct j as [| | | | | |l|]; try contradiction.
      cbn [fits] in Hf. cbn [enc app wire]. apply skip_json_map. exact Hf.
    + (* JSON array *)
      cbn [wfv] in Hw. destruct v as [| | | | | | | | | | |nm j|]; try contradiction. destruct j as [| | | | |l| |]; try contradiction.
      cbn [fits] in Hf. cbn [enc app wire]. apply skip_json_arr. exact Hf.
Qed.

Lemma find_field_none : forall fs idx,
  ~ In idx (map (fun f => f_index f) fs) ->
  find_field (map (fun f => (f_index f, f_slot f, dec (f_codec f))) fs) idx = None.
Proof.
  induction fs as [|g r IH]; intros idx Hn; [reflexivity|].
  unfold find_field. cbn [map find fst snd].
  destruct (f_index g =? idx)%Z eqn:E.
  - apply Z.eqb_eq in E. exfalso. apply Hn. left. exact E.
  - apply IH. intros Hin. apply Hn. right. exact Hin.
Qed.

Section Evolve.
  (** [fs'] : the fields of the reading type S' *)
  Variable fs' : list (fld codec).
  Let tbl' := map (fun f => (f_index f, f_slot f, dec (f_codec f))) fs'.
  Hypothesis Hnd' : NoDup (map (fun f => f_index f) fs').

  (** a field of S whose index S' does not have is skipped over exactly and
      leaves the target alone *)
  Lemma unknown_field_step : forall c idx fv cur more consumed fuel,
    rt_ok c -> top_ok c -> (0 <= idx < 2305843009213693952)%Z -> wfv c fv -> fits c fv ->
    ~ In idx (map (fun f => f_index f) fs') ->
    let e := enc c fv (field_tag c idx) in
    (length (e ++ more) < fuel)%nat ->
    struct_loop tbl' fuel (e ++ more) consumed cur = struct_loop tbl' fuel more (consumed + len e) cur.
  Proof.
    intros c idx fv cur more consumed fuel Hok Htop Hidx Hw Hf Hnot e Hfuel.
    destruct (skip_payload c Hok Htop fv idx more Hw Hf) as (payload & Ee & Hskip).
    pose proof (field_tag_nonempty c idx) as Htg.
    destruct fuel as [|fuel']; [lia|].
    unfold e in *. rewrite Ee in *. rewrite <- app_assoc.
    rewrite struct_loop_unfold.
    2:{ intros E0. apply (f_equal (@length N)) in E0. rewrite app_length in E0. unfold len in Htg. cbn [length] in E0. lia. }
    rewrite read_tag_field by exact Hidx. cbv beta iota.
    replace (Z.of_N (len (field_tag c idx)) <=? 0)%Z with false by (symmetry; apply Z.leb_gt; lia).
    rewrite N2Z.id, go_drop_app. cbn [bind].
    unfold tbl'. rewrite (find_field_none fs' idx Hnot).
    rewrite Hskip. cbn [bind]. rewrite go_drop_app. cbn [bind].
    rewrite (struct_loop_fuel _ fuel' (S fuel')).
    - f_equal. rewrite !len_app. lia.
    - rewrite <- app_assoc in Hfuel. rewrite !app_length in Hfuel. unfold len in Htg. lia.
    - rewrite <- app_assoc in Hfuel. rewrite !app_length in Hfuel. lia.
  Qed.

  (** a run of length-delimited fields under one unknown index (the protobuf
      repeated forms) is skipped frame by frame *)
  Lemma unknown_frames : forall (bodies : list bytes) tgc idx cur more consumed fuel,
    wire tgc = WTLength -> (0 <= idx < 2305843009213693952)%Z ->
    ~ In idx (map (fun f => f_index f) fs') ->
    Forall (fun b => len b < two64) bodies ->
    let e := flat_map (fun b => field_tag tgc idx ++ lenframe b) bodies in
    (length (e ++ more) < fuel)%nat ->
    struct_loop tbl' fuel (e ++ more) consumed cur = struct_loop tbl' fuel more (consumed + len e) cur.
  Proof.
    induction bodies as [|b bodies IH]; intros tgc idx cur more consumed fuel Hwt Hidx Hnot Hall e Hfuel.
    - unfold e. cbn [flat_map app]. rewrite len_nil, N.add_0_r. reflexivity.
    - inversion Hall as [|? ? Hb Hall']; subst.
      pose proof (field_tag_nonempty tgc idx) as Htg.
      destruct fuel as [|fuel']; [lia|].
      unfold e. cbn [flat_map]. unfold lenframe at 1. rewrite <- !app_assoc.
      rewrite struct_loop_unfold.
      2:{ intros E0. apply (f_equal (@length N)) in E0. rewrite app_length in E0. unfold len in Htg. cbn [length] in E0. lia. }
      rewrite read_tag_field by exact Hidx. cbv beta iota.
      replace (Z.of_N (len (field_tag tgc idx)) <=? 0)%Z with false by (symmetry; apply Z.leb_gt; lia).
      rewrite N2Z.id, go_drop_app. cbn [bind].
      unfold tbl'. rewrite (find_field_none fs' idx Hnot).
      rewrite Hwt. set (R := flat_map (fun b0 : bytes => field_tag tgc idx ++ lenframe b0) bodies ++ more).
      rewrite skip_exact_length by exact Hb. cbn [bind].
      replace (append_varuint (len b) ++ b ++ R) with ((append_varuint (len b) ++ b) ++ R) by (rewrite <- app_assoc; reflexivity).
      rewrite <- len_app, go_drop_app. cbn [bind]. unfold R. fold tbl'.
      assert (Hfl : (length (flat_map (fun b0 => field_tag tgc idx ++ lenframe b0) bodies ++ more) < fuel')%nat).
      { unfold e in Hfuel. cbn [flat_map] in Hfuel. rewrite <- !app_assoc in Hfuel. rewrite !app_length in Hfuel.
        rewrite app_length. unfold len in Htg. lia. }
      rewrite (struct_loop_fuel _ fuel' (S fuel')) by (exact Hfl || lia).
      rewrite (IH tgc idx cur more _ (S fuel') Hwt Hidx Hnot Hall') by lia.
      f_equal. unfold lenframe. rewrite !len_app. lia.
  Qed.

  (** ... so an unknown field of any codec of the fragment, the repeated forms
      included, is skipped exactly *)
  Lemma unknown_field_step_gen : forall c idx fv cur more consumed fuel,
    rt_ok c -> (0 <= idx < 2305843009213693952)%Z -> wfv c fv -> fits c fv ->
    ~ In idx (map (fun f => f_index f) fs') ->
    let e := enc c fv (field_tag c idx) in
    (length (e ++ more) < fuel)%nat ->
    struct_loop tbl' fuel (e ++ more) consumed cur = struct_loop tbl' fuel more (consumed + len e) cur.
  Proof.
    intros c idx fv cur more consumed fuel Hok Hidx Hw Hf Hnot e Hfuel.
    destruct c; try (apply unknown_field_step; [exact Hok|exact I|assumption..]).
    - (* CSliceProto *)
      cbn [rt_ok] in Hok. destruct Hok as (Hokc & Hwc & Htc).
      cbn [wfv] in Hw. destruct fv as [ | | | | | | | | |l| | |]; try contradiction.
      cbn [fits slice_elems] in Hf. unfold e in *. cbn [enc slice_elems] in *.
      assert (Eq : flat_map (fun x => enc c x (field_tag (CSliceProto c) idx)) l
                   = flat_map (fun b => field_tag (CSliceProto c) idx ++ lenframe b) (map (fun x => enc c x []) l)).
      { clear Hfuel. induction l as [|x l IHl]; cbn [flat_map map]; [reflexivity|].
        inversion Hw; inversion Hf; subst. rewrite IHl by assumption. f_equal.
        assert (Etg : field_tag (CSliceProto c) idx = field_tag c idx) by (unfold field_tag; cbn [wire]; rewrite Hwc; reflexivity).
        rewrite Etg. destruct (tagged_enc_shape c Hokc Htc x idx ltac:(assumption) ltac:(assumption)) as [ShL _].
        destruct (ShL Hwc) as [Ee _]. exact Ee. }
      rewrite Eq in *.
      apply (unknown_frames (map (fun x => enc c x []) l) (CSliceProto c)); auto.
      rewrite Forall_forall in *. intros b Hb. apply in_map_iff in Hb. destruct Hb as (x & <- & Hx).
      destruct (tagged_enc_shape c Hokc Htc x idx (Hw x Hx) (Hf x Hx)) as [ShL _]. apply (ShL Hwc).
    - (* CMapProto *)
      cbn [wfv] in Hw. destruct fv as [ | | | | | | | | | |[es|]| |]; try contradiction.
      destruct Hf as [_ Hfe]. cbn [map_entries_of] in Hfe. unfold e in *. cbn [enc] in *.
      assert (Eq : flat_map (fun en : val * val => field_tag (CMapProto c1 c2) idx
                     ++ lenframe ((if omit c1 (fst en) then [] else enc c1 (fst en) (field_tag c1 1))
                                  ++ (if omit c2 (snd en) then [] else enc c2 (snd en) (field_tag c2 2)))) es
                   = flat_map (fun b => field_tag (CMapProto c1 c2) idx ++ lenframe b) (map (entry_body c1 c2) es)).
      { clear. induction es as [|en es IHl]; cbn [flat_map map]; [reflexivity|]. rewrite IHl. reflexivity. }
      rewrite Eq in *.
      apply (unknown_frames (map (entry_body c1 c2) es) (CMapProto c1 c2)); auto.
      rewrite Forall_forall in *. intros b Hb. apply in_map_iff in Hb. destruct Hb as (en & <- & Hx). apply (Hfe en Hx).
  Qed.

  (** the fields of the written struct S, seen from S': each is either unknown
      to S' (index not in fs'), or has a partner field in fs' with the same
      index and the same codec (renamed / moved fields keep index and codec) *)
  Definition partner (f : fld codec) : option (fld codec) :=
    find (fun g => (f_index g =? f_index f)%Z) fs'.

  Definition evolve_step (vs : list val) (cur : list val) (f : fld codec) : list val :=
    let fv := slot vs (f_slot f) in
    if omit (f_codec f) fv then cur else
    match partner f with
    | Some g => set_nth (f_slot g) (merge (f_codec f) (slot cur (f_slot g)) fv) cur
    | None => cur
    end.

  Lemma partner_spec f g : partner f = Some g -> In g fs' /\ f_index g = f_index f.
  Proof. unfold partner. intros H. apply find_some in H. destruct H as [Hin He]. apply Z.eqb_eq in He. auto. Qed.
  Lemma partner_none f : partner f = None -> ~ In (f_index f) (map (fun g => f_index g) fs').
  Proof.
    unfold partner. intros H Hin. apply in_map_iff in Hin. destruct Hin as (g & Hg & Hin).
    pose proof (find_none _ _ H g Hin) as Hn. cbn in Hn. rewrite Hg, Z.eqb_refl in Hn. discriminate.
  Qed.

  (** the reading field has the codec of the written one - or the written one is
      the protobuf repeated form of a slice and the reading one the default
      (counted) codec for the same element type: a default-mode instance reads
      the repeated form (C12) *)
  Definition same_or_default_reads (cw cr : codec) : Prop :=
    cr = cw \/ exists c', cw = CSliceProto c' /\ cr = CSliceLen c'.

  (** C03: the decode loop of S' over the field encodings of S *)
  Theorem evolution_loop : forall (l : list (fld codec)) vs cur more consumed fuel,
    Forall (fun f => rt_ok (f_codec f) /\ (0 <= f_index f < 2305843009213693952)%Z
                     /\ (forall g, partner f = Some g -> same_or_default_reads (f_codec f) (f_codec g))) l ->
    Forall (fun f => (omit (f_codec f) (slot vs (f_slot f)) = true \/ wfv (f_codec f) (slot vs (f_slot f)))
                     /\ fits (f_codec f) (slot vs (f_slot f))) l ->
    (length (flat_map (fenc vs) l ++ more) < fuel)%nat ->
    struct_loop tbl' fuel (flat_map (fenc vs) l ++ more) consumed cur
    = struct_loop tbl' fuel more (consumed + len (flat_map (fenc vs) l)) (fold_left (evolve_step vs) l cur).
  Proof.
    induction l as [|f r IH]; intros vs cur more consumed fuel Hc Hv Hfuel.
    - cbn [flat_map app fold_left]. rewrite len_nil, N.add_0_r. reflexivity.
    - inversion Hc as [|? ? (Hok & Hidx & Hsame) Hc']; subst.
      inversion Hv as [|? ? (Hwo & Hfit) Hv']; subst.
      cbn [flat_map fold_left]. unfold fenc at 1 3, evolve_step at 2. cbv zeta.
      destruct (omit (f_codec f) (slot vs (f_slot f))) eqn:Eo.
      + cbn [app]. apply IH; auto.
        cbn [flat_map] in Hfuel. unfold fenc at 1 in Hfuel. cbv zeta in Hfuel. rewrite Eo in Hfuel. exact Hfuel.
      + destruct Hwo as [Hwo|Hw]; [congruence|].
        assert (Hfuel' : (length (enc (f_codec f) (slot vs (f_slot f)) (field_tag (f_codec f) (f_index f)) ++ flat_map (fenc vs) r ++ more) < fuel)%nat).
        { cbn [flat_map] in Hfuel. unfold fenc at 1 in Hfuel. cbv zeta in Hfuel. rewrite Eo in Hfuel. rewrite <- app_assoc in Hfuel. exact Hfuel. }
        rewrite <- app_assoc.
        destruct (partner f) as [g|] eqn:Ep.
        * destruct (partner_spec f g Ep) as [Hing Hig]. destruct (Hsame g eq_refl) as [Hsame'|(c' & Hcw & Hcr)].
          -- pose proof (proj2 (roundtrip_gen (f_codec f) Hok) fs' g (slot vs (f_slot f)) cur (flat_map (fenc vs) r ++ more) consumed fuel
                          Hnd' Hing Hsame') as FS.
             rewrite Hig in FS. unfold stbl in FS. fold tbl' in FS.
             rewrite FS; auto.
             rewrite IH; auto.
             ++ rewrite len_app, N.add_assoc. reflexivity.
             ++ rewrite app_length in Hfuel'. lia.
          -- (* written in the repeated form, read by the default codec *)
             rewrite Hcw in *. cbn [rt_ok] in Hok. destruct Hok as (Hokc & Hwc & Htc).
             cbn [wfv] in Hw. destruct (slot vs (f_slot f)) as [ | | | | | | | | |l| | |] eqn:Esl; try contradiction.
             cbn [fits slice_elems] in Hfit. cbn [omit] in Eo. cbn [enc slice_elems] in *.
             assert (Hall : Forall (fun x => wfv c' x /\ fits c' x) l).
             { rewrite Forall_forall in *. intros x Hx. split; [apply Hw|apply Hfit]; exact Hx. }
             pose proof (field_step_default_reads_repeated fs' Hnd' g c' l cur (flat_map (fenc vs) r ++ more) consumed fuel
                           Hing Hcr Hokc Htc Hwc (roundtrip c' Hokc Htc)) as FS.
             rewrite Hig in FS. fold tbl' in FS. rewrite FS; auto.
             rewrite IH; auto.
             ++ rewrite len_app, N.add_assoc. f_equal.
                destruct l as [|x0 l0]; [discriminate Eo|]. reflexivity.
             ++ rewrite app_length in Hfuel'. lia.
        * rewrite (unknown_field_step_gen (f_codec f) (f_index f) (slot vs (f_slot f)) cur (flat_map (fenc vs) r ++ more) consumed fuel Hok Hidx Hw Hfit (partner_none f Ep) Hfuel').
          rewrite IH; auto.
          -- rewrite len_app, N.add_assoc. reflexivity.
          -- rewrite app_length in Hfuel'. lia.
  Qed.
End Evolve.

(** C03 at the Unmarshal level: data marshalled from S (fields [fs]) decodes
    without error into S' (fields [fs']); the target afterwards is [prior] with
    exactly the shared indexes merged in *)
Theorem evolution : forall nm n fs nm' n' fs' vs prior,
  NoDup (map (fun f => f_index f) fs') ->
  Forall (fun f => rt_ok (f_codec f) /\ (0 <= f_index f < 2305843009213693952)%Z
                   /\ (forall g, partner fs' f = Some g -> same_or_default_reads (f_codec f) (f_codec g))) fs ->
  Forall (fun f => (omit (f_codec f) (slot vs (f_slot f)) = true \/ wfv (f_codec f) (slot vs (f_slot f)))
                   /\ fits (f_codec f) (slot vs (f_slot f))) fs ->
  dec (CStruct nm' n' fs') (enc (CStruct nm n fs) (VStruct vs) []) WTLength prior
  = Ok (VStruct (fold_left (evolve_step fs' vs) fs
                   (match prior with VStruct ps => ps | _ => struct_fields (zero (CStruct nm' n' fs')) end)),
        len (enc (CStruct nm n fs) (VStruct vs) [])).
Proof.
  intros nm n fs nm' n' fs' vs prior Hnd Hc Hv. cbn [enc frame_tag dec struct_fields].
  change (flat_map (fun f : fld codec => if omit (f_codec f) (slot vs (f_slot f)) then []
            else enc (f_codec f) (slot vs (f_slot f)) (field_tag (f_codec f) (f_index f))) fs)
    with (flat_map (fenc vs) fs).
  set (body := flat_map (fenc vs) fs).
  pose proof (evolution_loop fs' Hnd fs vs (match prior with VStruct ps => ps | _ => struct_fields (zero (CStruct nm' n' fs')) end)
                [] 0 (S (length body)) Hc Hv) as HL.
  rewrite !app_nil_r in HL. fold body in HL. rewrite HL by lia.
  cbn [struct_loop bind]. rewrite N.add_0_l. reflexivity.
Qed.
