(** Model of cmd/plenctag/main.go: the two passes of [rewrite] over the fields
    of one struct. *)
From Plenc Require Import Base Registry.
Open Scope Z_scope.

(** a struct tag as structtag sees it: key, name, options (comma separated rest) *)
Record stag := mkstag { tg_key : bytes; tg_name : bytes; tg_opts : bytes }.

Record pfield := mkpf {
  pf_private : bool;            (* first rune of the (first / embedded type) name is lower case *)
  pf_tags : option (list stag); (* None: the tag literal does not parse *)
  pf_haslit : bool }.           (* the field has a tag literal at all *)

Record pcfg := mkpcfg { pc_json : bool; pc_sql : bool; pc_private : bool }.

Definition k_plenc : bytes := [112;108;101;110;99]%N.
Definition k_json : bytes := [106;115;111;110]%N.
Definition k_sql : bytes := [115;113;108]%N.
Definition dash : bytes := [45]%N.

Definition get_tag (k : bytes) (ts : list stag) : option stag := find (fun t => bytes_eqb (tg_key t) k) ts.

(** plencValue: Ok n / error *)
Definition plenc_value (f : pfield) : option Z :=
  match pf_tags f with
  | None => None
  | Some ts =>
    match get_tag k_plenc ts with
    | None => Some 0
    | Some t => if bytes_eqb (tg_name t) dash then Some 0 else atoi (tg_name t)
    end
  end.

(** first pass: the maximum existing index (fields without a tag literal and
    fields whose tag is in error are skipped); also whether an error was recorded *)
Definition pass1 (fs : list pfield) : Z * bool :=
  fold_left (fun acc f =>
    let '(mx, err) := acc in
    if negb (pf_haslit f) then acc else
    match plenc_value f with
    | None => (mx, true)
    | Some v => (Z.max mx v, err)
    end) fs (0, false).

Definition is_excluded (c : pcfg) (ts : list stag) : bool :=
  (pc_sql c && match get_tag k_sql ts with Some t => bytes_eqb (tg_name t) dash | None => false end)
  || (pc_json c && match get_tag k_json ts with Some t => bytes_eqb (tg_name t) dash | None => false end).

(** decimal rendering (strconv.Itoa) of a positive number *)
Definition digit_char (d : Z) : N := Z.to_N (48 + d).
Fixpoint itoa_fuel (fuel : nat) (n : Z) (acc : bytes) : bytes :=
  match fuel with
  | O => acc
  | S f => if n <? 10 then digit_char n :: acc else itoa_fuel f (n / 10) (digit_char (n mod 10) :: acc)
  end.
Definition itoa (n : Z) : bytes := itoa_fuel 20 n [].

(** second pass *)
Fixpoint pass2 (c : pcfg) (mx : Z) (fs : list pfield) : list pfield * bool :=
  match fs with
  | [] => ([], false)
  | f :: r =>
    let skip := let '(r', e) := pass2 c mx r in (f :: r', e) in
    if pc_private c && pf_private f then skip else
    match pf_tags f with
    | None => let '(r', e) := pass2 c mx r in (f :: r', true)       (* recordError, continue *)
    | Some ts =>
      match get_tag k_plenc ts with
      | Some _ => skip
      | None =>
        if is_excluded c ts then
          let '(r', e) := pass2 c mx r in
          (mkpf (pf_private f) (Some (ts ++ [mkstag k_plenc dash []])) true :: r', e)
        else
          let '(r', e) := pass2 c (mx + 1) r in
          (mkpf (pf_private f) (Some (ts ++ [mkstag k_plenc (itoa (mx + 1)) []])) true :: r', e)
      end
    end
  end.

(** rewrite: the new fields, and whether errors were reported (then nothing is written) *)
Definition rewrite (c : pcfg) (fs : list pfield) : list pfield * bool :=
  let '(mx, e1) := pass1 fs in
  let '(fs', e2) := pass2 c mx fs in
  (fs', e1 || e2).
