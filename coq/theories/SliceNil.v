(** C01, the documented normalisation of pointer slices: nil entries of a
    slice of pointers to integers are dropped; nil entries of a slice of
    pointers to length-delimited elements come back as pointers to the zero
    value.  Everything else about such slices round-trips exactly. *)
From Plenc Require Import Base Varint Wire VarintProofs WireProofs JsonAny Codec SizeProofs DecBase RoundTripBase RoundTrip.
Open Scope N_scope.

Definition notnil (x : val) : bool := match x with VPtr None => false | _ => true end.

(** ** integers: a nil entry is not written at all *)
Lemma enc_varint_ptr_slice_drops_nil c0 l tag :
  enc (CSliceVar (CPtr c0)) (VSlice l) tag = enc (CSliceVar (CPtr c0)) (VSlice (filter notnil l)) tag.
Proof.
  cbn [enc slice_elems]. f_equal.
  induction l as [|x l IH]; [reflexivity|]. cbn [flat_map filter].
  destruct x as [ | | | | | |[y|]| | | | | |]; cbn [notnil flat_map enc]; rewrite IH; reflexivity.
Qed.

Theorem varint_ptr_slice_roundtrip : forall c0 l prior,
  plain_varint0 c0 ->
  Forall (fun x => x = VPtr None \/ wfv (CPtr c0) x) l ->
  fits (CSliceVar (CPtr c0)) (VSlice (filter notnil l)) ->
  dec (CSliceVar (CPtr c0)) (enc (CSliceVar (CPtr c0)) (VSlice l) []) WTLength prior
  = Ok (VSlice (filter notnil l), len (enc (CSliceVar (CPtr c0)) (VSlice l) [])).
Proof.
  intros c0 l prior Hpv Hall Hf.
  rewrite enc_varint_ptr_slice_drops_nil.
  assert (Hok : rt_ok (CSliceVar (CPtr c0))) by exact Hpv.
  assert (Hw : wfv (CSliceVar (CPtr c0)) (VSlice (filter notnil l))).
  { cbn [wfv]. apply Forall_forall. intros x Hx. apply filter_In in Hx. destruct Hx as [Hin Hnn].
    rewrite Forall_forall in Hall. destruct (Hall x Hin) as [->|H]; [discriminate Hnn|exact H]. }
  destruct (roundtrip _ Hok I (VSlice (filter notnil l)) prior Hw Hf) as [H _].
  specialize (H eq_refl). cbn [wire] in H. rewrite H. reflexivity.
Qed.

(** ** length-delimited elements: a nil entry is written as an empty frame and
    read back as a pointer to whatever the element codec makes of no data *)
Lemma read_framed_pointwise (decf : decoder) (z : val) (encf : val -> bytes) (r : val -> val) :
  forall (l : list val) fuel rest consumed acc,
  Forall (fun x => decf (encf x) WTLength z = Ok (r x, len (encf x)) /\ len (encf x) < two64) l ->
  (length l <= fuel)%nat ->
  read_framed_elems decf z fuel (N.of_nat (length l)) (flat_map (fun x => lenframe (encf x)) l ++ rest) consumed acc
  = Ok (rev acc ++ map r l, consumed + len (flat_map (fun x => lenframe (encf x)) l)).
Proof.
  induction l as [|x l IH]; intros fuel rest consumed acc Hall Hf.
  - destruct fuel; cbn [read_framed_elems length N.of_nat N.eqb flat_map map]; rewrite len_nil, app_nil_r, N.add_0_r; reflexivity.
  - inversion Hall as [|? ? (Hd & Hl) Hall']; subst.
    destruct fuel as [|f]; [cbn in Hf; lia|].
    cbn [read_framed_elems].
    replace (N.of_nat (length (x :: l)) =? 0) with false by (symmetry; apply N.eqb_neq; cbn [length]; lia).
    cbn [flat_map]. change (lenframe (encf x)) with (append_varuint (len (encf x)) ++ encf x). rewrite <- !app_assoc.
    rewrite read_append_varuint by exact Hl. cbv beta iota.
    pose proof (append_varuint_length_bounds (len (encf x))) as Hb.
    replace (Z.of_N (len (append_varuint (len (encf x)))) <=? 0)%Z with false by (symmetry; apply Z.leb_gt; lia).
    rewrite N2Z.id. rewrite go_drop_app. cbn [bind].
    rewrite len_app.
    replace (len (encf x) + len (flat_map (fun x0 => lenframe (encf x0)) l ++ rest) <? len (encf x)) with false
      by (symmetry; apply N.ltb_ge; lia).
    rewrite go_take_app. cbn [bind]. rewrite Hd. cbn [bind].
    rewrite go_drop_app. cbn [bind].
    replace (N.of_nat (length (x :: l)) - 1) with (N.of_nat (length l)) by (cbn [length]; lia).
    rewrite IH by (auto; cbn [length] in Hf; lia).
    cbn [rev map]. rewrite <- app_assoc. cbn [app]. f_equal. f_equal.
    rewrite !len_app. lia.
Qed.

(** what an entry reads back as *)
Definition denil (c0 : codec) (z0 : val) (x : val) : val :=
  match x with VPtr None => VPtr (Some z0) | _ => merge (CPtr c0) (zero (CPtr c0)) x end.

Theorem framed_ptr_slice_roundtrip : forall c0 z0 l prior rest,
  rt_ok c0 -> top_ok c0 -> wire c0 = WTLength ->
  dec c0 [] WTLength (zero c0) = Ok (z0, 0) ->
  Forall (fun x => x = VPtr None \/ (wfv (CPtr c0) x /\ fits (CPtr c0) x /\ len (enc (CPtr c0) x []) < two64)) l ->
  N.of_nat (length l) < two64 ->
  dec (CSliceLen (CPtr c0)) (enc (CSliceLen (CPtr c0)) (VSlice l) [] ++ rest) WTSlice prior
  = Ok (VSlice (map (denil c0 z0) l), len (enc (CSliceLen (CPtr c0)) (VSlice l) [])).
Proof.
  intros c0 z0 l prior rest Hok Htop Hwt Hz Hall Hcnt.
  assert (Hrt : RTc (CPtr c0)) by (apply roundtrip; [split; assumption|exact I]).
  assert (Hwp : wire (CPtr c0) = WTLength) by exact Hwt.
  assert (Hzp : dec (CPtr c0) [] WTLength (zero (CPtr c0)) = Ok (VPtr (Some z0), 0)).
  { cbn [dec zero]. rewrite Hz. reflexivity. }
  assert (Hnil : enc (CPtr c0) (VPtr None) [] = []) by reflexivity.
  assert (Hden : forall x, x <> VPtr None -> wfv (CPtr c0) x -> denil c0 z0 x = merge (CPtr c0) (zero (CPtr c0)) x).
  { intros x Hx Hw. destruct x as [ | | | | | |[y|]| | | | | |]; try reflexivity. congruence. }
  remember (CPtr c0) as cp eqn:Ecp.
  cbn [enc app dec slice_elems]. cbn [N.eqb WTSlice WTLength Pos.eqb].
  rewrite <- app_assoc, read_append_varuint by exact Hcnt.
  pose proof (append_varuint_length_bounds (N.of_nat (length l))) as Hb.
  replace (Z.of_N (len (append_varuint (N.of_nat (length l)))) <? 0)%Z with false by (symmetry; apply Z.ltb_ge; lia).
  rewrite N2Z.id.
  pose proof (frames_len_ge (fun x => enc cp x []) l) as Hge.
  rewrite !len_app.
  replace (len (append_varuint (N.of_nat (length l))) + (len (flat_map (fun x => lenframe (enc cp x [])) l) + len rest)
           - len (append_varuint (N.of_nat (length l))) <? N.of_nat (length l)) with false by (symmetry; apply N.ltb_ge; lia).
  rewrite go_drop_app. cbn [bind]. unfold alloc_guard. rewrite len_app.
  replace (N.of_nat (length l) <=? len (flat_map (fun x => lenframe (enc cp x [])) l) + len rest) with true by (symmetry; apply N.leb_le; lia).
  cbn [bind].
  rewrite (read_framed_pointwise (dec cp) (zero cp) (fun x => enc cp x []) (denil c0 z0) l).
  - cbn [bind rev app]. reflexivity.
  - rewrite Forall_forall in *. intros x Hx. destruct (Hall x Hx) as [->|(Hw & Hf & Hl)].
    + (* a nil entry: an empty frame *)
      rewrite Hnil, len_nil, Hzp. split; [reflexivity|unfold two64; lia].
    + split; [|exact Hl].
      destruct (Hrt x (zero cp) Hw Hf) as [HL _].
      specialize (HL Hwp). rewrite Hwp in HL. rewrite HL. rewrite Hden; [reflexivity| |exact Hw].
      intros ->. subst cp. cbn [wfv] in Hw. contradiction.
  - rewrite !app_length. unfold len in *. lia.
Qed.

(** the element codecs plenc puts behind such pointers make the zero value of
    no data: structs (no field present), strings and byte slices *)
Example nil_struct_entry_reads_zero :
  let c0 := CStruct [] 2 [mkfld 0 1 [] (CInt 64); mkfld 1 2 [] CString] in
  dec c0 [] WTLength (zero c0) = Ok (zero c0, 0).
Proof. vm_compute. reflexivity. Qed.
Example nil_string_entry_reads_zero : dec CString [] WTLength (zero CString) = Ok (zero CString, 0).
Proof. vm_compute. reflexivity. Qed.

Example nil_entries_ex :
  let c0 := CStruct [] 2 [mkfld 0 1 [] (CInt 64); mkfld 1 2 [] CString] in
  let l := [VPtr (Some (VStruct [VInt 3; VStr [120]])); VPtr None; VPtr (Some (VStruct [VInt 0; VStr []]))] in
  dec (CSliceLen (CPtr c0)) (enc (CSliceLen (CPtr c0)) (VSlice l) []) WTSlice (VSlice [])
  = Ok (VSlice [VPtr (Some (VStruct [VInt 3; VStr [120]])); VPtr (Some (zero c0)); VPtr (Some (VStruct [VInt 0; VStr []]))], 9)
  /\ dec (CSliceVar (CPtr (CInt 64))) (enc (CSliceVar (CPtr (CInt 64))) (VSlice [VPtr (Some (VInt 1)); VPtr None; VPtr (Some (VInt (-1)))]) []) WTLength (VSlice [])
     = Ok (VSlice [VPtr (Some (VInt 1)); VPtr (Some (VInt (-1)))], 2).
Proof. vm_compute. split; reflexivity. Qed.
