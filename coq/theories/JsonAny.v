(** Model of plenccodec/json.go: JSONMapCodec, JSONArrayCodec,
    sizeJSONValue / appendJSONValue / readJSONKV. *)
From Plenc Require Import Base Varint Wire.
Open Scope N_scope.

(** JSON-model values ([any] restricted to the supported dynamic types).
    Inside a value nil and empty containers are indistinguishable after a
    round trip; the harness prints both as the empty container. *)
Inductive jv :=
| JNil
| JStr (s : bytes)
| JInt (z : Z)
| JFloat (bits : N)
| JBool (b : bool)
| JArr (l : list jv)
| JObj (l : list (bytes * jv))
| JNum (s : bytes).

Definition le_bytes (n : nat) (v : N) : bytes :=
  (fix go (n : nat) (v : N) : bytes :=
     match n with O => [] | S n' => (v mod 256) :: go n' (v / 256) end) n v.
Fixpoint le_value (l : bytes) : N :=
  match l with [] => 0 | b :: r => b + 256 * le_value r end.

Definition lenframe (b : bytes) : bytes := append_varuint (len b) ++ b.

(** appendJSONValue *)
Fixpoint jenc_value (j : jv) : bytes :=
  [16] ++
  match j with
  | JNil => [0]
  | JStr s => [1] ++ [26] ++ append_varuint (len s) ++ s
  | JInt z => [2] ++ [24] ++ append_varint z
  | JFloat b => [3] ++ [25] ++ le_bytes 8 b
  | JBool b => [4] ++ [24] ++ [if b then 1 else 0]
  | JArr l => [5] ++ [27] ++ append_varuint (N.of_nat (length l))
                ++ flat_map (fun x => lenframe (jenc_value x)) l
  | JObj l => [6] ++ [27] ++ append_varuint (N.of_nat (length l))
                ++ flat_map (fun kx => lenframe ([10] ++ append_varuint (len (fst kx)) ++ fst kx ++ jenc_value (snd kx))) l
  | JNum s => [7] ++ [26] ++ append_varuint (len s) ++ s
  end.

Definition jenc_kv (k : bytes) (x : jv) : bytes :=
  [10] ++ append_varuint (len k) ++ k ++ jenc_value x.

(** JSONArrayCodec.append / JSONMapCodec.append (body without the tag) *)
Definition jarr_body (l : list jv) : bytes :=
  append_varuint (N.of_nat (length l)) ++ flat_map (fun x => lenframe (jenc_value x)) l.
Definition jmap_body (l : list (bytes * jv)) : bytes :=
  append_varuint (N.of_nat (length l)) ++ flat_map (fun kx => lenframe (jenc_kv (fst kx) (snd kx))) l.

(** sizeJSONValue, mirroring the Go arithmetic *)
Fixpoint jsize_value (j : jv) : N :=
  1 +
  match j with
  | JNil => 1
  | JStr s => 1 + (len s + (1 + size_varuint (len s)))
  | JInt z => 1 + (size_varint z + 1)
  | JFloat _ => 1 + (8 + 1)
  | JBool _ => 1 + (1 + 1)
  | JArr l => 1 + (size_varuint (N.of_nat (length l))
                  + fold_right (fun x acc => size_varuint (jsize_value x) + jsize_value x + acc) 0 l + 1)
  | JObj l => 1 + (size_varuint (N.of_nat (length l))
                  + fold_right (fun kx acc =>
                      let s := 1 + size_varuint (len (fst kx)) + len (fst kx) + jsize_value (snd kx) in
                      size_varuint s + s + acc) 0 l + 1)
  | JNum s => 1 + (len s + (1 + size_varuint (len s)))
  end.
Definition jarr_size (l : list jv) : N :=
  size_varuint (N.of_nat (length l))
  + fold_right (fun x acc => size_varuint (jsize_value x) + jsize_value x + acc) 0 l.
Definition jmap_size (l : list (bytes * jv)) : N :=
  size_varuint (N.of_nat (length l))
  + fold_right (fun kx acc =>
      let s := 1 + size_varuint (len (fst kx)) + len (fst kx) + jsize_value (snd kx) in
      size_varuint s + s + acc) 0 l.

(** ** Decoding.  One fuel parameter bounds both loop iterations and nesting:
    every iteration and every nesting level consumes at least one byte, so
    fuel [2 * length data + 2] is never exhausted (theorem in JsonProofs). *)

Definition assoc_set (k : bytes) (x : jv) (m : list (bytes * jv)) : list (bytes * jv) :=
  (fix go (m : list (bytes * jv)) : list (bytes * jv) :=
     match m with
     | [] => [(k, x)]
     | (k', x') :: r => if (fix eqb (a b : bytes) : bool :=
                              match a, b with
                              | [], [] => true
                              | p :: a', q :: b' => (p =? q) && eqb a' b'
                              | _, _ => false end) k k'
                        then (k', x) :: r else (k', x') :: go r
     end) m.

(** read a length-prefixed chunk: varint l (n <= 0 -> Err), l <= remaining *)
Definition read_chunk (site : string) (rest : bytes) : res (bytes * bytes * N) :=
  let '(l, n) := read_varuint rest in
  if (n <=? 0)%Z then Err else
  do rest1 <- go_drop site (Z.to_N n) rest;
  if len rest1 <? l then Err else
  do body <- go_take site l rest1;
  Ok (body, rest1, Z.to_N n).

(** the entry loops of JSONArrayCodec.Read / JSONMapCodec.Read, parameterised
    by the reader of one entry body *)
Fixpoint jelems (kv : bytes -> res (bytes * jv * N)) (k : nat) (cnt : N) (rest : bytes) (consumed : N)
         (acc : list jv) {struct k} : res (list jv * N) :=
  if cnt =? 0 then Ok (rev acc, consumed) else
  match k with
  | O => Hang "JSONArrayCodec.Read loop"
  | S k' =>
    do (body, r1, kn) <- read_chunk "JSONArrayCodec.Read entry" rest;
    do (_, x, used) <- kv body;
    do r2 <- go_drop "JSONArrayCodec.Read entry" used r1;
    jelems kv k' (cnt - 1) r2 (consumed + kn + used) (x :: acc)
  end.

Fixpoint jentries (kv : bytes -> res (bytes * jv * N)) (k : nat) (cnt : N) (rest : bytes) (consumed : N)
         (m : list (bytes * jv)) {struct k} : res (list (bytes * jv) * N) :=
  if cnt =? 0 then Ok (m, consumed) else
  match k with
  | O => Hang "JSONMapCodec.Read loop"
  | S k' =>
    do (body, r1, kn) <- read_chunk "JSONMapCodec.Read entry" rest;
    do (key, x, used) <- kv body;
    do r2 <- go_drop "JSONMapCodec.Read entry" used r1;
    jentries kv k' (cnt - 1) r2 (consumed + kn + used) (assoc_set key x m)
  end.

(** state of readJSONKV: key, type code, value *)
Fixpoint jread_kv (fuel : nat) (haskey : bool) (rest : bytes) (consumed : N)
         (key : bytes) (jt : N) (val : jv) {struct fuel} : res (bytes * jv * N) :=
  match rest with
  | [] => Ok (key, val, consumed)
  | _ =>
  match fuel with
  | O => Hang "readJSONKV"
  | S f =>
    let '(wt, index, n) := read_tag rest in
    if (n <=? 0)%Z then Err else
    do rest1 <- go_drop "readJSONKV data[offset:]" (Z.to_N n) rest;
    let c1 := consumed + Z.to_N n in
    if (index =? 1)%Z then
      do (body, r1, k) <- read_chunk "readJSONKV key" rest1;
      do r2 <- go_drop "readJSONKV key" (len body) r1;
      jread_kv f haskey r2 (c1 + k + len body) (if haskey then body else key) jt val
    else if (index =? 2)%Z then
      let '(v, k) := read_varuint rest1 in
      if (k <? 0)%Z then Err else
      do r2 <- go_drop "readJSONKV type" (Z.to_N k) rest1;
      jread_kv f haskey r2 (c1 + Z.to_N k) key v val
    else if (index =? 3)%Z then
      if (jt =? 1) || (jt =? 7) then
        do (body, r1, k) <- read_chunk "readJSONKV string" rest1;
        do r2 <- go_drop "readJSONKV string" (len body) r1;
        jread_kv f haskey r2 (c1 + k + len body) key jt (if jt =? 1 then JStr body else JNum body)
      else if jt =? 2 then
        let '(i, k) := read_varint rest1 in
        if (k <? 0)%Z then Err else
        do r2 <- go_drop "readJSONKV int" (Z.to_N k) rest1;
        jread_kv f haskey r2 (c1 + Z.to_N k) key jt (JInt i)
      else if jt =? 3 then
        if len rest1 <? 8 then
          (if len rest1 =? 0 then jread_kv f haskey rest1 c1 key jt (JFloat 0) else Err)
        else
          do r2 <- go_drop "readJSONKV float" 8 rest1;
          jread_kv f haskey r2 (c1 + 8) key jt (JFloat (le_value (firstn 8 rest1)))
      else if jt =? 4 then
        let '(v, k) := read_varuint rest1 in
        if (k <? 0)%Z then Err else
        do r2 <- go_drop "readJSONKV bool" (Z.to_N k) rest1;
        jread_kv f haskey r2 (c1 + Z.to_N k) key jt (JBool (negb (v =? 0)))
      else if jt =? 5 then
        do (l, k) <- jread_arr f rest1;
        do r2 <- go_drop "readJSONKV array" k rest1;
        jread_kv f haskey r2 (c1 + k) key jt (JArr l)
      else if jt =? 6 then
        do (l, k) <- jread_map f rest1 [];
        do r2 <- go_drop "readJSONKV object" k rest1;
        jread_kv f haskey r2 (c1 + k) key jt (JObj l)
      else Err
    else
      (* unknown index: the tag is consumed, nothing else *)
      jread_kv f haskey rest1 c1 key jt val
  end
  end

(** JSONArrayCodec.Read: returns the elements and the consumed length *)
with jread_arr (fuel : nat) (data : bytes) {struct fuel} : res (list jv * N) :=
  match fuel with
  | O => Hang "JSONArrayCodec.Read"
  | S f =>
    let '(count, n) := read_varuint data in
    if (n <? 0)%Z then Err else
    if len data - Z.to_N n <? count then Err else
    do rest <- go_drop "JSONArrayCodec.Read data[offset:]" (Z.to_N n) data;
    jelems (fun body => jread_kv f false body 0 [] 0 JNil) (S (length data)) count rest (Z.to_N n) []
  end

(** JSONMapCodec.Read into [prior] *)
with jread_map (fuel : nat) (data : bytes) (prior : list (bytes * jv)) {struct fuel} : res (list (bytes * jv) * N) :=
  match fuel with
  | O => Hang "JSONMapCodec.Read"
  | S f =>
    let '(count, n) := read_varuint data in
    if (n =? 0)%Z then Ok (prior, 0) else
    if (n <? 0)%Z then Err else
    if len data - Z.to_N n <? count then Err else
    do rest <- go_drop "JSONMapCodec.Read data[offset:]" (Z.to_N n) data;
    jentries (fun body => jread_kv f true body 0 [] 0 JNil) (S (length data)) count rest (Z.to_N n) prior
  end.

Definition jfuel (data : bytes) : nat := 2 * length data + 2.
