(** C16: the JSON-any codecs round-trip every JSON-model value.
    [jread_kv] run on [jenc_value j] yields [j] again and consumes exactly the
    encoding, for every tree [j] (any depth and width), as an array element, as
    a keyed object member, and through [JSONArrayCodec.Read] / [JSONMapCodec.Read]. *)
From Plenc Require Import Base Varint Wire VarintProofs WireProofs JsonAny Codec SizeProofs JsonProofs.
Open Scope N_scope.

(** ** single-byte tags and small varints *)
Lemma read_varuint_small b rest : b < 128 -> read_varuint (b :: rest) = (b, 1%Z).
Proof.
  intros H. unfold read_varuint. cbn [uvarint_go Nat.eqb andb]. apply N.ltb_lt in H. rewrite H.
  f_equal. change (2 ^ (7 * N.of_nat 0)) with 1. lia.
Qed.

Lemma read_tag_16 rest : read_tag (16 :: rest) = (0, 2%Z, 1%Z). Proof. reflexivity. Qed.
Lemma read_tag_10 rest : read_tag (10 :: rest) = (2, 1%Z, 1%Z). Proof. reflexivity. Qed.
Lemma read_tag_24 rest : read_tag (24 :: rest) = (0, 3%Z, 1%Z). Proof. reflexivity. Qed.
Lemma read_tag_25 rest : read_tag (25 :: rest) = (1, 3%Z, 1%Z). Proof. reflexivity. Qed.
Lemma read_tag_26 rest : read_tag (26 :: rest) = (2, 3%Z, 1%Z). Proof. reflexivity. Qed.
Lemma read_tag_27 rest : read_tag (27 :: rest) = (3, 3%Z, 1%Z). Proof. reflexivity. Qed.

Lemma go_drop_1 site x (l : bytes) : go_drop site 1 (x :: l) = Ok l.
Proof. unfold go_drop. replace (1 <=? len (x :: l)) with true by (symmetry; apply N.leb_le; rewrite len_cons; lia). reflexivity. Qed.

Lemma go_drop_all site (l : bytes) : go_drop site (len l) l = Ok [].
Proof. rewrite <- (app_nil_r l) at 2. apply go_drop_app. Qed.

Lemma go_take_app' site (a b : bytes) : go_take site (len a) (a ++ b) = Ok a.
Proof.
  unfold go_take. rewrite len_app. replace (len a <=? len a + len b) with true by (symmetry; apply N.leb_le; lia).
  unfold len. rewrite Nat2N.id, firstn_app, Nat.sub_diag, firstn_all. cbn [firstn]. rewrite app_nil_r. reflexivity.
Qed.

(** a length-prefixed chunk followed by anything *)
Lemma read_chunk_frame site (body more : bytes) : len body < two64 ->
  read_chunk site (lenframe body ++ more)
  = Ok (body, body ++ more, len (append_varuint (len body))).
Proof.
  intros Hl. unfold read_chunk, lenframe. rewrite <- app_assoc, read_append_varuint by exact Hl.
  pose proof (append_varuint_length_bounds (len body)) as Hb.
  replace (Z.of_N (len (append_varuint (len body))) <=? 0)%Z with false by (symmetry; apply Z.leb_gt; unfold len in *; lia).
  rewrite N2Z.id, go_drop_app. cbn [bind].
  rewrite len_app. replace (len body + len more <? len body) with false by (symmetry; apply N.ltb_ge; lia).
  rewrite go_take_app'. reflexivity.
Qed.

(** ** the shape of values *)
Fixpoint jh (j : jv) : nat :=
  match j with
  | JArr l => S (fold_right (fun x a => Nat.max (jh x) a) O l)
  | JObj l => S (fold_right (fun kx a => Nat.max (jh (snd kx)) a) O l)
  | _ => 1%nat
  end.

Fixpoint beq (a b : bytes) : bool :=
  match a, b with
  | [], [] => true
  | p :: a', q :: b' => (p =? q) && beq a' b'
  | _, _ => false
  end.

(** what a Go value of the JSON model satisfies: floats are 64-bit patterns,
    object keys are distinct (a Go map) *)
Fixpoint wfj (j : jv) : Prop :=
  match j with
  | JFloat b => b < two64
  | JArr l => (fix all (l : list jv) : Prop := match l with [] => True | x :: r => wfj x /\ all r end) l
  | JObj l => NoDup (map fst l) /\
              (fix all (l : list (bytes * jv)) : Prop := match l with [] => True | kx :: r => wfj (snd kx) /\ all r end) l
  | _ => True
  end.

Lemma wfj_arr_items l :
  (fix all (l : list jv) : Prop := match l with [] => True | x :: r => wfj x /\ all r end) l -> Forall wfj l.
Proof. induction l as [|x r IH]; intros H; constructor; [apply H|apply IH, H]. Qed.
Lemma wfj_obj_items l :
  (fix all (l : list (bytes * jv)) : Prop := match l with [] => True | kx :: r => wfj (snd kx) /\ all r end) l ->
  Forall (fun kx => wfj (snd kx)) l.
Proof. induction l as [|x r IH]; intros H; constructor; [apply H|apply IH, H]. Qed.

Lemma le_value_bytes : forall n v, v < 256 ^ N.of_nat n -> le_value (le_bytes n v) = v.
Proof.
  induction n as [|n IH]; intros v Hv.
  - cbn in *. lia.
  - change (le_bytes (S n) v) with ((v mod 256) :: le_bytes n (v / 256)). cbn [le_value].
    rewrite IH.
    + pose proof (N.div_mod v 256). lia.
    + rewrite Nat2N.inj_succ, N.pow_succ_r' in Hv. apply N.div_lt_upper_bound; lia.
Qed.

(** ** one step of readJSONKV *)
Lemma step_type f hk t more c key jt val : t < 128 ->
  jread_kv (S f) hk (16 :: t :: more) c key jt val = jread_kv f hk more (c + 1 + 1) key t val.
Proof.
  intros Ht. cbn [jread_kv]. rewrite read_tag_16. cbv beta iota.
  change (1 <=? 0)%Z with false. cbv iota. change (Z.to_N 1) with 1. rewrite go_drop_1. cbn [bind].
  change (2 =? 1)%Z with false. change (2 =? 2)%Z with true. cbv iota.
  rewrite (read_varuint_small t more Ht). cbv beta iota. change (1 <? 0)%Z with false. cbv iota.
  change (Z.to_N 1) with 1. rewrite go_drop_1. cbn [bind]. reflexivity.
Qed.

Lemma step_key f t more c key jt val k : len k < two64 ->
  jread_kv (S f) t (10 :: lenframe k ++ more) c key jt val
  = jread_kv f t more (c + 1 + len (append_varuint (len k)) + len k) (if t then k else key) jt val.
Proof.
  intros Hk. cbn [jread_kv]. rewrite read_tag_10. cbv beta iota.
  change (1 <=? 0)%Z with false. cbv iota. change (Z.to_N 1) with 1. rewrite go_drop_1. cbn [bind].
  change (1 =? 1)%Z with true. cbv iota.
  rewrite read_chunk_frame by exact Hk. cbn [bind]. rewrite go_drop_app. cbn [bind]. reflexivity.
Qed.

Lemma step_str f hk more c key jt val s : len s < two64 -> jt = 1 \/ jt = 7 ->
  jread_kv (S f) hk (26 :: lenframe s ++ more) c key jt val
  = jread_kv f hk more (c + 1 + len (append_varuint (len s)) + len s) key jt (if jt =? 1 then JStr s else JNum s).
Proof.
  intros Hs Hjt. cbn [jread_kv]. rewrite read_tag_26. cbv beta iota.
  change (1 <=? 0)%Z with false. cbv iota. change (Z.to_N 1) with 1. rewrite go_drop_1. cbn [bind].
  change (3 =? 1)%Z with false. change (3 =? 2)%Z with false. change (3 =? 3)%Z with true. cbv iota.
  replace ((jt =? 1) || (jt =? 7)) with true by (destruct Hjt as [-> | ->]; reflexivity).
  rewrite read_chunk_frame by exact Hs. cbn [bind]. rewrite go_drop_app. cbn [bind]. reflexivity.
Qed.

Lemma step_int f hk more c key val z : int64_ok z ->
  jread_kv (S f) hk (24 :: append_varint z ++ more) c key 2 val
  = jread_kv f hk more (c + 1 + len (append_varint z)) key 2 (JInt z).
Proof.
  intros Hz. cbn [jread_kv]. rewrite read_tag_24. cbv beta iota.
  change (1 <=? 0)%Z with false. cbv iota. change (Z.to_N 1) with 1. rewrite go_drop_1. cbn [bind].
  change (3 =? 1)%Z with false. change (3 =? 2)%Z with false. change (3 =? 3)%Z with true. cbv iota.
  change ((2 =? 1) || (2 =? 7)) with false. change (2 =? 2) with true. cbv iota.
  rewrite read_append_varint by exact Hz. cbv beta iota.
  replace (Z.of_N (len (append_varint z)) <? 0)%Z with false by (symmetry; apply Z.ltb_ge; lia).
  rewrite N2Z.id, go_drop_app. cbn [bind]. reflexivity.
Qed.

Lemma step_bool f hk more c key val (b : bool) :
  jread_kv (S f) hk (24 :: (if b then 1 else 0) :: more) c key 4 val
  = jread_kv f hk more (c + 1 + 1) key 4 (JBool b).
Proof.
  cbn [jread_kv]. rewrite read_tag_24. cbv beta iota.
  change (1 <=? 0)%Z with false. cbv iota. change (Z.to_N 1) with 1. rewrite go_drop_1. cbn [bind].
  change (3 =? 1)%Z with false. change (3 =? 2)%Z with false. change (3 =? 3)%Z with true. cbv iota.
  change ((4 =? 1) || (4 =? 7)) with false. change (4 =? 2) with false. change (4 =? 3) with false.
  change (4 =? 4) with true. cbv iota.
  rewrite read_varuint_small by (destruct b; lia). cbv beta iota. change (1 <? 0)%Z with false. cbv iota.
  change (Z.to_N 1) with 1. rewrite go_drop_1. cbn [bind]. destruct b; reflexivity.
Qed.

Lemma firstn_8_le b (more : bytes) : firstn 8 (le_bytes 8 b ++ more) = le_bytes 8 b.
Proof.
  replace 8%nat with (length (le_bytes 8 b)) at 1 by apply le_bytes_length.
  rewrite firstn_app, Nat.sub_diag, firstn_all. cbn [firstn]. apply app_nil_r.
Qed.

Lemma step_float f hk more c key val b : b < two64 ->
  jread_kv (S f) hk (25 :: le_bytes 8 b ++ more) c key 3 val
  = jread_kv f hk more (c + 1 + 8) key 3 (JFloat b).
Proof.
  intros Hb. cbn [jread_kv]. rewrite read_tag_25. cbv beta iota.
  change (1 <=? 0)%Z with false. cbv iota. change (Z.to_N 1) with 1. rewrite go_drop_1. cbn [bind].
  change (3 =? 1)%Z with false. change (3 =? 2)%Z with false. change (3 =? 3)%Z with true. cbv iota.
  change ((3 =? 1) || (3 =? 7)) with false. change (3 =? 2) with false. change (3 =? 3) with true. cbv iota.
  rewrite len_app, len_le_bytes. change (N.of_nat 8) with 8.
  replace (8 + len more <? 8) with false by (symmetry; apply N.ltb_ge; lia).
  replace 8 with (len (le_bytes 8 b)) at 1 by apply len_le_bytes. rewrite go_drop_app. cbn [bind].
  rewrite firstn_8_le, le_value_bytes by exact Hb. reflexivity.
Qed.

Lemma step_arr f hk more c key val l used :
  jread_arr f (jarr_body l ++ more) = Ok (l, used) -> used = len (jarr_body l) ->
  jread_kv (S f) hk (27 :: jarr_body l ++ more) c key 5 val
  = jread_kv f hk more (c + 1 + used) key 5 (JArr l).
Proof.
  intros Hr ->. cbn [jread_kv]. rewrite read_tag_27. cbv beta iota.
  change (1 <=? 0)%Z with false. cbv iota. change (Z.to_N 1) with 1. rewrite go_drop_1. cbn [bind].
  change (3 =? 1)%Z with false. change (3 =? 2)%Z with false. change (3 =? 3)%Z with true. cbv iota.
  change ((5 =? 1) || (5 =? 7)) with false. change (5 =? 2) with false. change (5 =? 3) with false.
  change (5 =? 4) with false. change (5 =? 5) with true. cbv iota.
  rewrite Hr. cbn [bind]. rewrite go_drop_app. cbn [bind]. reflexivity.
Qed.

Lemma step_obj f hk more c key val l used :
  jread_map f (jmap_body l ++ more) [] = Ok (l, used) -> used = len (jmap_body l) ->
  jread_kv (S f) hk (27 :: jmap_body l ++ more) c key 6 val
  = jread_kv f hk more (c + 1 + used) key 6 (JObj l).
Proof.
  intros Hr ->. cbn [jread_kv]. rewrite read_tag_27. cbv beta iota.
  change (1 <=? 0)%Z with false. cbv iota. change (Z.to_N 1) with 1. rewrite go_drop_1. cbn [bind].
  change (3 =? 1)%Z with false. change (3 =? 2)%Z with false. change (3 =? 3)%Z with true. cbv iota.
  change ((6 =? 1) || (6 =? 7)) with false. change (6 =? 2) with false. change (6 =? 3) with false.
  change (6 =? 4) with false. change (6 =? 5) with false. change (6 =? 6) with true. cbv iota.
  rewrite Hr. cbn [bind]. rewrite go_drop_app. cbn [bind]. reflexivity.
Qed.

Lemma jread_kv_nil f hk c key jt val : jread_kv f hk [] c key jt val = Ok (key, val, c).
Proof. destruct f; reflexivity. Qed.

(** ** the entry loops *)
Lemma frames_length {A} (h : A -> bytes) (l : list A) :
  (length l <= length (flat_map (fun x => lenframe (h x)) l))%nat.
Proof.
  induction l as [|x l IH]; cbn [flat_map length]; [lia|].
  rewrite app_length. unfold lenframe at 1. rewrite app_length.
  pose proof (append_varuint_length_bounds (len (h x))). unfold len in *. lia.
Qed.

Lemma jelems_list kv : forall l k more consumed acc,
  Forall (fun x => len (jenc_value x) < two64 /\ exists key, kv (jenc_value x) = Ok (key, x, len (jenc_value x))) l ->
  (length l <= k)%nat ->
  jelems kv k (N.of_nat (length l)) (flat_map (fun x => lenframe (jenc_value x)) l ++ more) consumed acc
  = Ok (rev acc ++ l, consumed + len (flat_map (fun x => lenframe (jenc_value x)) l)).
Proof.
  induction l as [|x l IH]; intros k more consumed acc Hall Hk.
  - destruct k; cbn [jelems length N.of_nat N.eqb flat_map]; rewrite app_nil_r, len_nil, N.add_0_r; reflexivity.
  - pose proof (Forall_inv Hall) as [Hlx [key Hkv]]. pose proof (Forall_inv_tail Hall) as Hall'.
    destruct k as [|k']; [cbn in Hk; lia|].
    cbn [jelems]. replace (N.of_nat (length (x :: l)) =? 0) with false by (symmetry; apply N.eqb_neq; cbn [length]; lia).
    cbn [flat_map]. rewrite <- app_assoc, read_chunk_frame by exact Hlx. cbn [bind].
    rewrite Hkv. cbn [bind]. rewrite go_drop_app. cbn [bind].
    replace (N.of_nat (length (x :: l)) - 1) with (N.of_nat (length l)) by (cbn [length]; lia).
    rewrite IH by (try exact Hall'; cbn [length] in Hk; lia).
    cbn [rev]. rewrite <- app_assoc. cbn [app]. f_equal. f_equal.
    rewrite len_app. unfold lenframe. rewrite len_app. lia.
Qed.

Definition assoc_go (k : bytes) (x : jv) : list (bytes * jv) -> list (bytes * jv) :=
  fix go (m : list (bytes * jv)) : list (bytes * jv) :=
    match m with
    | [] => [(k, x)]
    | (k', x') :: r => if beq k k' then (k', x) :: r else (k', x') :: go r
    end.
Lemma assoc_set_go k x m : assoc_set k x m = assoc_go k x m. Proof. reflexivity. Qed.

Lemma beq_true : forall a b, beq a b = true -> a = b.
Proof.
  induction a as [|p a IH]; destruct b as [|q b]; cbn [beq]; intros H; try discriminate; [reflexivity|].
  apply andb_true_iff in H. destruct H as [H1 H2]. apply N.eqb_eq in H1. subst. f_equal. apply IH, H2.
Qed.

Lemma assoc_set_fresh k x : forall m, ~ In k (map fst m) -> assoc_set k x m = m ++ [(k, x)].
Proof.
  intros m. rewrite assoc_set_go. induction m as [|[k' x'] m IH]; intros Hn; cbn [assoc_go app]; [reflexivity|].
  destruct (beq k k') eqn:E.
  - apply beq_true in E. exfalso. apply Hn. left. cbn. congruence.
  - f_equal. apply IH. intros Hi. apply Hn. right. exact Hi.
Qed.

Lemma fold_assoc_nodup : forall (l m : list (bytes * jv)), NoDup (map fst (m ++ l)) ->
  fold_left (fun m kx => assoc_set (fst kx) (snd kx) m) l m = m ++ l.
Proof.
  induction l as [|[k x] l IH]; intros m Hnd; cbn [fold_left fst snd]; [rewrite app_nil_r; reflexivity|].
  rewrite assoc_set_fresh.
  - rewrite IH; rewrite <- app_assoc; cbn [app]; [reflexivity|exact Hnd].
  - rewrite map_app in Hnd. cbn [map fst] in Hnd. apply NoDup_remove_2 in Hnd.
    intros Hi. apply Hnd. apply in_or_app. left. exact Hi.
Qed.

Lemma jentries_list kv : forall l k more consumed m,
  Forall (fun kx => len (jenc_kv (fst kx) (snd kx)) < two64 /\
                    kv (jenc_kv (fst kx) (snd kx)) = Ok (fst kx, snd kx, len (jenc_kv (fst kx) (snd kx)))) l ->
  (length l <= k)%nat ->
  jentries kv k (N.of_nat (length l)) (flat_map (fun kx => lenframe (jenc_kv (fst kx) (snd kx))) l ++ more) consumed m
  = Ok (fold_left (fun m kx => assoc_set (fst kx) (snd kx) m) l m,
        consumed + len (flat_map (fun kx => lenframe (jenc_kv (fst kx) (snd kx))) l)).
Proof.
  induction l as [|x l IH]; intros k more consumed m Hall Hk.
  - destruct k; cbn [jentries length N.of_nat N.eqb flat_map fold_left]; rewrite len_nil, N.add_0_r; reflexivity.
  - pose proof (Forall_inv Hall) as [Hlx Hkv]. pose proof (Forall_inv_tail Hall) as Hall'.
    destruct k as [|k']; [cbn in Hk; lia|].
    cbn [jentries]. replace (N.of_nat (length (x :: l)) =? 0) with false by (symmetry; apply N.eqb_neq; cbn [length]; lia).
    cbn [flat_map]. rewrite <- app_assoc, read_chunk_frame by exact Hlx. cbn [bind].
    rewrite Hkv. cbn [bind]. rewrite go_drop_app. cbn [bind].
    replace (N.of_nat (length (x :: l)) - 1) with (N.of_nat (length l)) by (cbn [length]; lia).
    rewrite IH by (try exact Hall'; cbn [length] in Hk; lia).
    cbn [fold_left]. f_equal. f_equal.
    rewrite len_app. unfold lenframe. rewrite len_app. lia.
Qed.

(** ** JSONArrayCodec.Read / JSONMapCodec.Read on their own output *)
Lemma jread_arr_body f l more :
  N.of_nat (length l) < two64 ->
  Forall (fun x => len (jenc_value x) < two64 /\
                   exists key, jread_kv f false (jenc_value x) 0 [] 0 JNil = Ok (key, x, len (jenc_value x))) l ->
  jread_arr (S f) (jarr_body l ++ more) = Ok (l, len (jarr_body l)).
Proof.
  intros Hc Hall. cbn [jread_arr]. unfold jarr_body. rewrite <- app_assoc, read_append_varuint by exact Hc.
  pose proof (append_varuint_length_bounds (N.of_nat (length l))) as Hb.
  replace (Z.of_N (len (append_varuint (N.of_nat (length l)))) <? 0)%Z with false by (symmetry; apply Z.ltb_ge; lia).
  rewrite N2Z.id. pose proof (frames_length jenc_value l) as Hfl.
  replace (len (append_varuint (N.of_nat (length l)) ++ flat_map (fun x => lenframe (jenc_value x)) l ++ more)
           - len (append_varuint (N.of_nat (length l))) <? N.of_nat (length l)) with false
    by (symmetry; apply N.ltb_ge; rewrite !len_app; unfold len; lia).
  rewrite go_drop_app. cbn [bind].
  rewrite jelems_list.
  - cbn [rev app]. rewrite len_app. reflexivity.
  - exact Hall.
  - rewrite !app_length. lia.
Qed.

Lemma jread_map_body f l more :
  N.of_nat (length l) < two64 -> NoDup (map fst l) ->
  Forall (fun kx => len (jenc_kv (fst kx) (snd kx)) < two64 /\
                    jread_kv f true (jenc_kv (fst kx) (snd kx)) 0 [] 0 JNil
                    = Ok (fst kx, snd kx, len (jenc_kv (fst kx) (snd kx)))) l ->
  jread_map (S f) (jmap_body l ++ more) [] = Ok (l, len (jmap_body l)).
Proof.
  intros Hc Hnd Hall. cbn [jread_map]. unfold jmap_body. rewrite <- app_assoc, read_append_varuint by exact Hc.
  pose proof (append_varuint_length_bounds (N.of_nat (length l))) as Hb.
  replace (Z.of_N (len (append_varuint (N.of_nat (length l)))) =? 0)%Z with false by (symmetry; apply Z.eqb_neq; lia).
  replace (Z.of_N (len (append_varuint (N.of_nat (length l)))) <? 0)%Z with false by (symmetry; apply Z.ltb_ge; lia).
  rewrite N2Z.id. pose proof (frames_length (fun kx : bytes * jv => jenc_kv (fst kx) (snd kx)) l) as Hfl.
  replace (len (append_varuint (N.of_nat (length l)) ++ flat_map (fun kx => lenframe (jenc_kv (fst kx) (snd kx))) l ++ more)
           - len (append_varuint (N.of_nat (length l))) <? N.of_nat (length l)) with false
    by (symmetry; apply N.ltb_ge; rewrite !len_app; unfold len; lia).
  rewrite go_drop_app. cbn [bind].
  rewrite jentries_list.
  - rewrite fold_assoc_nodup by exact Hnd. cbn [app]. rewrite len_app. reflexivity.
  - exact Hall.
  - rewrite !app_length. lia.
Qed.

(** ** the round trip of one value, by induction over the tree *)
Definition RTj (j : jv) : Prop :=
  jfits j -> wfj j -> forall fuel hk c key, (4 * jh j <= fuel)%nat ->
  jread_kv fuel hk (jenc_value j) c key 0 JNil = Ok (key, j, c + len (jenc_value j)).

Lemma max_le_fold {A} (h : A -> nat) (l : list A) x :
  In x l -> (h x <= fold_right (fun y a => Nat.max (h y) a) O l)%nat.
Proof.
  induction l as [|y l IH]; intros Hin; [destruct Hin|]. cbn [fold_right].
  destruct Hin as [->|Hin]; [lia|]. specialize (IH Hin). lia.
Qed.

Theorem json_value_roundtrip : forall j, RTj j.
Proof.
  induction j as [|s|z|b|b|l IH|l IH|s] using jv_ind'; intros Hf Hw fuel hk c key Hfuel;
    cbn [jh] in Hfuel; cbn [jenc_value jfits wfj] in *.
  - (* nil *)
    destruct fuel as [|f1]; [lia|]. cbn [app]. rewrite step_type by lia. rewrite jread_kv_nil.
    rewrite !len_cons, len_nil. f_equal. f_equal. lia.
  - (* string *)
    destruct fuel as [|[|f2]]; try lia. cbn [app]. rewrite step_type by lia.
    change (26 :: append_varuint (len s) ++ s) with (26 :: lenframe s).
    rewrite <- (app_nil_r (lenframe s)), step_str by (try exact Hf; left; reflexivity).
    rewrite jread_kv_nil. change (1 =? 1) with true. cbv iota. f_equal. f_equal.
    rewrite !len_cons, app_nil_r. unfold lenframe. rewrite len_app. lia.
  - (* int *)
    destruct fuel as [|[|f2]]; try lia. cbn [app]. rewrite step_type by lia.
    rewrite <- (app_nil_r (append_varint z)), step_int by exact Hf. rewrite jread_kv_nil.
    f_equal. f_equal. rewrite !len_cons, app_nil_r. lia.
  - (* float *)
    destruct fuel as [|[|f2]]; try lia. cbn [app]. rewrite step_type by lia.
    rewrite <- (app_nil_r (le_bytes 8 b)), step_float by exact Hw. rewrite jread_kv_nil.
    f_equal. f_equal. rewrite !len_cons, app_nil_r, len_le_bytes. lia.
  - (* bool *)
    destruct fuel as [|[|f2]]; try lia. cbn [app]. rewrite step_type by lia.
    rewrite step_bool. rewrite jread_kv_nil. f_equal. f_equal. rewrite !len_cons, len_nil. lia.
  - (* array *)
    destruct Hf as [Hc Hall]. apply jarr_items in Hall. apply wfj_arr_items in Hw.
    destruct fuel as [|[|[|[|f4]]]]; try lia. cbn [app]. rewrite step_type by lia.
    change (27 :: append_varuint (N.of_nat (length l)) ++ flat_map (fun x => lenframe (jenc_value x)) l)
      with (27 :: jarr_body l).
    rewrite <- (app_nil_r (jarr_body l)).
    rewrite (step_arr (S (S f4)) hk [] (c + 1 + 1) key JNil l (len (jarr_body l))); [| |reflexivity].
    + rewrite jread_kv_nil. f_equal. f_equal. rewrite !len_cons, app_nil_r. lia.
    + apply jread_arr_body; [exact Hc|].
      rewrite Forall_forall in *. intros x Hx. destruct (Hall x Hx) as [Hjx Hlx]. split; [exact Hlx|].
      exists []. rewrite (IH x Hx Hjx (Hw x Hx)); [reflexivity|].
      pose proof (max_le_fold jh l x Hx). lia.
  - (* object *)
    destruct Hf as [Hc Hall]. apply jobj_items in Hall. destruct Hw as [Hnd Hw]. apply wfj_obj_items in Hw.
    destruct fuel as [|[|[|[|f4]]]]; try lia.
    match goal with |- jread_kv _ _ ?e _ _ _ _ = _ => change e with (16 :: 6 :: 27 :: jmap_body l) end.
    rewrite step_type by lia.
    rewrite <- (app_nil_r (jmap_body l)).
    rewrite (step_obj (S (S f4)) hk [] (c + 1 + 1) key JNil l (len (jmap_body l))); [| |reflexivity].
    + rewrite jread_kv_nil. f_equal. f_equal. rewrite !len_cons, app_nil_r. lia.
    + apply jread_map_body; [exact Hc|exact Hnd|].
      rewrite Forall_forall in *. intros kx Hx. destruct (Hall kx Hx) as (Hjx & Hk & Hlx). split; [exact Hlx|].
      unfold jenc_kv. cbn [app].
      replace (10 :: append_varuint (len (fst kx)) ++ fst kx ++ jenc_value (snd kx))
        with (10 :: lenframe (fst kx) ++ jenc_value (snd kx)) by (unfold lenframe; rewrite <- app_assoc; reflexivity).
      rewrite step_key by exact Hk.
      rewrite (IH kx Hx Hjx (Hw kx Hx)).
      * f_equal. f_equal. rewrite !len_cons, !len_app. unfold lenframe. rewrite len_app. lia.
      * pose proof (max_le_fold (fun kx : bytes * jv => jh (snd kx)) l kx Hx). cbv beta in *. lia.
  - (* json.Number *)
    destruct fuel as [|[|f2]]; try lia. cbn [app]. rewrite step_type by lia.
    change (26 :: append_varuint (len s) ++ s) with (26 :: lenframe s).
    rewrite <- (app_nil_r (lenframe s)), step_str by (try exact Hf; right; reflexivity).
    rewrite jread_kv_nil. change (7 =? 1) with false. cbv iota. f_equal. f_equal.
    rewrite !len_cons, app_nil_r. unfold lenframe. rewrite len_app. lia.
Qed.

(** ** enough fuel: every nesting level costs at least two bytes *)
Lemma in_flat_len {A} (h : A -> bytes) (l : list A) x :
  In x l -> (length (h x) <= length (flat_map (fun y => lenframe (h y)) l))%nat.
Proof.
  induction l as [|y l IH]; intros Hin; [destruct Hin|]. cbn [flat_map]. rewrite app_length.
  destruct Hin as [->|Hin]; [unfold lenframe; rewrite app_length; lia|]. specialize (IH Hin). lia.
Qed.

Lemma fold_max_witness {A} (h : A -> nat) (l : list A) :
  fold_right (fun y a => Nat.max (h y) a) O l = O \/ exists x, In x l /\ fold_right (fun y a => Nat.max (h y) a) O l = h x.
Proof.
  induction l as [|y l IH]; [left; reflexivity|]. cbn [fold_right].
  destruct (Nat.max_spec (h y) (fold_right (fun y a => Nat.max (h y) a) O l)) as [[Hlt ->]|[Hle ->]].
  - destruct IH as [E|[x [Hin E]]]; [lia|]. right. exists x. split; [right; exact Hin|exact E].
  - right. exists y. split; [left; reflexivity|reflexivity].
Qed.

Lemma jh_len : forall j, (2 * jh j <= length (jenc_value j))%nat.
Proof.
  induction j as [|s|z|b|b|l IH|l IH|s] using jv_ind'; cbn [jh jenc_value app length]; try lia.
  - rewrite app_length.
    destruct (fold_max_witness jh l) as [E|[x [Hin E]]]; rewrite E; [lia|].
    rewrite Forall_forall in IH. pose proof (IH x Hin). pose proof (in_flat_len jenc_value l x Hin). lia.
  - rewrite app_length.
    destruct (fold_max_witness (fun kx : bytes * jv => jh (snd kx)) l) as [E|[x [Hin E]]]; rewrite E; [lia|].
    rewrite Forall_forall in IH. pose proof (IH x Hin).
    pose proof (in_flat_len (fun kx : bytes * jv => 10 :: append_varuint (len (fst kx)) ++ fst kx ++ jenc_value (snd kx)) l x Hin) as Hl.
    cbv beta in Hl. cbn [length] in Hl. rewrite !app_length in Hl. lia.
Qed.

(** ** C16 at the level of the two codecs *)
Theorem json_array_roundtrip : forall l more, jfits (JArr l) -> wfj (JArr l) ->
  jread_arr (jfuel (jarr_body l ++ more)) (jarr_body l ++ more) = Ok (l, len (jarr_body l)).
Proof.
  intros l more Hf Hw. pose proof Hf as [Hc Hall]. apply jarr_items in Hall.
  cbn [wfj] in Hw. apply wfj_arr_items in Hw.
  unfold jfuel. replace (2 * length (jarr_body l ++ more) + 2)%nat with (S (2 * length (jarr_body l ++ more) + 1)) by lia.
  apply jread_arr_body; [exact Hc|].
  rewrite Forall_forall in *. intros x Hx. destruct (Hall x Hx) as [Hjx Hlx]. split; [exact Hlx|].
  exists []. rewrite (json_value_roundtrip x Hjx (Hw x Hx)); [reflexivity|].
  pose proof (jh_len x). pose proof (in_flat_len jenc_value l x Hx). unfold jarr_body. rewrite !app_length. lia.
Qed.

Theorem json_map_roundtrip : forall l more, jfits (JObj l) -> wfj (JObj l) ->
  jread_map (jfuel (jmap_body l ++ more)) (jmap_body l ++ more) [] = Ok (l, len (jmap_body l)).
Proof.
  intros l more Hf Hw. pose proof Hf as [Hc Hall]. apply jobj_items in Hall.
  destruct Hw as [Hnd Hw]. apply wfj_obj_items in Hw.
  unfold jfuel. replace (2 * length (jmap_body l ++ more) + 2)%nat with (S (S (2 * length (jmap_body l ++ more)))) by lia.
  apply jread_map_body; [exact Hc|exact Hnd|].
  rewrite Forall_forall in *. intros kx Hx. destruct (Hall kx Hx) as (Hjx & Hk & Hlx). split; [exact Hlx|].
  unfold jenc_kv. cbn [app].
  replace (10 :: append_varuint (len (fst kx)) ++ fst kx ++ jenc_value (snd kx))
    with (10 :: lenframe (fst kx) ++ jenc_value (snd kx)) by (unfold lenframe; rewrite <- app_assoc; reflexivity).
  rewrite step_key by exact Hk.
  rewrite (json_value_roundtrip (snd kx) Hjx (Hw kx Hx)).
  - f_equal. f_equal. rewrite !len_cons, !len_app. unfold lenframe. rewrite len_app. lia.
  - pose proof (jh_len (snd kx)).
    pose proof (in_flat_len (fun kx : bytes * jv => jenc_kv (fst kx) (snd kx)) l kx Hx) as Hl. cbv beta in Hl.
    unfold jenc_kv in Hl. unfold jmap_body. rewrite !app_length in *. unfold jenc_kv. lia.
Qed.

(** the codecs of Codec.v: decoding the encoding of a JSON-model value into a
    fresh (or nil) target yields the value; nil and empty containers coincide *)
Theorem dec_enc_jarr : forall p l more wt prior, jfits (JArr l) -> wfj (JArr l) ->
  dec CJArr (enc CJArr (VJson p (JArr l)) [] ++ more) wt prior = Ok (VJson false (JArr l), len (enc CJArr (VJson p (JArr l)) [])).
Proof.
  intros p l more wt prior Hf Hw. cbn [dec enc app]. rewrite json_array_roundtrip by assumption. reflexivity.
Qed.

Theorem dec_enc_jmap : forall p l more wt pn, jfits (JObj l) -> wfj (JObj l) ->
  dec CJMap (enc CJMap (VJson p (JObj l)) [] ++ more) wt (VJson pn (JObj []))
  = Ok (VJson false (JObj l), len (enc CJMap (VJson p (JObj l)) [])).
Proof.
  intros p l more wt pn Hf Hw. cbn [dec enc app].
  assert (E : read_varuint (jmap_body l ++ more) = (N.of_nat (length l), Z.of_N (len (append_varuint (N.of_nat (length l)))))).
  { unfold jmap_body. rewrite <- app_assoc. apply read_append_varuint. apply Hf. }
  rewrite E.
  pose proof (append_varuint_length_bounds (N.of_nat (length l))) as Hb.
  replace (Z.of_N (len (append_varuint (N.of_nat (length l)))) =? 0)%Z with false by (symmetry; apply Z.eqb_neq; lia).
  replace (match (if pn then None else Some []) with Some l0 => l0 | None => [] end) with (@nil (bytes * jv))
    by (destruct pn; reflexivity).
  rewrite json_map_roundtrip by assumption. reflexivity.
Qed.

(** ** into a target that already holds entries: merged by key *)
Lemma jread_map_body_gen f l more m :
  N.of_nat (length l) < two64 ->
  Forall (fun kx => len (jenc_kv (fst kx) (snd kx)) < two64 /\
                    jread_kv f true (jenc_kv (fst kx) (snd kx)) 0 [] 0 JNil
                    = Ok (fst kx, snd kx, len (jenc_kv (fst kx) (snd kx)))) l ->
  jread_map (S f) (jmap_body l ++ more) m
  = Ok (fold_left (fun m kx => assoc_set (fst kx) (snd kx) m) l m, len (jmap_body l)).
Proof.
  intros Hc Hall. cbn [jread_map]. unfold jmap_body. rewrite <- app_assoc, read_append_varuint by exact Hc.
  pose proof (append_varuint_length_bounds (N.of_nat (length l))) as Hb.
  replace (Z.of_N (len (append_varuint (N.of_nat (length l)))) =? 0)%Z with false by (symmetry; apply Z.eqb_neq; lia).
  replace (Z.of_N (len (append_varuint (N.of_nat (length l)))) <? 0)%Z with false by (symmetry; apply Z.ltb_ge; lia).
  rewrite N2Z.id. pose proof (frames_length (fun kx : bytes * jv => jenc_kv (fst kx) (snd kx)) l) as Hfl.
  replace (len (append_varuint (N.of_nat (length l)) ++ flat_map (fun kx => lenframe (jenc_kv (fst kx) (snd kx))) l ++ more)
           - len (append_varuint (N.of_nat (length l))) <? N.of_nat (length l)) with false
    by (symmetry; apply N.ltb_ge; rewrite !len_app; unfold len; lia).
  rewrite go_drop_app. cbn [bind].
  rewrite jentries_list.
  - rewrite len_app. reflexivity.
  - exact Hall.
  - rewrite !app_length. lia.
Qed.

Theorem json_map_merge : forall l more m, jfits (JObj l) ->
  (fix all (l : list (bytes * jv)) : Prop := match l with [] => True | kx :: r => wfj (snd kx) /\ all r end) l ->
  jread_map (jfuel (jmap_body l ++ more)) (jmap_body l ++ more) m
  = Ok (fold_left (fun m kx => assoc_set (fst kx) (snd kx) m) l m, len (jmap_body l)).
Proof.
  intros l more m Hf Hw. pose proof Hf as [Hc Hall]. apply jobj_items in Hall. apply wfj_obj_items in Hw.
  unfold jfuel. replace (2 * length (jmap_body l ++ more) + 2)%nat with (S (S (2 * length (jmap_body l ++ more)))) by lia.
  apply jread_map_body_gen; [exact Hc|].
  rewrite Forall_forall in *. intros kx Hx. destruct (Hall kx Hx) as (Hjx & Hk & Hlx). split; [exact Hlx|].
  unfold jenc_kv. cbn [app].
  replace (10 :: append_varuint (len (fst kx)) ++ fst kx ++ jenc_value (snd kx))
    with (10 :: lenframe (fst kx) ++ jenc_value (snd kx)) by (unfold lenframe; rewrite <- app_assoc; reflexivity).
  rewrite step_key by exact Hk.
  rewrite (json_value_roundtrip (snd kx) Hjx (Hw kx Hx)).
  - f_equal. f_equal. rewrite !len_cons, !len_app. unfold lenframe. rewrite len_app. lia.
  - pose proof (jh_len (snd kx)).
    pose proof (in_flat_len (fun kx : bytes * jv => jenc_kv (fst kx) (snd kx)) l kx Hx) as Hl. cbv beta in Hl.
    unfold jenc_kv in Hl. unfold jmap_body. rewrite !app_length in *. unfold jenc_kv. lia.
Qed.
