(** Correspondence definitions for C13 (descriptor-driven decoding) and C14
    (the Descriptor mirrors the type). *)
From Plenc Require Import Base Varint Wire JsonAny Codec Registry CorrCore Descriptor.
Open Scope N_scope.

Fixpoint desc_eqb (a b : desc) {struct a} : bool :=
  let 'Desc i n t tn es x l := a in
  let 'Desc i' n' t' tn' es' x' l' := b in
  (i =? i')%Z && bytes_eqb n n' && (t =? t') && bytes_eqb tn tn' && Bool.eqb x x' && (l =? l')
  && (fix eqb (p q : list desc) : bool :=
        match p, q with
        | [], [] => true
        | d1 :: p', d2 :: q' => desc_eqb d1 d2 && eqb p' q'
        | _, _ => false
        end) es es'.

Definition ev_eqb (a b : ev) : bool :=
  match a, b with
  | EvStartObj, EvStartObj | EvEndObj, EvEndObj | EvStartArr, EvStartArr | EvEndArr, EvEndArr => true
  | EvName s, EvName t | EvStr s, EvStr t | EvRaw s, EvRaw t => bytes_eqb s t
  | EvInt x, EvInt y => (x =? y)%Z
  | EvUint x, EvUint y | EvF32 x, EvF32 y | EvF64 x, EvF64 y => x =? y
  | EvBool x, EvBool y => Bool.eqb x y
  | EvTime s n, EvTime s' n' => ((s =? s') && (n =? n'))%Z
  | _, _ => false
  end.
Fixpoint evs_eqb (a b : list ev) : bool :=
  match a, b with [], [] => true | x :: a', y :: b' => ev_eqb x y && evs_eqb a' b' | _, _ => false end.

Inductive c13case :=
| K14 (c : cfg) (e : env) (t : ty) (fuel : nat) (d : desc)
| K13 (c : cfg) (e : env) (t : ty) (fuel : nat) (data : bytes) (evs : list ev) (ok : bool).

Inductive e13 :=
| E14 (d : res desc)
| E13 (evs : list ev) (out : res N)
| E13NoCodec.

Definition check13 (k : c13case) : option e13 :=
  match k with
  | K14 c e t fuel d =>
    match build c e fuel t [] with
    | Ok cd => match descriptor_of cd with
               | Ok d' => if desc_eqb d' d then None else Some (E14 (Ok d'))
               | r => Some (E14 r)
               end
    | _ => Some E13NoCodec
    end
  | K13 c e t fuel data evs ok =>
    match build c e fuel t [] with
    | Ok cd => match descriptor_of cd with
               | Ok d =>
                 let w := walk d data in
                 let mok := match w_out w with Ok _ => true | _ => false end in
                 let safe := match w_out w with Ok _ | Err => true | _ => false end in
                 if safe && Bool.eqb mok ok && evs_eqb (w_ev w) evs then None else Some (E13 (w_ev w) (w_out w))
               | _ => Some E13NoCodec
               end
    | _ => Some E13NoCodec
    end
  end.

Fixpoint mismatches_C13 (base : N) (cs : list c13case) : list (N * e13) :=
  match cs with
  | [] => []
  | k :: rest =>
    match check13 k with
    | None => mismatches_C13 (base + 1) rest
    | Some e => (base, e) :: mismatches_C13 (base + 1) rest
    end
  end.
