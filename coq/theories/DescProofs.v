(** C14 / C13: facts about descriptor_of and the descriptor walk. *)
From Plenc Require Import Base Varint Wire VarintProofs WireProofs JsonAny Codec SizeProofs Descriptor.
Open Scope N_scope.

Lemma with_explicit_spec d : d_explicit (with_explicit d) = true.
Proof. destruct d; reflexivity. Qed.

Lemma with_field_keeps i n d :
  d_index (with_field i n d) = i /\ d_name (with_field i n d) = n /\
  d_type (with_field i n d) = d_type d /\ d_explicit (with_field i n d) = d_explicit d /\
  d_elems (with_field i n d) = d_elems d /\ d_logical (with_field i n d) = d_logical d /\
  d_typename (with_field i n d) = d_typename d.
Proof. destruct d; cbn; auto 10. Qed.

(** C14: the descriptor flags explicit presence for exactly the pointer and
    null-typed codecs *)
Ltac bind_cases H :=
  repeat match type of H with
  | (do _ <- ?X; _) = _ => let E := fresh "E" in destruct X eqn:E; cbn [bind] in H; try discriminate H
  end.

Theorem explicit_presence_iff : forall c d, descriptor_of c = Ok d ->
  (d_explicit d = true <-> (exists c', c = CPtr c') \/ (exists c', c = CNull c')).
Proof.
  intros c d H. destruct c; cbn [descriptor_of] in H; bind_cases H;
    try (inversion H; subst; cbn [d_explicit simple]; rewrite ?with_explicit_spec;
         split; [intros X; try discriminate X; eauto | intros [[c' X]|[c' X]]; try discriminate X; reflexivity]).
  discriminate H.
Qed.

Definition fields_descs :=
  fix go (l : list (fld codec)) : res (list desc) :=
    match l with
    | [] => Ok []
    | f :: r => do d <- descriptor_of (f_codec f); do ds <- go r;
                Ok (with_field (f_index f) (f_name f) d :: ds)
    end.

Lemma fields_descs_spec : forall fs es, fields_descs fs = Ok es ->
  map (fun e => (d_index e, d_name e)) es = map (fun f => (f_index f, f_name f)) fs /\
  Forall2 (fun f e => exists d0, descriptor_of (f_codec f) = Ok d0 /\ e = with_field (f_index f) (f_name f) d0) fs es.
Proof.
  induction fs as [|f r IH]; intros es E; cbn [fields_descs] in E.
  - inversion E; subst. split; [reflexivity|constructor].
  - destruct (descriptor_of (f_codec f)) as [d0| | | |] eqn:E0; cbn [bind] in E; try discriminate.
    fold fields_descs in E.
    destruct (fields_descs r) as [ds| | | |] eqn:E2; cbn [bind] in E; try discriminate.
    inversion E; subst. destruct (IH ds eq_refl) as [A B]. split.
    + cbn [map]. f_equal; [|exact A].
      destruct (with_field_keeps (f_index f) (f_name f) d0) as (X & Y & _). rewrite X, Y. reflexivity.
    + constructor; [exists d0; auto|exact B].
Qed.

(** C14: a struct's descriptor has exactly one element per encoded field, in
    declaration order, carrying that field's index and name, and the struct's
    type name; each element otherwise is the field codec's own descriptor *)
Theorem struct_descriptor_fields : forall nm n fs d, descriptor_of (CStruct nm n fs) = Ok d ->
  d_type d = FTStruct /\ d_typename d = nm /\ d_explicit d = false /\
  map (fun e => (d_index e, d_name e)) (d_elems d) = map (fun f => (f_index f, f_name f)) fs /\
  Forall2 (fun f e => exists d0, descriptor_of (f_codec f) = Ok d0 /\ e = with_field (f_index f) (f_name f) d0) fs (d_elems d).
Proof.
  intros nm n fs d H. cbn [descriptor_of] in H. fold fields_descs in H.
  destruct (fields_descs fs) as [es| | | |] eqn:E; cbn [bind] in H; try discriminate.
  inversion H; subst. cbn [d_type d_typename d_explicit d_elems].
  destruct (fields_descs_spec fs es E) as [A B]. auto.
Qed.

(** the field type matches the wire encoding of the codec *)
Theorem descriptor_type_of_codec : forall c d, descriptor_of c = Ok d ->
  match c with
  | CBool => d_type d = FTBool
  | CInt _ => d_type d = FTInt
  | CUint _ => d_type d = FTUint
  | CFlat _ | CBQ => d_type d = FTFlatInt
  | CF32 => d_type d = FTFloat32
  | CF64 => d_type d = FTFloat64
  | CString | CBytes => d_type d = FTString
  | CTime _ => d_type d = FTTime /\ d_logical d = LTTimestamp
  | CStruct _ _ _ => d_type d = FTStruct
  | CSliceVar _ | CSliceFix _ | CSliceLen _ | CSliceProto _ => d_type d = FTSlice /\ length (d_elems d) = 1%nat
  | CMap _ _ | CMapProto _ _ => d_type d = FTSlice /\ d_logical d = LTMap
  | CJMap => d_type d = FTJSONObject
  | CJArr => d_type d = FTJSONArray
  | _ => True
  end.
Proof.
  intros c d H. destruct c; cbn [descriptor_of] in H; try (inversion H; subst; cbn; auto; fail); auto.
  - match type of H with (do es <- ?X; _) = _ => destruct X as [es| | | |] end; cbn [bind] in H; try discriminate.
    inversion H; reflexivity.
  - destruct (descriptor_of c) as [d0| | | |]; cbn [bind] in H; try discriminate. inversion H; subst. cbn. auto.
  - destruct (descriptor_of c) as [d0| | | |]; cbn [bind] in H; try discriminate. inversion H; subst. cbn. auto.
  - destruct (descriptor_of c) as [d0| | | |]; cbn [bind] in H; try discriminate. inversion H; subst. cbn. auto.
  - destruct (descriptor_of c) as [d0| | | |]; cbn [bind] in H; try discriminate. inversion H; subst. cbn. auto.
  - destruct (descriptor_of c1) as [d1| | | |]; cbn [bind] in H; try discriminate.
    destruct (descriptor_of c2) as [d2| | | |]; cbn [bind] in H; try discriminate. inversion H; subst. cbn. auto.
  - destruct (descriptor_of c1) as [d1| | | |]; cbn [bind] in H; try discriminate.
    destruct (descriptor_of c2) as [d2| | | |]; cbn [bind] in H; try discriminate. inversion H; subst. cbn. auto.
Qed.

(** C14 (refuted part): the descriptor of a recursive type is never produced *)
Theorem recursive_descriptor_refuted :
  exists c, (forall d, descriptor_of c <> Ok d) /\ descriptor_of c = Hang "StructCodec.Descriptor recursion".
Proof.
  exists (CStruct [] 1 [mkfld 0 1 [] (CSliceLen CBottom)]). split; [intros d H; discriminate H|reflexivity].
Qed.

(** ** C13: the walk of a scalar's encoding emits that scalar *)

Lemma app_nil_varuint v : append_varuint v = append_varuint v ++ [].
Proof. rewrite app_nil_r. reflexivity. Qed.

Theorem walk_int : forall b z d, descriptor_of (CInt b) = Ok d -> int64_ok z ->
  walk d (enc (CInt b) (VInt z) []) = wok [EvInt z] (len (append_varint z)).
Proof.
  intros b z d H Hz. inversion H; subst. cbn [enc app].
  unfold walk, simple, walk_scalar, d_type, FTInt. cbn [N.eqb].
  unfold append_varint. rewrite app_nil_varuint, read_append_varuint by (apply zigzag_range; exact Hz).
  pose proof (append_varuint_length_bounds (zigzag z)).
  replace (Z.of_N (len (append_varuint (zigzag z))) <? 0)%Z with false by (symmetry; apply Z.ltb_ge; lia).
  rewrite zagzig_zigzag by exact Hz. rewrite N2Z.id, ?app_nil_r. reflexivity.
Qed.

Theorem walk_uint : forall b u d, descriptor_of (CUint b) = Ok d -> u < two64 ->
  walk d (enc (CUint b) (VInt (Z.of_N u)) []) = wok [EvUint u] (len (append_varuint u)).
Proof.
  intros b u d H Hu. inversion H; subst. cbn [enc app].
  assert (E : u64 (Z.of_N u) = u).
  { unfold u64, two64Z. unfold two64 in Hu. rewrite Z.mod_small by lia. lia. }
  rewrite E.
  unfold walk, simple, walk_scalar, d_type, FTUint, FTInt, FTFlatInt. cbn [N.eqb Pos.eqb].
  rewrite app_nil_varuint, read_append_varuint by exact Hu.
  pose proof (append_varuint_length_bounds u).
  replace (Z.of_N (len (append_varuint u)) <? 0)%Z with false by (symmetry; apply Z.ltb_ge; lia).
  rewrite N2Z.id, ?app_nil_r. reflexivity.
Qed.

Theorem walk_string : forall s d, descriptor_of CString = Ok d ->
  walk d (enc CString (VStr s) []) = wok [EvStr s] (len s).
Proof. intros s d H. inversion H; subst. reflexivity. Qed.

Theorem walk_bool : forall b d, descriptor_of CBool = Ok d ->
  walk d (enc CBool (VBool b) []) = wok [EvBool b] 1.
Proof. intros b d H. inversion H; subst. destruct b; reflexivity. Qed.
