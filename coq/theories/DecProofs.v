(** C04: decoding arbitrary bytes is total (main theorem; see DecBase.v for the
    statement's definitions and JsonDecProofs.v for the JSON codecs). *)
From Plenc Require Import Base Varint Wire VarintProofs WireProofs JsonAny Codec SizeProofs DecBase JsonDecProofs.
Open Scope N_scope.

(** ** the struct loop *)

Lemma struct_loop_safe tbl d :
  Forall (fun e => dsafe d (snd e)) tbl ->
  forall fuel rest consumed cur, (length rest < fuel)%nat -> (length rest <= d)%nat ->
  match struct_loop tbl fuel rest consumed cur with
  | Ok (_, n) => n = consumed + len rest
  | Err => True
  | _ => False
  end.
Proof.
  intros Htbl. induction fuel as [|f IH]; intros rest consumed cur Hf Hd; [llia|].
  destruct rest as [|b0 rest0]; [cbn [struct_loop]; rewrite len_nil; llia|].
  cbn [struct_loop]. remember (b0 :: rest0) as rest eqn:Er.
  destruct (read_tag rest) as [[wt index] n] eqn:Et.
  pose proof (read_tag_n _ _ _ _ Et) as Hn.
  destruct (n <=? 0)%Z eqn:Hn0; [exact I|]. apply Z.leb_gt in Hn0.
  destruct (go_drop_good "StructCodec.Read data[offset:]" (Z.to_N n) rest ltac:(llia)) as (rest1 & E1 & L1 & LL1).
  rewrite E1. cbn [bind].
  assert (Hlen1 : (length rest1 < length rest)%nat) by llia.
  destruct (find_field tbl index) as [[sl decf]|] eqn:Ef.
  - destruct (find_field_In _ _ _ _ Ef) as [i Hin].
    assert (Hdec : dsafe d decf) by (rewrite Forall_forall in Htbl; apply (Htbl _ Hin)).
    pose proof (read_field_data_safe "StructCodec.Read data[offset:fl]" wt rest1) as Hfd0.
    destruct (read_field_data "StructCodec.Read data[offset:fl]" wt rest1) as [[[fdata rest2] k]| | | |]; cbn [bind] in *; try contradiction; [|exact I].
    destruct Hfd0 as (Hk & L2 & L3 & LL3 & LL2).
    assert (Hfd : (length fdata < d)%nat) by llia.
    specialize (Hdec fdata wt (slot cur sl) Hfd).
    destruct (decf fdata wt (slot cur sl)) as [[fv used]| | | |]; cbn [good bind] in *; try contradiction; [|exact I].
    destruct (go_drop_good "StructCodec.Read data[offset:]" used rest2 ltac:(llia)) as (rest3 & E4 & L4 & LL4).
    rewrite E4. cbn [bind].
    specialize (IH rest3 (consumed + Z.to_N n + k + used) (set_nth sl fv cur) ltac:(llia) ltac:(llia)).
    destruct (struct_loop tbl f rest3 _ _) as [[vs m]| | | |]; auto. llia.
  - pose proof (skip_total rest1 wt) as T. pose proof (skip_bounded rest1 wt) as B.
    destruct (skip rest1 wt) as [k| | | |]; cbn [bind is_ok_or_err] in *; try contradiction; [|exact I].
    specialize (B k eq_refl).
    destruct (go_drop_good "StructCodec.Read data[offset:]" k rest1 B) as (rest2 & E2 & L2 & LL2).
    rewrite E2. cbn [bind].
    specialize (IH rest2 (consumed + Z.to_N n + k) cur ltac:(llia) ltac:(llia)).
    destruct (struct_loop tbl f rest2 _ _) as [[vs m]| | | |]; auto. llia.
Qed.

(** ** the time loop *)

Lemma time_loop_safe compat :
  forall fuel rest consumed sec nsec, (length rest < fuel)%nat ->
  match time_loop compat fuel rest consumed sec nsec with
  | Ok (_, _, n) => n = consumed + len rest
  | Err => True
  | _ => False
  end.
Proof.
  induction fuel as [|f IH]; intros rest consumed sec nsec Hf; [llia|].
  destruct rest as [|b0 rest0]; [cbn [time_loop]; rewrite len_nil; llia|].
  cbn [time_loop]. remember (b0 :: rest0) as rest eqn:Er.
  destruct (read_tag rest) as [[wt index] n] eqn:Et.
  pose proof (read_tag_n _ _ _ _ Et) as Hn.
  destruct (n <=? 0)%Z eqn:Hn0; [exact I|]. apply Z.leb_gt in Hn0.
  destruct (go_drop_good "TimeCodec.Read data[offset:]" (Z.to_N n) rest ltac:(llia)) as (rest1 & E1 & L1 & LL1).
  rewrite E1. cbn [bind].
  destruct ((index =? 1) || (index =? 2))%Z.
  - destruct (read_varuint rest1) as [u k] eqn:Ev.
    pose proof (read_varuint_n _ _ _ Ev) as Hk.
    destruct (k <? 0)%Z eqn:Hk0; [exact I|]. apply Z.ltb_ge in Hk0.
    destruct (go_drop_good "TimeCodec.Read data[offset:]" (Z.to_N k) rest1 ltac:(llia)) as (rest2 & E2 & L2 & LL2).
    rewrite E2. cbn [bind].
    destruct (index =? 1)%Z.
    + specialize (IH rest2 (consumed + Z.to_N n + Z.to_N k) (if compat then s64 u else zagzig u) nsec ltac:(llia)).
      destruct (time_loop compat f rest2 _ _ _) as [[[s1 n1] m]| | | |]; auto. llia.
    + specialize (IH rest2 (consumed + Z.to_N n + Z.to_N k) sec (if compat then sbits 32 u else sbits 32 (u64 (zagzig u))) ltac:(llia)).
      destruct (time_loop compat f rest2 _ _ _) as [[[s1 n1] m]| | | |]; auto. llia.
  - pose proof (skip_total rest1 wt) as T. pose proof (skip_bounded rest1 wt) as B.
    destruct (skip rest1 wt) as [k| | | |]; cbn [bind is_ok_or_err] in *; try contradiction; [|exact I].
    specialize (B k eq_refl).
    destruct (go_drop_good "TimeCodec.Read data[offset:]" k rest1 B) as (rest2 & E2 & L2 & LL2).
    rewrite E2. cbn [bind].
    specialize (IH rest2 (consumed + Z.to_N n + k) sec nsec ltac:(llia)).
    destruct (time_loop compat f rest2 _ _ _) as [[[s1 n1] m]| | | |]; auto. llia.
Qed.

(** ** slice loops *)

Lemma count_varints_safe : forall fuel rest count, (length rest < fuel)%nat ->
  match count_varints fuel rest count with
  | Ok k => k <= count + len rest
  | Err => True
  | _ => False
  end.
Proof.
  induction fuel as [|f IH]; intros rest count Hf; [llia|].
  destruct rest as [|b0 rest0]; [cbn; llia|].
  cbn [count_varints]. remember (b0 :: rest0) as rest eqn:Er.
  destruct (read_varuint rest) as [v n] eqn:Ev.
  pose proof (read_varuint_n _ _ _ Ev) as Hn.
  destruct (n <=? 0)%Z eqn:Hn0; [exact I|]. apply Z.leb_gt in Hn0.
  destruct (go_drop_good "WTVarIntSliceWrapper.Read data[offset:]" (Z.to_N n) rest ltac:(llia)) as (rest1 & E1 & L1 & LL1).
  rewrite E1. cbn [bind].
  specialize (IH rest1 (count + 1) ltac:(llia)).
  destruct (count_varints f rest1 (count + 1)); auto. llia.
Qed.

Lemma read_elems_safe decf d wt z : dsafe d decf ->
  forall fuel count rest consumed acc, (N.to_nat count <= fuel)%nat -> (length rest < d)%nat ->
  match read_elems decf wt z fuel count rest consumed acc with
  | Ok (_, n) => n <= consumed + len rest
  | Err => True
  | _ => False
  end.
Proof.
  intros Hdec. induction fuel as [|f IH]; intros count rest consumed acc Hc Hd; cbn [read_elems].
  - replace (count =? 0) with true by (symmetry; apply N.eqb_eq; llia). llia.
  - destruct (count =? 0) eqn:E0; [llia|]. apply N.eqb_neq in E0.
    specialize (Hdec rest wt z Hd).
    destruct (decf rest wt z) as [[x used]| | | |]; cbn [good bind] in *; try contradiction; [|exact I].
    destruct (go_drop_good "SliceWrapper.Read data[offset:]" used rest Hdec) as (rest1 & E1 & L1 & LL1).
    rewrite E1. cbn [bind].
    specialize (IH (count - 1) rest1 (consumed + used) (x :: acc) ltac:(llia) ltac:(llia)).
    destruct (read_elems decf wt z f (count - 1) rest1 _ _) as [[l m]| | | |]; auto. llia.
Qed.

Lemma read_framed_elems_safe decf d z : dsafe d decf ->
  forall fuel count rest consumed acc, (N.to_nat count <= fuel)%nat -> (length rest <= d)%nat ->
  match read_framed_elems decf z fuel count rest consumed acc with
  | Ok (_, n) => n <= consumed + len rest
  | Err => True
  | _ => False
  end.
Proof.
  intros Hdec. induction fuel as [|f IH]; intros count rest consumed acc Hc Hd; cbn [read_framed_elems].
  - replace (count =? 0) with true by (symmetry; apply N.eqb_eq; llia). llia.
  - destruct (count =? 0) eqn:E0; [llia|]. apply N.eqb_neq in E0.
    destruct (read_varuint rest) as [s n] eqn:Ev.
    pose proof (read_varuint_n _ _ _ Ev) as Hn.
    destruct (n <=? 0)%Z eqn:Hn0; [exact I|]. apply Z.leb_gt in Hn0.
    destruct (go_drop_good "WTLengthSliceWrapper.Read data[offset:]" (Z.to_N n) rest ltac:(llia)) as (rest1 & E1 & L1 & LL1).
    rewrite E1. cbn [bind].
    destruct (len rest1 <? s) eqn:Hs; [exact I|]. apply N.ltb_ge in Hs.
    destruct (go_take_good "WTLengthSliceWrapper.Read data[offset:offset+s]" s rest1 Hs) as (edata & E2 & L2 & LL2).
    rewrite E2. cbn [bind].
    assert (Hed : (length edata < d)%nat) by (unfold len in *; llia).
    specialize (Hdec edata WTLength z Hed).
    destruct (decf edata WTLength z) as [[x used]| | | |]; cbn [good bind] in *; try contradiction; [|exact I].
    destruct (go_drop_good "WTLengthSliceWrapper.Read data[offset:]" used rest1 ltac:(llia)) as (rest2 & E3 & L3 & LL3).
    rewrite E3. cbn [bind].
    specialize (IH (count - 1) rest2 (consumed + Z.to_N n + used) (x :: acc) ltac:(llia) ltac:(llia)).
    destruct (read_framed_elems decf z f (count - 1) rest2 _ _) as [[l m]| | | |]; auto. llia.
Qed.

(** ** maps *)

Lemma read_tag_and_length_safe rest :
  match read_tag_and_length rest with
  | Ok (wt, index, fdata, after, hdr) =>
    0 < hdr /\ hdr <= len rest /\ len after = len rest - hdr /\ len fdata <= len after
    /\ (length fdata <= length after)%nat /\ (length after < length rest)%nat
  | Err => True
  | _ => False
  end.
Proof.
  unfold read_tag_and_length.
  destruct (read_tag rest) as [[wt index] n] eqn:Et.
  pose proof (read_tag_n _ _ _ _ Et) as Hn.
  destruct (n <=? 0)%Z eqn:Hn0; [exact I|]. apply Z.leb_gt in Hn0.
  destruct (go_drop_good "MapCodec.readTagAndLength data[offset:]" (Z.to_N n) rest ltac:(llia)) as (rest1 & E1 & L1 & LL1).
  rewrite E1. cbn [bind].
  pose proof (read_field_data_safe "MapCodec.readTagAndLength data[offset:fieldEnd]" wt rest1) as Hfd0.
  destruct (read_field_data "MapCodec.readTagAndLength data[offset:fieldEnd]" wt rest1) as [[[fdata rest2] k]| | | |]; cbn [bind] in *; try contradiction; [|exact I].
  destruct Hfd0 as (Hk & L2 & L3 & LL3 & LL2). repeat split; llia.
Qed.

Lemma read_map_entry_safe kdec vdec d kz vz :
  dsafe d kdec -> dsafe d vdec ->
  forall data m, (length data <= d)%nat ->
  good (read_map_entry kdec vdec kz vz data m) (len data).
Proof.
  intros Hk Hv data m Hd. unfold read_map_entry.
  destruct data as [|b0 data0]; [cbn; llia|].
  set (data := b0 :: data0) in *.
  pose proof (read_tag_and_length_safe data) as H1.
  destruct (read_tag_and_length data) as [[[[[wt index] fdata] after] hdr]| | | |]; cbn [bind good] in *; try contradiction; [|exact I].
  destruct H1 as (Hh0 & Hh & La & Lf & LLf & LLa).
  destruct (index =? 1)%Z.
  - specialize (Hk fdata wt kz ltac:(llia)).
    destruct (kdec fdata wt kz) as [[kv used]| | | |]; cbn [good bind] in *; try contradiction; [|exact I].
    destruct (go_drop_good "MapCodec.readMapEntry data[offset:]" used after ltac:(llia)) as (rest1 & E1 & L1 & LL1).
    rewrite E1. cbn [bind].
    destruct rest1 as [|c0 rest10]; [cbn [good]; llia|].
    set (rest1 := c0 :: rest10) in *.
    pose proof (read_tag_and_length_safe rest1) as H2.
    destruct (read_tag_and_length rest1) as [[[[[wt2 index2] fdata2] after2] hdr2]| | | |]; cbn [bind good] in *; try contradiction; [|exact I].
    destruct H2 as (Hh02 & Hh2 & La2 & Lf2 & LLf2 & LLa2).
    specialize (Hv fdata2 wt2 (match map_lookup kv m with Some x => x | None => vz end) ltac:(llia)).
    destruct (vdec fdata2 wt2 _) as [[vv used2]| | | |]; cbn [good bind] in *; try contradiction; [|exact I].
    llia.
  - specialize (Hv fdata wt (match map_lookup kz m with Some x => x | None => vz end) ltac:(llia)).
    destruct (vdec fdata wt _) as [[vv used]| | | |]; cbn [good bind] in *; try contradiction; [|exact I].
    llia.
Qed.

Lemma map_entries_safe kdec vdec d kz vz :
  dsafe d kdec -> dsafe d vdec ->
  forall fuel count rest consumed m, (N.to_nat count <= fuel)%nat -> (length rest <= d)%nat ->
  match map_entries kdec vdec kz vz fuel count rest consumed m with
  | Ok (_, n) => n <= consumed + len rest
  | Err => True
  | _ => False
  end.
Proof.
  intros Hk Hv. induction fuel as [|f IH]; intros count rest consumed m Hc Hd; cbn [map_entries].
  - replace (count =? 0) with true by (symmetry; apply N.eqb_eq; llia). llia.
  - destruct (count =? 0) eqn:E0; [llia|]. apply N.eqb_neq in E0.
    destruct (read_varuint rest) as [el n] eqn:Ev.
    pose proof (read_varuint_n _ _ _ Ev) as Hn.
    destruct (n <=? 0)%Z eqn:Hn0; [exact I|]. apply Z.leb_gt in Hn0.
    destruct (go_drop_good "MapCodec.Read data[offset:]" (Z.to_N n) rest ltac:(llia)) as (rest1 & E1 & L1 & LL1).
    rewrite E1. cbn [bind].
    destruct (len rest1 <? el) eqn:Hs; [exact I|]. apply N.ltb_ge in Hs.
    destruct (go_take_good "MapCodec.Read data[offset:offset+entryLength]" el rest1 Hs) as (edata & E2 & L2 & LL2).
    rewrite E2. cbn [bind].
    pose proof (read_map_entry_safe kdec vdec d kz vz Hk Hv edata m ltac:(unfold len in *; llia)) as He.
    destruct (read_map_entry kdec vdec kz vz edata m) as [[m' used]| | | |]; cbn [good bind] in *; try contradiction; [|exact I].
    destruct (go_drop_good "MapCodec.Read data[offset:]" used rest1 ltac:(llia)) as (rest2 & E3 & L3 & LL3).
    rewrite E3. cbn [bind].
    specialize (IH (count - 1) rest2 (consumed + Z.to_N n + used) m' ltac:(llia) ltac:(llia)).
    destruct (map_entries kdec vdec kz vz f (count - 1) rest2 _ _) as [[mm k]| | | |]; auto. llia.
Qed.

(** ** scalars *)

Lemma read_scalar_good data k : good (read_scalar_varuint data k) (len data).
Proof.
  unfold read_scalar_varuint. destruct (read_varuint data) as [u n] eqn:E.
  pose proof (read_varuint_n _ _ _ E). destruct (n <? 0)%Z eqn:Hn; [exact I|]. apply Z.ltb_ge in Hn. cbn. llia.
Qed.

(** ** the main theorem *)

Theorem dec_total : forall c d, okd d c -> dsafe d (dec c).
Proof.
  induction c as [ |b|b|b| | | | |compat| |c IH|c IH|nm n fs IH|c IH|c IH|c IH|c IH|kc vc IHk IHv|kc vc IHk IHv| | | ]
    using codec_ind'; intros d Hok data wt prior Hd; cbn [dec].
  - apply read_scalar_good.
  - apply read_scalar_good.
  - apply read_scalar_good.
  - apply read_scalar_good.
  - (* CF32 *) destruct (len data <? 4) eqn:E.
    + destruct data; cbn; [llia|exact I].
    + apply N.ltb_ge in E. cbn. llia.
  - destruct (len data <? 8) eqn:E.
    + destruct data; cbn; [llia|exact I].
    + apply N.ltb_ge in E. cbn. llia.
  - cbn. llia.
  - cbn. llia.
  - (* CTime *) destruct data as [|b0 data0]; [cbn; llia|].
    set (dd := b0 :: data0) in *.
    pose proof (time_loop_safe compat (S (length dd)) dd 0 0%Z 0%Z ltac:(llia)) as H.
    destruct (time_loop compat (S (length dd)) dd 0 0%Z 0%Z) as [[[s ns] used]| | | |]; cbn [bind good] in *; try contradiction; [llia|exact I].
  - apply read_scalar_good.
  - (* CNull *) cbn [okd] in Hok. specialize (IH d Hok data wt (zero c) Hd).
    destruct (dec c data wt (zero c)) as [[v used]| | | |]; cbn [bind good] in *; auto.
  - (* CPtr *) cbn [okd] in Hok.
    specialize (IH d Hok data wt (match prior with VPtr (Some p) => p | _ => zero c end) Hd).
    destruct (dec c data wt _) as [[v used]| | | |]; cbn [bind good] in *; auto.
  - (* CStruct *)
    destruct d as [|d']; [llia|].
    pose proof (okd_struct_fields _ _ _ _ Hok) as Hfs.
    set (tbl := map (fun f => (f_index f, f_slot f, dec (f_codec f))) fs).
    assert (Htbl : Forall (fun e => dsafe d' (snd e)) tbl).
    { unfold tbl. apply Forall_forall. intros e He. apply in_map_iff in He. destruct He as (f & <- & Hin). cbn [snd].
      rewrite Forall_forall in IH, Hfs. apply (IH f Hin). apply (Hfs f Hin). }
    pose proof (struct_loop_safe tbl d' Htbl (S (length data)) data 0
                  (match prior with VStruct vs => vs | _ => struct_fields (zero (CStruct nm n fs)) end) ltac:(llia) ltac:(llia)) as H.
    destruct (struct_loop tbl (S (length data)) data 0 _) as [[vs used]| | | |]; cbn [bind good] in *; try contradiction; [llia|exact I].
  - (* CSliceVar *) cbn [okd] in Hok.
    pose proof (count_varints_safe (S (length data)) data 0 ltac:(llia)) as Hc.
    destruct (count_varints (S (length data)) data 0) as [count| | | |]; cbn [bind good] in *; try contradiction; [|exact I].
    unfold alloc_guard. replace (count <=? len data) with true by (symmetry; apply N.leb_le; llia). cbn [bind].
    pose proof (read_elems_safe (dec c) d WTVarInt (zero c) (IH d Hok) (S (length data)) count data 0 [] ltac:(unfold len in *; llia) Hd) as H.
    destruct (read_elems (dec c) WTVarInt (zero c) (S (length data)) count data 0 []) as [[l used]| | | |]; cbn [bind good] in *; try contradiction; [llia|exact I].
  - (* CSliceFix *) cbn [okd] in Hok. destruct Hok as [Hw Hok].
    replace (fixed_width c =? 0) with false by (symmetry; apply N.eqb_neq; exact Hw).
    assert (Hcnt : len data / fixed_width c <= len data) by (apply N.div_le_upper_bound; [exact Hw|]; nia).
    unfold alloc_guard. replace (len data / fixed_width c <=? len data) with true by (symmetry; apply N.leb_le; exact Hcnt). cbn [bind].
    pose proof (read_elems_safe (dec c) d (wire c) (zero c) (IH d Hok) (S (length data)) (len data / fixed_width c) data 0 [] ltac:(unfold len in *; llia) Hd) as H.
    destruct (read_elems (dec c) (wire c) (zero c) (S (length data)) _ data 0 []) as [[l used]| | | |]; cbn [bind good] in *; try contradiction; [llia|exact I].
  - (* CSliceLen *) cbn [okd] in Hok.
    destruct (wt =? WTLength).
    + specialize (IH d Hok data WTLength (zero c) Hd).
      destruct (dec c data WTLength (zero c)) as [[x used]| | | |]; cbn [bind good] in *; auto.
    + destruct (read_varuint data) as [count n] eqn:Ev.
      pose proof (read_varuint_n _ _ _ Ev) as Hn.
      destruct (n <? 0)%Z eqn:Hn0; [exact I|]. apply Z.ltb_ge in Hn0.
      destruct (len data - Z.to_N n <? count) eqn:Hc; [exact I|]. apply N.ltb_ge in Hc.
      destruct (go_drop_good "WTLengthSliceWrapper.Read data[offset:]" (Z.to_N n) data ltac:(llia)) as (rest & E1 & L1 & LL1).
      rewrite E1. cbn [bind].
      unfold alloc_guard. replace (count <=? len rest) with true by (symmetry; apply N.leb_le; llia). cbn [bind].
      pose proof (read_framed_elems_safe (dec c) d (zero c) (IH d Hok) (S (length data)) count rest (Z.to_N n) [] ltac:(unfold len in *; llia) ltac:(llia)) as H.
      destruct (read_framed_elems (dec c) (zero c) (S (length data)) count rest (Z.to_N n) []) as [[l used]| | | |]; cbn [bind good] in *; try contradiction; [llia|exact I].
  - (* CSliceProto *) cbn [okd] in Hok.
    specialize (IH d Hok data WTLength (zero c) Hd).
    destruct (dec c data WTLength (zero c)) as [[x used]| | | |]; cbn [bind good] in *; auto.
  - (* CMap *) cbn [okd] in Hok. destruct Hok as [Hkk Hvv].
    destruct data as [|b0 data0]; [cbn; llia|].
    set (dd := b0 :: data0) in *.
    destruct (read_varuint dd) as [count n] eqn:Ev.
    pose proof (read_varuint_n _ _ _ Ev) as Hn.
    destruct (n <=? 0)%Z eqn:Hn0; [exact I|]. apply Z.leb_gt in Hn0.
    destruct (len dd - Z.to_N n <? count) eqn:Hc; [exact I|]. apply N.ltb_ge in Hc.
    destruct (go_drop_good "MapCodec.Read data[offset:]" (Z.to_N n) dd ltac:(llia)) as (rest & E1 & L1 & LL1).
    rewrite E1. cbn [bind].
    unfold alloc_guard. replace (count <=? len rest) with true by (symmetry; apply N.leb_le; llia). cbn [bind].
    pose proof (map_entries_safe (dec kc) (dec vc) d (zero kc) (zero vc) (IHk d Hkk) (IHv d Hvv) (S (length dd)) count rest (Z.to_N n)
                  (match prior with VMap (Some m) => m | _ => [] end) ltac:(unfold len in *; llia) ltac:(llia)) as H.
    destruct (map_entries (dec kc) (dec vc) (zero kc) (zero vc) (S (length dd)) count rest (Z.to_N n) _) as [[m' used]| | | |]; cbn [bind good] in *; try contradiction; [llia|exact I].
  - (* CMapProto *) cbn [okd] in Hok. destruct Hok as [Hkk Hvv].
    pose proof (read_map_entry_safe (dec kc) (dec vc) d (zero kc) (zero vc) (IHk d Hkk) (IHv d Hvv) data
                  (match prior with VMap (Some m) => m | _ => [] end) ltac:(llia)) as H.
    destruct (read_map_entry (dec kc) (dec vc) (zero kc) (zero vc) data _) as [[m' used]| | | |]; cbn [bind good] in *; auto.
  - apply (json_dec_total data wt prior).
  - apply (json_dec_total data wt prior).
  - cbn [okd] in Hok. llia.
Qed.

(** a tree without the unfolding limit is good for inputs of every length *)
Fixpoint nobottom (c : codec) : bool :=
  match c with
  | CBottom => false
  | CNull c' | CPtr c' | CSliceVar c' | CSliceLen c' | CSliceProto c' => nobottom c'
  | CSliceFix c' => negb (fixed_width c' =? 0) && nobottom c'
  | CMap k v | CMapProto k v => nobottom k && nobottom v
  | CStruct _ _ fs => forallb (fun f => nobottom (f_codec f)) fs
  | _ => true
  end.

Lemma nobottom_okd : forall c, nobottom c = true -> forall d, okd d c.
Proof.
  induction c as [ |b|b|b| | | | |compat| |c IH|c IH|nm n fs IH|c IH|c IH|c IH|c IH|kc vc IHk IHv|kc vc IHk IHv| | | ]
    using codec_ind'; intros H d; cbn [okd nobottom] in *; try exact I; try discriminate; auto.
  - destruct d; [exact I|]. induction fs as [|f r IHr]; [exact I|].
    cbn [forallb] in H. apply andb_true_iff in H. destruct H as [Hf Hr].
    inversion IH as [|? ? If Ir]; subst. split; [apply If; exact Hf|apply IHr; assumption].
  - apply andb_true_iff in H. destruct H as [Hw Hc]. split; [|apply IH; exact Hc].
    apply negb_true_iff in Hw. apply N.eqb_neq. exact Hw.
  - apply andb_true_iff in H. destruct H. split; auto.
  - apply andb_true_iff in H. destruct H. split; auto.
Qed.

Corollary dec_total_nobottom : forall c data wt prior, nobottom c = true ->
  good (dec c data wt prior) (len data).
Proof.
  intros c data wt prior H. apply (dec_total c (S (length data)) (nobottom_okd c H (S (length data)))). llia.
Qed.
