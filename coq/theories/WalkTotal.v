(** C04 for the Descriptor walk: Descriptor.Read on arbitrary bytes returns
    success or an error - never a panic, a hang or an over-read - for every
    descriptor whose slice nodes carry their element descriptor (every
    descriptor plenc builds does). *)
From Plenc Require Import Base Varint Wire VarintProofs WireProofs JsonAny Codec SizeProofs DecBase
  JsonDecProofs DecProofs Descriptor.
Open Scope N_scope.

(** the outcome is Ok within the bound, or Err *)
Definition wgood (w : wres) (bound : N) : Prop :=
  match w_out w with Ok n => n <= bound | Err => True | _ => False end.
(** ... for the loops: everything that was left is consumed *)
Definition wexact (w : wres) (total : N) : Prop :=
  match w_out w with Ok n => n = total | Err => True | _ => False end.

Lemma wexact_good w total bound : total <= bound -> wexact w total -> wgood w bound.
Proof. unfold wexact, wgood. destruct (w_out w); auto. intros H ->. exact H. Qed.

(** ** scalar leaves *)
Lemma walk_scalar_good d data w : walk_scalar d data = Some w -> wgood w (len data).
Proof.
  unfold walk_scalar.
  assert (Hvar : forall (kerr : ev) (k : N -> ev),
            wgood (let '(u, n) := read_varuint data in if (n <? 0)%Z then mkw [kerr] Err else wok [k u] (Z.to_N n)) (len data)).
  { intros kerr k. destruct (read_varuint data) as [u n] eqn:Ev. pose proof (read_varuint_n _ _ _ Ev) as Hn.
    destruct (n <? 0)%Z eqn:E; [exact I|]. apply Z.ltb_ge in E. unfold wgood, wok. cbn [w_out]. llia. }
  destruct (d_type d =? FTInt); [intros H; injection H as <-; apply Hvar|].
  destruct (d_type d =? FTFlatInt).
  { intros H; injection H as <-. destruct (d_logical d =? LTTimestamp); apply Hvar. }
  destruct (d_type d =? FTUint); [intros H; injection H as <-; apply Hvar|].
  destruct (d_type d =? FTBool); [intros H; injection H as <-; apply Hvar|].
  destruct (d_type d =? FTFloat32).
  { intros H; injection H as <-. destruct (len data <? 4) eqn:E.
    - destruct data; unfold wgood, wok; cbn [w_out]; [rewrite len_nil; lia|exact I].
    - apply N.ltb_ge in E. unfold wgood, wok. cbn [w_out]. exact E. }
  destruct (d_type d =? FTFloat64).
  { intros H; injection H as <-. destruct (len data <? 8) eqn:E.
    - destruct data; unfold wgood, wok; cbn [w_out]; [rewrite len_nil; lia|exact I].
    - apply N.ltb_ge in E. unfold wgood, wok. cbn [w_out]. exact E. }
  destruct (d_type d =? FTString); [intros H; injection H as <-; unfold wgood, wok; cbn [w_out]; lia|].
  destruct (d_type d =? FTTime); [|discriminate].
  intros H. remember (S (length data)) as fuel eqn:Ef. injection H as <-.
  destruct data as [|b0 r0]; [unfold wgood, wok; cbn [w_out]; lia|].
  pose proof (time_loop_safe false fuel (b0 :: r0) 0 0%Z 0%Z ltac:(lia)) as T.
  destruct (time_loop false fuel (b0 :: r0) 0 0%Z 0%Z) as [[[s ns] used]| | | |]; try contradiction.
  - unfold time_norm. unfold wgood. cbn [w_out wok]. rewrite T. lia.
  - exact I.
Qed.

(** ** the JSON walk *)
Lemma wentries_safe kv B :
  (forall body, (length body < B)%nat -> wgood (kv body) (len body)) ->
  forall k cnt rest consumed acc, (length rest < k)%nat -> (length rest <= B)%nat ->
  match w_out (wentries kv k cnt rest consumed acc) with
  | Ok n => n <= consumed + len rest
  | Err => True
  | _ => False
  end.
Proof.
  intros Hkv. induction k as [|k IH]; intros cnt rest consumed acc Hc Hb; [lia|].
  cbn [wentries]. destruct (cnt =? 0) eqn:E0; [cbn [w_out wok]; lia|].
  destruct (read_varuint rest) as [s m] eqn:Ev. pose proof (read_varuint_n _ _ _ Ev) as Hm.
  destruct (m <=? 0)%Z eqn:Hm0; [exact I|]. apply Z.leb_gt in Hm0.
  destruct (go_drop_good "readAsJSON" (Z.to_N m) rest ltac:(llia)) as (r1 & E1 & L1 & LL1). rewrite E1.
  destruct (s =? 0).
  { specialize (IH (cnt - 1) r1 (consumed + Z.to_N m) acc ltac:(llia) ltac:(llia)).
    destruct (w_out (wentries kv k (cnt - 1) r1 _ acc)); auto. llia. }
  destruct (len r1 <? s) eqn:Hl; [exact I|]. apply N.ltb_ge in Hl.
  destruct (go_take_good "readAsJSON" s r1 Hl) as (body & E2 & L2 & LL2). rewrite E2. cbv zeta.
  specialize (Hkv body ltac:(llia)). unfold wgood in Hkv.
  destruct (w_out (kv body)) as [used| | | |] eqn:Ew; try contradiction; [|exact I].
  destruct (go_drop_good "readAsJSON" used r1 ltac:(lia)) as (r2 & E3 & L3 & LL3). rewrite E3.
  specialize (IH (cnt - 1) r2 (consumed + Z.to_N m + used) (acc ++ w_ev (kv body)) ltac:(llia) ltac:(llia)).
  destruct (w_out (wentries kv k (cnt - 1) r2 _ _)); auto. llia.
Qed.

Definition wkv_ok (fuel : nat) : Prop :=
  forall rest consumed jt have acc, (2 * length rest < fuel)%nat ->
  wexact (walk_jkv fuel rest consumed jt have acc) (consumed + len rest).
Definition wjson_ok (fuel : nat) : Prop :=
  forall isobj data, (2 * length data + 1 < fuel)%nat -> wgood (walk_json fuel isobj data) (len data).

Lemma json_walk_ok : forall fuel, wkv_ok fuel /\ wjson_ok fuel.
Proof.
  induction fuel as [|f [IHkv IHjs]].
  - split; intros *; intros H; lia.
  - split.
    + intros rest consumed jt have acc Hf.
      destruct rest as [|b0 rest0]; [cbn [walk_jkv]; unfold wexact, wok; cbn [w_out]; rewrite len_nil; lia|].
      cbn [walk_jkv]. remember (b0 :: rest0) as rest eqn:Er.
      destruct (read_tag rest) as [[wt index] n] eqn:Et.
      pose proof (read_tag_n _ _ _ _ Et) as Hn.
      destruct (n <=? 0)%Z eqn:Hn0; [exact I|]. apply Z.leb_gt in Hn0.
      destruct (go_drop_good "readJSONObjectKV" (Z.to_N n) rest ltac:(llia)) as (rest1 & E1 & L1 & LL1).
      rewrite E1.
      assert (Hr1 : (length rest1 < length rest)%nat) by llia.
      assert (Hcont : forall r2 c2 j2 h2 a2, (length r2 <= length rest1)%nat -> c2 + len r2 = consumed + len rest ->
                wexact (walk_jkv f r2 c2 j2 h2 a2) (consumed + len rest)).
      { intros r2 c2 j2 h2 a2 Hl Hc. specialize (IHkv r2 c2 j2 h2 a2 ltac:(lia)). rewrite <- Hc. exact IHkv. }
      assert (Hchunk : forall (site : string) (k : bytes -> list ev) h2,
                wexact (match read_chunk site rest1 with
                        | Ok (body, r1, kk) =>
                          match go_drop site (len body) r1 with
                          | Ok r2 => walk_jkv f r2 (consumed + Z.to_N n + kk + len body) jt h2 (acc ++ k body)
                          | r => wfail acc r
                          end
                        | r => wfail acc r
                        end) (consumed + len rest)).
      { intros site k h2. pose proof (read_chunk_safe site rest1) as Hc1.
        destruct (read_chunk site rest1) as [[[body r1] kk]| | | |]; try contradiction; [|exact I].
        destruct Hc1 as (Hk0 & Hk & Lr1 & Lb & LLb & LLr).
        destruct (go_drop_good site (len body) r1 Lb) as (r2 & E2 & L2 & LL2). rewrite E2.
        apply Hcont; llia. }
      destruct (index =? 1)%Z.
      { apply (Hchunk "readJSONObjectKV key"%string (fun body => [EvName body]) have). }
      destruct (index =? 2)%Z.
      { destruct (read_varuint rest1) as [v k] eqn:Ev.
        pose proof (read_varuint_n _ _ _ Ev) as Hk.
        destruct (k <? 0)%Z eqn:Hk0; [exact I|]. apply Z.ltb_ge in Hk0.
        destruct (go_drop_good "readJSONObjectKV type" (Z.to_N k) rest1 ltac:(llia)) as (r2 & E2 & L2 & LL2).
        rewrite E2. apply Hcont; llia. }
      destruct (index =? 3)%Z; [|exact I].
      destruct ((jt =? 1) || (jt =? 7)).
      { apply (Hchunk "readJSONObjectKV string"%string (fun body => [if jt =? 1 then EvStr body else EvRaw body]) true). }
      destruct (jt =? 2).
      { unfold read_varint. destruct (read_varuint rest1) as [u k] eqn:Ev.
        pose proof (read_varuint_n _ _ _ Ev) as Hk.
        destruct (k <? 0)%Z eqn:Hk0; [exact I|]. apply Z.ltb_ge in Hk0.
        destruct (go_drop_good "readJSONObjectKV int" (Z.to_N k) rest1 ltac:(llia)) as (r2 & E2 & L2 & LL2).
        rewrite E2. apply Hcont; llia. }
      destruct (jt =? 3).
      { destruct (len rest1 <? 8) eqn:E8.
        - destruct rest1 as [|c0 rr]; [|exact I]. apply Hcont; llia.
        - apply N.ltb_ge in E8.
          destruct (go_drop_good "readJSONObjectKV float" 8 rest1 E8) as (r2 & E2 & L2 & LL2).
          rewrite E2. apply Hcont; llia. }
      destruct (jt =? 4).
      { destruct (read_varuint rest1) as [v k] eqn:Ev.
        pose proof (read_varuint_n _ _ _ Ev) as Hk.
        destruct (k <? 0)%Z eqn:Hk0; [exact I|]. apply Z.ltb_ge in Hk0.
        destruct (go_drop_good "readJSONObjectKV bool" (Z.to_N k) rest1 ltac:(llia)) as (r2 & E2 & L2 & LL2).
        rewrite E2. apply Hcont; llia. }
      destruct ((jt =? 5) || (jt =? 6)); [|exact I].
      cbv zeta. specialize (IHjs (jt =? 6) rest1 ltac:(lia)). unfold wgood in IHjs.
      destruct (w_out (walk_json f (jt =? 6) rest1)) as [k| | | |] eqn:Ew; try contradiction; [|exact I].
      destruct (go_drop_good "readJSONObjectKV nested" k rest1 IHjs) as (r2 & E2 & L2 & LL2).
      rewrite E2. apply Hcont; llia.
    + intros isobj data Hf. cbn [walk_json].
      destruct (read_varuint data) as [count n] eqn:Ev.
      pose proof (read_varuint_n _ _ _ Ev) as Hn.
      destruct (n <? 0)%Z eqn:Hn0; [exact I|]. apply Z.ltb_ge in Hn0.
      destruct (go_drop_good "readAsJSON" (Z.to_N n) data ltac:(llia)) as (rest & E1 & L1 & LL1).
      rewrite E1. cbv zeta. unfold wgood. cbn [w_out].
      pose proof (wentries_safe (fun body => walk_jkv f body 0 0 false []) (S (length data))) as H.
      assert (Hkv : forall body, (length body < S (length data))%nat -> wgood (walk_jkv f body 0 0 false []) (len body)).
      { intros body Hb. specialize (IHkv body 0 0 false [] ltac:(lia)).
        apply (wexact_good _ (0 + len body)); [lia|exact IHkv]. }
      specialize (H Hkv (S (length data)) (if count <? two63 then count else 0) rest (Z.to_N n) [] ltac:(llia) ltac:(llia)).
      destruct (w_out (wentries _ (S (length data)) _ rest (Z.to_N n) [])); auto. llia.
Qed.

(** ** readAsStruct / readAsMapEntry *)
Section Loops.
  Variable walkd : desc -> bytes -> wres.
  Hypothesis Hwalkd : forall e b, wgood (walkd e b) (len b).

  Lemma read_missing_good d : match w_out (read_missing walkd d) with Ok _ => True | Err => True | _ => False end.
  Proof.
    unfold read_missing. destruct (d_explicit d); [exact I|].
    specialize (Hwalkd d []). unfold wgood in Hwalkd. destruct (w_out (walkd d [])); auto.
  Qed.

  Lemma walk_fields_safe es mapentry : forall fuel rest consumed hk hv acc, (length rest < fuel)%nat ->
    wexact (walk_fields walkd es mapentry fuel rest consumed hk hv acc) (consumed + len rest).
  Proof.
    induction fuel as [|f IH]; intros rest consumed hk hv acc Hf; [lia|].
    destruct rest as [|b0 rest0].
    - cbn [walk_fields]. destruct mapentry; [|unfold wexact, wok; cbn [w_out]; rewrite len_nil; lia].
      destruct es as [|kd [|vd es']]; try (unfold wexact, wok; cbn [w_out]; rewrite len_nil; lia).
      assert (H1 : match w_out (if hk then wok [] 0 else read_missing walkd kd) with Ok _ => True | Err => True | _ => False end).
      { destruct hk; [exact I|apply read_missing_good]. }
      unfold wexact.
      destruct (w_out (if hk then wok [] 0 else read_missing walkd kd)) eqn:E1; try contradiction; cbn [w_out]; [|exact I].
      assert (H2 : match w_out (if hv then wok [] 0 else read_missing walkd vd) with Ok _ => True | Err => True | _ => False end).
      { destruct hv; [exact I|apply read_missing_good]. }
      destruct (w_out (if hv then wok [] 0 else read_missing walkd vd)) eqn:E2; try contradiction; cbn [w_out wok]; [|exact I].
      rewrite len_nil. lia.
    - cbn [walk_fields]. remember (b0 :: rest0) as rest eqn:Er.
      destruct (read_tag rest) as [[wt index] n] eqn:Et.
      pose proof (read_tag_n _ _ _ _ Et) as Hn.
      destruct (n <=? 0)%Z eqn:Hn0; [exact I|]. apply Z.leb_gt in Hn0.
      destruct (go_drop_good "Descriptor.readAsStruct" (Z.to_N n) rest ltac:(llia)) as (rest1 & E1 & L1 & LL1).
      rewrite E1. cbv zeta.
      destruct (find_elem es index) as [elt|].
      + (* a known field *)
        assert (Hbody : forall fdata after c2 (hk' hv' : bool),
                  len fdata <= len after -> (length after < length rest)%nat -> c2 + len after = consumed + len rest ->
                  wexact
                    (let wk := if mapentry && negb (match es with kd :: _ => (d_index kd =? index)%Z | [] => false end) && negb hk
                               then match es with kd :: _ => read_missing walkd kd | [] => wok [] 0 end else wok [] 0 in
                     match w_out wk with
                     | Ok _ =>
                       let pre := acc ++ w_ev wk ++ (if mapentry then [] else [EvName (d_name elt)]) in
                       let w := walkd elt fdata in
                       match w_out w with
                       | Ok used =>
                         match go_drop "Descriptor.readAsStruct" used after with
                         | Ok rest3 => walk_fields walkd es mapentry f rest3 (c2 + used) hk' hv' (pre ++ w_ev w)
                         | r => wfail (pre ++ w_ev w) r
                         end
                       | r => mkw (pre ++ w_ev w) (match r with Ok _ => Err | x => x end)
                       end
                     | r => mkw (acc ++ w_ev wk) (match r with Ok _ => Err | x => x end)
                     end) (consumed + len rest)).
        { intros fdata after c2 hk' hv' Hfa Hal Hc. cbv zeta.
          set (wk := if mapentry && negb (match es with kd :: _ => (d_index kd =? index)%Z | [] => false end) && negb hk
                     then match es with kd :: _ => read_missing walkd kd | [] => wok [] 0 end else wok [] 0).
          assert (Hwk : match w_out wk with Ok _ => True | Err => True | _ => False end).
          { unfold wk. destruct (mapentry && negb _ && negb hk); [|exact I].
            destruct es as [|kd es']; [exact I|apply read_missing_good]. }
          unfold wexact. destruct (w_out wk) eqn:Ewk; try contradiction; cbn [w_out]; [|exact I].
          pose proof (Hwalkd elt fdata) as Hw. unfold wgood in Hw.
          destruct (w_out (walkd elt fdata)) as [used| | | |] eqn:Ew; try contradiction; cbn [w_out]; [|exact I].
          destruct (go_drop_good "Descriptor.readAsStruct" used after ltac:(lia)) as (rest3 & E3 & L3 & LL3). rewrite E3.
          specialize (IH rest3 (c2 + used) hk' hv' ((acc ++ w_ev wk ++ (if mapentry then [] else [EvName (d_name elt)])) ++ w_ev (walkd elt fdata)) ltac:(llia)).
          unfold wexact in IH. destruct (w_out (walk_fields walkd es mapentry f rest3 _ _ _ _)); auto. llia. }
        destruct (wt =? WTLength).
        * destruct (read_varuint rest1) as [l k] eqn:Ev. pose proof (read_varuint_n _ _ _ Ev) as Hk.
          destruct (k <=? 0)%Z eqn:Hk0; [exact I|]. apply Z.leb_gt in Hk0.
          destruct (go_drop_good "Descriptor.readAsStruct" (Z.to_N k) rest1 ltac:(llia)) as (rest2 & E2 & L2 & LL2). rewrite E2.
          destruct (len rest2 <? l) eqn:Hl; [exact I|]. apply N.ltb_ge in Hl.
          destruct (go_take_good "Descriptor.readAsStruct" l rest2 Hl) as (fdata & E3 & L3 & LL3). rewrite E3.
          apply Hbody; llia.
        * apply Hbody; llia.
      + (* unknown field: skipped *)
        pose proof (skip_total rest1 wt) as T. pose proof (skip_bounded rest1 wt) as B.
        destruct (skip rest1 wt) as [k| | | |]; cbn [is_ok_or_err] in T; try contradiction; [|exact I].
        specialize (B k eq_refl).
        destruct (go_drop_good "Descriptor.readAsStruct" k rest1 B) as (rest2 & E2 & L2 & LL2). rewrite E2.
        specialize (IH rest2 (consumed + Z.to_N n + k) hk hv acc ltac:(llia)).
        unfold wexact in *. destruct (w_out (walk_fields walkd es mapentry f rest2 _ _ _ _)); auto. llia.
  Qed.

  Lemma walk_packed_safe elt : forall fuel rest consumed acc, (length rest < fuel)%nat ->
    wexact (walk_packed walkd elt fuel rest consumed acc) (consumed + len rest).
  Proof.
    induction fuel as [|f IH]; intros rest consumed acc Hf; [lia|].
    destruct rest as [|b0 rest0]; [cbn [walk_packed]; unfold wexact, wok; cbn [w_out]; rewrite len_nil; lia|].
    cbn [walk_packed]. remember (b0 :: rest0) as rest eqn:Er. cbv zeta.
    pose proof (Hwalkd elt rest) as Hw. unfold wgood in Hw. unfold wexact.
    destruct (w_out (walkd elt rest)) as [used| | | |] eqn:Ew; try contradiction; cbn [w_out]; [|exact I].
    destruct (used =? 0) eqn:E0; [exact I|]. apply N.eqb_neq in E0.
    destruct (go_drop_good "Descriptor.readAsSlice" used rest Hw) as (r1 & E1 & L1 & LL1). rewrite E1.
    specialize (IH r1 (consumed + used) (acc ++ w_ev (walkd elt rest)) ltac:(llia)).
    unfold wexact in IH. destruct (w_out (walk_packed walkd elt f r1 _ _)); auto. llia.
  Qed.

  Lemma walk_counted_safe elt : forall fuel cnt rest consumed acc, (length rest < fuel)%nat ->
    match w_out (walk_counted walkd elt fuel cnt rest consumed acc) with
    | Ok n => n <= consumed + len rest
    | Err => True
    | _ => False
    end.
  Proof.
    induction fuel as [|f IH]; intros cnt rest consumed acc Hf; [lia|].
    cbn [walk_counted]. destruct (cnt =? 0); [cbn [w_out wok]; lia|].
    destruct rest as [|b0 rest0]; [exact I|]. remember (b0 :: rest0) as rest eqn:Er.
    destruct (read_varuint rest) as [s m] eqn:Ev. pose proof (read_varuint_n _ _ _ Ev) as Hm.
    destruct (m <=? 0)%Z eqn:Hm0; [exact I|]. apply Z.leb_gt in Hm0.
    destruct (go_drop_good "Descriptor.readAsSlice" (Z.to_N m) rest ltac:(llia)) as (r1 & E1 & L1 & LL1). rewrite E1.
    destruct (len r1 <? s) eqn:Hl; [exact I|]. apply N.ltb_ge in Hl.
    destruct (go_take_good "Descriptor.readAsSlice" s r1 Hl) as (body & E2 & L2 & LL2). rewrite E2. cbv zeta.
    pose proof (Hwalkd elt body) as Hw. unfold wgood in Hw.
    destruct (w_out (walkd elt body)) as [used| | | |] eqn:Ew; try contradiction; cbn [w_out]; [|exact I].
    destruct (go_drop_good "Descriptor.readAsSlice" used r1 ltac:(lia)) as (r2 & E3 & L3 & LL3). rewrite E3.
    specialize (IH (cnt - 1) r2 (consumed + Z.to_N m + used) (acc ++ w_ev (walkd elt body)) ltac:(llia)).
    destruct (w_out (walk_counted walkd elt f (cnt - 1) r2 _ _)); auto. llia.
  Qed.
End Loops.

(** ** Descriptor.read *)
Section DescInd.
  Variable P : desc -> Prop.
  Hypothesis H : forall i n t tn es x l, Forall P es -> P (Desc i n t tn es x l).
  Fixpoint desc_ind' (d : desc) : P d :=
    match d with
    | Desc i n t tn es x l =>
      H i n t tn es x l ((fix go (l : list desc) : Forall P l :=
                            match l with [] => Forall_nil _ | e :: r => Forall_cons e (desc_ind' e) (go r) end) es)
    end.
End DescInd.

(** every slice node carries its element descriptor *)
Fixpoint dwf (d : desc) : Prop :=
  let 'Desc _ _ t _ es _ _ := d in
  (t = FTSlice -> es <> []) /\
  (fix all (l : list desc) : Prop := match l with [] => True | e :: r => dwf e /\ all r end) es.

Lemma dwf_elems i n t tn es x l : dwf (Desc i n t tn es x l) -> Forall dwf es.
Proof. intros [_ H]. induction es as [|e r IH]; constructor; [apply H|apply IH, H]. Qed.

Lemma subwalk_good es :
  Forall (fun e => forall b, wgood (walk e b) (len b)) es ->
  forall e b, wgood ((fix subwalk (l : list desc) (e : desc) (b : bytes) : wres :=
                        match l with
                        | [] => werr []
                        | x :: r => if (d_index x =? d_index e)%Z then walk x b else subwalk r e b
                        end) es e b) (len b).
Proof.
  intros H e b. induction H as [|x r Hx Hr IH]; [exact I|].
  destruct (d_index x =? d_index e)%Z; [apply Hx|apply IH].
Qed.

Theorem walk_total : forall d, dwf d -> forall data, wgood (walk d data) (len data).
Proof.
  induction d as [i n t tn es x lt IH] using desc_ind'. intros Hwf data.
  pose proof (dwf_elems _ _ _ _ _ _ _ Hwf) as Hes. destruct Hwf as [Hne _].
  assert (IH' : Forall (fun e => forall b, wgood (walk e b) (len b)) es).
  { rewrite Forall_forall in *. intros e He b. apply IH; [exact He|apply Hes; exact He]. }
  cbn [walk]. destruct (walk_scalar (Desc i n t tn es x lt) data) as [w|] eqn:Es.
  { apply (walk_scalar_good _ _ _ Es). }
  destruct (t =? FTSlice) eqn:Et.
  - apply N.eqb_eq in Et. destruct es as [|elt es']; [exfalso; apply (Hne Et); reflexivity|].
    pose proof (Forall_inv IH') as Helt.
    set (wd := fun (e : desc) (b : bytes) => walk elt b).
    assert (Hwd : forall e b, wgood (wd e b) (len b)) by (intros e b; apply Helt).
    unfold wgood. cbn [w_out].
    destruct ((d_type elt =? FTFloat32) || (d_type elt =? FTFloat64) || (d_type elt =? FTInt)
              || (d_type elt =? FTUint) || (d_type elt =? FTFlatInt) || (d_type elt =? FTBool)).
    + pose proof (walk_packed_safe wd Hwd elt (S (length data)) data 0 [] ltac:(lia)) as Hp.
      unfold wexact in Hp. fold wd. destruct (w_out (walk_packed wd elt (S (length data)) data 0 [])); auto. lia.
    + destruct ((d_type elt =? FTStruct) || (d_type elt =? FTSlice) || (d_type elt =? FTString) || (d_type elt =? FTTime)); [|exact I].
      destruct (read_varuint data) as [count k] eqn:Ev. pose proof (read_varuint_n _ _ _ Ev) as Hk.
      destruct (k <? 0)%Z eqn:Hk0; [exact I|]. apply Z.ltb_ge in Hk0.
      destruct (go_drop_good "Descriptor.readAsSlice" (Z.to_N k) data ltac:(llia)) as (rest & E1 & L1 & LL1). rewrite E1.
      cbv zeta. fold wd.
      pose proof (walk_counted_safe wd Hwd elt (S (length data)) (if count <? two63 then count else 0) rest (Z.to_N k) [] ltac:(llia)) as Hc.
      destruct (w_out (walk_counted wd elt (S (length data)) _ rest (Z.to_N k) [])); auto. llia.
  - destruct (t =? FTStruct).
    + pose proof (subwalk_good es IH') as Hsub.
      set (sub := (fix subwalk (l : list desc) (e : desc) (b : bytes) : wres :=
                     match l with
                     | [] => werr []
                     | x :: r => if (d_index x =? d_index e)%Z then walk x b else subwalk r e b
                     end) es) in *.
      assert (Hf : forall me, wexact (walk_fields sub es me (S (length data)) data 0 false false []) (0 + len data))
        by (intros me; apply (walk_fields_safe sub Hsub); lia).
      destruct (is_json_map_entry (Desc i n t tn es x lt)).
      * apply (wexact_good _ (0 + len data)); [lia|apply Hf].
      * destruct ((lt =? LTMapEntry) && _); cbv zeta; unfold wgood; cbn [w_out];
          specialize (Hf false); unfold wexact in Hf;
          destruct (w_out (walk_fields sub es false (S (length data)) data 0 false false [])); auto; lia.
    + destruct (t =? FTJSONObject).
      { apply (proj2 (json_walk_ok (jfuel data))). unfold jfuel. lia. }
      destruct (t =? FTJSONArray); [|exact I].
      apply (proj2 (json_walk_ok (jfuel data))). unfold jfuel. lia.
Qed.

(** every descriptor plenc builds is well-formed in this sense *)
Lemma descriptor_of_dwf : forall c d, descriptor_of c = Ok d -> dwf d.
Proof.
  induction c as [ |b|b|b| | | | |compat| |c IH|c IH|nm n fs IH|c IH|c IH|c IH|c IH|kc vc IHk IHv|kc vc IHk IHv| | | ]
    using codec_ind'; intros d Hd; cbn [descriptor_of] in Hd;
    try (injection Hd as <-; cbn; split; [discriminate|exact I]).
  - destruct (descriptor_of c) as [d0| | | |]; cbn [bind] in Hd; try discriminate. injection Hd as <-.
    specialize (IH d0 eq_refl). destruct d0. exact IH.
  - destruct (descriptor_of c) as [d0| | | |]; cbn [bind] in Hd; try discriminate. injection Hd as <-.
    specialize (IH d0 eq_refl). destruct d0. exact IH.
  - match type of Hd with (do es <- ?X; _) = _ => destruct X as [es| | | |] eqn:E end; cbn [bind] in Hd; try discriminate.
    injection Hd as <-. cbn [dwf]. split; [discriminate|].
    revert es E. induction IH as [|f r Hf Hr IHr]; intros es E.
    + injection E as <-. exact I.
    + destruct (descriptor_of (f_codec f)) as [d0| | | |] eqn:E0; cbn [bind] in E; try discriminate.
      match type of E with (do ds <- ?X; _) = _ => destruct X as [ds| | | |] eqn:E2 end; cbn [bind] in E; try discriminate.
      injection E as <-. split; [|apply IHr; reflexivity].
      specialize (Hf d0 eq_refl). destruct d0. exact Hf.
  - destruct (descriptor_of c) as [d0| | | |]; cbn [bind] in Hd; try discriminate. injection Hd as <-.
    cbn [dwf]. split; [discriminate|]. split; [apply IH; reflexivity|exact I].
  - destruct (descriptor_of c) as [d0| | | |]; cbn [bind] in Hd; try discriminate. injection Hd as <-.
    cbn [dwf]. split; [discriminate|]. split; [apply IH; reflexivity|exact I].
  - destruct (descriptor_of c) as [d0| | | |]; cbn [bind] in Hd; try discriminate. injection Hd as <-.
    cbn [dwf]. split; [discriminate|]. split; [apply IH; reflexivity|exact I].
  - destruct (descriptor_of c) as [d0| | | |]; cbn [bind] in Hd; try discriminate. injection Hd as <-.
    cbn [dwf]. split; [discriminate|]. split; [apply IH; reflexivity|exact I].
  - destruct (descriptor_of kc) as [kd| | | |]; cbn [bind] in Hd; try discriminate.
    destruct (descriptor_of vc) as [vd| | | |]; cbn [bind] in Hd; try discriminate. injection Hd as <-.
    specialize (IHk kd eq_refl). specialize (IHv vd eq_refl).
    cbn [dwf]. split; [discriminate|]. split; [|exact I]. split; [discriminate|].
    destruct kd, vd. cbn [with_field]. split; [exact IHk|split; [exact IHv|exact I]].
  - destruct (descriptor_of kc) as [kd| | | |]; cbn [bind] in Hd; try discriminate.
    destruct (descriptor_of vc) as [vd| | | |]; cbn [bind] in Hd; try discriminate. injection Hd as <-.
    specialize (IHk kd eq_refl). specialize (IHv vd eq_refl).
    cbn [dwf]. split; [discriminate|]. split; [|exact I]. split; [discriminate|].
    destruct kd, vd. cbn [with_field]. split; [exact IHk|split; [exact IHv|exact I]].
  - discriminate.
Qed.

(** C04, Descriptor side: for every codec plenc builds a Descriptor for, walking
    any byte string with it returns success or an error and never reports
    having consumed more than it was given *)
Theorem walk_total_codec : forall c d data, descriptor_of c = Ok d -> wgood (walk d data) (len data).
Proof. intros c d data H. apply walk_total. apply (descriptor_of_dwf c d H). Qed.
