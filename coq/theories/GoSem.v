(** Meaning of the Go operators that tools/gotrans emits when it translates
    plenccore from source (the generated file imports this one).  Unsigned
    integers are [N], signed ones [Z]; every operator is followed by the wrap of
    its width, as the Go specification prescribes (two's complement, silent
    overflow).  Trusted: that these definitions say what Go's operators do, and
    that [go_binary_Uvarint] / [go_bits_Len64] are encoding/binary.Uvarint and
    math/bits.Len64 (Varint.v transliterates the former from the standard library). *)
From Plenc Require Import Base Varint.
Open Scope N_scope.

(** the value of a [w]-bit unsigned / signed integer holding the integer [z] *)
Definition uwrap (w : N) (z : Z) : N := ubits w z.
Definition swrap (w : N) (z : Z) : Z := sbits w (ubits w z).

Definition uadd (w : N) (a b : N) : N := uwrap w (Z.of_N a + Z.of_N b).
Definition usub (w : N) (a b : N) : N := uwrap w (Z.of_N a - Z.of_N b).
Definition umul (w : N) (a b : N) : N := uwrap w (Z.of_N a * Z.of_N b).
Definition udiv (a b : N) : N := a / b.
Definition urem (a b : N) : N := a mod b.
Definition ushl (w : N) (a k : N) : N := uwrap w (Z.shiftl (Z.of_N a) (Z.of_N k)).
Definition ushr (a k : N) : N := N.shiftr a k.

Definition sadd (w : N) (a b : Z) : Z := swrap w (a + b).
Definition ssub (w : N) (a b : Z) : Z := swrap w (a - b).
Definition smul (w : N) (a b : Z) : Z := swrap w (a * b).
Definition sneg (w : N) (a : Z) : Z := swrap w (- a).
(** Go's / and % truncate towards zero *)
Definition sdiv (w : N) (a b : Z) : Z := swrap w (Z.quot a b).
Definition srem (w : N) (a b : Z) : Z := swrap w (Z.rem a b).
Definition sshl (w : N) (a : Z) (k : N) : Z := swrap w (Z.shiftl a (Z.of_N k)).
(** >> on a signed integer is arithmetic *)
Definition sshr (a : Z) (k : N) : Z := Z.shiftr a (Z.of_N k).

(** conversions T(x) between integer types: to width [w] *)
Definition u2u (w : N) (a : N) : N := a mod 2 ^ w.
Definition u2s (w : N) (a : N) : Z := sbits w a.
Definition s2u (w : N) (z : Z) : N := ubits w z.
Definition s2s (w : N) (z : Z) : Z := swrap w z.

Definition go_len {A} (l : list A) : Z := Z.of_nat (length l).
(** x[a:] : panics unless 0 <= a <= len(x) *)
Definition go_slice_from {A} (site : string) (l : list A) (a : Z) : res (list A) :=
  if ((a <? 0) || (go_len l <? a))%Z then Panic site else Ok (skipn (Z.to_nat a) l).
(** x[:b] : Go allows b up to cap(x); the model is stricter and panics unless
    0 <= b <= len(x) (the translated code only ever shortens) *)
Definition go_slice_to {A} (site : string) (l : list A) (b : Z) : res (list A) :=
  if ((b <? 0) || (go_len l <? b))%Z then Panic site else Ok (firstn (Z.to_nat b) l).
(** x[i] (a byte slice or a string): panics unless 0 <= i < len(x) *)
Definition go_index (site : string) (l : bytes) (i : Z) : res N :=
  if ((i <? 0) || (go_len l <=? i))%Z then Panic site else Ok (nth (Z.to_nat i) l 0).
(** x[i] for any element type *)
Definition go_nth {A} (site : string) (l : list A) (i : Z) : res A :=
  if ((i <? 0) || (go_len l <=? i))%Z then Panic site
  else match nth_error l (Z.to_nat i) with Some x => Ok x | None => Panic site end.
(** x[i] = v *)
Definition go_set_nth {A} (site : string) (l : list A) (i : Z) (v : A) : res (list A) :=
  if ((i <? 0) || (go_len l <=? i))%Z then Panic site
  else Ok (firstn (Z.to_nat i) l ++ v :: skipn (S (Z.to_nat i)) l).

(** floats travel as their IEEE bit patterns: x == 0 holds for +0 and -0 *)
Definition go_f64_is_zero (b : N) : bool := (b =? 0) || (b =? 9223372036854775808).
Definition go_f32_is_zero (b : N) : bool := (b =? 0) || (b =? 2147483648).
(** binary.LittleEndian.PutUintNN into a whole NN/8-byte array, and UintNN (panics on a short slice) *)
Fixpoint go_le_put (n : nat) (v : N) : bytes :=
  match n with O => [] | S n' => (v mod 256) :: go_le_put n' (v / 256) end.
Fixpoint go_le_val (l : bytes) : N := match l with [] => 0 | b :: r => b + 256 * go_le_val r end.
Definition go_le_get (site : string) (n : nat) (l : bytes) : res N :=
  if (go_len l <? Z.of_nat n)%Z then Panic site else Ok (go_le_val (firstn n l)).

Definition go_binary_Uvarint (buf : bytes) : N * Z := read_varuint buf.
Definition go_bits_Len64 (v : N) : Z := Z.of_N (N.size v).

(** how a loop ends: by a return statement in its body, or normally *)
Inductive lout (R S : Type) : Type := LRet (r : R) | LDone (s : S).
Arguments LRet {R S} r.
Arguments LDone {R S} s.
