(** Base definitions shared by every model file: outcomes, bytes, Go slice
    operations with their run-time checks made explicit. Stdlib only. *)
From Coq Require Export String.
From Coq Require Export List NArith ZArith Lia Bool.
From Coq Require Export ZifyN ZifyNat ZifyBool.
Export ListNotations.

(** Outcome of running a piece of Go code.
    [Err]    : the function returned a non-nil error.
    [Panic]  : a run-time panic (slice bounds, index, nil dereference) at [site].
    [Hang]   : a loop that makes no progress (fuel exhausted) at [site].
    [Blowup] : an allocation request not bounded by the remaining input at [site]. *)
Inductive res (A : Type) : Type :=
| Ok (a : A)
| Err
| Panic (site : string)
| Hang (site : string)
| Blowup (site : string).
Arguments Ok {A} a.
Arguments Err {A}.
Arguments Panic {A} site.
Arguments Hang {A} site.
Arguments Blowup {A} site.

Definition bind {A B} (r : res A) (f : A -> res B) : res B :=
  match r with
  | Ok a => f a
  | Err => Err
  | Panic s => Panic s
  | Hang s => Hang s
  | Blowup s => Blowup s
  end.
Notation "'do' x <- r ; k" := (bind r (fun x => k))
  (at level 200, x pattern, r at level 100, k at level 200, right associativity).

Definition is_ok_or_err {A} (r : res A) : Prop :=
  match r with Ok _ | Err => True | _ => False end.
Definition is_ok_or_errb {A} (r : res A) : bool :=
  match r with Ok _ | Err => true | _ => false end.

(** Bytes are [N] below 256; byte strings are lists. *)
Definition bytes := list N.
Definition byte_ok (b : N) : Prop := (b < 256)%N.
Definition bytes_ok (l : bytes) : Prop := Forall byte_ok l.
Definition bytes_okb (l : bytes) : bool := forallb (fun b => (b <? 256)%N) l.

Definition len (l : bytes) : N := N.of_nat (length l).

(** Go [data[n:]] : panics unless [n <= len(data)]. *)
Definition go_drop (site : string) (n : N) (l : bytes) : res bytes :=
  if (n <=? len l)%N then Ok (skipn (N.to_nat n) l) else Panic site.
(** Go [data[:n]] with [cap(data) = len(data)] : panics unless [n <= len(data)]. *)
Definition go_take (site : string) (n : N) (l : bytes) : res bytes :=
  if (n <=? len l)%N then Ok (firstn (N.to_nat n) l) else Panic site.

Definition two64 : N := 18446744073709551616%N.
Definition two63 : N := 9223372036854775808%N.
Definition two64Z : Z := 18446744073709551616%Z.
Definition two63Z : Z := 9223372036854775808%Z.

(** uint64(x) of a Go integer value *)
Definition u64 (z : Z) : N := Z.to_N (z mod two64Z).
(** int64(x) reinterpretation of a 64-bit pattern *)
Definition s64 (n : N) : Z :=
  let m := (n mod two64)%N in
  if (m <? two63)%N then Z.of_N m else (Z.of_N m - two64Z)%Z.
(** reinterpret the low [b] bits as signed *)
Definition sbits (b : N) (n : N) : Z :=
  let m := (n mod 2 ^ b)%N in
  if (m <? 2 ^ (b - 1))%N then Z.of_N m else (Z.of_N m - Z.of_N (2 ^ b))%Z.
(** low [b] bits of a Go integer (two's complement) *)
Definition ubits (b : N) (z : Z) : N := Z.to_N (z mod Z.of_N (2 ^ b)).

Lemma len_app (a b : bytes) : len (a ++ b) = (len a + len b)%N.
Proof. unfold len. rewrite app_length. lia. Qed.
Lemma len_nil : len [] = 0%N. Proof. reflexivity. Qed.
Lemma len_cons x (l : bytes) : len (x :: l) = (1 + len l)%N.
Proof. unfold len. cbn [length]. lia. Qed.
