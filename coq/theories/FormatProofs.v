(** C02: the wire format of the model's encoder, stated in the terms of the
    documentation, and decoding with the fields in any order. *)
From Coq Require Import Permutation.
From Plenc Require Import Base Varint Wire VarintProofs WireProofs JsonAny Codec SizeProofs DecBase RoundTripBase RoundTrip RoundTripZero.
Open Scope N_scope.

(** tags are varint(index<<3 | wiretype) *)
Theorem format_tag : forall c idx, (0 <= idx < 2305843009213693952)%Z ->
  field_tag c idx = append_varuint (Z.to_N idx * 8 + wire c) /\ pb_varint (Z.to_N idx * 8 + wire c) (field_tag c idx).
Proof.
  intros c idx Hi. unfold field_tag, append_tag.
  destruct (tag_value_small (wire c) idx (wire_lt8 c) Hi) as [E L]. rewrite E. split; [reflexivity|].
  apply append_varuint_canonical. rewrite <- E. exact L.
Qed.

(** signed integers are zig-zag varints; unsigned, flat and bool plain varints;
    floats little-endian fixed 32 / 64 *)
Theorem format_scalars : forall b z x s,
  enc (CInt b) (VInt z) [] = append_varuint (zigzag z) /\
  enc (CUint b) (VInt z) [] = append_varuint (u64 z) /\
  enc (CFlat b) (VInt z) [] = append_varuint (ubits b z) /\
  enc CBool (VBool true) [] = [1] /\ enc CBool (VBool false) [] = [0] /\
  enc CF32 (VF32 x) [] = le_bytes 4 x /\ enc CF64 (VF64 x) [] = le_bytes 8 x /\
  enc CString (VStr s) [] = s /\ enc CBytes (VStr s) [] = s.
Proof. intros. repeat split; reflexivity. Qed.

(** strings, byte slices, structs, times and packed slices are length-prefixed
    when they are fields *)
Theorem format_length_prefixed : forall c v tag, framed_codec c = true -> tag <> [] ->
  enc c v tag = tag ++ append_varuint (len (enc c v [])) ++ enc c v [].
Proof. exact frame_shape. Qed.

(** a struct body is its fields in declaration order, each omitted when its
    codec says so (zero plain values, nil pointers and maps, empty slices) *)
Theorem format_struct : forall nm n fs vs,
  enc (CStruct nm n fs) (VStruct vs) [] = flat_map (fenc vs) fs.
Proof. reflexivity. Qed.
Theorem format_omission : forall c,
  match c with
  | CBool | CInt _ | CUint _ | CFlat _ | CF32 | CF64 | CString | CBytes | CTime _ | CPtr _
  | CSliceVar _ | CSliceFix _ | CSliceLen _ | CSliceProto _ | CMap _ _ | CMapProto _ _ => omit c (zero c) = true
  | CStruct _ _ _ => forall v, omit c v = false
  | _ => True
  end.
Proof. destruct c; try exact I; try reflexivity. Qed.

(** scalar slices are packed: the element encodings laid end to end *)
Theorem format_packed : forall c l,
  enc (CSliceVar c) (VSlice l) [] = flat_map (fun x => enc c x []) l /\
  enc (CSliceFix c) (VSlice l) [] = flat_map (fun x => enc c x []) l.
Proof. intros. split; reflexivity. Qed.

(** slices of length-delimited elements: wire type 3 = count, then each element
    with its own length prefix *)
Theorem format_counted : forall c l tag,
  wire (CSliceLen c) = WTSlice /\
  enc (CSliceLen c) (VSlice l) tag
  = tag ++ append_varuint (N.of_nat (length l)) ++ flat_map (fun x => append_varuint (len (enc c x [])) ++ enc c x []) l.
Proof. intros. split; reflexivity. Qed.

(** maps: wire type 3 = count, then each entry with its own length prefix, the
    entry being key = field 1, value = field 2 *)
Theorem format_map : forall kc vc es tag,
  wire (CMap kc vc) = WTSlice /\
  enc (CMap kc vc) (VMap (Some es)) tag
  = tag ++ append_varuint (N.of_nat (length es))
        ++ flat_map (fun e => lenframe ((if omit kc (fst e) then [] else enc kc (fst e) (field_tag kc 1))
                                        ++ (if omit vc (snd e) then [] else enc vc (snd e) (field_tag vc 2)))) es.
Proof. intros. split; reflexivity. Qed.

(** times: a message {1: seconds, 2: nanoseconds}, zig-zag in the plenc form *)
Theorem format_time : forall s n,
  enc (CTime false) (VTime s n) [] = [8] ++ append_varuint (zigzag s) ++ [16] ++ append_varuint (zigzag n).
Proof. reflexivity. Qed.

(** ** decoding accepts the fields in any order *)

Lemma find_unique {A} (p : A -> bool) (key : A -> nat) : forall l x,
  NoDup (map key l) -> In x l -> p x = true -> (forall y, In y l -> p y = true -> key y = key x) ->
  find p l = Some x.
Proof.
  induction l as [|y l IH]; intros x Hnd Hin Hp Huniq; [destruct Hin|]. cbn [find].
  inversion Hnd as [|? ? Hnot Hnd']; subst.
  destruct (p y) eqn:Ey.
  - destruct Hin as [->|Hin]; [reflexivity|]. exfalso.
    assert (key y = key x) by (apply Huniq; [left; reflexivity|exact Ey]).
    apply Hnot. rewrite H. apply in_map. exact Hin.
  - destruct Hin as [->|Hin]; [congruence|]. apply IH; auto. intros z Hz Hpz. apply Huniq; [right; exact Hz|exact Hpz].
Qed.

Lemma find_slot_perm : forall (l fs : list (fld codec)) i,
  Permutation l fs -> NoDup (map (fun f => f_slot f) fs) ->
  find (fun f => Nat.eqb (f_slot f) i) l = find (fun f => Nat.eqb (f_slot f) i) fs.
Proof.
  intros l fs i Hp Hnd.
  assert (Hndl : NoDup (map (fun f => f_slot f) l)).
  { eapply Permutation_NoDup; [apply Permutation_map; apply Permutation_sym; exact Hp|exact Hnd]. }
  destruct (find (fun f => Nat.eqb (f_slot f) i) fs) as [f|] eqn:Ef.
  - apply find_some in Ef. destruct Ef as [Hin Heq].
    apply (find_unique _ (fun f => f_slot f)); auto.
    + eapply Permutation_in; [apply Permutation_sym; exact Hp|exact Hin].
    + intros y _ Hy. apply Nat.eqb_eq in Hy, Heq. congruence.
  - destruct (find (fun f => Nat.eqb (f_slot f) i) l) as [g|] eqn:Eg; [|reflexivity].
    apply find_some in Eg. destruct Eg as [Hin Heq].
    pose proof (find_none _ _ Ef g (Permutation_in _ Hp Hin)) as Hn. cbn in Hn. congruence.
Qed.

Lemma fold_fmerge_perm vs : forall (l fs : list (fld codec)) cur,
  Permutation l fs -> NoDup (map (fun f => f_slot f) fs) ->
  fold_left (fmerge vs) l cur = fold_left (fmerge vs) fs cur.
Proof.
  intros l fs cur Hp Hnd.
  assert (Hndl : NoDup (map (fun f => f_slot f) l)).
  { eapply Permutation_NoDup; [apply Permutation_map; apply Permutation_sym; exact Hp|exact Hnd]. }
  apply nth_ext with (d := VSkip 0) (d' := VSkip 0).
  - rewrite !fold_fmerge_length. reflexivity.
  - intros i Hi. rewrite fold_fmerge_length in Hi.
    rewrite !fold_fmerge_nth by assumption. rewrite (find_slot_perm l fs i Hp Hnd). reflexivity.
Qed.

(** C02: Unmarshal accepts the field encodings of a struct in ANY order and
    yields the same value *)
Theorem decode_any_order : forall nm n fs l vs prior,
  rt_ok (CStruct nm n fs) -> wfv (CStruct nm n fs) (VStruct vs) -> fits (CStruct nm n fs) (VStruct vs) ->
  Permutation l fs ->
  dec (CStruct nm n fs) (flat_map (fenc vs) l) WTLength prior
  = Ok (merge (CStruct nm n fs) prior (VStruct vs), len (flat_map (fenc vs) l)).
Proof.
  intros nm n fs l vs prior Hok Hw Hf Hp.
  destruct (rt_struct_fields nm n fs Hok) as (Hfs & Hnd & Hns).
  destruct (wfv_struct_fields nm n fs vs Hw) as [Hlen Hwfs].
  pose proof (fits_struct_fields nm n fs (VStruct vs) Hf) as Hfits. cbn [struct_fields] in Hfits.
  cbn [dec merge struct_fields].
  set (cur := match prior with VStruct ps => ps | _ => struct_fields (zero (CStruct nm n fs)) end).
  set (body := flat_map (fenc vs) l).
  assert (Hincl : incl l fs) by (intros x Hx; eapply Permutation_in; eauto).
  pose proof (fields_loop fs Hnd l vs cur [] 0 (S (length body)) Hincl) as HL.
  rewrite !app_nil_r in HL. fold body in HL. unfold stbl in HL. rewrite HL.
  - cbn [struct_loop bind]. rewrite N.add_0_l.
    rewrite (fold_fmerge_perm vs l fs cur Hp Hns).
    match goal with |- Ok (VStruct (fold_left ?F fs cur), _) = Ok (VStruct (fold_left ?G fs cur), _) => change G with F end.
    reflexivity.
  - rewrite Forall_forall in *. intros f Hin. destruct (Hfs f (Hincl f Hin)) as (A & B & _).
    split; [exact B|]. apply (proj2 (roundtrip_gen _ A)).
  - rewrite Forall_forall in *. intros f Hin. split; [apply Hwfs|apply Hfits]; apply Hincl; exact Hin.
  - lia.
Qed.
