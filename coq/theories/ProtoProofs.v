(** C12: proto-compatible mode. *)
From Plenc Require Import Base Varint Wire JsonAny Codec Registry CorrCore.
Open Scope N_scope.

(** codecs whose output uses only standard protobuf constructs *)
Fixpoint proto_codec (c : codec) : bool :=
  match c with
  | CBool | CInt _ | CUint _ | CFlat _ | CF32 | CF64 | CString | CBytes | CBQ => true
  | CTime compat => compat
  | CNull c' | CPtr c' => proto_codec c'
  | CStruct _ _ fs => forallb (fun f => proto_codec (f_codec f)) fs
  | CSliceVar c' | CSliceFix c' | CSliceProto c' => proto_codec c'
  | CMapProto k v => proto_codec k && proto_codec v
  | CSliceLen _ | CMap _ _ | CJMap | CJArr | CBottom => false
  end.

(** only wire types 0, 1, 2 and 5 are ever written into a tag *)
Theorem proto_wire_types : forall c, proto_codec c = true ->
  wire c = WTVarInt \/ wire c = WT64 \/ wire c = WTLength \/ wire c = WT32.
Proof.
  induction c; cbn [proto_codec wire]; intros H; try discriminate; auto.
Qed.

(** times are Timestamp{seconds = 1, nanos = 2} with plain varints *)
Theorem proto_timestamp : forall s n,
  time_body true s n = append_tag WTVarInt 1 ++ append_varuint (u64 s) ++ append_tag WTVarInt 2 ++ append_varuint (ubits 32 n).
Proof. reflexivity. Qed.

(** a slice of length-delimited elements is one tagged, length-prefixed frame
    per element, in order *)
Theorem proto_repeated : forall c v tag,
  enc (CSliceProto c) v tag = flat_map (fun x => enc c x tag) (slice_elems v).
Proof. reflexivity. Qed.

(** a proto-tagged map is one entry message per entry: key = 1, value = 2 *)
Theorem proto_map_entries : forall kc vc es tag,
  enc (CMapProto kc vc) (VMap (Some es)) tag
  = flat_map (fun e => tag ++ lenframe ((if omit kc (fst e) then [] else enc kc (fst e) (field_tag kc 1))
                                          ++ (if omit vc (snd e) then [] else enc vc (snd e) (field_tag vc 2)))) es.
Proof. reflexivity. Qed.

(** a default-mode slice codec reads an element arriving in the repeated-field
    form (wire type 2) exactly as the proto-mode codec does *)
Theorem default_reads_repeated : forall c data prior,
  dec (CSliceLen c) data WTLength prior = dec (CSliceProto c) data WTLength prior.
Proof. intros. reflexivity. Qed.

(** each switch changes only its own registrations: ProtoCompatibleTime only
    swaps the codec registered for time.Time *)
Theorem switch_time_registration : forall pt,
  default_regs pt = firstn 21 (default_regs false) ++ [(TExt 0, [], CTime pt)].
Proof. destruct pt; reflexivity. Qed.

(** the nested repeated form loses the inner boundaries: the full round-trip
    statement is false for a slice of slices of strings in proto mode (D12) *)
Theorem proto_nested_refuted :
  exists c v, proto_codec c = true /\
    unmarshal c (marshal c [] v) (zero c) <> Ok v /\
    unmarshal c (marshal c [] v) (zero c)
    = Ok (VStruct [VSlice [VSlice [VStr [97]]; VSlice [VStr [98]]; VSlice [VStr [99]]]]).
Proof.
  exists (CStruct [] 1 [mkfld 0 1 [] (CSliceProto (CSliceProto CString))]),
         (VStruct [VSlice [VSlice [VStr [97]; VStr [98]]; VSlice [VStr [99]]]]).
  split; [reflexivity|]. split; [vm_compute; discriminate|vm_compute; reflexivity].
Qed.
