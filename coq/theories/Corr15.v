(** Correspondence definitions for C15 (JSON outputter). *)
From Plenc Require Import Base Output.
Open Scope N_scope.

Inductive c15case :=
| K15Ops (ops : list oop) (out : bytes)        (* arbitrary call sequence, then Done() *)
| K15Tree (t : jt) (out : bytes).              (* the calls of a call tree, then Done() *)

Fixpoint beqb (a b : bytes) : bool :=
  match a, b with [], [] => true | x :: a', y :: b' => (x =? y) && beqb a' b' | _, _ => false end.

Inductive e15 := E15 (r : res bytes) (reference : bytes).

Definition check15 (k : c15case) : option e15 :=
  match k with
  | K15Ops ops out =>
    let r := (do j <- o_run jout_init ops; o_done j) in
    match r with Ok b => if beqb b out then None else Some (E15 r []) | _ => Some (E15 r []) end
  | K15Tree t out =>
    let r := (do j <- o_run jout_init (ops_of t); o_done j) in
    let ref := render 0 false t ++ [10] in
    match r with
    | Ok b => if beqb b out && beqb ref out then None else Some (E15 r ref)
    | _ => Some (E15 r ref)
    end
  end.

Fixpoint mismatches_C15 (base : N) (cs : list c15case) : list (N * e15) :=
  match cs with
  | [] => []
  | k :: rest =>
    match check15 k with
    | None => mismatches_C15 (base + 1) rest
    | Some e => (base, e) :: mismatches_C15 (base + 1) rest
    end
  end.
