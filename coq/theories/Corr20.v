(** Correspondence for C20: the tags plenctag wrote vs the model. *)
From Plenc Require Import Base Registry Plenctag.
Open Scope N_scope.

(** one file: configuration, the fields of each struct in it, and the observed
    output: the tags of each field after the run (None: no tag literal, or one
    that does not parse), and whether the tool reported an error (then nothing
    is written) *)
Inductive c20case := K20 (c : pcfg) (structs : list (list pfield)) (out : list (list (option (list stag)))) (reported_error : bool).

Definition stag_eqb (a b : stag) : bool :=
  bytes_eqb (tg_key a) (tg_key b) && bytes_eqb (tg_name a) (tg_name b) && bytes_eqb (tg_opts a) (tg_opts b).
Fixpoint stags_eqb (a b : list stag) : bool :=
  match a, b with [], [] => true | x :: a', y :: b' => stag_eqb x y && stags_eqb a' b' | _, _ => false end.

Definition out_tags (f : pfield) : option (list stag) := if pf_haslit f then pf_tags f else None.

Definition otags_eqb (a b : option (list stag)) : bool :=
  match a, b with
  | Some x, Some y => stags_eqb x y
  | None, None => true
  | _, _ => false
  end.
Fixpoint outs_eqb (a b : list (option (list stag))) : bool :=
  match a, b with [], [] => true | x :: a', y :: b' => otags_eqb x y && outs_eqb a' b' | _, _ => false end.

Fixpoint outss_eqb (a b : list (list (option (list stag)))) : bool :=
  match a, b with [], [] => true | x :: a', y :: b' => outs_eqb x y && outss_eqb a' b' | _, _ => false end.

Definition check20 (k : c20case) : option (list (list (option (list stag))) * bool) :=
  let 'K20 c structs out err := k in
  let rs := map (rewrite c) structs in
  let e := existsb snd rs in
  (* when errors are reported the file is not written: the output is the input *)
  let expect := if e then map (map out_tags) structs else map (fun r => map out_tags (fst r)) rs in
  if Bool.eqb e err && outss_eqb expect out then None else Some (expect, e).

Fixpoint mismatches_C20 (base : N) (cs : list c20case) : list (N * (list (list (option (list stag))) * bool)) :=
  match cs with
  | [] => []
  | k :: rest =>
    match check20 k with
    | None => mismatches_C20 (base + 1) rest
    | Some e => (base, e) :: mismatches_C20 (base + 1) rest
    end
  end.
