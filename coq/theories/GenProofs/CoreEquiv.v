(** C18 (and everything built on plenccore): the tie between model and source
    for the byte-level core is a translation, not a sample.  [PlencGen.GenCore]
    is generated from /repo/plenccore/*.go by tools/gotrans on every run; this
    file proves, for ALL inputs, that each generated function computes what the
    hand-written model (Varint.v, Wire.v - the definitions every other theorem
    of the development is about) computes.  A change to plenccore changes the
    generated definitions and these proofs are re-checked against it. *)
From Plenc Require Import Base Varint Wire VarintProofs WireProofs GoSem.
From PlencGen Require Import GenCore.
Open Scope N_scope.
Ltac Zify.zify_post_hook ::= Z.div_mod_to_equations.

(** ** arithmetic of the wraps at the widths the package uses *)
Lemma ubits64 z : ubits 64 z = Z.to_N (z mod 18446744073709551616).
Proof. reflexivity. Qed.
Lemma sbits64 n : sbits 64 n =
  (if (n mod 18446744073709551616 <? 9223372036854775808)%N then Z.of_N (n mod 18446744073709551616)
   else Z.of_N (n mod 18446744073709551616) - 18446744073709551616)%Z.
Proof. reflexivity. Qed.
Lemma swrap64_small z : (- 9223372036854775808 <= z < 9223372036854775808)%Z -> swrap 64 z = z.
Proof.
  intros H. unfold swrap. rewrite sbits64, ubits64.
  destruct (_ <? _)%N eqn:E; [apply N.ltb_lt in E|apply N.ltb_ge in E]; lia.
Qed.
Lemma swrap64_congr z : exists k, swrap 64 z = (z + k * 18446744073709551616)%Z.
Proof.
  unfold swrap. rewrite sbits64, ubits64.
  destruct (_ <? _)%N.
  - exists (- (z / 18446744073709551616))%Z. lia.
  - exists (- (z / 18446744073709551616) - 1)%Z. lia.
Qed.
Lemma u2s64_small n : n < 9223372036854775808 -> u2s 64 n = Z.of_N n.
Proof.
  intros H. unfold u2s. rewrite sbits64.
  replace (n mod 18446744073709551616) with n by (symmetry; apply N.mod_small; lia).
  destruct (_ <? _)%N eqn:E; [reflexivity|apply N.ltb_ge in E; lia].
Qed.
Lemma s2u64_nonneg z : (0 <= z < 18446744073709551616)%Z -> s2u 64 z = Z.to_N z.
Proof. intros H. unfold s2u. rewrite ubits64. rewrite Z.mod_small by lia. reflexivity. Qed.

(** ** varints.go *)

Theorem gen_ReadVarUint : forall data, ReadVarUint data = read_varuint data.
Proof. reflexivity. Qed.

Lemma size_le_64 v : v < two64 -> N.size v <= 64.
Proof.
  intros H. destruct (N.eq_dec v 0) as [->|Hz]; [cbn; lia|].
  rewrite N.size_log2 by exact Hz. assert (N.log2 v < 64); [|lia].
  apply N.log2_lt_pow2; [lia|exact H].
Qed.

Theorem gen_SizeVarUint : forall v, v < two64 -> SizeVarUint v = Z.of_N (size_varuint v).
Proof.
  intros v Hv. unfold SizeVarUint, size_varuint. destruct (v <? 128); [reflexivity|].
  pose proof (size_le_64 v Hv) as Hs.
  unfold go_bits_Len64, sdiv, sadd. rewrite (swrap64_small (Z.of_N (N.size v) + 6)) by lia.
  rewrite Z.quot_div_nonneg by lia. rewrite swrap64_small by lia.
  rewrite N2Z.inj_div, N2Z.inj_add. reflexivity.
Qed.

(** byte(v)|0x80 is "low seven bits, continuation bit set" *)
Lemma lor128_sweep : forallb (fun x => N.lor x 128 =? x mod 128 + 128) (map N.of_nat (seq 0 256)) = true.
Proof. vm_compute. reflexivity. Qed.
Lemma lor128 v : N.lor (u2u 8 v) 128 = v mod 128 + 128.
Proof.
  unfold u2u. change (2 ^ 8) with 256.
  assert (Hx : v mod 256 < 256) by (apply N.mod_lt; lia).
  pose proof lor128_sweep as H. rewrite forallb_forall in H.
  specialize (H (v mod 256)). rewrite N.eqb_eq in H. rewrite H.
  - lia.
  - apply in_map_iff. exists (N.to_nat (v mod 256)). split; [lia|]. apply in_seq. lia.
Qed.

Theorem gen_AppendVarUint : forall k v data fuel, v < 2 ^ (7 * N.of_nat (S k)) -> (k < fuel)%nat ->
  AppendVarUint fuel data v = Ok (data ++ append_varuint_fuel k v).
Proof.
  unfold AppendVarUint.
  induction k as [|k IH]; intros v data fuel Hv Hf; (destruct fuel as [|f]; [lia|]).
  - change (2 ^ (7 * N.of_nat 1)) with 128 in Hv.
    replace (N.leb 128 v) with false by (symmetry; apply N.leb_gt; exact Hv). cbn [bind append_varuint_fuel].
    unfold u2u. change (2 ^ 8) with 256. rewrite !N.mod_small by lia. reflexivity.
  - cbn [append_varuint_fuel]. destruct (N.leb 128 v) eqn:E.
    + apply N.leb_le in E. replace (v <? 128) with false by (symmetry; apply N.ltb_ge; exact E).
      assert (Hv' : ushr v 7 < 2 ^ (7 * N.of_nat (S k))).
      { unfold ushr. rewrite N.shiftr_div_pow2. change (2 ^ 7) with 128.
        rewrite pow_7S in Hv. apply N.div_lt_upper_bound; lia. }
      specialize (IH (ushr v 7) (data ++ [N.lor (u2u 8 v) 128]) f Hv' ltac:(lia)).
      rewrite IH. rewrite <- app_assoc. cbn [app]. rewrite lor128. unfold ushr. rewrite N.shiftr_div_pow2. reflexivity.
    + apply N.leb_gt in E. replace (v <? 128) with true by (symmetry; apply N.ltb_lt; exact E). cbn [bind].
      unfold u2u. change (2 ^ 8) with 256. rewrite N.mod_small by lia. reflexivity.
Qed.

Theorem gen_AppendVarUint64 : forall v data fuel, v < two64 -> (10 <= fuel)%nat ->
  AppendVarUint fuel data v = Ok (data ++ append_varuint v).
Proof.
  intros v data fuel Hv Hf. apply gen_AppendVarUint; [|lia].
  change (2 ^ (7 * N.of_nat 10)) with 1180591620717411303424. unfold two64 in Hv. lia.
Qed.

Theorem gen_ZigZag : forall v, int64_ok v -> ZigZag v = zigzag v.
Proof.
  intros v Hv. rewrite (zigzag_arith v Hv). unfold int64_ok, two63Z in Hv.
  unfold ZigZag, sshl, sshr, s2u. rewrite Z.shiftl_mul_pow2 by lia. change (2 ^ Z.of_N 1)%Z with 2%Z.
  change (Z.of_N 63) with 63%Z.
  destruct (swrap64_congr (v * 2)) as [k Hk]. rewrite Hk. rewrite ubits64.
  destruct (v <? 0)%Z eqn:Hs.
  - apply Z.ltb_lt in Hs. rewrite shiftr63_neg by (unfold two63Z; lia).
    rewrite Z.lxor_m1_r. unfold Z.lnot. f_equal. lia.
  - apply Z.ltb_ge in Hs. rewrite shiftr63_pos by (unfold two63Z; lia).
    rewrite Z.lxor_0_r. f_equal. lia.
Qed.

Theorem gen_ZagZig : forall u, u < two64 -> ZagZig u = zagzig u.
Proof.
  intros u Hu. unfold two64 in Hu. unfold ZagZig, zagzig, ushr, sneg.
  assert (H1 : N.shiftr u 1 < 9223372036854775808).
  { rewrite N.shiftr_div_pow2. change (2 ^ 1) with 2. apply N.div_lt_upper_bound; lia. }
  assert (H2 : N.land u 1 < 2).
  { change 1 with (N.ones 1). rewrite N.land_ones. change (2 ^ 1) with 2. apply N.mod_lt. lia. }
  rewrite (u2s64_small _ H1). rewrite (u2s64_small (N.land u 1)) by lia.
  rewrite swrap64_small by lia. reflexivity.
Qed.

Lemma read_varuint_lt64 buf v n : bytes_ok buf -> read_varuint buf = (v, n) -> v < two64.
Proof.
  (* the value returned by Uvarint fits 64 bits: ten groups of seven bits, the last limited to one bit *)
  unfold read_varuint. intros Hb H.
  assert (G : forall buf i x v n, bytes_ok buf -> uvarint_go buf i x = (v, n) -> (i <= 10)%nat -> x < 2 ^ (7 * N.of_nat i) -> v < two64).
  { clear. induction buf as [|b rest IH]; intros i x v n Hok H Hi Hx; cbn [uvarint_go] in H.
    - inversion H; subst. unfold two64. lia.
    - inversion Hok as [|? ? Hb256 Hrest]; subst. unfold byte_ok in Hb256.
      destruct (Nat.eqb i 10) eqn:E10; [inversion H; subst; unfold two64; lia|]. apply Nat.eqb_neq in E10.
      destruct (b <? 128) eqn:Eb.
      + apply N.ltb_lt in Eb. destruct (Nat.eqb i 9 && (1 <? b)) eqn:E9; [inversion H; subst; unfold two64; lia|].
        assert (Hv : v = x + b * 2 ^ (7 * N.of_nat i)) by congruence. clear H. subst v. apply andb_false_iff in E9.
        assert (Hp : 0 < 2 ^ (7 * N.of_nat i)) by apply pow7_pos.
        destruct (Nat.eq_dec i 9) as [->|Hn9].
        * destruct E9 as [E9|E9]; [discriminate|]. apply N.ltb_ge in E9.
          change (2 ^ (7 * N.of_nat 9)) with 9223372036854775808 in *. unfold two64. lia.
        * assert (Hi8 : (i <= 8)%nat) by lia.
          assert (2 ^ (7 * N.of_nat i) <= 2 ^ 56) by (apply N.pow_le_mono_r; lia).
          change (2 ^ 56) with 72057594037927936 in *. unfold two64. nia.
      + apply N.ltb_ge in Eb. apply (IH (S i) _ v n Hrest H); [lia|].
        rewrite pow_7S. assert (Hp : 0 < 2 ^ (7 * N.of_nat i)) by apply pow7_pos.
        remember (b - 128) as c eqn:Ec. assert (Hc : c <= 127) by lia.
        remember (2 ^ (7 * N.of_nat i)) as P eqn:EP.
        assert (c * P <= 127 * P) by (apply N.mul_le_mono_r; exact Hc). lia. }
  apply (G buf 0%nat 0 v n Hb H); [lia|cbn; lia].
Qed.

Theorem gen_ReadVarInt : forall data, bytes_ok data -> ReadVarInt data = read_varint data.
Proof.
  intros data Hb. unfold ReadVarInt, read_varint. rewrite gen_ReadVarUint.
  destruct (read_varuint data) as [u n] eqn:E. rewrite (gen_ZagZig u (read_varuint_lt64 data u n Hb E)). reflexivity.
Qed.

Theorem gen_SizeVarInt : forall v, int64_ok v -> SizeVarInt v = Z.of_N (size_varint v).
Proof.
  intros v Hv. unfold SizeVarInt, size_varint. rewrite (gen_ZigZag v Hv). apply gen_SizeVarUint. apply zigzag_range; exact Hv.
Qed.

Theorem gen_AppendVarInt : forall v data fuel, int64_ok v -> (10 <= fuel)%nat ->
  AppendVarInt fuel data v = Ok (data ++ append_varint v).
Proof.
  intros v data fuel Hv Hf. unfold AppendVarInt, append_varint. rewrite (gen_ZigZag v Hv).
  rewrite gen_AppendVarUint64 by (auto using zigzag_range). reflexivity.
Qed.

(** ** wire.go *)

Theorem gen_wire_types :
  GenCore.WTVarInt = Z.of_N Wire.WTVarInt /\ GenCore.WT64 = Z.of_N Wire.WT64 /\ GenCore.WTLength = Z.of_N Wire.WTLength
  /\ GenCore.WTSlice = Z.of_N Wire.WTSlice /\ GenCore.WT32 = Z.of_N Wire.WT32.
Proof. repeat split; reflexivity. Qed.

Theorem gen_ReadTag : forall data, bytes_ok data ->
  ReadTag data = (let '(wt, index, n) := read_tag data in (Z.of_N wt, index, n)).
Proof.
  intros data Hb. unfold ReadTag, read_tag. rewrite gen_ReadVarUint.
  destruct (read_varuint data) as [v n] eqn:E.
  pose proof (read_varuint_lt64 data v n Hb E) as Hv. unfold two64 in Hv.
  unfold ushr. rewrite N.shiftr_div_pow2. change (2 ^ 3) with 8.
  change 7 with (N.ones 3). rewrite N.land_ones. change (2 ^ 3) with 8.
  assert (H8 : v mod 8 < 8) by (apply N.mod_lt; lia).
  rewrite (u2s64_small (v / 8)) by (apply N.div_lt_upper_bound; lia).
  f_equal. f_equal. unfold u2s, sbits. change (2 ^ 8) with 256. change (2 ^ (8 - 1)) with 128.
  rewrite (N.mod_small (v mod 8) 256) by lia.
  replace (v mod 8 <? 128) with true by (symmetry; apply N.ltb_lt; lia). reflexivity.
Qed.

(** the tag word: index<<3 | wt is index*8 + wt when wt is one of the 3-bit codes *)
Lemma gen_tag_word : forall wt index, (0 <= wt < 8)%Z ->
  N.lor (s2u 64 (sshl 64 index 3)) (s2u 64 wt) = tag_value (Z.to_N wt) index.
Proof.
  intros wt index Hwt. unfold tag_value, sshl, s2u. rewrite Z.shiftl_mul_pow2 by lia. change (2 ^ Z.of_N 3)%Z with 8%Z.
  destruct (swrap64_congr (index * 8)) as [k Hk]. rewrite Hk.
  assert (E1 : ubits 64 (index * 8 + k * 18446744073709551616) = u64 (index * 8)).
  { rewrite ubits64. unfold u64, two64Z. f_equal. lia. }
  rewrite E1. rewrite (ubits64 wt). rewrite Z.mod_small by lia.
  (* the low three bits of u64 (index*8) are clear *)
  assert (Hm : exists m, u64 (index * 8) = 8 * m).
  { unfold u64, two64Z. exists (Z.to_N ((index * 8) mod 18446744073709551616 / 8)). lia. }
  destruct Hm as [m Hm]. rewrite Hm.
  assert (Hw : Z.to_N wt < 8) by lia. remember (Z.to_N wt) as w eqn:Ew. clear -Hw.
  assert (Hl : N.land (8 * m) w = 0).
  { apply N.bits_inj. intros i. rewrite N.land_spec, N.bits_0.
    change 8 with (2 ^ 3). rewrite N.mul_comm, <- N.shiftl_mul_pow2.
    destruct (N.ltb i 3) eqn:Ei.
    - apply N.ltb_lt in Ei. rewrite N.shiftl_spec_low by exact Ei. reflexivity.
    - apply N.ltb_ge in Ei.
      assert (Hwi : N.testbit w i = false).
      { destruct (N.eq_dec w 0) as [->|Hz]; [apply N.bits_0|]. apply N.bits_above_log2.
        assert (N.log2 w < 3) by (apply N.log2_lt_pow2; [lia|change (2 ^ 3) with 8; lia]). lia. }
      rewrite Hwi. apply andb_false_r. }
  rewrite <- (N.lxor_lor _ _ Hl). symmetry. apply N.add_nocarry_lxor. exact Hl.
Qed.

Theorem gen_SizeTag : forall wt index, (0 <= wt < 8)%Z -> (0 <= index < 2305843009213693952)%Z ->
  SizeTag wt index = Z.of_N (size_tag (Z.to_N wt) index).
Proof.
  intros wt index Hwt Hi. unfold SizeTag, size_tag. rewrite (gen_tag_word wt index Hwt).
  apply gen_SizeVarUint. apply tag_value_small; [lia|exact Hi].
Qed.

Theorem gen_AppendTag : forall wt index data fuel, (0 <= wt < 8)%Z -> (0 <= index < 2305843009213693952)%Z -> (10 <= fuel)%nat ->
  AppendTag fuel data wt index = Ok (data ++ append_tag (Z.to_N wt) index).
Proof.
  intros wt index data fuel Hwt Hi Hf. unfold AppendTag, append_tag. rewrite (gen_tag_word wt index Hwt).
  rewrite gen_AppendVarUint64; [reflexivity| |exact Hf]. apply tag_value_small; [lia|exact Hi].
Qed.

(** ** Skip *)

Definition lift (r : res N) : res Z := match r with Ok n => Ok (Z.of_N n) | _ => Err end.

Lemma skipn_skipn' {A} : forall a b (l : list A), skipn a (skipn b l) = skipn (b + a) l.
Proof. intros a b; revert a. induction b as [|b IH]; intros a l; [reflexivity|]. destruct l; [destruct a; reflexivity|]. cbn [skipn Nat.add]. apply IH. Qed.

Lemma high_bit_sweep : forallb (fun x => Bool.eqb (N.land x 128 =? 0) (x <? 128)) (map N.of_nat (seq 0 256)) = true.
Proof. vm_compute. reflexivity. Qed.
Lemma high_bit v : v < 256 -> (N.land v 128 =? 0) = (v <? 128).
Proof.
  intros Hv. pose proof high_bit_sweep as H. rewrite forallb_forall in H.
  specialize (H v). apply Bool.eqb_prop. apply H.
  apply in_map_iff. exists (N.to_nat v). split; [lia|]. apply in_seq. lia.
Qed.

(** the WTVarInt arm: the range loop is [skip_varint] *)
Lemma gen_skip_varint_loop : forall rest (i : nat), bytes_ok rest -> (i <= 10)%nat ->
  (do lr <- (fix loop1 (i : Z) (rest : bytes) {struct rest} : res (lout Z unit) :=
               match rest with
               | [] => Ok (LDone tt)
               | v :: rest' =>
                 if N.land v 128 =? 0 then Ok (LRet (sadd 64 i 1))
                 else if (9 <? i)%Z then Err else loop1 (sadd 64 i 1) rest'
               end) (Z.of_nat i) rest;
   match lr with LRet v => Ok v | LDone _ => Err end)
  = lift (skip_varint rest i).
Proof.
  induction rest as [|v rest IH]; intros i Hb Hi; [reflexivity|].
  inversion Hb as [|? ? Hv Hr]; subst. unfold byte_ok in Hv.
  cbn [skip_varint]. rewrite (high_bit v Hv).
  assert (Hs : sadd 64 (Z.of_nat i) 1 = Z.of_nat (S i)) by (unfold sadd; rewrite swrap64_small by lia; lia).
  destruct (v <? 128).
  - cbn [bind lift]. rewrite Hs. f_equal; try lia.
  - replace (9 <? Z.of_nat i)%Z with (Nat.ltb 9 i).
    2:{ destruct (Nat.ltb 9 i) eqn:E; symmetry; [apply Nat.ltb_lt in E; apply Z.ltb_lt; lia|apply Nat.ltb_ge in E; apply Z.ltb_ge; lia]. }
    destruct (Nat.ltb 9 i) eqn:E; [reflexivity|]. apply Nat.ltb_ge in E.
    rewrite Hs. apply IH; [exact Hr|lia].
Qed.

(** the WTSlice arm: the counted loop is [skip_slice] (enough fuel: every
    iteration consumes at least one byte) *)
Definition slice_loop (data : bytes) (count_ : N) :=
  fix loop2 (fuel' : nat) (i : N) (offset : Z) {struct fuel'} : res (lout Z (N * Z)) :=
    match fuel' with
    | O => Hang "Skip.loop2"
    | S fuel' =>
      if N.ltb i count_ then
        if Z.leb (go_len data) offset then Err
        else do sl_1 <- go_slice_from "Skip.sl_1" data offset;
             let '(l, n) := ReadVarUint sl_1 in
             if Z.leb n 0 then Err
             else let offset := sadd 64 offset n in
                  if N.ltb (s2u 64 (ssub 64 (go_len data) offset)) l then Err
                  else let offset := sadd 64 offset (u2s 64 l) in
                       let i := uadd 64 i 1 in loop2 fuel' i offset
      else Ok (LDone (i, offset))
    end.

Lemma gen_skip_slice_loop : forall data count_, (Z.of_nat (length data) < 4611686018427387904)%Z -> count_ < two64 ->
  forall f i offset, i <= count_ -> (0 <= offset <= Z.of_nat (length data))%Z ->
  (length (skipn (Z.to_nat offset) data) < f)%nat ->
  (do lr <- slice_loop data count_ f i offset;
   match lr with LRet v => Ok v | LDone (_, offset) => Ok offset end)
  = lift (skip_slice f (count_ - i) (skipn (Z.to_nat offset) data) (Z.to_N offset)).
Proof.
  intros data count_ Hlen Hc. unfold two64 in Hc.
  induction f as [|f IH]; intros i offset Hi Hoff Hf; [lia|].
  cbn [slice_loop skip_slice].
  destruct (N.ltb i count_) eqn:Eic.
  2:{ apply N.ltb_ge in Eic. replace (count_ - i =? 0) with true by (symmetry; apply N.eqb_eq; lia).
      cbn [bind lift]. f_equal. lia. }
  apply N.ltb_lt in Eic. replace (count_ - i =? 0) with false by (symmetry; apply N.eqb_neq; lia).
  set (rest := skipn (Z.to_nat offset) data) in *.
  assert (Hrl : length rest = (length data - Z.to_nat offset)%nat) by (unfold rest; apply skipn_length).
  unfold go_len.
  destruct (Z.leb (Z.of_nat (length data)) offset) eqn:Eend.
  - apply Z.leb_le in Eend. destruct rest as [|b r]; [reflexivity|]. cbn [length] in Hrl. lia.
  - apply Z.leb_gt in Eend. destruct rest as [|b r] eqn:Er; [cbn [length] in Hrl; lia|]. rewrite <- Er in *.
    unfold go_slice_from, go_len.
    replace ((offset <? 0) || (Z.of_nat (length data) <? offset))%Z with false
      by (symmetry; apply orb_false_iff; split; [apply Z.ltb_ge|apply Z.ltb_ge]; lia).
    cbn [bind]. fold rest. rewrite gen_ReadVarUint.
    replace (match rest with [] => Err | _ :: _ => let '(l, n) := read_varuint rest in
                if (n <=? 0)%Z then Err else
                do rest1 <- go_drop "Skip.WTSlice data[offset:]" (Z.to_N n) rest;
                if len rest1 <? l then Err else
                do rest2 <- go_drop "Skip.WTSlice data[offset:]" l rest1;
                skip_slice f (count_ - i - 1) rest2 (Z.to_N offset + Z.to_N n + l) end)
      with (let '(l, n) := read_varuint rest in
                if (n <=? 0)%Z then Err else
                do rest1 <- go_drop "Skip.WTSlice data[offset:]" (Z.to_N n) rest;
                if len rest1 <? l then Err else
                do rest2 <- go_drop "Skip.WTSlice data[offset:]" l rest1;
                skip_slice f (count_ - i - 1) rest2 (Z.to_N offset + Z.to_N n + l)) by (rewrite Er; reflexivity).
    destruct (read_varuint rest) as [l n] eqn:Erv.
    pose proof (read_varuint_n rest l n Erv) as Hn. unfold len in Hn.
    destruct (Z.leb n 0) eqn:En0; [reflexivity|]. apply Z.leb_gt in En0.
    destruct (go_drop_ok "Skip.WTSlice data[offset:]" (Z.to_N n) rest ltac:(unfold len; lia)) as [E1 L1].
    rewrite E1. cbn [bind]. unfold len in L1.
    assert (Ho1 : sadd 64 offset n = (offset + n)%Z) by (unfold sadd; apply swrap64_small; lia).
    rewrite Ho1.
    assert (Hs1 : ssub 64 (Z.of_nat (length data)) (offset + n) = (Z.of_nat (length data) - (offset + n))%Z)
      by (unfold ssub; apply swrap64_small; lia).
    rewrite Hs1. rewrite s2u64_nonneg by lia.
    replace (Z.to_N (Z.of_nat (length data) - (offset + n))) with (len (skipn (N.to_nat (Z.to_N n)) rest)) by (unfold len; lia).
    destruct (len (skipn (N.to_nat (Z.to_N n)) rest) <? l) eqn:El; [reflexivity|]. apply N.ltb_ge in El.
    destruct (go_drop_ok "Skip.WTSlice data[offset:]" l (skipn (N.to_nat (Z.to_N n)) rest) El) as [E2 L2].
    rewrite E2. cbn [bind]. unfold len in El, L2.
    assert (Hl62 : l < 4611686018427387904) by lia.
    rewrite (u2s64_small l) by lia.
    assert (Ho2 : sadd 64 (offset + n) (Z.of_N l) = (offset + n + Z.of_N l)%Z) by (unfold sadd; apply swrap64_small; lia).
    rewrite Ho2.
    assert (Hi1 : uadd 64 i 1 = i + 1).
    { unfold uadd, uwrap. rewrite ubits64. rewrite Z.mod_small by lia. lia. }
    rewrite Hi1.
    assert (Hrest2 : skipn (N.to_nat l) (skipn (N.to_nat (Z.to_N n)) rest) = skipn (Z.to_nat (offset + n + Z.of_N l)) data).
    { unfold rest. rewrite !skipn_skipn'. f_equal. lia. }
    rewrite Hrest2.
    replace (count_ - i - 1) with (count_ - (i + 1)) by lia.
    replace (Z.to_N offset + Z.to_N n + l) with (Z.to_N (offset + n + Z.of_N l)) by lia.
    apply IH; [lia|lia|]. rewrite <- Hrest2. lia.
Qed.

(** the model's counted loop does not depend on its fuel once there is enough of it *)
Lemma skip_slice_fuel : forall f1 f2 count_ rest off, (length rest < f1)%nat -> (length rest < f2)%nat ->
  skip_slice f1 count_ rest off = skip_slice f2 count_ rest off.
Proof.
  induction f1 as [|f1 IH]; intros f2 count_ rest off H1 H2; [lia|]. destruct f2 as [|f2]; [lia|].
  cbn [skip_slice]. destruct (count_ =? 0); [reflexivity|]. destruct rest as [|b r]; [reflexivity|].
  destruct (read_varuint (b :: r)) as [l n] eqn:Erv.
  destruct (Z.leb n 0) eqn:En0; [reflexivity|]. apply Z.leb_gt in En0.
  unfold go_drop. destruct (Z.to_N n <=? len (b :: r)) eqn:E1; [|reflexivity]. cbn [bind].
  destruct (len (skipn (N.to_nat (Z.to_N n)) (b :: r)) <? l); [reflexivity|].
  destruct (l <=? len (skipn (N.to_nat (Z.to_N n)) (b :: r))) eqn:E2; [|reflexivity]. cbn [bind].
  apply IH; rewrite !skipn_length; cbn [length] in *; lia.
Qed.

(** the relation between what the translated Skip returns and what the model's [skip] returns *)
Theorem gen_Skip_fuel : forall data wt fuel, bytes_ok data -> (0 <= wt < 128)%Z ->
  (Z.of_nat (length data) < 4611686018427387904)%Z -> (length data < fuel)%nat ->
  Skip fuel data wt = lift (skip data (Z.to_N wt)).
Proof.
  intros data wt fuel Hb Hwt Hlen Hfuel. unfold Skip, skip.
  assert (Hcase : (wt = 0 \/ wt = 1 \/ wt = 2 \/ wt = 3 \/ wt = 5 \/ (wt = 4 \/ 6 <= wt))%Z) by lia.
  destruct Hcase as [->|[->|[->|[->|[->|Hother]]]]].
  - (* WTVarInt *) cbn [Z.eqb Z.to_N N.eqb Wire.WTVarInt]. apply (gen_skip_varint_loop data 0 Hb). lia.
  - (* WT64 *) cbn [Z.eqb Z.to_N N.eqb Pos.eqb Wire.WTVarInt Wire.WT64]. unfold go_len, len.
    destruct (N.of_nat (length data) <? 8) eqn:E.
    + apply N.ltb_lt in E. replace (Z.of_nat (length data) <? 8)%Z with true by (symmetry; apply Z.ltb_lt; lia). reflexivity.
    + apply N.ltb_ge in E. replace (Z.of_nat (length data) <? 8)%Z with false by (symmetry; apply Z.ltb_ge; lia). reflexivity.
  - (* WTLength *) cbn [Z.eqb Z.to_N N.eqb Pos.eqb Wire.WTVarInt Wire.WT64 Wire.WTLength]. rewrite gen_ReadVarUint.
    destruct (read_varuint data) as [l n] eqn:Erv. pose proof (read_varuint_n data l n Erv) as Hn. unfold len in Hn.
    destruct (Z.leb n 0) eqn:En0; [reflexivity|]. apply Z.leb_gt in En0. unfold go_len.
    assert (Hs1 : ssub 64 (Z.of_nat (length data)) n = (Z.of_nat (length data) - n)%Z) by (unfold ssub; apply swrap64_small; lia).
    rewrite Hs1, s2u64_nonneg by lia.
    replace (Z.to_N (Z.of_nat (length data) - n)) with (len data - Z.to_N n) by (unfold len; lia).
    destruct (len data - Z.to_N n <? l) eqn:El; [reflexivity|]. apply N.ltb_ge in El. unfold len in El.
    rewrite (u2s64_small l) by lia. cbn [lift]. f_equal. unfold sadd. rewrite swrap64_small by lia. lia.
  - (* WTSlice *) cbn [Z.eqb Z.to_N N.eqb Pos.eqb Wire.WTVarInt Wire.WT64 Wire.WTLength Wire.WTSlice]. rewrite gen_ReadVarUint.
    destruct (read_varuint data) as [count_ n] eqn:Erv. pose proof (read_varuint_n data count_ n Erv) as Hn. unfold len in Hn.
    pose proof (read_varuint_lt64 data count_ n Hb Erv) as Hc.
    destruct (Z.leb n 0) eqn:En0; [reflexivity|]. apply Z.leb_gt in En0.
    destruct (go_drop_ok "Skip.WTSlice data[n:]" (Z.to_N n) data ltac:(unfold len; lia)) as [E1 L1]. rewrite E1. cbn [bind].
    change ((do lr <- slice_loop data count_ fuel 0 n;
             match lr with LRet v => Ok v | LDone (_, offset) => Ok offset end)
            = lift (skip_slice (S (length data)) count_ (skipn (N.to_nat (Z.to_N n)) data) (Z.to_N n))).
    pose proof (gen_skip_slice_loop data count_ Hlen Hc fuel 0 n ltac:(lia) ltac:(lia)) as H.
    rewrite N.sub_0_r in H. replace (N.to_nat (Z.to_N n)) with (Z.to_nat n) by lia.
    rewrite (skip_slice_fuel (S (length data)) fuel) by (rewrite skipn_length; lia).
    apply H. rewrite skipn_length. lia.
  - (* WT32 *) cbn [Z.eqb Z.to_N N.eqb Pos.eqb Wire.WTVarInt Wire.WT64 Wire.WTLength Wire.WTSlice Wire.WT32]. unfold go_len, len.
    destruct (N.of_nat (length data) <? 4) eqn:E.
    + apply N.ltb_lt in E. replace (Z.of_nat (length data) <? 4)%Z with true by (symmetry; apply Z.ltb_lt; lia). reflexivity.
    + apply N.ltb_ge in E. replace (Z.of_nat (length data) <? 4)%Z with false by (symmetry; apply Z.ltb_ge; lia). reflexivity.
  - (* every other code: unsupported wire type *)
    replace (Z.eqb wt 0) with false by (symmetry; apply Z.eqb_neq; lia).
    replace (Z.eqb wt 1) with false by (symmetry; apply Z.eqb_neq; lia).
    replace (Z.eqb wt 2) with false by (symmetry; apply Z.eqb_neq; lia).
    replace (Z.eqb wt 3) with false by (symmetry; apply Z.eqb_neq; lia).
    replace (Z.eqb wt 5) with false by (symmetry; apply Z.eqb_neq; lia).
    unfold Wire.WTVarInt, Wire.WT64, Wire.WTLength, Wire.WTSlice, Wire.WT32.
    replace (Z.to_N wt =? 0) with false by (symmetry; apply N.eqb_neq; lia).
    replace (Z.to_N wt =? 1) with false by (symmetry; apply N.eqb_neq; lia).
    replace (Z.to_N wt =? 2) with false by (symmetry; apply N.eqb_neq; lia).
    replace (Z.to_N wt =? 3) with false by (symmetry; apply N.eqb_neq; lia).
    replace (Z.to_N wt =? 5) with false by (symmetry; apply N.eqb_neq; lia).
    reflexivity.
Qed.

Theorem gen_Skip : forall data wt, bytes_ok data -> (0 <= wt < 128)%Z ->
  (Z.of_nat (length data) < 4611686018427387904)%Z ->
  Skip (S (length data)) data wt = lift (skip data (Z.to_N wt)).
Proof. intros data wt Hb Hwt Hlen. apply gen_Skip_fuel; auto. Qed.

(** ** C18 on the code as translated: the properties of the model carried over *)

Theorem code_varuint_roundtrip : forall v rest fuel, v < two64 -> (10 <= fuel)%nat ->
  exists b, AppendVarUint fuel [] v = Ok b /\
            ReadVarUint (b ++ rest) = (v, Z.of_nat (length b)) /\ SizeVarUint v = Z.of_nat (length b).
Proof.
  intros v rest fuel Hv Hf. exists (append_varuint v). split; [apply (gen_AppendVarUint64 v [] fuel Hv Hf)|]. split.
  - rewrite gen_ReadVarUint, read_append_varuint by exact Hv. unfold len. f_equal. lia.
  - rewrite gen_SizeVarUint by exact Hv. rewrite size_append_varuint by exact Hv. unfold len. lia.
Qed.

Theorem code_varint_roundtrip : forall v rest fuel, int64_ok v -> (10 <= fuel)%nat ->
  exists b, AppendVarInt fuel [] v = Ok b /\
            ReadVarInt (b ++ rest) = (v, Z.of_nat (length b)) /\ SizeVarInt v = Z.of_nat (length b).
Proof.
  intros v rest fuel Hv Hf. exists (append_varint v). split; [apply (gen_AppendVarInt v [] fuel Hv Hf)|].
  assert (Hb : forall r, bytes_ok r -> bytes_ok (append_varint v ++ r)).
  { intros r Hr. apply Forall_app. split; [apply append_varuint_bytes_ok, zigzag_range; exact Hv|exact Hr]. }
  split.
  - (* reading does not look at what follows: state it for the model and transfer *)
    unfold ReadVarInt. rewrite gen_ReadVarUint.
    pose proof (read_append_varint v rest Hv) as H. unfold read_varint in H.
    destruct (read_varuint (append_varint v ++ rest)) as [u n] eqn:E.
    injection H as H1 H2. rewrite gen_ZagZig.
    + rewrite H1, H2. unfold len. f_equal. lia.
    + unfold append_varint in E. rewrite read_append_varuint in E by (apply zigzag_range; exact Hv).
      injection E as <- _. apply zigzag_range. exact Hv.
  - rewrite gen_SizeVarInt by exact Hv. rewrite size_append_varint by exact Hv. unfold len. lia.
Qed.

Theorem code_zigzag_inverse : forall v, int64_ok v -> ZagZig (ZigZag v) = v.
Proof. intros v Hv. rewrite gen_ZigZag by exact Hv. rewrite gen_ZagZig by (apply zigzag_range; exact Hv). apply zagzig_zigzag. exact Hv. Qed.

Theorem code_tag_roundtrip : forall wt index rest fuel, (0 <= wt < 8)%Z -> (0 <= index < 2305843009213693952)%Z -> (10 <= fuel)%nat ->
  exists b, AppendTag fuel [] wt index = Ok b /\
            ReadTag (b ++ rest) = (wt, index, Z.of_nat (length b)) /\ SizeTag wt index = Z.of_nat (length b).
Proof.
  intros wt index rest fuel Hwt Hi Hf. exists (append_tag (Z.to_N wt) index).
  split; [apply (gen_AppendTag wt index [] fuel Hwt Hi Hf)|]. split.
  - unfold ReadTag. rewrite gen_ReadVarUint.
    pose proof (read_append_tag (Z.to_N wt) index rest ltac:(lia) Hi) as H. unfold read_tag in H.
    destruct (read_varuint (append_tag (Z.to_N wt) index ++ rest)) as [v n] eqn:E.
    injection H as H1 H2 H3.
    assert (Hv : v < two64).
    { unfold append_tag in E. destruct (tag_value_small (Z.to_N wt) index ltac:(lia) Hi) as [_ Hlt].
      rewrite read_append_varuint in E by exact Hlt. injection E as <- _. exact Hlt. }
    unfold two64 in Hv. unfold ushr. rewrite N.shiftr_div_pow2. change (2 ^ 3) with 8.
    change 7 with (N.ones 3). rewrite N.land_ones. change (2 ^ 3) with 8.
    rewrite (u2s64_small (v / 8)) by (apply N.div_lt_upper_bound; lia).
    rewrite H2, H3. f_equal; [f_equal|unfold len; lia].
    unfold u2s, sbits. change (2 ^ 8) with 256. change (2 ^ (8 - 1)) with 128. rewrite H1.
    rewrite (N.mod_small (Z.to_N wt) 256) by lia.
    replace (Z.to_N wt <? 128) with true by (symmetry; apply N.ltb_lt; lia). lia.
  - rewrite gen_SizeTag by assumption. rewrite size_append_tag by (assumption || lia). unfold len. lia.
Qed.

Theorem code_skip_exact_varint : forall v rest, v < two64 -> bytes_ok rest ->
  (Z.of_nat (length (append_varuint v ++ rest)) < 4611686018427387904)%Z ->
  Skip (S (length (append_varuint v ++ rest))) (append_varuint v ++ rest) 0 = Ok (Z.of_nat (length (append_varuint v))).
Proof.
  intros v rest Hv Hr Hl. rewrite gen_Skip; [|apply Forall_app; split; [apply append_varuint_bytes_ok; exact Hv|exact Hr]|lia|exact Hl].
  change (Z.to_N 0) with Wire.WTVarInt. rewrite skip_exact_varint by exact Hv. cbn [lift]. unfold len. f_equal. lia.
Qed.

Theorem code_skip_exact_length : forall body rest, bytes_ok body -> bytes_ok rest ->
  let data := append_varuint (len body) ++ body ++ rest in
  (Z.of_nat (length data) < 4611686018427387904)%Z ->
  Skip (S (length data)) data 2 = Ok (Z.of_nat (length (append_varuint (len body)) + length body)).
Proof.
  intros body rest Hb Hr data Hl.
  assert (Hlb : len body < two64).
  { unfold data in Hl. rewrite !app_length in Hl. unfold len, two64. lia. }
  rewrite gen_Skip; [|unfold data; repeat (apply Forall_app; split); auto; apply append_varuint_bytes_ok; exact Hlb|lia|exact Hl].
  change (Z.to_N 2) with Wire.WTLength. unfold data. rewrite skip_exact_length by exact Hlb. cbn [lift]. unfold len. f_equal. lia.
Qed.

(** Skip never panics or hangs on any input, and what it returns is within the data *)
Theorem code_skip_total : forall data wt, bytes_ok data -> (0 <= wt < 128)%Z ->
  (Z.of_nat (length data) < 4611686018427387904)%Z ->
  match Skip (S (length data)) data wt with
  | Ok n => (0 <= n <= Z.of_nat (length data))%Z
  | Err => True
  | _ => False
  end.
Proof.
  intros data wt Hb Hwt Hl. rewrite gen_Skip by assumption.
  pose proof (skip_total data (Z.to_N wt)) as Ht. pose proof (skip_bounded data (Z.to_N wt)) as Hbd.
  destruct (skip data (Z.to_N wt)) as [n| | | |]; cbn [lift]; try exact I.
  specialize (Hbd n eq_refl). unfold len in Hbd. lia.
Qed.
